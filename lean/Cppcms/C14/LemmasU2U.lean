import Cppcms.C14.LemmasStr
/-!
Helper lemmas for C14: `booster::locale::conv::utf_to_utf` over the proved `decode` model.
-/
set_option linter.unusedSimpArgs false
namespace Cppcms.C14
open Cppcms Spec

/-! ### `utf_traits<char>::encode` is the RFC 3629 encoder on scalar values -/

theorem or_const (k i a : Nat) (h : a < 2 ^ i) : a ||| (k <<< i) = k * 2 ^ i + a := by
  rw [Nat.or_comm, ← Nat.shiftLeft_add_eq_or_of_lt h, Nat.shiftLeft_eq]

theorem or192 (a : Nat) (h : a < 64) : a ||| 192 = 192 + a := by
  have := or_const 3 6 a (by omega); simpa [Nat.add_comm] using this
theorem or128 (a : Nat) (h : a < 64) : a ||| 128 = 128 + a := by
  have := or_const 2 6 a (by omega); simpa [Nat.add_comm] using this
theorem or224 (a : Nat) (h : a < 32) : a ||| 224 = 224 + a := by
  have := or_const 7 5 a (by omega); simpa [Nat.add_comm] using this
theorem or240 (a : Nat) (h : a < 16) : a ||| 240 = 240 + a := by
  have := or_const 15 4 a (by omega); simpa [Nat.add_comm] using this

theorem shr6 (v : Nat) : v >>> 6 = v / 64 := by rw [Nat.shiftRight_eq_div_pow]
theorem shr12 (v : Nat) : v >>> 12 = v / 4096 := by rw [Nat.shiftRight_eq_div_pow]
theorem shr18 (v : Nat) : v >>> 18 = v / 262144 := by rw [Nat.shiftRight_eq_div_pow]

theorem boost_encode_eq_spec {v : Nat} (h : Scalar v) : Boost.encode v = Spec.encode v := by
  obtain ⟨h1, _⟩ := h
  unfold Boost.encode Spec.encode Gen.Boost.encC1 Gen.Boost.encC2 Gen.Boost.encC3
  by_cases c1 : v ≤ 0x7F
  · simp only [c1, decide_true, if_true, Gen.Boost.encE11]
  · by_cases c2 : v ≤ 0x7FF
    · have c1' : ¬ v ≤ 127 := c1
      have c2' : v ≤ 2047 := c2
      simp only [c1, c1', c2, c2', decide_true, decide_false, if_true, if_false, Bool.false_eq_true,
        Gen.Boost.encE21, Gen.Boost.encE22, shr6, and63]
      rw [or192 _ (by omega), or128 _ (by omega)]
    · by_cases c3 : v ≤ 0xFFFF
      · have c1' : ¬ v ≤ 127 := c1
        have c2' : ¬ v ≤ 2047 := c2
        have c3' : v ≤ 65535 := c3
        simp only [c1, c1', c2, c2', c3, c3', decide_true, decide_false, if_true, if_false, Bool.false_eq_true,
          Gen.Boost.encE31, Gen.Boost.encE32, Gen.Boost.encE33, shr6, shr12, and63]
        rw [or224 _ (by omega), or128 _ (by omega), or128 _ (by omega)]
      · have c1' : ¬ v ≤ 127 := c1
        have c2' : ¬ v ≤ 2047 := c2
        have c3' : ¬ v ≤ 65535 := c3
        simp only [c1, c1', c2, c2', c3, c3', decide_false, if_false, Bool.false_eq_true,
          Gen.Boost.encE41, Gen.Boost.encE42, Gen.Boost.encE43, Gen.Boost.encE44, shr6, shr12, shr18, and63]
        rw [or240 _ (by omega), or128 _ (by omega), or128 _ (by omega), or128 _ (by omega)]

/-! ### which decoder results `utf_to_utf` treats as errors -/

theorem isError_cp {v : Nat} (h : v ≤ 0x10FFFF) : Gen.u2uIsError (Boost.code (.cp v)) = false := by
  unfold Gen.u2uIsError Boost.code Gen.boostIllegal Gen.boostIncomplete
  simp; omega
theorem isError_illegal : Gen.u2uIsError (Boost.code .illegal) = true := by decide
theorem isError_incomplete : Gen.u2uIsError (Boost.code .incomplete) = true := by decide
theorem throws_stop : Gen.u2uThrows Gen.methodStop = true := by decide
theorem throws_skip : Gen.u2uThrows Gen.methodSkip = false := by decide

/-! ### one `decode` step -/

theorem decode_cp_iff (bs rest : Bytes) (v : Nat) :
    Boost.decode bs = (.cp v, rest) ↔ ∃ enc, bs = enc ++ rest ∧ Rfc3629 v enc := by
  have hag := next_eq_collapse_decode bs
  have key : Boost.decode bs = (.cp v, rest) ↔ Cms.next false bs = (.cp v, rest) := by
    rw [hag]
    constructor
    · intro h; rw [h]; rfl
    · intro h
      have h1 : collapse (Boost.decode bs).1 = .cp v := congrArg Prod.fst h
      have h2 : (Boost.decode bs).2 = rest := congrArg Prod.snd h
      cases hd : (Boost.decode bs).1 with
      | cp w => rw [hd] at h1; cases h1; rw [← h2, ← hd]
      | illegal => rw [hd] at h1; cases h1
      | incomplete => rw [hd] at h1; cases h1
  rw [key, next_cp_iff]
  simp [modeOk]

/-- `decode` consumes at least one byte of a non-empty input, whatever it returns -/
theorem decode_rest_le (a : UInt8) (p : Bytes) : (Boost.decode (a :: p)).2.length ≤ p.length := by
  rcases lead_cases a.toNat with h0 | hb | h2 | h3 | h4
  · rw [Boost.decode_ascii a p h0]; exact Nat.le_refl _
  · rw [Boost.decode_badLead a p hb]; exact Nat.le_refl _
  · rw [Boost.decode_lead2 a p h2]
    match p with
    | [] => simp
    | b :: p1 => dsimp only; repeat' split
                 all_goals (simp; try omega)
  · rw [Boost.decode_lead3 a p h3]
    match p with
    | [] => simp
    | [b] => dsimp only; repeat' split
             all_goals (simp; try omega)
    | b :: c :: p2 => dsimp only; repeat' split
                      all_goals (simp; try omega)
  · rw [Boost.decode_lead4 a p h4]
    match p with
    | [] => simp
    | [b] => dsimp only; repeat' split
             all_goals (simp; try omega)
    | [b, c] => dsimp only; repeat' split
                all_goals (simp; try omega)
    | b :: c :: d :: p3 => dsimp only; repeat' split
                           all_goals (simp; try omega)

/-! ### the conversion loop -/

/-- `s` splits into RFC 3629 characters `chars` (code point, encoding) -/
def Splits (s : Bytes) (chars : List (Nat × Bytes)) : Prop :=
  s = (chars.map (·.2)).flatten ∧ ∀ ch ∈ chars, Rfc3629 ch.1 ch.2

theorem splits_wf {s : Bytes} {chars : List (Nat × Bytes)} (h : Splits s chars) :
    WellFormed false s chars.length :=
  ⟨chars, h.1, rfl, fun ch hc => ⟨h.2 ch hc, rfl⟩⟩

theorem wf_splits {s : Bytes} {n : Nat} (h : WellFormed false s n) : ∃ chars, Splits s chars := by
  obtain ⟨chars, hs, _, hc⟩ := h
  exact ⟨chars, hs, fun ch h => (hc ch h).1⟩

/-- on well-formed input the loop yields exactly its code points, in either mode -/
theorem u2uFuel_splits (how : Nat) : ∀ (fuel : Nat) (s : Bytes) (chars : List (Nat × Bytes)),
    s.length ≤ fuel → Splits s chars → Boost.u2uFuel how fuel s = some (chars.map (·.1)) := by
  intro fuel
  induction fuel with
  | zero =>
    intro s chars hl hs
    have : s = [] := List.eq_nil_of_length_eq_zero (by omega)
    subst this
    match chars, hs with
    | [], _ => simp [Boost.u2uFuel]
    | (v, enc) :: cs, ⟨he, hc⟩ =>
      exfalso
      have := rfc_nonempty (hc (v, enc) (by simp))
      simp at he
      exact this he.1
  | succ f ih =>
    intro s chars hl hs
    match chars, hs with
    | [], ⟨he, _⟩ => simp at he; subst he; simp [Boost.u2uFuel]
    | (v, enc) :: cs, ⟨he, hc⟩ =>
      have hr : Rfc3629 v enc := hc (v, enc) (by simp)
      have hpos := rfc_length_pos hr
      have hd : Boost.decode s = (.cp v, (cs.map (·.2)).flatten) :=
        (decode_cp_iff _ _ _).2 ⟨enc, by simpa using he, hr⟩
      have hv := (rfc_scalar_shortest hr).1.1
      match s, hl, he, hd with
      | [], _, he, _ =>
        exfalso
        have : enc.length = 0 := by
          have := congrArg List.length he
          simp at this; omega
        omega
      | a :: p, hl, he, hd =>
        have hlen : ((cs.map (·.2)).flatten).length ≤ f := by
          have := congrArg List.length he
          simp at this hl; simp; omega
        have ih' := ih _ cs hlen ⟨rfl, fun ch h => hc ch (by simp [h])⟩
        simp only [Boost.u2uFuel, hd, isError_cp hv, Bool.false_eq_true, if_false, ih']
        simp [Boost.code]

/-- in skip mode the loop never throws and hands only scalar values to `encode` -/
theorem u2uFuel_skip_scalars : ∀ (fuel : Nat) (s : Bytes), s.length ≤ fuel →
    ∃ cs, Boost.u2uFuel Gen.methodSkip fuel s = some cs ∧ ∀ c ∈ cs, Scalar c := by
  intro fuel
  induction fuel with
  | zero =>
    intro s hl
    have : s = [] := List.eq_nil_of_length_eq_zero (by omega)
    subst this
    exact ⟨[], by simp [Boost.u2uFuel], by simp⟩
  | succ f ih =>
    intro s hl
    match s with
    | [] => exact ⟨[], by simp [Boost.u2uFuel], by simp⟩
    | a :: p =>
      have hle := decode_rest_le a p
      obtain ⟨cs, hcs, hsc⟩ := ih (Boost.decode (a :: p)).2 (by simp at hl; omega)
      cases hd : (Boost.decode (a :: p)).1 with
      | cp v =>
        have hd' : Boost.decode (a :: p) = (.cp v, (Boost.decode (a :: p)).2) := by rw [← hd]
        obtain ⟨enc, _, hr⟩ := (decode_cp_iff _ _ _).1 hd'
        have hsv := (rfc_scalar_shortest hr).1
        refine ⟨v :: cs, ?_, ?_⟩
        · simp only [Boost.u2uFuel, hd, isError_cp hsv.1, Bool.false_eq_true, if_false, hcs]
          simp [Boost.code]
        · intro c hc
          rcases List.mem_cons.1 hc with rfl | h
          · exact hsv
          · exact hsc c h
      | illegal =>
        exact ⟨cs, by simp only [Boost.u2uFuel, hd, isError_illegal, throws_skip, if_true, Bool.false_eq_true, if_false, hcs], hsc⟩
      | incomplete =>
        exact ⟨cs, by simp only [Boost.u2uFuel, hd, isError_incomplete, throws_skip, if_true, Bool.false_eq_true, if_false, hcs], hsc⟩

/-- in stop mode a result means the input split into characters -/
theorem u2uFuel_stop_splits : ∀ (fuel : Nat) (s : Bytes) (cs : List Nat), s.length ≤ fuel →
    Boost.u2uFuel Gen.methodStop fuel s = some cs → ∃ chars, Splits s chars ∧ cs = chars.map (·.1) := by
  intro fuel
  induction fuel with
  | zero =>
    intro s cs hl h
    have : s = [] := List.eq_nil_of_length_eq_zero (by omega)
    subst this
    simp [Boost.u2uFuel] at h
    exact ⟨[], ⟨rfl, by simp⟩, by simp [h]⟩
  | succ f ih =>
    intro s cs hl h
    match s with
    | [] =>
      simp [Boost.u2uFuel] at h
      exact ⟨[], ⟨rfl, by simp⟩, by simp [h]⟩
    | a :: p =>
      have hle := decode_rest_le a p
      cases hd : (Boost.decode (a :: p)).1 with
      | cp v =>
        have hd' : Boost.decode (a :: p) = (.cp v, (Boost.decode (a :: p)).2) := by rw [← hd]
        obtain ⟨enc, he, hr⟩ := (decode_cp_iff _ _ _).1 hd'
        have hsv := (rfc_scalar_shortest hr).1
        simp only [Boost.u2uFuel, hd, isError_cp hsv.1, Bool.false_eq_true, if_false] at h
        cases hrec : Boost.u2uFuel Gen.methodStop f (Boost.decode (a :: p)).2 with
        | none => rw [hrec] at h; simp at h
        | some cs' =>
          rw [hrec] at h
          simp [Boost.code] at h
          obtain ⟨chars, hsp, hcs⟩ := ih _ cs' (by simp at hl; omega) hrec
          refine ⟨(v, enc) :: chars, ⟨?_, ?_⟩, ?_⟩
          · rw [he, hsp.1]; simp
          · intro ch hch
            rcases List.mem_cons.1 hch with rfl | h'
            · exact hr
            · exact hsp.2 ch h'
          · simp [← h, hcs]
      | illegal =>
        simp only [Boost.u2uFuel, hd, isError_illegal, throws_stop, if_true] at h
        cases h
      | incomplete =>
        simp only [Boost.u2uFuel, hd, isError_incomplete, throws_stop, if_true] at h
        cases h

/-- re-encoding the code points of a split gives the text back -/
theorem encode_splits {s : Bytes} {chars : List (Nat × Bytes)} (h : Splits s chars) :
    ((chars.map (·.1)).map Boost.encode).flatten = s := by
  obtain ⟨he, hc⟩ := h
  subst he
  induction chars with
  | nil => rfl
  | cons ch cs ih =>
    have hr := hc ch (by simp)
    have h1 : Boost.encode ch.1 = ch.2 := by
      rw [boost_encode_eq_spec (rfc_scalar_shortest hr).1, ← rfc_eq_encode hr]
    simp only [List.map_cons, List.flatten_cons, h1]
    rw [ih (fun c hcm => hc c (by simp [hcm]))]

/-- encoding scalar values gives well-formed text -/
theorem encode_scalars_wf : ∀ cs : List Nat, (∀ c ∈ cs, Scalar c) →
    WellFormed false ((cs.map Boost.encode).flatten) cs.length := by
  intro cs
  induction cs with
  | nil => intro _; exact (wf_nil false 0).2 rfl
  | cons c cs ih =>
    intro h
    have hc := h c (by simp)
    have := ih (fun x hx => h x (by simp [hx]))
    simp only [List.map_cons, List.flatten_cons, List.length_cons]
    rw [boost_encode_eq_spec hc]
    exact wf_cons (rfc_encode hc) rfl this

end Cppcms.C14
