import Cppcms.Common
/-!
# C15 specification side (independent of the model and of the generated tables)

`unescape` is what a browser does with the five character references the
escaper may emit; `AmpsOk` says every `&` starts one of them.
-/
namespace Cppcms.C15.Spec
open Cppcms

/-- HTML un-escaping of exactly the five references `&lt; &gt; &amp; &quot; &#39;` -/
def unescape : Bytes → Bytes
  | 38 :: 108 :: 116 :: 59 :: rest => 60 :: unescape rest                 -- &lt;
  | 38 :: 103 :: 116 :: 59 :: rest => 62 :: unescape rest                 -- &gt;
  | 38 :: 97 :: 109 :: 112 :: 59 :: rest => 38 :: unescape rest           -- &amp;
  | 38 :: 113 :: 117 :: 111 :: 116 :: 59 :: rest => 34 :: unescape rest   -- &quot;
  | 38 :: 35 :: 51 :: 57 :: 59 :: rest => 39 :: unescape rest             -- &#39;
  | c :: rest => c :: unescape rest
  | [] => []

def entities : List Bytes :=
  [[38,108,116,59], [38,103,116,59], [38,97,109,112,59], [38,113,117,111,116,59], [38,35,51,57,59]]

/-- every `&` in the text is the first byte of one of the five references -/
def ampsOk : Bytes → Bool
  | [] => true
  | c :: rest => (c != 38 || entities.any (fun e => e.isPrefixOf (c :: rest))) && ampsOk rest

/-- none of `< > " '` occurs -/
def noMarkup (s : Bytes) : Bool := s.all fun c => c != 60 && c != 62 && c != 34 && c != 39

/-- RFC 3986 unreserved set -/
def rfcUnreserved (c : UInt8) : Bool :=
  (65 ≤ c && c ≤ 90) || (97 ≤ c && c ≤ 122) || (48 ≤ c && c ≤ 57) || c == 45 || c == 46 || c == 95 || c == 126

def isHexDigit (c : UInt8) : Bool :=
  (48 ≤ c && c ≤ 57) || (97 ≤ c && c ≤ 102) || (65 ≤ c && c ≤ 70)

/-- the text is a sequence of unreserved characters and `%XX` triples -/
def urlSafe : Bytes → Bool
  | [] => true
  | 37 :: a :: b :: rest => isHexDigit a && isHexDigit b && urlSafe rest
  | c :: rest => rfcUnreserved c && urlSafe rest

/-- base64url alphabet of RFC 4648 §5 -/
def b64urlChar (c : UInt8) : Bool :=
  (65 ≤ c && c ≤ 90) || (97 ≤ c && c ≤ 122) || (48 ≤ c && c ≤ 57) || c == 45 || c == 95

/-! ### form widget rendering -/

/-- reference escaper: the inverse of `unescape` on the five references -/
def refEscape (s : Bytes) : Bytes :=
  s.flatMap fun c =>
    if c == 60 then [38,108,116,59] else if c == 62 then [38,103,116,59]
    else if c == 38 then [38,97,109,112,59] else if c == 34 then [38,113,117,111,116,59]
    else if c == 39 then [38,35,51,57,59] else [c]

/-- every position of `o` at which `tag` starts is the start of `want` -/
def tagOnlyAs (tag want : Bytes) : Bytes → Bool
  | [] => true
  | c :: rest => (!(tag.isPrefixOf (c :: rest)) || want.isPrefixOf (c :: rest)) && tagOnlyAs tag want rest

/-- Judge for a rendered widget `o` into which user text `s` (which starts with the unique
alphanumeric 3-byte `tag`) was fed: wherever the tag shows up, the whole text follows in
escaped form — it is never emitted raw or half-escaped. -/
def userTextEscaped (o s : Bytes) : Bool := tagOnlyAs (s.take 3) (refEscape s) o

/-- stream insertions of `src/form.cpp` that are raw **by design**: identifiers and attribute
text chosen by the developer, not user input (documented in cppcms/form.h) -/
def formRawAllowed : List String :=
  ["id()", "id_", "name()", "name_", "type_", "attr_", "attributes_string()"]

end Cppcms.C15.Spec
