import Cppcms.Common
import Cppcms.C15.Model
import Cppcms.C15.Spec
/-! Line-protocol driver for C15: `run` lines evaluate the model, `J` lines evaluate the
property predicate (as defined in `Spec.lean`) on an output produced by the implementation. -/
open Cppcms Cppcms.C15

def optNat : Option Nat → String
  | none => "-1"
  | some n => toString n

def step (_ : Unit) (line : String) : Unit × String :=
  let r : String :=
    match words line with
    | ["escape", h] | ["escape_os", h] | ["escape_flt", h] => match parseHex h with
      | some s => toHex (escape s) | none => "bad-op"
    | ["escapesb", h, room] => match parseHex h, room.toNat? with
      | some s, some r => let (o, ok) := escapeSb s r; s!"{toHex o} {boolStr ok}"
      | _, _ => "bad-op"
    | ["urlencode_sb", h] => match parseHex h with
      | some s => toHex (urlencode s) ++ " 1" | none => "bad-op"
    | ["urlencode", h] | ["urlencode_os", h] | ["urlencode_flt", h] => match parseHex h with
      | some s => toHex (urlencode s) | none => "bad-op"
    | ["urldecode", h] => match parseHex h with
      | some s => toHex (urldecode s) | none => "bad-op"
    | ["urlrt", h] => match parseHex h with
      | some s => toHex (urldecode (urlencode s)) | none => "bad-op"
    | ["b64rt", h] => match parseHex h with
      | some s => (match b64decode (b64encodeStr s) [] with | some o => "ok " ++ toHex o | none => "fail")
      | none => "bad-op"
    | ["b64enc", h] | ["b64enc_os", h] | ["b64enc_flt", h] => match parseHex h with
      | some s => toHex (b64encodeStr s) | none => "bad-op"
    | ["b64encraw", h] => match parseHex h with
      | some s => toHex (b64encode s) | none => "bad-op"
    | ["b64dec", h] => match parseHex h with
      | some s => (match b64decode s [112, 114, 101, 118] with | some o => "ok " ++ toHex o | none => "fail")
      | none => "bad-op"
    | ["b64decraw", h] => match parseHex h with
      | some s => toHex (b64decodeRaw s) | none => "bad-op"
    | "fltN" :: kind :: ps => match ps.mapM parseHex with
      | some l =>
        let whole := l.flatten
        if kind == "escape" then toHex (escape whole)
        else if kind == "urlencode" then toHex (urlencode whole)
        else if kind == "base64" then toHex (b64encodeStr whole)
        else "bad-op"
      | none => "bad-op"
    | "form" :: _ => "form-no-model"
    | ["encsize", n] => match n.toNat? with
      | some k => optNat (Gen.encodedSize k) | none => "bad-op"
    | ["decsize", n] => match n.toNat? with
      | some k => optNat (Gen.decodedSize k) | none => "bad-op"
    -- judges: property predicates on implementation output
    | ["J", "escape", i, o] => match parseHex i, parseHex o with
      | some i, some o => boolStr (Spec.unescape o == i && Spec.noMarkup o && Spec.ampsOk o)
      | _, _ => "bad-op"
    | "J" :: "form" :: o :: texts => match parseHex o, texts.mapM parseHex with
      | some o, some ts => boolStr (ts.all fun t => t.length < 3 || Spec.userTextEscaped o t)
      | _, _ => "bad-op"
    | ["J", "urlencode", i, o] => match parseHex i, parseHex o with
      | some _, some o => boolStr (Spec.urlSafe o)
      | _, _ => "bad-op"
    | ["J", "b64enc", i, o] => match parseHex i, parseHex o with
      | some _, some o => boolStr (o.all Spec.b64urlChar)
      | _, _ => "bad-op"
    | _ => "bad-op"
  ((), r)

def main : IO Unit := lineLoop () step
