import Cppcms.C15.Lemmas
/-!
# C15 — property theorems

"HTML escaping neutralises all markup; URL and base64 codecs are exact inverses."
Every statement is for **all** byte strings.  The model (`Model.lean`) is built on
tables/expressions regenerated from the C++ source (`Gen.lean`), so a change to a
table entry, a bit expression or a size formula re-runs these proofs against it.
-/
namespace Cppcms.C15.Props
open Cppcms Cppcms.C15 Cppcms.C15.Spec

/-- Escaped text contains none of `< > " '`, and every `&` in it starts one of the five
character references. -/
theorem escape_no_markup (s : Bytes) : noMarkup (escape s) = true ∧ ampsOk (escape s) = true := by
  induction s with
  | nil => simp [escape, noMarkup, ampsOk]
  | cons c s ih =>
    rw [escape_cons, noMarkup_append, ampsOk_escapeByte_append, noMarkup_escapeByte]
    simpa using ih

/-- Un-escaping (independent specification) inverts escaping. -/
theorem unescape_escape (s : Bytes) : unescape (escape s) = s := by
  induction s with
  | nil => simp [escape, unescape]
  | cons c s ih => rw [escape_cons, unescape_escapeByte_append, ih]

/-- The stream-buffer overload against a sink that accepts only `room` more bytes: what
reaches the sink is exactly the first `room` bytes of the escaped text, and failure (-1) is
reported iff the sink refused something. -/
theorem escapeSb_spec (s : Bytes) (room : Nat) :
    escapeSb s room = ((escape s).take room, decide ((escape s).length ≤ room)) := by
  induction s generalizing room with
  | nil => simp [escapeSb, escape]
  | cons c s ih =>
    obtain ⟨hb, hpos⟩ := escapeByteSb_eq c
    rw [escapeSb, hb, escape_cons]
    simp only
    by_cases hr : (escapeByte c).length ≤ room
    · have hm : min (escapeByte c).length room = (escapeByte c).length := by omega
      rw [hm, List.take_length]
      simp only [beq_self_eq_true, if_true, ih]
      rw [List.take_append, List.take_of_length_le hr, List.length_append]
      congr 1
      simp only [decide_eq_decide]
      omega
    · have hm : min (escapeByte c).length room = room := by omega
      rw [hm]
      have hl : ((escapeByte c).take room).length = room := by simp; omega
      have hne : (room == (escapeByte c).length) = false := by simp; omega
      simp only [hl, hne]
      rw [List.take_append, List.length_append]
      have : room - (escapeByte c).length = 0 := by omega
      simp [this]
      omega

/-- URL-encoded text consists of RFC 3986 unreserved characters and `%XX` triples only. -/
theorem urlencode_alphabet (s : Bytes) : urlSafe (urlencode s) = true := by
  induction s with
  | nil => simp [urlencode, urlSafe]
  | cons c s ih => rw [urlencode_cons, urlSafe_urlencodeByte_append, ih]

/-- URL-decoding inverts URL-encoding for every byte string. -/
theorem urldecode_urlencode (s : Bytes) : urldecode (urlencode s) = s := by
  induction s with
  | nil => simp [urlencode, urldecode]
  | cons c s ih => rw [urlencode_cons, urldecode_urlencodeByte_append, ih]

/-- base64url output uses only the RFC 4648 §5 alphabet (in particular no `=` padding). -/
theorem b64_alphabet (s : Bytes) : (b64encode s).all b64urlChar = true := by
  have key : ∀ A B C : Nat, A < 256 → B < 256 → C < 256 →
      b64urlChar (UInt8.ofNat (Gen.benc0 A B C)) = true ∧ b64urlChar (UInt8.ofNat (Gen.benc1 A B C)) = true ∧
      b64urlChar (UInt8.ofNat (Gen.benc2 A B C)) = true ∧ b64urlChar (UInt8.ofNat (Gen.benc3 A B C)) = true ∧
      b64urlChar (UInt8.ofNat (Gen.benc1Len1 A B C)) = true ∧ b64urlChar (UInt8.ofNat (Gen.benc2Len2 A B C)) = true := by
    intro A B C hA hB hC
    obtain ⟨e0, e1, e2, e3, e4, e5⟩ := benc_idx A B C hA hB hC
    rw [e0, e1, e2, e3, e4, e5]
    exact ⟨(enc6_facts ⟨_, by omega⟩).2.2, (enc6_facts ⟨_, by omega⟩).2.2, (enc6_facts ⟨_, by omega⟩).2.2,
           (enc6_facts ⟨_, by omega⟩).2.2, (enc6_facts ⟨_, by omega⟩).2.2, (enc6_facts ⟨_, by omega⟩).2.2⟩
  fun_induction b64encode s with
  | case1 a b c rest ih =>
    obtain ⟨k0, k1, k2, k3, _, _⟩ := key a.toNat b.toNat c.toNat a.toNat_lt b.toNat_lt c.toNat_lt
    simp [enc3, ofNats, k0, k1, k2, k3, ih]
  | case2 a b =>
    obtain ⟨k0, k1, _, _, _, k5⟩ := key a.toNat b.toNat 0 a.toNat_lt b.toNat_lt (by omega)
    simp [enc2, ofNats, k0, k1, k5]
  | case3 a =>
    obtain ⟨k0, _, _, _, k4, _⟩ := key a.toNat 0 0 a.toNat_lt (by omega) (by omega)
    simp [enc1, ofNats, k0, k4]
  | case4 => rfl

/-- `encoded_size` is exact: the pointer encoder writes exactly that many bytes. -/
theorem encoded_size_exact (s : Bytes) : Gen.encodedSize s.length = some (b64encode s).length :=
  b64encode_length s

/-- the `std::string` overload (buffer of exactly `encoded_size` bytes) returns what the
pointer encoder writes -/
theorem b64encodeStr_eq (s : Bytes) : b64encodeStr s = b64encode s := by
  unfold b64encodeStr
  rw [b64encode_length s]
  cases h : (b64encode s).length with
  | zero => simp [List.eq_nil_of_length_eq_zero h]
  | succ n =>
    simp only
    rw [← h]
    simp

/-- `decoded_size` is exact for **every** input (also malformed): whenever it reports a
length `m`, the raw decoder writes exactly `m` bytes — never outside a buffer of the
advertised size. -/
theorem decode_writes_within (t : Bytes) (m : Nat) (h : Gen.decodedSize t.length = some m) :
    (b64decodeRaw t).length = m := by
  fun_induction b64decodeRaw t generalizing m with
  | case1 w x y z rest ih =>
    have hd : ∃ m', Gen.decodedSize rest.length = some m' ∧ m = m' + 3 := by
      unfold Gen.decodedSize at h ⊢
      simp only [List.length_cons] at h
      have : rest.length % 4 = 0 ∨ rest.length % 4 = 1 ∨ rest.length % 4 = 2 ∨ rest.length % 4 = 3 := by omega
      have e1 : (rest.length + 1 + 1 + 1 + 1) % 4 = rest.length % 4 := by omega
      have e2 : (rest.length + 1 + 1 + 1 + 1) / 4 = rest.length / 4 + 1 := by omega
      rw [e1, e2] at h
      rcases this with k | k | k | k <;> simp [k] at h ⊢ <;> omega
    obtain ⟨m', h', rfl⟩ := hd
    simp [dec4, ofNats, ih m' h']
  | case2 w x y => simp [Gen.decodedSize] at h; simp [dec3, ofNats, ← h]
  | case3 w x => simp [Gen.decodedSize] at h; simp [dec2, ofNats, ← h]
  | case4 w => simp [Gen.decodedSize] at h
  | case5 => simp [Gen.decodedSize] at h; simp [← h]

/-- Outside the guarded contract (recorded in DESIGN.md §6): on an input of length 1 (mod 4),
for which `decoded_size` reports "invalid", the raw pointer decoder still writes three bytes. -/
theorem decodeRaw_len1_writes_three (w : UInt8) :
    Gen.decodedSize [w].length = none ∧ (b64decodeRaw [w]).length = 3 := by
  simp [Gen.decodedSize, b64decodeRaw, dec1, ofNats]

/-- Decoding inverts encoding for every byte string (string overloads, fresh output string). -/
theorem b64_decode_encode (s : Bytes) : b64decode (b64encodeStr s) [] = some s := by
  rw [b64encodeStr_eq]
  have hraw := b64decodeRaw_b64encode s
  unfold b64decode
  cases hd : Gen.decodedSize (b64encode s).length with
  | none =>
    -- impossible: an encoding never has length 1 (mod 4)
    exfalso
    have := b64encode_length' s
    unfold Gen.decodedSize at hd
    unfold encLen at this
    split at hd
    · rename_i h4; simp at h4; split at this <;> omega
    · split at hd <;> (try split at hd) <;> simp at hd
  | some m =>
    have hm := decode_writes_within _ m hd
    rw [hraw] at hm
    cases m with
    | zero => simp [List.eq_nil_of_length_eq_zero hm]
    | succ k => simp only [hraw]; rw [← hm]; simp

/-- Form widget rendering (`src/form.cpp`): every item any render function writes to the output
stream is a string literal, a number, an expression passed through `util::escape` /
`filters::escape` — whose output is characterised by `escape_no_markup` / `unescape_escape` above —
or one of the developer-chosen identifiers/attribute strings that are raw by design. In particular
message, error message, help text, values and option ids/texts are never written raw. (A statement
about the generated table of ALL stream insertions of form.cpp; the rendered output of real widgets
is judged by `Spec.userTextEscaped` in the correspondence run.) -/
theorem form_inserts_escaped :
    ∀ i ∈ Gen.formInserts, i.2 = 0 ∨ i.2 = 1 ∨ i.2 = 2 ∨ (i.2 = 3 ∧ i.1 ∈ formRawAllowed) := by
  decide +kernel

/-- the model's escaper is the reference escaper the widget judge uses -/
theorem escape_eq_refEscape (s : Bytes) : escape s = refEscape s := by
  unfold escape refEscape
  congr 1
  funext c
  rcases escapeByte_cases c with ⟨h, e⟩ | ⟨h, e⟩ | ⟨h, e⟩ | ⟨h, e⟩ | ⟨h, e⟩ | ⟨h1, h2, h3, h4, h5, e⟩
  all_goals (rw [e]; subst_vars)
  all_goals first
    | rfl
    | simp [h1, h2, h3, h4, h5]

/-! ### Non-vacuity / sanity instances (tests of the statements' reading, not the theorems) -/

example : escape [60, 97, 38, 34, 39, 62] =
    [38,108,116,59, 97, 38,97,109,112,59, 38,113,117,111,116,59, 38,35,51,57,59, 38,103,116,59] := by decide
example : urlencode [32, 65, 33, 126] = [37,50,48, 65, 37,50,49, 126] := by decide
example : urldecode [43, 37, 52, 49, 37, 52, 37] = [32, 65, 52] := by   -- a stray `%` is dropped
  simp [urldecode, isXdigit, hexVal, Gen.xdigit, Gen.urldecPlus, Gen.urldecPct, Gen.urldecSpace, Gen.urldecNeed]
example : b64encode [0, 16, 131, 16, 81, 135, 32] = [65,66,67,68,69,70,71,72,73,65] := by decide
example : escapeSb [60, 97] 3 = ([38,108,116], false) := by decide

end Cppcms.C15.Props
