import Cppcms.Common
import Cppcms.C15.Gen
/-!
# C15 model: HTML escape, URL codec, base64url codec

Executable transcription of `src/util.cpp` (`escape` ×3, `urlencode_impl`,
`urldecode`) and `src/base64.cpp`.  All tables, byte-class conditions, bit
expressions and size formulas come from `Gen.lean`, which the translator
regenerates from the C++ source on every run; the control flow (loops, the
`%XX` look-ahead of `urldecode`, the block loops of the base64 drivers, the sink
protocol of the streambuf overload) is written here by hand and tied to the code
by the correspondence run.
-/
namespace Cppcms.C15
open Cppcms

def ofNats (l : List Nat) : Bytes := l.map UInt8.ofNat

/-! ## escape -/

/-- one iteration of the `switch` in `std::string escape(std::string const&)` -/
def escapeByte (c : UInt8) : Bytes :=
  match Gen.escapeTable.lookup c.toNat with
  | some e => ofNats e
  | none => [c]

/-- `std::string escape(std::string const &s)` -/
def escape (s : Bytes) : Bytes := s.flatMap escapeByte

/-- what the streambuf overload hands to the sink for one input byte:
`(bytes, n passed to sputn, value the result is compared with)`; `sputc` is `n = 1`. -/
def escapeByteSb (c : UInt8) : Bytes × Nat × Nat :=
  match Gen.escapeTableSb.lookup c.toNat with
  | some (e, n, m) => (ofNats e, n, m)
  | none => ([c], 1, 1)

/-- A sink (`std::streambuf`) that accepts at most `room` more bytes: `sputn(p,n)`
stores `min n room` bytes and returns that number.
`escapeSb s room = (bytes stored in the sink, return value 0 / -1 as Bool ok)`:
`int escape(char const*,char const*,std::streambuf&)`. -/
def escapeSb : Bytes → Nat → Bytes × Bool
  | [], _ => ([], true)
  | c :: rest, room =>
    let (e, n, m) := escapeByteSb c
    let put := e.take (min n room)          -- sputn(e, n) into a sink with `room` left
    if put.length == m then
      let (o, ok) := escapeSb rest (room - put.length)
      (put ++ o, ok)
    else (put, false)

/-! ## urlencode / urldecode -/

def unreserved (c : UInt8) : Bool :=
  Gen.urlAlnum c.toNat || Gen.urlKeep.contains c.toNat

def urlencodeByte (c : UInt8) : Bytes :=
  if unreserved c then [c]
  else ofNats [Gen.urlEsc0 c.toNat, Gen.urlEsc1 c.toNat, Gen.urlEsc2 c.toNat]

def urlencode (s : Bytes) : Bytes := s.flatMap urlencodeByte

/-- value of one hex digit as `sscanf("%x")` reads it -/
def hexVal (c : UInt8) : Nat :=
  let n := c.toNat
  if 48 ≤ n ∧ n ≤ 57 then n - 48
  else if 97 ≤ n ∧ n ≤ 102 then n - 87
  else if 65 ≤ n ∧ n ≤ 70 then n - 55
  else 0

/-- `begin[1]` is a (signed) `char` passed to `xdigit(int)`: bytes ≥ 0x80 are
negative and never hex digits; below 0x80 the generated predicate applies. -/
def isXdigit (c : UInt8) : Bool := c.toNat < 128 && Gen.xdigit c.toNat

/-- `std::string urldecode(char const *begin,char const *end)`: `+` → space, `%XX`
→ byte, a `%` not followed by two hex digits is **dropped**, anything else copied. -/
def urldecode : Bytes → Bytes
  | [] => []
  | c :: rest =>
    if c.toNat == Gen.urldecPlus then UInt8.ofNat Gen.urldecSpace :: urldecode rest
    else if c.toNat == Gen.urldecPct then
      match rest with
      | a :: b :: rest' =>
        -- `end-begin >= 3` holds exactly when two more bytes exist
        if decide (Gen.urldecNeed ≤ rest'.length + 3) && isXdigit a && isXdigit b then
          UInt8.ofNat (hexVal a * 16 + hexVal b) :: urldecode rest'
        else urldecode (a :: b :: rest')
      | [a] => urldecode [a]
      | [] => []
    else c :: urldecode rest
termination_by l => l.length
decreasing_by all_goals (simp; try omega)

/-! ## base64url -/

/-- `bencode(in,out,3)` -/
def enc3 (a b c : UInt8) : Bytes :=
  ofNats [Gen.benc0 a.toNat b.toNat c.toNat, Gen.benc1 a.toNat b.toNat c.toNat,
          Gen.benc2 a.toNat b.toNat c.toNat, Gen.benc3 a.toNat b.toNat c.toNat]
/-- `bencode(in,out,2)`: `in[2]` is not read -/
def enc2 (a b : UInt8) : Bytes :=
  ofNats [Gen.benc0 a.toNat b.toNat 0, Gen.benc1 a.toNat b.toNat 0, Gen.benc2Len2 a.toNat b.toNat 0]
/-- `bencode(in,out,1)` -/
def enc1 (a : UInt8) : Bytes :=
  ofNats [Gen.benc0 a.toNat 0 0, Gen.benc1Len1 a.toNat 0 0]

/-- `unsigned char *encode(begin,end,target)`: the bytes written to `target` -/
def b64encode : Bytes → Bytes
  | a :: b :: c :: rest => enc3 a b c ++ b64encode rest
  | [a, b] => enc2 a b
  | [a] => enc1 a
  | [] => []

def d6 (c : UInt8) : Nat := Gen.dec6 c.toNat

/-- `bdecode(in8,out,len)` for len = 4,3,2,1: the bytes written to `out`
(for len = 1 the code falls through all `else` branches and writes three). -/
def dec4 (w x y z : UInt8) : Bytes :=
  ofNats [Gen.bdec0 (d6 w) (d6 x) (d6 y) (d6 z), Gen.bdec1 (d6 w) (d6 x) (d6 y) (d6 z),
          Gen.bdec2 (d6 w) (d6 x) (d6 y) (d6 z)]
def dec3 (w x y : UInt8) : Bytes :=
  ofNats [Gen.bdec0 (d6 w) (d6 x) (d6 y) 0, Gen.bdec1 (d6 w) (d6 x) (d6 y) 0]
def dec2 (w x : UInt8) : Bytes :=
  ofNats [Gen.bdec0 (d6 w) (d6 x) 0 0]
def dec1 (w : UInt8) : Bytes :=
  ofNats [Gen.bdec0 (d6 w) 0 0 0, Gen.bdec1 (d6 w) 0 0 0, Gen.bdec2 (d6 w) 0 0 0]

/-- `unsigned char *decode(begin,end,target)`: the bytes written to `target` -/
def b64decodeRaw : Bytes → Bytes
  | w :: x :: y :: z :: rest => dec4 w x y z ++ b64decodeRaw rest
  | [w, x, y] => dec3 w x y
  | [w, x] => dec2 w x
  | [w] => dec1 w
  | [] => []

/-- `bool decode(std::string const &input,std::string &output)`; `prev` is the
previous content of `output` (left untouched when the decoded size is 0).
`none` = returns false. The buffer has exactly `ds` bytes; the result is its content
after the raw decoder wrote into it (bytes beyond `ds` would be out of bounds). -/
def b64decode (input : Bytes) (prev : Bytes := []) : Option Bytes :=
  match Gen.decodedSize input.length with
  | none => none
  | some 0 => some prev
  | some ds =>
    let w := b64decodeRaw input
    some ((w ++ List.replicate (ds - w.length) 0).take ds)

/-- `std::string encode(std::string const &input)` -/
def b64encodeStr (input : Bytes) : Bytes :=
  match Gen.encodedSize input.length with
  | some 0 | none => []
  | some n =>
    let w := b64encode input
    (w ++ List.replicate (n - w.length) 0).take n

end Cppcms.C15
