import Cppcms.C15.Model
import Cppcms.C15.Spec
/-! Helper lemmas for C15 (per-byte facts closed by finite case analysis, list plumbing). -/
namespace Cppcms.C15
open Cppcms Spec

/-! ### escape -/

theorem escape_cons (c : UInt8) (s : Bytes) : escape (c :: s) = escapeByte c ++ escape s := by
  simp [escape]

/-- the generated table, read back: five special bytes, everything else copied -/
theorem escapeByte_cases : ∀ c : UInt8,
    (c = 60 ∧ escapeByte c = [38,108,116,59]) ∨ (c = 62 ∧ escapeByte c = [38,103,116,59]) ∨
    (c = 38 ∧ escapeByte c = [38,97,109,112,59]) ∨ (c = 34 ∧ escapeByte c = [38,113,117,111,116,59]) ∨
    (c = 39 ∧ escapeByte c = [38,35,51,57,59]) ∨
    (c ≠ 60 ∧ c ≠ 62 ∧ c ≠ 38 ∧ c ≠ 34 ∧ c ≠ 39 ∧ escapeByte c = [c]) := by
  apply forall_uint8
  decide +kernel

theorem unescape_cons_ne (c : UInt8) (rest : Bytes) (h : c ≠ 38) :
    unescape (c :: rest) = c :: unescape rest := by
  conv => lhs; unfold unescape
  split <;> simp_all

theorem unescape_escapeByte_append (c : UInt8) (rest : Bytes) :
    unescape (escapeByte c ++ rest) = c :: unescape rest := by
  rcases escapeByte_cases c with ⟨h, e⟩ | ⟨h, e⟩ | ⟨h, e⟩ | ⟨h, e⟩ | ⟨h, e⟩ | ⟨_, _, h, _, _, e⟩
  all_goals (rw [e]; subst_vars)
  all_goals first
    | (simp [unescape]; done)
    | exact unescape_cons_ne _ _ h

end Cppcms.C15

namespace Cppcms.C15
open Cppcms Spec

theorem ampsOk_cons_ne (c : UInt8) (rest : Bytes) (h : c ≠ 38) : ampsOk (c :: rest) = ampsOk rest := by
  simp [ampsOk, h]

theorem ampsOk_escapeByte_append (c : UInt8) (rest : Bytes) :
    ampsOk (escapeByte c ++ rest) = ampsOk rest := by
  rcases escapeByte_cases c with ⟨h, e⟩ | ⟨h, e⟩ | ⟨h, e⟩ | ⟨h, e⟩ | ⟨h, e⟩ | ⟨_, _, h, _, _, e⟩
  all_goals (rw [e]; subst_vars)
  all_goals first
    | (simp [ampsOk, entities, List.isPrefixOf]; done)
    | exact ampsOk_cons_ne _ _ h

theorem noMarkup_escapeByte : ∀ c : UInt8, noMarkup (escapeByte c) = true := by
  apply forall_uint8
  decide +kernel

theorem noMarkup_append (a b : Bytes) : noMarkup (a ++ b) = (noMarkup a && noMarkup b) := by
  simp [noMarkup, List.all_append]

/-- the streambuf overload hands the sink exactly the replacement of the string overload,
and compares `sputn`'s result with its full length -/
theorem escapeByteSb_eq : ∀ c : UInt8,
    escapeByteSb c = (escapeByte c, (escapeByte c).length, (escapeByte c).length) ∧
    0 < (escapeByte c).length := by
  apply forall_uint8
  decide +kernel

/-! ### urlencode -/

def h1 (c : UInt8) : UInt8 := UInt8.ofNat (Gen.urlEsc1 c.toNat)
def h2 (c : UInt8) : UInt8 := UInt8.ofNat (Gen.urlEsc2 c.toNat)

theorem urlencodeByte_cases : ∀ c : UInt8,
    (urlencodeByte c = [c] ∧ c.toNat ≠ Gen.urldecPlus ∧ c.toNat ≠ Gen.urldecPct ∧ c ≠ 37 ∧ rfcUnreserved c = true) ∨
    (urlencodeByte c = [37, h1 c, h2 c] ∧ isXdigit (h1 c) = true ∧ isXdigit (h2 c) = true ∧
      isHexDigit (h1 c) = true ∧ isHexDigit (h2 c) = true ∧
      UInt8.ofNat (hexVal (h1 c) * 16 + hexVal (h2 c)) = c) := by
  apply forall_uint8
  decide +kernel

theorem urlencode_cons (c : UInt8) (s : Bytes) : urlencode (c :: s) = urlencodeByte c ++ urlencode s := by
  simp [urlencode]

theorem gen_urldec_consts : Gen.urldecPlus = 43 ∧ Gen.urldecPct = 37 ∧ Gen.urldecSpace = 32 ∧ Gen.urldecNeed = 3 := by
  decide

theorem urldecode_urlencodeByte_append (c : UInt8) (rest : Bytes) :
    urldecode (urlencodeByte c ++ rest) = c :: urldecode rest := by
  obtain ⟨k1, k2, _, k4⟩ := gen_urldec_consts
  rcases urlencodeByte_cases c with ⟨e, hp, hq, _, _⟩ | ⟨e, x1, x2, _, _, hv⟩
  · rw [e]
    simp only [List.singleton_append]
    rw [urldecode.eq_def]
    simp [hp, hq]
  · rw [e]
    simp only [List.cons_append, List.nil_append]
    rw [urldecode.eq_def]
    simp [x1, x2, hv, k1, k2, k4]

theorem urlSafe_cons_ne (c : UInt8) (rest : Bytes) (h : c ≠ 37) :
    urlSafe (c :: rest) = (rfcUnreserved c && urlSafe rest) := by
  conv => lhs; unfold urlSafe
  split <;> simp_all

theorem urlSafe_urlencodeByte_append (c : UInt8) (rest : Bytes) :
    urlSafe (urlencodeByte c ++ rest) = urlSafe rest := by
  rcases urlencodeByte_cases c with ⟨e, _, _, hne, hu⟩ | ⟨e, _, _, y1, y2, _⟩
  · rw [e]; simp only [List.singleton_append]; rw [urlSafe_cons_ne _ _ hne, hu]; simp
  · rw [e]; simp [urlSafe, y1, y2]

end Cppcms.C15

/-! ### base64url -/
namespace Cppcms.C15
open Cppcms Spec

theorem bits_byte : ∀ a : Fin 256,
    a.val &&& 3 = a.val % 4 ∧ a.val &&& 15 = a.val % 16 ∧ a.val &&& 63 = a.val % 64 ∧
    (a.val &&& 240) >>> 4 = a.val / 16 ∧ (a.val &&& 192) >>> 6 = a.val / 64 ∧ a.val >>> 2 = a.val / 4 := by
  decide +kernel

theorem or_4_16 : ∀ (x : Fin 4) (y : Fin 16), (x.val <<< 4) ||| y.val = x.val * 16 + y.val := by decide +kernel
theorem or_16_4 : ∀ (x : Fin 16) (y : Fin 4), (x.val <<< 2) ||| y.val = x.val * 4 + y.val := by decide +kernel

/-- the alphabet is ASCII, inside the RFC 4648 §5 set, and `encode_8_to_6` inverts it -/
theorem enc6_facts : ∀ v : Fin 64,
    Gen.enc6 v.val < 128 ∧ Gen.dec6 (Gen.enc6 v.val) = v.val ∧ b64urlChar (UInt8.ofNat (Gen.enc6 v.val)) = true := by
  decide +kernel

theorem d6_enc6 (v : Nat) (h : v < 64) : d6 (UInt8.ofNat (Gen.enc6 v)) = v := by
  obtain ⟨h1, h2, _⟩ := enc6_facts ⟨v, h⟩
  simp only at h1 h2
  unfold d6
  have : (UInt8.ofNat (Gen.enc6 v)).toNat = Gen.enc6 v := by
    simp [UInt8.toNat_ofNat']; omega
  rw [this, h2]

theorem bdec_arith : ∀ (i j : Fin 64),
    ((i.val <<< 2) ||| (j.val >>> 4)) % 256 = i.val * 4 + j.val / 16 ∧
    ((i.val <<< 4) ||| (j.val >>> 2)) % 256 = (i.val % 16) * 16 + j.val / 4 ∧
    (((i.val <<< 6) &&& 192) ||| j.val) % 256 = (i.val % 4) * 64 + j.val := by
  decide +kernel

end Cppcms.C15

namespace Cppcms.C15
open Cppcms Spec

theorem benc_idx (A B C : Nat) (hA : A < 256) (hB : B < 256) (hC : C < 256) :
    Gen.benc0 A B C = Gen.enc6 (A / 4) ∧
    Gen.benc1 A B C = Gen.enc6 ((A % 4) * 16 + B / 16) ∧
    Gen.benc2 A B C = Gen.enc6 ((B % 16) * 4 + C / 64) ∧
    Gen.benc3 A B C = Gen.enc6 (C % 64) ∧
    Gen.benc1Len1 A B C = Gen.enc6 ((A % 4) * 16) ∧
    Gen.benc2Len2 A B C = Gen.enc6 ((B % 16) * 4) := by
  obtain ⟨a3, a15, a63, a240, a192, a2⟩ := bits_byte ⟨A, hA⟩
  obtain ⟨b3, b15, b63, b240, b192, b2⟩ := bits_byte ⟨B, hB⟩
  obtain ⟨c3, c15, c63, c240, c192, c2⟩ := bits_byte ⟨C, hC⟩
  simp only at a3 a15 a63 a240 a192 a2 b3 b15 b63 b240 b192 b2 c3 c15 c63 c240 c192 c2
  have o1 := or_4_16 ⟨A % 4, by omega⟩ ⟨B / 16, by omega⟩
  have o2 := or_16_4 ⟨B % 16, by omega⟩ ⟨C / 64, by omega⟩
  simp only at o1 o2
  unfold Gen.benc0 Gen.benc1 Gen.benc2 Gen.benc3 Gen.benc1Len1 Gen.benc2Len2
  rw [a2, a3, b240, b15, c192, c63, o1, o2]
  refine ⟨rfl, rfl, rfl, rfl, ?_, ?_⟩
  · congr 1; omega
  · congr 1; omega

theorem ofNat_toNat_arith (a : UInt8) (n : Nat) (h : n = a.toNat) : UInt8.ofNat n = a := by
  subst h; simp

theorem dec4_enc3 (a b c : UInt8) (rest : Bytes) :
    b64decodeRaw (enc3 a b c ++ rest) = a :: b :: c :: b64decodeRaw rest := by
  have hA := a.toNat_lt; have hB := b.toNat_lt; have hC := c.toNat_lt
  obtain ⟨e0, e1, e2, e3, _, _⟩ := benc_idx a.toNat b.toNat c.toNat hA hB hC
  simp only [enc3, ofNats, List.map, List.cons_append, List.nil_append]
  rw [b64decodeRaw, e0, e1, e2, e3]
  simp only [dec4, ofNats, List.map, List.cons_append, List.nil_append]
  rw [d6_enc6 _ (by omega), d6_enc6 _ (by omega), d6_enc6 _ (by omega), d6_enc6 _ (by omega)]
  obtain ⟨p0, _, _⟩ := bdec_arith ⟨a.toNat / 4, by omega⟩ ⟨a.toNat % 4 * 16 + b.toNat / 16, by omega⟩
  obtain ⟨_, p1, _⟩ := bdec_arith ⟨a.toNat % 4 * 16 + b.toNat / 16, by omega⟩ ⟨b.toNat % 16 * 4 + c.toNat / 64, by omega⟩
  obtain ⟨_, _, p2⟩ := bdec_arith ⟨b.toNat % 16 * 4 + c.toNat / 64, by omega⟩ ⟨c.toNat % 64, by omega⟩
  simp only at p0 p1 p2
  unfold Gen.bdec0 Gen.bdec1 Gen.bdec2
  rw [p0, p1, p2]
  congr 1
  · exact ofNat_toNat_arith a _ (by omega)
  congr 1
  · exact ofNat_toNat_arith b _ (by omega)
  congr 1
  · exact ofNat_toNat_arith c _ (by omega)

end Cppcms.C15

namespace Cppcms.C15
open Cppcms Spec

theorem dec3_enc2 (a b : UInt8) : b64decodeRaw (enc2 a b) = [a, b] := by
  have hA := a.toNat_lt; have hB := b.toNat_lt
  obtain ⟨e0, e1, _, _, _, e2⟩ := benc_idx a.toNat b.toNat 0 hA hB (by omega)
  simp only [enc2, ofNats, List.map]
  rw [b64decodeRaw, e0, e1, e2]
  simp only [dec3, ofNats, List.map]
  rw [d6_enc6 _ (by omega), d6_enc6 _ (by omega), d6_enc6 _ (by omega)]
  obtain ⟨p0, _, _⟩ := bdec_arith ⟨a.toNat / 4, by omega⟩ ⟨a.toNat % 4 * 16 + b.toNat / 16, by omega⟩
  obtain ⟨_, p1, _⟩ := bdec_arith ⟨a.toNat % 4 * 16 + b.toNat / 16, by omega⟩ ⟨b.toNat % 16 * 4, by omega⟩
  simp only at p0 p1
  unfold Gen.bdec0 Gen.bdec1
  rw [p0, p1]
  congr 1
  · exact ofNat_toNat_arith a _ (by omega)
  congr 1
  · exact ofNat_toNat_arith b _ (by omega)

theorem dec2_enc1 (a : UInt8) : b64decodeRaw (enc1 a) = [a] := by
  have hA := a.toNat_lt
  obtain ⟨e0, _, _, _, e1, _⟩ := benc_idx a.toNat 0 0 hA (by omega) (by omega)
  simp only [enc1, ofNats, List.map]
  rw [b64decodeRaw, e0, e1]
  simp only [dec2, ofNats, List.map]
  rw [d6_enc6 _ (by omega), d6_enc6 _ (by omega)]
  obtain ⟨p0, _, _⟩ := bdec_arith ⟨a.toNat / 4, by omega⟩ ⟨a.toNat % 4 * 16, by omega⟩
  simp only at p0
  unfold Gen.bdec0
  rw [p0]
  congr 1
  exact ofNat_toNat_arith a _ (by omega)

theorem b64decodeRaw_b64encode (s : Bytes) : b64decodeRaw (b64encode s) = s := by
  fun_induction b64encode s with
  | case1 a b c rest ih => rw [dec4_enc3, ih]
  | case2 a b => exact dec3_enc2 a b
  | case3 a => exact dec2_enc1 a
  | case4 => rfl

theorem enc_lengths (a b c : UInt8) : (enc3 a b c).length = 4 ∧ (enc2 a b).length = 3 ∧ (enc1 a).length = 2 := by
  simp [enc3, enc2, enc1, ofNats]

def encLen (n : Nat) : Nat := n / 3 * 4 + (if n % 3 = 0 then 0 else n % 3 + 1)

theorem encodedSize_closed (n : Nat) : Gen.encodedSize n = some (encLen n) := by
  unfold Gen.encodedSize encLen
  have : n % 3 = 0 ∨ n % 3 = 1 ∨ n % 3 = 2 := by omega
  rcases this with h | h | h <;> simp [h]

theorem b64encode_length' (s : Bytes) : (b64encode s).length = encLen s.length := by
  fun_induction b64encode s with
  | case1 a b c rest ih =>
    simp only [List.length_append, (enc_lengths a b c).1, List.length_cons, ih]
    unfold encLen
    have e1 : (rest.length + 1 + 1 + 1) / 3 = rest.length / 3 + 1 := by omega
    have e2 : (rest.length + 1 + 1 + 1) % 3 = rest.length % 3 := by omega
    rw [e1, e2]; omega
  | case2 a b => simp [encLen, (enc_lengths a b 0).2.1]
  | case3 a => simp [encLen, (enc_lengths a 0 0).2.2]
  | case4 => simp [encLen]

theorem b64encode_length (s : Bytes) : Gen.encodedSize s.length = some (b64encode s).length := by
  rw [encodedSize_closed, b64encode_length']

end Cppcms.C15
