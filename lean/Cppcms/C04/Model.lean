import Cppcms.Common
import Cppcms.C04.Gen
import Cppcms.C04.Rules
/-!
C04 — executable model of `cppcms::xss` (src/xss.cpp): `split_to_parts`, `parse_html_entity`,
`parse_html_tag`, `parse_properties`, `validate_property_value`, `validate_nesting`,
`validate_entry_by_rules`, `validate`, `validate_and_filter_if_invalid`, `filter`.

Pointers into the input become byte lists: an `Entry` carries its own text (`[begin,end)`), the
tag/entity name (`tag.tag_begin..tag_end`) and the attributes.  Early `return false`s of
`validate` become conjunctions (the functions are pure and total, so the order of the tests is
not observable).  Byte classes, constants and tables come from `Gen.lean` (regenerated from the
source on every run); the control flow below is hand-written and tied by the correspondence run.

Scanners recurse on a fuel argument (always `length + 1` of what is left, which suffices:
`Lemmas.lean`), so that everything reduces by `decide`.
-/
namespace Cppcms.C04
open Cppcms

/-! ### byte classes and constants (from Gen) -/

def bytesOf (l : List Nat) : Bytes := l.map UInt8.ofNat

def isAlpha (c : UInt8) : Bool := Gen.isAlpha c.toNat
def isDigit (c : UInt8) : Bool := Gen.isDigit c.toNat
def isAlnum (c : UInt8) : Bool := Gen.isAlnum c.toNat
def isXdigit (c : UInt8) : Bool := Gen.isXdigit c.toNat
def isSpace (c : UInt8) : Bool := Gen.isSpace c.toNat
def isSpecial (c : UInt8) : Bool := Gen.isSpecial c.toNat
/-- `ascii_tolower` (nesting comparison in HTML mode) -/
def toLower (c : UInt8) : UInt8 := UInt8.ofNat (Gen.toLower c.toNat)
/-- `c_string::tolower` (icompare: map / set lookups in HTML mode) -/
def cstrLower (c : UInt8) : UInt8 := UInt8.ofNat (Gen.cstrToLower c.toNat)

def cAmp : UInt8 := UInt8.ofNat Gen.tokAmp
def cSemi : UInt8 := UInt8.ofNat Gen.tokEntityEnd
def cLt : UInt8 := UInt8.ofNat Gen.tokLt
def cGt : UInt8 := UInt8.ofNat Gen.tokGt
def cTagEnd : UInt8 := UInt8.ofNat Gen.tokTagEnd
def cSlash : UInt8 := UInt8.ofNat Gen.tagSlash
def cSelfClose : UInt8 := UInt8.ofNat Gen.tagSelfClose
def cEq : UInt8 := UInt8.ofNat Gen.propEq
def cHash : UInt8 := 35
def commentOpen : Bytes := bytesOf Gen.commentOpen
def ccA : UInt8 := UInt8.ofNat (Gen.commentClose.getD 0 0)
def ccB : UInt8 := UInt8.ofNat (Gen.commentClose.getD 1 0)
def ccC : UInt8 := UInt8.ofNat (Gen.commentClose.getD 2 0)

/-! ### entries -/

/-- `html_data_type` -/
inductive Ty
  | invalid | plain | entity | tag | openTag | closeTag | openClose | comment | numeric | openCloseNoSlash
  deriving DecidableEq, Repr, Inhabited

/-- `property_data`: `value = none` is `value_begin == 0` -/
structure Attr where
  name : Bytes
  value : Option Bytes
  deriving DecidableEq, Repr

/-- `entry` (+ `tag_data`) -/
structure Entry where
  text : Bytes
  ty : Ty
  name : Bytes := []
  pair : Option Nat := none
  props : List Attr := []
  deriving DecidableEq, Repr

/-! ### split_to_parts -/

/-- offset of the first `c` -/
def findByte (c : UInt8) : Bytes → Option Nat
  | [] => none
  | x :: xs => if x = c then some 0 else (findByte c xs).map (· + 1)

/-- `while(e<end-1){ if(e[0]==a && e[1]==b) break; e++; }`: offset of the first adjacent pair,
`none` when the loop runs to `end-1` -/
def findPair (a b : UInt8) : Bytes → Option Nat
  | x :: y :: rest => if x = a ∧ y = b then some 0 else (findPair a b (y :: rest)).map (· + 1)
  | _ => none

def splitAux : Nat → Bytes → List (Bytes × Ty)
  | 0, _ => []
  | _ + 1, [] => []
  | n + 1, c :: rest =>
    if c = cAmp then
      match findByte cSemi rest with
      | none => [(c :: rest, .invalid)]
      | some k => (c :: rest.take (k + 1), .entity) :: splitAux n (rest.drop (k + 1))
    else if c = cLt then
      -- p+4 < end && p[1]=='!' && p[2]=='-' && p[3]=='-'
      if Gen.commentLookahead < (c :: rest).length ∧ rest.take commentOpen.length = commentOpen then
        let off := Gen.commentBodyStart - 1
        let body := rest.drop off
        match findPair ccA ccB body with
        | none => [(c :: rest, .invalid)]
        | some j =>
          -- e+2 < end && e[2]=='>'
          if body[j + 2]? = some ccC then
            let ty := if (body.take j).any (fun b => Gen.commentForbidden b.toNat) then Ty.invalid else Ty.comment
            (c :: rest.take (off + j + 3), ty) :: splitAux n (rest.drop (off + j + 3))
          else [(c :: rest, .invalid)]
      else
        match findByte cTagEnd rest with
        | none => [(c :: rest, .invalid)]
        | some k => (c :: rest.take (k + 1), .tag) :: splitAux n (rest.drop (k + 1))
    else if c = cGt then
      ([c], .invalid) :: splitAux n rest
    else
      (c :: rest.takeWhile (fun b => !isSpecial b), .plain) :: splitAux n (rest.dropWhile (fun b => !isSpecial b))

def split (x : Bytes) : List (Bytes × Ty) := splitAux (x.length + 1) x

/-! ### parse_html_entity -/

def digitVal (c : UInt8) : Nat :=
  if isDigit c then c.toNat - 48 else if 97 ≤ c.toNat then c.toNat - 87 else c.toNat - 55

/-- the mathematical value of a run of digits of that base -/
def digitsValue (base : Nat) (ds : Bytes) : Nat := ds.foldl (fun acc d => acc * base + digitVal d) 0

/-- `LONG_MAX` of the LP64 targets cppcms is built for -/
def longMax : Nat := 2 ^ 63 - 1

/-- `long code_point = strtol(begin,&endptr,base)` on a run of digits of that base: the value, saturated at
`LONG_MAX` (ERANGE); `endptr` ends up at the `;` either way.  The result is kept in a `long` (no narrowing) before
the range tests. -/
def strtolNat (base : Nat) (ds : Bytes) : Nat := min (digitsValue base ds) longMax

/-- returns the new type and the name -/
def parseEntity (text : Bytes) : Ty × Bytes :=
  let inner := (text.drop 1).dropLast
  match inner with
  | [] => (.invalid, [])
  | c :: ds =>
    if c = cHash then
      match ds with
      | [] => (.invalid, [])
      | d :: hs =>
        if (bytesOf Gen.numericHexMarks).contains d then
          if hs.isEmpty then (.invalid, [])
          else if !hs.all isXdigit then (.invalid, [])
          else if Gen.numericRejected (strtolNat 16 hs) then (.invalid, [])
          else (.numeric, [])
        else if !ds.all isDigit then (.invalid, [])
        else if Gen.numericRejected (strtolNat 10 ds) then (.invalid, [])
        else (.numeric, [])
    else if inner.all isAlnum then (.entity, inner) else (.invalid, [])

/-! ### validate_property_value, parse_properties, parse_html_tag -/

/-- `ends_with` chain: the first listed string that is a prefix; returns what follows it -/
def stripFirst (ps : List Bytes) (s : Bytes) : Option Bytes :=
  ps.findSome? fun p => if p.isPrefixOf s then some (s.drop p.length) else none

def propValueEntities : List Bytes := Gen.propValueEntities.map bytesOf

def validatePropertyValueAux : Nat → Bytes → Bool
  | 0, _ => false
  | _ + 1, [] => true
  | n + 1, c :: rest =>
    if Gen.propValueForbidden.contains c.toNat then false
    else if c.toNat = Gen.propValueAmp then
      match stripFirst propValueEntities rest with
      | some rest' => validatePropertyValueAux n rest'
      | none => false
    else validatePropertyValueAux n rest

def validatePropertyValue (v : Bytes) : Bool := validatePropertyValueAux (v.length + 1) v

/-- `parse_properties` over `[begin,end)`; `*end` is `>` or `/` (neither space, alnum, `=` nor a
quote), so running off the list behaves like reading that sentinel.  `none` = `invalid_data`. -/
def parsePropsAux : Nat → Bool → Bytes → List Attr → Option (List Attr)
  | 0, _, _, _ => none
  | _ + 1, _, [], acc => some acc
  | n + 1, spaceFound, c :: rest, acc =>
    if isSpace c then parsePropsAux n true rest acc
    else if !spaceFound then none
    else if !isAlpha c then none
    else
      let name := (c :: rest).takeWhile isAlnum
      match (c :: rest).dropWhile isAlnum with
      | [] => none
      | d :: s2 =>
        -- (`_` is alpha but not alnum: empty name, `d` is that `_`, rejected by the `=` test)
        if isSpace d then parsePropsAux n spaceFound s2 (acc ++ [⟨name, none⟩])
        else if d ≠ cEq then none
        else
          match s2 with
          | [] => none
          | q :: s3 =>
            if !(bytesOf Gen.propQuotes).contains q then none
            else
              match findByte q s3 with
              | none => none
              | some k =>
                let v := s3.take k
                if !validatePropertyValue v then none
                else parsePropsAux n false (s3.drop (k + 1)) (acc ++ [⟨name, some v⟩])

def parseProps (s : Bytes) : Option (List Attr) := parsePropsAux (s.length + 1) true s []

/-- returns type, name, attributes -/
def parseTag (text : Bytes) : Ty × Bytes × List Attr :=
  let inner := (text.drop 1).dropLast
  match inner with
  | [] => (.invalid, [], [])
  | a :: t =>
    if a = cSlash then
      match t with
      | [] => (.invalid, [], [])
      | b :: u =>
        if !isAlpha b then (.invalid, [], [])
        else
          let name := b :: u.takeWhile isAlnum
          let after := (u.dropWhile isAlnum).dropWhile isSpace
          if after.isEmpty then (.closeTag, name, []) else (.invalid, [], [])
    else if !isAlpha a then (.invalid, [], [])
    else
      let name := a :: t.takeWhile isAlnum
      let rest := t.dropWhile isAlnum
      let selfClose := inner.getLast? = some cSelfClose
      let body := if selfClose then rest.dropLast else rest
      match parseProps body with
      | none => (.invalid, name, [])
      | some ps => (if selfClose then .openClose else .openTag, name, ps)

def parsePart (p : Bytes × Ty) : Entry :=
  match p.2 with
  | .entity => let r := parseEntity p.1; { text := p.1, ty := r.1, name := r.2 }
  | .tag => let r := parseTag p.1; { text := p.1, ty := r.1, name := r.2.1, props := r.2.2 }
  | t => { text := p.1, ty := t }

def parseAll (x : Bytes) : List Entry := (split x).map parsePart

/-! ### validate_nesting -/

def setTy (es : List Entry) (i : Nat) (t : Ty) : List Entry := es.modify i fun e => { e with ty := t }
def setPair (es : List Entry) (i j : Nat) : List Entry := es.modify i fun e => { e with pair := some j }
def nameAt (es : List Entry) (i : Nat) : Bytes := (es[i]?.map (·.name)).getD []

/-- `ascii_streq` -/
def streq (xhtml : Bool) (a b : Bytes) : Bool :=
  if xhtml then a == b else a.map toLower == b.map toLower

/-- Invariant of every `rules` object in HTML mode: tags live in a map ordered by `icompare_c_string`, so two
names that `ascii_streq(…, xhtml=false)` identifies are the same key and have the same kind
(`mkRules_htmlCaseOk` in Lemmas shows it for the rule sets the `add_*` calls build). -/
def HtmlCaseOk (r : Rules) : Prop := ∀ a b : Bytes, streq false a b = true → r.tagKind a = r.tagKind b

/-- HTML mode: the `for(;;)` that pops until a matching open tag is found -/
def popUntil (es : List Entry) (i : Nat) (cur : Bytes) : List Nat → List Entry × List Nat
  | [] => (setTy es i .invalid, [])
  | top :: st =>
    if streq false (nameAt es top) cur then (setPair (setPair es i top) top i, st)
    else popUntil (setTy es top .openCloseNoSlash) i cur st

def nestStep (xhtml : Bool) (s : List Entry × List Nat) (i : Nat) : List Entry × List Nat :=
  match s.1[i]? with
  | none => s
  | some cur =>
    match cur.ty with
    | .closeTag =>
      if xhtml then
        match s.2 with
        | [] => (setTy s.1 i .invalid, [])
        | top :: st =>
          if streq true (nameAt s.1 top) cur.name then (setPair (setPair s.1 i top) top i, st)
          else (setTy (setTy s.1 i .invalid) top .invalid, st)
      else popUntil s.1 i cur.name s.2
    | .openTag => (s.1, i :: s.2)
    | _ => s

def validateNesting (xhtml : Bool) (es : List Entry) : List Entry :=
  let s := (List.range es.length).foldl (nestStep xhtml) (es, [])
  s.2.foldl (fun es top => setTy es top (if xhtml then .invalid else .openCloseNoSlash)) s.1

/-! ### validate_entry_by_rules -/

def tyNum : Ty → Nat
  | .openTag => 0 | .closeTag => 1 | .openClose => 2 | .openCloseNoSlash => 3 | _ => 99

def kindAccepts (k : TagKind) (t : Ty) : Bool :=
  match k with
  | .invalidTag => false
  | .standAlone => Gen.kindStandAloneAccepts.contains (tyNum t)
  | .openingAndClosing => Gen.kindOpeningAndClosingAccepts.contains (tyNum t)
  | .anyTag => true

/-- equivalence under `compare_c_string` (XHTML) / `icompare_c_string` (HTML) -/
def keyEq (xhtml : Bool) (a b : Bytes) : Bool :=
  if xhtml then a == b else a.map cstrLower == b.map cstrLower

/-- `rules_holder::valid_boolean_property` -/
def validBooleanProperty (r : Rules) (t p : Bytes) : Bool :=
  if r.xhtml then false
  else match r.prop t p with
    | some .boolean => true
    | _ => false

/-- `rules_holder::valid_property` -/
def validProperty (r : Rules) (t p v : Bytes) : Bool :=
  match r.prop t p with
  | none => false
  | some .boolean => if r.xhtml then p == v else false
  | some (.pred f) => f v

def propsOk (r : Rules) (t : Bytes) : List Attr → List Bytes → Bool
  | [], _ => true
  | a :: rest, found =>
    if found.any (keyEq r.xhtml a.name) then false
    else
      (match a.value with
        | none => validBooleanProperty r t a.name
        | some v => validProperty r t a.name v)
      && propsOk r t rest (a.name :: found)

def entryOk (r : Rules) (e : Entry) : Bool :=
  match e.ty with
  | .invalid => false
  | .plain => true
  | .tag => false
  | .entity => r.entity e.name
  | .comment => r.comments
  | .numeric => r.numeric
  | .closeTag => kindAccepts (r.tagKind e.name) .closeTag
  | t => kindAccepts (r.tagKind e.name) t && propsOk r e.name e.props []

/-! ### validate, validate_and_filter_if_invalid, filter (encoding = "": no encoding check) -/

def isInvalid (e : Entry) : Bool := e.ty == .invalid

def validate (r : Rules) (x : Bytes) : Bool :=
  let parsed := parseAll x
  if parsed.any isInvalid then false
  else
    let nested := validateNesting r.xhtml parsed
    if nested.any isInvalid then false
    else nested.all (entryOk r)

/-- one iteration of the rules loop of `validate_and_filter_if_invalid` -/
def ruleStep (r : Rules) (s : List Entry × Bool) (i : Nat) : List Entry × Bool :=
  match s.1[i]? with
  | none => s
  | some e =>
    if entryOk r e then s
    else
      let es1 := match e.pair with
        | some j => setTy s.1 j .invalid
        | none => s.1
      (setTy es1 i .invalid, false)

def escapeByte (c : UInt8) : Bytes :=
  match Gen.escapeTable.find? (fun p => p.1 = c.toNat) with
  | some p => bytesOf p.2
  | none => [c]

/-- `filtering_method_type` -/
inductive Method
  | remove | escape
  deriving DecidableEq, Repr

def renderEntry (m : Method) (e : Entry) : Bytes :=
  if isInvalid e then
    match m with
    | .remove => []
    | .escape => e.text.flatMap escapeByte
  else e.text

def render (m : Method) (es : List Entry) : Bytes := es.flatMap (renderEntry m)

/-- the entries after the rules loop, and the `valid` flag -/
def analyse (r : Rules) (x : Bytes) : List Entry × Bool :=
  let parsed := parseAll x
  let v1 := !parsed.any isInvalid
  let nested := validateNesting r.xhtml parsed
  let v2 := !nested.any isInvalid
  let s := (List.range nested.length).foldl (ruleStep r) (nested, true)
  (s.1, v1 && v2 && s.2)

/-- `validate_and_filter_if_invalid`: `none` = returned true, output untouched -/
def validateAndFilter (r : Rules) (m : Method) (x : Bytes) : Option Bytes :=
  let a := analyse r x
  if a.2 then none else some (render m a.1)

/-- `filter` (both overloads) -/
def filter (r : Rules) (m : Method) (x : Bytes) : Bytes :=
  match validateAndFilter r m x with
  | none => x
  | some out => out

/-! ### with a declared encoding (`rules::encoding()` non-empty, ASCII-compatible)

`encoding::valid` / `encoding::validate_or_filter` are the subject of property C14; here they are
parameters.  (Encodings that are not ASCII-compatible go through iconv/ICU and are not modelled.) -/

structure Enc where
  /-- `encoding::valid(enc, begin, end, count)` -/
  valid : Bytes → Bool
  /-- the text `encoding::validate_or_filter(enc, begin, end, out, repl_ch)` leaves in `out` when it returns false -/
  prefilter : Bytes → Bytes

/-- `validate` -/
def validateE (E : Option Enc) (r : Rules) (x : Bytes) : Bool :=
  match E with
  | none => validate r x
  | some e => e.valid x && validate r x

/-- `validate_and_filter_if_invalid`: badly encoded input is replaced by the pre-filtered text, `valid` is already
false, so the output is always written -/
def validateAndFilterE (E : Option Enc) (r : Rules) (m : Method) (x : Bytes) : Option Bytes :=
  match E with
  | none => validateAndFilter r m x
  | some e => if e.valid x then validateAndFilter r m x else some (render m (analyse r (e.prefilter x)).1)

def filterE (E : Option Enc) (r : Rules) (m : Method) (x : Bytes) : Bytes :=
  match validateAndFilterE E r m x with
  | none => x
  | some out => out

/-- single-byte charsets: `tester` accepts a text iff it accepts every byte;
`validate_or_filter_single_byte_charset` keeps the accepted bytes and puts `repl` (if not NUL) for the others -/
def byteEnc (ok : UInt8 → Bool) (repl : UInt8) : Enc where
  valid := fun x => x.all ok
  prefilter := fun x => x.flatMap fun c => if ok c then [c] else if repl = 0 then [] else [repl]

/-! ### concrete rule sets (what the `add_*` calls of `rules` build) -/

/-- `integer_property_functor` -/
def integerProperty (v : Bytes) : Bool :=
  let ds := match v with
    | c :: rest => if c.toNat = Gen.intSign then rest else v
    | [] => v
  !ds.isEmpty && ds.all fun c => !Gen.intBadDigit c.toNat

inductive PropSpec
  | boolean | integer | oracle (id : Nat)
  deriving DecidableEq, Repr

/-- the calls made on a fresh `rules` object after `html(..)` was set, in order -/
structure RuleDesc where
  xhtml : Bool
  comments : Bool
  numeric : Bool
  entities : List Bytes
  tags : List (Bytes × TagKind)
  props : List (Bytes × Bytes × PropSpec)

/-- `std::map` with comparator: `operator[]` assignment overwrites the equivalent key, `find`
returns it; so a lookup sees the last assignment made under an equivalent key. -/
def lookupProp (d : RuleDesc) (t p : Bytes) : Option PropSpec :=
  (d.props.reverse.find? (fun q => keyEq d.xhtml q.1 t && keyEq d.xhtml q.2.1 p)).map (·.2.2)

def mkRules (d : RuleDesc) (oracle : Nat → Bytes → Bool) : Rules where
  xhtml := d.xhtml
  comments := d.comments
  numeric := d.numeric
  entity := fun n => (Gen.defaultEntities.map bytesOf ++ d.entities).contains n
  tagKind := fun n =>
    match d.tags.reverse.find? (fun p => keyEq d.xhtml p.1 n) with
    | some p => p.2
    | none => .invalidTag
  prop := fun t p =>
    match lookupProp d t p with
    | none => none
    | some .boolean => some .boolean
    | some .integer => some (.pred integerProperty)
    | some (.oracle id) => some (.pred (oracle id))

end Cppcms.C04
