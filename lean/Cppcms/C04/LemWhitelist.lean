import Cppcms.C04.LemAttrs
/-! C04 lemmas, part 7: tags as seen by the lenient tokenizer, and the whole-text induction giving whitelist_only. -/
namespace Cppcms.C04
open Cppcms

/-! ### tags -/

theorem takeWhile_append_of_head {p : UInt8 → Bool} {a rest : Bytes}
    (ha : ∀ x ∈ a, p x = true) (hr : ∀ x, rest.head? = some x → p x = false) :
    (a ++ rest).takeWhile p = a ∧ (a ++ rest).dropWhile p = rest := by
  cases rest with
  | nil =>
    have h1 := List.takeWhile_append_of_pos (p := p) (l₁ := a) (l₂ := []) ha
    have h2 := List.dropWhile_append_of_pos (p := p) (l₁ := a) (l₂ := []) ha
    simp only [List.append_nil, List.takeWhile_nil, List.dropWhile_nil] at h1 h2 ⊢
    exact ⟨h1, h2⟩
  | cons c b => exact takeWhile_append_stop ha (hr c rfl)

theorem all_of_dropWhile_nil {p : UInt8 → Bool} : ∀ {l : Bytes}, l.dropWhile p = [] → ∀ x ∈ l, p x = true := by
  intro l
  induction l with
  | nil => intro _ x hx; simp at hx
  | cons a l ih =>
    intro h x hx
    by_cases ha : p a = true
    · simp only [List.dropWhile_cons, ha, if_true] at h
      simp only [List.mem_cons] at hx
      rcases hx with rfl | hx
      · exact ha
      · exact ih h x hx
    · simp [List.dropWhile_cons, ha] at h

theorem of_mem_takeWhile {p : UInt8 → Bool} : ∀ {l : Bytes} {x : UInt8}, x ∈ l.takeWhile p → p x = true := by
  intro l
  induction l with
  | nil => intro x hx; simp at hx
  | cons a l ih =>
    intro x hx
    by_cases ha : p a = true
    · simp only [List.takeWhile_cons, ha, if_true, List.mem_cons] at hx
      rcases hx with rfl | hx
      · exact ha
      · exact ih hx
    · simp [List.takeWhile_cons, ha] at hx

theorem kindAccepts_cases (k : TagKind) :
    (kindAccepts k .closeTag = true → k = .openingAndClosing ∨ k = .anyTag) ∧
    (kindAccepts k .openTag = true → k = .openingAndClosing ∨ k = .anyTag) ∧
    (kindAccepts k .openClose = true → k = .standAlone ∨ k = .anyTag) ∧
    (kindAccepts k .openCloseNoSlash = true → k = .standAlone ∨ k = .anyTag) := by
  cases k <;> decide

open Spec in
theorem lenientAttrs_spaces_close : ∀ (sp : Bytes) (tail : Bytes) (m : Nat) (acc : List (Bytes × Option Bytes)),
    (∀ x ∈ sp, ws x = true) → (sp ++ 62 :: tail).length < m →
    lenientAttrs m (sp ++ 62 :: tail) acc = ⟨acc, false, true, tail⟩ := by
  intro sp
  induction sp with
  | nil =>
    intro tail m acc _ hm
    obtain ⟨m', rfl⟩ : ∃ m', m = m' + 1 := ⟨m - 1, by omega⟩
    exact (lenientAttrs_close m' tail acc).1
  | cons s sp ih =>
    intro tail m acc hs hm
    obtain ⟨m', rfl⟩ : ∃ m', m = m' + 1 := ⟨m - 1, by omega⟩
    simp only [List.cons_append, List.length_cons] at hm ⊢
    rw [lenientAttrs_ws _ _ _ _ (hs s (List.mem_cons_self ..))]
    exact ih tail m' acc (fun x hx => hs x (List.mem_cons_of_mem _ hx)) (by omega)

theorem props_head_space (n : Nat) (c : UInt8) (s : Bytes) (acc ps : List Attr)
    (h : parsePropsAux n true (c :: s) acc = some ps) (hc : isAlnum c = false) : isSpace c = true := by
  cases n with
  | zero => simp [parsePropsAux] at h
  | succ n =>
    unfold parsePropsAux at h
    split at h
    · assumption
    · exfalso
      simp only [Bool.not_true, Bool.false_eq_true, if_false] at h
      split at h
      · cases h
      rename_i hal
      simp only [List.dropWhile_cons, hc, Bool.false_eq_true, if_false] at h
      have hal' : isAlpha c = true := by simpa using hal
      have haf := alpha_facts c hal'
      rename_i hsp
      simp only [hsp, if_false] at h
      have : c ≠ cEq := by rw [cEq_eq]; exact haf.2.2.2.2.2.2.2.2.1
      simp at h
      exact haf.2.2.2.2.2.2.2.2.1 h.1

theorem dropLast_append_of_getLast? : ∀ {l : Bytes} {a : UInt8}, l.getLast? = some a → l = l.dropLast ++ [a] := by
  intro l
  induction l with
  | nil => intro a h; simp at h
  | cons x l ih =>
    intro a h
    cases l with
    | nil => simp at h; simp [h]
    | cons y l' =>
      rw [List.getLast?_cons_cons] at h
      have := ih h
      simp only [List.dropLast_cons₂, List.cons_append]
      rw [← this]

/-- the (closer) bytes between the attributes and the rest of the text -/
def closerOf (sc : Bool) : Bytes := if sc then [47, 62] else [62]

theorem closer_closerOf (sc : Bool) : Closer (closerOf sc) sc := by
  cases sc <;> simp [Closer, closerOf]

open Spec in
theorem open_core (r : Rules) (a : UInt8) (t tail body : Bytes) (ps : List Attr) (sc : Bool)
    (hal : isAlpha a = true)
    (hbody : t.dropWhile isAlnum ++ 62 :: tail = body ++ closerOf sc ++ tail)
    (hhead : ∀ c, body.head? = some c → isAlnum c = false)
    (hpp : parseProps body = some ps)
    (hkind : kindOk r.xhtml false sc (r.tagKind (a :: t.takeWhile isAlnum)) = true)
    (hprops : propsOk r (a :: t.takeWhile isAlnum) ps [] = true) :
    ∃ m, lenientMarkup (60 :: (a :: t ++ 62 :: tail)) = m :: lenientMarkup tail ∧ allowed r m = true := by
  have haf := alpha_facts a hal
  refine ⟨.tag false (a :: t.takeWhile isAlnum) (ps.map conv) sc true, ?_, ?_⟩
  · simp only [List.cons_append]
    rw [lenientMarkup_open a _ haf.2.2.2.2.1 haf.2.2.2.2.2.1 haf.2.2.2.2.2.2.1 haf.2.1]
    have hdec : a :: (t ++ 62 :: tail) = (a :: t.takeWhile isAlnum) ++ (body ++ closerOf sc ++ tail) := by
      rw [← hbody]
      simp only [List.cons_append, ← List.append_assoc, List.takeWhile_append_dropWhile]
    have hnm : ∀ x ∈ a :: t.takeWhile isAlnum, nameChar x = true := by
      intro x hx
      simp only [List.mem_cons] at hx
      rcases hx with rfl | hx
      · exact haf.1
      · exact (alnum_facts x (of_mem_takeWhile hx)).2.1
    unfold parseProps at hpp
    have hh : ∀ x, (body ++ closerOf sc ++ tail).head? = some x → nameChar x = false := by
      intro x hx
      cases hb : body with
      | nil =>
        rw [hb] at hx
        cases sc <;> simp [closerOf] at hx <;> subst hx <;> decide
      | cons c body' =>
        rw [hb] at hx hpp
        simp at hx; subst hx
        have hc := hhead c (by rw [hb]; rfl)
        have := props_head_space _ c body' [] ps hpp hc
        have := (space_facts c this).1
        simp [nameChar, this]
    obtain ⟨tw, dw⟩ := takeWhile_append_of_head hnm hh
    unfold lenientTag
    rw [hdec, tw, dw]
    obtain ⟨ps', e1, e2, e3⟩ := attrs_step _ _ _ _ _ hpp
    simp only [List.nil_append] at e1
    subst e1
    rw [e3 (closerOf sc) sc tail _ [] (closer_closerOf sc) (by simp; omega)]
    simp
  · obtain ⟨ps', e1, e2, e3⟩ := attrs_step _ _ _ _ _ hpp
    simp only [List.nil_append] at e1
    subst e1
    simp only [allowed, Bool.true_and, hkind, Bool.false_eq_true, if_false]
    exact attrsOk_of_propsOk r _ ps [] e2 hprops

theorem head_of_dropLast_head : ∀ {l : Bytes} {c : UInt8}, l.dropLast.head? = some c → l.head? = some c := by
  intro l c h
  cases l with
  | nil => simp at h
  | cons x l' =>
    cases l' with
    | nil => simp at h
    | cons y l'' => simpa using h

theorem dropWhile_head_not {p : UInt8 → Bool} {l : Bytes} {c : UInt8} (h : (l.dropWhile p).head? = some c) : p c = false := by
  cases hd : l.dropWhile p with
  | nil => rw [hd] at h; simp at h
  | cons d s =>
    rw [hd] at h; simp at h; subst h
    exact (dropWhile_eq_cons hd).2.1

theorem kindOk_of_accepts (x : Bool) (k : TagKind) :
    (kindAccepts k .openTag = true → Spec.kindOk x false false k = true) ∧
    (kindAccepts k .openClose = true → Spec.kindOk x false true k = true) ∧
    (kindAccepts k .openCloseNoSlash = true → Spec.kindOk false false false k = true) := by
  cases k <;> cases x <;> decide

open Spec in
theorem tag_core (r : Rules) (inner tail text : Bytes) (htext : (text.drop 1).dropLast = inner)
    (hok : TokOk r (text, .tag)) :
    ∃ m, lenientMarkup (60 :: (inner ++ 62 :: tail)) = m :: lenientMarkup tail ∧ allowed r m = true := by
  obtain ⟨hty, t', hrel, hne, hent⟩ := hok
  simp only [parsePart] at hty hrel hent
  unfold parseTag at hty hrel hent
  rw [htext] at hty hrel hent
  simp only at hty hrel hent
  cases inner with
  | nil => simp at hty
  | cons a t =>
    simp only at hty hrel hent
    by_cases ha : a = cSlash
    · -- closing tag
      simp only [ha, if_true] at hty hrel hent
      cases t with
      | nil => simp at hty
      | cons b u =>
        simp only at hty hrel hent
        by_cases hb : isAlpha b = true
        · simp only [hb, Bool.not_true, Bool.false_eq_true, if_false] at hty hrel hent
          by_cases hafter : ((u.dropWhile isAlnum).dropWhile isSpace).isEmpty = true
          · simp only [hafter, if_true] at hty hrel hent
            have : t' = .closeTag := tyRel_of_not_open hrel hne (by simp)
            subst this
            simp only [entryOk] at hent
            have hbf := alpha_facts b hb
            have hu : u = u.takeWhile isAlnum ++ u.dropWhile isAlnum := List.takeWhile_append_dropWhile.symm
            have hsp : ∀ x ∈ u.dropWhile isAlnum, ws x = true := by
              intro x hx
              have h0 : (u.dropWhile isAlnum).dropWhile isSpace = [] := by simpa using hafter
              exact (space_facts x (all_of_dropWhile_nil h0 x hx)).1
            have hal : ∀ x ∈ b :: u.takeWhile isAlnum, nameChar x = true := by
              intro x hx
              simp only [List.mem_cons] at hx
              rcases hx with rfl | hx
              · exact hbf.1
              · exact (alnum_facts x (of_mem_takeWhile hx)).2.1
            refine ⟨.tag true (b :: u.takeWhile isAlnum) [] false true, ?_, ?_⟩
            · rw [cSlash_eq] at ha
              subst ha
              simp only [List.cons_append]
              rw [lenientMarkup_close b _ hbf.2.1]
              have hdec : b :: (u ++ 62 :: tail) = (b :: u.takeWhile isAlnum) ++ (u.dropWhile isAlnum ++ 62 :: tail) := by
                simp only [List.cons_append, ← List.append_assoc, List.takeWhile_append_dropWhile]
              have hhead : ∀ x, (u.dropWhile isAlnum ++ 62 :: tail).head? = some x → nameChar x = false := by
                intro x hx
                cases hdw : u.dropWhile isAlnum with
                | nil => rw [hdw] at hx; simp at hx; subst hx; decide
                | cons y ys =>
                  rw [hdw] at hx; simp at hx; subst hx
                  have := hsp y (by rw [hdw]; exact List.mem_cons_self ..)
                  simp [nameChar, this]
              obtain ⟨tw, dw⟩ := takeWhile_append_of_head hal hhead
              unfold lenientTag
              rw [hdec, tw, dw]
              have hl : (u.dropWhile isAlnum ++ 62 :: tail).length < ((b :: u.takeWhile isAlnum) ++ (u.dropWhile isAlnum ++ 62 :: tail)).length + 1 := by
                simp; omega
              rw [lenientAttrs_spaces_close _ tail _ [] hsp hl]
            · have := (kindAccepts_cases (r.tagKind (b :: u.takeWhile isAlnum))).1 hent
              simp only [allowed, Bool.true_and, if_true, List.isEmpty_nil, Bool.not_false, Bool.and_true]
              rcases this with h | h <;> simp [h, kindOk]
          · simp only [hafter] at hty
            simp at hty
        · simp only [hb] at hty
          simp at hty
    · -- opening tag
      simp only [ha, if_false] at hty hrel hent
      by_cases hal : isAlpha a = true
      · simp only [hal, Bool.not_true, Bool.false_eq_true, if_false] at hty hrel hent
        have ha47 : a ≠ 47 := by rw [cSlash_eq] at ha; exact ha
        generalize hpp : parseProps (if (a :: t).getLast? = some cSelfClose then (t.dropWhile isAlnum).dropLast
          else t.dropWhile isAlnum) = pp at hty hrel hent
        cases pp with
        | none => simp at hty
        | some ps =>
          simp only at hty hrel hent
          by_cases hsc : (a :: t).getLast? = some cSelfClose
          · simp only [hsc, if_true] at hpp hty hrel hent
            have : t' = .openClose := tyRel_of_not_open hrel hne (by simp)
            subst this
            simp only [entryOk, Bool.and_eq_true] at hent
            -- the last byte of what follows the name is the slash
            have hlast : (t.dropWhile isAlnum).getLast? = some 47 := by
              rw [cSelfClose_eq, List.getLast?_cons] at hsc
              have ht : t.getLast? = some 47 := by
                cases hg : t.getLast? with
                | none => rw [hg] at hsc; simp at hsc; exact absurd hsc ha47
                | some z => rw [hg] at hsc; simpa using hsc
              rw [← List.takeWhile_append_dropWhile (p := isAlnum) (l := t), List.getLast?_append] at ht
              cases hg : (t.dropWhile isAlnum).getLast? with
              | none =>
                rw [hg] at ht
                simp only [Option.none_or] at ht
                have := of_mem_takeWhile (List.mem_of_getLast? ht)
                exact absurd this (by decide)
              | some z => rw [hg] at ht; simpa using ht
            have hdl := dropLast_append_of_getLast? hlast
            apply open_core r a t tail ((t.dropWhile isAlnum).dropLast) ps true hal ?_ ?_ hpp ?_ hent.2
            · conv => lhs; rw [hdl]
              simp [closerOf]
            · intro c hc
              exact dropWhile_head_not (head_of_dropLast_head hc)
            · exact (kindOk_of_accepts r.xhtml _).2.1 hent.1
          · simp only [hsc, if_false] at hpp hty hrel hent
            have hk : kindOk r.xhtml false false (r.tagKind (a :: t.takeWhile isAlnum)) = true ∧
                propsOk r (a :: t.takeWhile isAlnum) ps [] = true := by
              rcases hrel with h | h | h
              · subst h
                simp only [entryOk, Bool.and_eq_true] at hent
                exact ⟨(kindOk_of_accepts r.xhtml _).1 hent.1, hent.2⟩
              · exact absurd h hne
              · obtain ⟨hx, _, h⟩ := h
                subst h
                simp only [entryOk, Bool.and_eq_true] at hent
                rw [hx]
                exact ⟨(kindOk_of_accepts r.xhtml _).2.2 hent.1, hent.2⟩
            apply open_core r a t tail (t.dropWhile isAlnum) ps false hal ?_ ?_ hpp hk.1 hk.2
            · simp [closerOf]
            · intro c hc
              exact dropWhile_head_not hc
      · simp only [hal] at hty
        simp at hty

/-! ### the whole text -/

theorem lenient_skip_plain : ∀ s : Bytes, Spec.lenientMarkup s = Spec.lenientMarkup (s.dropWhile (fun b => !isSpecial b)) := by
  intro s
  induction s with
  | nil => rfl
  | cons c s ih =>
    by_cases hc : isSpecial c = true
    · simp [List.dropWhile_cons, hc]
    · have hc' : isSpecial c = false := by simpa using hc
      have := special_facts c hc'
      simp only [List.dropWhile_cons, hc', Bool.not_false, if_true]
      rw [Spec.lenientMarkup_cons_plain s this.1 this.2.1 this.2.2]
      exact ih

theorem tokOk_invalid (r : Rules) (t : Bytes) : ¬ TokOk r (t, .invalid) := by
  intro h
  exact h.1 rfl

theorem whitelist_core (r : Rules) : ∀ (n : Nat) (x : Bytes), x.length ≤ n → (∀ p ∈ split x, TokOk r p) →
    ∀ m ∈ Spec.lenientMarkup x, Spec.allowed r m = true := by
  intro n
  induction n with
  | zero =>
    intro x hx _ m hm
    have : x = [] := List.eq_nil_of_length_eq_zero (by omega)
    subst this
    simp at hm
  | succ n ih =>
    intro x hx htok m hm
    cases x with
    | nil => simp at hm
    | cons c rest =>
      simp only [List.length_cons] at hx
      rw [split_cons] at htok
      split at htok
      · -- '&'
        rename_i hc
        subst hc
        split at htok
        · exact absurd (htok _ (List.mem_cons_self ..)) (tokOk_invalid r _)
        · rename_i k hk
          obtain ⟨name, hl, ha⟩ := entity_step r rest k hk (htok _ (List.mem_cons_self ..))
          rw [hl] at hm
          simp only [List.mem_cons] at hm
          rcases hm with rfl | hm
          · exact ha
          · exact ih (rest.drop (k + 1)) (by simp; omega) (fun p hp => htok p (List.mem_cons_of_mem _ hp)) m hm
      split at htok
      · -- '<'
        rename_i hc1 hc
        subst hc
        split at htok
        · rename_i hcom
          split at htok
          · exact absurd (htok _ (List.mem_cons_self ..)) (tokOk_invalid r _)
          · rename_i j hj
            split at htok
            · rename_i h62
              obtain ⟨body, hl, ha⟩ := comment_step r rest j hcom.2 hj h62 (htok _ (List.mem_cons_self ..))
              rw [hl] at hm
              simp only [List.mem_cons] at hm
              rcases hm with rfl | hm
              · exact ha
              · exact ih (rest.drop (3 + j + 3)) (by simp; omega) (fun p hp => htok p (List.mem_cons_of_mem _ hp)) m hm
            · exact absurd (htok _ (List.mem_cons_self ..)) (tokOk_invalid r _)
        · split at htok
          · exact absurd (htok _ (List.mem_cons_self ..)) (tokOk_invalid r _)
          · rename_i k hk
            obtain ⟨hsplit, _⟩ := findByte_spec hk
            have hkl := findByte_lt hk
            have hk' : (rest.take k).length = k := by simp; omega
            have h3 := take_succ_of_split hsplit
            rw [hk'] at h3
            have hinner : ((60 :: rest.take (k + 1)).drop 1).dropLast = rest.take k := by
              simp only [List.drop_succ_cons, List.drop_zero]
              rw [h3.1]; simp
            obtain ⟨mk, hl, ha⟩ := tag_core r (rest.take k) (rest.drop (k + 1)) _ hinner (htok _ (List.mem_cons_self ..))
            rw [← hsplit] at hl
            rw [hl] at hm
            simp only [List.mem_cons] at hm
            rcases hm with rfl | hm
            · exact ha
            · exact ih (rest.drop (k + 1)) (by simp; omega) (fun p hp => htok p (List.mem_cons_of_mem _ hp)) m hm
      split at htok
      · exact absurd (htok _ (List.mem_cons_self ..)) (tokOk_invalid r _)
      · -- plain run
        rename_i h1 h2 h3
        rw [Spec.lenientMarkup_cons_plain rest h1 h3 h2, lenient_skip_plain] at hm
        have := (List.dropWhile_sublist (l := rest) (fun b => !isSpecial b)).length_le
        exact ih _ (by omega) (fun p hp => htok p (List.mem_cons_of_mem _ hp)) m hm

/-- validated text contains only white-listed markup (as cut by the independent lenient tokenizer) -/
theorem whitelist_only (r : Rules) (y : Bytes) (h : validate r y = true) :
    ∀ m ∈ Spec.lenientMarkup y, Spec.Allowed r m :=
  whitelist_core r y.length y (Nat.le_refl _) (validate_tokOk h)
end Cppcms.C04
