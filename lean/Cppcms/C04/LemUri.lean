import Cppcms.C04.Uri
/-! C04 lemmas, part 16: the scheme white list of the URI validator model. -/
namespace Cppcms.C04.Uri
open Cppcms

/-- the scheme of a URI text as a URL parser sees it: a letter, then letters/digits/`+`/`-`/`.`, then `:` -/
def schemeOf (v : Bytes) : Option Bytes :=
  match scheme v with
  | some (sch, 58 :: _) => some sch
  | _ => none

theorem uri_eq_none_iff (v : Bytes) : uri v = none ↔ schemeOf v = none := by
  unfold uri schemeOf
  cases h : scheme v with
  | none => simp
  | some p =>
    obtain ⟨sch, s1⟩ := p
    cases s1 with
    | nil => simp [followsC]
    | cons c rest =>
      by_cases hc : c = 58
      · subst hc; simp [followsC]
      · simp [followsC, hc]

theorem uri_scheme (v sch rest : Bytes) (h : uri v = some (sch, rest)) : schemeOf v = some sch := by
  unfold uri at h
  unfold schemeOf
  cases hs : scheme v with
  | none => simp [hs] at h
  | some p =>
    obtain ⟨sch', s1⟩ := p
    simp only [hs] at h ⊢
    cases s1 with
    | nil => simp [followsC] at h
    | cons c rest' =>
      by_cases hc : c = 58
      · subst hc
        simp only [followsC, if_true] at h
        simp at h
        simp [h.1]
      · simp [followsC, hc] at h

/-- whatever the validator accepts: if the text has a scheme, the kind is not `relative` and the scheme expression
matched exactly that scheme; an `absolute_uri` validator accepts only texts with a scheme -/
theorem validator_scheme (k : Kind) (schemeOk : Bytes → Bool) (v : Bytes) (h : validator k schemeOk v = true) :
    (∀ sch, schemeOf v = some sch → k ≠ .relative ∧ schemeOk sch = true) ∧
    (k = .full → ∃ sch, schemeOf v = some sch ∧ schemeOk sch = true) := by
  unfold validator parse at h
  cases hu : uri v with
  | none =>
    have hn := (uri_eq_none_iff v).mp hu
    simp only [hu] at h
    constructor
    · intro sch hs; rw [hn] at hs; cases hs
    · intro hk; subst hk
      split at h <;> simp_all
  | some p =>
    obtain ⟨sch, rest⟩ := p
    have hs := uri_scheme v sch rest hu
    simp only [hu] at h
    by_cases he : rest.isEmpty = true
    · simp only [he, if_true] at h
      constructor
      · intro sch' hs'
        rw [hs] at hs'
        simp at hs'; subst hs'
        cases k <;> simp_all
      · intro hk; subst hk
        exact ⟨sch, hs, by simpa using h⟩
    · simp only [he] at h
      cases k <;> simp at h

/-- `javascript:…` is never accepted unless the scheme expression matches `javascript` -/
example (k : Kind) (ok : Bytes → Bool) (hj : ok [106, 97, 118, 97, 115, 99, 114, 105, 112, 116] = false) :
    validator k ok [106, 97, 118, 97, 115, 99, 114, 105, 112, 116, 58, 120] = false := by
  cases hv : validator k ok [106, 97, 118, 97, 115, 99, 114, 105, 112, 116, 58, 120] with
  | false => rfl
  | true =>
    have := (validator_scheme k ok _ hv).1 [106, 97, 118, 97, 115, 99, 114, 105, 112, 116] (by decide)
    rw [hj] at this
    exact absurd this.2 (by simp)

end Cppcms.C04.Uri
