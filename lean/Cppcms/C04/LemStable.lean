import Cppcms.C04.LemSecondRun
import Cppcms.C04.LemWhitelist
/-! C04 lemmas, part 12: token-level stability (kept tokens are self-delimiting, plain runs merge harmlessly, escaped
text re-tokenizes into plain bytes and the four always-allowed entities) and the XHTML theorem
`filter_validates_xhtml`. -/
namespace Cppcms.C04
open Cppcms

/-! ### tokens are self-delimiting -/

/-- re-tokenizing `tok.1 ++ rest` yields `tok` first, whatever follows -/
def SD (tok : Bytes × Ty) : Prop := ∀ rest : Bytes, split (tok.1 ++ rest) = tok :: split rest

theorem findByte_append_take {c : UInt8} : ∀ {s : Bytes} {k : Nat} (t : Bytes), findByte c s = some k →
    findByte c (s.take (k + 1) ++ t) = some k := by
  intro s
  induction s with
  | nil => intro k t h; simp [findByte] at h
  | cons x xs ih =>
    intro k t h
    unfold findByte at h
    split at h
    · rename_i hx
      simp at h; subst h
      simp [findByte, hx]
    · rename_i hx
      cases h2 : findByte c xs with
      | none => simp [h2] at h
      | some j =>
        simp [h2] at h; subst h
        simp only [List.take_succ_cons, List.cons_append]
        unfold findByte
        simp [hx, ih t h2]

theorem findPair_append_take {a b : UInt8} : ∀ {s : Bytes} {j : Nat} (n : Nat) (t : Bytes), findPair a b s = some j → j + 2 ≤ n →
    findPair a b (s.take n ++ t) = some j := by
  intro s
  induction s with
  | nil => intro j n t h; simp [findPair] at h
  | cons x xs ih =>
    intro j n t h hn
    cases xs with
    | nil => simp [findPair] at h
    | cons y rest =>
      unfold findPair at h
      obtain ⟨n', rfl⟩ : ∃ n', n = n' + 2 := ⟨n - 2, by omega⟩
      simp only [List.take_succ_cons, List.cons_append]
      split at h
      · rename_i hxy
        simp at h; subst h
        unfold findPair
        simp [hxy]
      · rename_i hxy
        cases h2 : findPair a b (y :: rest) with
        | none => simp [h2] at h
        | some j' =>
          simp [h2] at h; subst h
          have := ih (n' + 1) t h2 (by omega)
          simp only [List.take_succ_cons, List.cons_append] at this
          unfold findPair
          simp only [hxy, if_false, this, Option.map_some]

theorem take_append_exact {α : Type} (s t : List α) (n : Nat) (h : n ≤ s.length) :
    (s.take n ++ t).take n = s.take n ∧ (s.take n ++ t).drop n = t := by
  have hl : (s.take n).length = n := by simp; omega
  constructor
  · rw [List.take_append_of_le_length (by omega)]
    rw [List.take_of_length_le (by omega)]
  · rw [List.drop_append_of_le_length (by omega)]
    rw [List.drop_of_length_le (by omega)]
    simp

theorem sd_entity (rest : Bytes) (k : Nat) (hf : findByte 59 rest = some k) : SD (38 :: rest.take (k + 1), .entity) := by
  intro rest'
  have hk := findByte_lt hf
  obtain ⟨e1, e2⟩ := take_append_exact rest rest' (k + 1) (by omega)
  simp only [List.cons_append]
  rw [split_cons]
  simp only [if_true, findByte_append_take rest' hf, e1, e2]

theorem sd_tag (rest : Bytes) (k : Nat) (hf : findByte 62 rest = some k) (hhead : ∀ a, rest.head? = some a → a ≠ 33) :
    SD (60 :: rest.take (k + 1), .tag) := by
  intro rest'
  have hk := findByte_lt hf
  obtain ⟨e1, e2⟩ := take_append_exact rest rest' (k + 1) (by omega)
  simp only [List.cons_append]
  rw [split_cons]
  have h60 : ¬ ((60 : UInt8) = 38) := by decide
  simp only [h60, if_false, if_true]
  have hcond : ¬ (4 < (60 :: (rest.take (k + 1) ++ rest')).length ∧ (rest.take (k + 1) ++ rest').take 3 = [33, 45, 45]) := by
    intro ⟨_, h3⟩
    cases rest with
    | nil => simp at hk
    | cons a rest0 =>
      have := hhead a rfl
      simp only [List.take_succ_cons, List.cons_append] at h3
      simp at h3
      exact this h3.1
  simp only [hcond, if_false, findByte_append_take rest' hf, e1, e2]

theorem sd_comment (rest : Bytes) (j : Nat) (h3 : rest.take 3 = [33, 45, 45]) (hf : findPair 45 45 (rest.drop 3) = some j)
    (h62 : (rest.drop 3)[j + 2]? = some 62) :
    SD (60 :: rest.take (3 + j + 3),
      if ((rest.drop 3).take j).any (fun b => Gen.commentForbidden b.toNat) then Ty.invalid else Ty.comment) := by
  intro rest'
  have hj := findPair_lt hf
  have hlen : 3 + j + 3 ≤ rest.length := by
    have : j + 2 < (rest.drop 3).length := by
      rcases Nat.lt_or_ge (j + 2) (rest.drop 3).length with h | h
      · exact h
      · rw [List.getElem?_eq_none h] at h62; cases h62
    simp at this; omega
  obtain ⟨e1, e2⟩ := take_append_exact rest rest' (3 + j + 3) hlen
  simp only [List.cons_append]
  rw [split_cons]
  have h60 : ¬ ((60 : UInt8) = 38) := by decide
  simp only [h60, if_false, if_true]
  have hdrop : (rest.take (3 + j + 3) ++ rest').drop 3 = (rest.drop 3).take (j + 3) ++ rest' := by
    rw [List.drop_append_of_le_length (by simp; omega), List.drop_take]
    congr 2; omega
  have hcond : 4 < (60 :: (rest.take (3 + j + 3) ++ rest')).length ∧ (rest.take (3 + j + 3) ++ rest').take 3 = [33, 45, 45] := by
    constructor
    · simp; omega
    · rw [List.take_append_of_le_length (by simp; omega), List.take_take]
      rw [show min 3 (3 + j + 3) = 3 by omega]; exact h3
  simp only [hcond, and_self, if_true, hdrop]
  rw [findPair_append_take (j + 3) rest' hf (by omega)]
  simp only
  have hget : ((rest.drop 3).take (j + 3) ++ rest')[j + 2]? = some 62 := by
    rw [List.getElem?_append_left (by simp; omega), List.getElem?_take_of_lt (by omega)]
    exact h62
  have htake : ((rest.drop 3).take (j + 3) ++ rest').take j = (rest.drop 3).take j := by
    rw [List.take_append_of_le_length (by simp; omega), List.take_take]
    rw [show min j (j + 3) = j by omega]
  simp only [hget, if_true, htake, e1, e2]

theorem parseTag_head (text : Bytes) (h : (parseTag text).1 ≠ .invalid) :
    ∃ a t, (text.drop 1).dropLast = a :: t ∧ a ≠ 33 := by
  unfold parseTag at h
  simp only at h
  cases hin : (text.drop 1).dropLast with
  | nil => rw [hin] at h; simp at h
  | cons a t =>
    refine ⟨a, t, rfl, ?_⟩
    intro ha
    subst ha
    simp only [hin] at h
    have e1 : ¬ ((33 : UInt8) = cSlash) := by decide
    have e2 : isAlpha 33 = false := by decide
    simp [e1, e2] at h

/-- facts about a token produced by the tokenizer -/
def TokFacts (tok : Bytes × Ty) : Prop :=
  (tok.2 = .plain → ∀ c ∈ tok.1, isSpecial c = false) ∧
  (tok.2 = .entity → SD tok) ∧ (tok.2 = .comment → SD tok) ∧
  (tok.2 = .tag → (parsePart tok).ty ≠ .invalid → SD tok) ∧
  (tok.2 = .invalid ∨ tok.2 = .plain ∨ tok.2 = .entity ∨ tok.2 = .tag ∨ tok.2 = .comment)

theorem tokFacts_invalid (t : Bytes) : TokFacts (t, .invalid) :=
  ⟨by simp, by simp, by simp, by simp, Or.inl rfl⟩

theorem split_tokFacts : ∀ (n : Nat) (x : Bytes), x.length ≤ n → ∀ tok ∈ split x, TokFacts tok := by
  intro n
  induction n with
  | zero =>
    intro x hx tok htok
    have : x = [] := List.eq_nil_of_length_eq_zero (by omega)
    subst this
    simp at htok
  | succ n ih =>
    intro x hx tok htok
    cases x with
    | nil => simp at htok
    | cons c rest =>
      simp only [List.length_cons] at hx
      rw [split_cons] at htok
      split at htok
      · rename_i hc
        subst hc
        split at htok
        · simp only [List.mem_singleton] at htok
          subst htok; exact tokFacts_invalid _
        · rename_i k hk
          simp only [List.mem_cons] at htok
          rcases htok with rfl | htok
          · exact ⟨by simp, fun _ => sd_entity rest k hk, by simp, by simp, by simp⟩
          · exact ih _ (by simp; omega) tok htok
      split at htok
      · rename_i hc1 hc
        subst hc
        split at htok
        · rename_i hcom
          split at htok
          · simp only [List.mem_singleton] at htok
            subst htok; exact tokFacts_invalid _
          · rename_i j hj
            split at htok
            · rename_i h62
              simp only [List.mem_cons] at htok
              rcases htok with rfl | htok
              · have hsd := sd_comment rest j hcom.2 hj h62
                refine ⟨?_, ?_, fun _ => hsd, ?_, ?_⟩
                · intro h; split at h <;> cases h
                · intro h; split at h <;> cases h
                · intro h; split at h <;> cases h
                · split <;> simp
              · exact ih _ (by simp; omega) tok htok
            · simp only [List.mem_singleton] at htok
              subst htok; exact tokFacts_invalid _
        · split at htok
          · simp only [List.mem_singleton] at htok
            subst htok; exact tokFacts_invalid _
          · rename_i k hk
            simp only [List.mem_cons] at htok
            rcases htok with rfl | htok
            · refine ⟨by simp, by simp, by simp, ?_, by simp⟩
              intro _ hv
              apply sd_tag rest k hk
              intro a ha
              simp only [parsePart] at hv
              obtain ⟨a', t, hin, hne⟩ := parseTag_head _ hv
              obtain ⟨hsplit, _⟩ := findByte_spec hk
              have hkl := findByte_lt hk
              have hk' : (rest.take k).length = k := by simp; omega
              have h3 := take_succ_of_split hsplit
              rw [hk'] at h3
              have hinner : ((60 :: rest.take (k + 1)).drop 1).dropLast = rest.take k := by
                simp only [List.drop_succ_cons, List.drop_zero]
                rw [h3.1]; simp
              rw [hinner] at hin
              cases rest with
              | nil => simp at ha
              | cons a0 rest0 =>
                simp at ha; subst ha
                cases k with
                | zero => simp at hin
                | succ k' => simp at hin; rw [hin.1]; exact hne
            · exact ih _ (by simp; omega) tok htok
      split at htok
      · simp only [List.mem_cons] at htok
        rcases htok with rfl | htok
        · exact tokFacts_invalid _
        · exact ih _ (by omega) tok htok
      · rename_i h1 h2 h3
        simp only [List.mem_cons] at htok
        rcases htok with rfl | htok
        · refine ⟨?_, by simp, by simp, by simp, by simp⟩
          intro _ d hd
          simp only [List.mem_cons] at hd
          rcases hd with rfl | hd
          · by_cases hs : isSpecial d = true
            · have := (isSpecial_iff d).mp hs
              rcases this with h | h | h
              · exact absurd h h2
              · exact absurd h h3
              · exact absurd h h1
            · simpa using hs
          · have := of_mem_takeWhile hd
            simpa using this
        · have := (List.dropWhile_sublist (l := rest) (fun b => !isSpecial b)).length_le
          exact ih _ (by omega) tok htok

/-! ### the non-plain tokens of a text -/

def nonPlain (t : Bytes × Ty) : Bool := t.2 != .plain

/-- tokens other than plain runs (plain runs merge when text is removed between them) -/
def NP (z : Bytes) : List (Bytes × Ty) := (split z).filter nonPlain

theorem NP_skip (z : Bytes) : NP z = NP (z.dropWhile (fun b => !isSpecial b)) := by
  cases z with
  | nil => rfl
  | cons c rest =>
    by_cases hs : isSpecial c = true
    · simp [List.dropWhile_cons, hs]
    · have hs' : isSpecial c = false := by simpa using hs
      have hc := special_facts c hs'
      simp only [List.dropWhile_cons, hs', Bool.not_false, if_true]
      unfold NP
      rw [split_cons]
      simp only [hc.1, hc.2.1, hc.2.2, if_false]
      simp [List.filter_cons, nonPlain]

theorem NP_plain_append (p rest : Bytes) (hp : ∀ c ∈ p, isSpecial c = false) : NP (p ++ rest) = NP rest := by
  rw [NP_skip (p ++ rest), NP_skip rest]
  rw [List.dropWhile_append_of_pos (fun c hc => by simp [hp c hc])]

theorem NP_sd (tok : Bytes × Ty) (rest : Bytes) (h : SD tok) (hn : tok.2 ≠ .plain) : NP (tok.1 ++ rest) = tok :: NP rest := by
  unfold NP
  rw [h rest]
  simp [List.filter_cons, nonPlain, hn]

/-! ### escaped text -/

theorem escapeByte_cases : ∀ c : UInt8,
    (c = 60 ∧ escapeByte c = [38, 108, 116, 59]) ∨ (c = 62 ∧ escapeByte c = [38, 103, 116, 59]) ∨
    (c = 38 ∧ escapeByte c = [38, 97, 109, 112, 59]) ∨ (c = 34 ∧ escapeByte c = [38, 113, 117, 111, 116, 59]) ∨
    (escapeByte c = [c] ∧ isSpecial c = false) := by
  apply forall_uint8
  decide +kernel

theorem escapeByte_facts (c : UInt8) :
    (∃ name, escapeByte c = 38 :: (name ++ [59]) ∧
      (name = [108, 116] ∨ name = [103, 116] ∨ name = [97, 109, 112] ∨ name = [113, 117, 111, 116])) ∨
    (escapeByte c = [c] ∧ isSpecial c = false) := by
  rcases escapeByte_cases c with ⟨_, h⟩ | ⟨_, h⟩ | ⟨_, h⟩ | ⟨_, h⟩ | h
  · exact Or.inl ⟨[108, 116], by rw [h]; rfl, by simp⟩
  · exact Or.inl ⟨[103, 116], by rw [h]; rfl, by simp⟩
  · exact Or.inl ⟨[97, 109, 112], by rw [h]; rfl, by simp⟩
  · exact Or.inl ⟨[113, 117, 111, 116], by rw [h]; rfl, by simp⟩
  · exact Or.inr h

theorem sd_escape (name : Bytes)
    (hn : name = [108, 116] ∨ name = [103, 116] ∨ name = [97, 109, 112] ∨ name = [113, 117, 111, 116]) :
    SD (38 :: (name ++ [59]), .entity) ∧
    (parsePart (38 :: (name ++ [59]), .entity)).ty = .entity ∧ (parsePart (38 :: (name ++ [59]), .entity)).name = name := by
  rcases hn with rfl | rfl | rfl | rfl
  · exact ⟨sd_entity [108, 116, 59] 2 (by decide), by decide, by decide⟩
  · exact ⟨sd_entity [103, 116, 59] 2 (by decide), by decide, by decide⟩
  · exact ⟨sd_entity [97, 109, 112, 59] 3 (by decide), by decide, by decide⟩
  · exact ⟨sd_entity [113, 117, 111, 116, 59] 4 (by decide), by decide, by decide⟩

theorem fine_escape (r : Rules) (hr : RulesOk r) (name : Bytes)
    (hn : name = [108, 116] ∨ name = [103, 116] ∨ name = [97, 109, 112] ∨ name = [113, 117, 111, 116]) :
    Fine r (parsePart (38 :: (name ++ [59]), .entity)) ∧ isTagEv (parsePart (38 :: (name ++ [59]), .entity)) = false := by
  obtain ⟨_, hty, hname⟩ := sd_escape name hn
  refine ⟨⟨by rw [hty]; simp, ?_⟩, by simp [isTagEv, hty]⟩
  unfold entryOk
  rw [hty, hname]
  rcases hn with rfl | rfl | rfl | rfl
  · exact hr.lt
  · exact hr.gt
  · exact hr.amp
  · exact hr.quot

theorem NP_escaped (r : Rules) (hr : RulesOk r) : ∀ (text rest : Bytes), ∃ toks : List (Bytes × Ty),
    NP (text.flatMap escapeByte ++ rest) = toks ++ NP rest ∧
    ∀ t ∈ toks, Fine r (parsePart t) ∧ isTagEv (parsePart t) = false := by
  intro text
  induction text with
  | nil => intro rest; exact ⟨[], by simp, by simp⟩
  | cons c text ih =>
    intro rest
    obtain ⟨toks, h1, h2⟩ := ih rest
    simp only [List.flatMap_cons, List.append_assoc]
    rcases escapeByte_facts c with ⟨name, he, hn⟩ | ⟨he, hs⟩
    · obtain ⟨hsd, _, _⟩ := sd_escape name hn
      refine ⟨(38 :: (name ++ [59]), .entity) :: toks, ?_, ?_⟩
      · rw [he, NP_sd (38 :: (name ++ [59]), .entity) _ hsd (by simp), h1]
        simp
      · intro t ht
        simp only [List.mem_cons] at ht
        rcases ht with rfl | ht
        · exact fine_escape r hr name hn
        · exact h2 t ht
    · refine ⟨toks, ?_, h2⟩
      rw [he, NP_plain_append [c] _ (by simp [hs]), h1]

/-! ### the filter's output, re-tokenized -/

/-- `e` is the parse of a token of `x` -/
def TokFrom (x : Bytes) (e : Entry) : Prop := ∃ tok ∈ split x, e = parsePart tok

/-- what we need to know about a finished entry `p` produced for the parsed entry `e` -/
def Aligned (r : Rules) (e : Entry) (p : FEntry) : Prop :=
  p.1.text = e.text ∧
  (p.2 = false → (p.1.ty ≠ .invalid ∧ entryOk r p.1 = true) ∧ (isTagEv e = false → p.1 = e))

def AlignedL (r : Rules) : List Entry → List FEntry → Prop
  | [], [] => True
  | e :: es, p :: ps => Aligned r e p ∧ AlignedL r es ps
  | _, _ => False

theorem AlignedL.append {r : Rules} : ∀ {a : List Entry} {b : List FEntry} {c : List Entry} {d : List FEntry},
    AlignedL r a b → AlignedL r c d → AlignedL r (a ++ c) (b ++ d) := by
  intro a
  induction a with
  | nil => intro b c d h1 h2; cases b <;> simp_all [AlignedL]
  | cons e a ih =>
    intro b c d h1 h2
    cases b with
    | nil => simp [AlignedL] at h1
    | cons p b => exact ⟨h1.1, ih h1.2 h2⟩

theorem aligned_leaf {r : Rules} {xhtml : Bool} {e : Entry} {x : FEntry} (h : LeafOut r xhtml e x) : Aligned r e x := by
  cases h with
  | neutral h1 h2 =>
    refine ⟨rfl, fun hm => ⟨⟨?_, ?_⟩, fun _ => rfl⟩⟩
    · intro hc
      simp only [leafF] at hc
      simp only [leafF, Bool.not_eq_false'] at hm
      unfold entryOk at hm; rw [hc] at hm; cases hm
    · simpa [leafF] using hm
  | rejected h1 => exact ⟨rfl, fun hm => by simp [leafF, entryOk] at hm⟩
  | noSlash hx ho =>
    refine ⟨rfl, fun hm => ⟨⟨by simp [leafF], by simpa [leafF] using hm⟩, fun ht => ?_⟩⟩
    simp [isTagEv, ho] at ht

theorem good_aligned {r : Rules} {xhtml : Bool} {b : Nat} {ins : List Entry} {outs : List FEntry}
    (h : Good r xhtml b ins outs) : AlignedL r ins outs := by
  induction h with
  | nil => trivial
  | leaf b ins outs e x g hp hl ih => exact ih.append ⟨aligned_leaf hl, trivial⟩
  | pair b i1 o1 i2 o2 eo ec g1 g2 ho hc hpo hpc hs ih1 ih2 =>
    have ao : Aligned r eo (pairF r eo ec (b + o1.length) (b + o1.length + 1 + o2.length)).1 := by
      refine ⟨rfl, fun hm => ⟨⟨by simp [pairF, ho], ?_⟩, fun ht => by simp [isTagEv, ho] at ht⟩⟩
      simp only [pairF, Bool.not_eq_false', Bool.and_eq_true] at hm
      exact hm.1
    have ac : Aligned r ec (pairF r eo ec (b + o1.length) (b + o1.length + 1 + o2.length)).2 := by
      refine ⟨rfl, fun hm => ⟨⟨by simp [pairF, hc], ?_⟩, fun ht => by simp [isTagEv, hc] at ht⟩⟩
      simp only [pairF, Bool.not_eq_false', Bool.and_eq_true] at hm
      exact hm.2
    have := (ih1.append (show AlignedL r [eo] [_] from ⟨ao, trivial⟩)).append (ih2.append (show AlignedL r [ec] [_] from ⟨ac, trivial⟩))
    simpa using this

theorem parsePart_text (tok : Bytes × Ty) : (parsePart tok).text = tok.1 := by
  unfold parsePart; split <;> rfl

theorem parsePart_plain_ty (t : Bytes) : (parsePart (t, .plain)).ty = .plain := rfl
theorem parsePart_invalid_ty (t : Bytes) : (parsePart (t, .invalid)).ty = .invalid := rfl

theorem parseEntity_not_tagEv (t : Bytes) : isTagEv (parsePart (t, .entity)) = false := by
  have := parseEntity_cases t
  simp only [parsePart, isTagEv]
  rcases this with h | ⟨h, _⟩ | ⟨h, _⟩
  · rw [h]; rfl
  · rw [h]; rfl
  · rw [h]; rfl

/-- the rendering of one final entry, re-tokenized in front of arbitrary text -/
theorem chunk_np (r : Rules) (hr : RulesOk r) (m : Method) (x : Bytes) (e : Entry) (p : FEntry)
    (htok : TokFrom x e) (hal : Aligned r e p) (rest : Bytes) :
    ∃ ents : List Entry,
      (NP (renderEntry m (finalEntry p) ++ rest)).map parsePart = ents ++ (NP rest).map parsePart ∧
      ents.filter isTagEv = keptTags [e] [p] ∧ (∀ a ∈ ents, isTagEv a = false → Fine r a) := by
  obtain ⟨tok, hmem, rfl⟩ := htok
  have hfacts := split_tokFacts x.length x (Nat.le_refl _) tok hmem
  obtain ⟨htext, hkept⟩ := hal
  rw [parsePart_text] at htext
  rw [keptTags_single]
  by_cases hm : p.2 = true
  · -- dropped
    have hfin : finalEntry p = { p.1 with ty := .invalid } := by simp [finalEntry, hm]
    have hk : (isTagEv (parsePart tok) && !p.2) = false := by simp [hm]
    simp only [hk, Bool.false_eq_true, if_false]
    rw [hfin]
    unfold renderEntry
    simp only [isInvalid, beq_self_eq_true, if_true]
    cases m with
    | remove => exact ⟨[], by simp, by simp, by simp⟩
    | escape =>
      simp only
      obtain ⟨toks, h1, h2⟩ := NP_escaped r hr p.1.text rest
      refine ⟨toks.map parsePart, by rw [h1]; simp, ?_, ?_⟩
      · rw [List.filter_eq_nil_iff]
        intro a ha
        obtain ⟨t, ht, rfl⟩ := List.mem_map.mp ha
        simp [(h2 t ht).2]
      · intro a ha _
        obtain ⟨t, ht, rfl⟩ := List.mem_map.mp ha
        exact (h2 t ht).1
  · -- kept
    have hm' : p.2 = false := by simpa using hm
    obtain ⟨⟨hty, hok⟩, hsame⟩ := hkept hm'
    have hfin : finalEntry p = p.1 := by simp [finalEntry, hm']
    rw [hfin]
    have hren : renderEntry m p.1 = tok.1 := by
      unfold renderEntry
      have : isInvalid p.1 = false := by simp [isInvalid, hty]
      simp [this, htext]
    rw [hren]
    simp only [hm', Bool.not_false, Bool.and_true]
    obtain ⟨fplain, fent, fcom, ftag, fall⟩ := hfacts
    obtain ⟨t, sty⟩ := tok
    simp only at fplain fent fcom ftag fall ⊢
    rcases fall with h | h | h | h | h <;> subst h
    · -- an invalid token is never kept
      exfalso
      have := hsame (by simp [isTagEv, parsePart])
      rw [this] at hty
      exact hty rfl
    · refine ⟨[], ?_, by simp [isTagEv, parsePart], by simp⟩
      rw [NP_plain_append t rest (fplain rfl)]; simp
    · have hnt := parseEntity_not_tagEv t
      have hsd := fent rfl
      refine ⟨[parsePart (t, .entity)], ?_, by simp [hnt], ?_⟩
      · rw [NP_sd _ rest hsd (by simp)]; simp
      · intro a ha _
        simp only [List.mem_singleton] at ha
        subst ha
        rw [← hsame hnt]
        exact ⟨hty, hok⟩
    · -- tag
      have hvalid : (parsePart (t, .tag)).ty ≠ .invalid := by
        by_cases hte : isTagEv (parsePart (t, .tag)) = true
        · intro hc
          simp [isTagEv, hc] at hte
        · have := hsame (by simpa using hte)
          rw [← this]; exact hty
      have hsd := ftag rfl hvalid
      refine ⟨[parsePart (t, .tag)], ?_, ?_, ?_⟩
      · rw [NP_sd _ rest hsd (by simp)]; simp
      · by_cases hte : isTagEv (parsePart (t, .tag)) = true <;> simp [hte]
      · intro a ha hna
        simp only [List.mem_singleton] at ha
        subst ha
        rw [← hsame hna]
        exact ⟨hty, hok⟩
    · have hnt : isTagEv (parsePart (t, .comment)) = false := by simp [isTagEv, parsePart]
      have hsd := fcom rfl
      refine ⟨[parsePart (t, .comment)], ?_, by simp [hnt], ?_⟩
      · rw [NP_sd _ rest hsd (by simp)]; simp
      · intro a ha _
        simp only [List.mem_singleton] at ha
        subst ha
        rw [← hsame hnt]
        exact ⟨hty, hok⟩

theorem render_np (r : Rules) (hr : RulesOk r) (m : Method) (x : Bytes) :
    ∀ (ins : List Entry) (outs : List FEntry), AlignedL r ins outs → (∀ e ∈ ins, TokFrom x e) → ∀ rest : Bytes,
    ∃ ents : List Entry,
      (NP (render m (outs.map finalEntry) ++ rest)).map parsePart = ents ++ (NP rest).map parsePart ∧
      ents.filter isTagEv = keptTags ins outs ∧ (∀ a ∈ ents, isTagEv a = false → Fine r a) := by
  intro ins
  induction ins with
  | nil =>
    intro outs hal _ rest
    cases outs with
    | nil => exact ⟨[], by simp [render], by simp [keptTags], by simp⟩
    | cons p ps => simp [AlignedL] at hal
  | cons e ins ih =>
    intro outs hal htok rest
    cases outs with
    | nil => simp [AlignedL] at hal
    | cons p ps =>
      obtain ⟨ha, hrest⟩ := hal
      obtain ⟨ents2, h21, h22, h23⟩ := ih ps hrest (fun a ha => htok a (List.mem_cons_of_mem _ ha)) rest
      obtain ⟨ents1, h11, h12, h13⟩ := chunk_np r hr m x e p (htok e (List.mem_cons_self ..)) ha
        (render m (ps.map finalEntry) ++ rest)
      refine ⟨ents1 ++ ents2, ?_, ?_, ?_⟩
      · simp only [render, List.map_cons, List.flatMap_cons, List.append_assoc] at h11 h21 ⊢
        rw [h11, h21]
      · rw [List.filter_append, h12, h22]
        rw [show e :: ins = [e] ++ ins from rfl, show p :: ps = [p] ++ ps from rfl, keptTags_append [e] [p] ins ps rfl]
      · intro a ha
        rcases List.mem_append.mp ha with h | h
        · exact h13 a h
        · exact h23 a h

theorem runF_of_fold (r : Rules) (xhtml : Bool) (es : List Entry) (outs : List FEntry)
    (h : es.foldl (stepF r xhtml) ([], []) = ([], outs)) : runF r xhtml es = outs := by
  unfold runF
  rw [h]
  rfl

/-- **XHTML: the filter's output validates** (remove and escape) -/
theorem filter_validates_xhtml (r : Rules) (hr : RulesOk r) (hx : r.xhtml = true) (m : Method) (x : Bytes) :
    validate r (filter r m x) = true := by
  by_cases hv : validate r x = true
  · rw [valid_is_fixed_point r m x hv]; exact hv
  · have hvf : validateAndFilter r m x = some (render m (analyse r x).1) := by
      unfold validateAndFilter
      simp only
      rw [analyse_flag]
      simp [hv]
    have hfil : filter r m x = render m ((runF r r.xhtml (parseAll x)).map finalEntry) := by
      unfold filter
      rw [hvf, analyse_eq_runF]
    rw [hfil, hx]
    have hgood := runF_good r true (parseAll x) (parseAll_pair x)
    have htokfrom : ∀ e ∈ parseAll x, TokFrom x e := by
      intro e he
      obtain ⟨tok, ht, rfl⟩ := List.mem_map.mp he
      exact ⟨tok, ht, rfl⟩
    obtain ⟨ents, h1, h2, h3⟩ := render_np r hr m x _ _ (good_aligned hgood) htokfrom []
    simp only [List.append_nil] at h1
    have hnp0 : NP [] = [] := rfl
    rw [hnp0] at h1
    simp only [List.map_nil, List.append_nil] at h1
    generalize render m ((runF r true (parseAll x)).map finalEntry) = y at h1 ⊢
    -- every entry of the re-parsed output
    have hentry : ∀ e ∈ parseAll y, (isTagEv e = true ∧ e ∈ ents) ∨ (isTagEv e = false ∧ Fine r e) := by
      intro e he
      obtain ⟨tok, ht, rfl⟩ := List.mem_map.mp he
      by_cases hp : tok.2 = .plain
      · right
        obtain ⟨t, sty⟩ := tok
        simp only at hp; subst hp
        exact ⟨rfl, by simp [parsePart], rfl⟩
      · have hin : parsePart tok ∈ ents := by
          rw [← h1]
          exact List.mem_map_of_mem (List.mem_filter.mpr ⟨ht, by simp [nonPlain, hp]⟩)
        by_cases hte : isTagEv (parsePart tok) = true
        · exact Or.inl ⟨hte, hin⟩
        · have hte' : isTagEv (parsePart tok) = false := by simpa using hte
          exact Or.inr ⟨hte', h3 _ hin hte'⟩
    have hfilter : (parseAll y).filter isTagEv = keptTags (parseAll x) (runF r true (parseAll x)) := by
      rw [← h2, ← h1]
      unfold parseAll NP
      induction split y with
      | nil => rfl
      | cons tok toks ih =>
        simp only [List.map_cons, List.filter_cons]
        by_cases hp : tok.2 = .plain
        · obtain ⟨t, sty⟩ := tok
          simp only at hp; subst hp
          simp [nonPlain, isTagEv, parsePart, ih]
        · simp only [nonPlain, bne_iff_ne, ne_eq, hp, not_false_eq_true, decide_true, if_true, List.map_cons, List.filter_cons]
          rw [ih]
    rw [validate_iff_runF, hx]
    constructor
    · intro e he
      rcases hentry e he with ⟨hte, _⟩ | ⟨_, hf⟩
      · intro hc; simp [isTagEv, hc] at hte
      · exact hf.1
    · obtain ⟨outs2, hrun, hfine⟩ := second_run_xhtml hgood (parseAll y) hfilter
        (fun e he hte => by
          rcases hentry e he with ⟨hte', _⟩ | ⟨_, hf⟩
          · rw [hte] at hte'; cases hte'
          · exact hf) [] []
      rw [runF_of_fold r true (parseAll y) outs2 (by simpa using hrun)]
      exact hfine
end Cppcms.C04
