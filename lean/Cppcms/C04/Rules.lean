import Cppcms.Common
/-!
C04 — the white list (`cppcms::xss::rules`) as seen by validation.

`Rules` is what `validate_entry_by_rules` can observe of a `rules` object: the lookups of the
selected holder (`rules::impl()`), already resolved with that holder's comparator.  Attribute
validators are **arbitrary predicates** on the raw attribute value (regex, URI validator,
integer … are instances).  Shared by the model and by the independent spec.
-/
namespace Cppcms.C04
open Cppcms

/-- `rules::tag_type` -/
inductive TagKind
  | invalidTag | openingAndClosing | standAlone | anyTag
  deriving DecidableEq, Repr, Inhabited

/-- a registered attribute: `validator_type()` (null functor: "boolean" attribute) or a functor -/
inductive PropRule
  | boolean
  | pred (f : Bytes → Bool)

structure Rules where
  /-- `r.html()==rules::xhtml_input` -/
  xhtml : Bool
  /-- `valid_tag` -/
  tagKind : Bytes → TagKind
  /-- lookup of (tag, attribute) in the holder: `none` = tag or attribute not registered -/
  prop : Bytes → Bytes → Option PropRule
  /-- `valid_entity` -/
  entity : Bytes → Bool
  /-- `comments_allowed()` -/
  comments : Bool
  /-- `numeric_entities_allowed()` -/
  numeric : Bool

/-- Invariant of every `rules` object: the holder's constructor adds lt, gt, amp, quot and
nothing ever removes an entity. -/
structure RulesOk (r : Rules) : Prop where
  lt : r.entity [108, 116] = true
  gt : r.entity [103, 116] = true
  amp : r.entity [97, 109, 112] = true
  quot : r.entity [113, 117, 111, 116] = true

end Cppcms.C04
