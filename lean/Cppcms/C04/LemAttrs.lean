import Cppcms.C04.LemTokens
/-! C04 lemmas, part 6: attribute values and attribute lists - parse_properties / validate_property_value vs. the
lenient attribute scanner and the spec's attribute rules. -/
namespace Cppcms.C04
open Cppcms

/-! ### attribute values -/

theorem propValueEntities_eq : propValueEntities = Spec.valueEntities := by decide

theorem forbidden_iff : ∀ c : UInt8, (Gen.propValueForbidden.contains c.toNat = true ↔ (c = 60 ∨ c = 62)) ∧
    (c.toNat = Gen.propValueAmp ↔ c = 38) := by
  apply forall_uint8; decide +kernel

theorem stripFirst_spec (ps : List Bytes) (s s' : Bytes) (h : stripFirst ps s = some s') :
    ∃ p, ps.find? (fun e => e.isPrefixOf s) = some p ∧ s' = s.drop p.length ∧ p.length ≤ s.length := by
  induction ps with
  | nil => simp [stripFirst] at h
  | cons p ps ih =>
    unfold stripFirst at h
    simp only [List.findSome?_cons] at h
    by_cases hp : p.isPrefixOf s = true
    · simp only [hp, if_true] at h
      refine ⟨p, by simp [hp], by simpa using h.symm, ?_⟩
      exact (List.isPrefixOf_iff_prefix.mp hp).length_le
    · simp only [hp] at h
      obtain ⟨q, hq, hs, hl⟩ := ih (by simpa [stripFirst] using h)
      exact ⟨q, by simp [hp, hq], hs, hl⟩

theorem valueCleanAux_skip : ∀ (s : Bytes) (k : Nat), Spec.valueCleanAux k s = Spec.valueCleanAux 0 (s.drop k) := by
  intro s
  induction s with
  | nil => intro k; cases k <;> simp [Spec.valueCleanAux]
  | cons c rest ih =>
    intro k
    cases k with
    | zero => simp
    | succ k => simp only [Spec.valueCleanAux, List.drop_succ_cons]; exact ih k

theorem valueClean_of_validate : ∀ (n : Nat) (v : Bytes), validatePropertyValueAux n v = true → Spec.valueCleanAux 0 v = true := by
  intro n
  induction n with
  | zero => intro v h; simp [validatePropertyValueAux] at h
  | succ n ih =>
    intro v h
    cases v with
    | nil => simp [Spec.valueCleanAux]
    | cons c rest =>
      unfold validatePropertyValueAux at h
      unfold Spec.valueCleanAux
      have hf := forbidden_iff c
      split at h
      · cases h
      · rename_i h1
        have h1' : ¬ (c = 60 ∨ c = 62) := fun hc => h1 (hf.1.mpr hc)
        simp only [h1', if_false]
        split at h
        · rename_i h2
          have h2' : c = 38 := hf.2.mp h2
          simp only [h2', if_true]
          split at h
          · rename_i rest' hs
            obtain ⟨p, hp, hs', hl⟩ := stripFirst_spec _ _ _ hs
            rw [propValueEntities_eq] at hp
            rw [hp]
            simp only
            rw [valueCleanAux_skip, ← hs']
            exact ih _ h
          · cases h
        · rename_i h2
          have h2' : ¬ c = 38 := fun hc => h2 (hf.2.mpr hc)
          simp only [h2', if_false]
          exact ih _ h

/-! ### attributes: parse_properties vs. the lenient attribute scanner -/
open Spec in
theorem lenientAttrs_ws (n : Nat) (c : UInt8) (rest : Bytes) (acc : List (Bytes × Option Bytes)) (h : ws c = true) :
    lenientAttrs (n + 1) (c :: rest) acc = lenientAttrs n rest acc := by
  conv => lhs; unfold lenientAttrs
  simp only [h, if_true]

open Spec in
theorem lenientAttrs_bool (n : Nat) (c : UInt8) (rest s1 : Bytes) (acc : List (Bytes × Option Bytes))
    (h1 : ws c = false) (h2 : c ≠ 62) (h3 : c ≠ 47)
    (hs : (rest.dropWhile attrNameChar).dropWhile ws = s1) (hne : s1.head? ≠ some 61) :
    lenientAttrs (n + 1) (c :: rest) acc = lenientAttrs n s1 (acc ++ [(c :: rest.takeWhile attrNameChar, none)]) := by
  conv => lhs; unfold lenientAttrs
  simp only [h1, h2, h3, if_false, hs, Bool.false_eq_true]
  split
  · simp at hne
  · rfl

open Spec in
theorem lenientAttrs_quoted (n : Nat) (c q : UInt8) (rest s2 s4 : Bytes) (k : Nat) (acc : List (Bytes × Option Bytes))
    (h1 : ws c = false) (h2 : c ≠ 62) (h3 : c ≠ 47)
    (hs : (rest.dropWhile attrNameChar).dropWhile ws = 61 :: s2) (hs2 : s2.dropWhile ws = q :: s4)
    (hq : q = 34 ∨ q = 39) (hk : indexOf q s4 = some k) :
    lenientAttrs (n + 1) (c :: rest) acc =
      lenientAttrs n (s4.drop (k + 1)) (acc ++ [(c :: rest.takeWhile attrNameChar, some (s4.take k))]) := by
  conv => lhs; unfold lenientAttrs
  simp only [h1, h2, h3, if_false, hs, hs2, hq, hk, if_true, Bool.false_eq_true]

open Spec in
theorem lenientAttrs_skip_ws : ∀ (X : Bytes) (m : Nat) (acc : List (Bytes × Option Bytes)), X.length < m →
    lenientAttrs m (X.dropWhile ws) acc = lenientAttrs m X acc := by
  intro X
  induction X with
  | nil => intro m acc _; rfl
  | cons c X' ih =>
    intro m acc hm
    simp only [List.length_cons] at hm
    by_cases hc : ws c = true
    · simp only [List.dropWhile_cons, hc, if_true]
      obtain ⟨m', rfl⟩ : ∃ m', m = m' + 1 := ⟨m - 1, by omega⟩
      rw [lenientAttrs_ws _ _ _ _ hc]
      rw [← ih m' acc (by omega)]
      apply lenientAttrs_fuel
      · have := dropWhile_length_le ws X'; omega
      · have := dropWhile_length_le ws X'; omega
    · simp [hc]

open Spec in
theorem lenientAttrs_close (m : Nat) (tail : Bytes) (acc : List (Bytes × Option Bytes)) :
    lenientAttrs (m + 1) (62 :: tail) acc = ⟨acc, false, true, tail⟩ ∧
    lenientAttrs (m + 1) (47 :: 62 :: tail) acc = ⟨acc, true, true, tail⟩ := by
  constructor <;> rfl

def conv (a : Attr) : Bytes × Option Bytes := (a.name, a.value)

/-- what follows the attributes inside the tag: `>` or `/>` -/
def Closer (closer : Bytes) (sc : Bool) : Prop := (closer = [62] ∧ sc = false) ∨ (closer = [47, 62] ∧ sc = true)

open Spec in
theorem props_no_eq : ∀ (n : Nat) (s : Bytes) (acc ps : List Attr), parsePropsAux n true s acc = some ps →
    ∀ closer sc tail, Closer closer sc → ((s ++ closer ++ tail).dropWhile ws).head? ≠ some 61 := by
  intro n
  induction n with
  | zero => intro s acc ps h; simp [parsePropsAux] at h
  | succ n ih =>
    intro s acc ps h closer sc tail hcl
    cases s with
    | nil =>
      rcases hcl with ⟨rfl, _⟩ | ⟨rfl, _⟩ <;> simp [ws]
    | cons e s' =>
      unfold parsePropsAux at h
      split at h
      · rename_i he
        have := (space_facts e he).1
        simp only [List.cons_append, List.dropWhile_cons, this, if_true]
        exact ih s' acc ps h closer sc tail hcl
      · rename_i he
        simp only [Bool.not_true, Bool.false_eq_true, if_false] at h
        split at h
        · cases h
        · rename_i ha
          have ha' : isAlpha e = true := by simpa using ha
          have hf := alpha_facts e ha'
          simp only [List.cons_append, List.dropWhile_cons, hf.2.2.2.1]
          simp
          exact hf.2.2.2.2.2.2.2.2.1

theorem dropWhile_eq_cons {p : UInt8 → Bool} : ∀ {l : Bytes} {d : UInt8} {s : Bytes}, l.dropWhile p = d :: s →
    l = l.takeWhile p ++ d :: s ∧ p d = false ∧ ∀ x ∈ l.takeWhile p, p x = true := by
  intro l
  induction l with
  | nil => intro d s h; simp at h
  | cons a l ih =>
    intro d s h
    by_cases ha : p a = true
    · simp only [List.dropWhile_cons, ha, if_true] at h
      obtain ⟨e1, e2, e3⟩ := ih h
      refine ⟨?_, e2, ?_⟩
      · simp only [List.takeWhile_cons, ha, if_true, List.cons_append]; rw [← e1]
      · intro x hx
        simp only [List.takeWhile_cons, ha, if_true, List.mem_cons] at hx
        rcases hx with rfl | hx
        · exact ha
        · exact e3 x hx
    · simp only [List.dropWhile_cons, ha] at h
      simp at h
      obtain ⟨rfl, rfl⟩ := h
      simp [ha]

theorem indexOf_append_of_findByte {c : UInt8} : ∀ {s : Bytes} {k : Nat} (t : Bytes), findByte c s = some k →
    Spec.indexOf c (s ++ t) = some k := by
  intro s
  induction s with
  | nil => intro k t h; simp [findByte] at h
  | cons x xs ih =>
    intro k t h
    unfold findByte at h
    simp only [List.cons_append]
    unfold Spec.indexOf
    split at h
    · rename_i hx; simp at h; subst h; simp [hx]
    · rename_i hx
      cases h2 : findByte c xs with
      | none => simp [h2] at h
      | some j =>
        simp [h2] at h; subst h
        simp [hx, ih t h2]

theorem quote_facts : ∀ q : UInt8, (bytesOf Gen.propQuotes).contains q = true → (q = 34 ∨ q = 39) ∧ Spec.ws q = false := by
  apply forall_uint8; decide +kernel

open Spec in
theorem attrs_step : ∀ (n : Nat) (sf : Bool) (body : Bytes) (acc ps : List Attr),
    parsePropsAux n sf body acc = some ps →
    ∃ ps', ps = acc ++ ps' ∧ (∀ a ∈ ps', ∀ v, a.value = some v → validatePropertyValue v = true) ∧
      ∀ (closer : Bytes) (sc : Bool) (tail : Bytes) (m : Nat) (accL : List (Bytes × Option Bytes)),
        Closer closer sc → (body ++ closer ++ tail).length < m →
        lenientAttrs m (body ++ closer ++ tail) accL = ⟨accL ++ ps'.map conv, sc, true, tail⟩ := by
  intro n
  induction n with
  | zero => intro sf body acc ps h; simp [parsePropsAux] at h
  | succ n ih =>
    intro sf body acc ps h
    cases body with
    | nil =>
      simp only [parsePropsAux, Option.some.injEq] at h
      subst h
      refine ⟨[], by simp, by simp, ?_⟩
      intro closer sc tail m accL hcl hm
      obtain ⟨m', rfl⟩ : ∃ m', m = m' + 1 := ⟨m - 1, by omega⟩
      rcases hcl with ⟨rfl, rfl⟩ | ⟨rfl, rfl⟩
      · simpa using (lenientAttrs_close m' tail accL).1
      · simpa using (lenientAttrs_close m' tail accL).2
    | cons c rest =>
      unfold parsePropsAux at h
      split at h
      · -- white space
        rename_i hc
        obtain ⟨ps', e1, e2, e3⟩ := ih true rest acc ps h
        refine ⟨ps', e1, e2, ?_⟩
        intro closer sc tail m accL hcl hm
        obtain ⟨m', rfl⟩ : ∃ m', m = m' + 1 := ⟨m - 1, by omega⟩
        simp only [List.cons_append, List.length_cons] at hm ⊢
        rw [lenientAttrs_ws _ _ _ _ (space_facts c hc).1]
        exact e3 closer sc tail m' accL hcl (by omega)
      · rename_i hc
        split at h
        · cases h
        rename_i hsf
        have hsf' : sf = true := by simpa using hsf
        subst hsf'
        split at h
        · cases h
        rename_i hal
        have hal' : isAlpha c = true := by simpa using hal
        have haf := alpha_facts c hal'
        simp only at h
        split at h
        · cases h
        rename_i d s2 hdw
        -- c must be alnum
        have hcn : isAlnum c = true := by
          rcases haf.2.2.2.2.2.2.2.2.2 with h1 | h1
          · exact h1
          · exfalso
            subst h1
            have : isAlnum 95 = false := by decide
            simp only [List.dropWhile_cons, this] at hdw
            simp at hdw
            obtain ⟨rfl, rfl⟩ := hdw
            have e1 : isSpace 95 = false := by decide
            have e2 : (95 : UInt8) ≠ cEq := by decide
            simp [e1, e2] at h
        have hcf := alnum_facts c hcn
        simp only [List.dropWhile_cons, hcn, if_true] at hdw
        simp only [List.takeWhile_cons, hcn, if_true] at h
        obtain ⟨hrest, hd, hall⟩ := dropWhile_eq_cons hdw
        -- the lenient scanner sees the same attribute name
        have hname : ∀ (X : Bytes), attrNameChar d = false →
            (rest ++ X).takeWhile attrNameChar = rest.takeWhile isAlnum ∧
            (rest ++ X).dropWhile attrNameChar = d :: (s2 ++ X) := by
          intro X hdn
          have := takeWhile_append_stop (p := attrNameChar) (a := rest.takeWhile isAlnum) (c := d) (b := s2 ++ X)
            (fun x hx => (alnum_facts x (hall x hx)).2.2.1) hdn
          have e : rest ++ X = rest.takeWhile isAlnum ++ d :: (s2 ++ X) := by
            conv => lhs; rw [hrest]
            simp
          rw [e]; exact this
        split at h
        · -- boolean attribute: name followed by a space
          rename_i hds
          obtain ⟨ps'', e1, e2, e3⟩ := ih true s2 _ ps h
          refine ⟨⟨c :: rest.takeWhile isAlnum, none⟩ :: ps'', by rw [e1]; simp, ?_, ?_⟩
          · intro a ha v hv
            simp only [List.mem_cons] at ha
            rcases ha with rfl | ha
            · simp at hv
            · exact e2 a ha v hv
          · intro closer sc tail m accL hcl hm
            obtain ⟨m', rfl⟩ : ∃ m', m = m' + 1 := ⟨m - 1, by omega⟩
            have hwd := (space_facts d hds).1
            have hdn : attrNameChar d = false := by simp [attrNameChar, hwd]
            obtain ⟨t1, t2⟩ := hname (closer ++ tail) hdn
            have hlen : (s2 ++ closer ++ tail).length < m' := by
              have : (rest ++ (closer ++ tail)).length = (rest.takeWhile isAlnum).length + 1 + (s2 ++ (closer ++ tail)).length := by
                rw [← List.takeWhile_append_dropWhile (p := attrNameChar) (l := rest ++ (closer ++ tail)), t1, t2]
                simp; omega
              simp only [List.cons_append, List.length_cons, List.append_assoc] at hm this ⊢
              omega
            simp only [List.cons_append, List.append_assoc]
            rw [lenientAttrs_bool m' c (rest ++ (closer ++ tail)) ((s2 ++ closer ++ tail).dropWhile ws) accL hcf.2.2.2.1
              haf.2.2.2.2.2.2.2.1 haf.2.2.2.2.2.2.1
              (by rw [t2]; simp [List.dropWhile_cons, hwd])
              (props_no_eq n s2 _ ps h closer sc tail hcl)]
            rw [lenientAttrs_skip_ws _ _ _ hlen, t1]
            rw [e3 closer sc tail m' _ hcl hlen]
            simp [conv]
        · rename_i hds
          split at h
          · cases h
          rename_i hdeq
          have hdeq' : d = 61 := by simpa using hdeq
          subst hdeq'
          split at h
          · cases h
          rename_i q s3
          split at h
          · cases h
          rename_i hq
          have hq' := quote_facts q (by simpa using hq)
          split at h
          · cases h
          rename_i k hk
          split at h
          · cases h
          rename_i hv
          have hv' : validatePropertyValue (s3.take k) = true := by simpa using hv
          obtain ⟨ps'', e1, e2, e3⟩ := ih false (s3.drop (k + 1)) _ ps h
          refine ⟨⟨c :: rest.takeWhile isAlnum, some (s3.take k)⟩ :: ps'', by rw [e1]; simp, ?_, ?_⟩
          · intro a ha v hv
            simp only [List.mem_cons] at ha
            rcases ha with rfl | ha
            · simp at hv; subst hv; exact hv'
            · exact e2 a ha v hv
          · intro closer sc tail m accL hcl hm
            obtain ⟨m', rfl⟩ : ∃ m', m = m' + 1 := ⟨m - 1, by omega⟩
            have hdn : attrNameChar 61 = false := by decide
            obtain ⟨t1, t2⟩ := hname (closer ++ tail) hdn
            have hklt := findByte_lt hk
            have hlen : (s3.drop (k + 1) ++ closer ++ tail).length < m' := by
              have : (rest ++ (closer ++ tail)).length = (rest.takeWhile isAlnum).length + 1 + ((q :: s3) ++ (closer ++ tail)).length := by
                rw [← List.takeWhile_append_dropWhile (p := attrNameChar) (l := rest ++ (closer ++ tail)), t1, t2]
                simp; omega
              simp only [List.cons_append, List.length_cons, List.append_assoc, List.length_append, List.length_drop] at hm this ⊢
              omega
            simp only [List.cons_append, List.append_assoc]
            rw [lenientAttrs_quoted m' c q (rest ++ (closer ++ tail)) (q :: s3 ++ (closer ++ tail)) (s3 ++ (closer ++ tail)) k accL
              hcf.2.2.2.1 haf.2.2.2.2.2.2.2.1 haf.2.2.2.2.2.2.1
              (by rw [t2]; have w61 : ws 61 = false := by decide
                  simp [List.dropWhile_cons, w61])
              (by simp [List.dropWhile_cons, hq'.2])
              hq'.1 (indexOf_append_of_findByte _ hk)]
            rw [t1]
            have ed : (s3 ++ (closer ++ tail)).drop (k + 1) = s3.drop (k + 1) ++ closer ++ tail := by
              rw [List.drop_append_of_le_length (by omega)]; simp
            have et : (s3 ++ (closer ++ tail)).take k = s3.take k := by
              rw [List.take_append_of_le_length (by omega)]
            rw [ed, et, e3 closer sc tail m' _ hcl hlen]
            simp [conv]

/-! ### rules on attributes -/

theorem sameName_eq_keyEq (x : Bool) (a b : Bytes) : Spec.sameName x a b = keyEq x a b := by
  have : cstrLower = Spec.asciiLower := funext lower_eq
  unfold Spec.sameName keyEq
  rw [this]

theorem attrOk_of_model (r : Rules) (t : Bytes) (a : Attr)
    (hv : ∀ v, a.value = some v → validatePropertyValue v = true)
    (h : (match a.value with
        | none => validBooleanProperty r t a.name
        | some v => validProperty r t a.name v) = true) :
    Spec.attrOk r t (conv a) = true := by
  unfold Spec.attrOk conv
  cases hval : a.value with
  | none =>
    simp only [hval] at h
    unfold validBooleanProperty at h
    simp only
    cases hp : r.prop t a.name with
    | none => simp [hp] at h
    | some pr =>
      cases pr with
      | boolean => cases hx : r.xhtml <;> simp [hp, hx] at h ⊢
      | pred f => cases hx : r.xhtml <;> simp [hp, hx] at h
  | some v =>
    simp only [hval] at h
    unfold validProperty at h
    simp only
    cases hp : r.prop t a.name with
    | none => simp [hp] at h
    | some pr =>
      cases pr with
      | boolean => cases hx : r.xhtml <;> simp [hp, hx] at h ⊢; exact h
      | pred f =>
        simp only [hp] at h
        have := hv v hval
        unfold validatePropertyValue at this
        have hc := valueClean_of_validate _ _ this
        simp [Spec.valueClean, hc, h]

theorem attrsOk_of_propsOk (r : Rules) (t : Bytes) : ∀ (ps : List Attr) (found : List Bytes),
    (∀ a ∈ ps, ∀ v, a.value = some v → validatePropertyValue v = true) →
    propsOk r t ps found = true → Spec.attrsOk r t (ps.map conv) found = true := by
  intro ps
  induction ps with
  | nil => intro found _ _; simp [Spec.attrsOk]
  | cons a ps ih =>
    intro found hv h
    unfold propsOk at h
    split at h
    · cases h
    · rename_i hdup
      simp only [Bool.and_eq_true] at h
      simp only [List.map_cons, Spec.attrsOk, Bool.and_eq_true]
      refine ⟨⟨?_, ?_⟩, ?_⟩
      · have : (found.any (Spec.sameName r.xhtml (conv a).1)) = found.any (keyEq r.xhtml a.name) := by
          congr 1; funext b; exact sameName_eq_keyEq _ _ _
        rw [this]; simpa using hdup
      · exact attrOk_of_model r t a (hv a (List.mem_cons_self ..)) h.1
      · exact ih _ (fun b hb => hv b (List.mem_cons_of_mem _ hb)) h.2
end Cppcms.C04
