import Cppcms.C04.LemFrames
/-! C04 lemmas, part 9: big-step description (`Good`) of the frames run: finished segments, partners decided
together; the frames run on any entry list is `Good`. -/
namespace Cppcms.C04
open Cppcms

/-! ### big-step description of the frames run on a finished segment -/

/-- what an entry without partner turns into -/
inductive LeafOut (r : Rules) (xhtml : Bool) : Entry → FEntry → Prop
  /-- neither an open nor a close tag: checked as it is -/
  | neutral (e : Entry) : e.ty ≠ .openTag → e.ty ≠ .closeTag → LeafOut r xhtml e (leafF r e)
  /-- an open or close tag the nesting check rejected -/
  | rejected (e : Entry) : (e.ty = .openTag ∨ e.ty = .closeTag) → LeafOut r xhtml e (leafF r { e with ty := .invalid })
  /-- HTML: an open tag that was never closed -/
  | noSlash (e : Entry) : xhtml = false → e.ty = .openTag → LeafOut r xhtml e (leafF r { e with ty := .openCloseNoSlash })

/-- `Good r xhtml base ins outs`: the entries `ins`, starting at absolute position `base`, form a finished
segment (every close tag in it met its open tag or was rejected), and `outs` is what the frames run
produces for them. -/
inductive Good (r : Rules) (xhtml : Bool) : Nat → List Entry → List FEntry → Prop
  | nil (b : Nat) : Good r xhtml b [] []
  | leaf (b : Nat) (ins : List Entry) (outs : List FEntry) (e : Entry) (x : FEntry) :
      Good r xhtml b ins outs → e.pair = none → LeafOut r xhtml e x → Good r xhtml b (ins ++ [e]) (outs ++ [x])
  | pair (b : Nat) (i1 : List Entry) (o1 : List FEntry) (i2 : List Entry) (o2 : List FEntry) (eo ec : Entry) :
      Good r xhtml b i1 o1 → Good r xhtml (b + o1.length + 1) i2 o2 →
      eo.ty = .openTag → ec.ty = .closeTag → eo.pair = none → ec.pair = none → streq xhtml eo.name ec.name = true →
      Good r xhtml b (i1 ++ eo :: i2 ++ [ec])
        (o1 ++ (pairF r eo ec (b + o1.length) (b + o1.length + 1 + o2.length)).1 :: o2 ++
          [(pairF r eo ec (b + o1.length) (b + o1.length + 1 + o2.length)).2])

theorem Good.length_eq {r : Rules} {xhtml : Bool} {b : Nat} {ins : List Entry} {outs : List FEntry}
    (h : Good r xhtml b ins outs) : outs.length = ins.length := by
  induction h with
  | nil => rfl
  | leaf b ins outs e x _ _ _ ih => simp [ih]
  | pair b i1 o1 i2 o2 eo ec _ _ _ _ _ _ _ ih1 ih2 => simp [ih1, ih2]

theorem Good.append {r : Rules} {xhtml : Bool} {b : Nat} {i1 : List Entry} {o1 : List FEntry}
    (h1 : Good r xhtml b i1 o1) {i2 : List Entry} {o2 : List FEntry} {b2 : Nat}
    (h2 : Good r xhtml b2 i2 o2) (hb : b2 = b + o1.length) : Good r xhtml b (i1 ++ i2) (o1 ++ o2) := by
  induction h2 generalizing b i1 o1 with
  | nil => simpa using h1
  | leaf b2 ins outs e x _ hp hl ih =>
    rw [← List.append_assoc, ← List.append_assoc]
    exact Good.leaf _ _ _ _ _ (ih h1 hb) hp hl
  | pair b2 j1 p1 j2 p2 eo ec g1 g2 ho hc hpo hpc hs ih1 ih2 =>
    subst hb
    have := Good.pair b (i1 ++ j1) (o1 ++ p1) j2 p2 eo ec (ih1 h1 rfl)
      (by simpa [Nat.add_assoc] using g2) ho hc hpo hpc hs
    simpa [Nat.add_assoc] using this

/-! ### the frames run produces `Good` output -/

def startOf : List Frame → Nat
  | [] => 0
  | f :: fs => (flatF fs f.before).length + 1

theorem startOf_add (fs : List Frame) (cur : List FEntry) : startOf fs + cur.length = (flatF fs cur).length := by
  cases fs with
  | nil => simp [startOf]
  | cons f fs => rw [flatF_cons]; simp [startOf]; omega

/-- invariant: the consumed input decomposes along the frames, each piece a finished segment -/
def FG (r : Rules) (xhtml : Bool) : List Frame → List FEntry → List Entry → Prop
  | [], cur, ins => Good r xhtml 0 ins cur
  | f :: fs, cur, ins => ∃ io ic, ins = io ++ f.opn :: ic ∧ f.opn.ty = .openTag ∧ f.opn.pair = none ∧
      FG r xhtml fs f.before io ∧ Good r xhtml ((flatF fs f.before).length + 1) ic cur

/-- the innermost finished segment can be replaced -/
theorem FG.context {r : Rules} {xhtml : Bool} {fs : List Frame} {cur : List FEntry} {ins : List Entry}
    (h : FG r xhtml fs cur ins) :
    ∃ io ic, ins = io ++ ic ∧ Good r xhtml (startOf fs) ic cur ∧
      ∀ ic' cur', Good r xhtml (startOf fs) ic' cur' → FG r xhtml fs cur' (io ++ ic') := by
  cases fs with
  | nil => exact ⟨[], ins, by simp, h, fun ic' cur' g => by simpa [FG, startOf] using g⟩
  | cons f fs =>
    obtain ⟨io, ic, e1, e2, e3, e4, e5⟩ := h
    refine ⟨io ++ [f.opn], ic, by simp [e1], e5, ?_⟩
    intro ic' cur' g
    exact ⟨io, ic', by simp, e2, e3, e4, g⟩

/-- absorbing the innermost frame, its open tag becoming the partner-less `x` -/
theorem FG.absorb {r : Rules} {xhtml : Bool} {f : Frame} {fs : List Frame} {cur : List FEntry} {ins : List Entry}
    (h : FG r xhtml (f :: fs) cur ins) (x : FEntry) (hx : LeafOut r xhtml f.opn x) :
    FG r xhtml fs (f.before ++ x :: cur) ins := by
  obtain ⟨io, ic, e1, e2, e3, e4, e5⟩ := h
  obtain ⟨jo, jc, f1, f2, f3⟩ := e4.context
  have g1 := Good.leaf _ _ _ _ _ f2 e3 hx
  have g2 := g1.append e5 (by simp; have := startOf_add fs f.before; omega)
  have := f3 _ _ g2
  rw [e1, f1]
  simpa using this

theorem FG.leaf {r : Rules} {xhtml : Bool} {fs : List Frame} {cur : List FEntry} {ins : List Entry}
    (h : FG r xhtml fs cur ins) (e : Entry) (x : FEntry) (hp : e.pair = none) (hx : LeafOut r xhtml e x) :
    FG r xhtml fs (cur ++ [x]) (ins ++ [e]) := by
  obtain ⟨jo, jc, f1, f2, f3⟩ := h.context
  have := f3 _ _ (Good.leaf _ _ _ _ _ f2 hp hx)
  rw [f1]
  simpa using this

theorem FG.close {r : Rules} {xhtml : Bool} {f : Frame} {fs : List Frame} {cur : List FEntry} {ins : List Entry}
    (h : FG r xhtml (f :: fs) cur ins) (e : Entry) (hty : e.ty = .closeTag) (hp : e.pair = none)
    (hs : streq xhtml f.opn.name e.name = true) (i : Nat) (hi : i = (flatF (f :: fs) cur).length) :
    FG r xhtml fs (f.before ++ (pairF r f.opn e (flatF fs f.before).length i).1 :: cur ++
      [(pairF r f.opn e (flatF fs f.before).length i).2]) (ins ++ [e]) := by
  obtain ⟨io, ic, e1, e2, e3, e4, e5⟩ := h
  obtain ⟨jo, jc, f1, f2, f3⟩ := e4.context
  have hpo : startOf fs + f.before.length = (flatF fs f.before).length := startOf_add fs f.before
  have g := Good.pair (startOf fs) jc f.before ic cur f.opn e f2 (by rw [hpo]; exact e5) e2 hty e3 hp hs
  have := f3 _ _ g
  rw [e1, f1, hi, length_flat_cons]
  rw [hpo] at this
  simpa using this

theorem popF_FG (r : Rules) (e : Entry) (hty : e.ty = .closeTag) (hp : e.pair = none) :
    ∀ (frames : List Frame) (cur : List FEntry) (ins : List Entry) (i : Nat), i = (flatF frames cur).length →
    FG r false frames cur ins → FG r false (popF r e i frames cur).1 (popF r e i frames cur).2 (ins ++ [e]) := by
  intro frames
  induction frames with
  | nil =>
    intro cur ins i _ h
    simp only [popF]
    exact h.leaf e _ hp (LeafOut.rejected e (Or.inr hty))
  | cons f fs ih =>
    intro cur ins i hi h
    simp only [popF]
    split
    · rename_i hs
      exact h.close e hty hp hs i hi
    · apply ih
      · rw [hi, flatF_cons, flatF_append]; simp
      · have hot : f.opn.ty = .openTag := by
          obtain ⟨_, _, _, e2, _⟩ := h
          exact e2
        exact h.absorb _ (LeafOut.noSlash f.opn rfl hot)

theorem stepF_FG (r : Rules) (xhtml : Bool) (frames : List Frame) (cur : List FEntry) (ins : List Entry) (e : Entry)
    (hp : e.pair = none) (h : FG r xhtml frames cur ins) :
    FG r xhtml (stepF r xhtml (frames, cur) e).1 (stepF r xhtml (frames, cur) e).2 (ins ++ [e]) := by
  unfold stepF
  cases hty : e.ty
  case closeTag =>
    simp only
    cases xhtml with
    | false => exact popF_FG r e hty hp frames cur ins _ rfl h
    | true =>
      simp only [if_true]
      cases frames with
      | nil => exact h.leaf e _ hp (LeafOut.rejected e (Or.inr hty))
      | cons f fs =>
        simp only
        split
        · rename_i hs
          exact h.close e hty hp hs _ rfl
        · have hot : f.opn.ty = .openTag := by
            obtain ⟨_, _, _, e2, _⟩ := h
            exact e2
          have h1 := h.absorb _ (LeafOut.rejected f.opn (Or.inl hot))
          have h2 := h1.leaf e _ hp (LeafOut.rejected e (Or.inr hty))
          simpa using h2
  case openTag =>
    simp only
    exact ⟨ins, [], by simp, hty, hp, h, Good.nil _⟩
  all_goals
    simp only
    exact h.leaf e _ hp (LeafOut.neutral e (by simp [hty]) (by simp [hty]))

theorem foldF_FG (r : Rules) (xhtml : Bool) : ∀ (todo : List Entry) (frames : List Frame) (cur : List FEntry) (ins : List Entry),
    (∀ e ∈ todo, e.pair = none) → FG r xhtml frames cur ins →
    FG r xhtml (todo.foldl (stepF r xhtml) (frames, cur)).1 (todo.foldl (stepF r xhtml) (frames, cur)).2 (ins ++ todo) := by
  intro todo
  induction todo with
  | nil => intro frames cur ins _ h; simpa using h
  | cons e todo ih =>
    intro frames cur ins hp h
    simp only [List.foldl_cons]
    have := ih _ _ (ins ++ [e]) (fun x hx => hp x (List.mem_cons_of_mem _ hx))
      (stepF_FG r xhtml frames cur ins e (hp e (List.mem_cons_self ..)) h)
    simpa using this

theorem finishF_FG (r : Rules) (xhtml : Bool) : ∀ (frames : List Frame) (cur : List FEntry) (ins : List Entry),
    FG r xhtml frames cur ins → Good r xhtml 0 ins (finishF r xhtml frames cur) := by
  intro frames
  induction frames with
  | nil => intro cur ins h; exact h
  | cons f fs ih =>
    intro cur ins h
    have hot : f.opn.ty = .openTag := by
      obtain ⟨_, _, _, e2, _⟩ := h
      exact e2
    simp only [finishF, List.foldl_cons]
    apply ih
    cases xhtml with
    | true => exact h.absorb _ (LeafOut.rejected f.opn (Or.inl hot))
    | false => exact h.absorb _ (LeafOut.noSlash f.opn rfl hot)

/-- the frames run on any entry list is described by `Good` -/
theorem runF_good (r : Rules) (xhtml : Bool) (es : List Entry) (hp : ∀ e ∈ es, e.pair = none) :
    Good r xhtml 0 es (runF r xhtml es) := by
  unfold runF
  have := foldF_FG r xhtml es [] [] [] hp (Good.nil 0)
  simp only [List.nil_append] at this
  exact finishF_FG r xhtml _ _ _ this
end Cppcms.C04
