import Cppcms.C04.LemSync
import Cppcms.C14.Props
/-! C04 lemmas, part 18: the real UTF-8 validator and pre-filter (model and exactness theorems of property C14) satisfy
`AsciiSync` and "the pre-filter yields valid text", hence `EncOk`. -/
namespace Cppcms.C04
open Cppcms Cppcms.C14 Cppcms.C14.Spec

/-- the real UTF-8 validator and pre-filter, as modelled (and proved exact) under property C14 -/
def utf8Enc (repl : UInt8) : Enc where
  valid := fun x => (validUtf8 x 0).1
  prefilter := fun x => match (filterUtf8 x repl).2 with
    | some out => out
    | none => x

theorem utf8_valid_iff (x : Bytes) : (validUtf8 x 0).1 = true ↔ ∃ n, WellFormed true x n := by
  have : Gen.utf8ValidHtml = true := by decide
  unfold validUtf8
  rw [this]
  exact Cppcms.C14.Props.validate_accepts_iff true x

/-- shapes of an RFC 3629 encoding with its first byte split off -/
theorem rfc_shape {v : Nat} {a : UInt8} {t : Bytes} (h : Rfc3629 v (a :: t)) :
    (t = [] ∧ a.toNat ≤ 0x7F) ∨ (0xC2 ≤ a.toNat ∧ t.length ≤ 3 ∧ ∀ b ∈ t, 0x80 ≤ b.toNat) := by
  have hu : utf8Char (nats (a :: t)) = true := h.1
  unfold nats at hu
  cases t with
  | nil => left; simpa [utf8Char1] using hu
  | cons b t =>
    right
    cases t with
    | nil =>
      simp only [List.map_cons, List.map_nil] at hu; rw [utf8Char2_iff] at hu
      refine ⟨by omega, by simp, ?_⟩
      intro x hx; simp at hx; subst hx; omega
    | cons d t =>
      cases t with
      | nil =>
        simp only [List.map_cons, List.map_nil] at hu; rw [utf8Char3_iff] at hu
        refine ⟨by omega, by simp, ?_⟩
        intro x hx; simp at hx; rcases hx with rfl | rfl <;> omega
      | cons e t =>
        cases t with
        | nil =>
          simp only [List.map_cons, List.map_nil] at hu; rw [utf8Char4_iff] at hu
          refine ⟨by omega, by simp, ?_⟩
          intro x hx; simp at hx; rcases hx with rfl | rfl | rfl <;> omega
        | cons f r => simp [utf8Char5] at hu

theorem wf_cut : ∀ (n : Nat) (a : Bytes), a.length ≤ n → ∀ (c : UInt8) (b : Bytes) (m : Nat), c.toNat ≤ 0x7F →
    WellFormed true (a ++ c :: b) m → (∃ k, WellFormed true a k) ∧ (∃ k, WellFormed true b k) := by
  intro n
  induction n with
  | zero =>
    intro a ha c b m hc h
    have : a = [] := List.eq_nil_of_length_eq_zero (by omega)
    subst this
    obtain ⟨v, enc, rest, m', e, hr, hm, hw, _⟩ := wf_uncons (by simpa using h)
    cases enc with
    | nil => exact absurd rfl (rfc_nonempty hr)
    | cons e0 et =>
      simp only [List.cons_append, List.cons.injEq] at e
      obtain ⟨rfl, e2⟩ := e
      rcases rfc_shape hr with ⟨rfl, _⟩ | ⟨h1, _, _⟩
      · simp at e2; subst e2
        exact ⟨⟨0, (wf_nil true 0).2 rfl⟩, ⟨m', hw⟩⟩
      · omega
  | succ n ih =>
    intro a ha c b m hc h
    cases a with
    | nil => exact (by
        obtain ⟨v, enc, rest, m', e, hr, hm, hw, _⟩ := wf_uncons (by simpa using h)
        cases enc with
        | nil => exact absurd rfl (rfc_nonempty hr)
        | cons e0 et =>
          simp only [List.cons_append, List.cons.injEq] at e
          obtain ⟨rfl, e2⟩ := e
          rcases rfc_shape hr with ⟨rfl, _⟩ | ⟨h1, _, _⟩
          · simp at e2; subst e2
            exact ⟨⟨0, (wf_nil true 0).2 rfl⟩, ⟨m', hw⟩⟩
          · omega)
    | cons x a' =>
      simp only [List.length_cons] at ha
      obtain ⟨v, enc, rest, m', e, hr, hm, hw, _⟩ := wf_uncons (by simpa using h)
      cases enc with
      | nil => exact absurd rfl (rfc_nonempty hr)
      | cons e0 et =>
        simp only [List.cons_append, List.cons.injEq] at e
        obtain ⟨rfl, e2⟩ := e
        have hsplit := List.append_eq_append_iff.mp e2
        have htail : ∀ y ∈ et, 0x80 ≤ y.toNat := by
          rcases rfc_shape hr with ⟨rfl, _⟩ | ⟨_, _, h3⟩
          · intro y hy; simp at hy
          · exact h3
        rcases hsplit with ⟨a'', e3, e4⟩ | ⟨a'', e3, e4⟩
        · -- et = a' ++ a'', c :: b = a'' ++ rest
          cases a'' with
          | nil =>
            simp at e3 e4
            subst e3
            rw [← e4] at hw
            obtain ⟨_, hb⟩ := ih [] (by simp) c b m' hc (by simpa using hw)
            refine ⟨⟨0 + 1, ?_⟩, hb⟩
            have := wf_cons (rest := []) hr hm ((wf_nil true 0).2 rfl)
            simpa using this
          | cons y ys =>
            simp only [List.cons_append, List.cons.injEq] at e4
            have : c ∈ et := by rw [e3, e4.1]; simp
            have := htail c this
            omega
        · -- a' = et ++ a'', rest = a'' ++ c :: b
          subst e3
          rw [e4] at hw
          obtain ⟨⟨k, hk⟩, hb⟩ := ih a'' (by simp at ha; omega) c b m' hc hw
          refine ⟨⟨k + 1, ?_⟩, hb⟩
          have := wf_cons hr hm hk
          simpa using this

theorem sync_ascii : ∀ c ∈ syncBytes, c.toNat ≤ 0x7F ∧ ∃ n, WellFormed true [c] n := by
  intro c hc
  have h1 : c.toNat ≤ 0x7F ∧ htmlSafe c.toNat = true := by
    revert hc; revert c; decide
  refine ⟨h1.1, 1, ?_⟩
  have : Rfc3629 c.toNat [c] := ⟨by simp [nats, utf8Char1]; exact h1.1, by simp [nats, scalarOf1]⟩
  have := wf_cons (html := true) (rest := []) this (by simp [modeOk, h1.2]) ((wf_nil true 0).2 rfl)
  simpa using this

/-- the real UTF-8 validator is synchronised at ASCII bytes -/
theorem utf8Enc_asciiSync (repl : UInt8) : AsciiSync (utf8Enc repl) := by
  refine ⟨?_, ?_, ?_, ?_⟩
  · exact (utf8_valid_iff []).2 ⟨0, (wf_nil true 0).2 rfl⟩
  · intro a b ha hb
    obtain ⟨n, hn⟩ := (utf8_valid_iff a).1 ha
    obtain ⟨m, hm⟩ := (utf8_valid_iff b).1 hb
    exact (utf8_valid_iff _).2 ⟨n + m, wf_append hn hm⟩
  · intro a c b hc hv
    obtain ⟨m, hm⟩ := (utf8_valid_iff _).1 hv
    obtain ⟨h1, h2⟩ := wf_cut a.length a (Nat.le_refl _) c b m (sync_ascii c hc).1 hm
    exact ⟨(utf8_valid_iff a).2 h1, (utf8_valid_iff b).2 h2⟩
  · intro c hc
    exact (utf8_valid_iff [c]).2 (sync_ascii c hc).2

/-- `EncOk` for the real UTF-8 validator: no hypothesis beyond the replacement-character precondition -/
theorem utf8Enc_ok (repl : UInt8) (r : Rules) (hr : ReplOk repl) : EncOk (utf8Enc repl) r := by
  apply asciiSync_encOk _ r (utf8Enc_asciiSync repl)
  intro x hx
  show (validUtf8 (match (filterUtf8 x repl).2 with | some out => out | none => x) 0).1 = true
  cases hf : filterUtf8 x repl with
  | mk ok out =>
    cases out with
    | none =>
      -- (·, none) is only returned together with `true`, i.e. for valid text
      exfalso
      have : filterUtf8 x repl = (true, none) := by
        unfold filterUtf8 at hf ⊢
        split at hf <;> simp_all
      have := (Cppcms.C14.Props.filter_reports_valid_iff x repl).1 this
      have hv := (utf8_valid_iff x).2 this
      have hx' : (validUtf8 x 0).1 = false := hx
      rw [hv] at hx'; cases hx'
    | some o =>
      have hfalse : filterUtf8 x repl = (false, some o) := by
        unfold filterUtf8 at hf ⊢
        split at hf <;> simp_all
      simp only
      exact (utf8_valid_iff o).2 (Cppcms.C14.Props.filter_yields_valid x o repl hr hfalse)
end Cppcms.C04
