import Cppcms.C04.LemUri
/-! C04 lemmas, part 17: the byte alphabet of what uri_parser accepts (`Safe`), every `&` a reference, and the scheme a
WHATWG URL parser sees in the character-reference-decoded value is the scheme the validator checked. -/
namespace Cppcms.C04.Uri
open Cppcms

theorem ampAmp_eq : ampAmp = [38, 97, 109, 112, 59] := by decide
theorem ampApos_eq : ampApos = [38, 97, 112, 111, 115, 59] := by decide
theorem pct_eq : ∀ c : UInt8, c.toNat = Gen.uriPct → c = 37 := by
  apply forall_uint8; decide +kernel

/-- a byte the parser can consume on its own: RFC 3986 unreserved, `%`, the gen-delims `: @ / ? #` it admits, and the
sub-delims other than `&` (`! $ ( ) * + , ; = '`) -/
def uriPlain (c : UInt8) : Bool :=
  unreservedChar c || c = 37 || c = 58 || c = 64 || c = 47 || c = 63 || c = 35 || subDelimChar c

/-- texts made of such bytes and of the two character references `&amp;` `&apos;` -/
inductive Safe : Bytes → Prop
  | nil : Safe []
  | byte (c : UInt8) (s : Bytes) : uriPlain c = true → Safe s → Safe (c :: s)
  | amp (s : Bytes) : Safe s → Safe (ampAmp ++ s)
  | apos (s : Bytes) : Safe s → Safe (ampApos ++ s)

theorem Safe.append {a b : Bytes} (ha : Safe a) (hb : Safe b) : Safe (a ++ b) := by
  induction ha with
  | nil => simpa using hb
  | byte c s hc _ ih => exact Safe.byte c _ hc ih
  | amp s _ ih => rw [List.append_assoc]; exact Safe.amp _ ih
  | apos s _ ih => rw [List.append_assoc]; exact Safe.apos _ ih

theorem Safe.single {c : UInt8} (h : uriPlain c = true) : Safe [c] := Safe.byte c [] h Safe.nil

/-- a parser only ever consumes a `Safe` prefix of what it is given (whether it succeeds or not) -/
def Cons (p : P) : Prop := ∀ s, ∃ pre, s = pre ++ (p s).2 ∧ Safe pre

theorem cons_nothing {p : P} (h : ∀ s, (p s).2 = s) : Cons p := fun s => ⟨[], by simp [h s], Safe.nil⟩

theorem cons_followsC (c : UInt8) (hc : uriPlain c = true) : Cons (followsC c) := by
  intro s
  cases s with
  | nil => exact ⟨[], rfl, Safe.nil⟩
  | cons x s =>
    unfold followsC
    by_cases hx : x = c
    · subst hx; exact ⟨[x], by simp, Safe.single hc⟩
    · exact ⟨[], by simp [hx], Safe.nil⟩

theorem followsS_spec (p s : Bytes) : (followsS p s).1 = true → s = p ++ (followsS p s).2 := by
  unfold followsS
  split
  · rename_i h
    intro _
    obtain ⟨t, rfl⟩ := List.isPrefixOf_iff_prefix.mp h
    simp
  · intro h; cases h

theorem followsS_fail (p s : Bytes) : (followsS p s).1 = false → (followsS p s).2 = s := by
  unfold followsS; split <;> simp

theorem cons_subDelims : Cons subDelims := by
  intro s
  cases s with
  | nil => exact ⟨[], rfl, Safe.nil⟩
  | cons c rest =>
    unfold subDelims
    simp only
    split
    · rename_i h
      refine ⟨ampAmp, followsS_spec _ _ h, ?_⟩
      simpa using Safe.amp [] Safe.nil
    · split
      · rename_i h
        refine ⟨ampApos, followsS_spec _ _ h, ?_⟩
        simpa using Safe.apos [] Safe.nil
      · split
        · rename_i h
          exact ⟨[c], by simp, Safe.single (by simp [uriPlain, h])⟩
        · exact ⟨[], by simp, Safe.nil⟩

theorem cons_unreserved : Cons unreserved := by
  intro s
  cases s with
  | nil => exact ⟨[], rfl, Safe.nil⟩
  | cons c s =>
    by_cases h : unreservedChar c = true
    · exact ⟨[c], by simp [unreserved, h], Safe.single (by simp [uriPlain, h])⟩
    · exact ⟨[], by simp [unreserved, h], Safe.nil⟩

theorem hex_plain : ∀ c : UInt8, isHex c = true → uriPlain c = true := by
  apply forall_uint8; decide +kernel

theorem cons_pctEncoded : Cons pctEncoded := by
  intro s
  unfold pctEncoded
  split
  · split
    · rename_i c0 a b s' h
      simp only [Bool.and_eq_true, decide_eq_true_eq] at h
      have hc := pct_eq c0 h.1.1
      subst hc
      refine ⟨[37, a, b], by simp, ?_⟩
      exact Safe.byte 37 _ (by decide) (Safe.byte a _ (hex_plain a h.1.2) (Safe.single (hex_plain b h.2)))
    · exact ⟨[], by simp, Safe.nil⟩
  · exact ⟨[], by simp, Safe.nil⟩

theorem cons_orElse {a b : P} (ha : Cons a) (hb : Cons b) : Cons (orElse a b) := by
  intro s
  unfold orElse
  split
  · exact ha s
  · exact hb s

/-- `a(); b()` in sequence, whatever the result flags -/
theorem cons_seq {a b : P} (ha : Cons a) (hb : Cons b) (s : Bytes) : ∃ pre, s = pre ++ (b (a s).2).2 ∧ Safe pre := by
  obtain ⟨p1, e1, s1⟩ := ha s
  obtain ⟨p2, e2, s2⟩ := hb (a s).2
  refine ⟨p1 ++ p2, ?_, s1.append s2⟩
  rw [List.append_assoc, ← e2, ← e1]

theorem cons_manyAux {p : P} (hp : Cons p) : ∀ (n : Nat) (s : Bytes), ∃ pre, s = pre ++ manyAux p n s ∧ Safe pre := by
  intro n
  induction n with
  | zero => intro s; exact ⟨[], rfl, Safe.nil⟩
  | succ n ih =>
    intro s
    unfold manyAux
    split
    · obtain ⟨p1, e1, s1⟩ := hp s
      obtain ⟨p2, e2, s2⟩ := ih (p s).2
      refine ⟨p1 ++ p2, ?_, s1.append s2⟩
      rw [List.append_assoc, ← e2, ← e1]
    · exact ⟨[], rfl, Safe.nil⟩

theorem cons_many {p : P} (hp : Cons p) : Cons (many p) := fun s => cons_manyAux hp _ s

theorem cons_pchar : Cons pchar :=
  cons_orElse cons_unreserved (cons_orElse cons_pctEncoded (cons_orElse cons_subDelims
    (cons_orElse (cons_followsC 58 (by decide)) (cons_followsC 64 (by decide)))))

theorem cons_queryChar : Cons queryChar :=
  cons_orElse cons_pchar (cons_orElse (cons_followsC 47 (by decide)) (cons_followsC 63 (by decide)))
theorem cons_query : Cons query := cons_many cons_queryChar
theorem cons_fragment : Cons fragment := cons_query
theorem cons_segment : Cons segment := cons_many cons_pchar

/-- `if(a()) b(); else (false, unchanged)` -/
theorem cons_ifThen {a b : P} (ha : Cons a) (hb : Cons b) :
    Cons (fun s => if (a s).1 then b (a s).2 else (false, s)) := by
  intro s
  simp only
  split
  · exact cons_seq ha hb s
  · exact ⟨[], rfl, Safe.nil⟩

theorem cons_segmentNz : Cons segmentNz := cons_ifThen cons_pchar cons_segment

theorem cons_nzncChar : Cons nzncChar :=
  cons_orElse cons_unreserved (cons_orElse cons_pctEncoded (cons_orElse cons_subDelims (cons_followsC 64 (by decide))))

theorem cons_segmentNzNc : Cons segmentNzNc := fun s => cons_manyAux cons_nzncChar _ s

theorem cons_slashSegment : Cons slashSegment := cons_ifThen (cons_followsC 47 (by decide)) cons_segment
theorem cons_slashSegments : Cons slashSegments := cons_many cons_slashSegment
theorem cons_pathAbempty : Cons pathAbempty := cons_slashSegments

theorem cons_pathRootless : Cons pathRootless := cons_ifThen cons_segmentNz cons_slashSegments

theorem cons_pathNoscheme : Cons pathNoscheme := by
  intro s
  unfold pathNoscheme
  split
  · exact cons_seq cons_segmentNzNc cons_slashSegments s
  · exact cons_segmentNzNc s

theorem cons_pathAbsolute : Cons pathAbsolute := by
  intro s
  unfold pathAbsolute
  split
  · simp only
    split
    · obtain ⟨p1, e1, s1⟩ := cons_followsC 47 (by decide) s
      obtain ⟨p2, e2, s2⟩ := cons_seq cons_segmentNz cons_slashSegments (followsC 47 s).2
      refine ⟨p1 ++ p2, ?_, s1.append s2⟩
      rw [List.append_assoc, ← e2, ← e1]
    · exact cons_followsC 47 (by decide) s
  · exact ⟨[], rfl, Safe.nil⟩

theorem cons_regName : Cons regName :=
  cons_many (cons_orElse cons_unreserved (cons_orElse cons_pctEncoded cons_subDelims))

theorem cons_decOctet : Cons decOctet := by
  apply cons_nothing
  intro s
  unfold decOctet
  cases s with
  | nil => rfl
  | cons c s =>
    simp only
    split
    · split <;> rfl
    · rfl

theorem cons_andThen {a b : P} (ha : Cons a) (hb : Cons b) : Cons (andThen a b) := by
  intro s
  unfold andThen
  split
  · exact cons_seq ha hb s
  · exact ha s

theorem cons_ipv4addr : Cons ipv4addr := by
  intro s
  unfold ipv4addr
  simp only
  split
  · exact cons_andThen cons_decOctet (cons_andThen (cons_followsC 46 (by decide)) (cons_andThen cons_decOctet
      (cons_andThen (cons_followsC 46 (by decide)) (cons_andThen cons_decOctet
        (cons_andThen (cons_followsC 46 (by decide)) cons_decOctet))))) s
  · exact ⟨[], rfl, Safe.nil⟩

theorem digit_plain : ∀ c : UInt8, isDigit c = true → uriPlain c = true := by
  apply forall_uint8; decide +kernel

theorem cons_port : Cons port := by
  apply cons_many
  intro s
  cases s with
  | nil => exact ⟨[], rfl, Safe.nil⟩
  | cons c rest =>
    simp only
    split
    · rename_i h; exact ⟨[c], by simp, Safe.single (digit_plain c h)⟩
    · exact ⟨[], by simp, Safe.nil⟩

theorem cons_host : Cons host := cons_orElse cons_ipv4addr cons_regName
theorem cons_userinfo : Cons userinfo :=
  cons_many (cons_orElse cons_unreserved (cons_orElse cons_pctEncoded (cons_orElse cons_subDelims (cons_followsC 58 (by decide)))))

theorem cons_authority : Cons authority := by
  intro s
  unfold authority
  simp only
  -- userinfo, then ('@' host | host), then optional ':' port
  obtain ⟨p1, e1, s1⟩ := cons_userinfo s
  have h2 : ∃ pre, (userinfo s).2 = pre ++
      (if (followsC 64 (userinfo s).2).1 then (host (followsC 64 (userinfo s).2).2).2 else (host (userinfo s).2).2) ∧ Safe pre := by
    split
    · exact cons_seq (cons_followsC 64 (by decide)) cons_host _
    · exact cons_host _
  obtain ⟨p2, e2, s2⟩ := h2
  generalize (if (followsC 64 (userinfo s).2).1 then (host (followsC 64 (userinfo s).2).2).2 else (host (userinfo s).2).2) = t at e2 ⊢
  split
  · obtain ⟨p3, e3, s3⟩ := cons_seq (cons_followsC 58 (by decide)) cons_port t
    refine ⟨p1 ++ (p2 ++ p3), ?_, s1.append (s2.append s3)⟩
    simp only [List.append_assoc]
    rw [← e3, ← e2, ← e1]
  · refine ⟨p1 ++ p2, ?_, s1.append s2⟩
    rw [List.append_assoc, ← e2, ← e1]

theorem cons_relativePart : Cons relativePart := fun s => cons_seq cons_authority cons_pathAbempty s

theorem cons_optional (c : UInt8) (hc : uriPlain c = true) {p : P} (hp : Cons p) : Cons (optional c p) := by
  intro s
  unfold optional
  split
  · exact cons_seq (cons_followsC c hc) hp s
  · exact ⟨[], rfl, Safe.nil⟩

/-- the two optional tails `[ "?" query ] [ "#" fragment ]` after a parser -/
theorem cons_tails {p : P} (hp : Cons p) :
    Cons (fun s => optional 35 fragment (optional 63 query (p s).2).2) := by
  intro s
  obtain ⟨p1, e1, s1⟩ := hp s
  obtain ⟨p2, e2, s2⟩ := cons_seq (cons_optional 63 (by decide) cons_query) (cons_optional 35 (by decide) cons_fragment) (p s).2
  refine ⟨p1 ++ p2, ?_, s1.append s2⟩
  rw [List.append_assoc, ← e2, ← e1]

theorem cons_relativeRef : Cons relativeRef := cons_tails cons_relativePart

theorem cons_hierPart : Cons hierPart := by
  intro s
  unfold hierPart
  split
  · rename_i h
    obtain ⟨p2, e2, s2⟩ := cons_seq cons_authority cons_pathAbempty (followsS [47, 47] s).2
    refine ⟨[47, 47] ++ p2, ?_, (Safe.byte 47 _ (by decide) (Safe.single (by decide))).append s2⟩
    rw [List.append_assoc, ← e2]
    exact followsS_spec _ _ h
  · split
    · exact cons_pathAbsolute s
    · split
      · exact cons_pathRootless s
      · exact ⟨[], rfl, Safe.nil⟩

theorem schemeChar_plain : ∀ c : UInt8, (isAlpha c = true ∨ schemeChar c = true) → uriPlain c = true := by
  apply forall_uint8; decide +kernel

theorem safe_of_all_plain : ∀ l : Bytes, (∀ c ∈ l, uriPlain c = true) → Safe l := by
  intro l
  induction l with
  | nil => intro _; exact Safe.nil
  | cons c l ih => intro h; exact Safe.byte c l (h c (List.mem_cons_self ..)) (ih (fun d hd => h d (List.mem_cons_of_mem _ hd)))

theorem takeWhile_all {p : UInt8 → Bool} : ∀ (l : Bytes), ∀ c ∈ l.takeWhile p, p c = true := by
  intro l
  induction l with
  | nil => intro c hc; simp at hc
  | cons a l ih =>
    intro c hc
    by_cases ha : p a = true
    · simp only [List.takeWhile_cons, ha, if_true, List.mem_cons] at hc
      rcases hc with rfl | hc
      · exact ha
      · exact ih c hc
    · simp [List.takeWhile_cons, ha] at hc

theorem scheme_spec (s sch rest : Bytes) (h : scheme s = some (sch, rest)) : s = sch ++ rest ∧ Safe sch := by
  unfold scheme at h
  cases s with
  | nil => simp at h
  | cons c t =>
    simp only at h
    split at h
    · rename_i hc
      simp only [Option.some.injEq, Prod.mk.injEq] at h
      obtain ⟨rfl, rfl⟩ := h
      refine ⟨by simp [List.takeWhile_append_dropWhile], ?_⟩
      apply safe_of_all_plain
      intro d hd
      simp only [List.mem_cons] at hd
      rcases hd with rfl | hd
      · exact schemeChar_plain _ (Or.inl hc)
      · exact schemeChar_plain _ (Or.inr (takeWhile_all t d hd))
    · cases h

/-- **every text `uri_parser::parse()` accepts is `Safe`** -/
theorem parse_safe (v : Bytes) (r : Option Bytes) (h : parse v = some r) : Safe v := by
  unfold parse at h
  cases hu : uri v with
  | none =>
    simp only [hu] at h
    split at h
    · rename_i he
      obtain ⟨pre, e, sp⟩ := cons_relativeRef v
      have : (relativeRef v).2 = [] := by simpa using he
      rw [this, List.append_nil] at e
      rw [e]; exact sp
    · cases h
  | some p =>
    obtain ⟨sch, rest⟩ := p
    simp only [hu] at h
    split at h
    · rename_i he
      have hrest : rest = [] := by simpa using he
      unfold uri at hu
      cases hs : scheme v with
      | none => simp [hs] at hu
      | some q =>
        obtain ⟨sch', s1⟩ := q
        simp only [hs] at hu
        split at hu
        · rename_i hcol
          simp only [Option.some.injEq, Prod.mk.injEq] at hu
          obtain ⟨rfl, hr⟩ := hu
          obtain ⟨e0, s0⟩ := scheme_spec v sch' s1 hs
          obtain ⟨p1, e1, sp1⟩ := cons_followsC 58 (by decide) s1
          obtain ⟨p2, e2, sp2⟩ := cons_tails cons_hierPart (followsC 58 s1).2
          simp only at e2
          rw [hr, hrest, List.append_nil] at e2
          rw [e0, e1, e2]
          exact s0.append (sp1.append sp2)
        · cases hu
    · cases h

theorem validator_safe (k : Kind) (schemeOk : Bytes → Bool) (v : Bytes) (h : validator k schemeOk v = true) : Safe v := by
  unfold validator at h
  cases hp : parse v with
  | none => simp [hp] at h
  | some r => exact parse_safe v r hp

/-! ### what a `Safe` text looks like, byte by byte -/

theorem uriPlain_facts : ∀ c : UInt8, uriPlain c = true →
    0x21 ≤ c ∧ c ≤ 0x7E ∧ c ≠ 34 ∧ c ≠ 60 ∧ c ≠ 62 ∧ c ≠ 38 ∧ c ≠ 92 ∧ c ≠ 91 ∧ c ≠ 93 ∧ c ≠ 94 ∧ c ≠ 96 ∧ c ≠ 123 ∧ c ≠ 124 ∧ c ≠ 125 := by
  apply forall_uint8; decide +kernel

/-- every byte is a printable ASCII byte other than `"`, `<`, `>`, `\`, `[`, `]`, `^`, `` ` ``, `{`, `|`, `}`;
in particular no space, no control character, no byte ≥ 0x7F -/
def byteOk (c : UInt8) : Bool :=
  0x21 ≤ c && c ≤ 0x7E && c != 34 && c != 60 && c != 62 && c != 92 && c != 91 && c != 93 && c != 94 && c != 96 &&
    c != 123 && c != 124 && c != 125

theorem safe_bytes {v : Bytes} (h : Safe v) : ∀ b ∈ v, byteOk b = true := by
  induction h with
  | nil => intro b hb; simp at hb
  | byte c s hc _ ih =>
    intro b hb
    simp only [List.mem_cons] at hb
    rcases hb with rfl | hb
    · have := uriPlain_facts b hc
      simp [byteOk, this]
    · exact ih b hb
  | amp s _ ih =>
    intro b hb
    rcases List.mem_append.mp hb with h | h
    · revert h; simp only [ampAmp_eq, List.mem_cons, List.mem_nil_iff, or_false]
      intro h; rcases h with rfl | rfl | rfl | rfl | rfl <;> decide
    · exact ih b h
  | apos s _ ih =>
    intro b hb
    rcases List.mem_append.mp hb with h | h
    · revert h; simp only [ampApos_eq, List.mem_cons, List.mem_nil_iff, or_false]
      intro h; rcases h with rfl | rfl | rfl | rfl | rfl | rfl <;> decide
    · exact ih b h

/-- every `&` starts `&amp;` or `&apos;` -/
def refsOk : Bytes → Bool
  | [] => true
  | c :: rest => (c != 38 || ([97, 109, 112, 59] : Bytes).isPrefixOf rest || ([97, 112, 111, 115, 59] : Bytes).isPrefixOf rest) && refsOk rest

theorem safe_refs {v : Bytes} (h : Safe v) : refsOk v = true := by
  induction h with
  | nil => rfl
  | byte c s hc _ ih =>
    have := (uriPlain_facts c hc).2.2.2.2.2.1
    simp [refsOk, this, ih]
  | amp s _ ih => simp [ampAmp_eq, refsOk, ih]
  | apos s _ ih => simp [ampApos_eq, refsOk, ih]

/-! ### the scheme a browser sees -/

/-- HTML character-reference decoding of an attribute value, for the two references the parser admits -/
def decodeRefs : Bytes → Bytes
  | 38 :: 97 :: 109 :: 112 :: 59 :: rest => 38 :: decodeRefs rest
  | 38 :: 97 :: 112 :: 111 :: 115 :: 59 :: rest => 39 :: decodeRefs rest
  | c :: rest => c :: decodeRefs rest
  | [] => []

/-- WHATWG URL parsing, first steps: strip leading and trailing C0 controls and spaces, remove TAB/LF/CR anywhere;
then the scheme is a letter, letters/digits/`+`/`-`/`.`, and `:` -/
def whatwgPre (v : Bytes) : Bytes :=
  (((v.dropWhile (· ≤ 32)).reverse.dropWhile (· ≤ 32)).reverse).filter fun c => c != 9 && c != 10 && c != 13

/-- WHATWG "scheme start state" / "scheme state", stated independently of the parser's own classes -/
def wAlpha (c : UInt8) : Bool := (65 ≤ c && c ≤ 90) || (97 ≤ c && c ≤ 122)
def wSchemeChar (c : UInt8) : Bool := wAlpha c || (48 ≤ c && c ≤ 57) || c = 43 || c = 45 || c = 46

def wSchemeOf : Bytes → Option Bytes
  | c :: rest =>
    if wAlpha c && (rest.dropWhile wSchemeChar).head? == some 58 then some (c :: rest.takeWhile wSchemeChar) else none
  | [] => none

def browserScheme (v : Bytes) : Option Bytes := wSchemeOf (whatwgPre v)

/-- the parser's `scheme()` uses exactly the WHATWG classes (checked against the regenerated conditions) -/
theorem scheme_classes : ∀ c : UInt8, isAlpha c = wAlpha c ∧ schemeChar c = wSchemeChar c := by
  apply forall_uint8; decide +kernel

theorem dropWhile_none {p : UInt8 → Bool} : ∀ {l : Bytes}, (∀ c ∈ l, p c = false) → l.dropWhile p = l := by
  intro l h
  cases l with
  | nil => rfl
  | cons a l => simp [List.dropWhile_cons, h a (List.mem_cons_self ..)]

theorem whatwgPre_id (v : Bytes) (h : ∀ c ∈ v, 33 ≤ c) : whatwgPre v = v := by
  unfold whatwgPre
  have h1 : ∀ c ∈ v, decide (c ≤ 32) = false := by
    intro c hc
    have := h c hc
    simp only [decide_eq_false_iff_not, UInt8.not_le]
    exact UInt8.lt_of_lt_of_le (by decide) this
  rw [dropWhile_none h1, dropWhile_none (fun c hc => h1 c (List.mem_reverse.mp hc)), List.reverse_reverse]
  apply List.filter_eq_self.mpr
  intro c hc
  have := h c hc
  have e1 : c ≠ 9 := by intro e; rw [e] at this; exact absurd this (by decide)
  have e2 : c ≠ 10 := by intro e; rw [e] at this; exact absurd this (by decide)
  have e3 : c ≠ 13 := by intro e; rw [e] at this; exact absurd this (by decide)
  simp [e1, e2, e3]

theorem decodeRefs_cons_ne (c : UInt8) (s : Bytes) (h : c ≠ 38) : decodeRefs (c :: s) = c :: decodeRefs s := by
  conv => lhs; unfold decodeRefs
  split
  · rename_i heq; simp at heq; exact absurd heq.1 h
  · rename_i heq; simp at heq; exact absurd heq.1 h
  · rename_i heq; simp at heq; obtain ⟨rfl, rfl⟩ := heq; rfl
  · rename_i heq; simp at heq

theorem decodeRefs_amp (s : Bytes) : decodeRefs (ampAmp ++ s) = 38 :: decodeRefs s := by
  simp [ampAmp_eq, decodeRefs]

theorem decodeRefs_apos (s : Bytes) : decodeRefs (ampApos ++ s) = 39 :: decodeRefs s := by
  simp [ampApos_eq, decodeRefs]

theorem schemeOf_cons (c : UInt8) (rest : Bytes) :
    schemeOf (c :: rest) = if isAlpha c = true ∧ (rest.dropWhile schemeChar).head? = some 58 then
      some (c :: rest.takeWhile schemeChar) else none := by
  unfold schemeOf scheme
  by_cases hc : isAlpha c = true
  · simp only [hc, if_true, true_and]
    cases hd : rest.dropWhile schemeChar with
    | nil => simp
    | cons d t =>
      by_cases h58 : d = 58
      · subst h58; simp
      · simp [h58]
  · simp [hc]

theorem decode_scheme_prefix {s : Bytes} (h : Safe s) :
    (decodeRefs s).takeWhile schemeChar = s.takeWhile schemeChar ∧
    (((decodeRefs s).dropWhile schemeChar).head? = some 58 ↔ (s.dropWhile schemeChar).head? = some 58) := by
  induction h with
  | nil => simp [decodeRefs]
  | byte c s hc _ ih =>
    have hne := (uriPlain_facts c hc).2.2.2.2.2.1
    rw [decodeRefs_cons_ne c s hne]
    by_cases hs : schemeChar c = true
    · simp only [List.takeWhile_cons, List.dropWhile_cons, hs, if_true]
      exact ⟨by rw [ih.1], ih.2⟩
    · simp [List.takeWhile_cons, List.dropWhile_cons, hs]
  | amp s _ _ =>
    rw [decodeRefs_amp]
    have e : schemeChar 38 = false := by decide
    simp [ampAmp_eq, List.takeWhile_cons, List.dropWhile_cons, e]
  | apos s _ _ =>
    rw [decodeRefs_apos]
    have e : schemeChar 38 = false := by decide
    have e' : schemeChar 39 = false := by decide
    simp [ampApos_eq, List.takeWhile_cons, List.dropWhile_cons, e, e']

theorem safe_decode {s : Bytes} (h : Safe s) : ∀ c ∈ decodeRefs s, 33 ≤ c := by
  induction h with
  | nil => intro c hc; simp [decodeRefs] at hc
  | byte c s hc _ ih =>
    have hf := uriPlain_facts c hc
    rw [decodeRefs_cons_ne c s hf.2.2.2.2.2.1]
    intro d hd
    simp only [List.mem_cons] at hd
    rcases hd with rfl | hd
    · exact hf.1
    · exact ih d hd
  | amp s _ ih =>
    rw [decodeRefs_amp]
    intro d hd
    simp only [List.mem_cons] at hd
    rcases hd with rfl | hd
    · decide
    · exact ih d hd
  | apos s _ ih =>
    rw [decodeRefs_apos]
    intro d hd
    simp only [List.mem_cons] at hd
    rcases hd with rfl | hd
    · decide
    · exact ih d hd

/-- for a `Safe` text the scheme a browser sees in the decoded attribute value is the scheme the parser saw -/
theorem wSchemeOf_eq (v : Bytes) : wSchemeOf v = schemeOf v := by
  have h1 : wAlpha = isAlpha := funext fun c => ((scheme_classes c).1).symm
  have h2 : wSchemeChar = schemeChar := funext fun c => ((scheme_classes c).2).symm
  cases v with
  | nil => rfl
  | cons c rest =>
    rw [schemeOf_cons]
    simp only [wSchemeOf, h1, h2, Bool.and_eq_true, beq_iff_eq]

theorem browserScheme_decode {v : Bytes} (h : Safe v) : browserScheme (decodeRefs v) = schemeOf v := by
  unfold browserScheme
  rw [wSchemeOf_eq, whatwgPre_id _ (safe_decode h)]
  cases h with
  | nil => rfl
  | byte c s hc hs =>
    have hne := (uriPlain_facts c hc).2.2.2.2.2.1
    rw [decodeRefs_cons_ne c s hne, schemeOf_cons, schemeOf_cons]
    obtain ⟨e1, e2⟩ := decode_scheme_prefix hs
    rw [e1]
    by_cases ha : isAlpha c = true
    · simp only [ha, true_and]
      by_cases h58 : (s.dropWhile schemeChar).head? = some 58
      · simp [h58, e2.mpr h58]
      · have : ¬ ((decodeRefs s).dropWhile schemeChar).head? = some 58 := fun hh => h58 (e2.mp hh)
        simp [h58, this]
    · simp [ha]
  | amp s hs =>
    rw [decodeRefs_amp, schemeOf_cons]
    have : isAlpha 38 = false := by decide
    simp [this, ampAmp_eq, schemeOf_cons]
  | apos s hs =>
    rw [decodeRefs_apos, schemeOf_cons]
    have e1 : isAlpha 39 = false := by decide
    have e2 : isAlpha 38 = false := by decide
    simp [e1, e2, ampApos_eq, schemeOf_cons]
end Cppcms.C04.Uri
