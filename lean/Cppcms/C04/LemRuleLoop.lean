import Cppcms.C04.LemGood
/-! C04 lemmas, part 10: the rules loop of validate_and_filter_if_invalid (pair invalidation through tag.pair) on a
`Good` list yields the verdicts the frames run computed; hence analyse = frames run, validate via frames run. -/
namespace Cppcms.C04
open Cppcms

/-! ### the rules loop of `validate_and_filter_if_invalid` on a `Good` list -/

/-- the entry array component of `ruleStep` (it does not depend on the flag) -/
def ruleStep1 (r : Rules) (es : List Entry) (i : Nat) : List Entry :=
  match es[i]? with
  | none => es
  | some e =>
    if entryOk r e then es
    else setTy (match e.pair with
      | some j => setTy es j .invalid
      | none => es) i .invalid

theorem ruleStep_fst (r : Rules) (es : List Entry) (b : Bool) (i : Nat) : (ruleStep r (es, b) i).1 = ruleStep1 r es i := by
  unfold ruleStep ruleStep1
  cases es[i]? with
  | none => rfl
  | some e =>
    simp only
    split <;> rfl

theorem ruleFold_fst (r : Rules) : ∀ (is : List Nat) (es : List Entry) (b : Bool),
    (is.foldl (ruleStep r) (es, b)).1 = is.foldl (ruleStep1 r) es := by
  intro is
  induction is with
  | nil => intro es b; rfl
  | cons i is ih =>
    intro es b
    simp only [List.foldl_cons]
    rw [← ruleStep_fst r es b i]
    generalize ruleStep r (es, b) i = s
    obtain ⟨es', b'⟩ := s
    exact ih es' b'

theorem finalEntry_leaf (r : Rules) (e : Entry) :
    finalEntry (leafF r e) = if entryOk r e then e else { e with ty := .invalid } := by
  unfold finalEntry leafF
  cases entryOk r e <;> simp

theorem leafOut_facts {r : Rules} {xhtml : Bool} {e : Entry} {x : FEntry} (h : LeafOut r xhtml e x) :
    ∃ e', x = leafF r e' ∧ e'.pair = e.pair := by
  cases h
  · exact ⟨_, rfl, rfl⟩
  · exact ⟨_, rfl, rfl⟩
  · exact ⟨_, rfl, rfl⟩

theorem map_fst_length (l : List FEntry) : (l.map Prod.fst).length = l.length := by simp
theorem map_final_length (l : List FEntry) : (l.map finalEntry).length = l.length := by simp

def inv (e : Entry) : Entry := { e with ty := .invalid }

theorem entryOk_inv (r : Rules) (e : Entry) : entryOk r (inv e) = false := rfl
theorem inv_inv (e : Entry) : inv (inv e) = inv e := rfl
theorem inv_pair (e : Entry) : (inv e).pair = e.pair := rfl

theorem modify_at_length_append {α : Type} (A : List α) (x : α) (B : List α) (g : α → α) (n : Nat) (h : n = A.length) :
    (A ++ x :: B).modify n g = A ++ g x :: B := by
  subst h; exact modify_append_cons _ _ _ _

theorem getElem?_at_length_append {α : Type} (A : List α) (x : α) (B : List α) (n : Nat) (h : n = A.length) :
    (A ++ x :: B)[n]? = some x := by
  subst h; simp

/-- the rules loop over a matched pair `o' … c'` with a self-contained middle part -/
theorem pair_steps (r : Rules) (A : List Entry) (o' c' : Entry) (M M' S : List Entry) (po pc : Nat)
    (hpo : po = A.length) (hpc : pc = po + 1 + M.length) (hlen : M'.length = M.length)
    (ho : o'.pair = some pc) (hc : c'.pair = some po)
    (inner : ∀ (P' S' : List Entry), P'.length = po + 1 →
      (List.range' (po + 1) M.length).foldl (ruleStep1 r) (P' ++ M ++ S') = P' ++ M' ++ S') :
    ([po] ++ List.range' (po + 1) M.length ++ [pc]).foldl (ruleStep1 r) (A ++ o' :: M ++ c' :: S) =
      A ++ (if entryOk r o' && entryOk r c' then o' else inv o') :: M' ++
        (if entryOk r o' && entryOk r c' then c' else inv c') :: S := by
  simp only [List.foldl_append, List.foldl_cons, List.foldl_nil]
  -- step at the open tag
  have hpcM : pc = (A ++ o' :: M).length := by simp [hpc, hpo]; omega
  have step1 : ruleStep1 r (A ++ o' :: M ++ c' :: S) po =
      A ++ (if entryOk r o' then o' else inv o') :: M ++ (if entryOk r o' then c' else inv c') :: S := by
    unfold ruleStep1
    rw [show A ++ o' :: M ++ c' :: S = A ++ o' :: (M ++ c' :: S) by simp, getElem?_at_length_append _ _ _ _ hpo]
    simp only
    by_cases hok : entryOk r o' = true
    · simp [hok]
    · have hok' : entryOk r o' = false := by simpa using hok
      simp only [hok', Bool.false_eq_true, if_false, ho, setTy]
      rw [show A ++ o' :: (M ++ c' :: S) = (A ++ o' :: M) ++ c' :: S by simp,
        modify_at_length_append _ _ _ _ _ hpcM]
      rw [show A ++ o' :: M ++ (fun e => ({ e with ty := Ty.invalid } : Entry)) c' :: S =
        A ++ o' :: (M ++ inv c' :: S) by simp [inv], modify_at_length_append _ _ _ _ _ hpo]
      simp [inv]
  rw [step1]
  -- the middle part
  have step2 := inner (A ++ [if entryOk r o' then o' else inv o']) ((if entryOk r o' then c' else inv c') :: S)
    (by simp [hpo])
  simp only [List.append_assoc, List.cons_append, List.nil_append] at step2 ⊢
  rw [step2]
  -- step at the close tag
  have hpcM' : pc = (A ++ (if entryOk r o' then o' else inv o') :: M').length := by simp [hpc, hpo, hlen]; omega
  unfold ruleStep1
  rw [show A ++ (if entryOk r o' = true then o' else inv o') :: (M' ++ (if entryOk r o' = true then c' else inv c') :: S) =
    (A ++ (if entryOk r o' = true then o' else inv o') :: M') ++ (if entryOk r o' = true then c' else inv c') :: S by simp,
    getElem?_at_length_append _ _ _ _ hpcM']
  simp only
  by_cases hok : entryOk r o' = true
  · simp only [hok, if_true, Bool.true_and]
    by_cases hokc : entryOk r c' = true
    · simp [hokc]
    · have hokc' : entryOk r c' = false := by simpa using hokc
      simp only [hokc', Bool.false_eq_true, if_false, hc, setTy]
      rw [show A ++ o' :: M' ++ c' :: S = A ++ o' :: (M' ++ c' :: S) by simp, modify_at_length_append _ _ _ _ _ hpo]
      rw [show A ++ (fun e => ({ e with ty := Ty.invalid } : Entry)) o' :: (M' ++ c' :: S) =
        (A ++ inv o' :: M') ++ c' :: S by simp [inv],
        modify_at_length_append _ _ _ _ _ (by simp [hpc, hpo, hlen]; omega)]
      simp [inv]
  · have hok' : entryOk r o' = false := by simpa using hok
    simp only [hok', Bool.false_eq_true, if_false, Bool.false_and, entryOk_inv, inv_pair, hc, setTy]
    rw [show A ++ inv o' :: M' ++ inv c' :: S = A ++ inv o' :: (M' ++ inv c' :: S) by simp,
      modify_at_length_append _ _ _ _ _ hpo]
    rw [show A ++ (fun e => ({ e with ty := Ty.invalid } : Entry)) (inv o') :: (M' ++ inv c' :: S) =
      (A ++ inv o' :: M') ++ inv c' :: S by simp [inv],
      modify_at_length_append _ _ _ _ _ (by simp [hpc, hpo, hlen]; omega)]
    simp [inv]

theorem range'_split3 (b n1 n2 : Nat) : List.range' b (n1 + 1 + n2 + 1) =
    List.range' b n1 ++ ([b + n1] ++ List.range' (b + n1 + 1) n2 ++ [b + n1 + 1 + n2]) := by
  rw [List.range'_1_concat, ← List.range'_append_1 (s := b) (m := n1 + 1) (n := n2), List.range'_1_concat]
  simp [Nat.add_assoc]

theorem finalEntry_pair (r : Rules) (eo ec : Entry) (po pc : Nat) :
    finalEntry (pairF r eo ec po pc).1 =
      (if entryOk r (pairF r eo ec po pc).1.1 && entryOk r (pairF r eo ec po pc).2.1 then (pairF r eo ec po pc).1.1
        else inv (pairF r eo ec po pc).1.1) ∧
    finalEntry (pairF r eo ec po pc).2 =
      (if entryOk r (pairF r eo ec po pc).1.1 && entryOk r (pairF r eo ec po pc).2.1 then (pairF r eo ec po pc).2.1
        else inv (pairF r eo ec po pc).2.1) := by
  simp only [pairF, finalEntry, inv]
  by_cases h : (entryOk r { eo with pair := some pc } && entryOk r { ec with pair := some po }) = true
  · simp [h]
  · have h' : (entryOk r { eo with pair := some pc } && entryOk r { ec with pair := some po }) = false := by simpa using h
    simp [h']

theorem ruleLoop_good {r : Rules} {xhtml : Bool} {b : Nat} {ins : List Entry} {outs : List FEntry}
    (h : Good r xhtml b ins outs) : ∀ (P S : List Entry), P.length = b →
    (List.range' b outs.length).foldl (ruleStep1 r) (P ++ outs.map Prod.fst ++ S) = P ++ outs.map finalEntry ++ S := by
  induction h with
  | nil b => intro P S _; simp
  | leaf b ins outs e x g hp hl ih =>
    intro P S hP
    obtain ⟨e', hx, hxp⟩ := leafOut_facts hl
    subst hx
    simp only [List.length_append, List.length_cons, List.length_nil, List.range'_1_concat, List.foldl_append,
      List.map_append, List.map_cons, List.map_nil, List.foldl_cons, List.foldl_nil, Nat.zero_add]
    have := ih P ((leafF r e').1 :: S) hP
    simp only [List.append_assoc, List.cons_append, List.nil_append] at this ⊢
    rw [this]
    -- the step at the leaf's own position
    have hpos : (P ++ outs.map finalEntry).length = b + outs.length := by simp [hP]
    rw [← List.append_assoc, ← hpos]
    unfold ruleStep1
    rw [getElem?_append_cons_length]
    simp only
    rw [finalEntry_leaf]
    simp only [leafF]
    by_cases hok : entryOk r e' = true
    · simp only [hok, if_true, List.append_assoc]
    · have hok' : entryOk r e' = false := by simpa using hok
      simp only [hok', Bool.false_eq_true, if_false]
      have hnone : e'.pair = none := hxp.trans hp
      simp only [hnone, setTy]
      rw [modify_append_cons]
      simp [hnone]
  | pair b i1 o1 i2 o2 eo ec g1 g2 ho hc hpo hpc hs ih1 ih2 =>
    intro P S hP
    have hl1 := g1.length_eq
    have hl2 := g2.length_eq
    have hlen : (o1 ++ (pairF r eo ec (b + o1.length) (b + o1.length + 1 + o2.length)).1 :: o2 ++
        [(pairF r eo ec (b + o1.length) (b + o1.length + 1 + o2.length)).2]).length = o1.length + 1 + o2.length + 1 := by
      simp; omega
    have hrange := range'_split3 b o1.length o2.length
    rw [hlen]
    rw [hrange, List.foldl_append]
    have h1 := ih1 P ((pairF r eo ec (b + o1.length) (b + o1.length + 1 + o2.length)).1.1 :: o2.map Prod.fst ++
      (pairF r eo ec (b + o1.length) (b + o1.length + 1 + o2.length)).2.1 :: S) hP
    simp only [List.map_append, List.map_cons, List.map_nil, List.append_assoc, List.cons_append, List.nil_append] at h1 ⊢
    rw [h1]
    have := pair_steps r (P ++ o1.map finalEntry) (pairF r eo ec (b + o1.length) (b + o1.length + 1 + o2.length)).1.1
      (pairF r eo ec (b + o1.length) (b + o1.length + 1 + o2.length)).2.1 (o2.map Prod.fst) (o2.map finalEntry) S
      (b + o1.length) (b + o1.length + 1 + o2.length) (by simp [hP]) (by simp) (by simp) rfl rfl
      (by
        intro P' S' hP'
        have := ih2 P' S' hP'
        simpa using this)
    simp only [List.length_map, List.append_assoc, List.cons_append, List.nil_append] at this
    rw [this]
    obtain ⟨f1, f2⟩ := finalEntry_pair r eo ec (b + o1.length) (b + o1.length + 1 + o2.length)
    rw [f1, f2]

/-- the rules loop turns the entry components of a `Good` run into its final entries -/
theorem ruleLoop_runF (r : Rules) (xhtml : Bool) (es : List Entry) (hp : ∀ e ∈ es, e.pair = none) :
    ((List.range ((runF r xhtml es).map Prod.fst).length).foldl (ruleStep r) ((runF r xhtml es).map Prod.fst, true)).1 =
      (runF r xhtml es).map finalEntry := by
  rw [ruleFold_fst, List.range_eq_range']
  have := ruleLoop_good (runF_good r xhtml es hp) [] [] rfl
  simpa using this

theorem parsePart_pair (p : Bytes × Ty) : (parsePart p).pair = none := by
  unfold parsePart
  split <;> rfl

theorem parseAll_pair (x : Bytes) : ∀ e ∈ parseAll x, e.pair = none := by
  intro e he
  unfold parseAll at he
  obtain ⟨p, _, rfl⟩ := List.mem_map.mp he
  exact parsePart_pair p

/-- what `validate_and_filter_if_invalid` holds after its rules loop = the final entries of the frames run -/
theorem analyse_eq_runF (r : Rules) (x : Bytes) :
    (analyse r x).1 = (runF r r.xhtml (parseAll x)).map finalEntry := by
  unfold analyse
  simp only
  rw [validateNesting_eq_runF r r.xhtml (parseAll x)]
  exact ruleLoop_runF r r.xhtml (parseAll x) (parseAll_pair x)

/-- `validate` in terms of the frames run -/
theorem validate_iff_runF (r : Rules) (y : Bytes) :
    validate r y = true ↔
      (∀ e ∈ parseAll y, e.ty ≠ .invalid) ∧
      (∀ p ∈ runF r r.xhtml (parseAll y), p.1.ty ≠ .invalid ∧ entryOk r p.1 = true) := by
  unfold validate
  simp only
  rw [validateNesting_eq_runF r r.xhtml (parseAll y)]
  constructor
  · intro h
    split at h
    · cases h
    rename_i h1
    split at h
    · cases h
    rename_i h2
    refine ⟨?_, ?_⟩
    · intro e he hc
      apply h1
      simp only [List.any_eq_true]
      exact ⟨e, he, by simp [isInvalid, hc]⟩
    · intro p hp
      refine ⟨?_, ?_⟩
      · intro hc
        apply h2
        simp only [List.any_eq_true, List.mem_map]
        exact ⟨p.1, ⟨p, hp, rfl⟩, by simp [isInvalid, hc]⟩
      · rw [List.all_eq_true] at h
        exact h p.1 (List.mem_map.mpr ⟨p, hp, rfl⟩)
  · intro ⟨h1, h2⟩
    have e1 : (parseAll y).any isInvalid = false := by
      rw [Bool.eq_false_iff]
      intro hc
      simp only [List.any_eq_true] at hc
      obtain ⟨e, he, hi⟩ := hc
      exact h1 e he (by simpa [isInvalid] using hi)
    have e2 : ((runF r r.xhtml (parseAll y)).map Prod.fst).any isInvalid = false := by
      rw [Bool.eq_false_iff]
      intro hc
      simp only [List.any_eq_true, List.mem_map] at hc
      obtain ⟨e, ⟨p, hp, rfl⟩, hi⟩ := hc
      exact (h2 p hp).1 (by simpa [isInvalid] using hi)
    simp only [e1, e2, Bool.false_eq_true, if_false]
    rw [List.all_eq_true]
    intro e he
    obtain ⟨p, hp, rfl⟩ := List.mem_map.mp he
    exact (h2 p hp).2
end Cppcms.C04
