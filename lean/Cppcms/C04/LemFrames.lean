import Cppcms.C04.Frames
import Cppcms.C04.LemRules
/-! C04 lemmas, part 8: validate_nesting (index/stack form of the model) computes exactly the entry components of
the frames form `runF` (simulation of the two loops, including HTML's pop-until-found). -/
namespace Cppcms.C04
open Cppcms

/-! ### flat lists of frames -/

theorem flatF_append (fs : List Frame) (a b : List FEntry) : flatF fs (a ++ b) = flatF fs a ++ b := by
  induction fs generalizing a with
  | nil => rfl
  | cons f fs ih =>
    simp only [flatF, List.foldl_cons] at ih ⊢
    rw [show f.before ++ (f.opn, false) :: (a ++ b) = (f.before ++ (f.opn, false) :: a) ++ b by simp]
    exact ih _

theorem flatF_cons (f : Frame) (fs : List Frame) (cur : List FEntry) :
    flatF (f :: fs) cur = flatF fs f.before ++ (f.opn, false) :: cur := by
  have : flatF (f :: fs) cur = flatF fs (f.before ++ (f.opn, false) :: cur) := rfl
  rw [this, flatF_append]

@[simp] theorem flatF_nil (cur : List FEntry) : flatF [] cur = cur := rfl

/-- absolute positions of the pending open tags, innermost first -/
def posList : List Frame → List Nat
  | [] => []
  | f :: fs => (flatF fs f.before).length :: posList fs

theorem modify_append_cons {α : Type} (A : List α) (x : α) (B : List α) (g : α → α) :
    (A ++ x :: B).modify A.length g = A ++ g x :: B := by
  induction A with
  | nil => simp
  | cons a A ih => simp [ih]

theorem modify_append_right {α : Type} (A B : List α) (k : Nat) (g : α → α) :
    (A ++ B).modify (A.length + k) g = A ++ B.modify k g := by
  induction A with
  | nil => simp
  | cons a A ih =>
    simp only [List.cons_append, List.length_cons]
    rw [show A.length + 1 + k = (A.length + k) + 1 by omega]
    simp [ih]

theorem getElem?_append_cons_length {α : Type} (A : List α) (x : α) (B : List α) :
    (A ++ x :: B)[A.length]? = some x := by
  simp

/-- the entries of the model's array at a point where the frames are `frames`/`cur` and `todo` is unprocessed -/
def arrOf (frames : List Frame) (cur : List FEntry) (todo : List Entry) : List Entry :=
  (flatF frames cur).map Prod.fst ++ todo

theorem arrOf_length_flat (frames : List Frame) (cur : List FEntry) :
    ((flatF frames cur).map Prod.fst).length = (flatF frames cur).length := by simp

theorem finalEntry_fst_ty (p : FEntry) (h : p.2 = false) : finalEntry p = p.1 := by
  simp [finalEntry, h]

/-! ### `validate_nesting` = the frames form (entries incl. `pair`, ignoring the verdict component) -/

theorem arrOf_get_cur (frames : List Frame) (cur : List FEntry) (e : Entry) (todo : List Entry) :
    (arrOf frames cur (e :: todo))[(flatF frames cur).length]? = some e := by
  unfold arrOf
  rw [← arrOf_length_flat]
  exact getElem?_append_cons_length _ _ _

/-- modifying the entry being processed -/
theorem arrOf_modify_cur (frames : List Frame) (cur : List FEntry) (e : Entry) (todo : List Entry) (g : Entry → Entry) :
    (arrOf frames cur (e :: todo)).modify (flatF frames cur).length g =
      (flatF frames cur).map Prod.fst ++ g e :: todo := by
  unfold arrOf
  rw [← arrOf_length_flat]
  exact modify_append_cons _ _ _ _

theorem arrOf_cons_split (f : Frame) (fs : List Frame) (cur : List FEntry) (todo : List Entry) :
    arrOf (f :: fs) cur todo =
      (flatF fs f.before).map Prod.fst ++ f.opn :: (cur.map Prod.fst ++ todo) := by
  unfold arrOf
  rw [flatF_cons]
  simp

theorem nameAt_top (f : Frame) (fs : List Frame) (cur : List FEntry) (todo : List Entry) :
    nameAt (arrOf (f :: fs) cur todo) (flatF fs f.before).length = f.opn.name := by
  unfold nameAt
  rw [arrOf_cons_split, ← arrOf_length_flat, getElem?_append_cons_length]
  rfl

/-- modifying the innermost pending open tag -/
theorem arrOf_modify_top (f : Frame) (fs : List Frame) (rest : List Entry) (g : Entry → Entry) :
    ((flatF fs f.before).map Prod.fst ++ f.opn :: rest).modify (flatF fs f.before).length g =
      (flatF fs f.before).map Prod.fst ++ g f.opn :: rest := by
  rw [← arrOf_length_flat]
  exact modify_append_cons _ _ _ _

theorem length_flat_cons (f : Frame) (fs : List Frame) (cur : List FEntry) :
    (flatF (f :: fs) cur).length = (flatF fs f.before).length + 1 + cur.length := by
  rw [flatF_cons]; simp; omega

/-- the state of the model's nesting loop that corresponds to a frames state -/
def idxState (frames : List Frame) (cur : List FEntry) (todo : List Entry) : List Entry × List Nat :=
  (arrOf frames cur todo, posList frames)

theorem arrOf_snoc (frames : List Frame) (cur : List FEntry) (x : FEntry) (todo : List Entry) :
    arrOf frames (cur ++ [x]) todo = (flatF frames cur).map Prod.fst ++ x.1 :: todo := by
  unfold arrOf
  rw [flatF_append]
  simp

theorem nestStep_xhtml_sim (r : Rules) (frames : List Frame) (cur : List FEntry) (e : Entry) (todo : List Entry) :
    nestStep true (idxState frames cur (e :: todo)) (flatF frames cur).length =
      idxState (stepF r true (frames, cur) e).1 (stepF r true (frames, cur) e).2 todo := by
  unfold nestStep idxState
  simp only [arrOf_get_cur]
  unfold stepF
  cases hty : e.ty <;> simp only [if_true]
  case openTag =>
    simp only [posList, flatF_nil]
    congr 1
    unfold arrOf
    show _ = (flatF (⟨cur, e⟩ :: frames) []).map Prod.fst ++ todo
    rw [flatF_cons]
    simp
  case closeTag =>
    cases frames with
    | nil =>
      simp only [posList, flatF_nil, setTy]
      rw [show cur.length = (flatF [] cur).length from rfl, arrOf_modify_cur, arrOf_snoc]
      simp [leafF]
    | cons f fs =>
      simp only [posList, nameAt_top]
      split
      · -- names match
        simp only [setPair]
        rw [arrOf_modify_cur, flatF_cons]
        simp only [List.map_append, List.map_cons, List.append_assoc, List.cons_append]
        rw [arrOf_modify_top]
        congr 1
        unfold arrOf
        simp [pairF, flatF_append]
      · simp only [setTy]
        rw [arrOf_modify_cur, flatF_cons]
        simp only [List.map_append, List.map_cons, List.append_assoc, List.cons_append]
        rw [arrOf_modify_top]
        congr 1
        unfold arrOf
        simp [leafF, flatF_append]
  all_goals
    simp only [arrOf_snoc, leafF]
    rfl

theorem popUntil_sim (r : Rules) (e : Entry) (todo : List Entry) :
    ∀ (frames : List Frame) (cur : List FEntry) (i : Nat), i = (flatF frames cur).length →
    popUntil (arrOf frames cur (e :: todo)) i e.name (posList frames) =
      idxState (popF r e i frames cur).1 (popF r e i frames cur).2 todo := by
  intro frames
  induction frames with
  | nil =>
    intro cur i hi
    subst hi
    simp only [posList, popUntil, popF, idxState, setTy]
    rw [arrOf_modify_cur, arrOf_snoc]
    simp [leafF]
  | cons f fs ih =>
    intro cur i hi
    simp only [posList, popUntil, popF, nameAt_top]
    split
    · subst hi
      simp only [setPair, idxState]
      rw [arrOf_modify_cur, flatF_cons]
      simp only [List.map_append, List.map_cons, List.append_assoc, List.cons_append]
      rw [arrOf_modify_top]
      congr 1
      unfold arrOf
      simp [pairF, flatF_append]
    · have hmod : setTy (arrOf (f :: fs) cur (e :: todo)) (flatF fs f.before).length .openCloseNoSlash =
          arrOf fs (f.before ++ leafF r { f.opn with ty := .openCloseNoSlash } :: cur) (e :: todo) := by
        unfold setTy
        rw [arrOf_cons_split, arrOf_modify_top]
        unfold arrOf
        simp [leafF, flatF_append]
      rw [hmod]
      apply ih
      rw [hi, flatF_cons, flatF_append]
      simp

theorem nestStep_html_sim (r : Rules) (frames : List Frame) (cur : List FEntry) (e : Entry) (todo : List Entry) :
    nestStep false (idxState frames cur (e :: todo)) (flatF frames cur).length =
      idxState (stepF r false (frames, cur) e).1 (stepF r false (frames, cur) e).2 todo := by
  unfold nestStep idxState
  simp only [arrOf_get_cur]
  unfold stepF
  cases hty : e.ty <;> simp only [Bool.false_eq_true, if_false]
  case openTag =>
    simp only [posList]
    congr 1
    unfold arrOf
    show _ = (flatF (⟨cur, e⟩ :: frames) []).map Prod.fst ++ todo
    rw [flatF_cons]
    simp
  case closeTag =>
    exact popUntil_sim r e todo frames cur _ rfl
  all_goals
    simp only [arrOf_snoc, leafF]
    rfl

theorem nestStep_sim (r : Rules) (xhtml : Bool) (frames : List Frame) (cur : List FEntry) (e : Entry) (todo : List Entry) :
    nestStep xhtml (idxState frames cur (e :: todo)) (flatF frames cur).length =
      idxState (stepF r xhtml (frames, cur) e).1 (stepF r xhtml (frames, cur) e).2 todo := by
  cases xhtml
  · exact nestStep_html_sim r frames cur e todo
  · exact nestStep_xhtml_sim r frames cur e todo

theorem popUntil_length (i : Nat) (cur : Bytes) : ∀ (st : List Nat) (es : List Entry),
    (popUntil es i cur st).1.length = es.length := by
  intro st
  induction st with
  | nil => intro es; simp [popUntil, setTy]
  | cons top st ih =>
    intro es
    unfold popUntil
    split
    · simp [setPair]
    · rw [ih]; simp [setTy]

theorem nestStep_length (xhtml : Bool) (s : List Entry × List Nat) (i : Nat) :
    (nestStep xhtml s i).1.length = s.1.length := by
  unfold nestStep
  split
  · rfl
  · split
    · split
      · split
        · simp [setTy]
        · split <;> simp [setTy, setPair]
      · exact popUntil_length _ _ _ _
    · rfl
    · rfl

theorem stepF_length (r : Rules) (xhtml : Bool) (frames : List Frame) (cur : List FEntry) (e : Entry) :
    (flatF (stepF r xhtml (frames, cur) e).1 (stepF r xhtml (frames, cur) e).2).length = (flatF frames cur).length + 1 := by
  have h := congrArg (fun s => s.1.length) (nestStep_sim r xhtml frames cur e [])
  simp only [nestStep_length] at h
  simp only [idxState, arrOf, List.length_append, List.length_map, List.length_cons, List.length_nil] at h
  omega

theorem nestFold_sim (r : Rules) (xhtml : Bool) : ∀ (todo : List Entry) (frames : List Frame) (cur : List FEntry),
    (List.range' (flatF frames cur).length todo.length).foldl (nestStep xhtml) (idxState frames cur todo) =
      idxState (todo.foldl (stepF r xhtml) (frames, cur)).1 (todo.foldl (stepF r xhtml) (frames, cur)).2 [] := by
  intro todo
  induction todo with
  | nil => intro frames cur; simp [List.range']
  | cons e todo ih =>
    intro frames cur
    simp only [List.length_cons, List.range'_succ, List.foldl_cons]
    rw [nestStep_sim r]
    rw [← stepF_length r xhtml frames cur e]
    exact ih _ _

theorem finish_sim (r : Rules) (t : Ty) : ∀ (frames : List Frame) (cur : List FEntry),
    (posList frames).foldl (fun es top => setTy es top t) (arrOf frames cur []) =
      (frames.foldl (fun acc f => f.before ++ leafF r { f.opn with ty := t } :: acc) cur).map Prod.fst := by
  intro frames
  induction frames with
  | nil => intro cur; simp [posList, arrOf]
  | cons f fs ih =>
    intro cur
    simp only [posList, List.foldl_cons]
    have hmod : setTy (arrOf (f :: fs) cur []) (flatF fs f.before).length t =
        arrOf fs (f.before ++ leafF r { f.opn with ty := t } :: cur) [] := by
      unfold setTy
      rw [arrOf_cons_split, arrOf_modify_top]
      unfold arrOf
      simp [leafF, flatF_append]
    rw [hmod]
    exact ih _

/-- `validate_nesting` computes the entry components of the frames form -/
theorem validateNesting_eq_runF (r : Rules) (xhtml : Bool) (es : List Entry) :
    validateNesting xhtml es = (runF r xhtml es).map Prod.fst := by
  unfold validateNesting runF finishF
  have h := nestFold_sim r xhtml es [] []
  simp only [flatF_nil, List.length_nil] at h
  rw [List.range_eq_range']
  have h0 : idxState [] [] es = (es, []) := by simp [idxState, arrOf, posList]
  rw [h0] at h
  rw [h]
  simp only [idxState]
  exact finish_sim r _ _ _
end Cppcms.C04
