import Cppcms.C04.LemHtml
/-! C04 lemmas, part 14: tokens concatenate to the text; the composition with a declared (ASCII-compatible) encoding:
clause 4, clause 1 under `EncOk`, and `EncOk` for every single-byte charset validator. -/
namespace Cppcms.C04
open Cppcms

/-! ### the tokens of a text concatenate to the text -/

theorem split_concat : ∀ (n : Nat) (x : Bytes), x.length ≤ n → (split x).flatMap Prod.fst = x := by
  intro n
  induction n with
  | zero =>
    intro x hx
    have : x = [] := List.eq_nil_of_length_eq_zero (by omega)
    subst this; simp
  | succ n ih =>
    intro x hx
    cases x with
    | nil => simp
    | cons c rest =>
      simp only [List.length_cons] at hx
      rw [split_cons]
      split
      · split
        · simp
        · rename_i k hk
          simp only [List.flatMap_cons, ih _ (by simp; omega : (rest.drop (k + 1)).length ≤ n)]
          simp
      split
      · split
        · split
          · simp
          · split
            · rename_i j _ _
              simp only [List.flatMap_cons, ih _ (by simp; omega : (rest.drop (3 + j + 3)).length ≤ n)]
              simp
            · simp
        · split
          · simp
          · rename_i k hk
            simp only [List.flatMap_cons, ih _ (by simp; omega : (rest.drop (k + 1)).length ≤ n)]
            simp
      split
      · simp only [List.flatMap_cons, ih rest (by omega)]
        simp
      · have := (List.dropWhile_sublist (l := rest) (fun b => !isSpecial b)).length_le
        simp only [List.flatMap_cons, ih _ (by omega : (rest.dropWhile (fun b => !isSpecial b)).length ≤ n)]
        simp

theorem parseAll_texts (x : Bytes) : (parseAll x).flatMap (·.text) = x := by
  unfold parseAll
  rw [List.flatMap_map]
  have : (fun a => (parsePart a).text) = Prod.fst := by
    funext tok; exact parsePart_text tok
  rw [this]
  exact split_concat x.length x (Nat.le_refl _)

/-! ### valid input: the rules loop changes nothing, rendering gives the input back -/

theorem ruleFold_unchanged (r : Rules) (es : List Entry) : ∀ (is : List Nat), is.all (okAt r es) = true →
    is.foldl (ruleStep r) (es, true) = (es, true) := by
  intro is
  induction is with
  | nil => intro _; rfl
  | cons i is ih =>
    intro h
    simp only [List.all_cons, Bool.and_eq_true] at h
    have : ruleStep r (es, true) i = (es, true) := by
      unfold ruleStep
      have h1 := h.1
      unfold okAt at h1
      cases h2 : es[i]? <;> simp [h2] at h1 ⊢
      simp [h1]
    simp only [List.foldl_cons, this]
    exact ih h.2

theorem listRel_texts {xhtml : Bool} {es es' : List Entry} (h : ListRel xhtml es es') :
    es'.map (·.text) = es.map (·.text) := by
  apply List.ext_getElem?
  intro i
  simp only [List.getElem?_map]
  cases hi : es[i]? with
  | none =>
    have : es'[i]? = none := by
      rw [List.getElem?_eq_none_iff] at hi ⊢
      rw [h.1]; exact hi
    simp [this]
  | some e =>
    obtain ⟨e', he', hr⟩ := h.2 i e hi
    simp [he', hr.1]

theorem render_of_valid (r : Rules) (m : Method) (y : Bytes) (hv : validate r y = true) :
    render m (analyse r y).1 = y := by
  have hv' := hv
  unfold validate at hv
  simp only at hv
  split at hv
  · cases hv
  rename_i h1
  split at hv
  · cases hv
  rename_i h2
  have hall : (List.range (validateNesting r.xhtml (parseAll y)).length).all
      (okAt r (validateNesting r.xhtml (parseAll y))) = true := by
    rw [all_range_okAt]; exact hv
  have hfin : (analyse r y).1 = validateNesting r.xhtml (parseAll y) := by
    unfold analyse
    simp only
    rw [ruleFold_unchanged r _ _ hall]
  rw [hfin]
  have hnoinv : ∀ e ∈ validateNesting r.xhtml (parseAll y), isInvalid e = false := by
    intro e he
    have : ¬ (validateNesting r.xhtml (parseAll y)).any isInvalid = true := h2
    simp only [List.any_eq_true, not_exists, not_and] at this
    simpa using this e he
  have hren : render m (validateNesting r.xhtml (parseAll y)) =
      (validateNesting r.xhtml (parseAll y)).flatMap (·.text) := by
    unfold render
    rw [List.flatMap_def, List.flatMap_def]
    congr 1
    apply List.map_congr_left
    intro e he
    unfold renderEntry
    simp [hnoinv e he]
  rw [hren]
  have := listRel_texts (validateNesting_rel r.xhtml (parseAll y))
  rw [List.flatMap_def, this, ← List.flatMap_def, parseAll_texts]

theorem render_eq_filter (r : Rules) (m : Method) (y : Bytes) : render m (analyse r y).1 = filter r m y := by
  by_cases hv : validate r y = true
  · rw [render_of_valid r m y hv, valid_is_fixed_point r m y hv]
  · unfold filter validateAndFilter
    simp only
    rw [analyse_flag]
    simp [hv]

/-! ### with a declared encoding -/

/-- what the encoding validator must satisfy for the composition: the pre-filter produces valid text, and the
markup filter keeps valid text valid (it only removes whole tokens, which end at ASCII bytes, or inserts ASCII) -/
structure EncOk (e : Enc) (r : Rules) : Prop where
  prefilter_valid : ∀ x, e.valid x = false → e.valid (e.prefilter x) = true
  filter_keeps : ∀ m y, e.valid y = true → e.valid (filter r m y) = true

theorem filterE_eq (e : Enc) (r : Rules) (m : Method) (x : Bytes) :
    filterE (some e) r m x = filter r m (if e.valid x then x else e.prefilter x) := by
  unfold filterE validateAndFilterE
  by_cases hv : e.valid x = true
  · simp only [hv, if_true]
    rfl
  · simp only [hv, Bool.false_eq_true, if_false]
    exact render_eq_filter r m _

/-- clause 4: validation never accepts text that the encoding validator rejects -/
theorem validateE_encoding (e : Enc) (r : Rules) (x : Bytes) (h : validateE (some e) r x = true) : e.valid x = true := by
  simp only [validateE, Bool.and_eq_true] at h
  exact h.1

/-- clause 1 with a declared encoding -/
theorem filterE_validates_all (r : Rules) (hr : RulesOk r) (hc : r.xhtml = false → HtmlCaseOk r) (e : Enc) (he : EncOk e r)
    (m : Method) (x : Bytes) : validateE (some e) r (filterE (some e) r m x) = true := by
  rw [filterE_eq]
  simp only [validateE, Bool.and_eq_true]
  refine ⟨?_, filter_validates_all r hr hc m _⟩
  apply he.filter_keeps
  by_cases hv : e.valid x = true
  · simp [hv]
  · have hv' : e.valid x = false := by simpa using hv
    simp only [hv', Bool.false_eq_true, if_false]
    exact he.prefilter_valid x hv'

/-! ### single-byte charsets satisfy `EncOk` -/

/-- bytes the escape table can introduce -/
def escAlphabet : Bytes := [38, 108, 116, 59, 103, 97, 109, 112, 113, 117, 111]

theorem escapeByte_mem (c b : UInt8) (h : b ∈ escapeByte c) : b = c ∨ b ∈ escAlphabet := by
  rcases escapeByte_cases c with ⟨_, e⟩ | ⟨_, e⟩ | ⟨_, e⟩ | ⟨_, e⟩ | ⟨e, _⟩ <;> rw [e] at h
  · right; revert h; simp [escAlphabet]; intro h; rcases h with h | h | h | h <;> simp [h]
  · right; revert h; simp [escAlphabet]; intro h; rcases h with h | h | h | h <;> simp [h]
  · right; revert h; simp [escAlphabet]; intro h; rcases h with h | h | h | h | h <;> simp [h]
  · right; revert h; simp [escAlphabet]; intro h; rcases h with h | h | h | h | h | h <;> simp [h]
  · left; simpa using h

theorem render_bytes (m : Method) (F : List Entry) (b : UInt8) (h : b ∈ render m F) :
    b ∈ F.flatMap (·.text) ∨ b ∈ escAlphabet := by
  unfold render at h
  simp only [List.mem_flatMap] at h ⊢
  obtain ⟨e, he, hb⟩ := h
  unfold renderEntry at hb
  split at hb
  · cases m with
    | remove => simp at hb
    | escape =>
      simp only [List.mem_flatMap] at hb
      obtain ⟨c, hc, hbc⟩ := hb
      rcases escapeByte_mem c b hbc with rfl | h
      · exact Or.inl ⟨e, he, hc⟩
      · exact Or.inr h
  · exact Or.inl ⟨e, he, hb⟩

theorem alignedL_texts {r : Rules} : ∀ {ins : List Entry} {outs : List FEntry}, AlignedL r ins outs →
    (outs.map finalEntry).map (·.text) = ins.map (·.text) := by
  intro ins
  induction ins with
  | nil => intro outs h; cases outs <;> simp_all [AlignedL]
  | cons e ins ih =>
    intro outs h
    cases outs with
    | nil => simp [AlignedL] at h
    | cons p ps =>
      obtain ⟨ha, hr⟩ := h
      simp only [List.map_cons, ih hr]
      congr 1
      unfold finalEntry
      split <;> exact ha.1

theorem final_texts (r : Rules) (y : Bytes) : (analyse r y).1.flatMap (·.text) = y := by
  rw [analyse_eq_runF, List.flatMap_def, alignedL_texts (good_aligned (runF_good r r.xhtml (parseAll y) (parseAll_pair y))),
    ← List.flatMap_def, parseAll_texts]

theorem byteEnc_ok (ok : UInt8 → Bool) (repl : UInt8) (r : Rules) (hesc : ∀ b ∈ escAlphabet, ok b = true)
    (hrepl : repl = 0 ∨ ok repl = true) : EncOk (byteEnc ok repl) r := by
  constructor
  · intro x _
    simp only [byteEnc, List.all_eq_true, List.mem_flatMap]
    intro b ⟨c, _, hb⟩
    by_cases hc : ok c = true
    · simp [hc] at hb; rw [hb]; exact hc
    · simp only [hc, Bool.false_eq_true, if_false] at hb
      rcases hrepl with h0 | h1
      · simp [h0] at hb
      · split at hb
        · simp at hb
        · simp at hb; rw [hb]; exact h1
  · intro m y hy
    simp only [byteEnc, List.all_eq_true] at hy ⊢
    intro b hb
    rw [← render_eq_filter] at hb
    rcases render_bytes m _ b hb with h | h
    · rw [final_texts] at h; exact hy b h
    · exact hesc b h
end Cppcms.C04
