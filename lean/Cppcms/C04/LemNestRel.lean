import Cppcms.C04.Model
/-! C04 lemmas, part 4: what validate_nesting may do to an entry (weak invariant: text, name, attributes
are untouched; a type stays, becomes invalid, or - HTML only, open tags only - open_and_close_tag_without_slash). -/
namespace Cppcms.C04
open Cppcms

/-- what `validate_nesting` may do to a type -/
def TyRel (xhtml : Bool) (t t' : Ty) : Prop :=
  t' = t ∨ t' = .invalid ∨ (xhtml = false ∧ t = .openTag ∧ t' = .openCloseNoSlash)

def EntRel (xhtml : Bool) (e e' : Entry) : Prop :=
  e'.text = e.text ∧ e'.name = e.name ∧ e'.props = e.props ∧ TyRel xhtml e.ty e'.ty

def ListRel (xhtml : Bool) (es es' : List Entry) : Prop :=
  es'.length = es.length ∧ ∀ (i : Nat) (e0 : Entry), es[i]? = some e0 → ∃ e, es'[i]? = some e ∧ EntRel xhtml e0 e

theorem ListRel.refl (xhtml : Bool) (es : List Entry) : ListRel xhtml es es :=
  ⟨rfl, fun _ e0 h => ⟨e0, h, rfl, rfl, rfl, Or.inl rfl⟩⟩

theorem ListRel.modify {xhtml : Bool} {es es' : List Entry} (h : ListRel xhtml es es') (j : Nat) (f : Entry → Entry)
    (hf : ∀ e0 e, es[j]? = some e0 → EntRel xhtml e0 e → EntRel xhtml e0 (f e)) :
    ListRel xhtml es (es'.modify j f) := by
  refine ⟨by rw [List.length_modify]; exact h.1, ?_⟩
  intro i e0 hi
  obtain ⟨e, he, hr⟩ := h.2 i e0 hi
  rw [List.getElem?_modify, he]
  by_cases hji : j = i
  · subst hji; exact ⟨f e, by simp, hf e0 e hi hr⟩
  · exact ⟨e, by simp [hji], hr⟩

theorem ListRel.setPair {xhtml : Bool} {es es' : List Entry} (h : ListRel xhtml es es') (i j : Nat) :
    ListRel xhtml es (setPair es' i j) :=
  h.modify i _ (fun _ _ _ hr => hr)

theorem ListRel.setInvalid {xhtml : Bool} {es es' : List Entry} (h : ListRel xhtml es es') (i : Nat) :
    ListRel xhtml es (setTy es' i .invalid) :=
  h.modify i _ (fun _ _ _ hr => ⟨hr.1, hr.2.1, hr.2.2.1, Or.inr (Or.inl rfl)⟩)

theorem ListRel.setNoSlash {es es' : List Entry} (h : ListRel false es es') (i : Nat)
    (ho : ∀ e0, es[i]? = some e0 → e0.ty = .openTag) :
    ListRel false es (setTy es' i .openCloseNoSlash) :=
  h.modify i _ (fun e0 _ he hr => ⟨hr.1, hr.2.1, hr.2.2.1, Or.inr (Or.inr ⟨rfl, ho e0 he, rfl⟩)⟩)

/-- invariant of the nesting loop: entries related to the originals, stack holds original open tags -/
def NestInv (xhtml : Bool) (es : List Entry) (s : List Entry × List Nat) : Prop :=
  ListRel xhtml es s.1 ∧ ∀ top ∈ s.2, ∀ e0, es[top]? = some e0 → e0.ty = .openTag

theorem popUntil_inv {es : List Entry} (i : Nat) (cur : Bytes) :
    ∀ (st : List Nat) (es' : List Entry), NestInv false es (es', st) → NestInv false es (popUntil es' i cur st) := by
  intro st
  induction st with
  | nil => intro es' h; exact ⟨h.1.setInvalid i, by simp [popUntil]⟩
  | cons top st ih =>
    intro es' h
    unfold popUntil
    split
    · exact ⟨(h.1.setPair i top).setPair top i, fun t ht => h.2 t (List.mem_cons_of_mem _ ht)⟩
    · apply ih
      exact ⟨h.1.setNoSlash top (h.2 top (List.mem_cons_self ..)), fun t ht => h.2 t (List.mem_cons_of_mem _ ht)⟩

theorem nestStep_inv {xhtml : Bool} {es : List Entry} (s : List Entry × List Nat) (i : Nat)
    (h : NestInv xhtml es s) : NestInv xhtml es (nestStep xhtml s i) := by
  unfold nestStep
  split
  · exact h
  · rename_i cur hcur
    split
    · split
      · rename_i hx
        split
        · exact ⟨h.1.setInvalid i, by simp⟩
        · rename_i top st hst
          have hmem : ∀ t ∈ st, ∀ e0, es[t]? = some e0 → e0.ty = .openTag := by
            intro t ht; apply h.2 t; rw [hst]; exact List.mem_cons_of_mem _ ht
          split
          · exact ⟨(h.1.setPair i top).setPair top i, hmem⟩
          · exact ⟨(h.1.setInvalid i).setInvalid top, hmem⟩
      · rename_i hx
        have hx' : xhtml = false := by simpa using hx
        subst hx'
        exact popUntil_inv i cur.name s.2 s.1 h
    · refine ⟨h.1, ?_⟩
      intro t ht e0 he0
      simp only [List.mem_cons] at ht
      rcases ht with rfl | ht
      · obtain ⟨e, he, hr⟩ := h.1.2 t e0 he0
        rw [hcur] at he
        simp at he; subst he
        rename_i hty
        rcases hr.2.2.2 with h1 | h1 | h1
        · rw [← h1]; exact hty
        · rw [h1] at hty; cases hty
        · rw [h1.2.2] at hty; cases hty
      · exact h.2 t ht e0 he0
    · exact h

theorem validateNesting_rel (xhtml : Bool) (es : List Entry) : ListRel xhtml es (validateNesting xhtml es) := by
  unfold validateNesting
  have h1 : ∀ (is : List Nat) (s : List Entry × List Nat), NestInv xhtml es s → NestInv xhtml es (is.foldl (nestStep xhtml) s) := by
    intro is
    induction is with
    | nil => intro s h; exact h
    | cons i is ih => intro s h; exact ih _ (nestStep_inv s i h)
  have h2 := h1 (List.range es.length) (es, []) ⟨ListRel.refl _ _, by simp⟩
  generalize (List.range es.length).foldl (nestStep xhtml) (es, []) = s at h2
  obtain ⟨es', st⟩ := s
  simp only
  induction st generalizing es' with
  | nil => exact h2.1
  | cons top st ih =>
    simp only [List.foldl_cons]
    apply ih
    refine ⟨?_, fun t ht => h2.2 t (List.mem_cons_of_mem _ ht)⟩
    cases xhtml with
    | true => exact h2.1.setInvalid top
    | false => exact h2.1.setNoSlash top (h2.2 top (List.mem_cons_self ..))
end Cppcms.C04
