import Cppcms.C04.LemRules
import Cppcms.C04.LemSplit
import Cppcms.C04.LemLenient
import Cppcms.C04.LemNestRel
/-! C04 lemmas, part 5: validate = true gives per-token facts; byte-class bridges between model and spec;
entity and comment tokens as seen by the lenient tokenizer. -/
namespace Cppcms.C04
open Cppcms

/-! ### from `validate = true` to facts about every token -/

theorem entryOk_congr (r : Rules) (e e' : Entry) (h1 : e'.ty = e.ty) (h2 : e'.name = e.name) (h3 : e'.props = e.props) :
    entryOk r e' = entryOk r e := by
  unfold entryOk; rw [h1, h2, h3]

/-- the token parses to something valid, and passes the rules with the type nesting gave it -/
def TokOk (r : Rules) (p : Bytes × Ty) : Prop :=
  (parsePart p).ty ≠ .invalid ∧
  ∃ t', TyRel r.xhtml (parsePart p).ty t' ∧ t' ≠ .invalid ∧ entryOk r { parsePart p with ty := t' } = true

theorem validate_tokOk {r : Rules} {x : Bytes} (h : validate r x = true) : ∀ p ∈ split x, TokOk r p := by
  unfold validate at h
  simp only at h
  split at h
  · cases h
  · rename_i h1
    split at h
    · cases h
    · rename_i h2
      intro p hp
      have hmem : parsePart p ∈ parseAll x := List.mem_map_of_mem hp
      obtain ⟨i, hi, hget⟩ := List.getElem_of_mem hmem
      have hrel := validateNesting_rel r.xhtml (parseAll x)
      obtain ⟨e', he', hr⟩ := hrel.2 i (parsePart p) (by rw [List.getElem?_eq_getElem hi, hget])
      have he'mem : e' ∈ validateNesting r.xhtml (parseAll x) := List.mem_of_getElem? he'
      refine ⟨?_, e'.ty, hr.2.2.2, ?_, ?_⟩
      · intro hc
        apply h1
        simp only [List.any_eq_true]
        exact ⟨_, hmem, by simp [isInvalid, hc]⟩
      · intro hc
        apply h2
        simp only [List.any_eq_true]
        exact ⟨_, he'mem, by simp [isInvalid, hc]⟩
      · rw [List.all_eq_true] at h
        rw [← h e' he'mem]
        apply entryOk_congr
        · rfl
        · exact hr.2.1.symm
        · exact hr.2.2.1.symm

/-! ### byte classes of the model vs. those of the spec -/
open Spec in
theorem alnum_facts : ∀ c : UInt8, isAlnum c = true →
    entityChar c = true ∧ nameChar c = true ∧ attrNameChar c = true ∧ ws c = false ∧ c ≠ 59 := by
  apply forall_uint8; decide +kernel

open Spec in
theorem alpha_facts : ∀ c : UInt8, isAlpha c = true →
    nameChar c = true ∧ tagStart c = true ∧ attrNameChar c = true ∧ ws c = false ∧ c ≠ 33 ∧ c ≠ 63 ∧ c ≠ 47 ∧ c ≠ 62 ∧ c ≠ 61 ∧
    (isAlnum c = true ∨ c = 95) := by
  apply forall_uint8; decide +kernel

open Spec in
theorem space_facts : ∀ c : UInt8, isSpace c = true → ws c = true ∧ isAlnum c = false ∧ isAlpha c = false := by
  apply forall_uint8; decide +kernel

open Spec in
theorem digit_facts : ∀ c : UInt8, (isDigit c = true → digit c = true ∧ entityChar c = true) ∧
    (isXdigit c = true → hexdigit c = true ∧ entityChar c = true) := by
  apply forall_uint8; decide +kernel

open Spec in
theorem lower_eq : ∀ c : UInt8, cstrLower c = asciiLower c := by
  apply forall_uint8; decide +kernel

theorem special_facts : ∀ c : UInt8, isSpecial c = false → c ≠ 38 ∧ c ≠ 62 ∧ c ≠ 60 := by
  apply forall_uint8; decide +kernel

/-! ### generic list facts -/

theorem findByte_spec {c : UInt8} {s : Bytes} {k : Nat} (h : findByte c s = some k) :
    s = s.take k ++ c :: s.drop (k + 1) ∧ ∀ b ∈ s.take k, b ≠ c := by
  induction s generalizing k with
  | nil => simp [findByte] at h
  | cons x xs ih =>
    unfold findByte at h
    split at h
    · rename_i hx; simp at h; subst h; subst hx; simp
    · rename_i hx
      cases h2 : findByte c xs with
      | none => simp [h2] at h
      | some j =>
        simp [h2] at h; subst h
        obtain ⟨e1, e2⟩ := ih h2
        constructor
        · simp only [List.take_succ_cons, List.drop_succ_cons, List.cons_append]
          rw [← e1]
        · intro b hb
          simp only [List.take_succ_cons, List.mem_cons] at hb
          rcases hb with rfl | hb
          · exact hx
          · exact e2 b hb

theorem takeWhile_append_stop {p : UInt8 → Bool} {a : Bytes} {c : UInt8} {b : Bytes}
    (ha : ∀ x ∈ a, p x = true) (hc : p c = false) :
    (a ++ c :: b).takeWhile p = a ∧ (a ++ c :: b).dropWhile p = c :: b := by
  constructor
  · rw [List.takeWhile_append_of_pos ha]; simp [hc]
  · rw [List.dropWhile_append_of_pos ha]; simp [hc]

/-! ### entities -/

theorem take_succ_of_split {s a b : Bytes} {c : UInt8} (h : s = a ++ c :: b) :
    s.take (a.length + 1) = a ++ [c] ∧ s.drop (a.length + 1) = b ∧ s.take a.length = a := by
  subst h
  refine ⟨?_, ?_, ?_⟩
  · rw [List.take_append]; simp [List.take_of_length_le]
  · rw [List.drop_append]; simp [List.drop_of_length_le]
  · simp

theorem accepted_is_xmlChar (v : Nat) (h : Gen.numericRejected (min v longMax) = false) : Spec.xmlChar v = true := by
  have hl : longMax = 9223372036854775807 := by decide
  rw [hl] at h
  simp [Gen.numericRejected] at h
  simp [Spec.xmlChar]
  omega

theorem hexVal_eq : ∀ c : UInt8, isXdigit c = true → Spec.hexVal c = digitVal c := by
  apply forall_uint8; decide +kernel

theorem digit_is_xdigit : ∀ c : UInt8, isDigit c = true → isXdigit c = true := by
  apply forall_uint8; decide +kernel

theorem foldl_value_eq (B : Nat) : ∀ (l : Bytes) (a : Nat), (∀ b ∈ l, isXdigit b = true) →
    l.foldl (fun acc c => acc * B + Spec.hexVal c) a = l.foldl (fun acc d => acc * B + digitVal d) a := by
  intro l
  induction l with
  | nil => intro a _; rfl
  | cons c l ih =>
    intro a h
    simp only [List.foldl_cons]
    rw [hexVal_eq c (h c (List.mem_cons_self ..))]
    exact ih _ (fun b hb => h b (List.mem_cons_of_mem _ hb))

open Spec in
theorem parseEntity_cases (text : Bytes) :
    (parseEntity text).1 = .invalid ∨
    ((parseEntity text) = (.entity, (text.drop 1).dropLast) ∧ (∀ b ∈ (text.drop 1).dropLast, isAlnum b = true)) ∨
    ((parseEntity text).1 = .numeric ∧ numericForm ((text.drop 1).dropLast) = true ∧
      xmlChar (numericValue ((text.drop 1).dropLast)) = true ∧
      ∀ b ∈ (text.drop 1).dropLast, entityChar b = true) := by
  unfold parseEntity
  generalize (text.drop 1).dropLast = inner
  simp only
  cases inner with
  | nil => simp
  | cons c ds =>
    simp only
    by_cases hc : c = cHash
    · simp only [hc, if_true]
      have hc35 : cHash = 35 := rfl
      cases ds with
      | nil => simp
      | cons d hs =>
        simp only
        split
        · rename_i hd
          have hd' : d = 120 ∨ d = 88 := by
            have : bytesOf Gen.numericHexMarks = [120, 88] := by decide
            rw [this] at hd; simpa using hd
          split
          · simp
          split
          · simp
          split
          · simp
          · rename_i h1 h2 h3
            right; right
            refine ⟨rfl, ?_, ?_, ?_⟩
            rotate_left
            · rw [hc35]
              have hx : ∀ b ∈ hs, isXdigit b = true := List.all_eq_true.mp (by simpa using h2)
              have hv : numericValue (35 :: d :: hs) = digitsValue 16 hs := by
                simp only [numericValue, hd', if_true, digitsValue]
                exact foldl_value_eq 16 hs 0 hx
              rw [hv]
              exact accepted_is_xmlChar _ (by simpa [strtolNat] using h3)
            rotate_left
            · rw [hc35]
              simp only [numericForm, hd', if_true]
              simp only [Bool.not_eq_true, Bool.not_eq_false'] at h1 h2
              simp only [Bool.and_eq_true, Bool.not_eq_true', List.all_eq_true]
              refine ⟨by simpa using h1, ?_⟩
              intro b hb
              have := (List.all_eq_true.mp (by simpa using h2)) b hb
              exact ((digit_facts b).2 this).1
            · intro b hb
              simp only [List.mem_cons] at hb
              rcases hb with rfl | rfl | hb
              · rw [hc35]; decide
              · rcases hd' with rfl | rfl <;> decide
              · have := (List.all_eq_true.mp (by simpa using h2)) b hb
                exact ((digit_facts b).2 this).2
        · rename_i hd
          have hd' : ¬ (d = 120 ∨ d = 88) := by
            have : bytesOf Gen.numericHexMarks = [120, 88] := by decide
            rw [this] at hd; simpa using hd
          split
          · simp
          split
          · simp
          · rename_i h2 h3
            right; right
            have hall : ∀ b ∈ d :: hs, isDigit b = true := by
              simpa using h2
            refine ⟨rfl, ?_, ?_, ?_⟩
            rotate_left
            · rw [hc35]
              have hx : ∀ b ∈ d :: hs, isXdigit b = true := fun b hb => digit_is_xdigit b (hall b hb)
              have hv : numericValue (35 :: d :: hs) = digitsValue 10 (d :: hs) := by
                simp only [numericValue, hd', if_false, digitsValue]
                exact foldl_value_eq 10 (d :: hs) 0 hx
              rw [hv]
              exact accepted_is_xmlChar _ (by simpa [strtolNat] using h3)
            rotate_left
            · rw [hc35]
              simp only [numericForm, hd', if_false, List.all_eq_true]
              intro b hb
              exact ((digit_facts b).1 (hall b hb)).1
            · intro b hb
              simp only [List.mem_cons] at hb
              rcases hb with rfl | hb
              · rw [hc35]; decide
              · exact ((digit_facts b).1 (hall b (by simpa using hb))).2
    · simp only [hc, if_false]
      split
      · rename_i h
        right; left
        exact ⟨rfl, by simpa using h⟩
      · simp

theorem tyRel_of_not_open {xhtml : Bool} {t t' : Ty} (h : TyRel xhtml t t') (hn : t' ≠ .invalid) (ho : t ≠ .openTag) : t' = t := by
  rcases h with h | h | h
  · exact h
  · exact absurd h hn
  · exact absurd h.2.1 ho

open Spec in
theorem entity_step (r : Rules) (rest : Bytes) (k : Nat) (hf : findByte 59 rest = some k)
    (hok : TokOk r (38 :: rest.take (k + 1), .entity)) :
    ∃ name, lenientMarkup (38 :: rest) = .entity name true :: lenientMarkup (rest.drop (k + 1)) ∧
      allowed r (.entity name true) = true := by
  obtain ⟨hsplit, hno⟩ := findByte_spec hf
  have hk : (rest.take k).length = k := by
    have := findByte_lt hf; simp; omega
  have h3 := take_succ_of_split hsplit
  rw [hk] at h3
  have hinner : ((38 :: rest.take (k + 1)).drop 1).dropLast = rest.take k := by
    simp only [List.drop_succ_cons, List.drop_zero]
    rw [h3.1]; simp
  obtain ⟨hty, t', hrel, hne, hent⟩ := hok
  have hcases := parseEntity_cases (38 :: rest.take (k + 1))
  rw [hinner] at hcases
  simp only [parsePart] at hty hrel hent
  have hlen : ∀ (hall : ∀ b ∈ rest.take k, entityChar b = true),
      lenientMarkup (38 :: rest) = .entity (rest.take k) true :: lenientMarkup (rest.drop (k + 1)) := by
    intro hall
    have h59 : entityChar 59 = false := by decide
    have := takeWhile_append_stop (b := rest.drop (k + 1)) hall h59
    rw [← hsplit] at this
    rw [lenientMarkup_entity rest (rest.drop (k + 1)) this.2, this.1]
  rcases hcases with hc | ⟨hc, hall⟩ | ⟨hc, hnum, hxml, hall⟩
  · exact absurd hc hty
  · refine ⟨rest.take k, hlen (fun b hb => (alnum_facts b (hall b hb)).1), ?_⟩
    rw [hc] at hrel hent
    have : t' = .entity := tyRel_of_not_open hrel hne (by simp)
    subst this
    simp only [entryOk] at hent
    simp [allowed, hent]
  · refine ⟨rest.take k, hlen hall, ?_⟩
    rw [hc] at hrel
    have : t' = .numeric := tyRel_of_not_open hrel hne (by simp)
    subst this
    simp only [entryOk] at hent
    simp [allowed, hent, hnum, hxml]

/-! ### comments -/

theorem commentForbidden_false : ∀ b : UInt8, Gen.commentForbidden b.toNat = false → (b != 60 && b != 62 && b != 38) = true := by
  apply forall_uint8; decide +kernel

open Spec in
theorem findCommentEnd_of_findPair : ∀ (s : Bytes) (j : Nat), findPair 45 45 s = some j → s[j + 2]? = some 62 →
    findCommentEnd s = some j := by
  intro s
  induction s with
  | nil => intro j h; simp [findPair] at h
  | cons x xs ih =>
    intro j h h2
    cases xs with
    | nil => simp [findPair] at h
    | cons y rest =>
      unfold findPair at h
      split at h
      · rename_i hxy
        simp at h; subst h
        simp at h2
        unfold findCommentEnd
        cases rest with
        | nil => simp at h2
        | cons z rest' =>
          simp at h2
          simp [hxy.1, hxy.2, h2]
      · rename_i hxy
        cases h3 : findPair 45 45 (y :: rest) with
        | none => simp [h3] at h
        | some j' =>
          simp [h3] at h; subst h
          have := ih j' h3 (by simpa using h2)
          unfold findCommentEnd
          have hne : ¬ (x = 45 ∧ (y :: rest).take 2 = [45, 62]) := by
            intro ⟨hx, ht⟩
            apply hxy
            refine ⟨hx, ?_⟩
            cases rest with
            | nil => simp at ht
            | cons z r => simp at ht; exact ht.1
          simp only [hne, if_false, this, Option.map_some]

open Spec in
theorem hasDashDash_take_of_findPair : ∀ (s : Bytes) (j : Nat), findPair 45 45 s = some j →
    hasDashDash (s.take j) = false := by
  intro s
  induction s with
  | nil => intro j h; simp [findPair] at h
  | cons x xs ih =>
    intro j h
    cases xs with
    | nil => simp [findPair] at h
    | cons y rest =>
      unfold findPair at h
      split at h
      · simp at h; subst h; simp [hasDashDash]
      · rename_i hxy
        cases h3 : findPair 45 45 (y :: rest) with
        | none => simp [h3] at h
        | some j' =>
          simp [h3] at h; subst h
          have ih' := ih j' h3
          simp only [List.take_succ_cons]
          cases j' with
          | zero => simp [hasDashDash]
          | succ j'' =>
            simp only [List.take_succ_cons] at ih' ⊢
            unfold hasDashDash
            split
            · rename_i heq
              simp at heq
              exact absurd ⟨heq.1, heq.2.1⟩ hxy
            · rename_i heq
              simp at heq
              obtain ⟨rfl, rfl⟩ := heq
              exact ih'
            · rename_i heq; simp at heq

open Spec in
theorem comment_step (r : Rules) (rest : Bytes) (j : Nat)
    (h3 : rest.take 3 = [33, 45, 45]) (hf : findPair 45 45 (rest.drop 3) = some j)
    (h62 : (rest.drop 3)[j + 2]? = some 62)
    (hok : TokOk r (60 :: rest.take (3 + j + 3),
      if ((rest.drop 3).take j).any (fun b => Gen.commentForbidden b.toNat) then Ty.invalid else Ty.comment)) :
    ∃ body, lenientMarkup (60 :: rest) = .comment body true :: lenientMarkup (rest.drop (3 + j + 3)) ∧
      allowed r (.comment body true) = true := by
  have hrest : rest = 33 :: 45 :: 45 :: rest.drop 3 := by
    conv => lhs; rw [← List.take_append_drop 3 rest, h3]
    rfl
  generalize rest.drop 3 = more at *
  obtain ⟨hty, t', hrel, hne, hent⟩ := hok
  split at hty
  · simp [parsePart] at hty
  rename_i hforb
  simp only [hforb] at hrel hent
  simp only [parsePart] at hrel hent
  have : t' = .comment := tyRel_of_not_open hrel hne (by simp)
  subst this
  simp only [entryOk] at hent
  refine ⟨more.take j, ?_, ?_⟩
  · rw [hrest, lenientMarkup_comment more j (findCommentEnd_of_findPair more j hf h62)]
    congr 2
    simp [Nat.add_comm, Nat.add_left_comm]
  · simp only [allowed, hent, hasDashDash_take_of_findPair more j hf, Bool.true_and, Bool.not_false, Bool.and_true]
    rw [List.all_eq_true]
    intro b hb
    have : Gen.commentForbidden b.toNat = false := by
      simp only [Bool.not_eq_true, List.any_eq_true, not_exists, not_and] at hforb
      simpa using hforb b hb
    exact commentForbidden_false b this
end Cppcms.C04
