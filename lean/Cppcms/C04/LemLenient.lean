import Cppcms.C04.Spec
/-! C04 lemmas, part 3: the lenient tokenizer of the spec — fuel independence, unfolding equations. -/
namespace Cppcms.C04.Spec
open Cppcms

theorem dropWhile_length_le (p : UInt8 → Bool) (s : Bytes) : (s.dropWhile p).length ≤ s.length :=
  (List.dropWhile_sublist (l := s) p).length_le

theorem dw_cons_lt {p : UInt8 → Bool} {a c : Bytes} {b : UInt8} (h : a.dropWhile p = b :: c) : c.length < a.length := by
  have := dropWhile_length_le p a
  rw [h] at this; simp at this; omega

theorem indexOf_lt {c : UInt8} {s : Bytes} {k : Nat} (h : indexOf c s = some k) : k < s.length := by
  induction s generalizing k with
  | nil => simp [indexOf] at h
  | cons x xs ih =>
    unfold indexOf at h
    split at h
    · simp at h; subst h; simp
    · cases h2 : indexOf c xs with
      | none => simp [h2] at h
      | some j => simp [h2] at h; subst h; have := ih h2; simp; omega

/-- the unconsumed rest is never longer than the input -/
theorem lenientAttrs_rest_le : ∀ (n : Nat) (s : Bytes) (acc : List (Bytes × Option Bytes)),
    (lenientAttrs n s acc).rest.length ≤ s.length := by
  intro n
  induction n with
  | zero => intro s acc; simp [lenientAttrs]
  | succ n ih =>
    intro s acc
    cases s with
    | nil => simp [lenientAttrs]
    | cons c rest =>
      unfold lenientAttrs
      split
      · have := ih rest acc; simp; omega
      split
      · simp
      split
      · split
        · simp; omega
        · have := ih rest acc; simp; omega
      · simp only
        have h1 : ((rest.dropWhile attrNameChar).dropWhile ws).length ≤ rest.length := by
          have := dropWhile_length_le ws (rest.dropWhile attrNameChar)
          have := dropWhile_length_le attrNameChar rest
          omega
        split
        · rename_i s2 heq
          have h2 : s2.length < rest.length := by
            have : ((rest.dropWhile attrNameChar).dropWhile ws).length = s2.length + 1 := by rw [heq]; simp
            omega
          split
          · simp
          · rename_i q s4 heq2
            have h3 : s4.length < s2.length := by
              have := dropWhile_length_le ws s2
              rw [heq2] at this; simp at this; omega
            split
            · split
              · rename_i k hk
                have := ih (s4.drop (k + 1)) (acc ++ [(c :: rest.takeWhile attrNameChar, some (s4.take k))])
                simp at this ⊢; omega
              · simp
            · have := ih ((q :: s4).dropWhile unquotedChar) (acc ++ [(c :: rest.takeWhile attrNameChar, some ((q :: s4).takeWhile unquotedChar))])
              have := dropWhile_length_le unquotedChar (q :: s4)
              simp at *; omega
        · have := ih ((rest.dropWhile attrNameChar).dropWhile ws) (acc ++ [(c :: rest.takeWhile attrNameChar, none)])
          simp; omega

theorem lenientAttrs_fuel : ∀ (n m : Nat) (s : Bytes) (acc : List (Bytes × Option Bytes)),
    s.length < n → s.length < m → lenientAttrs n s acc = lenientAttrs m s acc := by
  intro n
  induction n with
  | zero => intro m s acc h; omega
  | succ n ih =>
    intro m s acc hn hm
    cases m with
    | zero => omega
    | succ m =>
      cases s with
      | nil => simp [lenientAttrs]
      | cons c rest =>
        simp only [List.length_cons] at hn hm
        simp only [lenientAttrs]
        have h1 : ((rest.dropWhile attrNameChar).dropWhile ws).length ≤ rest.length := by
          have := dropWhile_length_le ws (rest.dropWhile attrNameChar)
          have := dropWhile_length_le attrNameChar rest
          omega
        repeat' split
        all_goals first
          | rfl
          | (apply ih <;> omega)
          | skip
        · rename_i s2 heq2 x1 q s4 heq1 hq x0 k hk
          have a0 := dropWhile_length_le attrNameChar rest
          have a1 := dw_cons_lt heq2
          have a2 := dw_cons_lt heq1
          apply ih <;> (simp; omega)
        · rename_i s2 heq2 x1 q s4 heq1 hq
          have a0 := dropWhile_length_le attrNameChar rest
          have a1 := dw_cons_lt heq2
          have a2 := dw_cons_lt heq1
          have h4 := dropWhile_length_le unquotedChar (q :: s4)
          simp at h4
          apply ih <;> omega

theorem lenientTag_rest_le (closing : Bool) (s : Bytes) : (lenientTag closing s).2.length ≤ s.length := by
  unfold lenientTag
  have := lenientAttrs_rest_le (s.length + 1) (s.dropWhile nameChar) []
  have := dropWhile_length_le nameChar s
  simp only; omega

theorem lenientAux_fuel : ∀ (n m : Nat) (x : Bytes), x.length < n → x.length < m → lenientAux n x = lenientAux m x := by
  intro n
  induction n with
  | zero => intro m x h; omega
  | succ n ih =>
    intro m x hn hm
    cases m with
    | zero => omega
    | succ m =>
      cases x with
      | nil => simp [lenientAux]
      | cons c rest =>
        simp only [List.length_cons] at hn hm
        simp only [lenientAux]
        repeat' split
        all_goals first
          | rfl
          | (congr 1; apply ih <;> omega)
          | (apply ih <;> omega)
          | skip
        · rename_i heq
          have := dw_cons_lt heq
          congr 1; apply ih <;> omega
        · have := dropWhile_length_le entityChar rest
          congr 1; apply ih <;> omega
        · simp only [List.length_cons] at hn hm
          congr 1; apply ih <;> (simp; omega)
        · simp only [List.length_cons] at hn hm
          congr 1; apply ih <;> (simp; omega)
        · rename_i q s4 _ _
          have := lenientTag_rest_le true (q :: s4)
          simp only [List.length_cons] at hn hm this
          congr 1; apply ih <;> omega
        · simp only [List.length_cons] at hn hm
          congr 1; apply ih <;> (simp; omega)
        · rename_i d more _ _ _ _
          have := lenientTag_rest_le false (d :: more)
          simp only [List.length_cons] at hn hm this
          congr 1; apply ih <;> omega

theorem lenientAux_succ_cons (n : Nat) (c : UInt8) (rest : Bytes) : lenientAux (n + 1) (c :: rest) =
    (if c = 38 then
      match rest.dropWhile entityChar with
      | 59 :: more => .entity (rest.takeWhile entityChar) true :: lenientAux n more
      | after => .entity (rest.takeWhile entityChar) false :: lenientAux n after
    else if c = 62 then .stray 62 :: lenientAux n rest
    else if c = 60 then
      match rest with
      | [] => [.stray 60]
      | 33 :: 45 :: 45 :: more =>
        match findCommentEnd more with
        | some k => .comment (more.take k) true :: lenientAux n (more.drop (k + 3))
        | none => [.comment more false]
      | d :: more =>
        if d = 33 ∨ d = 63 then
          match indexOf 62 more with
          | some k => .bogus (c :: d :: more.take (k + 1)) :: lenientAux n (more.drop (k + 1))
          | none => [.bogus (c :: rest)]
        else if d = 47 then
          match more with
          | [] => [.stray 60]
          | e :: _ =>
            if tagStart e then
              (lenientTag true more).1 :: lenientAux n (lenientTag true more).2
            else
              match indexOf 62 more with
              | some k => .bogus (c :: d :: more.take (k + 1)) :: lenientAux n (more.drop (k + 1))
              | none => [.bogus (c :: rest)]
        else if tagStart d then
          (lenientTag false rest).1 :: lenientAux n (lenientTag false rest).2
        else .stray 60 :: lenientAux n rest
    else lenientAux n rest) := by
  rfl

theorem lenientAux_eq {n : Nat} {x : Bytes} (h : x.length < n) : lenientAux n x = lenientMarkup x :=
  lenientAux_fuel _ _ _ h (Nat.lt_succ_self _)

@[simp] theorem lenientMarkup_nil : lenientMarkup [] = [] := by simp [lenientMarkup, lenientAux]

theorem lenientMarkup_cons (c : UInt8) (rest : Bytes) : lenientMarkup (c :: rest) = lenientAux (rest.length + 1 + 1) (c :: rest) := by
  rfl

/-- a byte that is none of `&`, `<`, `>` is skipped -/
theorem lenientMarkup_cons_plain {c : UInt8} (rest : Bytes) (h1 : c ≠ 38) (h2 : c ≠ 62) (h3 : c ≠ 60) :
    lenientMarkup (c :: rest) = lenientMarkup rest := by
  rw [lenientMarkup_cons, lenientAux_succ_cons]
  simp only [h1, h2, h3, if_false]
  exact lenientAux_eq (by omega)

theorem lenientMarkup_entity (rest more : Bytes) (h : rest.dropWhile entityChar = 59 :: more) :
    lenientMarkup (38 :: rest) = .entity (rest.takeWhile entityChar) true :: lenientMarkup more := by
  rw [lenientMarkup_cons, lenientAux_succ_cons]
  simp only [if_true, h]
  have := dw_cons_lt h
  rw [lenientAux_eq (by omega)]

theorem lenientMarkup_comment (more : Bytes) (k : Nat) (h : findCommentEnd more = some k) :
    lenientMarkup (60 :: 33 :: 45 :: 45 :: more) = .comment (more.take k) true :: lenientMarkup (more.drop (k + 3)) := by
  rw [lenientMarkup_cons, lenientAux_succ_cons]
  have e2 : ¬ ((60 : UInt8) = 38) := by decide
  have e3 : ¬ ((60 : UInt8) = 62) := by decide
  simp only [e2, e3, if_false, if_true, h]
  rw [lenientAux_eq (by simp; omega)]

theorem lenientMarkup_open (d : UInt8) (more : Bytes) (h0 : d ≠ 33) (h1 : d ≠ 63) (h2 : d ≠ 47) (h3 : tagStart d = true) :
    lenientMarkup (60 :: d :: more) = (lenientTag false (d :: more)).1 :: lenientMarkup (lenientTag false (d :: more)).2 := by
  rw [lenientMarkup_cons, lenientAux_succ_cons]
  have := lenientTag_rest_le false (d :: more)
  simp only [List.length_cons] at this
  have e2 : ¬ ((60 : UInt8) = 38) := by decide
  have e3 : ¬ ((60 : UInt8) = 62) := by decide
  simp only [e2, e3, if_false, if_true]
  split
  · rename_i heq; simp at heq
  · rename_i heq; simp at heq; exact absurd heq.1 h0
  · rename_i d' more' _ heq
    simp only [List.cons.injEq] at heq
    obtain ⟨rfl, rfl⟩ := heq
    have e1 : ¬ (d = 33 ∨ d = 63) := by simp [h0, h1]
    simp only [e1, h2, h3, if_false, if_true]
    rw [lenientAux_eq (by simp only [List.length_cons]; omega)]

theorem lenientMarkup_close (e : UInt8) (more : Bytes) (h3 : tagStart e = true) :
    lenientMarkup (60 :: 47 :: e :: more) = (lenientTag true (e :: more)).1 :: lenientMarkup (lenientTag true (e :: more)).2 := by
  rw [lenientMarkup_cons, lenientAux_succ_cons]
  have := lenientTag_rest_le true (e :: more)
  simp only [List.length_cons] at this
  have e2 : ¬ ((60 : UInt8) = 38) := by decide
  have e3 : ¬ ((60 : UInt8) = 62) := by decide
  simp only [e2, e3, if_false, if_true]
  split
  · rename_i heq; simp at heq
  · rename_i heq; simp at heq
  · rename_i d' more' _ heq
    simp only [List.cons.injEq] at heq
    obtain ⟨rfl, rfl⟩ := heq
    have e1 : ¬ ((47 : UInt8) = 33 ∨ (47 : UInt8) = 63) := by decide
    simp only [e1, if_false, if_true, h3]
    rw [lenientAux_eq (by simp only [List.length_cons]; omega)]
end Cppcms.C04.Spec
