import Cppcms.C04.LemRuleLoop
/-! C04 lemmas, part 11: XHTML - running the frames form again on the kept open/close tags, interleaved with
arbitrary entries that are fine on their own, yields only valid entries. -/
namespace Cppcms.C04
open Cppcms

/-! ### XHTML: running the nesting check again on what was kept -/

def isTagEv (e : Entry) : Bool := e.ty == .openTag || e.ty == .closeTag

/-- an entry that is not an open/close tag and passes validation on its own -/
def Fine (r : Rules) (e : Entry) : Prop := e.ty ≠ .invalid ∧ entryOk r e = true

/-- the open/close tags of a finished segment that the filter keeps, as they were parsed -/
def keptTags (ins : List Entry) (outs : List FEntry) : List Entry :=
  ((ins.zip outs).filter (fun q => isTagEv q.1 && !q.2.2)).map Prod.fst

theorem keptTags_append (i1 : List Entry) (o1 : List FEntry) (i2 : List Entry) (o2 : List FEntry)
    (h : i1.length = o1.length) : keptTags (i1 ++ i2) (o1 ++ o2) = keptTags i1 o1 ++ keptTags i2 o2 := by
  unfold keptTags
  rw [List.zip_append h, List.filter_append, List.map_append]

theorem entryOk_setPair (r : Rules) (e : Entry) (p : Option Nat) : entryOk r { e with pair := p } = entryOk r e := by
  unfold entryOk; rfl

/-- entries that are not open/close tags are just appended -/
theorem leaves_run (r : Rules) (xhtml : Bool) : ∀ (es : List Entry) (frames : List Frame) (cur : List FEntry),
    (∀ e ∈ es, isTagEv e = false) →
    es.foldl (stepF r xhtml) (frames, cur) = (frames, cur ++ es.map (leafF r)) := by
  intro es
  induction es with
  | nil => intro frames cur _; simp
  | cons e es ih =>
    intro frames cur h
    have he := h e (List.mem_cons_self ..)
    simp only [isTagEv, Bool.or_eq_false_iff, beq_eq_false_iff_ne] at he
    have hstep : stepF r xhtml (frames, cur) e = (frames, cur ++ [leafF r e]) := by
      unfold stepF
      split
      · rename_i h1; exact absurd h1 he.2
      · rename_i h1; exact absurd h1 he.1
      · rfl
    simp only [List.foldl_cons, hstep]
    rw [ih frames _ (fun x hx => h x (List.mem_cons_of_mem _ hx))]
    simp

/-- all entries produced are valid and pass the rules -/
def AllFineOut (r : Rules) (outs : List FEntry) : Prop := ∀ p ∈ outs, p.1.ty ≠ .invalid ∧ entryOk r p.1 = true

theorem allFine_leaves (r : Rules) (es : List Entry) (h : ∀ e ∈ es, Fine r e) : AllFineOut r (es.map (leafF r)) := by
  intro p hp
  obtain ⟨e, he, rfl⟩ := List.mem_map.mp hp
  exact h e he

theorem AllFineOut.append {r : Rules} {a b : List FEntry} (ha : AllFineOut r a) (hb : AllFineOut r b) : AllFineOut r (a ++ b) := by
  intro p hp
  rcases List.mem_append.mp hp with h | h
  · exact ha p h
  · exact hb p h

theorem keptTags_single (e : Entry) (x : FEntry) : keptTags [e] [x] = if isTagEv e && !x.2 then [e] else [] := by
  unfold keptTags
  simp only [List.zip_cons_cons, List.zip_nil_left, List.filter_cons, List.filter_nil]
  split <;> simp

theorem keptTags_pair (i1 : List Entry) (o1 : List FEntry) (i2 : List Entry) (o2 : List FEntry) (eo ec : Entry) (x y : FEntry)
    (h1 : i1.length = o1.length) (h2 : i2.length = o2.length) :
    keptTags (i1 ++ eo :: i2 ++ [ec]) (o1 ++ x :: o2 ++ [y]) =
      keptTags i1 o1 ++ (keptTags [eo] [x] ++ (keptTags i2 o2 ++ keptTags [ec] [y])) := by
  rw [show i1 ++ eo :: i2 ++ [ec] = i1 ++ ([eo] ++ (i2 ++ [ec])) by simp,
    show o1 ++ x :: o2 ++ [y] = o1 ++ ([x] ++ (o2 ++ [y])) by simp]
  rw [keptTags_append _ _ _ _ h1, keptTags_append [eo] [x] _ _ rfl, keptTags_append _ _ _ _ h2]

theorem second_run_xhtml {r : Rules} {b : Nat} {ins : List Entry} {outs : List FEntry} (h : Good r true b ins outs) :
    ∀ (es2 : List Entry), es2.filter isTagEv = keptTags ins outs → (∀ e ∈ es2, isTagEv e = false → Fine r e) →
    ∀ (frames : List Frame) (cur : List FEntry), ∃ outs2,
      es2.foldl (stepF r true) (frames, cur) = (frames, cur ++ outs2) ∧ AllFineOut r outs2 := by
  induction h with
  | nil b =>
    intro es2 hf hfine frames cur
    have hnt : ∀ e ∈ es2, isTagEv e = false := by
      have : es2.filter isTagEv = [] := by simpa [keptTags] using hf
      intro e he
      have := List.filter_eq_nil_iff.mp this e he
      simpa using this
    exact ⟨es2.map (leafF r), leaves_run r true es2 frames cur hnt, allFine_leaves r es2 (fun e he => hfine e he (hnt e he))⟩
  | leaf b ins outs e x g hp hl ih =>
    intro es2 hf hfine frames cur
    apply ih es2 ?_ hfine frames cur
    rw [hf, keptTags_append _ _ _ _ g.length_eq.symm, keptTags_single]
    have : (isTagEv e && !x.2) = false := by
      cases hl with
      | neutral h1 h2 => simp [isTagEv, h1, h2]
      | rejected _ => simp [leafF, entryOk]
      | noSlash hx _ => cases hx
    simp [this]
  | pair b i1 o1 i2 o2 eo ec g1 g2 ho hc hpo hpc hs ih1 ih2 =>
    intro es2 hf hfine frames cur
    rw [keptTags_pair _ _ _ _ _ _ _ _ g1.length_eq.symm g2.length_eq.symm, keptTags_single, keptTags_single] at hf
    have hto : isTagEv eo = true := by simp [isTagEv, ho]
    have htc : isTagEv ec = true := by simp [isTagEv, hc]
    have hbad : (pairF r eo ec (b + o1.length) (b + o1.length + 1 + o2.length)).2.2 =
        (pairF r eo ec (b + o1.length) (b + o1.length + 1 + o2.length)).1.2 := rfl
    rw [hbad] at hf
    simp only [hto, htc, Bool.true_and] at hf
    by_cases hb : (pairF r eo ec (b + o1.length) (b + o1.length + 1 + o2.length)).1.2 = true
    · -- the pair is dropped: its two halves run one after the other
      simp only [hb, Bool.not_true, Bool.false_eq_true, if_false, List.nil_append, List.append_nil] at hf
      obtain ⟨s1, s2, rfl, f1, f2⟩ := List.filter_eq_append_iff.mp hf
      obtain ⟨p1, r1, a1⟩ := ih1 s1 f1 (fun e he => hfine e (List.mem_append_left _ he)) frames cur
      obtain ⟨p2, r2, a2⟩ := ih2 s2 f2 (fun e he => hfine e (List.mem_append_right _ he)) frames (cur ++ p1)
      refine ⟨p1 ++ p2, ?_, a1.append a2⟩
      rw [List.foldl_append, r1, r2, List.append_assoc]
    · -- the pair is kept
      have hb' : (pairF r eo ec (b + o1.length) (b + o1.length + 1 + o2.length)).1.2 = false := by simpa using hb
      simp only [hb', Bool.not_false, if_true] at hf
      have hf' : es2.filter isTagEv = keptTags i1 o1 ++ (eo :: (keptTags i2 o2 ++ [ec])) := by simpa using hf
      obtain ⟨s1, t1, rfl, f1, ft1⟩ := List.filter_eq_append_iff.mp hf'
      obtain ⟨pre, post, rfl, hpre, _, fpost⟩ := List.filter_eq_cons_iff.mp ft1
      obtain ⟨s2, t2, rfl, f2, ft2⟩ := List.filter_eq_append_iff.mp fpost
      obtain ⟨pre2, post2, rfl, hpre2, _, fpost2⟩ := List.filter_eq_cons_iff.mp ft2
      have hpost2 : ∀ e ∈ post2, isTagEv e = false := by
        intro e he
        have := List.filter_eq_nil_iff.mp fpost2 e he
        simpa using this
      have hpre' : ∀ e ∈ pre, isTagEv e = false := fun e he => by simpa using hpre e he
      have hpre2' : ∀ e ∈ pre2, isTagEv e = false := fun e he => by simpa using hpre2 e he
      -- both halves of the pair pass the rules
      have hok : entryOk r eo = true ∧ entryOk r ec = true := by
        simp only [pairF, entryOk_setPair] at hb'
        simpa using hb'
      obtain ⟨p1, r1, a1⟩ := ih1 s1 f1 (fun e he => hfine e (by simp [he])) frames cur
      obtain ⟨p2, r2, a2⟩ := ih2 s2 f2 (fun e he => hfine e (by simp [he]))
        (⟨cur ++ p1 ++ pre.map (leafF r), eo⟩ :: frames) []
      refine ⟨p1 ++ pre.map (leafF r) ++
        (pairF r eo ec (flatF frames (cur ++ p1 ++ pre.map (leafF r))).length
          (flatF (⟨cur ++ p1 ++ pre.map (leafF r), eo⟩ :: frames) ([] ++ p2 ++ pre2.map (leafF r))).length).1 ::
        ([] ++ p2 ++ pre2.map (leafF r)) ++
        [(pairF r eo ec (flatF frames (cur ++ p1 ++ pre.map (leafF r))).length
          (flatF (⟨cur ++ p1 ++ pre.map (leafF r), eo⟩ :: frames) ([] ++ p2 ++ pre2.map (leafF r))).length).2] ++
        post2.map (leafF r), ?_, ?_⟩
      · simp only [List.foldl_append, List.foldl_cons, r1]
        rw [leaves_run r true pre frames _ hpre']
        have hso : stepF r true (frames, cur ++ p1 ++ pre.map (leafF r)) eo =
            (⟨cur ++ p1 ++ pre.map (leafF r), eo⟩ :: frames, []) := by
          unfold stepF; simp [ho]
        rw [hso, r2, leaves_run r true pre2 _ _ hpre2']
        have hsc : stepF r true (⟨cur ++ p1 ++ pre.map (leafF r), eo⟩ :: frames, [] ++ p2 ++ pre2.map (leafF r)) ec =
            (frames, (cur ++ p1 ++ pre.map (leafF r)) ++
              (pairF r eo ec (flatF frames (cur ++ p1 ++ pre.map (leafF r))).length
                (flatF (⟨cur ++ p1 ++ pre.map (leafF r), eo⟩ :: frames) ([] ++ p2 ++ pre2.map (leafF r))).length).1 ::
              ([] ++ p2 ++ pre2.map (leafF r)) ++
              [(pairF r eo ec (flatF frames (cur ++ p1 ++ pre.map (leafF r))).length
                (flatF (⟨cur ++ p1 ++ pre.map (leafF r), eo⟩ :: frames) ([] ++ p2 ++ pre2.map (leafF r))).length).2]) := by
          unfold stepF; simp [hc, hs]
        rw [hsc, leaves_run r true post2 _ _ hpost2]
        simp
      · have fpre : AllFineOut r (pre.map (leafF r)) :=
          allFine_leaves r pre (fun e he => hfine e (by simp [he]) (hpre' e he))
        have fpre2 : AllFineOut r (pre2.map (leafF r)) :=
          allFine_leaves r pre2 (fun e he => hfine e (by simp [he]) (hpre2' e he))
        have fpost2 : AllFineOut r (post2.map (leafF r)) :=
          allFine_leaves r post2 (fun e he => hfine e (by simp [he]) (hpost2 e he))
        have fo : AllFineOut r [(pairF r eo ec (flatF frames (cur ++ p1 ++ pre.map (leafF r))).length
          (flatF (⟨cur ++ p1 ++ pre.map (leafF r), eo⟩ :: frames) ([] ++ p2 ++ pre2.map (leafF r))).length).1] := by
          intro p hp
          simp only [List.mem_singleton] at hp
          subst hp
          simp only [pairF, entryOk_setPair]
          exact ⟨by simp [ho], hok.1⟩
        have fc : AllFineOut r [(pairF r eo ec (flatF frames (cur ++ p1 ++ pre.map (leafF r))).length
          (flatF (⟨cur ++ p1 ++ pre.map (leafF r), eo⟩ :: frames) ([] ++ p2 ++ pre2.map (leafF r))).length).2] := by
          intro p hp
          simp only [List.mem_singleton] at hp
          subst hp
          simp only [pairF, entryOk_setPair]
          exact ⟨by simp [hc], hok.2⟩
        have := ((((a1.append fpre).append fo).append ((AllFineOut.append (a := []) (by intro p hp; simp at hp) a2).append fpre2)).append fc).append fpost2
        simpa using this
end Cppcms.C04
