import Cppcms.C04.LemEnc
/-! C04 lemmas, part 15: validators synchronised at ASCII bytes (`AsciiSync`: accepted ASCII bytes are characters on
their own - UTF-8 validators are of this kind) satisfy `EncOk`: tokens of valid text are valid, escaping keeps validity. -/
namespace Cppcms.C04
open Cppcms

/-! ### validators that are synchronised at ASCII bytes (UTF-8 is one) -/

/-- the bytes the tokenizer cuts at and the escape table deals with -/
def syncBytes : Bytes := [60, 62, 38, 59, 34] ++ escAlphabet

/-- "an accepted ASCII byte is a character on its own": valid texts can be cut and joined at these bytes -/
structure AsciiSync (e : Enc) : Prop where
  nil : e.valid [] = true
  append : ∀ a b, e.valid a = true → e.valid b = true → e.valid (a ++ b) = true
  cut : ∀ a c b, c ∈ syncBytes → e.valid (a ++ c :: b) = true → e.valid a = true ∧ e.valid b = true
  single : ∀ c ∈ syncBytes, e.valid [c] = true

theorem AsciiSync.cut_at {e : Enc} (h : AsciiSync e) (a b : Bytes) (hv : e.valid (a ++ b) = true)
    (hb : b = [] ∨ (∃ c b', b = c :: b' ∧ c ∈ syncBytes) ∨ (∃ a' c, a = a' ++ [c] ∧ c ∈ syncBytes)) :
    e.valid a = true ∧ e.valid b = true := by
  rcases hb with rfl | ⟨c, b', rfl, hc⟩ | ⟨a', c, rfl, hc⟩
  · exact ⟨by simpa using hv, h.nil⟩
  · obtain ⟨h1, h2⟩ := h.cut a c b' hc hv
    exact ⟨h1, by simpa using h.append [c] b' (h.single c hc) h2⟩
  · have hv' : e.valid (a' ++ c :: b) = true := by simpa using hv
    obtain ⟨h1, h2⟩ := h.cut a' c b hc hv'
    exact ⟨h.append a' [c] h1 (h.single c hc), h2⟩

theorem take_succ_getElem? {s : Bytes} {n : Nat} {c : UInt8} (h : s[n]? = some c) : s.take (n + 1) = s.take n ++ [c] := by
  induction s generalizing n with
  | nil => simp at h
  | cons x xs ih =>
    cases n with
    | zero => simp at h; simp [h]
    | succ n => simp at h; simp [ih h]

theorem findByte_getElem? {c : UInt8} {s : Bytes} {k : Nat} (h : findByte c s = some k) : s[k]? = some c := by
  obtain ⟨hs, _⟩ := findByte_spec h
  have hk := findByte_lt h
  have : (s.take k).length = k := by simp; omega
  rw [hs, ← this]
  simp

/-- every token of a valid text is valid -/
theorem tokens_valid {e : Enc} (hs : AsciiSync e) : ∀ (n : Nat) (y : Bytes), y.length ≤ n → e.valid y = true →
    ∀ tok ∈ split y, e.valid tok.1 = true := by
  intro n
  induction n with
  | zero =>
    intro y hy _ tok htok
    have : y = [] := List.eq_nil_of_length_eq_zero (by omega)
    subst this; simp at htok
  | succ n ih =>
    intro y hy hv tok htok
    cases y with
    | nil => simp at htok
    | cons c rest =>
      simp only [List.length_cons] at hy
      -- a token that ends with a sync byte, followed by the remainder
      have hstep : ∀ (k : Nat) (d : UInt8), rest[k]? = some d → d ∈ syncBytes →
          tok ∈ (c :: rest.take (k + 1), (tok.2)) :: split (rest.drop (k + 1)) → e.valid tok.1 = true := by
        intro k d hd hds hmem
        have hdec : c :: rest = (c :: rest.take (k + 1)) ++ rest.drop (k + 1) := by simp
        rw [hdec] at hv
        obtain ⟨h1, h2⟩ := hs.cut_at _ _ hv (Or.inr (Or.inr ⟨c :: rest.take k, d, by rw [take_succ_getElem? hd]; simp, hds⟩))
        simp only [List.mem_cons] at hmem
        rcases hmem with h | h
        · rw [h]; exact h1
        · exact ih _ (by simp; omega) h2 tok h
      rw [split_cons] at htok
      split at htok
      · split at htok
        · simp only [List.mem_singleton] at htok; subst htok; exact hv
        · rename_i k hk
          apply hstep k 59 (findByte_getElem? hk) (by decide)
          simp only [List.mem_cons] at htok ⊢
          rcases htok with h | h
          · left; rw [h]
          · right; exact h
      split at htok
      · split at htok
        · split at htok
          · simp only [List.mem_singleton] at htok; subst htok; exact hv
          · rename_i j hj
            split at htok
            · rename_i h62
              have hget : rest[3 + j + 2]? = some 62 := by
                rw [List.getElem?_drop] at h62
                rw [← h62]; congr 1
              apply hstep (3 + j + 2) 62 hget (by decide)
              simp only [List.mem_cons] at htok ⊢
              rcases htok with h | h
              · left; rw [h]
              · right; exact h
            · simp only [List.mem_singleton] at htok; subst htok; exact hv
        · split at htok
          · simp only [List.mem_singleton] at htok; subst htok; exact hv
          · rename_i k hk
            apply hstep k 62 (findByte_getElem? hk) (by decide)
            simp only [List.mem_cons] at htok ⊢
            rcases htok with h | h
            · left; rw [h]
            · right; exact h
      split at htok
      · rename_i hc
        have hdec : c :: rest = [c] ++ rest := rfl
        rw [hdec] at hv
        obtain ⟨h1, h2⟩ := hs.cut_at _ _ hv (Or.inr (Or.inr ⟨[], c, rfl, by rw [hc]; decide⟩))
        simp only [List.mem_cons] at htok
        rcases htok with h | h
        · rw [h]; exact h1
        · exact ih _ (by omega) h2 tok h
      · have hdec : c :: rest = (c :: rest.takeWhile (fun b => !isSpecial b)) ++ rest.dropWhile (fun b => !isSpecial b) := by
          simp [List.takeWhile_append_dropWhile]
        rw [hdec] at hv
        have hb : rest.dropWhile (fun b => !isSpecial b) = [] ∨
            (∃ d b', rest.dropWhile (fun b => !isSpecial b) = d :: b' ∧ d ∈ syncBytes) := by
          cases hd : rest.dropWhile (fun b => !isSpecial b) with
          | nil => exact Or.inl rfl
          | cons d b' =>
            right
            refine ⟨d, b', rfl, ?_⟩
            have := (dropWhile_eq_cons hd).2.1
            have hsp : isSpecial d = true := by simpa using this
            rcases (isSpecial_iff d).mp hsp with h | h | h <;> rw [h] <;> decide
        obtain ⟨h1, h2⟩ := hs.cut_at _ _ hv (hb.elim Or.inl (fun h => Or.inr (Or.inl h)))
        have hl := (List.dropWhile_sublist (l := rest) (fun b => !isSpecial b)).length_le
        simp only [List.mem_cons] at htok
        rcases htok with h | h
        · rw [h]; exact h1
        · exact ih _ (by omega) h2 tok h

theorem valid_of_all_sync {e : Enc} (hs : AsciiSync e) : ∀ s : Bytes, (∀ c ∈ s, c ∈ syncBytes) → e.valid s = true := by
  intro s
  induction s with
  | nil => intro _; exact hs.nil
  | cons c s ih =>
    intro h
    have := hs.append [c] s (hs.single c (h c (List.mem_cons_self ..))) (ih (fun d hd => h d (List.mem_cons_of_mem _ hd)))
    simpa using this

/-- escaping keeps a valid text valid -/
theorem esc_valid {e : Enc} (hs : AsciiSync e) : ∀ (t pre : Bytes), e.valid (pre ++ t) = true →
    e.valid (pre ++ t.flatMap escapeByte) = true := by
  intro t
  induction t with
  | nil => intro pre h; simpa using h
  | cons c t ih =>
    intro pre h
    have hesc : ∀ (s : Bytes), (∀ d ∈ s, d ∈ syncBytes) → c ∈ syncBytes → escapeByte c = s →
        e.valid (pre ++ (c :: t).flatMap escapeByte) = true := by
      intro s hs1 hc he
      obtain ⟨h1, h2⟩ := hs.cut pre c t hc h
      have h3 := ih [] (by simpa using h2)
      simp only [List.flatMap_cons, he]
      exact hs.append _ _ h1 (hs.append _ _ (valid_of_all_sync hs s hs1) (by simpa using h3))
    rcases escapeByte_cases c with ⟨hc, he⟩ | ⟨hc, he⟩ | ⟨hc, he⟩ | ⟨hc, he⟩ | ⟨he, _⟩
    · exact hesc _ (by decide) (by rw [hc]; decide) he
    · exact hesc _ (by decide) (by rw [hc]; decide) he
    · exact hesc _ (by decide) (by rw [hc]; decide) he
    · exact hesc _ (by decide) (by rw [hc]; decide) he
    · have := ih (pre ++ [c]) (by simpa using h)
      simp only [List.flatMap_cons, he]
      simpa using this

theorem render_valid {e : Enc} (hs : AsciiSync e) (m : Method) : ∀ F : List Entry, (∀ f ∈ F, e.valid f.text = true) →
    e.valid (render m F) = true := by
  intro F
  induction F with
  | nil => intro _; exact hs.nil
  | cons f F ih =>
    intro h
    simp only [render, List.flatMap_cons]
    apply hs.append
    · unfold renderEntry
      split
      · cases m with
        | remove => exact hs.nil
        | escape => simpa using esc_valid hs f.text [] (by simpa using h f (List.mem_cons_self ..))
      · exact h f (List.mem_cons_self ..)
    · exact ih (fun g hg => h g (List.mem_cons_of_mem _ hg))

/-- `EncOk` for every validator synchronised at ASCII bytes whose pre-filter yields valid text -/
theorem asciiSync_encOk (e : Enc) (r : Rules) (hs : AsciiSync e)
    (hp : ∀ x, e.valid x = false → e.valid (e.prefilter x) = true) : EncOk e r := by
  refine ⟨hp, ?_⟩
  intro m y hy
  rw [← render_eq_filter]
  apply render_valid hs
  intro f hf
  -- the text of a final entry is the text of a token of `y`
  have htexts : (analyse r y).1.map (·.text) = (split y).map Prod.fst := by
    rw [analyse_eq_runF, alignedL_texts (good_aligned (runF_good r r.xhtml (parseAll y) (parseAll_pair y)))]
    unfold parseAll
    rw [List.map_map]
    apply List.map_congr_left
    intro tok _
    exact parsePart_text tok
  have : f.text ∈ (split y).map Prod.fst := by
    rw [← htexts]; exact List.mem_map_of_mem hf
  obtain ⟨tok, htok, heq⟩ := List.mem_map.mp this
  rw [← heq]
  exact tokens_valid hs y.length y (Nat.le_refl _) hy tok htok

/-- single-byte charsets are synchronised everywhere -/
theorem byteEnc_asciiSync (ok : UInt8 → Bool) (repl : UInt8) (h : ∀ c ∈ syncBytes, ok c = true) : AsciiSync (byteEnc ok repl) := by
  refine ⟨rfl, ?_, ?_, ?_⟩
  · intro a b ha hb
    simp only [byteEnc, List.all_append, ha, hb, Bool.and_self] at *
    simp [ha, hb]
  · intro a c b _ hv
    simp only [byteEnc, List.all_append, List.all_cons, Bool.and_eq_true] at hv ⊢
    exact ⟨hv.1, hv.2.2⟩
  · intro c hc
    simp [byteEnc, h c hc]
end Cppcms.C04
