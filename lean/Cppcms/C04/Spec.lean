import Cppcms.Common
import Cppcms.C04.Rules
/-!
C04 — independent specification: a deliberately *lenient*, browser-style tokenizer
(`lenientMarkup`) and the white-list predicate `Allowed`.

Nothing here refers to the filter's own tokenizer (no `Gen`/`Model` import).  Every `<`, `>` and
`&` of a text starts a markup candidate; candidates are cut the way a tolerant HTML parser would
cut them (tags end at the first `>` *outside* quotes, attribute values may be unquoted, form feed
is white space, entity references need not be terminated, `<!…>` / `<?…>` are bogus comments,
unterminated constructs run to the end of the text).  The property "the output contains only
white-listed markup" is `∀ m ∈ lenientMarkup out, Allowed r m`.

This tokenizer is this project's specification of "what a browser might see", not a browser.
-/
namespace Cppcms.C04.Spec
open Cppcms

inductive Markup
  /-- a `<`, `>` that is not part of any construct -/
  | stray (c : UInt8)
  /-- `&name` (+ `;` iff `terminated`); `name` may start with `#` -/
  | entity (name : Bytes) (terminated : Bool)
  /-- `<!--body-->` (`closed`) or `<!--body` running to the end of the text -/
  | comment (body : Bytes) (closed : Bool)
  /-- `<!…>`, `<?…>`, `</` + non-name: bogus comment / doctype / processing instruction -/
  | bogus (text : Bytes)
  /-- start or end tag -/
  | tag (closing : Bool) (name : Bytes) (attrs : List (Bytes × Option Bytes)) (selfClosing : Bool) (terminated : Bool)
  deriving DecidableEq, Repr

/-! ### byte classes (own definitions) -/

def ws (c : UInt8) : Bool := c = 32 || c = 9 || c = 10 || c = 13 || c = 12
def letter (c : UInt8) : Bool := (65 ≤ c && c ≤ 90) || (97 ≤ c && c ≤ 122)
def digit (c : UInt8) : Bool := 48 ≤ c && c ≤ 57
def hexdigit (c : UInt8) : Bool := digit c || (65 ≤ c && c ≤ 70) || (97 ≤ c && c ≤ 102)
/-- bytes an entity reference name may consist of, leniently -/
def entityChar (c : UInt8) : Bool := letter c || digit c || c = 35
/-- a tag name runs up to white space, `/` or `>` -/
def nameChar (c : UInt8) : Bool := !ws c && c != 47 && c != 62
/-- an attribute name runs up to white space, `/`, `>` or `=` -/
def attrNameChar (c : UInt8) : Bool := !ws c && c != 47 && c != 62 && c != 61
/-- an unquoted attribute value runs up to white space or `>` -/
def unquotedChar (c : UInt8) : Bool := !ws c && c != 62
/-- what may follow `<` to open a tag (after `!`, `?`, `/` were dealt with): anything but white
space and the three markup bytes -/
def tagStart (c : UInt8) : Bool := !ws c && c != 60 && c != 62 && c != 38

def indexOf (c : UInt8) : Bytes → Option Nat
  | [] => none
  | x :: xs => if x = c then some 0 else (indexOf c xs).map (· + 1)

/-- offset of the first occurrence of `-->` -/
def findCommentEnd : Bytes → Option Nat
  | [] => none
  | x :: xs =>
    if x = 45 ∧ xs.take 2 = [45, 62] then some 0 else (findCommentEnd xs).map (· + 1)

/-! ### the lenient tokenizer -/

structure TagTail where
  attrs : List (Bytes × Option Bytes)
  selfClosing : Bool
  terminated : Bool
  rest : Bytes

/-- attributes of a tag, up to and including the closing `>` -/
def lenientAttrs : Nat → Bytes → List (Bytes × Option Bytes) → TagTail
  | 0, _, acc => ⟨acc, false, false, []⟩
  | _ + 1, [], acc => ⟨acc, false, false, []⟩
  | n + 1, c :: rest, acc =>
    if ws c then lenientAttrs n rest acc
    else if c = 62 then ⟨acc, false, true, rest⟩
    else if c = 47 then
      match rest with
      | 62 :: more => ⟨acc, true, true, more⟩
      | _ => lenientAttrs n rest acc
    else
      let aname := c :: rest.takeWhile attrNameChar
      let s1 := (rest.dropWhile attrNameChar).dropWhile ws
      match s1 with
      | 61 :: s2 =>
        match s2.dropWhile ws with
        | [] => ⟨acc ++ [(aname, some [])], false, false, []⟩
        | q :: s4 =>
          if q = 34 ∨ q = 39 then
            match indexOf q s4 with
            | some k => lenientAttrs n (s4.drop (k + 1)) (acc ++ [(aname, some (s4.take k))])
            | none => ⟨acc ++ [(aname, some s4)], false, false, []⟩
          else
            lenientAttrs n ((q :: s4).dropWhile unquotedChar) (acc ++ [(aname, some ((q :: s4).takeWhile unquotedChar))])
      | _ => lenientAttrs n s1 (acc ++ [(aname, none)])

/-- a tag whose name starts at the head of `s` (after `<` or `</`) -/
def lenientTag (closing : Bool) (s : Bytes) : Markup × Bytes :=
  let name := s.takeWhile nameChar
  let t := lenientAttrs (s.length + 1) (s.dropWhile nameChar) []
  (.tag closing name t.attrs t.selfClosing t.terminated, t.rest)

def lenientAux : Nat → Bytes → List Markup
  | 0, _ => []
  | _ + 1, [] => []
  | n + 1, c :: rest =>
    if c = 38 then
      let name := rest.takeWhile entityChar
      match rest.dropWhile entityChar with
      | 59 :: more => .entity name true :: lenientAux n more
      | after => .entity name false :: lenientAux n after
    else if c = 62 then .stray 62 :: lenientAux n rest
    else if c = 60 then
      match rest with
      | [] => [.stray 60]
      | 33 :: 45 :: 45 :: more =>
        match findCommentEnd more with
        | some k => .comment (more.take k) true :: lenientAux n (more.drop (k + 3))
        | none => [.comment more false]
      | d :: more =>
        if d = 33 ∨ d = 63 then
          match indexOf 62 more with
          | some k => .bogus (c :: d :: more.take (k + 1)) :: lenientAux n (more.drop (k + 1))
          | none => [.bogus (c :: rest)]
        else if d = 47 then
          match more with
          | [] => [.stray 60]
          | e :: _ =>
            if tagStart e then
              let r := lenientTag true more
              r.1 :: lenientAux n r.2
            else
              match indexOf 62 more with
              | some k => .bogus (c :: d :: more.take (k + 1)) :: lenientAux n (more.drop (k + 1))
              | none => [.bogus (c :: rest)]
        else if tagStart d then
          let r := lenientTag false rest
          r.1 :: lenientAux n r.2
        else .stray 60 :: lenientAux n rest
    else lenientAux n rest

/-- all markup candidates of a text, in order -/
def lenientMarkup (x : Bytes) : List Markup := lenientAux (x.length + 1) x

/-! ### the white list -/

def asciiLower (c : UInt8) : UInt8 := if 65 ≤ c && c ≤ 90 then c + 32 else c

/-- names are compared exactly in XHTML and ASCII-case-insensitively in HTML -/
def sameName (xhtml : Bool) (a b : Bytes) : Bool :=
  if xhtml then a == b else a.map asciiLower == b.map asciiLower

/-- `#` digits+  |  `#x` hexdigits+ -/
def numericForm : Bytes → Bool
  | 35 :: d :: ds =>
    if d = 120 ∨ d = 88 then !ds.isEmpty && ds.all hexdigit else (d :: ds).all digit
  | _ => false

/-- the mathematical value of the digit string of a numeric reference (`none` if it is not of numeric form) -/
def hexVal (c : UInt8) : Nat :=
  if digit c then c.toNat - 48 else if 97 ≤ c then c.toNat - 87 else c.toNat - 55

def numericValue : Bytes → Nat
  | 35 :: d :: ds =>
    if d = 120 ∨ d = 88 then ds.foldl (fun acc c => acc * 16 + hexVal c) 0
    else (d :: ds).foldl (fun acc c => acc * 10 + hexVal c) 0
  | _ => 0

/-- XML 1.0 `Char`: `#x9 | #xA | #xD | [#x20-#xD7FF] | [#xE000-#xFFFD] | [#x10000-#x10FFFF]` — what a numeric
character reference may denote (no control characters, no surrogates, no non-characters FFFE/FFFF, nothing beyond
U+10FFFF), stated on the mathematical value of the digit string, however long -/
def xmlChar (v : Nat) : Bool :=
  v = 0x9 || v = 0xA || v = 0xD || (0x20 ≤ v && v ≤ 0xD7FF) || (0xE000 ≤ v && v ≤ 0xFFFD) || (0x10000 ≤ v && v ≤ 0x10FFFF)

/-- the character references an attribute value may contain: what may follow `&` -/
def valueEntities : List Bytes :=
  [[97, 109, 112, 59], [108, 116, 59], [103, 116, 59], [113, 117, 111, 116, 59], [97, 112, 111, 115, 59],
   [35, 120, 50, 55, 59], [35, 88, 50, 55, 59], [35, 51, 57, 59]]

/-- no `<`, `>`; every `&` starts one of `valueEntities` (the bytes of a recognised reference are
skipped) -/
def valueCleanAux : Nat → Bytes → Bool
  | _, [] => true
  | k + 1, _ :: rest => valueCleanAux k rest
  | 0, c :: rest =>
    if c = 60 ∨ c = 62 then false
    else if c = 38 then
      match valueEntities.find? (fun e => e.isPrefixOf rest) with
      | some e => valueCleanAux e.length rest
      | none => false
    else valueCleanAux 0 rest

def valueClean (v : Bytes) : Bool := valueCleanAux 0 v

def hasDashDash : Bytes → Bool
  | 45 :: 45 :: _ => true
  | _ :: rest => hasDashDash rest
  | [] => false

/-- the form of the tag must fit the kind registered for its name -/
def kindOk (xhtml closing selfClosing : Bool) : TagKind → Bool
  | .invalidTag => false
  | .anyTag => true
  | .openingAndClosing => !selfClosing
  | .standAlone => !closing && (selfClosing || !xhtml)

def attrOk (r : Rules) (tag : Bytes) (a : Bytes × Option Bytes) : Bool :=
  match a.2, r.prop tag a.1 with
  | _, none => false
  | none, some .boolean => !r.xhtml
  | none, some (.pred _) => false
  | some v, some .boolean => r.xhtml && a.1 == v
  | some v, some (.pred f) => valueClean v && f v

def attrsOk (r : Rules) (tag : Bytes) : List (Bytes × Option Bytes) → List Bytes → Bool
  | [], _ => true
  | a :: rest, seen =>
    !seen.any (sameName r.xhtml a.1) && attrOk r tag a && attrsOk r tag rest (a.1 :: seen)

def allowed (r : Rules) : Markup → Bool
  | .stray _ => false
  | .bogus _ => false
  | .entity name terminated =>
    terminated && (r.entity name || (r.numeric && numericForm name && xmlChar (numericValue name)))
  | .comment body closed =>
    closed && r.comments && body.all (fun c => c != 60 && c != 62 && c != 38) && !hasDashDash body
  | .tag closing name attrs selfClosing terminated =>
    terminated && kindOk r.xhtml closing selfClosing (r.tagKind name)
      && (if closing then attrs.isEmpty && !selfClosing else attrsOk r name attrs [])

/-- the markup item is one the rules allow -/
def Allowed (r : Rules) (m : Markup) : Prop := allowed r m = true

/-- the text contains only white-listed markup -/
def OnlyWhitelisted (r : Rules) (x : Bytes) : Prop := ∀ m ∈ lenientMarkup x, Allowed r m

/-! ### well-formed UTF-8 (RFC 3629, section 4), independent of the library's validator

```
UTF8-1 = %x00-7F
UTF8-2 = %xC2-DF UTF8-tail
UTF8-3 = %xE0 %xA0-BF UTF8-tail / %xE1-EC 2( UTF8-tail ) / %xED %x80-9F UTF8-tail / %xEE-EF 2( UTF8-tail )
UTF8-4 = %xF0 %x90-BF 2( UTF8-tail ) / %xF1-F3 3( UTF8-tail ) / %xF4 %x80-8F 2( UTF8-tail )
```
Used by the judge: whatever `validate` accepts under `encoding("UTF-8")`, and whatever the filter returns, must
satisfy this (the library's validator is stricter: it also rejects control characters). -/

def tail (c : UInt8) : Bool := 0x80 ≤ c && c ≤ 0xBF

def utf8WellFormed : Bytes → Bool
  | [] => true
  | a :: rest =>
    if a ≤ 0x7F then utf8WellFormed rest
    else match rest with
      | b :: rest1 =>
        if 0xC2 ≤ a && a ≤ 0xDF then tail b && utf8WellFormed rest1
        else match rest1 with
          | c :: rest2 =>
            if a = 0xE0 then 0xA0 ≤ b && b ≤ 0xBF && tail c && utf8WellFormed rest2
            else if (0xE1 ≤ a && a ≤ 0xEC) || a = 0xEE || a = 0xEF then tail b && tail c && utf8WellFormed rest2
            else if a = 0xED then 0x80 ≤ b && b ≤ 0x9F && tail c && utf8WellFormed rest2
            else match rest2 with
              | d :: rest3 =>
                if a = 0xF0 then 0x90 ≤ b && b ≤ 0xBF && tail c && tail d && utf8WellFormed rest3
                else if 0xF1 ≤ a && a ≤ 0xF3 then tail b && tail c && tail d && utf8WellFormed rest3
                else if a = 0xF4 then 0x80 ≤ b && b ≤ 0x8F && tail c && tail d && utf8WellFormed rest3
                else false
              | [] => false
          | [] => false
      | [] => false

/-! ### single-byte code pages, independent of the library's validators

Which bytes are text in a code page: TAB, LF, CR, the printable ASCII range 20–7E, and the bytes ≥ 80 the code page
assigns a graphic character to.  C0 controls, DEL and (for ISO-8859-x) the C1 range 80–9F are not text; unassigned
positions are listed per page (transcribed from the Unicode mapping tables MAPPINGS/ISO8859 and
MAPPINGS/VENDORS/MICSFT/WINDOWS, ISO-8859-7 in its 2003 edition).  Pages covered: ISO-8859-1…11, 13…16, windows-1250…1258,
KOI8-R/U, US-ASCII, with the aliases latin1, cp125x, ascii. -/

/-- encoding names are compared on their letters and digits, ASCII-case-insensitively -/
def normName (n : Bytes) : String :=
  String.ofList ((n.filter fun c => letter c || digit c).map fun c => Char.ofNat (asciiLower c).toNat)

/-- `none` = page not covered; `some (c1IsControl, unassigned)` -/
def codePage (n : String) : Option (Bool × List UInt8) :=
  let iso (l : List UInt8) := some (true, l)
  let win (l : List UInt8) := some (false, l)
  match n with
  | "latin1" | "iso88591" | "iso88592" | "iso88594" | "iso88595" | "iso88599" | "iso885910" | "iso885913"
  | "iso885914" | "iso885915" | "iso885916" => iso []
  | "iso88593" => iso [0xA5, 0xAE, 0xBE, 0xC3, 0xD0, 0xE3, 0xF0]
  | "iso88596" => iso ([0xA1, 0xA2, 0xA3, 0xA5, 0xA6, 0xA7, 0xA8, 0xA9, 0xAA, 0xAB, 0xAE, 0xAF, 0xB0, 0xB1, 0xB2, 0xB3, 0xB4, 0xB5,
      0xB6, 0xB7, 0xB8, 0xB9, 0xBA, 0xBC, 0xBD, 0xBE, 0xC0, 0xDB, 0xDC, 0xDD, 0xDE, 0xDF, 0xF3, 0xF4, 0xF5, 0xF6, 0xF7, 0xF8, 0xF9,
      0xFA, 0xFB, 0xFC, 0xFD, 0xFE, 0xFF])
  | "iso88597" => iso [0xAE, 0xD2, 0xFF]
  | "iso88598" => iso ([0xA1, 0xFB, 0xFC, 0xFF] ++ (List.range 32).map fun i => UInt8.ofNat (0xBF + i))
  | "iso885911" => iso [0xDB, 0xDC, 0xDD, 0xDE, 0xFC, 0xFD, 0xFE, 0xFF]
  | "windows1250" | "cp1250" => win [0x81, 0x83, 0x88, 0x90, 0x98]
  | "windows1251" | "cp1251" => win [0x98]
  | "windows1252" | "cp1252" => win [0x81, 0x8D, 0x8F, 0x90, 0x9D]
  | "windows1253" | "cp1253" => win [0x81, 0x88, 0x8A, 0x8C, 0x8D, 0x8E, 0x8F, 0x90, 0x98, 0x9A, 0x9C, 0x9D, 0x9E, 0x9F, 0xAA, 0xD2, 0xFF]
  | "windows1254" | "cp1254" => win [0x81, 0x8D, 0x8E, 0x8F, 0x90, 0x9D, 0x9E]
  | "windows1255" | "cp1255" => win [0x81, 0x8A, 0x8C, 0x8D, 0x8E, 0x8F, 0x90, 0x9A, 0x9C, 0x9D, 0x9E, 0x9F, 0xCA, 0xD9, 0xDA, 0xDB,
      0xDC, 0xDD, 0xDE, 0xDF, 0xFB, 0xFC, 0xFF]
  | "windows1256" | "cp1256" => win []
  | "windows1257" | "cp1257" => win [0x81, 0x83, 0x88, 0x8A, 0x8C, 0x90, 0x98, 0x9A, 0x9C, 0x9F, 0xA1, 0xA5]
  | "windows1258" | "cp1258" => win [0x81, 0x8A, 0x8D, 0x8E, 0x8F, 0x90, 0x9A, 0x9D, 0x9E]
  | "koi8r" | "koi8u" => win []
  | "usascii" | "ascii" => some (true, (List.range 96).map fun i => UInt8.ofNat (0xA0 + i))
  | _ => none

def pageByteOk (p : Bool × List UInt8) (c : UInt8) : Bool :=
  c = 9 || c = 10 || c = 13 || (0x20 ≤ c && c ≤ 0x7E) ||
    (0x80 ≤ c && !(p.1 && c < 0xA0) && !p.2.contains c)

/-- `none`: code page not covered by the tables -/
def singleByteTextOk (name : Bytes) (x : Bytes) : Option Bool :=
  (codePage (normName name)).map fun p => x.all (pageByteOk p)

end Cppcms.C04.Spec
