import Cppcms.Common
import Cppcms.C04.Rules
/-!
C04 — independent specification: a deliberately *lenient*, browser-style tokenizer
(`lenientMarkup`) and the white-list predicate `Allowed`.

Nothing here refers to the filter's own tokenizer (no `Gen`/`Model` import).  Every `<`, `>` and
`&` of a text starts a markup candidate; candidates are cut the way a tolerant HTML parser would
cut them (tags end at the first `>` *outside* quotes, attribute values may be unquoted, form feed
is white space, entity references need not be terminated, `<!…>` / `<?…>` are bogus comments,
unterminated constructs run to the end of the text).  The property "the output contains only
white-listed markup" is `∀ m ∈ lenientMarkup out, Allowed r m`.

This tokenizer is this project's specification of "what a browser might see", not a browser.
-/
namespace Cppcms.C04.Spec
open Cppcms

inductive Markup
  /-- a `<`, `>` that is not part of any construct -/
  | stray (c : UInt8)
  /-- `&name` (+ `;` iff `terminated`); `name` may start with `#` -/
  | entity (name : Bytes) (terminated : Bool)
  /-- `<!--body-->` (`closed`) or `<!--body` running to the end of the text -/
  | comment (body : Bytes) (closed : Bool)
  /-- `<!…>`, `<?…>`, `</` + non-name: bogus comment / doctype / processing instruction -/
  | bogus (text : Bytes)
  /-- start or end tag -/
  | tag (closing : Bool) (name : Bytes) (attrs : List (Bytes × Option Bytes)) (selfClosing : Bool) (terminated : Bool)
  deriving DecidableEq, Repr

/-! ### byte classes (own definitions) -/

def ws (c : UInt8) : Bool := c = 32 || c = 9 || c = 10 || c = 13 || c = 12
def letter (c : UInt8) : Bool := (65 ≤ c && c ≤ 90) || (97 ≤ c && c ≤ 122)
def digit (c : UInt8) : Bool := 48 ≤ c && c ≤ 57
def hexdigit (c : UInt8) : Bool := digit c || (65 ≤ c && c ≤ 70) || (97 ≤ c && c ≤ 102)
/-- bytes an entity reference name may consist of, leniently -/
def entityChar (c : UInt8) : Bool := letter c || digit c || c = 35
/-- a tag name runs up to white space, `/` or `>` -/
def nameChar (c : UInt8) : Bool := !ws c && c != 47 && c != 62
/-- an attribute name runs up to white space, `/`, `>` or `=` -/
def attrNameChar (c : UInt8) : Bool := !ws c && c != 47 && c != 62 && c != 61
/-- an unquoted attribute value runs up to white space or `>` -/
def unquotedChar (c : UInt8) : Bool := !ws c && c != 62
/-- what may follow `<` to open a tag (after `!`, `?`, `/` were dealt with): anything but white
space and the three markup bytes -/
def tagStart (c : UInt8) : Bool := !ws c && c != 60 && c != 62 && c != 38

def indexOf (c : UInt8) : Bytes → Option Nat
  | [] => none
  | x :: xs => if x = c then some 0 else (indexOf c xs).map (· + 1)

/-- offset of the first occurrence of `-->` -/
def findCommentEnd : Bytes → Option Nat
  | [] => none
  | x :: xs =>
    if x = 45 ∧ xs.take 2 = [45, 62] then some 0 else (findCommentEnd xs).map (· + 1)

/-! ### the lenient tokenizer -/

structure TagTail where
  attrs : List (Bytes × Option Bytes)
  selfClosing : Bool
  terminated : Bool
  rest : Bytes

/-- attributes of a tag, up to and including the closing `>` -/
def lenientAttrs : Nat → Bytes → List (Bytes × Option Bytes) → TagTail
  | 0, _, acc => ⟨acc, false, false, []⟩
  | _ + 1, [], acc => ⟨acc, false, false, []⟩
  | n + 1, c :: rest, acc =>
    if ws c then lenientAttrs n rest acc
    else if c = 62 then ⟨acc, false, true, rest⟩
    else if c = 47 then
      match rest with
      | 62 :: more => ⟨acc, true, true, more⟩
      | _ => lenientAttrs n rest acc
    else
      let aname := c :: rest.takeWhile attrNameChar
      let s1 := (rest.dropWhile attrNameChar).dropWhile ws
      match s1 with
      | 61 :: s2 =>
        match s2.dropWhile ws with
        | [] => ⟨acc ++ [(aname, some [])], false, false, []⟩
        | q :: s4 =>
          if q = 34 ∨ q = 39 then
            match indexOf q s4 with
            | some k => lenientAttrs n (s4.drop (k + 1)) (acc ++ [(aname, some (s4.take k))])
            | none => ⟨acc ++ [(aname, some s4)], false, false, []⟩
          else
            lenientAttrs n ((q :: s4).dropWhile unquotedChar) (acc ++ [(aname, some ((q :: s4).takeWhile unquotedChar))])
      | _ => lenientAttrs n s1 (acc ++ [(aname, none)])

/-- a tag whose name starts at the head of `s` (after `<` or `</`) -/
def lenientTag (closing : Bool) (s : Bytes) : Markup × Bytes :=
  let name := s.takeWhile nameChar
  let t := lenientAttrs (s.length + 1) (s.dropWhile nameChar) []
  (.tag closing name t.attrs t.selfClosing t.terminated, t.rest)

def lenientAux : Nat → Bytes → List Markup
  | 0, _ => []
  | _ + 1, [] => []
  | n + 1, c :: rest =>
    if c = 38 then
      let name := rest.takeWhile entityChar
      match rest.dropWhile entityChar with
      | 59 :: more => .entity name true :: lenientAux n more
      | after => .entity name false :: lenientAux n after
    else if c = 62 then .stray 62 :: lenientAux n rest
    else if c = 60 then
      match rest with
      | [] => [.stray 60]
      | 33 :: 45 :: 45 :: more =>
        match findCommentEnd more with
        | some k => .comment (more.take k) true :: lenientAux n (more.drop (k + 3))
        | none => [.comment more false]
      | d :: more =>
        if d = 33 ∨ d = 63 then
          match indexOf 62 more with
          | some k => .bogus (c :: d :: more.take (k + 1)) :: lenientAux n (more.drop (k + 1))
          | none => [.bogus (c :: rest)]
        else if d = 47 then
          match more with
          | [] => [.stray 60]
          | e :: _ =>
            if tagStart e then
              let r := lenientTag true more
              r.1 :: lenientAux n r.2
            else
              match indexOf 62 more with
              | some k => .bogus (c :: d :: more.take (k + 1)) :: lenientAux n (more.drop (k + 1))
              | none => [.bogus (c :: rest)]
        else if tagStart d then
          let r := lenientTag false rest
          r.1 :: lenientAux n r.2
        else .stray 60 :: lenientAux n rest
    else lenientAux n rest

/-- all markup candidates of a text, in order -/
def lenientMarkup (x : Bytes) : List Markup := lenientAux (x.length + 1) x

/-! ### the white list -/

def asciiLower (c : UInt8) : UInt8 := if 65 ≤ c && c ≤ 90 then c + 32 else c

/-- names are compared exactly in XHTML and ASCII-case-insensitively in HTML -/
def sameName (xhtml : Bool) (a b : Bytes) : Bool :=
  if xhtml then a == b else a.map asciiLower == b.map asciiLower

/-- `#` digits+  |  `#x` hexdigits+ -/
def numericForm : Bytes → Bool
  | 35 :: d :: ds =>
    if d = 120 ∨ d = 88 then !ds.isEmpty && ds.all hexdigit else (d :: ds).all digit
  | _ => false

/-- the character references an attribute value may contain: what may follow `&` -/
def valueEntities : List Bytes :=
  [[97, 109, 112, 59], [108, 116, 59], [103, 116, 59], [113, 117, 111, 116, 59], [97, 112, 111, 115, 59],
   [35, 120, 50, 55, 59], [35, 88, 50, 55, 59], [35, 51, 57, 59]]

/-- no `<`, `>`; every `&` starts one of `valueEntities` (the bytes of a recognised reference are
skipped) -/
def valueCleanAux : Nat → Bytes → Bool
  | _, [] => true
  | k + 1, _ :: rest => valueCleanAux k rest
  | 0, c :: rest =>
    if c = 60 ∨ c = 62 then false
    else if c = 38 then
      match valueEntities.find? (fun e => e.isPrefixOf rest) with
      | some e => valueCleanAux e.length rest
      | none => false
    else valueCleanAux 0 rest

def valueClean (v : Bytes) : Bool := valueCleanAux 0 v

def hasDashDash : Bytes → Bool
  | 45 :: 45 :: _ => true
  | _ :: rest => hasDashDash rest
  | [] => false

/-- the form of the tag must fit the kind registered for its name -/
def kindOk (xhtml closing selfClosing : Bool) : TagKind → Bool
  | .invalidTag => false
  | .anyTag => true
  | .openingAndClosing => !selfClosing
  | .standAlone => !closing && (selfClosing || !xhtml)

def attrOk (r : Rules) (tag : Bytes) (a : Bytes × Option Bytes) : Bool :=
  match a.2, r.prop tag a.1 with
  | _, none => false
  | none, some .boolean => !r.xhtml
  | none, some (.pred _) => false
  | some v, some .boolean => r.xhtml && a.1 == v
  | some v, some (.pred f) => valueClean v && f v

def attrsOk (r : Rules) (tag : Bytes) : List (Bytes × Option Bytes) → List Bytes → Bool
  | [], _ => true
  | a :: rest, seen =>
    !seen.any (sameName r.xhtml a.1) && attrOk r tag a && attrsOk r tag rest (a.1 :: seen)

def allowed (r : Rules) : Markup → Bool
  | .stray _ => false
  | .bogus _ => false
  | .entity name terminated => terminated && (r.entity name || (r.numeric && numericForm name))
  | .comment body closed =>
    closed && r.comments && body.all (fun c => c != 60 && c != 62 && c != 38) && !hasDashDash body
  | .tag closing name attrs selfClosing terminated =>
    terminated && kindOk r.xhtml closing selfClosing (r.tagKind name)
      && (if closing then attrs.isEmpty && !selfClosing else attrsOk r name attrs [])

/-- the markup item is one the rules allow -/
def Allowed (r : Rules) (m : Markup) : Prop := allowed r m = true

/-- the text contains only white-listed markup -/
def OnlyWhitelisted (r : Rules) (x : Bytes) : Prop := ∀ m ∈ lenientMarkup x, Allowed r m

/-! ### well-formed UTF-8 (RFC 3629, section 4), independent of the library's validator

```
UTF8-1 = %x00-7F
UTF8-2 = %xC2-DF UTF8-tail
UTF8-3 = %xE0 %xA0-BF UTF8-tail / %xE1-EC 2( UTF8-tail ) / %xED %x80-9F UTF8-tail / %xEE-EF 2( UTF8-tail )
UTF8-4 = %xF0 %x90-BF 2( UTF8-tail ) / %xF1-F3 3( UTF8-tail ) / %xF4 %x80-8F 2( UTF8-tail )
```
Used by the judge: whatever `validate` accepts under `encoding("UTF-8")`, and whatever the filter returns, must
satisfy this (the library's validator is stricter: it also rejects control characters). -/

def tail (c : UInt8) : Bool := 0x80 ≤ c && c ≤ 0xBF

def utf8WellFormed : Bytes → Bool
  | [] => true
  | a :: rest =>
    if a ≤ 0x7F then utf8WellFormed rest
    else match rest with
      | b :: rest1 =>
        if 0xC2 ≤ a && a ≤ 0xDF then tail b && utf8WellFormed rest1
        else match rest1 with
          | c :: rest2 =>
            if a = 0xE0 then 0xA0 ≤ b && b ≤ 0xBF && tail c && utf8WellFormed rest2
            else if (0xE1 ≤ a && a ≤ 0xEC) || a = 0xEE || a = 0xEF then tail b && tail c && utf8WellFormed rest2
            else if a = 0xED then 0x80 ≤ b && b ≤ 0x9F && tail c && utf8WellFormed rest2
            else match rest2 with
              | d :: rest3 =>
                if a = 0xF0 then 0x90 ≤ b && b ≤ 0xBF && tail c && tail d && utf8WellFormed rest3
                else if 0xF1 ≤ a && a ≤ 0xF3 then tail b && tail c && tail d && utf8WellFormed rest3
                else if a = 0xF4 then 0x80 ≤ b && b ≤ 0x8F && tail c && tail d && utf8WellFormed rest3
                else false
              | [] => false
          | [] => false
      | [] => false

end Cppcms.C04.Spec
