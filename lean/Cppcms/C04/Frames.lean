import Cppcms.C04.Model
/-!
C04 — an index-free reformulation of `validate_nesting` + the rules loop of
`validate_and_filter_if_invalid` ("frames" form), used only in proofs.

The C++ (and `Model.lean`) keep a stack of *indices* of pending open tags and patch entries in
place; the rules loop later invalidates partners through `tag.pair`.  Here the pending open tags
are *frames* holding the finished entries that precede them, finished entries are appended in
document order together with the verdict the rules loop will reach for them (`Bool` = "ends up
invalid_data"), and partners are decided together when the closing tag arrives.
`LemFrames.lean` proves that this computes exactly what the model computes.
-/
namespace Cppcms.C04
open Cppcms

/-- a finished entry as `validate_nesting` leaves it, and whether the rules loop invalidates it -/
abbrev FEntry := Entry × Bool

structure Frame where
  /-- finished entries between the enclosing pending open tag and this one -/
  before : List FEntry
  /-- the pending open tag, as parsed -/
  opn : Entry

/-- the entries seen so far, in document order (frames innermost first) -/
def flatF (frames : List Frame) (cur : List FEntry) : List FEntry :=
  frames.foldl (fun acc f => f.before ++ (f.opn, false) :: acc) cur

/-- an entry that has no partner: invalidated iff it fails the rules -/
def leafF (r : Rules) (e : Entry) : FEntry := (e, !entryOk r e)

/-- a matched pair at absolute positions `po`, `pc`: both invalidated iff either fails the rules -/
def pairF (r : Rules) (o c : Entry) (po pc : Nat) : FEntry × FEntry :=
  let o' := { o with pair := some pc }
  let c' := { c with pair := some po }
  let bad := !(entryOk r o' && entryOk r c')
  ((o', bad), (c', bad))

/-- HTML: pop frames until one matches the closing tag `e` (at absolute position `i`) -/
def popF (r : Rules) (e : Entry) (i : Nat) : List Frame → List FEntry → List Frame × List FEntry
  | [], cur => ([], cur ++ [leafF r { e with ty := .invalid }])
  | f :: fs, cur =>
    if streq false f.opn.name e.name then
      let p := pairF r f.opn e (flatF fs f.before).length i
      (fs, f.before ++ p.1 :: cur ++ [p.2])
    else popF r e i fs (f.before ++ leafF r { f.opn with ty := .openCloseNoSlash } :: cur)

def stepF (r : Rules) (xhtml : Bool) (s : List Frame × List FEntry) (e : Entry) : List Frame × List FEntry :=
  match e.ty with
  | .closeTag =>
    if xhtml then
      match s.1 with
      | [] => ([], s.2 ++ [leafF r { e with ty := .invalid }])
      | f :: fs =>
        if streq true f.opn.name e.name then
          let p := pairF r f.opn e (flatF fs f.before).length (flatF s.1 s.2).length
          (fs, f.before ++ p.1 :: s.2 ++ [p.2])
        else
          (fs, f.before ++ leafF r { f.opn with ty := .invalid } :: s.2 ++ [leafF r { e with ty := .invalid }])
    else popF r e (flatF s.1 s.2).length s.1 s.2
  | .openTag => (⟨s.2, e⟩ :: s.1, [])
  | _ => (s.1, s.2 ++ [leafF r e])

/-- the `while(!st.empty())` at the end of `validate_nesting` -/
def finishF (r : Rules) (xhtml : Bool) (frames : List Frame) (cur : List FEntry) : List FEntry :=
  frames.foldl (fun acc f =>
    f.before ++ leafF r { f.opn with ty := if xhtml then .invalid else .openCloseNoSlash } :: acc) cur

def runF (r : Rules) (xhtml : Bool) (es : List Entry) : List FEntry :=
  let s := es.foldl (stepF r xhtml) ([], [])
  finishF r xhtml s.1 s.2

/-- what the filter finally holds for an entry -/
def finalEntry (p : FEntry) : Entry := if p.2 then { p.1 with ty := .invalid } else p.1

end Cppcms.C04
