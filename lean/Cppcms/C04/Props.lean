import Cppcms.C04.Model
import Cppcms.C04.Spec
namespace Cppcms.C04.Props
theorem stub : True := trivial
end Cppcms.C04.Props
