import Cppcms.C04.Lemmas
/-!
C04 — property theorems.

Property: "For every input text and every rule set, the text returned by the filter passes
validation under the same rules, and every tag, attribute, attribute value, URI scheme, entity and
comment in it is one the rules allow — nothing that opens markup survives outside such an allowed
construct, in both remove and escape modes.  Input that validates is returned unchanged, and
validation never accepts text that is not well-formed in the declared character encoding."

Model: `Model.lean` (faithful transcription of src/xss.cpp; constants from `Gen.lean`).
Spec:  `Spec.lean` (`lenientMarkup`, `Allowed`), independent of the model.
`Rules` carries arbitrary attribute-value predicates (regex / URI validators are instances).
The encoding clause is not modelled here (rules.encoding() = ""), see design.d/C04.md.
-/
namespace Cppcms.C04.Props
open Cppcms Cppcms.C04

/-! ### full-strength statements -/

/-- (1) the filter's output validates, for every rule set, method and input -/
def FilterValidates : Prop :=
  ∀ (r : Rules) (m : Method) (x : Bytes), RulesOk r → validate r (filter r m x) = true

/-- (1)+(3) the filter's output contains only white-listed markup -/
def FilterOutputWhitelisted : Prop :=
  ∀ (r : Rules) (m : Method) (x : Bytes), RulesOk r → Spec.OnlyWhitelisted r (filter r m x)

/-! ### proved -/

/-- (2) input that validates is returned unchanged (both methods) -/
theorem valid_is_fixed_point (r : Rules) (m : Method) (x : Bytes) (h : validate r x = true) :
    filter r m x = x :=
  Cppcms.C04.valid_is_fixed_point r m x h

/-- the three entry points agree: `validate_and_filter_if_invalid` returns true (leaving its
output argument untouched) exactly when `validate` does -/
theorem validateAndFilter_none_iff (r : Rules) (m : Method) (x : Bytes) :
    validateAndFilter r m x = none ↔ validate r x = true :=
  validateAndFilter_eq_none r m x

/-- (3) whatever validates contains only white-listed markup, as cut by the independent lenient
tokenizer: every `<`, `>`, `&` of `y` belongs to a tag / entity / comment the rules allow, with
allowed attributes whose values pass their predicates and contain no markup bytes. -/
theorem whitelist_only (r : Rules) (y : Bytes) (h : validate r y = true) :
    ∀ m ∈ Spec.lenientMarkup y, Spec.Allowed r m :=
  Cppcms.C04.whitelist_only r y h

/-- (1) ⇒ (1)+(3): once the filter's output is known to validate, it is white-listed -/
theorem whitelisted_of_filterValidates (h : FilterValidates) : FilterOutputWhitelisted :=
  fun r m x hr => whitelist_only r _ (h r m x hr)

/-- (1), the proved fragment of `FilterValidates`: **XHTML rule sets** (`r.xhtml = true`, the default of
`xss::rules`), every input, both `remove_invalid` and `escape_invalid`.  HTML mode (`r.xhtml = false`:
pop-until-found nesting with re-typing to open_and_close_tag_without_slash) is not proved; it is covered by
the judge on the real library only (see design.d/C04.md). -/
theorem filter_validates_partial (r : Rules) (m : Method) (x : Bytes) (hr : RulesOk r) (hx : r.xhtml = true) :
    validate r (filter r m x) = true :=
  filter_validates_xhtml r hr hx m x

/-- (1)+(3) for XHTML rule sets: the filter's output contains only white-listed markup -/
theorem filter_output_whitelisted_partial (r : Rules) (m : Method) (x : Bytes) (hr : RulesOk r) (hx : r.xhtml = true) :
    Spec.OnlyWhitelisted r (filter r m x) :=
  whitelist_only r _ (filter_validates_partial r m x hr hx)

/-- for XHTML rule sets the filter is idempotent -/
theorem filter_idempotent_partial (r : Rules) (m m' : Method) (x : Bytes) (hr : RulesOk r) (hx : r.xhtml = true) :
    filter r m' (filter r m x) = filter r m x :=
  valid_is_fixed_point r m' _ (filter_validates_partial r m x hr hx)

/-! ### non-vacuity -/

/-- `<a href="…">` (opening_and_closing, href = alphanumerics), `<br/>` (stand_alone) -/
def exRules (xhtml : Bool) : Rules where
  xhtml := xhtml
  tagKind := fun n => if n = [97] then .openingAndClosing else if n = [98, 114] then .standAlone else .invalidTag
  prop := fun t p => if t = [97] ∧ p = [104, 114, 101, 102] then some (.pred fun v => v.all isAlnum) else none
  entity := fun n => (Gen.defaultEntities.map bytesOf).contains n
  comments := true
  numeric := false

theorem exRules_ok (x : Bool) : RulesOk (exRules x) := by
  cases x <;> exact ⟨by decide, by decide, by decide, by decide⟩

/-- `<a href='x1'>t&amp;</a><br/><!-- c -->` -/
def exValid : Bytes :=
  [60, 97, 32, 104, 114, 101, 102, 61, 39, 120, 49, 39, 62, 116, 38, 97, 109, 112, 59, 60, 47, 97, 62, 60, 98, 114, 47, 62,
   60, 33, 45, 45, 32, 99, 32, 45, 45, 62]

/-- `<a href='x 1'>t</a><b>&foo;` : bad attribute value, unknown tag, unknown entity -/
def exInvalid : Bytes :=
  [60, 97, 32, 104, 114, 101, 102, 61, 39, 120, 32, 49, 39, 62, 116, 60, 47, 97, 62, 60, 98, 62, 38, 102, 111, 111, 59]

example : validate (exRules true) exValid = true := by decide +kernel
example : (Spec.lenientMarkup exValid).length = 5 := by decide +kernel
example : validate (exRules true) exInvalid = false := by decide +kernel
/-- remove: `t`; escape: `&lt;a href='x 1'&gt;t&lt;/a&gt;&lt;b&gt;&amp;foo;` -/
example : filter (exRules true) .remove exInvalid = [116] := by decide +kernel
example : validate (exRules true) (filter (exRules true) .escape exInvalid) = true := by decide +kernel
example : filter (exRules true) .escape exInvalid ≠ exInvalid := by decide +kernel
example : (exRules true).xhtml = true := rfl
/-- the conclusion of `filter_validates_partial` is not vacuous: the filter really changes this input -/
example : filter (exRules true) .remove exInvalid ≠ exInvalid ∧
    validate (exRules true) (filter (exRules true) .remove exInvalid) = true :=
  ⟨by decide +kernel, filter_validates_partial _ _ _ (exRules_ok true) rfl⟩

end Cppcms.C04.Props
