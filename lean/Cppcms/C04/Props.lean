import Cppcms.C04.Lemmas
/-!
C04 — property theorems.

Property: "For every input text and every rule set, the text returned by the filter passes
validation under the same rules, and every tag, attribute, attribute value, URI scheme, entity and
comment in it is one the rules allow — nothing that opens markup survives outside such an allowed
construct, in both remove and escape modes.  Input that validates is returned unchanged, and
validation never accepts text that is not well-formed in the declared character encoding."

Model: `Model.lean` (faithful transcription of src/xss.cpp; constants from `Gen.lean`).
Spec:  `Spec.lean` (`lenientMarkup`, `Allowed`), independent of the model.
`Rules` carries arbitrary attribute-value predicates (regex / URI validators are instances).
The encoding clause is not modelled here (rules.encoding() = ""), see design.d/C04.md.
-/
namespace Cppcms.C04.Props
open Cppcms Cppcms.C04

/-! ### full-strength statements -/

/-- (1) the filter's output validates: every rule set a `rules` object can represent (`RulesOk`: the four
default entities are present; in HTML mode `HtmlCaseOk`: tag lookups do not depend on ASCII case, as with the
`icompare_c_string`-ordered map), every method, every input. -/
def FilterValidates : Prop :=
  ∀ (r : Rules) (m : Method) (x : Bytes), RulesOk r → (r.xhtml = false → HtmlCaseOk r) →
    validate r (filter r m x) = true

/-- (1)+(3) the filter's output contains only white-listed markup -/
def FilterOutputWhitelisted : Prop :=
  ∀ (r : Rules) (m : Method) (x : Bytes), RulesOk r → (r.xhtml = false → HtmlCaseOk r) →
    Spec.OnlyWhitelisted r (filter r m x)

/-! ### proved -/

/-- (2) input that validates is returned unchanged (both methods) -/
theorem valid_is_fixed_point (r : Rules) (m : Method) (x : Bytes) (h : validate r x = true) :
    filter r m x = x :=
  Cppcms.C04.valid_is_fixed_point r m x h

/-- the three entry points agree: `validate_and_filter_if_invalid` returns true (leaving its
output argument untouched) exactly when `validate` does -/
theorem validateAndFilter_none_iff (r : Rules) (m : Method) (x : Bytes) :
    validateAndFilter r m x = none ↔ validate r x = true :=
  validateAndFilter_eq_none r m x

/-- (3) whatever validates contains only white-listed markup, as cut by the independent lenient
tokenizer: every `<`, `>`, `&` of `y` belongs to a tag / entity / comment the rules allow, with
allowed attributes whose values pass their predicates and contain no markup bytes. -/
theorem whitelist_only (r : Rules) (y : Bytes) (h : validate r y = true) :
    ∀ m ∈ Spec.lenientMarkup y, Spec.Allowed r m :=
  Cppcms.C04.whitelist_only r y h

/-- (1) **the filter's output validates** — XHTML and HTML rule sets, `remove_invalid` and `escape_invalid`,
arbitrary attribute-value predicates, all byte strings. -/
theorem filter_validates : FilterValidates :=
  fun r m x hr hc => filter_validates_all r hr hc m x

/-- (1)+(3) the filter's output contains only white-listed markup -/
theorem filter_output_whitelisted : FilterOutputWhitelisted :=
  fun r m x hr hc => whitelist_only r _ (filter_validates r m x hr hc)

/-- the filter is idempotent (also across methods) -/
theorem filter_idempotent (r : Rules) (m m' : Method) (x : Bytes) (hr : RulesOk r) (hc : r.xhtml = false → HtmlCaseOk r) :
    filter r m' (filter r m x) = filter r m x :=
  valid_is_fixed_point r m' _ (filter_validates r m x hr hc)

/-- the XHTML instance (no side condition beyond `RulesOk`) -/
theorem filter_validates_xhtml (r : Rules) (m : Method) (x : Bytes) (hr : RulesOk r) (hx : r.xhtml = true) :
    validate r (filter r m x) = true :=
  filter_validates r m x hr (fun h => by rw [hx] at h; cases h)

/-- the hypotheses are those of real `rules` objects: every rule set the `add_*` calls build satisfies them -/
theorem mkRules_hypotheses (d : RuleDesc) (oracle : Nat → Bytes → Bool) :
    RulesOk (mkRules d oracle) ∧ ((mkRules d oracle).xhtml = false → HtmlCaseOk (mkRules d oracle)) :=
  ⟨mkRules_rulesOk d oracle, fun h => mkRules_htmlCaseOk d oracle h⟩

/-- hence for every rule set the `add_*` calls can build, with any verdicts of the external validators -/
theorem filter_validates_mkRules (d : RuleDesc) (oracle : Nat → Bytes → Bool) (m : Method) (x : Bytes) :
    validate (mkRules d oracle) (filter (mkRules d oracle) m x) = true :=
  filter_validates _ m x (mkRules_hypotheses d oracle).1 (mkRules_hypotheses d oracle).2

/-! ### with a declared encoding (`rules::encoding()`), ASCII-compatible case

`Enc` = the external `encoding::valid` / `encoding::validate_or_filter` (property C14) for the declared encoding and
replacement character. -/

/-- (4) validation never accepts text the encoding validator rejects -/
theorem validate_implies_encoding_ok (e : Enc) (r : Rules) (x : Bytes) (h : validateE (some e) r x = true) :
    e.valid x = true :=
  validateE_encoding e r x h

/-- (1) with a declared encoding, for every validator `e` satisfying `EncOk e r` (its pre-filter yields valid text;
removing tokens / inserting the ASCII escapes keeps valid text valid) -/
theorem filter_validates_encoded (r : Rules) (e : Enc) (m : Method) (x : Bytes) (hr : RulesOk r)
    (hc : r.xhtml = false → HtmlCaseOk r) (he : EncOk e r) :
    validateE (some e) r (filterE (some e) r m x) = true :=
  filterE_validates_all r hr hc e he m x

/-- every single-byte charset validator (a per-byte test that accepts the bytes of `&lt; &gt; &amp; &quot;`, used
with replacement character NUL = "remove" or an accepted byte) satisfies `EncOk` — ISO-8859-x, windows-125x, koi8,
US-ASCII in `encoding_validators.h` are of this form.  (For UTF-8 `EncOk` is not proved here: judge-only.) -/
theorem single_byte_encOk (ok : UInt8 → Bool) (repl : UInt8) (r : Rules) (hesc : ∀ b ∈ escAlphabet, ok b = true)
    (hrepl : repl = 0 ∨ ok repl = true) : EncOk (byteEnc ok repl) r :=
  byteEnc_ok ok repl r hesc hrepl

/-- multi-byte validators (UTF-8): `EncOk` follows from `AsciiSync e` — the empty text is valid, valid texts can be
joined, and a valid text can be cut at any of the ASCII bytes `< > & ; "` and the letters of the escape strings, each
of which is valid on its own ("an accepted ASCII byte is a character on its own") — together with "the pre-filter
yields valid text".  Both are statements about the encoding validator alone (property C14); they are **not** proved
for the real UTF-8 validator here. -/
theorem ascii_sync_encOk (e : Enc) (r : Rules) (hs : AsciiSync e)
    (hp : ∀ x, e.valid x = false → e.valid (e.prefilter x) = true) : EncOk e r :=
  asciiSync_encOk e r hs hp

/-- **UTF-8** (`rules::encoding("UTF-8")`): `utf8Enc repl` is the model of `encoding::valid_utf8` /
`validate_or_filter_utf8` that property C14 proves exact (`Cppcms.C14.Props.validate_iff_wellformed`,
`filter_yields_valid`).  Clause 1 holds for it with no hypothesis beyond the replacement-character precondition
`ReplOk repl` (NUL = delete, or a byte that is itself valid HTML-safe UTF-8). -/
theorem filter_validates_utf8 (r : Rules) (repl : UInt8) (m : Method) (x : Bytes) (hr : RulesOk r)
    (hc : r.xhtml = false → HtmlCaseOk r) (hrepl : Cppcms.C14.Spec.ReplOk repl) :
    validateE (some (utf8Enc repl)) r (filterE (some (utf8Enc repl)) r m x) = true :=
  filterE_validates_all r hr hc (utf8Enc repl) (utf8Enc_ok repl r hrepl) m x

/-- clause 4 for UTF-8, in terms of RFC 3629: what `validate` accepts under a declared UTF-8 encoding is a concatenation
of RFC 3629 encodings of HTML-safe code points (C14's `WellFormed true`) -/
theorem validate_implies_utf8_wellformed (r : Rules) (repl : UInt8) (x : Bytes)
    (h : validateE (some (utf8Enc repl)) r x = true) : ∃ n, Cppcms.C14.Spec.WellFormed true x n :=
  (utf8_valid_iff x).1 (validateE_encoding (utf8Enc repl) r x h)

example : Cppcms.C14.Spec.ReplOk 0 := Or.inl rfl
/-- non-vacuity: `a é <b` (invalid markup, valid UTF-8) and `a \xff` (invalid UTF-8) -/
example : (utf8Enc 0).valid [97, 0xC3, 0xA9] = true ∧ (utf8Enc 0).valid [97, 0xFF] = false := by decide +kernel

/-! ### the URI validator (`rules::uri_validator`, `relative_uri_validator`; model in `Uri.lean`) -/

/-- "every URI scheme is one the rules allow": for the model of `uri_parser`/`uri_validator_functor`, with the scheme
expression an arbitrary predicate — if an accepted text has a scheme (letter, then letters/digits/`+-.`, then `:`),
the validator is not the relative one and the scheme expression matched exactly that scheme; an `absolute_uri`
validator accepts only texts that have one. -/
theorem uri_validator_scheme_whitelist (k : Uri.Kind) (schemeOk : Bytes → Bool) (v : Bytes)
    (h : Uri.validator k schemeOk v = true) :
    (∀ sch, Uri.schemeOf v = some sch → k ≠ .relative ∧ schemeOk sch = true) ∧
    (k = .full → ∃ sch, Uri.schemeOf v = some sch ∧ schemeOk sch = true) :=
  Uri.validator_scheme k schemeOk v h

/-- the byte alphabet of accepted URI texts: every byte of a text any of the three validators accepts is a printable
ASCII byte other than `"  <  >  \  [  ]  ^  \`  {  |  }` (so: no space, no control character, no byte ≥ 0x7F, no double
quote, no angle bracket), and every `&` in it starts `&amp;` or `&apos;`.  (The single quote is an RFC 3986 sub-delim and
is admitted.) -/
theorem uri_accepted_bytes_safe (k : Uri.Kind) (schemeOk : Bytes → Bool) (v : Bytes)
    (h : Uri.validator k schemeOk v = true) :
    (∀ b ∈ v, Uri.byteOk b = true) ∧ Uri.refsOk v = true :=
  ⟨Uri.safe_bytes (Uri.validator_safe k schemeOk v h), Uri.safe_refs (Uri.validator_safe k schemeOk v h)⟩

/-- the scheme white list as a browser sees it: decode the character references of the accepted attribute value
(`&amp;` → `&`, `&apos;` → `'`), apply the first steps of WHATWG URL parsing (strip leading/trailing C0-and-space,
drop TAB/LF/CR, read letter (letter|digit|+|-|.)* `:`): if that yields a scheme, the validator is not the relative
one and the scheme expression matched exactly these bytes.  This closes the lax spot of `relative_part()` /
`authority()` (no `//` required, no backtracking after `userinfo()`): texts like `x_javascript:alert(1)`,
`%6Aavascript:…`, `:x`, `1javascript:…` are accepted as relative references, and none of them has a scheme for a browser. -/
theorem uri_browser_scheme_allowed (k : Uri.Kind) (schemeOk : Bytes → Bool) (v : Bytes)
    (h : Uri.validator k schemeOk v = true) :
    ∀ sch, Uri.browserScheme (Uri.decodeRefs v) = some sch → k ≠ .relative ∧ schemeOk sch = true := by
  intro sch hs
  rw [Uri.browserScheme_decode (Uri.validator_safe k schemeOk v h)] at hs
  exact (Uri.validator_scheme k schemeOk v h).1 sch hs

/-- non-vacuity: `x_javascript:alert(1)` is accepted by the `uri` validator (as a relative reference) and has no scheme for a browser -/
example : Uri.validator .both (fun _ => false) [120, 95, 106, 97, 118, 97, 115, 99, 114, 105, 112, 116, 58, 97, 108, 101, 114, 116, 40, 49, 41] = true ∧
    Uri.browserScheme (Uri.decodeRefs [120, 95, 106, 97, 118, 97, 115, 99, 114, 105, 112, 116, 58, 97, 108, 101, 114, 116, 40, 49, 41]) = none := by
  decide +kernel

/-- non-vacuity: `http://a/?x=1&amp;y=2#f` is accepted when `http` is allowed, and has that scheme -/
example : Uri.validator .full (fun s => s == [104, 116, 116, 112])
    [104, 116, 116, 112, 58, 47, 47, 97, 47, 63, 120, 61, 49, 38, 97, 109, 112, 59, 121, 61, 50, 35, 102] = true := by decide +kernel
example : Uri.schemeOf [104, 116, 116, 112, 58, 47, 47, 97, 47] = some [104, 116, 116, 112] := by decide +kernel

/-! `HtmlCaseOk` cannot be dropped for the *abstract* `Rules` type (whose `tagKind` is an arbitrary function):
with `b` opening_and_closing but `B` stand_alone (impossible for a real HTML-mode `rules` object, whose map is
keyed case-insensitively) the output `<b><B></b>` of `<b><x><B></x></b>` does not validate. -/

def caseSplitRules : Rules where
  xhtml := false
  tagKind := fun n => if n = [98] then .openingAndClosing else if n = [66] then .standAlone else .invalidTag
  prop := fun _ _ => none
  entity := fun n => (Gen.defaultEntities.map bytesOf).contains n
  comments := false
  numeric := false

theorem htmlCaseOk_needed_counterexample :
    RulesOk caseSplitRules ∧
    validate caseSplitRules (filter caseSplitRules .remove
      [60, 98, 62, 60, 120, 62, 60, 66, 62, 60, 47, 120, 62, 60, 47, 98, 62]) = false :=
  ⟨⟨by decide, by decide, by decide, by decide⟩, by decide +kernel⟩

/-! ### non-vacuity -/

/-- `<a href="…">` (opening_and_closing, href = alphanumerics), `<br/>` (stand_alone) -/
def exRules (xhtml : Bool) : Rules where
  xhtml := xhtml
  tagKind := fun n => if n = [97] then .openingAndClosing else if n = [98, 114] then .standAlone else .invalidTag
  prop := fun t p => if t = [97] ∧ p = [104, 114, 101, 102] then some (.pred fun v => v.all isAlnum) else none
  entity := fun n => (Gen.defaultEntities.map bytesOf).contains n
  comments := true
  numeric := false

theorem exRules_ok (x : Bool) : RulesOk (exRules x) := by
  cases x <;> exact ⟨by decide, by decide, by decide, by decide⟩

/-- `<a href='x1'>t&amp;</a><br/><!-- c -->` -/
def exValid : Bytes :=
  [60, 97, 32, 104, 114, 101, 102, 61, 39, 120, 49, 39, 62, 116, 38, 97, 109, 112, 59, 60, 47, 97, 62, 60, 98, 114, 47, 62,
   60, 33, 45, 45, 32, 99, 32, 45, 45, 62]

/-- `<a href='x 1'>t</a><b>&foo;` : bad attribute value, unknown tag, unknown entity -/
def exInvalid : Bytes :=
  [60, 97, 32, 104, 114, 101, 102, 61, 39, 120, 32, 49, 39, 62, 116, 60, 47, 97, 62, 60, 98, 62, 38, 102, 111, 111, 59]

example : validate (exRules true) exValid = true := by decide +kernel
example : (Spec.lenientMarkup exValid).length = 5 := by decide +kernel
example : validate (exRules true) exInvalid = false := by decide +kernel
/-- remove: `t`; escape: `&lt;a href='x 1'&gt;t&lt;/a&gt;&lt;b&gt;&amp;foo;` -/
example : filter (exRules true) .remove exInvalid = [116] := by decide +kernel
example : validate (exRules true) (filter (exRules true) .escape exInvalid) = true := by decide +kernel
example : filter (exRules true) .escape exInvalid ≠ exInvalid := by decide +kernel
example : (exRules true).xhtml = true := rfl
/-- the conclusion of `filter_validates` is not vacuous: the filter really changes this input -/
example : filter (exRules true) .remove exInvalid ≠ exInvalid ∧
    validate (exRules true) (filter (exRules true) .remove exInvalid) = true :=
  ⟨by decide +kernel, filter_validates_xhtml _ _ _ (exRules_ok true) rfl⟩

/-- an HTML-mode rule set meeting both hypotheses (`exRules false` distinguishes no case variants: only
lower-case names are registered, so it is *not* case-closed; the `mkRules` instance below is) -/
def exHtml : RuleDesc :=
  { xhtml := false, comments := true, numeric := true, entities := [],
    tags := [([112], .anyTag), ([98], .openingAndClosing), ([104, 114], .standAlone)], props := [] }

/-- `<b><P>x</B>y<hr>&#65;</q>` in HTML mode: `</B>` closes `<b>` over the unclosed `<P>`; `</q>` is dropped -/
def exHtmlInput : Bytes :=
  [60, 98, 62, 60, 80, 62, 120, 60, 47, 66, 62, 121, 60, 104, 114, 62, 38, 35, 54, 53, 59, 60, 47, 113, 62]

example : validate (mkRules exHtml fun _ _ => false) exHtmlInput = false := by decide +kernel
example : filter (mkRules exHtml fun _ _ => false) .remove exHtmlInput =
    [60, 98, 62, 60, 80, 62, 120, 60, 47, 66, 62, 121, 60, 104, 114, 62, 38, 35, 54, 53, 59] := by decide +kernel
/-- `AsciiSync` is satisfiable: a single-byte validator accepting printable ASCII -/
example : AsciiSync (byteEnc (fun c => 32 ≤ c && c ≤ 126) 0) := byteEnc_asciiSync _ _ (by decide)
example : validate (mkRules exHtml fun _ _ => false) (filter (mkRules exHtml fun _ _ => false) .escape exHtmlInput) = true :=
  filter_validates_mkRules exHtml _ .escape exHtmlInput

end Cppcms.C04.Props
