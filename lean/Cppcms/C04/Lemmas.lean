import Cppcms.C04.LemRules
import Cppcms.C04.LemSplit
import Cppcms.C04.LemLenient
import Cppcms.C04.LemNestRel
import Cppcms.C04.LemTokens
import Cppcms.C04.LemAttrs
import Cppcms.C04.LemWhitelist
import Cppcms.C04.LemFrames
import Cppcms.C04.LemGood
import Cppcms.C04.LemRuleLoop
import Cppcms.C04.LemSecondRun
import Cppcms.C04.LemStable
import Cppcms.C04.LemHtml
import Cppcms.C04.LemEnc
import Cppcms.C04.LemSync
import Cppcms.C04.LemUri
import Cppcms.C04.LemUriSafe
/-! C04 helper lemmas (aggregator).  The parts live in `Lem*.lean`; none imports Mathlib. -/
