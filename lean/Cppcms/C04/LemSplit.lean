import Cppcms.C04.Model
/-! C04 lemmas, part 2: the tokenizer (split_to_parts) — constants, fuel independence, unfolding equation. -/
namespace Cppcms.C04
open Cppcms

@[simp] theorem cAmp_eq : cAmp = 38 := by decide
@[simp] theorem cSemi_eq : cSemi = 59 := by decide
@[simp] theorem cLt_eq : cLt = 60 := by decide
@[simp] theorem cGt_eq : cGt = 62 := by decide
@[simp] theorem cTagEnd_eq : cTagEnd = 62 := by decide
@[simp] theorem cSlash_eq : cSlash = 47 := by decide
@[simp] theorem cSelfClose_eq : cSelfClose = 47 := by decide
@[simp] theorem cEq_eq : cEq = 61 := by decide
@[simp] theorem ccA_eq : ccA = 45 := by decide
@[simp] theorem ccB_eq : ccB = 45 := by decide
@[simp] theorem ccC_eq : ccC = 62 := by decide
@[simp] theorem commentOpen_eq : commentOpen = [33, 45, 45] := by decide
@[simp] theorem commentLookahead_eq : Gen.commentLookahead = 4 := by decide
@[simp] theorem commentBodyStart_eq : Gen.commentBodyStart = 4 := by decide

theorem isSpecial_iff (c : UInt8) : isSpecial c = true ↔ c = 60 ∨ c = 62 ∨ c = 38 := by
  revert c; apply forall_uint8; decide +kernel

theorem findByte_lt {c : UInt8} {s : Bytes} {k : Nat} (h : findByte c s = some k) : k < s.length := by
  induction s generalizing k with
  | nil => simp [findByte] at h
  | cons x xs ih =>
    unfold findByte at h
    split at h
    · simp at h; subst h; simp
    · cases h2 : findByte c xs with
      | none => simp [h2] at h
      | some j => simp [h2] at h; subst h; have := ih h2; simp; omega

theorem findPair_lt {a b : UInt8} {s : Bytes} {k : Nat} (h : findPair a b s = some k) : k + 1 < s.length := by
  induction s generalizing k with
  | nil => simp [findPair] at h
  | cons x xs ih =>
    cases xs with
    | nil => simp [findPair] at h
    | cons y rest =>
      unfold findPair at h
      split at h
      · simp at h; subst h; simp
      · cases h2 : findPair a b (y :: rest) with
        | none => simp [h2] at h
        | some j => simp [h2] at h; subst h; have := ih h2; simp at this ⊢; omega

theorem splitAux_fuel : ∀ (n m : Nat) (x : Bytes), x.length < n → x.length < m → splitAux n x = splitAux m x := by
  intro n
  induction n with
  | zero => intro m x h; omega
  | succ n ih =>
    intro m x hn hm
    cases m with
    | zero => omega
    | succ m =>
      cases x with
      | nil => simp [splitAux]
      | cons c rest =>
        simp only [List.length_cons] at hn hm
        have hd : ∀ k, splitAux n (rest.drop k) = splitAux m (rest.drop k) := by
          intro k; apply ih <;> (simp; omega)
        have h0 : splitAux n rest = splitAux m rest := by apply ih <;> omega
        have hw : ∀ p : UInt8 → Bool, splitAux n (rest.dropWhile p) = splitAux m (rest.dropWhile p) := by
          intro p; have := (List.dropWhile_sublist (l := rest) p).length_le; apply ih <;> omega
        simp only [splitAux, hd, h0, hw]

theorem splitAux_eq_split {n : Nat} {x : Bytes} (h : x.length < n) : splitAux n x = split x :=
  splitAux_fuel _ _ _ h (Nat.lt_succ_self _)

@[simp] theorem split_nil : split [] = [] := by simp [split, splitAux]

theorem split_cons (c : UInt8) (rest : Bytes) : split (c :: rest) =
    if c = 38 then
      match findByte 59 rest with
      | none => [(c :: rest, .invalid)]
      | some k => (c :: rest.take (k + 1), .entity) :: split (rest.drop (k + 1))
    else if c = 60 then
      if 4 < (c :: rest).length ∧ rest.take 3 = [33, 45, 45] then
        match findPair 45 45 (rest.drop 3) with
        | none => [(c :: rest, .invalid)]
        | some j =>
          if (rest.drop 3)[j + 2]? = some 62 then
            (c :: rest.take (3 + j + 3),
              if ((rest.drop 3).take j).any (fun b => Gen.commentForbidden b.toNat) then Ty.invalid else Ty.comment)
              :: split (rest.drop (3 + j + 3))
          else [(c :: rest, .invalid)]
      else
        match findByte 62 rest with
        | none => [(c :: rest, .invalid)]
        | some k => (c :: rest.take (k + 1), .tag) :: split (rest.drop (k + 1))
    else if c = 62 then ([c], .invalid) :: split rest
    else (c :: rest.takeWhile (fun b => !isSpecial b), .plain) :: split (rest.dropWhile (fun b => !isSpecial b)) := by
  have hd : ∀ k, splitAux (rest.length + 1) (rest.drop k) = split (rest.drop k) := by
    intro k; apply splitAux_eq_split; simp; omega
  have h0 : splitAux (rest.length + 1) rest = split rest := splitAux_eq_split (by omega)
  have hw : ∀ p : UInt8 → Bool, splitAux (rest.length + 1) (rest.dropWhile p) = split (rest.dropWhile p) := by
    intro p; have := (List.dropWhile_sublist (l := rest) p).length_le; apply splitAux_eq_split; omega
  conv => lhs; unfold split
  simp only [List.length_cons, splitAux, hd, h0, hw, cAmp_eq, cSemi_eq, cLt_eq, cGt_eq, cTagEnd_eq, ccA_eq, ccB_eq, ccC_eq,
    commentOpen_eq, commentLookahead_eq, commentBodyStart_eq, List.length_cons, List.length_nil]
  rfl
end Cppcms.C04
