import Cppcms.C04.Model
/-! C04 lemmas, part 1: the rules loop of validate_and_filter_if_invalid computes validate's verdict;
valid input is a fixed point of filter. -/
namespace Cppcms.C04
open Cppcms

def okAt (r : Rules) (es : List Entry) (i : Nat) : Bool :=
  match es[i]? with
  | none => true
  | some e => entryOk r e

theorem ruleStep_false (r : Rules) (es : List Entry) (i : Nat) :
    (ruleStep r (es, false) i).2 = false := by
  unfold ruleStep
  cases h : es[i]? <;> simp
  split <;> simp

theorem ruleFold_false (r : Rules) (is : List Nat) (es : List Entry) :
    (is.foldl (ruleStep r) (es, false)).2 = false := by
  induction is generalizing es with
  | nil => rfl
  | cons i is ih =>
    simp only [List.foldl_cons]
    have h := ruleStep_false r es i
    generalize ruleStep r (es, false) i = s at h
    obtain ⟨es', b⟩ := s
    simp at h; subst h
    exact ih es'

theorem ruleFold_flag (r : Rules) (is : List Nat) (es : List Entry) :
    (is.foldl (ruleStep r) (es, true)).2 = is.all (okAt r es) := by
  induction is with
  | nil => rfl
  | cons i is ih =>
    simp only [List.foldl_cons, List.all_cons]
    by_cases h : okAt r es i = true
    · have : ruleStep r (es, true) i = (es, true) := by
        unfold ruleStep; unfold okAt at h
        cases h2 : es[i]? <;> simp [h2] at h ⊢
        simp [h]
      rw [this, ih, h]; simp
    · have h' : okAt r es i = false := by simpa using h
      have : (ruleStep r (es, true) i).2 = false := by
        unfold ruleStep; unfold okAt at h'
        cases h2 : es[i]? <;> simp [h2] at h' ⊢
        simp [h']
      generalize ruleStep r (es, true) i = s at this
      obtain ⟨es', b⟩ := s
      simp at this; subst this
      rw [ruleFold_false, h']; simp

theorem all_range_okAt (r : Rules) (es : List Entry) :
    (List.range es.length).all (okAt r es) = es.all (entryOk r) := by
  rw [Bool.eq_iff_iff]
  simp only [List.all_eq_true, List.mem_range]
  constructor
  · intro h e he
    obtain ⟨i, hi, rfl⟩ := List.getElem_of_mem he
    have := h i hi
    simpa [okAt, List.getElem?_eq_getElem hi] using this
  · intro h i hi
    simp [okAt, List.getElem?_eq_getElem hi]
    exact h _ (List.getElem_mem hi)

theorem analyse_flag (r : Rules) (x : Bytes) : (analyse r x).2 = validate r x := by
  unfold analyse validate
  simp only [ruleFold_flag, all_range_okAt]
  cases (parseAll x).any isInvalid <;> cases (validateNesting r.xhtml (parseAll x)).any isInvalid <;> simp

theorem validateAndFilter_eq_none (r : Rules) (m : Method) (x : Bytes) :
    validateAndFilter r m x = none ↔ validate r x = true := by
  simp only [validateAndFilter, analyse_flag]
  cases validate r x <;> simp

theorem valid_is_fixed_point (r : Rules) (m : Method) (x : Bytes) (h : validate r x = true) :
    filter r m x = x := by
  unfold filter
  rw [(validateAndFilter_eq_none r m x).2 h]
end Cppcms.C04
