import Cppcms.Common
import Cppcms.C04.Model
import Cppcms.C04.Spec
import Cppcms.C04.Uri
/-! Line-protocol driver for C04.

`C flags entities tags props preds input table` : run the model of validate / validate_and_filter_if_invalid /
filter (both methods) on `input` under the rule set described by the line.
`J flags entities tags props preds text table` : judge — is every markup candidate the lenient tokenizer of
`Spec.lean` finds in `text` allowed by the rules?
`table` carries the verdicts of the external attribute validators (regex = PCRE, URI validator) recorded
from the real library: `id:valuehex:0|1,…`.  A verdict that is needed but absent is reported, never guessed. -/
open Cppcms Cppcms.C04

def listOf (s : String) (sep : String) : List String :=
  if s == "-" || s == "" then [] else s.splitOn sep

def parseKind : String → Option TagKind
  | "0" => some .invalidTag
  | "1" => some .openingAndClosing
  | "2" => some .standAlone
  | "3" => some .anyTag
  | _ => none

def parseSpec (s : String) : Option PropSpec :=
  if s == "b" then some .boolean
  else if s == "i" then some .integer
  else if s.startsWith "o" then (s.drop 1).toString.toNat?.map PropSpec.oracle
  else none

/-- what the harness recorded from the external encoding validator -/
structure EncOracle where
  utf8 : Bool
  mask : List Bool
  valid : List (Bytes × Bool)
  pre : List (Bytes × Bytes)

def parseMask (s : String) : Option (List Bool) :=
  s.toList.mapM hexDigit |>.map fun ds => ds.flatMap fun d => [d / 8 % 2 == 1, d / 4 % 2 == 1, d / 2 % 2 == 1, d % 2 == 1]

def parseEnc (s : String) : Option (Option EncOracle) :=
  if s == "-" then some none
  else
    let items := s.splitOn ","
    items.foldlM (fun (acc : Option EncOracle) (it : String) =>
      match acc, it.splitOn ":" with
      | none, ["U"] => some (some ⟨true, [], [], []⟩)
      | none, ["M", m] => (parseMask m).map fun mk => some ⟨false, mk, [], []⟩
      | some o, ["V", h, v] => (parseHex h).map fun b => some { o with valid := o.valid ++ [(b, v == "1")] }
      | some o, ["P", h, out] => do
        let b ← parseHex h
        let ob ← parseHex out
        some (some { o with pre := o.pre ++ [(b, ob)] })
      | _, _ => none) none

/-- `none` component = a verdict that is needed but was not recorded -/
def encOf (o : EncOracle) (repl : UInt8) (dflt : Bool) : Enc :=
  if o.utf8 then
    { valid := fun x => match o.valid.find? (·.1 == x) with | some p => p.2 | none => dflt
      prefilter := fun x => match o.pre.find? (·.1 == x) with | some p => p.2 | none => if dflt then x else [] }
  else byteEnc (fun c => o.mask.getD c.toNat false) repl

/-- the single-byte model must agree with every recorded verdict -/
def encConsistent (o : EncOracle) (repl : UInt8) : Bool :=
  o.utf8 ||
    (o.valid.all (fun p => (byteEnc (fun c => o.mask.getD c.toNat false) repl).valid p.1 == p.2) &&
     o.pre.all (fun p => (byteEnc (fun c => o.mask.getD c.toNat false) repl).prefilter p.1 == p.2))

def parseFlags (flags : String) : Option (String × Option UInt8) :=
  match flags.splitOn ":" with
  | [f] => some (f, none)
  | [f, _, rp] => rp.toNat?.map fun n => (f, some (UInt8.ofNat n))
  | _ => none

def parseDesc (flags0 ents tags props : String) : Option RuleDesc := do
  let flags := (flags0.splitOn ":").headD ""
  let fl := flags.toList
  if fl.length ≠ 3 then none
  let b (c : Char) : Bool := c == '1'
  let es ← (listOf ents ",").mapM parseHex
  let ts ← (listOf tags ",").mapM fun t =>
    match t.splitOn ":" with
    | [n, k] => do some ((← parseHex n), (← parseKind k))
    | _ => none
  let ps ← (listOf props ",").mapM fun t =>
    match t.splitOn ":" with
    | [tn, pn, sp] => do some ((← parseHex tn), (← parseHex pn), (← parseSpec sp))
    | _ => none
  some { xhtml := b (fl.getD 0 '1'), comments := b (fl.getD 1 '0'), numeric := b (fl.getD 2 '0'),
         entities := es, tags := ts, props := ps }

def parseTable (s : String) : Option (List (Nat × Bytes × Bool)) :=
  (listOf s ",").mapM fun t =>
    match t.splitOn ":" with
    | [i, v, b] => do some ((← i.toNat?), (← parseHex v), b == "1")
    | _ => none

def tableOf (tbl : List (Nat × Bytes × Bool)) (dflt : Bool) (id : Nat) (v : Bytes) : Bool :=
  match tbl.find? (fun t => t.1 == id && t.2.1 == v) with
  | some t => t.2.2
  | none => dflt

/-- `id:type:arghex,…` → (id, type) -/
def parsePreds (s : String) : List (Nat × String) :=
  (listOf s ",").filterMap fun t =>
    match t.splitOn ":" with
    | i :: ty :: _ => i.toNat?.map fun n => (n, ty)
    | _ => none

def uriKind : String → Option Uri.Kind
  | "uri" => some .both
  | "absuri" => some .full
  | "reluri" => some .relative
  | _ => none

/-- regex predicates: recorded verdicts; URI predicates: the model of `uri_parser`, with the scheme regex verdicts
(recorded under id + 1000) as its parameter -/
def oracleP (preds : List (Nat × String)) (tbl : List (Nat × Bytes × Bool)) (dflt : Bool) (id : Nat) (v : Bytes) : Bool :=
  match (preds.find? (·.1 == id)).bind (fun p => uriKind p.2) with
  | some k => Uri.validator k (tableOf tbl dflt (id + 1000)) v
  | none => tableOf tbl dflt id v

/-- every recorded verdict of a URI validator must be what the URI model computes -/
def uriConsistent (preds : List (Nat × String)) (tbl : List (Nat × Bytes × Bool)) : Option (Nat × Bytes) :=
  (tbl.find? fun t =>
    match (preds.find? (·.1 == t.1)).bind (fun p => uriKind p.2) with
    | some k => Uri.validator k (tableOf tbl false (t.1 + 1000)) t.2.1 != t.2.2 ||
                Uri.validator k (tableOf tbl true (t.1 + 1000)) t.2.1 != t.2.2
    | none => false).map fun t => (t.1, t.2.1)

def oracleOf (tbl : List (Nat × Bytes × Bool)) (dflt : Bool) (id : Nat) (v : Bytes) : Bool := tableOf tbl dflt id v

def optOut : Option Bytes → String
  | none => "1:-"
  | some o => "0:" ++ toHex o

def isMarkupTy : Ty → Bool
  | .plain => false
  | _ => true

def runCase (d : RuleDesc) (preds : List (Nat × String)) (tbl : List (Nat × Bytes × Bool)) (E : Bool → Option Enc) (dflt : Bool) (x : Bytes) : String :=
  let r := mkRules d (oracleP preds tbl dflt)
  let e := E dflt
  let frm := filterE e r .remove x
  let fesc := filterE e r .escape x
  s!"v={boolStr (validateE e r x)} rm={optOut (validateAndFilterE e r .remove x)} esc={optOut (validateAndFilterE e r .escape x)} frm={toHex frm} fesc={toHex fesc} vrm={boolStr (validateE e r frm)} vesc={boolStr (validateE e r fesc)}"

def stats (d : RuleDesc) (preds : List (Nat × String)) (tbl : List (Nat × Bytes × Bool)) (e : Option Enc) (x0 : Bytes) : String :=
  let r := mkRules d (oracleP preds tbl false)
  let x := match e with
    | some en => if en.valid x0 then x0 else en.prefilter x0
    | none => x0
  let a := analyse r x
  let n := a.1.length
  let mk := (a.1.filter fun e => isMarkupTy e.ty).length
  let parsedMk := ((parseAll x).filter fun e => isMarkupTy e.ty && !isInvalid e).length
  let inv := (a.1.filter isInvalid).length
  s!"st={n}:{parsedMk}:{mk}:{inv}"

/-- oracle verdicts the judge would need but the table lacks -/
def missing (d : RuleDesc) (tbl : List (Nat × Bytes × Bool)) (ms : List Spec.Markup) : List (Nat × Bytes) :=
  ms.flatMap fun m =>
    match m with
    | .tag _ name attrs _ _ =>
      attrs.filterMap fun a =>
        match a.2, lookupProp d name a.1 with
        | some v, some (.oracle id) =>
          if (tbl.find? (fun t => t.1 == id && t.2.1 == v)).isSome then none else some (id, v)
        | _, _ => none
    | _ => []

def judge (d : RuleDesc) (preds : List (Nat × String)) (tbl : List (Nat × Bytes × Bool)) (x : Bytes) : String :=
  let ms := Spec.lenientMarkup x
  let miss := (missing d tbl ms).eraseDups
  if !miss.isEmpty then
    "miss " ++ ",".intercalate (miss.map fun p => s!"{p.1}:{toHex p.2}")
  else
    let r := mkRules d (oracleP preds tbl false)
    match ms.find? (fun m => !Spec.allowed r m) with
    | none => s!"1 {ms.length}"
    | some m => "0 " ++ (reprStr m).replace "\n" " "

def step (_ : Unit) (line : String) : Unit × String :=
  let r : String :=
    match words line with
    | ["B", n, h] => match parseHex n, parseHex h with
      | some nm, some x => (match Spec.singleByteTextOk nm x with
        | some b => boolStr b
        | none => "unknown")
      | _, _ => "bad-op"
    | ["W", h] => match parseHex h with
      | some x => boolStr (Spec.utf8WellFormed x)
      | none => "bad-op"
    | ["U", k, _, v, tb] =>
      match uriKind k, parseHex v, parseTable tb with
      | some kind, some v, some tbl =>
        let a := Uri.validator kind (tableOf tbl false 1000) v
        let b := Uri.validator kind (tableOf tbl true 1000) v
        if a == b then boolStr a else "oracle-miss"
      | _, _, _ => "bad-op"
    | ["C", fl, es, ts, ps, pr, x, tb, eb] =>
      match parseDesc fl es ts ps, parseHex x, parseTable tb, parseEnc eb, parseFlags fl with
      | some d, some x, some tbl, some eo, some (_, repl) =>
        let rp := repl.getD 0
        let E : Bool → Option Enc := fun dflt => eo.map fun o => encOf o rp dflt
        let preds := parsePreds pr
        if !(eo.map (encConsistent · rp)).getD true then "enc-model-mismatch"
        else match uriConsistent preds tbl with
        | some (i, v) => s!"uri-model-mismatch {i} {toHex v}"
        | none =>
          let a := runCase d preds tbl E false x
          let b := runCase d preds tbl E true x
          if a == b then a ++ " " ++ stats d preds tbl (E false) x else "oracle-miss"
      | _, _, _, _, _ => "bad-op"
    | ["J", fl, es, ts, ps, pr, x, tb] =>
      match parseDesc fl es ts ps, parseHex x, parseTable tb with
      | some d, some x, some tbl => judge d (parsePreds pr) tbl x
      | _, _, _ => "bad-op"
    | _ => "bad-op"
  ((), r)

def main : IO Unit := lineLoop () step
