import Cppcms.Common
import Cppcms.C04.Gen
/-!
C04 — executable model of `uri_parser` and `uri_validator_functor` (src/xss.cpp), the cppcms-own URI validator
behind `rules::uri_validator`, `relative_uri_validator`, `add_uri_property`.

Every parser function is `Bytes → Bool × Bytes`: the return value and the new `begin_` (`end_` is the end of the
list).  `save_point` is transcribed literally: `begin_` is restored to the last committed position when the object
goes out of scope, *not* between the branches of an `if … else if`.  Quirks kept as they are in the source:
`dec_octet` never advances `begin_` (so `ipv4addr` never succeeds and dotted quads are parsed as reg-names);
`relative_part` does not ask for the leading `//` and `authority` cannot fail, so `path_absolute`/`path_noscheme` there
are dead code; in `authority` the `else if(host())` branch runs from where `userinfo()` stopped.
(`uri_validator_functor::full` used to apply the scheme regex to whatever `scheme()` had last scanned even when the
text turned out to be a relative reference — `http/x` passed as "absolute URI"; fixed in /repo, see known_findings.txt.)
The scheme white list is a regular expression (PCRE, external): a parameter `schemeOk`.
-/
namespace Cppcms.C04.Uri
open Cppcms

abbrev P := Bytes → Bool × Bytes

/-! character classes, reference strings and the `dec_octet` conditions are regenerated from the source (`Gen.lean`) -/
def isDigit (c : UInt8) : Bool := Gen.uriIsDigit c.toNat
def isAlpha (c : UInt8) : Bool := Gen.uriIsAlpha c.toNat
def isHex (c : UInt8) : Bool := Gen.uriIsHex c.toNat

/-- `follows(char)` -/
def followsC (c : UInt8) : P
  | x :: s => if x = c then (true, s) else (false, x :: s)
  | [] => (false, [])

/-- `follows(char const*)` -/
def followsS (p : Bytes) : P := fun s => if p.isPrefixOf s then (true, s.drop p.length) else (false, s)

def ampAmp : Bytes := (Gen.uriRefs.getD 0 []).map UInt8.ofNat
def ampApos : Bytes := (Gen.uriRefs.getD 1 []).map UInt8.ofNat

def subDelimChar (c : UInt8) : Bool := Gen.uriSubDelims.contains c.toNat

def subDelims : P := fun s =>
  match s with
  | [] => (false, [])
  | c :: rest =>
    if (followsS ampAmp s).1 then followsS ampAmp s
    else if (followsS ampApos s).1 then followsS ampApos s
    else if subDelimChar c then (true, rest) else (false, s)

def unreservedChar (c : UInt8) : Bool := Gen.uriUnreserved c.toNat

def unreserved : P
  | c :: s => if unreservedChar c then (true, s) else (false, c :: s)
  | [] => (false, [])

def pctEncoded : P
  | c :: a :: b :: s => if c.toNat = Gen.uriPct && isHex a && isHex b then (true, s) else (false, c :: a :: b :: s)
  | s => (false, s)

/-- `a() || b()` for parsers that do not move `begin_` when they fail -/
def orElse (a b : P) : P := fun s => if (a s).1 then a s else b s

def pchar : P := orElse unreserved (orElse pctEncoded (orElse subDelims (orElse (followsC 58) (followsC 64))))

/-- `while(p()) ;` — fuel = length + 1 (every successful step consumes) -/
def manyAux (p : P) : Nat → Bytes → Bytes
  | 0, s => s
  | n + 1, s => if (p s).1 && (p s).2.length < s.length then manyAux p n (p s).2 else s

def many (p : P) : P := fun s => (true, manyAux p (s.length + 1) s)

def queryChar : P := orElse pchar (orElse (followsC 47) (followsC 63))
def query : P := many queryChar
def fragment : P := query
def segment : P := many pchar

def segmentNz : P := fun s => if (pchar s).1 then segment (pchar s).2 else (false, s)

def nzncChar : P := orElse unreserved (orElse pctEncoded (orElse subDelims (followsC 64)))
/-- `segment_nz_nc`: counts the iterations -/
def segmentNzNc : P := fun s =>
  let r := manyAux nzncChar (s.length + 1) s
  (r.length ≠ s.length, r)

/-- `save_point sp; while(follows('/') && segment()) sp.commit();` -/
def slashSegment : P := fun s => if (followsC 47 s).1 then segment (followsC 47 s).2 else (false, s)
def slashSegments : P := many slashSegment

def pathRootless : P := fun s => if (segmentNz s).1 then slashSegments (segmentNz s).2 else (false, s)
def pathNoscheme : P := fun s => if (segmentNzNc s).1 then slashSegments (segmentNzNc s).2 else (false, (segmentNzNc s).2)
def pathAbsolute : P := fun s =>
  if (followsC 47 s).1 then
    let s1 := (followsC 47 s).2
    if (segmentNz s1).1 then slashSegments (segmentNz s1).2 else (true, s1)
  else (false, s)
def pathAbempty : P := slashSegments

def regNameChar : P := orElse unreserved (orElse pctEncoded subDelims)
def regName : P := many regNameChar

/-- `dec_octet`: the loop never advances `begin_`, it reads the same digit up to three times -/
def decOctet : P := fun s =>
  match s with
  | c :: _ =>
    if isDigit c then
      -- `while(begin_!=end_ && is_digit((c=*begin_)) && count<3) { count++; value = value*10 + c-'0'; }`
      let count := Gen.uriDecOctetMax
      let value := (List.range count).foldl (fun v _ => Gen.uriDecOctetStep v c.toNat) 0
      if Gen.uriDecOctetReject value count then (false, s) else (true, s)
    else (false, s)
  | [] => (false, [])

def andThen (a b : P) : P := fun s => if (a s).1 then b (a s).2 else (false, (a s).2)

/-- `ipv4addr`: restores `begin_` unless all seven steps succeed -/
def ipv4addr : P := fun s =>
  let r := andThen decOctet (andThen (followsC 46) (andThen decOctet (andThen (followsC 46)
    (andThen decOctet (andThen (followsC 46) decOctet))))) s
  if r.1 then r else (false, s)

def digits : P := many fun s =>
  match s with
  | c :: rest => if isDigit c then (true, rest) else (false, s)
  | [] => (false, [])
def port : P := digits

def host : P := orElse ipv4addr regName

def userinfoChar : P := orElse unreserved (orElse pctEncoded (orElse subDelims (followsC 58)))
def userinfo : P := many userinfoChar

/-- `authority`: never fails (`host()` cannot); note where the `else if(host())` branch starts -/
def authority : P := fun s =>
  let u := (userinfo s).2
  let s1 := if (followsC 64 u).1 then (host (followsC 64 u).2).2 else (host u).2
  if (followsC 58 s1).1 then (true, (port (followsC 58 s1).2).2) else (true, s1)

/-- `relative_part`: `authority() && path_abempty()` always succeeds -/
def relativePart : P := fun s => pathAbempty (authority s).2

/-- `[ "?" query ]` / `[ "#" fragment ]` -/
def optional (c : UInt8) (p : P) : P := fun s => if (followsC c s).1 then (true, (p (followsC c s).2).2) else (true, s)

def relativeRef : P := fun s => optional 35 fragment (optional 63 query (relativePart s).2).2

def hierPart : P := fun s =>
  if (followsS [47, 47] s).1 then pathAbempty (authority (followsS [47, 47] s).2).2
  else if (pathAbsolute s).1 then pathAbsolute s
  else if (pathRootless s).1 then pathRootless s
  else (true, s)

def schemeChar (c : UInt8) : Bool := Gen.uriSchemeChar c.toNat

/-- `scheme()`: the scheme text and what follows -/
def scheme (s : Bytes) : Option (Bytes × Bytes) :=
  match s with
  | c :: rest => if isAlpha c then some (c :: rest.takeWhile schemeChar, rest.dropWhile schemeChar) else none
  | [] => none

/-- `uri()`: on success the scheme and the new `begin_` -/
def uri (s : Bytes) : Option (Bytes × Bytes) :=
  match scheme s with
  | none => none
  | some (sch, s1) =>
    if (followsC 58 s1).1 then
      some (sch, (optional 35 fragment (optional 63 query (hierPart (followsC 58 s1).2).2).2).2)
    else none

/-- `parse()` / `parse_full()`: `none` = false; `some none` = relative reference; `some (some scheme)` -/
def parse (s : Bytes) : Option (Option Bytes) :=
  match uri s with
  | some (sch, rest) => if rest.isEmpty then some (some sch) else none
  | none => if (relativeRef s).2.isEmpty then some none else none

/-- `uri_validator_functor::uri_type` -/
inductive Kind
  | both | relative | full
  deriving DecidableEq, Repr

/-- `uri_validator_functor::operator()` with the scheme regular expression as a predicate -/
def validator (k : Kind) (schemeOk : Bytes → Bool) (v : Bytes) : Bool :=
  match k, parse v with
  | _, none => false
  | .both, some none => true
  | .both, some (some sch) => schemeOk sch
  | .relative, some none => true
  | .relative, some (some _) => false
  | .full, some none => false        -- `if(!parser.has_scheme()) return false;` (added by the fix: commit 772d843)
  | .full, some (some sch) => schemeOk sch

end Cppcms.C04.Uri
