import Cppcms.C04.LemStable
/-! C04 lemmas, part 13: HTML mode (pop-until-found; kept unclosed open tags stay pending in the second run and may
pair with a later close tag of an any_tag name) and the theorem for both modes `filter_validates_all`; the rule sets
built by the add_* calls satisfy RulesOk and HtmlCaseOk. -/
namespace Cppcms.C04
open Cppcms

/-! ### HTML: running the nesting check again on what was kept -/

/-- passes the rules as an unclosed open tag (open_and_close_tag_without_slash) -/
def okN (r : Rules) (e : Entry) : Prop := entryOk r { e with ty := .openCloseNoSlash } = true

theorem kind_any (k : TagKind) (h1 : kindAccepts k .closeTag = true) (h2 : kindAccepts k .openCloseNoSlash = true) :
    k = .anyTag := by
  cases k <;> first | rfl | (exfalso; revert h1 h2; decide)

theorem kind_any' (k : TagKind) (h1 : kindAccepts k .openTag = true) (h2 : kindAccepts k .openCloseNoSlash = true) :
    k = .anyTag := by
  cases k <;> first | rfl | (exfalso; revert h1 h2; decide)

theorem entryOk_open (r : Rules) (e : Entry) (h : e.ty = .openTag) :
    entryOk r e = (kindAccepts (r.tagKind e.name) .openTag && propsOk r e.name e.props []) := by
  unfold entryOk; rw [h]

theorem entryOk_noslash (r : Rules) (e : Entry) :
    entryOk r { e with ty := .openCloseNoSlash } = (kindAccepts (r.tagKind e.name) .openCloseNoSlash && propsOk r e.name e.props []) := by
  unfold entryOk; rfl

theorem entryOk_close (r : Rules) (e : Entry) (h : e.ty = .closeTag) :
    entryOk r e = kindAccepts (r.tagKind e.name) .closeTag := by
  unfold entryOk; rw [h]

/-- an unclosed-open-capable tag that a (valid) close tag matches by name is an `any_tag`: it is fine as open tag too -/
theorem okO_of_okN_match (r : Rules) (hc : HtmlCaseOk r) (u c : Entry) (hu : u.ty = .openTag) (hcl : c.ty = .closeTag)
    (hn : okN r u) (hok : entryOk r c = true) (hs : streq false u.name c.name = true) :
    entryOk r u = true ∧ r.tagKind c.name = .anyTag := by
  unfold okN at hn
  rw [entryOk_noslash, Bool.and_eq_true] at hn
  rw [entryOk_close r c hcl] at hok
  have hk := hc u.name c.name hs
  rw [hk] at hn
  have := kind_any _ hok hn.1
  refine ⟨?_, this⟩
  rw [entryOk_open r u hu, hk, this, hn.2]
  rfl

/-- a (valid) open tag whose name class is `any_tag` is fine unclosed, too -/
theorem okN_of_okO_any (r : Rules) (hc : HtmlCaseOk r) (o c : Entry) (ho : o.ty = .openTag)
    (hok : entryOk r o = true) (hs : streq false o.name c.name = true) (hany : r.tagKind c.name = .anyTag) : okN r o := by
  unfold okN
  rw [entryOk_open r o ho, Bool.and_eq_true] at hok
  rw [entryOk_noslash, hc o.name c.name hs, hany, hok.2]
  rfl

/-- frames pushed on top of a given state by kept open tags: their open tags may stay unclosed, everything finished is fine -/
def ExtOk (r : Rules) (cur : List FEntry) : List Frame → List FEntry → Prop
  | [], cur' => ∃ o2, cur' = cur ++ o2 ∧ AllFineOut r o2
  | f :: fs, cur' => AllFineOut r cur' ∧ f.opn.ty = .openTag ∧ okN r f.opn ∧ ExtOk r cur fs f.before

theorem ExtOk.snoc {r : Rules} {cur : List FEntry} {ex : List Frame} {c : List FEntry} (h : ExtOk r cur ex c)
    {o : List FEntry} (ho : AllFineOut r o) : ExtOk r cur ex (c ++ o) := by
  cases ex with
  | nil =>
    obtain ⟨o2, rfl, h2⟩ := h
    exact ⟨o2 ++ o, by simp, h2.append ho⟩
  | cons f fs => exact ⟨h.1.append ho, h.2⟩

theorem ExtOk.trans {r : Rules} {cur c1 : List FEntry} {ex1 : List Frame} (h1 : ExtOk r cur ex1 c1) :
    ∀ {ex2 : List Frame} {c2 : List FEntry}, ExtOk r c1 ex2 c2 → ExtOk r cur (ex2 ++ ex1) c2 := by
  intro ex2
  induction ex2 with
  | nil =>
    intro c2 h2
    obtain ⟨o2, rfl, hf⟩ := h2
    exact h1.snoc hf
  | cons f fs ih =>
    intro c2 h2
    exact ⟨h2.1, h2.2.1, h2.2.2.1, ih h2.2.2.2⟩

theorem ExtOk.refl (r : Rules) (cur : List FEntry) : ExtOk r cur [] cur := ⟨[], by simp, by intro p hp; simp at hp⟩

/-- re-basing: the frames pushed since the open tag `eo` (which stays pending, and may stay unclosed) -/
theorem ExtOk.rebase {r : Rules} {c1 : List FEntry} {eo : Entry} (ho : eo.ty = .openTag) (hn : okN r eo) :
    ∀ {fs : List Frame} {b : List FEntry}, ExtOk r [] fs b → ExtOk r c1 (fs ++ [⟨c1, eo⟩]) b := by
  intro fs
  induction fs with
  | nil =>
    intro b h
    obtain ⟨o2, rfl, hf⟩ := h
    exact ⟨by simpa using hf, ho, hn, ExtOk.refl r c1⟩
  | cons g gs ih =>
    intro b h
    exact ⟨h.1, h.2.1, h.2.2.1, ih h.2.2.2⟩

theorem fine_noslash_leaf (r : Rules) (e : Entry) (h : okN r e) :
    AllFineOut r [leafF r { e with ty := .openCloseNoSlash }] := by
  intro p hp
  simp only [List.mem_singleton] at hp
  subst hp
  exact ⟨by simp [leafF], h⟩

theorem fine_pair (r : Rules) (o c : Entry) (po pc : Nat) (ho : o.ty = .openTag) (hc : c.ty = .closeTag)
    (hoo : entryOk r o = true) (hoc : entryOk r c = true) :
    AllFineOut r [(pairF r o c po pc).1] ∧ AllFineOut r [(pairF r o c po pc).2] := by
  constructor
  · intro p hp
    simp only [List.mem_singleton] at hp
    subst hp
    simp only [pairF, entryOk_setPair]
    exact ⟨by simp [ho], hoo⟩
  · intro p hp
    simp only [List.mem_singleton] at hp
    subst hp
    simp only [pairF, entryOk_setPair]
    exact ⟨by simp [hc], hoc⟩

/-- HTML: a kept close tag pops the frames pushed since its (kept) partner; it pairs with the partner or with a
same-named `any_tag` open tag above it -/
theorem popF_kept (r : Rules) (hc : HtmlCaseOk r) (eo ec : Entry) (ho : eo.ty = .openTag) (hcl : ec.ty = .closeTag)
    (hoo : entryOk r eo = true) (hoc : entryOk r ec = true) (hs : streq false eo.name ec.name = true)
    (c1 : List FEntry) (R : List Frame) (i : Nat) :
    ∀ (ex2 : List Frame) (c2 : List FEntry), ExtOk r [] ex2 c2 →
    ∃ ex' cur'', popF r ec i (ex2 ++ ⟨c1, eo⟩ :: R) c2 = (ex' ++ R, cur'') ∧ ExtOk r c1 ex' cur'' := by
  intro ex2
  induction ex2 with
  | nil =>
    intro c2 h
    obtain ⟨o2, rfl, hf⟩ := h
    simp only [List.nil_append, popF, hs, if_true]
    refine ⟨[], _, rfl, ?_⟩
    obtain ⟨f1, f2⟩ := fine_pair r eo ec (flatF R c1).length i ho hcl hoo hoc
    refine ⟨(pairF r eo ec (flatF R c1).length i).1 :: c2 ++ [(pairF r eo ec (flatF R c1).length i).2], by simp, ?_⟩
    have := (f1.append hf).append f2
    simpa using this
  | cons f fs ih =>
    intro c2 h
    obtain ⟨hc2, hfo, hfn, hrest⟩ := h
    simp only [List.cons_append, popF]
    by_cases hm : streq false f.opn.name ec.name = true
    · simp only [hm, if_true]
      obtain ⟨huo, hany⟩ := okO_of_okN_match r hc f.opn ec hfo hcl hfn hoc hm
      have hno : okN r eo := okN_of_okO_any r hc eo ec ho hoo hs hany
      obtain ⟨f1, f2⟩ := fine_pair r f.opn ec (flatF (fs ++ ⟨c1, eo⟩ :: R) f.before).length i hfo hcl huo hoc
      refine ⟨fs ++ [⟨c1, eo⟩], f.before ++ (pairF r f.opn ec (flatF (fs ++ ⟨c1, eo⟩ :: R) f.before).length i).1 :: c2 ++
        [(pairF r f.opn ec (flatF (fs ++ ⟨c1, eo⟩ :: R) f.before).length i).2], by simp, ?_⟩
      have hb := ExtOk.rebase (c1 := c1) ho hno hrest
      have := hb.snoc ((f1.append hc2).append f2)
      simpa using this
    · simp only [hm, if_false]
      apply ih
      have := hrest.snoc ((fine_noslash_leaf r f.opn hfn).append hc2)
      simpa using this

theorem stepF_open (r : Rules) (xhtml : Bool) (frames : List Frame) (cur : List FEntry) (e : Entry) (h : e.ty = .openTag) :
    stepF r xhtml (frames, cur) e = (⟨cur, e⟩ :: frames, []) := by
  unfold stepF; simp [h]

theorem stepF_close_html (r : Rules) (frames : List Frame) (cur : List FEntry) (e : Entry) (h : e.ty = .closeTag) :
    stepF r false (frames, cur) e = popF r e (flatF frames cur).length frames cur := by
  unfold stepF; simp [h]

theorem nontag_of_filter_nil {l : List Entry} (h : l.filter isTagEv = []) : ∀ e ∈ l, isTagEv e = false := by
  intro e he
  have := List.filter_eq_nil_iff.mp h e he
  simpa using this

theorem second_run_html {r : Rules} (hc : HtmlCaseOk r) {b : Nat} {ins : List Entry} {outs : List FEntry}
    (h : Good r false b ins outs) :
    ∀ (es2 : List Entry), es2.filter isTagEv = keptTags ins outs → (∀ e ∈ es2, isTagEv e = false → Fine r e) →
    ∀ (frames : List Frame) (cur : List FEntry), ∃ ex cur',
      es2.foldl (stepF r false) (frames, cur) = (ex ++ frames, cur') ∧ ExtOk r cur ex cur' := by
  induction h with
  | nil b =>
    intro es2 hf hfine frames cur
    have hnt := nontag_of_filter_nil (by simpa [keptTags] using hf : es2.filter isTagEv = [])
    refine ⟨[], cur ++ es2.map (leafF r), by simpa using leaves_run r false es2 frames cur hnt, ?_⟩
    exact (ExtOk.refl r cur).snoc (allFine_leaves r es2 (fun e he => hfine e he (hnt e he)))
  | leaf b ins outs e x g hp hl ih =>
    intro es2 hf hfine frames cur
    rw [keptTags_append _ _ _ _ g.length_eq.symm, keptTags_single] at hf
    by_cases hk : (isTagEv e && !x.2) = true
    · simp only [hk, if_true] at hf
      -- a kept unclosed open tag
      have hopen : e.ty = .openTag ∧ okN r e := by
        cases hl with
        | neutral h1 h2 => simp [isTagEv, h1, h2] at hk
        | rejected _ => simp [leafF, entryOk] at hk
        | noSlash _ ho =>
          refine ⟨ho, ?_⟩
          simp only [Bool.and_eq_true, Bool.not_eq_true', leafF, Bool.not_eq_false'] at hk
          exact hk.2
      obtain ⟨s1, t, rfl, f1, ft⟩ := List.filter_eq_append_iff.mp hf
      obtain ⟨pre, post, rfl, hpre, _, fpost⟩ := List.filter_eq_cons_iff.mp ft
      have hpre' : ∀ a ∈ pre, isTagEv a = false := fun a ha => by simpa using hpre a ha
      have hpost' := nontag_of_filter_nil fpost
      obtain ⟨ex1, c1, r1, e1⟩ := ih s1 f1 (fun a ha => hfine a (by simp [ha])) frames cur
      refine ⟨⟨c1 ++ pre.map (leafF r), e⟩ :: ex1, [] ++ post.map (leafF r), ?_, ?_⟩
      · simp only [List.foldl_append, List.foldl_cons, r1]
        rw [leaves_run r false pre _ _ hpre', stepF_open r false _ _ e hopen.1, leaves_run r false post _ _ hpost']
        simp
      · refine ⟨?_, hopen.1, hopen.2, ?_⟩
        · simpa using allFine_leaves r post (fun a ha => hfine a (by simp [ha]) (hpost' a ha))
        · exact e1.snoc (allFine_leaves r pre (fun a ha => hfine a (by simp [ha]) (hpre' a ha)))
    · have hk' : (isTagEv e && !x.2) = false := by simpa using hk
      simp only [hk', Bool.false_eq_true, if_false, List.append_nil] at hf
      exact ih es2 hf hfine frames cur
  | pair b i1 o1 i2 o2 eo ec g1 g2 ho hcl hpo hpc hs ih1 ih2 =>
    intro es2 hf hfine frames cur
    rw [keptTags_pair _ _ _ _ _ _ _ _ g1.length_eq.symm g2.length_eq.symm, keptTags_single, keptTags_single] at hf
    have hto : isTagEv eo = true := by simp [isTagEv, ho]
    have htc : isTagEv ec = true := by simp [isTagEv, hcl]
    have hbad : (pairF r eo ec (b + o1.length) (b + o1.length + 1 + o2.length)).2.2 =
        (pairF r eo ec (b + o1.length) (b + o1.length + 1 + o2.length)).1.2 := rfl
    rw [hbad] at hf
    simp only [hto, htc, Bool.true_and] at hf
    by_cases hb : (pairF r eo ec (b + o1.length) (b + o1.length + 1 + o2.length)).1.2 = true
    · simp only [hb, Bool.not_true, Bool.false_eq_true, if_false, List.nil_append, List.append_nil] at hf
      obtain ⟨s1, s2, rfl, f1, f2⟩ := List.filter_eq_append_iff.mp hf
      obtain ⟨ex1, c1, r1, e1⟩ := ih1 s1 f1 (fun e he => hfine e (List.mem_append_left _ he)) frames cur
      obtain ⟨ex2, c2, r2, e2⟩ := ih2 s2 f2 (fun e he => hfine e (List.mem_append_right _ he)) (ex1 ++ frames) c1
      refine ⟨ex2 ++ ex1, c2, ?_, e1.trans e2⟩
      rw [List.foldl_append, r1, r2, List.append_assoc]
    · have hb' : (pairF r eo ec (b + o1.length) (b + o1.length + 1 + o2.length)).1.2 = false := by simpa using hb
      simp only [hb', Bool.not_false, if_true] at hf
      have hf' : es2.filter isTagEv = keptTags i1 o1 ++ (eo :: (keptTags i2 o2 ++ [ec])) := by simpa using hf
      obtain ⟨s1, t1, rfl, f1, ft1⟩ := List.filter_eq_append_iff.mp hf'
      obtain ⟨pre, post, rfl, hpre, _, fpost⟩ := List.filter_eq_cons_iff.mp ft1
      obtain ⟨s2, t2, rfl, f2, ft2⟩ := List.filter_eq_append_iff.mp fpost
      obtain ⟨pre2, post2, rfl, hpre2, _, fpost2⟩ := List.filter_eq_cons_iff.mp ft2
      have hpost2 := nontag_of_filter_nil fpost2
      have hpre' : ∀ e ∈ pre, isTagEv e = false := fun e he => by simpa using hpre e he
      have hpre2' : ∀ e ∈ pre2, isTagEv e = false := fun e he => by simpa using hpre2 e he
      have hok : entryOk r eo = true ∧ entryOk r ec = true := by
        simp only [pairF, entryOk_setPair] at hb'
        simpa using hb'
      obtain ⟨ex1, c1, r1, e1⟩ := ih1 s1 f1 (fun e he => hfine e (by simp [he])) frames cur
      obtain ⟨ex2, c2, r2, e2⟩ := ih2 s2 f2 (fun e he => hfine e (by simp [he]))
        (⟨c1 ++ pre.map (leafF r), eo⟩ :: (ex1 ++ frames)) []
      have e2' := e2.snoc (allFine_leaves r pre2 (fun a ha => hfine a (by simp [ha]) (hpre2' a ha)))
      obtain ⟨ex', cur'', rp, ep⟩ := popF_kept r hc eo ec ho hcl hok.1 hok.2 hs (c1 ++ pre.map (leafF r)) (ex1 ++ frames)
        (flatF (ex2 ++ ⟨c1 ++ pre.map (leafF r), eo⟩ :: (ex1 ++ frames)) (c2 ++ pre2.map (leafF r))).length
        ex2 (c2 ++ pre2.map (leafF r)) e2'
      refine ⟨ex' ++ ex1, cur'' ++ post2.map (leafF r), ?_, ?_⟩
      · simp only [List.foldl_append, List.foldl_cons, r1]
        rw [leaves_run r false pre _ _ hpre', stepF_open r false _ _ eo ho, r2, leaves_run r false pre2 _ _ hpre2',
          stepF_close_html r _ _ ec hcl, rp, leaves_run r false post2 _ _ hpost2]
        simp
      · have e1' := e1.snoc (allFine_leaves r pre (fun a ha => hfine a (by simp [ha]) (hpre' a ha)))
        exact e1'.trans (ep.snoc (allFine_leaves r post2 (fun a ha => hfine a (by simp [ha]) (hpost2 a ha))))

theorem finish_html_fine (r : Rules) : ∀ (ex : List Frame) (c : List FEntry), ExtOk r [] ex c →
    AllFineOut r (finishF r false ex c) := by
  intro ex
  induction ex with
  | nil =>
    intro c h
    obtain ⟨o2, rfl, hf⟩ := h
    simpa [finishF] using hf
  | cons f fs ih =>
    intro c h
    obtain ⟨hc, _, hn, hrest⟩ := h
    simp only [finishF, List.foldl_cons, Bool.false_eq_true, if_false]
    apply ih
    have := hrest.snoc ((fine_noslash_leaf r f.opn hn).append hc)
    simpa using this

/-- what re-tokenizing and re-parsing the filter's output gives, in either mode -/
theorem reparse_facts (r : Rules) (hr : RulesOk r) (m : Method) (x : Bytes) (hv : ¬ validate r x = true) :
    ∃ y, filter r m x = y ∧
      (∀ e ∈ parseAll y, (isTagEv e = true) ∨ (isTagEv e = false ∧ Fine r e)) ∧
      (parseAll y).filter isTagEv = keptTags (parseAll x) (runF r r.xhtml (parseAll x)) := by
  have hvf : validateAndFilter r m x = some (render m (analyse r x).1) := by
    unfold validateAndFilter
    simp only
    rw [analyse_flag]
    simp [hv]
  have hfil : filter r m x = render m ((runF r r.xhtml (parseAll x)).map finalEntry) := by
    unfold filter
    rw [hvf, analyse_eq_runF]
  have hgood := runF_good r r.xhtml (parseAll x) (parseAll_pair x)
  have htokfrom : ∀ e ∈ parseAll x, TokFrom x e := by
    intro e he
    obtain ⟨tok, ht, rfl⟩ := List.mem_map.mp he
    exact ⟨tok, ht, rfl⟩
  obtain ⟨ents, h1, h2, h3⟩ := render_np r hr m x _ _ (good_aligned hgood) htokfrom []
  simp only [List.append_nil] at h1
  have hnp0 : NP [] = [] := rfl
  rw [hnp0] at h1
  simp only [List.map_nil, List.append_nil] at h1
  generalize render m ((runF r r.xhtml (parseAll x)).map finalEntry) = y at h1 hfil
  refine ⟨y, hfil, ?_, ?_⟩
  · intro e he
    obtain ⟨tok, ht, rfl⟩ := List.mem_map.mp he
    by_cases hp : tok.2 = .plain
    · right
      obtain ⟨t, sty⟩ := tok
      simp only at hp; subst hp
      exact ⟨rfl, by simp [parsePart], rfl⟩
    · have hin : parsePart tok ∈ ents := by
        rw [← h1]
        exact List.mem_map_of_mem (List.mem_filter.mpr ⟨ht, by simp [nonPlain, hp]⟩)
      by_cases hte : isTagEv (parsePart tok) = true
      · exact Or.inl hte
      · have hte' : isTagEv (parsePart tok) = false := by simpa using hte
        exact Or.inr ⟨hte', h3 _ hin hte'⟩
  · rw [← h2, ← h1]
    unfold parseAll NP
    induction split y with
    | nil => rfl
    | cons tok toks ih =>
      simp only [List.map_cons, List.filter_cons]
      by_cases hp : tok.2 = .plain
      · obtain ⟨t, sty⟩ := tok
        simp only at hp; subst hp
        simp [nonPlain, isTagEv, parsePart, ih]
      · simp only [nonPlain, bne_iff_ne, ne_eq, hp, not_false_eq_true, decide_true, if_true, List.map_cons, List.filter_cons]
        rw [ih]

/-- **the filter's output validates**, XHTML and HTML rule sets, remove and escape -/
theorem filter_validates_all (r : Rules) (hr : RulesOk r) (hc : r.xhtml = false → HtmlCaseOk r) (m : Method) (x : Bytes) :
    validate r (filter r m x) = true := by
  by_cases hv : validate r x = true
  · rw [valid_is_fixed_point r m x hv]; exact hv
  · obtain ⟨y, hy, hentry, hfilter⟩ := reparse_facts r hr m x hv
    rw [hy, validate_iff_runF]
    have hgood := runF_good r r.xhtml (parseAll x) (parseAll_pair x)
    have hfine : ∀ e ∈ parseAll y, isTagEv e = false → Fine r e := by
      intro e he hte
      rcases hentry e he with hte' | ⟨_, hf⟩
      · rw [hte] at hte'; cases hte'
      · exact hf
    constructor
    · intro e he
      rcases hentry e he with hte | ⟨_, hf⟩
      · intro hc'; simp [isTagEv, hc'] at hte
      · exact hf.1
    · cases hx : r.xhtml with
      | true =>
        rw [hx] at hgood hfilter
        obtain ⟨outs2, hrun, hf2⟩ := second_run_xhtml hgood (parseAll y) hfilter hfine [] []
        rw [runF_of_fold r true (parseAll y) outs2 (by simpa using hrun)]
        exact hf2
      | false =>
        rw [hx] at hgood hfilter
        obtain ⟨ex, cur', hrun, hext⟩ := second_run_html (hc hx) hgood (parseAll y) hfilter hfine [] []
        have : runF r false (parseAll y) = finishF r false ex cur' := by
          unfold runF
          rw [hrun]
          simp
        rw [this]
        exact finish_html_fine r ex cur' hext

/-! ### the rule sets built by the `add_*` calls satisfy the hypotheses -/

theorem toLower_eq_cstrLower : ∀ c : UInt8, toLower c = cstrLower c := by
  apply forall_uint8; decide +kernel

theorem mkRules_rulesOk (d : RuleDesc) (oracle : Nat → Bytes → Bool) : RulesOk (mkRules d oracle) := by
  have h : ∀ n ∈ Gen.defaultEntities.map bytesOf, (Gen.defaultEntities.map bytesOf ++ d.entities).contains n = true := by
    intro n hn
    simp only [List.contains_eq_mem, List.mem_append, decide_eq_true_eq]
    exact Or.inl hn
  exact ⟨h [108, 116] (by decide), h [103, 116] (by decide), h [97, 109, 112] (by decide), h [113, 117, 111, 116] (by decide)⟩

theorem mkRules_htmlCaseOk (d : RuleDesc) (oracle : Nat → Bytes → Bool) (hx : d.xhtml = false) :
    HtmlCaseOk (mkRules d oracle) := by
  intro a b hab
  have hl : toLower = cstrLower := funext toLower_eq_cstrLower
  have heq : a.map cstrLower = b.map cstrLower := by
    simp only [streq, Bool.false_eq_true, if_false, hl] at hab
    simpa using hab
  show (match d.tags.reverse.find? (fun p => keyEq d.xhtml p.1 a) with | some p => p.2 | none => TagKind.invalidTag) =
    (match d.tags.reverse.find? (fun p => keyEq d.xhtml p.1 b) with | some p => p.2 | none => TagKind.invalidTag)
  have : (fun p : Bytes × TagKind => keyEq d.xhtml p.1 a) = (fun p => keyEq d.xhtml p.1 b) := by
    funext p
    simp only [keyEq, hx, Bool.false_eq_true, if_false, heq]
  rw [this]
end Cppcms.C04
