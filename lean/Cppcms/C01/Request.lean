import Cppcms.C01.Basic
import Cppcms.C01.Gen
/-!
# C01/C02 — protocol independent request layer

`private/http_protocol.h` (`tocken`, `skip_ws`, `unquote`, `compare`), `src/util.cpp:urldecode`,
`src/http_request.cpp` (`parse_form_urlencoded`, `read_key_value`, `parse_cookies`, `prepare`,
`on_content_start`, `get_buffer`, `on_content_progress`), `src/http_content_type.cpp:parse`
(media type only), `src/http_context.cpp:on_headers_ready`, `src/cgi_api.cpp:load_content /
on_some_content_read` — for the harness' echo application (`harness/c01_service.h`).
-/
namespace Cppcms.C01
open Cppcms

/-! ## character classes and scanners of http_protocol.h -/

def isSeparator (c : UInt8) : Bool := Gen.separators.contains c.toNat
/-- `0x20<=(c=*begin) && c<=0x7E && !separator(c)` on a (signed) `char` -/
def isTockenChar (c : UInt8) : Bool := Gen.tockenLo ≤ c.toNat && c.toNat ≤ Gen.tockenHi && !isSeparator c

/-- `tocken(begin,end)`: (the token, the rest) -/
def tocken (s : Bytes) : Bytes × Bytes := s.span isTockenChar

/-- `skip_ws(p,end)`: blanks, tabs and `CRLF (SP|HT)` continuations -/
def skipWs : Bytes → Bytes
  | 13 :: 10 :: c :: rest =>
    if c == 32 || c == 9 then skipWs (c :: rest) else 13 :: 10 :: c :: rest
  | c :: rest => if c == 32 || c == 9 then skipWs rest else c :: rest
  | [] => []
termination_by s => s.length

/-- `unquote(begin,end)` on input starting with `"`: `some (text, rest)` when the closing quote
was found (`begin` is moved), `none` when not (`begin` unchanged, empty result). -/
def unquoteBody : Bytes → Bytes → Option (Bytes × Bytes)
  | [], _ => none
  | 34 :: rest, acc => some (acc.reverse, rest)
  | 92 :: c :: rest, acc => unquoteBody rest (c :: acc)
  | c :: rest, acc => unquoteBody rest (c :: acc)

def unquote (s : Bytes) : Option (Bytes × Bytes) :=
  match s with
  | 34 :: rest => unquoteBody rest []
  | _ => none

def asciiLower (c : UInt8) : UInt8 := if 65 ≤ c && c ≤ 90 then c + 32 else c
/-- `protocol::compare(a,b)==0` -/
def ciEq (a b : Bytes) : Bool := a.map asciiLower == b.map asciiLower

/-! ## urldecode -/

def hexVal (c : UInt8) : Nat :=
  let n := c.toNat
  if 48 ≤ n ∧ n ≤ 57 then n - 48 else if 97 ≤ n ∧ n ≤ 102 then n - 87 else if 65 ≤ n ∧ n ≤ 70 then n - 55 else 0

/-- `xdigit(begin[i])`: the argument is a signed `char` -/
def isXdigit (c : UInt8) : Bool := c.toNat < 128 && Gen.xdigit c.toNat

/-- `util::urldecode(begin,end)` -/
def urldecode : Bytes → Bytes
  | [] => []
  | c :: rest =>
    if c.toNat == Gen.urldecPlus then UInt8.ofNat Gen.urldecSpace :: urldecode rest
    else if c.toNat == Gen.urldecPct then
      match rest with
      | a :: b :: rest' =>
        if decide (Gen.urldecNeed ≤ rest'.length + 3) && isXdigit a && isXdigit b then
          UInt8.ofNat (hexVal a * 16 + hexVal b) :: urldecode rest'
        else urldecode (a :: b :: rest')
      | [a] => urldecode [a]
      | [] => []
    else c :: urldecode rest
termination_by s => s.length
decreasing_by all_goals (simp; try omega)

/-! ## forms -/

abbrev Form := List (Bytes × Bytes)

/-- split at the first `c` : (before, after-without-c) or `none` -/
def splitAt1 (c : UInt8) (s : Bytes) : Option (Bytes × Bytes) :=
  match s.span (· != c) with
  | (a, _ :: b) => some (a, b)
  | (_, []) => none

/-- `request::parse_form_urlencoded`: `(ok, entries inserted so far)`; insertion order is kept, the
multimap order is produced by `formSorted`.  Stops at the first pair without `=` or with an empty name. -/
def parseForm (fuel : Nat) (s : Bytes) (acc : Form) : Bool × Form :=
  match fuel with
  | 0 => (true, acc)
  | fuel + 1 =>
    if s.isEmpty then (true, acc)
    else
      let (item, rest) := match splitAt1 38 s with
        | some (a, b) => (a, b)
        | none => (s, [])
      match splitAt1 61 item with
      | none => (false, acc)
      | some (name, value) =>
        if name.isEmpty then (false, acc)
        else parseForm fuel rest (acc ++ [(urldecode name, urldecode value)])

def formSorted (f : Form) : Form := f.foldl (fun m kv => multiInsert kv.1 kv.2 m) []

/-- `request::get(name)` / `post(name)`: the value when exactly one entry has that key -/
def formGet (f : Form) (k : Bytes) : Bytes :=
  match f.filter (·.1 == k) with
  | [kv] => kv.2
  | _ => []

/-! ## cookies -/

/-- `skip_after_period` -/
def skipAfterPeriod : Bytes → Bytes
  | [] => []
  | c :: rest => if c == 59 || c == 44 then rest else skipAfterPeriod rest

/-- `request::read_key_value(p,e,key,value)`: `(result, key, value, rest)`; `value` is only
meaningful where the C++ assigned it (it starts empty for every call). -/
def readKeyValue (s : Bytes) : Bool × Bytes × Bytes × Bytes :=
  let p := skipWs s
  let (key, p1) := tocken p
  if key.isEmpty && !p1.isEmpty then (false, [], [], skipAfterPeriod p1)
  else
    let p2 := skipWs p1
    match p2 with
    | [] => (true, key, [], [])
    | c :: after =>
      if c != 61 && (c == 59 || c == 44) then (true, key, [], after)
      else
        -- `=` (or, faithfully, any other byte) is stepped over
        let p3 := skipWs after
        match p3 with
        | [] => (true, key, [], [])
        | q :: _ =>
          if q == 34 then
            match unquote p3 with
            | none => (false, key, [], [])
            | some (v, rest) =>
              let r := skipWs rest
              match r with
              | d :: r' => if d == 59 || d == 44 then (true, key, v, skipWs r') else (true, key, v, r)
              | [] => (true, key, v, [])
          else
            let (v, p4) := tocken p3
            match p4 with
            | d :: _ =>
              if v.isEmpty && d != 59 && d != 44 then (false, key, v, skipAfterPeriod p4)
              else
                let r := skipWs p4
                match r with
                | d :: r' => if d == 59 || d == 44 then (true, key, v, skipWs r') else (true, key, v, r)
                | [] => (true, key, v, [])
            | [] => (true, key, v, [])

structure Cookie where
  name : Bytes := []
  value : Bytes := []
  path : Bytes := []
  domain : Bytes := []
deriving Repr, DecidableEq, Inhabited

abbrev Cookies := List (Bytes × Cookie)

def dollarPath : Bytes := [36, 80, 97, 116, 104]
def dollarDomain : Bytes := [36, 68, 111, 109, 97, 105, 110]

/-- the `while(p<e)` loop of `request::parse_cookies` -/
def parseCookiesLoop (fuel : Nat) (s : Bytes) (cur : Cookie) (acc : Cookies) : Cookies :=
  match fuel with
  | 0 => acc
  | fuel + 1 =>
    if s.isEmpty then
      if cur.name.isEmpty then acc else mapInsert cur.name cur acc
    else
      let (ok, key, value, rest) := readKeyValue s
      if !ok then parseCookiesLoop fuel rest {} acc
      else if key.head? == some 36 then
        -- `$Path` / `$Domain` are (sic) only honoured while no cookie is open, and `$Path` sets the *name*
        let cur :=
          if cur.name.isEmpty then
            if ciEq key dollarPath then { cur with name := value }
            else if ciEq key dollarDomain then { cur with domain := value }
            else cur
          else cur
        parseCookiesLoop fuel rest cur acc
      else
        let acc := if cur.name.isEmpty then acc else mapInsert cur.name cur acc
        parseCookiesLoop fuel rest { name := key, value := value } acc

def parseCookies (s : Bytes) : Cookies :=
  let p := skipWs s
  parseCookiesLoop (p.length + 1) p {} []

/-! ## content type (media type only) -/

/-- `content_type::parse` up to `media_type` -/
def mediaType (s : Bytes) : Bytes :=
  let b := skipWs s
  if b.isEmpty then [] else
  let (ty, b1) := tocken b
  if ty.isEmpty then [] else
  match b1 with
  | 47 :: b2 =>
    let (sub, _) := tocken b2
    if sub.isEmpty then [] else ty.map asciiLower ++ [47] ++ sub.map asciiLower
  | _ => []

def mtFormUrlencoded : Bytes :=
  [97, 112, 112, 108, 105, 99, 97, 116, 105, 111, 110, 47, 120, 45, 119, 119, 119, 45, 102, 111, 114, 109, 45, 117, 114,
   108, 101, 110, 99, 111, 100, 101, 100]
def mtMultipart : Bytes := [109, 117, 108, 116, 105, 112, 97, 114, 116, 47, 102, 111, 114, 109, 45, 100, 97, 116, 97]

/-! ## what the protocol layer hands over, and what the application observes -/

/-- result of the header phase of a front-end (`async_read_headers` completed without error):
the CGI environment plus the values of the `env_*()` virtuals -/
structure Head where
  env : Env
  scriptName : Bytes
  pathInfo : Bytes
  queryString : Bytes
  contentType : Bytes
  contentLength : Int
deriving Repr

/-- defaults of `connection::env_*()` (SCGI, FastCGI): look-ups in the environment -/
def Head.ofEnv (e : Env) : Head :=
  let cl := e.getSafe (bs Gen.hdrContentLength)
  { env := e
    scriptName := e.getSafe (bs Gen.env_SCRIPT_NAME)
    pathInfo := e.getSafe (bs Gen.env_PATH_INFO)
    queryString := e.getSafe (bs Gen.env_QUERY_STRING)
    contentType := e.getSafe (bs Gen.hdrContentType)
    contentLength := if cl.isEmpty then 0 else atoll cl }

/-! ## the application side of the harness and the content loader -/

inductive Kind | sync | async | filter | dflt
deriving Repr, DecidableEq, Inhabited

/-- harness mounts: `/s` sync, `/a` async, `/f` async with content filter, anything else the catch-all -/
def kindOf (script : Bytes) : Kind :=
  if script == [47, 115] then .sync else if script == [47, 97] then .async
  else if script == [47, 102] then .filter else .dflt

inductive Err | eof | violation
deriving Repr, DecidableEq, Inhabited

/-- what the application observes -/
structure View where
  env : List (Bytes × Bytes)
  /-- `getenv(name)` (by-name lookup in `string_map`) for every name of the `getenv()` map -/
  names : List (Bytes × Bytes)
  get : Form
  post : Form
  cookies : Cookies
  body : Bytes
deriving Repr, DecidableEq

/-- fate of one request on a connection -/
inductive Outcome
  /-- the application's `main()` ran on a ready request -/
  | app (kind : Kind) (pre : Bool) (v : View)
  /-- an error page with this status was written and the connection closed -/
  | status (code : Nat) (pre : Bool) (onError : Bool)
  /-- the embedded HTTP server's own `HTTP/1.0 400 Bad Request` -/
  | raw400
  /-- the connection was dropped without an answer -/
  | aborted (e : Err) (pre : Bool) (onError : Bool)
  /-- FastCGI management reply (record type, content) written, no request involved -/
  | mgmt (rtype : Nat) (content : Bytes) (wellFramed : Bool)
  /-- multipart/form-data body: belongs to property C12, not modelled here -/
  | multipart
  /-- the model reached an operation that is undefined or throws in the C++ -/
  | crash (what : String)
deriving Repr, DecidableEq

def isApp : Outcome → Bool
  | .app .. => true
  | _ => false

structure Limits where
  contentLimit : Nat := 131072
  multipartLimit : Nat := 131072
  bufSize : Nat := 4096
deriving Repr

/-- `std::vector<char>::resize(n)` with a signed argument: negative values convert to huge `size_t`
and throw `std::length_error` -/
def vecResizeOk (n : Int) : Bool := 0 ≤ n && n < 2 ^ 62

/-- `socket_.async_read_some(buffer(p,want))` as a content reader -/
def sockRead (want : Nat) (s : Segs) : Except Err (Bytes × Segs) :=
  match readSome want s with
  | none => .error .eof
  | some r => .ok r

/-- `request::get_buffer().second`: the whole remainder (`read_full`) or at most one buffer -/
def wantOf (chunk : Option Nat) (remaining : Nat) : Nat :=
  match chunk with
  | none => remaining
  | some b => min remaining b

/-- `connection::load_content` / `on_some_content_read` loop over an abstract reader.
`chunk = none`: `read_full` (one buffer of the whole length); `some b`: buffers of `b` bytes.
Returns the bytes delivered (`post_data` resp. the concatenated filter chunks). -/
def contentLoop {σ : Type} (rd : Nat → σ → Except Err (Bytes × σ)) (chunk : Option Nat) :
    Nat → Nat → Bytes → σ → Except Err Bytes × σ
  | 0, _, acc, st => (.ok acc, st)
  | fuel + 1, remaining, acc, st =>
    if remaining == 0 then (.ok acc, st)
    else
      match rd (wantOf chunk remaining) st with
      | .error e => (.error e, st)
      | .ok (got, st') => contentLoop rd chunk fuel (remaining - got.length) (acc ++ got) st'

/-- what `context::on_headers_ready` (pool lookup, `request::prepare`, the filter application's early
`main()`, `request::on_content_start`) decides for a request whose headers were accepted -/
inductive Plan
  /-- decided without reading content -/
  | done (o : Outcome)
  /-- read `n > 0` content bytes (`chunk = none`: one `read_full` buffer, `some b`: buffers of `b` bytes),
  then finish with `fin`; a read error drops the connection (`pre`: the filter application is attached,
  so its `on_error` runs) -/
  | read (n : Nat) (chunk : Option Nat) (pre : Bool) (fin : Bytes → Outcome)

/-- buffer size of the chunked (content filter) path: `request::setbuf(atoi(bs))` clamps below 1 -/
def chunkOf (lim : Limits) (pre : Bool) (bsArg : Bytes) : Option Nat :=
  if pre then
    some (if !bsArg.isEmpty then (let n := atoi bsArg; if n < 1 then 1 else n.toNat) else lim.bufSize)
  else none

def requestPlan (lim : Limits) (h : Head) : Plan :=
  let kind := kindOf h.scriptName
  -- request::prepare
  let (gok, g) := parseForm (h.queryString.length + 1) h.queryString []
  let get := if gok then g else []
  let cookies := parseCookies (h.env.getSafe [72, 84, 84, 80, 95, 67, 79, 79, 75, 73, 69])
  let cl := h.contentLength
  let mkView (post : Form) (body : Bytes) : View :=
    { env := h.env.toMap, names := h.env.toMap.map (fun kv => (kv.1, h.env.getSafe kv.1)), get := formSorted get, post := formSorted post, cookies := cookies, body := body }
  -- asynchronous application with content filter: main() is called before the content is read
  let pre := kind == .filter && cl != 0
  let bsArg := formGet get [98, 115]
  let abortArg := formGet get [97, 98, 111, 114, 116]
  if pre && !abortArg.isEmpty then
    -- abort_upload from main(): translate_exception; d->app not yet set, so no on_error
    let code := atoi abortArg
    .done (.status (if code < 400 || code > 599 then 400 else code.toNat) true false)
  else
  -- request::on_content_start
  match Gen.contentStartEarly cl with
  | some 0 => .done (.app kind pre (mkView [] []))
  | some code => .done (.status code pre pre)
  | none =>
    let mt := mediaType h.contentType
    let isMp := mt == mtMultipart
    if isMp && cl > lim.multipartLimit then .done (.status Gen.tooLargeMultipart pre pre)
    else if !isMp && cl > lim.contentLimit then .done (.status Gen.tooLarge pre pre)
    else if isMp && !pre then .done .multipart
    else if !pre && !vecResizeOk cl then .done (.crash "post_data.resize(negative): std::length_error")
    else if cl ≤ 0 then .done (.crash "content loop entered with non-positive length")
    else
      .read cl.toNat (chunkOf lim pre bsArg) pre fun body =>
        if !pre && mt == mtFormUrlencoded then
          let (ok, f) := parseForm (body.length + 1) body []
          match ok, Gen.postParseFailure with
          | false, some code => .status code false false
          | _, _ => .app kind pre (mkView f body)
        else .app kind pre (mkView [] body)

/-- `connection::load_content` … `context::on_request_ready` over an abstract content reader -/
def runRequest {σ : Type} (lim : Limits) (rd : Nat → σ → Except Err (Bytes × σ)) (h : Head) (st : σ) :
    Outcome × σ :=
  match requestPlan lim h with
  | .done o => (o, st)
  | .read n chunk pre fin =>
    match contentLoop rd chunk (n + 1) n [] st with
    | (.error e, st') => (.aborted e pre pre, st')
    | (.ok body, st') => (fin body, st')

end Cppcms.C01
