import Cppcms.C01.Request
/-!
# C01 — the peer's side of `urldecode`, `parse_form_urlencoded` and `parse_cookies`

Peer-side encoders (every choice the peer has is a parameter: which bytes to escape, upper/lower case hex
digits, `+` or `%20` for a blank, `;` or `,` between cookies, blanks around separators, token or quoted cookie
values) and the round-trip theorems of the modelled library functions against them.
-/
namespace Cppcms.C01
open Cppcms

/-! ## percent-encoding -/

inductive PctPiece
  /-- the byte itself -/
  | lit (b : UInt8)
  /-- `+` for a blank -/
  | plus
  /-- `%XY`; each hex digit in upper or lower case -/
  | esc (b : UInt8) (u1 u2 : Bool)
deriving Repr, DecidableEq

def hexDigit (n : Nat) (upper : Bool) : UInt8 :=
  if n < 10 then UInt8.ofNat (48 + n) else if upper then UInt8.ofNat (55 + n) else UInt8.ofNat (87 + n)

def PctPiece.wire : PctPiece → Bytes
  | .lit b => [b]
  | .plus => [43]
  | .esc b u1 u2 => [37, hexDigit (b.toNat / 16) u1, hexDigit (b.toNat % 16) u2]

def PctPiece.value : PctPiece → UInt8
  | .lit b => b
  | .plus => 32
  | .esc b _ _ => b

/-- a byte may be sent as it is unless `urldecode` gives it a meaning -/
def PctPiece.ok : PctPiece → Prop
  | .lit b => b ≠ 37 ∧ b ≠ 43
  | _ => True

def pctWire (ps : List PctPiece) : Bytes := ps.flatMap PctPiece.wire
def pctValue (ps : List PctPiece) : Bytes := ps.map PctPiece.value

theorem hexDigit_spec (n : Nat) (hn : n < 16) (u : Bool) :
    isXdigit (hexDigit n u) = true ∧ hexVal (hexDigit n u) = n := by
  have : ∀ n : Fin 16, ∀ u : Bool, isXdigit (hexDigit n.val u) = true ∧ hexVal (hexDigit n.val u) = n.val := by decide
  exact this ⟨n, hn⟩ u

theorem urldecode_nil : urldecode [] = [] := by
  rw [urldecode.eq_def]

theorem urldecode_lit (b : UInt8) (rest : Bytes) (h1 : b ≠ 37) (h2 : b ≠ 43) :
    urldecode (b :: rest) = b :: urldecode rest := by
  conv => lhs; rw [urldecode.eq_def]
  have e1 : (b.toNat == Gen.urldecPlus) = false := by
    simp only [Gen.urldecPlus, beq_eq_false_iff_ne, ne_eq]
    intro h; apply h2; exact UInt8.toNat_inj.mp (by simpa using h)
  have e2 : (b.toNat == Gen.urldecPct) = false := by
    simp only [Gen.urldecPct, beq_eq_false_iff_ne, ne_eq]
    intro h; apply h1; exact UInt8.toNat_inj.mp (by simpa using h)
  simp [e1, e2]

theorem urldecode_plus (rest : Bytes) : urldecode (43 :: rest) = 32 :: urldecode rest := by
  conv => lhs; rw [urldecode.eq_def]
  simp [Gen.urldecPlus, Gen.urldecSpace]

theorem urldecode_esc (b : UInt8) (u1 u2 : Bool) (rest : Bytes) :
    urldecode (37 :: hexDigit (b.toNat / 16) u1 :: hexDigit (b.toNat % 16) u2 :: rest) = b :: urldecode rest := by
  have hb := b.toNat_lt
  obtain ⟨x1, v1⟩ := hexDigit_spec (b.toNat / 16) (by omega) u1
  obtain ⟨x2, v2⟩ := hexDigit_spec (b.toNat % 16) (by omega) u2
  conv => lhs; rw [urldecode.eq_def]
  have hv : UInt8.ofNat (b.toNat / 16 * 16 + b.toNat % 16) = b := by
    have : b.toNat / 16 * 16 + b.toNat % 16 = b.toNat := by omega
    rw [this]; simp
  simp [Gen.urldecPlus, Gen.urldecPct, Gen.urldecNeed, x1, x2, v1, v2, hv]

/-- **`urldecode` inverts every percent-encoding**: whatever the peer escapes, in whatever case, with `+` or
`%20` for blanks -/
theorem urldecode_pct (ps : List PctPiece) (h : ∀ p ∈ ps, p.ok) : urldecode (pctWire ps) = pctValue ps := by
  induction ps with
  | nil => simp [pctWire, pctValue, urldecode_nil]
  | cons p r ih =>
    have ihr := ih (fun q hq => h q (by simp [hq]))
    have hp := h p (by simp)
    simp only [pctWire, pctValue, List.flatMap_cons, List.map_cons] at ihr ⊢
    cases p with
    | lit b =>
      simp only [PctPiece.ok] at hp
      simp only [PctPiece.wire, PctPiece.value, List.singleton_append]
      rw [urldecode_lit b _ hp.1 hp.2]
      exact congrArg _ ihr
    | plus =>
      simp only [PctPiece.wire, PctPiece.value, List.singleton_append]
      rw [urldecode_plus]
      exact congrArg _ ihr
    | esc b u1 u2 =>
      simp only [PctPiece.wire, PctPiece.value, List.cons_append, List.nil_append]
      rw [urldecode_esc]
      exact congrArg _ ihr

/-! ## `parse_form_urlencoded` -/

theorem span_loop_app {α : Type} (p : α → Bool) (a b : List α) (ha : ∀ x ∈ a, p x = true)
    (hb : b = [] ∨ ∃ y r, b = y :: r ∧ p y = false) :
    ∀ acc, List.span.loop p (a ++ b) acc = (acc.reverse ++ a, b) := by
  induction a with
  | nil =>
    intro acc
    rcases hb with rfl | ⟨y, r, rfl, hy⟩
    · simp [List.span.loop]
    · simp [List.span.loop, hy]
  | cons x r ih =>
    intro acc
    have hx := ha x (by simp)
    simp only [List.cons_append, List.span.loop, hx]
    rw [ih (fun y hy => ha y (by simp [hy]))]
    simp

/-- `span` stops exactly at the first element that fails the test -/
theorem span_app {α : Type} (p : α → Bool) (a b : List α) (ha : ∀ x ∈ a, p x = true)
    (hb : b = [] ∨ ∃ y r, b = y :: r ∧ p y = false) : (a ++ b).span p = (a, b) := by
  unfold List.span
  rw [span_loop_app p a b ha hb]
  simp

theorem splitAt1_hit (c : UInt8) (a b : Bytes) (ha : ∀ x ∈ a, x ≠ c) : splitAt1 c (a ++ c :: b) = some (a, b) := by
  unfold splitAt1
  rw [span_app _ a (c :: b) (fun x hx => by simpa using ha x hx) (Or.inr ⟨c, b, rfl, by simp⟩)]

theorem splitAt1_miss (c : UInt8) (a : Bytes) (ha : ∀ x ∈ a, x ≠ c) : splitAt1 c a = none := by
  unfold splitAt1
  have := span_app (· != c) a [] (fun x hx => by simpa using ha x hx) (Or.inl rfl)
  rw [List.append_nil] at this
  rw [this]

/-- one `name=value` field as the peer sends it -/
structure FormField where
  name : List PctPiece
  value : List PctPiece
deriving Repr

def FormField.wire (f : FormField) : Bytes := pctWire f.name ++ 61 :: pctWire f.value
def FormField.meant (f : FormField) : Bytes × Bytes := (pctValue f.name, pctValue f.value)

/-- `&` and `=` have to be escaped in a name, `&` in a value; names are not empty -/
structure FormField.ok (f : FormField) : Prop where
  name : ∀ p ∈ f.name, p.ok ∧ p ≠ .lit 38 ∧ p ≠ .lit 61
  value : ∀ p ∈ f.value, p.ok ∧ p ≠ .lit 38
  nonempty : f.name ≠ []

def encForm : List FormField → Bytes
  | [] => []
  | [f] => f.wire
  | f :: g :: r => f.wire ++ 38 :: encForm (g :: r)

theorem hexDigit_ne (n : Nat) (hn : n < 16) (u : Bool) : hexDigit n u ≠ 38 ∧ hexDigit n u ≠ 61 := by
  have : ∀ n : Fin 16, ∀ u : Bool, hexDigit n.val u ≠ 38 ∧ hexDigit n.val u ≠ 61 := by decide
  exact this ⟨n, hn⟩ u

theorem pctWire_avoid (c : UInt8) (hc : c = 38 ∨ c = 61) (ps : List PctPiece) (h : ∀ p ∈ ps, p ≠ .lit c) :
    ∀ x ∈ pctWire ps, x ≠ c := by
  intro x hx
  simp only [pctWire, List.mem_flatMap] at hx
  obtain ⟨p, hp, hxp⟩ := hx
  cases p with
  | lit b =>
    simp only [PctPiece.wire, List.mem_singleton] at hxp
    subst hxp
    intro e; exact h _ hp (by rw [e])
  | plus =>
    simp only [PctPiece.wire, List.mem_singleton] at hxp
    subst hxp
    rcases hc with rfl | rfl <;> decide
  | esc b u1 u2 =>
    have hb := b.toNat_lt
    have h1 := hexDigit_ne (b.toNat / 16) (by omega) u1
    have h2 := hexDigit_ne (b.toNat % 16) (by omega) u2
    simp only [PctPiece.wire, List.mem_cons, List.not_mem_nil, or_false] at hxp
    rcases hxp with rfl | rfl | rfl
    · rcases hc with rfl | rfl <;> decide
    · rcases hc with rfl | rfl
      · exact h1.1
      · exact h1.2
    · rcases hc with rfl | rfl
      · exact h2.1
      · exact h2.2

theorem pctWire_ne_nil {ps : List PctPiece} (h : ps ≠ []) : pctWire ps ≠ [] := by
  cases ps with
  | nil => exact absurd rfl h
  | cons p r => cases p <;> simp [pctWire, PctPiece.wire]

theorem FormField.wire_no_amp (f : FormField) (hf : f.ok) : ∀ x ∈ f.wire, x ≠ 38 := by
  intro x hx
  simp only [FormField.wire, List.mem_append, List.mem_cons] at hx
  rcases hx with hx | rfl | hx
  · exact pctWire_avoid 38 (Or.inl rfl) f.name (fun p hp => (hf.name p hp).2.1) x hx
  · decide
  · exact pctWire_avoid 38 (Or.inl rfl) f.value (fun p hp => (hf.value p hp).2) x hx

theorem parseForm_field (fuel : Nat) (f : FormField) (hf : f.ok) (rest : Bytes) (acc : Form)
    (hrest : rest = [] ∨ ∃ r, rest = 38 :: r) :
    parseForm (fuel + 1) (f.wire ++ rest) acc =
      parseForm fuel (match rest with | [] => [] | _ :: r => r) (acc ++ [f.meant]) := by
  have hname := pctWire_avoid 61 (Or.inr rfl) f.name (fun p hp => (hf.name p hp).2.2)
  have hne := pctWire_ne_nil hf.nonempty
  have hwire_ne : f.wire ++ rest ≠ [] := by simp [FormField.wire]
  have hsplit2 : splitAt1 61 f.wire = some (pctWire f.name, pctWire f.value) := splitAt1_hit 61 _ _ hname
  have hdec : (urldecode (pctWire f.name), urldecode (pctWire f.value)) = f.meant := by
    rw [urldecode_pct _ (fun p hp => (hf.name p hp).1), urldecode_pct _ (fun p hp => (hf.value p hp).1)]
    rfl
  have hemp : (f.wire ++ rest).isEmpty = false := by
    cases h : f.wire ++ rest with
    | nil => exact absurd h hwire_ne
    | cons _ _ => rfl
  have hnemp : (pctWire f.name).isEmpty = false := by
    cases h : pctWire f.name with
    | nil => exact absurd h hne
    | cons _ _ => rfl
  rcases hrest with rfl | ⟨r, rfl⟩
  · have hs1 : splitAt1 38 (f.wire ++ []) = none := by
      rw [List.append_nil]; exact splitAt1_miss 38 _ (f.wire_no_amp hf)
    rw [parseForm]
    simp only [hemp, Bool.false_eq_true, if_false, hs1]
    rw [List.append_nil, hsplit2]
    simp only [hnemp, Bool.false_eq_true, if_false, hdec]
  · have hs1 : splitAt1 38 (f.wire ++ 38 :: r) = some (f.wire, r) := splitAt1_hit 38 _ _ (f.wire_no_amp hf)
    rw [parseForm]
    simp only [hemp, Bool.false_eq_true, if_false, hs1, hsplit2, hnemp, hdec]

/-- **`parse_form_urlencoded` round trip**: the fields the peer meant, in order, for every list of fields and
every admissible percent-encoding of names and values -/
theorem parseForm_roundtrip (fs : List FormField) (hfs : ∀ f ∈ fs, f.ok) :
    ∀ (fuel : Nat) (acc : Form), fs.length ≤ fuel → parseForm fuel (encForm fs) acc = (true, acc ++ fs.map FormField.meant) := by
  induction fs with
  | nil => intro fuel acc _; cases fuel <;> simp [encForm, parseForm]
  | cons f r ih =>
    intro fuel acc hfuel
    obtain ⟨fu, rfl⟩ : ∃ fu, fuel = fu + 1 := ⟨fuel - 1, by simp at hfuel; omega⟩
    have hf := hfs f (by simp)
    cases r with
    | nil =>
      have := parseForm_field fu f hf [] acc (Or.inl rfl)
      simp only [List.append_nil] at this
      simp only [encForm, this, List.map_cons, List.map_nil]
      cases fu <;> simp [parseForm]
    | cons g r' =>
      have := parseForm_field fu f hf (38 :: encForm (g :: r')) acc (Or.inr ⟨_, rfl⟩)
      simp only [encForm] at this ⊢
      rw [this]
      rw [ih (fun x hx => hfs x (by simp [hx])) fu _ (by simp at hfuel ⊢; omega)]
      simp

/-! ## `parse_cookies` -/

theorem tocken_app (a b : Bytes) (ha : ∀ x ∈ a, isTockenChar x = true)
    (hb : b = [] ∨ ∃ y r, b = y :: r ∧ isTockenChar y = false) : tocken (a ++ b) = (a, b) :=
  span_app isTockenChar a b ha hb

/-- not a blank, a tab or a CR: `skip_ws` stops here -/
def NotWs (c : UInt8) : Prop := c ≠ 32 ∧ c ≠ 9 ∧ c ≠ 13

theorem skipWs_stop (c : UInt8) (r : Bytes) (h : NotWs c) : skipWs (c :: r) = c :: r := by
  obtain ⟨h1, h2, h3⟩ := h
  rw [skipWs.eq_def]
  split
  · rename_i heq; simp only [List.cons.injEq] at heq; exact absurd heq.1 h3
  · rename_i heq
    simp only [List.cons.injEq] at heq
    obtain ⟨rfl, rfl⟩ := heq
    simp [h1, h2]
  · rename_i heq; cases heq

theorem skipWs_nil : skipWs [] = [] := by rw [skipWs.eq_def]

theorem skipWs_blank (c : UInt8) (r : Bytes) (h : c = 32 ∨ c = 9) : skipWs (c :: r) = skipWs r := by
  conv => lhs; rw [skipWs.eq_def]
  split
  · rename_i heq; simp only [List.cons.injEq] at heq; rcases h with rfl | rfl <;> (have := heq.1; cases this)
  · rename_i heq
    simp only [List.cons.injEq] at heq
    obtain ⟨rfl, rfl⟩ := heq
    rcases h with rfl | rfl <;> simp
  · rename_i heq; cases heq

theorem skipWs_blanks (ws r : Bytes) (hws : ∀ x ∈ ws, x = 32 ∨ x = 9) (hr : r = [] ∨ ∃ c t, r = c :: t ∧ NotWs c) :
    skipWs (ws ++ r) = r := by
  induction ws with
  | nil =>
    rcases hr with rfl | ⟨c, t, rfl, hc⟩
    · exact skipWs_nil
    · exact skipWs_stop c t hc
  | cons w rest ih =>
    simp only [List.cons_append]
    rw [skipWs_blank w _ (hws w (by simp))]
    exact ih (fun x hx => hws x (by simp [hx]))

theorem tockenChar_notWs {c : UInt8} (h : isTockenChar c = true) : NotWs c := by
  refine ⟨fun e => ?_, fun e => ?_, fun e => ?_⟩ <;> (subst e; revert h; decide)

/-- one cookie as the peer sends it: `name=value`, then (unless it is the last) `;` or `,` and any blanks -/
structure CookieItem where
  name : Bytes
  value : Bytes
  /-- the separator that follows (`;` or `,`) and the blanks/tabs after it -/
  sep : UInt8 := 59
  ws : Bytes := [32]
  /-- `none`: the value is sent as a token; `some flags`: as a quoted string, `flags` telling for every byte
  whether it is written with a backslash in front -/
  esc : Option (List Bool) := none
deriving Repr

/-- quoted-string body: every byte, with a backslash in front where the flag says so -/
def qenc (l : List (UInt8 × Bool)) : Bytes := l.flatMap fun p => if p.2 then [92, p.1] else [p.1]

/-- the value on the wire -/
def CookieItem.valWire (c : CookieItem) : Bytes :=
  match c.esc with
  | none => c.value
  | some fl => 34 :: (qenc (c.value.zip fl) ++ [34])

structure CookieItem.ok (c : CookieItem) : Prop where
  name_tok : ∀ x ∈ c.name, isTockenChar x = true
  name_ne : c.name ≠ []
  /-- `$Path`, `$Domain`, `$Version` are attributes, not cookies -/
  name_plain : c.name.head? ≠ some 36
  value_tok : c.esc = none → ∀ x ∈ c.value, isTockenChar x = true
  /-- in a quoted string `"` and `\` carry a backslash; any other byte may -/
  value_quoted : ∀ fl, c.esc = some fl → fl.length = c.value.length ∧
    ∀ p ∈ c.value.zip fl, (p.1 = 34 ∨ p.1 = 92) → p.2 = true
  sep : c.sep = 59 ∨ c.sep = 44
  ws : ∀ x ∈ c.ws, x = 32 ∨ x = 9

def encCookies : List CookieItem → Bytes
  | [] => []
  | [c] => c.name ++ 61 :: c.valWire
  | c :: d :: r => c.name ++ 61 :: (c.valWire ++ c.sep :: (c.ws ++ encCookies (d :: r)))

theorem encCookies_head (cs : List CookieItem) (h : ∀ c ∈ cs, c.ok) :
    encCookies cs = [] ∨ ∃ c t, encCookies cs = c :: t ∧ NotWs c := by
  cases cs with
  | nil => exact Or.inl rfl
  | cons c r =>
    have hc := h c (by simp)
    right
    cases hn : c.name with
    | nil => exact absurd hn hc.name_ne
    | cons x xs =>
      have hx := tockenChar_notWs (hc.name_tok x (by simp [hn]))
      cases r with
      | nil => exact ⟨x, _, by rw [encCookies, hn]; rfl, hx⟩
      | cons d r' => exact ⟨x, _, by rw [encCookies, hn]; rfl, hx⟩

theorem sep_not_tocken {c : UInt8} (h : c = 59 ∨ c = 44 ∨ c = 61) : isTockenChar c = false := by
  rcases h with rfl | rfl | rfl <;> decide

/-- `read_key_value` on one cookie followed by nothing (`last`) or by the separator, blanks and `next` -/
theorem readKeyValue_item_token (c : CookieItem) (hc : c.ok) (hesc : c.esc = none) (next : Bytes)
    (hnext : next = [] ∨ ∃ x t, next = x :: t ∧ NotWs x) (last : Bool) :
    readKeyValue (c.name ++ 61 :: (c.value ++ (if last then [] else c.sep :: (c.ws ++ next)))) =
      (true, c.name, c.value, if last then [] else next) := by
  obtain ⟨x, xs, hn⟩ : ∃ x xs, c.name = x :: xs := by
    cases h : c.name with
    | nil => exact absurd h hc.name_ne
    | cons x xs => exact ⟨x, xs, rfl⟩
  have hx := tockenChar_notWs (hc.name_tok x (by simp [hn]))
  have hsepnt : isTockenChar c.sep = false := sep_not_tocken (by rcases hc.sep with h | h <;> simp [h])
  have hsepnw : NotWs c.sep := by rcases hc.sep with h | h <;> (rw [h]; exact ⟨by decide, by decide, by decide⟩)
  have hsep34 : (c.sep == 34) = false := by rcases hc.sep with h | h <;> (rw [h]; decide)
  have hsepd : (c.sep == 59 || c.sep == 44) = true := by rcases hc.sep with h | h <;> (rw [h]; decide)
  have hnd : (c.sep != 59 && c.sep != 44) = false := by rcases hc.sep with h | h <;> (rw [h]; decide)
  obtain ⟨tl, htl⟩ : ∃ tl, tl = (if last then [] else c.sep :: (c.ws ++ next)) := ⟨_, rfl⟩
  rw [← htl]
  -- skip_ws in front of the name, the name, skip_ws, `=`
  have e1 : skipWs (c.name ++ 61 :: (c.value ++ tl)) = c.name ++ 61 :: (c.value ++ tl) := by
    rw [hn]; exact skipWs_stop x _ hx
  have e2 : tocken (c.name ++ 61 :: (c.value ++ tl)) = (c.name, 61 :: (c.value ++ tl)) :=
    tocken_app _ _ hc.name_tok (Or.inr ⟨61, _, rfl, by decide⟩)
  have e3 : skipWs (61 :: (c.value ++ tl)) = 61 :: (c.value ++ tl) :=
    skipWs_stop 61 _ ⟨by decide, by decide, by decide⟩
  have hne : c.name.isEmpty = false := by rw [hn]; rfl
  have e4 : ((61 : UInt8) != 61 && ((61 : UInt8) == 59 || (61 : UInt8) == 44)) = false := by decide
  simp only [readKeyValue, e1, e2, hne, Bool.false_eq_true, Bool.false_and, if_false, e3, e4]
  cases hv : c.value with
  | nil =>
    cases last with
    | true =>
      simp only [if_true] at htl
      subst htl
      simp [skipWs_nil]
    | false =>
      simp only [Bool.false_eq_true, if_false] at htl
      subst htl
      simp only [List.nil_append, Bool.false_eq_true, if_false]
      rw [skipWs_stop c.sep _ hsepnw]
      simp only [hsep34, Bool.false_eq_true, if_false]
      have : tocken (c.sep :: (c.ws ++ next)) = ([], c.sep :: (c.ws ++ next)) := by
        have := tocken_app [] (c.sep :: (c.ws ++ next)) (by simp) (Or.inr ⟨_, _, rfl, hsepnt⟩)
        simpa using this
      rw [this]
      simp only [List.isEmpty_nil, Bool.true_and, hnd, Bool.false_eq_true, if_false]
      rw [skipWs_stop c.sep _ hsepnw]
      simp only [hsepd, if_true]
      rw [skipWs_blanks c.ws next hc.ws hnext]
  | cons v vs =>
    have hvt := hc.value_tok hesc
    rw [hv] at hvt
    have hv0 := tockenChar_notWs (hvt v (by simp))
    have hv34 : (v == 34) = false := by
      have h1 := hvt v (by simp)
      cases h34 : (v == 34) with
      | false => rfl
      | true =>
        have : v = 34 := by simpa using h34
        subst this
        revert h1; decide
    cases last with
    | true =>
      simp only [if_true] at htl
      subst htl
      simp only [List.append_nil]
      rw [skipWs_stop v vs hv0]
      simp only [hv34, Bool.false_eq_true, if_false]
      have := tocken_app (v :: vs) [] hvt (Or.inl rfl)
      rw [List.append_nil] at this
      rw [this]
      simp
    | false =>
      simp only [Bool.false_eq_true, if_false] at htl
      subst htl
      simp only [List.cons_append]
      rw [skipWs_stop v _ hv0]
      simp only [hv34, Bool.false_eq_true, if_false]
      have := tocken_app (v :: vs) (c.sep :: (c.ws ++ next)) hvt (Or.inr ⟨_, _, rfl, hsepnt⟩)
      simp only [List.cons_append] at this
      rw [this]
      simp only [List.isEmpty_cons, Bool.false_and, Bool.false_eq_true, if_false]
      rw [skipWs_stop c.sep _ hsepnw]
      simp only [hsepd, if_true]
      rw [skipWs_blanks c.ws next hc.ws hnext]

theorem unquoteBody_enc (l : List (UInt8 × Bool)) (h : ∀ p ∈ l, (p.1 = 34 ∨ p.1 = 92) → p.2 = true) (rest : Bytes) :
    ∀ acc, unquoteBody (qenc l ++ 34 :: rest) acc = some (acc.reverse ++ l.map Prod.fst, rest) := by
  induction l with
  | nil => intro acc; simp [qenc, unquoteBody]
  | cons p t ih =>
    intro acc
    have ht := ih (fun q hq => h q (by simp [hq]))
    obtain ⟨b, e⟩ := p
    cases e with
    | true =>
      simp only [qenc, List.flatMap_cons, if_true, List.cons_append, List.nil_append]
      have : unquoteBody (92 :: b :: (qenc t ++ 34 :: rest)) acc = unquoteBody (qenc t ++ 34 :: rest) (b :: acc) := by
        rw [unquoteBody]
      simp only [qenc] at this ht
      rw [this, ht]
      simp
    | false =>
      have hb : b ≠ 34 ∧ b ≠ 92 := by
        constructor <;> (intro e; have := h (b, false) (by simp) (by simp [e]); cases this)
      simp only [qenc, List.flatMap_cons, Bool.false_eq_true, if_false, List.cons_append, List.nil_append]
      have : unquoteBody (b :: (qenc t ++ 34 :: rest)) acc = unquoteBody (qenc t ++ 34 :: rest) (b :: acc) := by
        rw [unquoteBody]
        · intro e; exact hb.1 e
        · intro c r e _; exact hb.2 e
      simp only [qenc] at this ht
      rw [this, ht]
      simp

theorem zip_map_fst (v : Bytes) (fl : List Bool) (h : fl.length = v.length) : (v.zip fl).map Prod.fst = v := by
  induction v generalizing fl with
  | nil => simp
  | cons a r ih =>
    cases fl with
    | nil => simp at h
    | cons f t => simp only [List.zip_cons_cons, List.map_cons]; rw [ih t (by simpa using h)]

theorem readKeyValue_item_quoted (c : CookieItem) (hc : c.ok) (fl : List Bool) (hesc : c.esc = some fl) (next : Bytes)
    (hnext : next = [] ∨ ∃ x t, next = x :: t ∧ NotWs x) (last : Bool) :
    readKeyValue (c.name ++ 61 :: (c.valWire ++ (if last then [] else c.sep :: (c.ws ++ next)))) =
      (true, c.name, c.value, if last then [] else next) := by
  obtain ⟨x, xs, hn⟩ : ∃ x xs, c.name = x :: xs := by
    cases h : c.name with
    | nil => exact absurd h hc.name_ne
    | cons x xs => exact ⟨x, xs, rfl⟩
  have hx := tockenChar_notWs (hc.name_tok x (by simp [hn]))
  have hsepnw : NotWs c.sep := by rcases hc.sep with h | h <;> (rw [h]; exact ⟨by decide, by decide, by decide⟩)
  have hsepd : (c.sep == 59 || c.sep == 44) = true := by rcases hc.sep with h | h <;> (rw [h]; decide)
  obtain ⟨hlen, hq⟩ := hc.value_quoted fl hesc
  have hvw : c.valWire = 34 :: (qenc (c.value.zip fl) ++ [34]) := by simp [CookieItem.valWire, hesc]
  obtain ⟨tl, htl⟩ : ∃ tl, tl = (if last then [] else c.sep :: (c.ws ++ next)) := ⟨_, rfl⟩
  rw [← htl, hvw]
  have e1 : skipWs (c.name ++ 61 :: (34 :: (qenc (c.value.zip fl) ++ [34]) ++ tl)) =
      c.name ++ 61 :: (34 :: (qenc (c.value.zip fl) ++ [34]) ++ tl) := by
    rw [hn]; exact skipWs_stop x _ hx
  have e2 : tocken (c.name ++ 61 :: (34 :: (qenc (c.value.zip fl) ++ [34]) ++ tl)) =
      (c.name, 61 :: (34 :: (qenc (c.value.zip fl) ++ [34]) ++ tl)) :=
    tocken_app _ _ hc.name_tok (Or.inr ⟨61, _, rfl, by decide⟩)
  have e3 : skipWs (61 :: (34 :: (qenc (c.value.zip fl) ++ [34]) ++ tl)) = 61 :: (34 :: (qenc (c.value.zip fl) ++ [34]) ++ tl) :=
    skipWs_stop 61 _ ⟨by decide, by decide, by decide⟩
  have e5 : skipWs (34 :: (qenc (c.value.zip fl) ++ [34]) ++ tl) = 34 :: (qenc (c.value.zip fl) ++ [34]) ++ tl :=
    skipWs_stop 34 _ ⟨by decide, by decide, by decide⟩
  have hne : c.name.isEmpty = false := by rw [hn]; rfl
  have e4 : ((61 : UInt8) != 61 && ((61 : UInt8) == 59 || (61 : UInt8) == 44)) = false := by decide
  have e6 : unquote (34 :: (qenc (c.value.zip fl) ++ [34]) ++ tl) = some (c.value, tl) := by
    have := unquoteBody_enc (c.value.zip fl) hq tl []
    simp only [List.reverse_nil, List.nil_append, zip_map_fst c.value fl hlen] at this
    simp only [unquote, List.cons_append, List.append_assoc, List.singleton_append]
    exact this
  simp only [readKeyValue, e1, e2, hne, Bool.false_eq_true, Bool.false_and, if_false, e3, e4, e5]
  simp only [List.cons_append] at e6 ⊢
  simp only [beq_self_eq_true, if_true, e6]
  cases last with
  | true =>
    simp only [if_true] at htl
    subst htl
    simp [skipWs_nil]
  | false =>
    simp only [Bool.false_eq_true, if_false] at htl
    subst htl
    rw [skipWs_stop c.sep _ hsepnw]
    simp only [hsepd, if_true]
    rw [skipWs_blanks c.ws next hc.ws hnext]
    simp

/-- `read_key_value` on one cookie (token or quoted value) followed by nothing (`last`) or by the separator, blanks
and `next` -/
theorem readKeyValue_item (c : CookieItem) (hc : c.ok) (next : Bytes)
    (hnext : next = [] ∨ ∃ x t, next = x :: t ∧ NotWs x) (last : Bool) :
    readKeyValue (c.name ++ 61 :: (c.valWire ++ (if last then [] else c.sep :: (c.ws ++ next)))) =
      (true, c.name, c.value, if last then [] else next) := by
  cases hesc : c.esc with
  | none =>
    have : c.valWire = c.value := by simp [CookieItem.valWire, hesc]
    rw [this]
    exact readKeyValue_item_token c hc hesc next hnext last
  | some fl => exact readKeyValue_item_quoted c hc fl hesc next hnext last

def CookieItem.cookie (c : CookieItem) : Cookie := { name := c.name, value := c.value }

/-- what the application's `cookies()` map must hold: every cookie under its name, the first one winning when a
name is sent twice (`std::map::insert`) -/
def cookiesMeant (m : Cookies) (cs : List CookieItem) : Cookies :=
  cs.foldl (fun m c => mapInsert c.name c.cookie m) m

theorem parseCookiesLoop_items (cs : List CookieItem) (hcs : ∀ c ∈ cs, c.ok) :
    ∀ (fuel : Nat) (cur : Cookie) (acc : Cookies), cs.length < fuel →
      parseCookiesLoop fuel (encCookies cs) cur acc =
        cookiesMeant (if cur.name.isEmpty then acc else mapInsert cur.name cur acc) cs := by
  induction cs with
  | nil =>
    intro fuel cur acc hf
    obtain ⟨f, rfl⟩ : ∃ f, fuel = f + 1 := ⟨fuel - 1, by simp at hf; omega⟩
    simp [parseCookiesLoop, encCookies, cookiesMeant]
  | cons c r ih =>
    intro fuel cur acc hf
    obtain ⟨f, rfl⟩ : ∃ f, fuel = f + 1 := ⟨fuel - 1, by simp at hf; omega⟩
    have hc := hcs c (by simp)
    have hr : ∀ d ∈ r, d.ok := fun d hd => hcs d (by simp [hd])
    obtain ⟨x, xs, hn⟩ : ∃ x xs, c.name = x :: xs := by
      cases h : c.name with
      | nil => exact absurd h hc.name_ne
      | cons x xs => exact ⟨x, xs, rfl⟩
    have hkey : (c.name.head? == some 36) = false := by
      have := hc.name_plain
      cases hq : c.name.head? with
      | none => rfl
      | some y =>
        rw [hq] at this
        simp only [ne_eq, Option.some.injEq] at this
        simp [this]
    have hnn : c.cookie.name.isEmpty = false := by simp [CookieItem.cookie, hn]
    cases r with
    | nil =>
      have hrk := readKeyValue_item c hc [] (Or.inl rfl) true
      simp only [if_true, List.append_nil] at hrk
      have hne : (encCookies [c]).isEmpty = false := by simp [encCookies, hn]
      rw [parseCookiesLoop]
      simp only [hne, Bool.false_eq_true, if_false, encCookies, hrk, Bool.not_true, hkey]
      have := ih (fun d hd => by simp at hd) f c.cookie (if cur.name.isEmpty then acc else mapInsert cur.name cur acc)
        (by simp at hf ⊢; omega)
      simp only [encCookies] at this
      rw [show ({ name := c.name, value := c.value } : Cookie) = c.cookie from rfl, this]
      simp [cookiesMeant, CookieItem.cookie, hn]
    | cons d r' =>
      have hrk := readKeyValue_item c hc (encCookies (d :: r')) (encCookies_head (d :: r') hr) false
      simp only [Bool.false_eq_true, if_false] at hrk
      have hne : (encCookies (c :: d :: r')).isEmpty = false := by simp [encCookies, hn]
      rw [parseCookiesLoop]
      simp only [hne, Bool.false_eq_true, if_false]
      simp only [encCookies] at hrk ⊢
      simp only [hrk, Bool.not_true, Bool.false_eq_true, if_false, hkey]
      have := ih hr f c.cookie (if cur.name.isEmpty then acc else mapInsert cur.name cur acc)
        (by simp at hf ⊢; omega)
      rw [show ({ name := c.name, value := c.value } : Cookie) = c.cookie from rfl, this]
      simp [cookiesMeant, CookieItem.cookie, hn]

/-- **`parse_cookies` round trip**: every list of cookies with token names and token (possibly empty) values,
separated by `;` or `,` and any blanks, is delivered as the map the peer meant -/
theorem parseCookies_roundtrip (cs : List CookieItem) (hcs : ∀ c ∈ cs, c.ok) :
    parseCookies (encCookies cs) = cookiesMeant [] cs := by
  unfold parseCookies
  have hsk : skipWs (encCookies cs) = encCookies cs := by
    rcases encCookies_head cs hcs with h | ⟨c, t, h, hc⟩
    · rw [h]; exact skipWs_nil
    · rw [h]; exact skipWs_stop c t hc
  simp only [hsk]
  have hlen : cs.length < (encCookies cs).length + 1 := by
    have : ∀ cs : List CookieItem, cs.length ≤ (encCookies cs).length := by
      intro cs
      induction cs with
      | nil => simp [encCookies]
      | cons c r ih =>
        cases r with
        | nil => simp [encCookies]; omega
        | cons d r' => simp only [encCookies, List.length_append, List.length_cons] at ih ⊢; omega
    have := this cs
    omega
  rw [parseCookiesLoop_items cs hcs _ {} [] hlen]
  rfl

end Cppcms.C01
