import Cppcms.C01.Request
/-!
# C01/C02 — the protocol independent layer at the level of its actions

`runRequest` (Request.lean) summarises what `connection::load_content … context::on_request_ready` do with a
request in one `Outcome`.  Here the same layer is run callback by callback: the bodies of
`connection::on_headers_read`, `set_error`, `handle_http_error`, `handle_http_error_eof`, `load_content`,
`on_some_content_read`, `context::on_request_ready` and `request::on_error` are the `CStmt` programs
regenerated from the source (`Gen.cgi_*`, `Gen.ctx_on_request_ready`, `Gen.req_on_error`), interpreted with
sequential fall-through semantics, and the machine records the *actions*: application calls, filter
notifications, the error page, the completion handler.

It is a checked interpreter: a callback that does anything after it has handed the request on (called the
completion handler, started the next asynchronous operation, passed control to the next callback), or that
ends without handing it on, halts the machine with `.crash`.
-/
namespace Cppcms.C01
open Cppcms

inductive Act
  /-- `app->main()` from `context::on_headers_ready` (content filter application, before the content) -/
  | mainEarly
  /-- `filter->on_end_of_content()` -/
  | endOfContent
  /-- `on_async_read_complete()` -/
  | readComplete
  /-- the completion handler `h(...)`, i.e. `context::on_request_ready(error)` -/
  | done (error : Bool)
  /-- `filter->on_error()` -/
  | onError
  /-- the application gets the ready request (`dispatch` / `submit_to_pool_internal`) -/
  | dispatch
  /-- the error page goes out (`async_write(…, eof)`) with this status -/
  | write (code : Int) (eof : Bool)
  /-- `do_eof()` -/
  | eof
deriving Repr, DecidableEq

inductive Pending
  | read (want : Nat)
  | write
deriving Repr, DecidableEq

/-- the running callback: its variables, whether it has returned, whether it has handed the request on -/
structure Frame where
  v : CVars := {}
  returned : Bool := false
  handed : Bool := false

/-- connection, context and request objects, and what has been observed so far -/
structure World (σ : Type) where
  st : σ
  halt : Option Outcome := none
  acts : List Act := []
  pending : Option Pending := none
  /-- `d->app`, `d->filter`, `d->no_on_error` -/
  appAttached : Bool := false
  filterSet : Bool := false
  noOnError : Bool := false
  /-- `content_length - read_size`, `read_full` / `buffer_size`, the bytes delivered so far -/
  remaining : Nat := 0
  chunkMode : Option Nat := none
  body : Bytes := []
  /-- what `on_content_progress` makes of the complete content -/
  fin : Bytes → Outcome := fun _ => .crash "no content expected"
  /-- the bytes the last read delivered -/
  chunk : Bytes := []
  lastErr : Err := .eof
  /-- status of the response object -/
  pageStatus : Int := 200
  /-- what the application is run on -/
  result : Option Outcome := none

def World.crash {σ : Type} (w : World σ) (what : String) : World σ := { w with halt := some (.crash what) }

def World.emit {σ : Type} (w : World σ) (a : Act) : World σ := { w with acts := w.acts ++ [a] }

def earlyActs (pre : Bool) : List Act := if pre then [.mainEarly] else []

/-! ## sequential semantics of `CStmt` -/

/-- statements are skipped once the callback has returned or the machine has halted -/
def live {σ : Type} (f : Frame) (w : World σ) : Bool := !f.returned && w.halt.isNone

def execWith {σ : Type} (prim : CPrim → Frame → World σ → Frame × World σ) : CStmt → Frame → World σ → Frame × World σ
  | .skip, f, w => (f, w)
  | .ret, f, w => if live f w then ({ f with returned := true }, w) else (f, w)
  | .call p, f, w =>
    if live f w then
      if f.handed then (f, w.crash s!"a callback goes on after it has handed the request on: {repr p}") else prim p f w
    else (f, w)
  | .seq a b, f, w => let r := execWith prim a f w; execWith prim b r.1 r.2
  | .ite c t e, f, w => if live f w then (if c f.v then execWith prim t f w else execWith prim e f w) else (f, w)

/-- a callee that is itself a callback of the chain: runs in its own frame and must hand the request on;
for the caller that call was the hand-over -/
def callHandOver {σ : Type} (run : CStmt → Frame → World σ → Frame × World σ) (name : String) (body : CStmt)
    (v : CVars) (f : Frame) (w : World σ) : Frame × World σ :=
  let r := run body { v := v } w
  ({ f with handed := true },
   if r.2.halt.isNone && !r.1.handed then r.2.crash (name ++ " ends without handing the request on") else r.2)

/-- an ordinary callee (the completion handler, `request::on_error`) -/
def callPlain {σ : Type} (run : CStmt → Frame → World σ → Frame × World σ) (body : CStmt) (v : CVars)
    (f : Frame) (w : World σ) : Frame × World σ :=
  (f, (run body { v := v } w).2)

/-- `context::on_headers_ready()`: pool lookup, `request::prepare`, the early `main()` of a content filter
application, `request::on_content_start` — as `requestPlan` describes it -/
def semHeadersReady {σ : Type} (lim : Limits) (h : Head) (f : Frame) (w : World σ) : Frame × World σ :=
  match requestPlan lim h with
  | .done (.app k pre vw) =>
    ({ f with v := { f.v with status := 0, contentLength := h.contentLength } },
     { w with acts := w.acts ++ earlyActs pre, appAttached := pre, filterSet := pre, result := some (.app k pre vw) })
  | .done (.status code pre oe) =>
    ({ f with v := { f.v with status := code, contentLength := h.contentLength } },
     { w with acts := w.acts ++ earlyActs pre, appAttached := oe, filterSet := oe })
  | .done o => (f, { w with halt := some o })
  | .read n chunk pre fin =>
    ({ f with v := { f.v with status := 0, contentLength := h.contentLength } },
     { w with acts := w.acts ++ earlyActs pre, appAttached := pre, filterSet := pre, remaining := n, chunkMode := chunk,
              fin := fin })

/-- `context::on_content_progress(n)` for the bytes the last read delivered: (status, world) -/
def semContentProgress {σ : Type} (w : World σ) : Int × World σ :=
  if w.chunk.isEmpty then (0, w)
  else
    let body := w.body ++ w.chunk
    let remaining := w.remaining - w.chunk.length
    if remaining == 0 then
      match w.fin body with
      | .status code _ _ =>
        -- the urlencoded form does not parse: returns before the filter is told and before `ready` is set
        (code, { w with body := body, remaining := remaining })
      | o =>
        (0, { w with body := body, remaining := remaining,
                     acts := w.acts ++ (if w.filterSet then [.endOfContent] else []), result := some o })
    else (0, { w with body := body, remaining := remaining })

/-- meaning of the statements; `run` executes a callee's body -/
def primSem {σ : Type} (lim : Limits) (h : Head) (run : CStmt → Frame → World σ → Frame × World σ) (p : CPrim)
    (f : Frame) (w : World σ) : Frame × World σ :=
  match p with
  | .set_error => callHandOver run "set_error" Gen.cgi_set_error f.v f w
  | .h_aborted => ({ f with handed := true }, (run Gen.ctx_on_request_ready { v := { error := true } } (w.emit (.done true))).2)
  | .h_completed => ({ f with handed := true }, (run Gen.ctx_on_request_ready { v := { error := false } } (w.emit (.done false))).2)
  | .load_content => callHandOver run "load_content" Gen.cgi_load_content {} f w
  | .handle_http_error => callHandOver run "handle_http_error" Gen.cgi_handle_http_error { code := f.v.status } f w
  | .async_read_some =>
    if w.pending.isSome then (f, w.crash "two asynchronous operations pending")
    else ({ f with handed := true }, { w with pending := some (.read f.v.bufSecond) })
  | .async_write eof =>
    if w.pending.isSome then (f, w.crash "two asynchronous operations pending")
    else ({ f with handed := true }, { (w.emit (.write w.pageStatus eof)) with pending := some .write })
  | .forward => (f, w.crash "forwarding is not modelled")
  | .dispatch => ({ f with handed := true }, w.emit .dispatch)
  | .submit_to_pool => ({ f with handed := true }, w.emit .dispatch)
  | .check_forwarding => ({ f with v := { f.v with addrPort := 0, addrHostEmpty := true } }, w)
  | .on_headers_ready => semHeadersReady lim h f w
  | .on_content_progress => let r := semContentProgress w; ({ f with v := { f.v with status := r.1 } }, r.2)
  | .get_buffer => ({ f with v := { f.v with bufSecond := wantOf w.chunkMode w.remaining } }, w)
  | .on_async_read_complete => (f, w.emit .readComplete)
  | .do_eof => (f, w.emit .eof)
  | .set_status => (f, { w with pageStatus := f.v.code })
  | .set_error_state => (f, w)
  | .take_app => ({ f with v := { f.v with app := w.appAttached } }, { w with appAttached := false })
  | .request_on_error => callPlain run Gen.req_on_error { noOnError := w.noOnError, filter := w.filterSet } f w
  | .filter_on_error => (f, w.emit .onError)
  | .nop _ => (f, w)

/-- call depth is bounded (`on_some_content_read → set_error → h → on_request_ready → request::on_error`) -/
def execD {σ : Type} (lim : Limits) (h : Head) : Nat → CStmt → Frame → World σ → Frame × World σ
  | 0 => fun _ f w => (f, w.crash "call depth")
  | d + 1 => execWith (primSem lim h (execD lim h d))

def callDepth : Nat := 6

/-- an event of the event loop runs a callback from the top -/
def runCallback {σ : Type} (lim : Limits) (h : Head) (name : String) (body : CStmt) (v : CVars) (w : World σ) : World σ :=
  let r := execD lim h callDepth body { v := v } w
  if r.2.halt.isNone && !r.1.handed then r.2.crash (name ++ " ends without handing the request on") else r.2

/-- the event loop: the pending read or write completes and its callback runs; `wfail`: the write of the
error page fails -/
def cgiLoop {σ : Type} (lim : Limits) (h : Head) (rd : Nat → σ → Except Err (Bytes × σ)) (wfail : Bool) :
    Nat → World σ → World σ
  | 0, w => if w.halt.isNone && w.pending.isSome then w.crash "out of fuel" else w
  | fuel + 1, w =>
    if w.halt.isSome then w
    else match w.pending with
    | none => w
    | some (.read want) =>
      match rd want w.st with
      | .error e =>
        cgiLoop lim h rd wfail fuel
          (runCallback lim h "on_some_content_read" Gen.cgi_on_some_content_read { e := true }
            { w with pending := none, lastErr := e })
      | .ok (got, st') =>
        cgiLoop lim h rd wfail fuel
          (runCallback lim h "on_some_content_read" Gen.cgi_on_some_content_read { e := false }
            { w with pending := none, st := st', chunk := got })
    | some .write =>
      cgiLoop lim h rd wfail fuel
        (runCallback lim h "handle_http_error_eof" Gen.cgi_handle_http_error_eof { e := wfail } { w with pending := none })

/-- the completion of `async_read_headers` (`hdrErr`: with an error) -/
def cgiStart {σ : Type} (lim : Limits) (hdrErr : Option Err) (h : Head) (st : σ) : World σ :=
  runCallback lim h "on_headers_read" Gen.cgi_on_headers_read { e := hdrErr.isSome } { st := st, lastErr := hdrErr.getD .eof }

/-- one request from the completion of `async_read_headers` to the end -/
def cgiRun {σ : Type} (lim : Limits) (rd : Nat → σ → Except Err (Bytes × σ)) (wfail : Bool) (hdrErr : Option Err)
    (h : Head) (st : σ) : World σ :=
  let w := cgiStart lim hdrErr h st
  cgiLoop lim h rd wfail (w.remaining + 2) w

/-- the `Outcome` that `runRequest` reports, read off the actions -/
def summaryOf (acts : List Act) (result : Option Outcome) (lastErr : Err) : Outcome :=
  if acts.contains .dispatch then result.getD (.crash "dispatched without a request")
  else
    match acts.findSome? (fun a => match a with | .write c _ => some c | _ => none) with
    | some c => .status c.toNat (acts.contains .mainEarly) (acts.contains .onError)
    | none => .aborted lastErr (acts.contains .mainEarly) (acts.contains .onError)

def World.summary {σ : Type} (m : World σ) : Outcome :=
  match m.halt with
  | some o => o
  | none => summaryOf m.acts m.result m.lastErr

end Cppcms.C01
