import Cppcms.C01.ScgiProofs
/-! SCGI round trip: the netstring a peer builds from (pairs, body) is decoded to exactly that
environment and that body stream. -/
namespace Cppcms.C01
open Cppcms

/-! ## decimal numbers as the peer writes them -/

/-- decimal digits of `n`, least significant first (`fuel` ≥ number of digits) -/
def decRev : Nat → Nat → Bytes
  | 0, _ => []
  | f + 1, n => if n < 10 then [UInt8.ofNat (48 + n)] else UInt8.ofNat (48 + n % 10) :: decRev f (n / 10)

def decimal (n : Nat) : Bytes := (decRev (n + 1) n).reverse

/-- value of a digit string given least significant first -/
def valRev : Bytes → Nat
  | [] => 0
  | d :: ds => (d.toNat - 48) + 10 * valRev ds

theorem decRev_digits (f n : Nat) : ∀ d ∈ decRev f n, isCDigit d = true ∧ d ≠ 58 ∧ d ≠ 0 := by
  induction f generalizing n with
  | zero => intro d hd; simp [decRev] at hd
  | succ f ih =>
    intro d hd
    unfold decRev at hd
    split at hd
    · rename_i hlt
      simp only [List.mem_singleton] at hd
      subst hd
      have h : 48 + n < 256 := by omega
      refine ⟨?_, ?_, ?_⟩
      · simp [isCDigit, UInt8.le_iff_toNat_le, Nat.mod_eq_of_lt h]; omega
      · intro h0; have := congrArg UInt8.toNat h0; simp [Nat.mod_eq_of_lt h] at this; omega
      · intro h0; have := congrArg UInt8.toNat h0; simp [Nat.mod_eq_of_lt h] at this
    · simp only [List.mem_cons] at hd
      rcases hd with rfl | hd
      · have h : 48 + n % 10 < 256 := by omega
        refine ⟨?_, ?_, ?_⟩
        · simp [isCDigit, UInt8.le_iff_toNat_le, Nat.mod_eq_of_lt h]; omega
        · intro h0; have := congrArg UInt8.toNat h0; simp [Nat.mod_eq_of_lt h] at this; omega
        · intro h0; have := congrArg UInt8.toNat h0; simp [Nat.mod_eq_of_lt h] at this
      · exact ih _ d hd

theorem decRev_val (f n : Nat) (h : n < 10 ^ f) : valRev (decRev f n) = n := by
  induction f generalizing n with
  | zero => simp at h; subst h; simp [decRev, valRev]
  | succ f ih =>
    unfold decRev
    split
    · rename_i hlt
      have h1 : 48 + n < 256 := by omega
      simp [valRev, Nat.mod_eq_of_lt h1]
    · have h1 : 48 + n % 10 < 256 := by omega
      have h2 : n / 10 < 10 ^ f := by
        rw [Nat.pow_succ] at h
        omega
      simp only [valRev, UInt8.toNat_ofNat', Nat.mod_eq_of_lt h1, ih _ h2]
      omega

theorem decRev_len (f n k : Nat) (hk : 0 < k) (h : n < 10 ^ k) : (decRev f n).length ≤ k := by
  induction f generalizing n k with
  | zero => simp [decRev]
  | succ f ih =>
    unfold decRev
    split
    · simp; omega
    · rename_i hge
      cases k with
      | zero => omega
      | succ k =>
        cases k with
        | zero => simp at h; omega
        | succ k =>
          simp only [List.length_cons]
          have : n / 10 < 10 ^ (k + 1) := by
            rw [Nat.pow_succ] at h
            omega
          have := ih (n / 10) (k + 1) (by omega) this
          omega

theorem lt_pow_succ (n : Nat) : n < 10 ^ (n + 1) := by
  induction n with
  | zero => simp
  | succ n ih => rw [Nat.pow_succ]; omega

theorem digitsVal_append (a b : Bytes) (acc : Nat) (ha : ∀ d ∈ a, isCDigit d = true) :
    digitsVal (a ++ b) acc = digitsVal b (digitsVal a acc) := by
  induction a generalizing acc with
  | nil => simp [digitsVal]
  | cons d t ih =>
    have hd := ha d (by simp)
    simp only [List.cons_append, digitsVal, hd, if_true]
    exact ih _ (fun x hx => ha x (by simp [hx]))

theorem digitsVal_reverse (ds : Bytes) (acc : Nat) (hd : ∀ d ∈ ds, isCDigit d = true) :
    digitsVal ds.reverse acc = acc * 10 ^ ds.length + valRev ds := by
  induction ds generalizing acc with
  | nil => simp [digitsVal, valRev]
  | cons d t ih =>
    have h1 := hd d (by simp)
    have ht : ∀ x ∈ t, isCDigit x = true := fun x hx => hd x (by simp [hx])
    have hrt : ∀ x ∈ t.reverse, isCDigit x = true := fun x hx => ht x (by simpa using hx)
    rw [List.reverse_cons, digitsVal_append _ _ _ hrt, ih acc ht]
    simp only [digitsVal, h1, if_true, valRev, List.length_cons, Nat.pow_succ]
    rw [← Nat.mul_assoc]
    generalize acc * 10 ^ t.length = X
    omega

/-- `atoi` reads back what `decimal` wrote -/
theorem strtolRaw_decimal (n : Nat) : strtolRaw (decimal n) = n := by
  unfold decimal strtolRaw
  have hdig := decRev_digits (n + 1) n
  -- no leading blanks, no sign
  cases hr : (decRev (n + 1) n).reverse with
  | nil =>
    have : decRev (n + 1) n = [] := by simpa using hr
    unfold decRev at this
    split at this <;> simp at this
  | cons c t =>
    have hc : c ∈ decRev (n + 1) n := by
      have : c ∈ (decRev (n + 1) n).reverse := by rw [hr]; simp
      simpa using this
    obtain ⟨hcd, _, _⟩ := hdig c hc
    have hns : isCSpace c = false := by
      simp only [isCDigit, Bool.and_eq_true, decide_eq_true_eq] at hcd
      simp only [isCSpace, Bool.or_eq_false_iff, Bool.and_eq_false_iff]
      constructor
      · rcases hcd with ⟨h1, _⟩
        have := UInt8.le_iff_toNat_le.mp h1
        simp
        intro h0; rw [h0] at this; simp at this
      · right
        rcases hcd with ⟨h1, _⟩
        have := UInt8.le_iff_toNat_le.mp h1
        simp [UInt8.le_iff_toNat_le]
        simp at this
        omega
    simp only [List.dropWhile_cons, hns, Bool.false_eq_true, if_false]
    have hne45 : c ≠ 45 := by
      intro h0; subst h0; simp [isCDigit] at hcd
    have hne43 : c ≠ 43 := by
      intro h0; subst h0; simp [isCDigit] at hcd
    split
    · rename_i rest heq; simp at heq; exact absurd heq.1 hne45
    · rename_i rest heq; simp at heq; exact absurd heq.1 hne43
    · rw [← hr, digitsVal_reverse _ _ (fun d hd => (hdig d hd).1)]
      simp [decRev_val (n + 1) n (lt_pow_succ n)]

theorem atoi_decimal (n : Nat) (h : n ≤ 16384) : atoi (decimal n) = n := by
  unfold atoi atoll clampInt toInt32
  rw [strtolRaw_decimal]
  have h1 : ¬ ((n : Int) < -(2 ^ 63)) := by omega
  have h2 : ¬ ((n : Int) > 2 ^ 63 - 1) := by omega
  simp only [h1, h2, if_false]
  omega

theorem decimal_len (n : Nat) (h : n ≤ 16384) : (decimal n).length ≤ 5 := by
  unfold decimal
  rw [List.length_reverse]
  exact decRev_len _ _ 5 (by omega) (by omega)

theorem decimal_chars (n : Nat) : ∀ d ∈ decimal n, d ≠ 58 ∧ d ≠ 0 := by
  intro d hd
  unfold decimal at hd
  have := decRev_digits (n + 1) n d (by simpa using hd)
  exact ⟨this.2.1, this.2.2⟩

/-! ## the peer's encoder -/

/-- header block of an SCGI request: `name NUL value NUL` ... -/
def scgiBlock (pairs : List (Bytes × Bytes)) : Bytes := pairs.flatMap fun kv => kv.1 ++ [0] ++ kv.2 ++ [0]

/-- SCGI request as a peer (web server) sends it: netstring of the header block, then the body -/
def encScgi (pairs : List (Bytes × Bytes)) (body : Bytes) : Bytes :=
  decimal (scgiBlock pairs).length ++ [58] ++ scgiBlock pairs ++ [44] ++ body

/-- well-formed SCGI request: C strings, header block within the 16 KiB limit, netstring longer than
the 16 bytes read eagerly (true of every real request: `CONTENT_LENGTH` alone takes 15) -/
structure WFScgi (pairs : List (Bytes × Bytes)) : Prop where
  nonul : ∀ kv ∈ pairs, 0 ∉ kv.1 ∧ 0 ∉ kv.2
  size : (scgiBlock pairs).length ≤ 16384
  long : 16 < (decimal (scgiBlock pairs).length).length + 2 + (scgiBlock pairs).length

theorem cstr_append_nul (a b : Bytes) (h : 0 ∉ a) : cstr (a ++ 0 :: b) = a := by
  unfold cstr
  induction a with
  | nil => simp
  | cons c t ih =>
    have hc : c ≠ 0 := by intro h0; apply h; simp [h0]
    have ht : 0 ∉ t := by intro h0; apply h; simp [h0]
    have := ih ht
    simp only [List.cons_append, List.takeWhile_cons, ne_eq, hc, not_false_eq_true, decide_true, if_true, this]

theorem scgiBlock_len (pairs : List (Bytes × Bytes)) : pairs.length ≤ (scgiBlock pairs).length := by
  induction pairs with
  | nil => simp [scgiBlock]
  | cons kv ps ih =>
    unfold scgiBlock at ih ⊢
    simp only [List.flatMap_cons, List.length_append, List.length_cons, List.length_nil]
    omega

theorem scgiWalk_block (pairs : List (Bytes × Bytes)) (hn : ∀ kv ∈ pairs, 0 ∉ kv.1 ∧ 0 ∉ kv.2) :
    ∀ (fuel : Nat) (env : Env), pairs.length < fuel → scgiWalk fuel (scgiBlock pairs ++ [0]) env = some (env.addAll pairs) := by
  induction pairs with
  | nil =>
    intro fuel env hf
    cases fuel with
    | zero => omega
    | succ f => simp [scgiBlock, scgiWalk, Env.addAll]
  | cons kv ps ih =>
    intro fuel env hf
    obtain ⟨k, v⟩ := kv
    obtain ⟨hk, hv⟩ := hn (k, v) (by simp)
    have hps : ∀ kv ∈ ps, 0 ∉ kv.1 ∧ 0 ∉ kv.2 := fun kv h => hn kv (by simp [h])
    cases fuel with
    | zero => omega
    | succ f =>
      have hshape : scgiBlock ((k, v) :: ps) ++ [0] = k ++ 0 :: (v ++ 0 :: (scgiBlock ps ++ [0])) := by
        simp [scgiBlock, List.append_assoc]
      rw [hshape]
      unfold scgiWalk
      have h1 : ¬ ((k ++ 0 :: (v ++ 0 :: (scgiBlock ps ++ [0]))).length ≤ 1) := by simp; omega
      have h2 : (k ++ 0 :: (v ++ 0 :: (scgiBlock ps ++ [0]))).contains 0 = true := by simp
      simp only [h1, h2, if_false, Bool.not_true, Bool.false_eq_true]
      rw [cstr_append_nul _ _ hk]
      have hd1 : (k ++ 0 :: (v ++ 0 :: (scgiBlock ps ++ [0]))).drop (k.length + 1) = v ++ 0 :: (scgiBlock ps ++ [0]) := by
        rw [List.drop_append]
        simp
      rw [hd1]
      have h3 : ¬ ((v ++ 0 :: (scgiBlock ps ++ [0])).length ≤ 1) := by simp; omega
      have h4 : (v ++ 0 :: (scgiBlock ps ++ [0])).contains 0 = true := by simp
      simp only [h3, h4, if_false, Bool.not_true, Bool.false_eq_true]
      rw [cstr_append_nul _ _ hv]
      have hd2 : (v ++ 0 :: (scgiBlock ps ++ [0])).drop (v.length + 1) = scgiBlock ps ++ [0] := by
        rw [List.drop_append]
        simp
      rw [hd2, ih hps f (env.add k v) (by simp at hf; omega)]
      simp [Env.addAll]

theorem cstr_of_nonul (a : Bytes) (h : 0 ∉ a) : cstr a = a := by
  have := cstr_append_nul a [] h
  unfold cstr at this ⊢
  induction a with
  | nil => rfl
  | cons c t ih =>
    have hc : c ≠ 0 := by intro h0; apply h; simp [h0]
    have ht : 0 ∉ t := by intro h0; apply h; simp [h0]
    simp only [List.takeWhile_cons, ne_eq, hc, not_false_eq_true, decide_true, if_true]
    rw [ih ht]
    have := cstr_append_nul t [] ht
    unfold cstr at this
    exact this

theorem getLast?_snoc {α : Type} (l : List α) (a : α) : (l ++ [a]).getLast? = some a := by
  induction l with
  | nil => rfl
  | cons x t ih =>
    cases t with
    | nil => rfl
    | cons y u => simpa [List.getLast?] using ih

theorem takeWhile_append_stop {p : UInt8 → Bool} (a : Bytes) (c : UInt8) (b : Bytes) (ha : ∀ x ∈ a, p x = true) (hc : p c = false) :
    (a ++ c :: b).takeWhile p = a := by
  induction a with
  | nil => simp [List.takeWhile_cons, hc]
  | cons x t ih =>
    have hx := ha x (by simp)
    simp only [List.cons_append, List.takeWhile_cons, hx, if_true]
    rw [ih (fun y hy => ha y (by simp [hy]))]

/-- **SCGI round trip**: a well-formed request is decoded to exactly the environment the peer sent
(same pairs, same order) and exactly its body stream; what happens next is the request layer's
function of those two (`reqOutcome`). -/
theorem scgiFlat_roundtrip (lim : Limits) (pairs : List (Bytes × Bytes)) (body : Bytes) (hw : WFScgi pairs) :
    scgiFlat lim (encScgi pairs body) = [(reqOutcome lim (Head.ofEnv (Env.empty.addAll pairs)) body).1] := by
  obtain ⟨hn, hsize, hlong⟩ := hw
  generalize hB : scgiBlock pairs = B at hsize hlong
  generalize hd : decimal B.length = d at hlong
  have hdl : d.length ≤ 5 := by rw [← hd]; exact decimal_len _ hsize
  have hdc : ∀ x ∈ d, x ≠ 58 ∧ x ≠ 0 := by rw [← hd]; exact decimal_chars _
  have hs : encScgi pairs body = d ++ 58 :: (B ++ 44 :: body) := by
    simp [encScgi, hB, hd, List.append_assoc]
  rw [hs]
  have hlen : (d ++ 58 :: (B ++ 44 :: body)).length = d.length + 2 + B.length + body.length := by
    simp; omega
  unfold scgiFlat
  have h16 : ¬ ((d ++ 58 :: (B ++ 44 :: body)).length < Gen.scgiFirstRead) := by
    rw [hlen]; simp only [Gen.scgiFirstRead]; omega
  simp only [h16, if_false]
  -- the 16 eager bytes
  have htake : (d ++ 58 :: (B ++ 44 :: body)).take Gen.scgiFirstRead = d ++ 58 :: ((B ++ 44 :: body).take (15 - d.length)) := by
    rw [List.take_append]
    have h1 : d.take Gen.scgiFirstRead = d := List.take_of_length_le (by simp only [Gen.scgiFirstRead]; omega)
    rw [h1]
    have h2 : Gen.scgiFirstRead - d.length = (15 - d.length) + 1 := by simp only [Gen.scgiFirstRead]; omega
    rw [h2, List.take_succ_cons]
  have hfirst : scgiOnFirstRead ((d ++ 58 :: (B ++ 44 :: body)).take Gen.scgiFirstRead) = .more d.length (d.length + 2 + B.length) := by
    rw [htake]
    unfold scgiOnFirstRead
    have htw : (d ++ 58 :: ((B ++ 44 :: body).take (15 - d.length))).takeWhile (· != UInt8.ofNat Gen.scgiSepChar) = d := by
      apply takeWhile_append_stop
      · intro x hx
        have := (hdc x hx).1
        simp [Gen.scgiSepChar]
        exact this
      · simp [Gen.scgiSepChar]
    simp only [htw]
    have hsb : Gen.scgiSepBad d.length = false := by
      simp only [Gen.scgiSepBad, decide_eq_false_iff_not]; omega
    simp only [hsb, Bool.false_eq_true, if_false]
    have hn16 : ¬ (d.length ≥ (d ++ 58 :: ((B ++ 44 :: body).take (15 - d.length))).length) := by
      simp only [List.length_append, List.length_cons]; omega
    simp only [hn16, if_false]
    have htd : (d ++ 58 :: ((B ++ 44 :: body).take (15 - d.length))).take d.length = d := by
      rw [List.take_append_of_le_length (Nat.le_refl _), List.take_length]
    have hcs : cstr d = d := cstr_of_nonul d (fun h0 => (hdc 0 h0).2 rfl)
    rw [htd, hcs, ← hd, atoi_decimal _ hsize]
    have hlb : Gen.scgiLenBad (B.length : Int) = false := by
      simp [Gen.scgiLenBad]; omega
    simp only [hlb, Bool.false_eq_true, if_false]
    have hns : Gen.scgiNewSize ((decimal B.length).length : Nat) (B.length : Int) = ((d.length + 2 + B.length : Nat) : Int) := by
      simp [Gen.scgiNewSize, hd]
    rw [hns]
    have hvr : vecResizeOk ((d.length + 2 + B.length : Nat) : Int) = true := by
      simp only [vecResizeOk, Bool.and_eq_true]
      constructor <;> (apply decide_eq_true; omega)
    simp only [hvr, Bool.not_true, Bool.false_eq_true, if_false, Int.toNat_natCast]
    have hts : Gen.scgiTooShort (d.length + 2 + B.length) (d ++ 58 :: ((B ++ 44 :: body).take (15 - d.length))).length = false := by
      simp [Gen.scgiTooShort]
      omega
    simp only [hts, Bool.false_eq_true, if_false, hd]
  rw [hfirst]
  simp only
  have hfit : ¬ ((d ++ 58 :: (B ++ 44 :: body)).length < d.length + 2 + B.length) := by rw [hlen]; omega
  simp only [hfit, if_false]
  -- the complete netstring and what follows it
  have hbuf : (d ++ 58 :: (B ++ 44 :: body)).take (d.length + 2 + B.length) = d ++ 58 :: (B ++ [44]) := by
    have : d ++ 58 :: (B ++ 44 :: body) = (d ++ 58 :: (B ++ [44])) ++ body := by simp [List.append_assoc]
    rw [this, List.take_append_of_le_length (by simp; omega), List.take_of_length_le (by simp; omega)]
  have hrest : (d ++ 58 :: (B ++ 44 :: body)).drop (d.length + 2 + B.length) = body := by
    have : d ++ 58 :: (B ++ 44 :: body) = (d ++ 58 :: (B ++ [44])) ++ body := by simp [List.append_assoc]
    rw [this, List.drop_append]
    have hl : (d ++ 58 :: (B ++ [44])).length = d.length + 2 + B.length := by simp; omega
    rw [List.drop_of_length_le (by omega), hl]
    simp
  rw [hbuf, hrest]
  have hhead : scgiOnHeaders (d ++ 58 :: (B ++ [44])) d.length = .ok (Env.empty.addAll pairs) := by
    unfold scgiOnHeaders
    have hlast : (d ++ 58 :: (B ++ [44])).getLast? = some 44 := by
      have : d ++ 58 :: (B ++ [44]) = (d ++ 58 :: B) ++ [44] := by simp [List.append_assoc]
      rw [this]; exact getLast?_snoc _ _
    rw [hlast]
    simp only
    have ht : ((44 : UInt8) != UInt8.ofNat Gen.scgiTermChar) = false := by decide
    simp only [ht, Bool.false_eq_true, if_false, nulT]
    have hdl' : (d ++ 58 :: (B ++ [44])).dropLast ++ [0] = d ++ 58 :: (B ++ [0]) := by
      have : d ++ 58 :: (B ++ [44]) = (d ++ 58 :: B) ++ [44] := by simp [List.append_assoc]
      rw [this, List.dropLast_concat]
      rw [List.append_assoc]
      rfl
    rw [hdl']
    simp only [if_true]
    have hl2 : ¬ (d.length + 1 ≥ (d ++ 58 :: (B ++ [0])).length) := by
      simp only [List.length_append, List.length_cons, List.length_nil]; omega
    rw [if_neg hl2]
    have hdrop : (d ++ 58 :: (B ++ [0])).drop (d.length + 1) = B ++ [0] := by
      rw [List.drop_append]; simp
    rw [hdrop, ← hB, scgiWalk_block pairs hn _ _ (by
      have := scgiBlock_len pairs
      simp only [List.length_append, List.length_cons]
      omega)]
  rw [hhead]
where
  nulT : Gen.scgiNulTerminated = true := by decide

end Cppcms.C01
