import Cppcms.C01.Request
/-!
# Embedded HTTP front-end (`src/http_api.cpp`, `private/http_parser.h`) at buffer level

`some_headers_data_read` (read-ahead buffer `input_body_`/`input_body_ptr_`, the 16 KiB caps), the
generated `parser::step()` transition with `getc`/`ungetc`, request-line split,
`parse_single_header`, `process_request`, `async_read_some` draining the read-ahead buffer exactly
once, keep-alive (`reset_all` keeps the unread bytes).
-/
namespace Cppcms.C01
open Cppcms

/-- `parser::step()`: runs the generated transition over the unread bytes of `input_body_`.
Returns the result code, the parser registers and the bytes still unread (`ungetc` puts the byte
just read back: `*body_ptr_` is > 0 there, `ungot_` is never used in this mode). -/
def parserRun : Gen.PState → Bytes → Nat × Gen.PState × Bytes
  | ps, [] => (Gen.pr_more_data, ps, [])
  | ps, c :: rest =>
    match Gen.stepSwitch ps c.toNat with
    | .cont s => parserRun { s with rhdr := c.toNat :: s.rhdr } rest
    | .ret code s => (code, { s with unget := false }, if s.unget then c :: rest else rest)

structure HttpCfg where
  software : Bytes
  serverName : Bytes
  port : Bytes
  remote : Bytes
  scriptNames : List Bytes := [[47, 115], [47, 97], [47, 102]]
deriving Repr

/-- connection state that survives `reset_all()` -/
structure HttpSt where
  /-- unread part of `input_body_` -/
  rest : Bytes := []
  /-- `input_body_.capacity()` -/
  cap : Nat := 0
  segs : Segs
deriving Repr

/-- per request registers of `class http` -/
structure HttpReq where
  env : Env
  ps : Gen.PState := {}
  first : Bool := false
  method : Bytes := []
  uri : Bytes := []
  is11 : Bool := false
  contentType : Bytes := []
  contentLength : Int := 0
deriving Repr

def headerBytes (ps : Gen.PState) : Bytes := ps.rhdr.reverse.map UInt8.ofNat

/-- `parse_single_header`: canonical CGI name and value (a C string) -/
def parseSingleHeader (h : Bytes) : Option (Bytes × Bytes) :=
  let p := skipWs h
  let (name, p1) := tocken p
  if name.isEmpty then none
  else
    match skipWs p1 with
    | 58 :: p2 =>
      let value := skipWs p2
      some (name.map (fun c => UInt8.ofNat (Gen.canonChar c.toNat)), cstr value)
    | _ => none

/-- the `got_header` arm of `some_headers_data_read`; `none` = protocol violation -/
def httpGotHeader (r : HttpReq) : Option HttpReq :=
  let h := headerBytes r.ps
  if !r.first then
    match splitAt1 (UInt8.ofNat Gen.reqLineSep1) h with
    | none => none
    | some (m, after) =>
      match splitAt1 (UInt8.ofNat Gen.reqLineSep2) after with
      | none => none
      | some (uri, proto) =>
        let proto := cstr proto
        some { r with first := true, method := cstr m, uri := cstr uri,
                      env := r.env.add (bs Gen.env_SERVER_PROTOCOL) proto,
                      is11 := proto == bs Gen.http11 }
  else
    match parseSingleHeader h with
    | none => none
    | some (name, value) =>
      if name == bs Gen.hdrContentLength then
        some { r with env := r.env.add name value, contentLength := if value.isEmpty then 0 else atoll value }
      else if name == bs Gen.hdrContentType then
        some { r with env := r.env.add name value, contentType := value }
      else some { r with env := r.env.add (bs Gen.hdrPrefix ++ name) value }

/-- `process_request`: `none` = the raw 400 answer -/
def httpProcess (cfg : HttpCfg) (r : HttpReq) : Option Head :=
  if r.method.isEmpty || !(tocken r.method).2.isEmpty then none
  else
    let env := r.env.add (bs Gen.env_REQUEST_METHOD) r.method
    let env := env.add (bs Gen.env_REMOTE_HOST) cfg.remote
    let env := env.add (bs Gen.env_REMOTE_ADDR) cfg.remote
    if r.uri.head? != some (UInt8.ofNat Gen.uriRoot) then none
    else
      let (path, query, env) := match splitAt1 (UInt8.ofNat Gen.querySep) r.uri with
        | none => (r.uri, [], env)
        | some (p, q) => (p, q, env.add (bs Gen.env_QUERY_STRING) q)
      let hit := cfg.scriptNames.find? fun n =>
        n.length ≤ path.length && path.take n.length == n &&
          (path.length == n.length || path.getD n.length 0 == UInt8.ofNat Gen.scriptBoundary)
      let (script, env, path) := match hit with
        | some n => (n, env.add (bs Gen.env_SCRIPT_NAME) (cstr n), path.drop n.length)
        | none => ([], env, path)
      let pathInfo := cstr (urldecode path)
      let env := env.add (bs Gen.env_PATH_INFO) pathInfo
      some { env := env, scriptName := cstr script, pathInfo := pathInfo, queryString := query,
             contentType := r.contentType, contentLength := r.contentLength }

inductive HttpHdrRes
  | head (h : Head) (is11 : Bool)
  | done (o : Outcome)
deriving Repr

/-- result of the `for(;;) switch(input_parser_.step())` loop on one buffer -/
inductive LoopRes
  /-- `more_data`: the buffer is exhausted -/
  | more (r : HttpReq)
  /-- the completion handler was called (or `process_request` answered); `rest` = unread bytes -/
  | fin (res : HttpHdrRes) (rest : Bytes)
deriving Repr

/-- the parse loop of `some_headers_data_read` over the unread bytes `s` of the buffer.
`k` bounds the number of header lines found in this buffer (`2 * s.length + 2` is always enough). -/
def hdrLoop (cfg : HttpCfg) : Nat → HttpReq → Bytes → LoopRes
  | 0, _, s => .fin (.done (.crash "out of fuel")) s
  | k + 1, r, s =>
    let p := parserRun r.ps s
    let r := { r with ps := p.2.1 }
    if p.2.1.under then .fin (.done (.crash "parser: unsigned underflow of header_.size() or bracket_counter_")) p.2.2
    else if p.1 == Gen.pr_more_data then .more r
    else if p.1 == Gen.pr_got_header then
      match httpGotHeader r with
      | none => .fin (.done (.aborted .violation false false)) p.2.2
      | some r => hdrLoop cfg k r p.2.2
    else if p.1 == Gen.pr_end_of_headers then
      match httpProcess cfg r with
      | none => .fin (.done .raw400) p.2.2
      | some h => .fin (.head h r.is11) p.2.2
    else .fin (.done (.aborted .violation false false)) p.2.2

/-- the first part of `some_headers_data_read`: read from the socket when the buffer is empty
(`bytes_readable`, the 16 KiB read cap, `reserve`/`resize`, `read_some`), else account for the
left-over bytes.  Returns the number of bytes added to `total_read_`. -/
def httpFill (st : HttpSt) : Option (Nat × HttpSt) :=
  if st.rest.isEmpty then
    match st.segs.find? (!·.isEmpty) with
    | none => none
    | some s =>
      let n := min s.length Gen.httpReadCap
      let cap := max st.cap n
      match readSome cap st.segs with
      | none => none
      | some (got, segs') => some (got.length, { rest := got, cap := cap, segs := segs' })
  else some (st.rest.length, st)

/-- `some_headers_data_read` until the completion handler is called; `total` is `total_read_`. -/
def httpHeaders (cfg : HttpCfg) : Nat → Nat → HttpReq → HttpSt → HttpHdrRes × HttpSt
  | 0, _, _, st => (.done (.crash "out of fuel"), st)
  | fuel + 1, total, r, st =>
    match httpFill st with
    | none => (.done (.aborted .eof false false), st)
    | some (n, st) =>
      match hdrLoop cfg (2 * st.rest.length + 2) r st.rest with
      | .fin res rest => (res, { st with rest := rest })
      | .more r =>
        if total + n > Gen.httpHeaderCap then (.done (.aborted .violation false false), { st with rest := [] })
        else httpHeaders cfg fuel (total + n) r { st with rest := [] }

/-- `http::async_read_some(p,s,h)` -/
def httpReadSome (want : Nat) (st : HttpSt) : Except Err (Bytes × HttpSt) :=
  if !st.rest.isEmpty then
    .ok (st.rest.take want, { st with rest := st.rest.drop want })
  else
    match readSome want st.segs with
    | none => .error .eof
    | some (got, segs') => .ok (got, { st with cap := 0, segs := segs' })

def keepAliveToken : Bytes := [107, 101, 101, 112, 45, 97, 108, 105, 118, 101]
def httpConnection : Bytes := [72, 84, 84, 80, 95, 67, 79, 78, 78, 69, 67, 84, 73, 79, 78]

/-- `reset_all()`: the environment every request starts with -/
def httpEnv0 (cfg : HttpCfg) : Env :=
  Env.empty.addAll
    [(bs Gen.env_SERVER_SOFTWARE, cfg.software), (bs Gen.env_SERVER_NAME, cfg.serverName),
     (bs Gen.env_SERVER_PORT, cfg.port), (bs Gen.env_GATEWAY_INTERFACE, bs Gen.envGateway)]

/-- `format_output`: keep-alive after an answered request.  `known`: the response went out with a
known length (`Content-Length`), which the write path decides; only matters for HTTP/1.0. -/
def httpKeep (h : Head) (is11 : Bool) (known : Bool) : Bool :=
  let accepts := match h.env.get? httpConnection with
    | some v => ciEq v keepAliveToken
    | none => false
  accepts && (known || is11)

/-- `total_read_` when the header phase of a request is over (it went through the same reads as `httpHeaders`) -/
def httpTotalAfter (cfg : HttpCfg) : Nat → Nat → HttpReq → HttpSt → Nat
  | 0, total, _, _ => total
  | fuel + 1, total, r, st =>
    match httpFill st with
    | none => total
    | some (n, st) =>
      match hdrLoop cfg (2 * st.rest.length + 2) r st.rest with
      | .fin _ _ => total + n
      | .more r =>
        if total + n > Gen.httpHeaderCap then total + n
        else httpTotalAfter cfg fuel (total + n) r { st with rest := [] }

def httpStreamFuel (st : HttpSt) : Nat := st.rest.length + (st.segs.map List.length).sum + st.segs.length + 2

/-- `total_read_` at the start of the next request's header phase: reset per request (`Gen.httpTotalReadResetPerRequest`,
regenerated from `async_read_headers` / `reset_all`), else what the previous requests left -/
def httpNextTotal (cfg : HttpCfg) (t0 : Nat) (st : HttpSt) : Nat :=
  if Gen.httpTotalReadResetPerRequest then 0
  else httpTotalAfter cfg (httpStreamFuel st) t0 { env := httpEnv0 cfg } st

/-- one HTTP connection.  `hints`: per answered request, whether the response had a known length; `t0`: the value of
`total_read_` (the 16 KiB budget of a header section) when the request's header phase starts. -/
def httpConn (lim : Limits) (cfg : HttpCfg) : Nat → List Bool → Nat → HttpSt → List Outcome
  | 0, _, _, _ => [.crash "out of fuel"]
  | fuel + 1, hints, t0, st0 =>
    match httpHeaders cfg (httpStreamFuel st0) t0 { env := httpEnv0 cfg } st0 with
    | (.done o, _) => [o]
    | (.head h is11, st) =>
      let (o, st) := runRequest lim httpReadSome h st
      if isApp o && httpKeep h is11 (hints.headD true) then
        o :: httpConn lim cfg fuel hints.tail (httpNextTotal cfg t0 st0) st
      else [o]

def httpRun (lim : Limits) (cfg : HttpCfg) (hints : List Bool) (segs : Segs) : List Outcome :=
  httpConn lim cfg ((segs.map List.length).sum + 2) hints 0 { segs := segs }

end Cppcms.C01
