import Cppcms.C01.ScgiProofs
import Cppcms.C01.FcgiProofs
/-!
# C01 — property theorems

"Every front-end delivers the request the peer sent, however it is segmented."

A socket is a list of segments; every read returns a non-empty prefix of the next segment, at most
as long as the buffer offered (`readSome`).  `scgiConn`, `fcgiRun`, `httpRun` are the buffer-level
models of one connection (`Scgi.lean`, `Fcgi.lean`, `Http.lean`), built on constants, guards and the
parser transition regenerated from the C++ source (`Gen.lean`).
-/
namespace Cppcms.C01.Props
open Cppcms Cppcms.C01

/-- SCGI: the buffer-level connection (16 eager bytes, netstring arithmetic, pair walk, content loop)
computes a function of the concatenated byte stream. -/
theorem scgi_buffer_eq_stream (lim : Limits) (hb : 0 < lim.bufSize) (segs : Segs) :
    scgiConn lim segs = scgiFlat lim segs.flatten :=
  scgiConn_eq_flat lim hb segs

/-- SCGI: for **every** byte stream (malformed ones included) the fate of the connection does not
depend on how the stream is cut into segments. -/
theorem segmentation_independent_scgi (lim : Limits) (hb : 0 < lim.bufSize) (segs₁ segs₂ : Segs)
    (h : segs₁.flatten = segs₂.flatten) : scgiConn lim segs₁ = scgiConn lim segs₂ := by
  rw [scgiConn_eq_flat lim hb, scgiConn_eq_flat lim hb, h]

/-- FastCGI: the record reader over the read-ahead cache (`cache_start_`/`cache_end_`, compaction,
padding skip) and everything above it (record dispatch, PARAMS accumulation, STDIN reassembly with
`body_ptr_`, keep-alive loop) computes a function of the concatenated byte stream. -/
theorem fcgi_buffer_eq_stream (lim : Limits) (conc : Bytes) (segs : Segs) :
    fcgiRun lim conc segs = fcgiFlat lim conc segs.flatten :=
  fcgiRun_eq_flat lim conc segs

/-- FastCGI: segmentation independence for every byte stream, whole keep-alive connections. -/
theorem segmentation_independent_fcgi (lim : Limits) (conc : Bytes) (segs₁ segs₂ : Segs)
    (h : segs₁.flatten = segs₂.flatten) : fcgiRun lim conc segs₁ = fcgiRun lim conc segs₂ := by
  rw [fcgiRun_eq_flat, fcgiRun_eq_flat, h]

/-- non-vacuity: different segmentations of the same stream exist -/
example : ([[1, 2], [3]] : Segs).flatten = ([[1], [], [2, 3]] : Segs).flatten := by decide

end Cppcms.C01.Props
