import Cppcms.C01.ScgiProofs
import Cppcms.C01.FcgiProofs
import Cppcms.C01.HttpProofs3
import Cppcms.C01.ScgiRoundtrip
import Cppcms.C01.FcgiRoundtrip
import Cppcms.C01.HttpRoundtrip
import Cppcms.C01.StringMap
import Cppcms.C01.HttpAgree
import Cppcms.C01.ViewRT
import Cppcms.C01.PeerJudge
/-!
# C01 — property theorems

"Every front-end delivers the request the peer sent, however it is segmented."

A socket is a list of segments; every read returns a non-empty prefix of the next segment, at most
as long as the buffer offered (`readSome`).  `scgiConn`, `fcgiRun`, `httpRun` are the buffer-level
models of one connection (`Scgi.lean`, `Fcgi.lean`, `Http.lean`), built on constants, guards and the
parser transition regenerated from the C++ source (`Gen.lean`).
-/
namespace Cppcms.C01.Props
open Cppcms Cppcms.C01

/-- SCGI: the buffer-level connection (16 eager bytes, netstring arithmetic, pair walk, content loop)
computes a function of the concatenated byte stream. -/
theorem scgi_buffer_eq_stream (lim : Limits) (hb : 0 < lim.bufSize) (segs : Segs) :
    scgiConn lim segs = scgiFlat lim segs.flatten :=
  scgiConn_eq_flat lim hb segs

/-- SCGI: for **every** byte stream (malformed ones included) the fate of the connection does not
depend on how the stream is cut into segments. -/
theorem segmentation_independent_scgi (lim : Limits) (hb : 0 < lim.bufSize) (segs₁ segs₂ : Segs)
    (h : segs₁.flatten = segs₂.flatten) : scgiConn lim segs₁ = scgiConn lim segs₂ := by
  rw [scgiConn_eq_flat lim hb, scgiConn_eq_flat lim hb, h]

/-- FastCGI: the record reader over the read-ahead cache (`cache_start_`/`cache_end_`, compaction,
padding skip) and everything above it (record dispatch, PARAMS accumulation, STDIN reassembly with
`body_ptr_`, keep-alive loop) computes a function of the concatenated byte stream. -/
theorem fcgi_buffer_eq_stream (lim : Limits) (conc : Bytes) (segs : Segs) :
    fcgiRun lim conc segs = fcgiFlat lim conc segs.flatten :=
  fcgiRun_eq_flat lim conc segs

/-- FastCGI: segmentation independence for every byte stream, whole keep-alive connections. -/
theorem segmentation_independent_fcgi (lim : Limits) (conc : Bytes) (segs₁ segs₂ : Segs)
    (h : segs₁.flatten = segs₂.flatten) : fcgiRun lim conc segs₁ = fcgiRun lim conc segs₂ := by
  rw [fcgiRun_eq_flat, fcgiRun_eq_flat, h]

/-- HTTP: whenever every request's header section ends within the 16 KiB cap (`httpFlatConn … = some outs`;
well-formed or not), the connection over the read-ahead buffer (`input_body_`/`input_body_ptr_`, the
generated `parser::step()` with `getc`/`ungetc`, `total_read_` accounting, body drained from the buffer
exactly once, unread bytes kept for the next keep-alive request) computes the stream-level result. -/
theorem http_buffer_eq_stream (lim : Limits) (hb : 0 < lim.bufSize) (cfg : HttpCfg) (hints : List Bool) (segs : Segs)
    (outs : List Outcome) (h : httpFlatConn cfg lim (segs.flatten.length + 2) hints segs.flatten = some outs) :
    httpRun lim cfg hints segs = outs :=
  httpRun_eq_flat cfg lim hb hints segs outs h

/-- HTTP: segmentation independence for every byte stream whose header sections fit the cap. -/
theorem segmentation_independent_http (lim : Limits) (hb : 0 < lim.bufSize) (cfg : HttpCfg) (hints : List Bool)
    (segs₁ segs₂ : Segs) (h : segs₁.flatten = segs₂.flatten)
    (hcap : (httpFlatConn cfg lim (segs₁.flatten.length + 2) hints segs₁.flatten).isSome) :
    httpRun lim cfg hints segs₁ = httpRun lim cfg hints segs₂ := by
  cases hf : httpFlatConn cfg lim (segs₁.flatten.length + 2) hints segs₁.flatten with
  | none => rw [hf] at hcap; simp at hcap
  | some outs =>
    rw [httpRun_eq_flat cfg lim hb hints segs₁ outs hf]
    rw [h] at hf
    rw [httpRun_eq_flat cfg lim hb hints segs₂ outs hf]

/-- The unrestricted statement for HTTP.  It is **false** of the code: beyond 16 KiB of header bytes
`some_headers_data_read` answers "protocol violation" or accepts, depending on where a read ends
(`total_read_` is only compared at `more_data`).  The check replays a witness pair on model and code
(`gen/corpus/C01/capdep_*.case`); no property of C01/C02 is affected (well-formed requests have header
sections of at most 16 KiB, oversized ones are either answered or closed). -/
def segmentation_independent_http_unrestricted : Prop :=
  ∀ (lim : Limits) (cfg : HttpCfg) (hints : List Bool) (segs₁ segs₂ : Segs),
    segs₁.flatten = segs₂.flatten → httpRun lim cfg hints segs₁ = httpRun lim cfg hints segs₂

/-- the three header-size limits of the front-ends, as regenerated from the source, are the 16 KiB of the
well-formedness predicates (`WFScgi.size`, FastCGI PARAMS accumulation, HTTP header section): a changed
constant in the source breaks this theorem -/
theorem limits_admit_wf :
    Gen.httpHeaderCap = 16384 ∧ Gen.httpReadCap = 16384 ∧ Gen.paramsLimit = 16384 ∧
    Gen.scgiLenBad 16384 = false ∧ Gen.scgiLenBad 16385 = true ∧ Gen.scgiFirstRead = 16 := by decide

/-- **SCGI round trip**, any segmentation: a well-formed request (`WFScgi`: C strings, header block
≤ 16384 bytes, netstring longer than the 16 eager bytes) encoded by the peer (`encScgi`: decimal length,
`:`, `name NUL value NUL`…, `,`, body) is delivered as exactly that environment (same pairs, same
order) and that body stream; the rest is the request layer's function of the two. -/
theorem scgi_roundtrip (lim : Limits) (hb : 0 < lim.bufSize) (pairs : List (Bytes × Bytes)) (body : Bytes)
    (hw : WFScgi pairs) (segs : Segs) (h : segs.flatten = encScgi pairs body) :
    scgiConn lim segs = [(reqOutcome lim (Head.ofEnv (Env.empty.addAll pairs)) body).1] := by
  rw [scgiConn_eq_flat lim hb, h]
  exact scgiFlat_roundtrip lim pairs body hw

/-- non-vacuity of `WFScgi`: a small POST request -/
example : WFScgi [([67, 79, 78, 84, 69, 78, 84, 95, 76, 69, 78, 71, 84, 72], [51]), ([83, 67, 82, 73, 80, 84, 95, 78, 65, 77, 69], [47, 115])] :=
  ⟨by decide, by decide, by decide⟩

/-- **FastCGI round trip**, any segmentation, any cut of the name-value block into PARAMS records and of the
body into STDIN records, any padding, either length encoding: a well-formed request (`WFFcgi`) is delivered
as exactly the peer's environment and body stream. -/
theorem fcgi_roundtrip (lim : Limits) (hb : 0 < lim.bufSize) (conc : Bytes) (eps : List EncPair) (body : Bytes)
    (fr : FcgiFraming) (hw : WFFcgi eps body fr) (segs : Segs) (h : segs.flatten = encFcgi fr) :
    fcgiRun lim conc segs = [(reqOutcome lim (Head.ofEnv (Env.empty.addAll (pairsOf eps))) body).1] := by
  rw [fcgiRun_eq_flat, h]
  exact fcgiFlat_roundtrip lim hb conc eps body fr hw

/-- **keep-alive sequence** (FastCGI, any segmentation): well-formed requests with `FCGI_KEEP_CONN` sent back
to back on one connection — each framed freely — are each delivered exactly, in order, as long as each is
answered by the application; the connection ends when the peer closes. -/
theorem keepalive_sequence_fcgi (lim : Limits) (hb : 0 < lim.bufSize) (conc : Bytes) (qs : List FcgiReqSpec)
    (hq : ∀ q ∈ qs, WFFcgi q.eps q.body q.fr ∧ isApp (outcomeOf lim q) = true)
    (segs : Segs) (h : segs.flatten = encSeq qs) :
    fcgiRun lim conc segs = qs.map (outcomeOf lim) ++ [.aborted .eof false false] := by
  rw [fcgiRun_eq_flat, h]
  unfold fcgiFlat
  exact fcgiConn_seq lim hb conc qs false _ hq (by omega)

/-- **SCGI and FastCGI agree**: the same environment and body sent over either front-end, however
framed and segmented, have the same fate (same application view, same error answer). -/
theorem frontends_agree_scgi_fcgi (lim : Limits) (hb : 0 < lim.bufSize) (conc : Bytes) (eps : List EncPair) (body : Bytes)
    (fr : FcgiFraming) (hwf : WFFcgi eps body fr) (hws : WFScgi (pairsOf eps))
    (segsS segsF : Segs) (hS : segsS.flatten = encScgi (pairsOf eps) body) (hF : segsF.flatten = encFcgi fr) :
    scgiConn lim segsS = fcgiRun lim conc segsF := by
  rw [scgi_roundtrip lim hb _ body hws segsS hS, fcgi_roundtrip lim hb conc eps body fr hwf segsF hF]

/-- non-vacuity of `WFFcgi`: `CONTENT_LENGTH=3`, the block in one PARAMS record (long-form value length),
the body `abc` cut into two STDIN records with padding -/
example : WFFcgi [{ name := [67, 79, 78, 84, 69, 78, 84, 95, 76, 69, 78, 71, 84, 72], value := [51], longValue := true }] [97, 98, 99]
    { rid := 1, padBegin := 0, padParamsEnd := 3, padStdinEnd := 0,
      params := [⟨encPairs [{ name := [67, 79, 78, 84, 69, 78, 84, 95, 76, 69, 78, 71, 84, 72], value := [51], longValue := true }], 5⟩],
      stdin := [⟨[97], 1⟩, ⟨[98, 99], 0⟩] } :=
  ⟨by decide, by decide, by decide, by decide, by decide, by decide, by unfold WFPieces; decide, by decide,
   by unfold WFPieces; decide, by decide, by decide⟩

/-- **HTTP header lines round trip** (over the *generated* `parser::step()`): header lines (`PlainLine`: not empty,
not starting with a blank, `Balanced` — any bytes, quoted strings `"…"` with `\c` escapes and comments `(…)` closed
within the line, no CR outside them, no backslash-escaped byte ≥ 127) written by the peer as `line CRLF … CRLF` reach the
per-header code of `some_headers_data_read` (`httpGotHeader`: request-line split / `parse_single_header`)
unchanged, one by one and in order (`feedLines`); after the empty line `process_request` runs and the body
is left unread in the buffer.  Together with `http_buffer_eq_stream` this holds for every segmentation.
(Folding: `http_folded_lines_roundtrip`; the inverse of `parse_single_header`/`process_request`:
`http_head_roundtrip`.) -/
theorem http_header_lines_roundtrip (cfg : HttpCfg) (ls : List Bytes) (r r' : HttpReq) (body : Bytes)
    (hw : ∀ l ∈ ls, PlainLine l) (hs : r.ps.state = Gen.ps_idle) (hb : r.ps.bc = 0) (hu : r.ps.under = false)
    (hg : r.ps.unget = false) (hf : feedLines r ls = some r') :
    hdrFlat cfg r (encLines ls ++ body) =
      (match httpProcess cfg { r' with ps := { r'.ps with state := Gen.ps_last_lf_exptected, rhdr := [] } } with
       | none => (.done .raw400, body)
       | some h => (.head h r'.is11, body)) := by
  unfold hdrFlat
  rw [hdrLoopC_lines cfg ls r r' body hw hs hb hu hg hf]
  cases httpProcess cfg { r' with ps := { r'.ps with state := Gen.ps_last_lf_exptected, rhdr := [] } } with
  | none => rfl
  | some h => rfl

/-- **HTTP folded header round trip** (obs-fold = CRLF 1*(SP / HTAB), over the generated `parser::step()`):
a header whose value is continued on lines that start with a space **or a horizontal tab** is reported with
the unfolded value in `header_` — normalisation the code really applies: the CRLF of every fold is dropped, the
blank/tab that starts the continuation line is kept (RFC 7230 would allow replacing it by one SP) — and the
look-ahead byte is pushed back.  A parser that does not treat HTAB (or SP) as a fold breaks this theorem. -/
theorem http_folded_header_roundtrip (l : FLine) (hl : WFLine l) (c : UInt8) (hc : c ≠ 32 ∧ c ≠ 9) (rest : Bytes)
    (ps : Gen.PState) (hs : ps.state = Gen.ps_idle) (hb : ps.bc = 0) (hu : ps.under = false) (hg : ps.unget = false) :
    parserRun ps (l.wire ++ 13 :: 10 :: c :: rest) =
      (Gen.pr_got_header, { ps with state := Gen.ps_idle, rhdr := (natsOf l.value).reverse }, c :: rest) :=
  parserRun_fline l hl c hc rest ps hs hb hu hg

/-- header section with folded headers (any number of folds in any number of headers; with
`http_buffer_eq_stream`: folds split across segments anywhere): every header reaches the per-header code with
its unfolded value, in order; then `process_request`; the body is left unread. -/
theorem http_folded_lines_roundtrip (cfg : HttpCfg) (ls : List FLine) (r r' : HttpReq) (body : Bytes)
    (hw : ∀ l ∈ ls, WFLine l) (hs : r.ps.state = Gen.ps_idle) (hb : r.ps.bc = 0) (hu : r.ps.under = false)
    (hg : r.ps.unget = false) (hf : feedLines r (ls.map FLine.value) = some r') :
    hdrFlat cfg r (encFLines ls ++ body) =
      (match httpProcess cfg { r' with ps := { r'.ps with state := Gen.ps_last_lf_exptected, rhdr := [] } } with
       | none => (.done .raw400, body)
       | some h => (.head h r'.is11, body)) := by
  unfold hdrFlat
  rw [hdrLoopC_flines cfg ls r r' body hw hs hb hu hg hf]
  cases httpProcess cfg { r' with ps := { r'.ps with state := Gen.ps_last_lf_exptected, rhdr := [] } } with
  | none => rfl
  | some h => rfl

/-! ## by-name lookup in the request's variable table (`string_map`)

The CGI variables are stored in an open-addressing hash table (`private/string_map.h`, the `#elif 1` variant)
that starts with `Gen.smInitSize` slots, doubles when `Gen.smGrow total size`, inserts probing from
`Gen.smInsertStart` by `Gen.smInsertStep` to the first free slot and looks up probing from `Gen.smGetStart` by
`Gen.smGetStep` to the first free slot (all five regenerated from the source).  `SMap` is that table next to
the abstract `Env` the rest of the model uses. -/

/-- for every hash function and every sequence of `add`s (through any number of growths) `get` answers what
the abstract environment answers: the value of the entry with that name that went into the current table
first (`add` does not look for an existing name), nothing for a name that was never added.  Breaks when
`get` does not probe the way `add` inserted (start, step or table size). -/
theorem get_after_adds (h : Bytes → Nat) (adds : List (Bytes × Bytes)) (k : Bytes) :
    (SMap.ofAdds h adds).get h k = (Env.empty.addAll adds).get? k :=
  Cppcms.C01.get_after_adds h adds k

/-- the same in terms of the `add`s alone: a name never added is not found; with pairwise different names
(one request's CGI variables) every variable is found by name with the value it was added with -/
theorem get_after_adds_plain (h : Bytes → Nat) (adds : List (Bytes × Bytes)) :
    (∀ k, (∀ e ∈ adds, e.1 ≠ k) → (SMap.ofAdds h adds).get h k = none) ∧
    ((∀ a ∈ adds, ∀ b ∈ adds, a.1 = b.1 → a = b) →
      ∀ k v, (k, v) ∈ adds → (SMap.ofAdds h adds).get h k = some v) :=
  ⟨fun k hk => get_absent h adds k hk, fun hd k v hkv => get_distinct h adds k v hd hkv⟩

/-- the table the model carries is the abstract environment of the rest of the model -/
theorem smap_env (h : Bytes → Nat) (adds : List (Bytes × Bytes)) :
    (SMap.ofAdds h adds).env = Env.empty.addAll adds := (sinv_ofAdds h adds).2

set_option maxRecDepth 100000 in
/-- non-vacuity: 40 variables whose hashes all collide, two growths, every one found -/
example : (List.range 40).all (fun i =>
    (SMap.ofAdds (fun _ => 7) ((List.range 40).map (fun j => ([j.toUInt8], [j.toUInt8, 1])))).get (fun _ => 7) [i.toUInt8]
      == some [i.toUInt8, 1]) = true := by decide

/-! ## HTTP at request level, the request layer's parsers

`HttpPeer` is the peer's view of an HTTP request head: method, configured script name, the path percent-encoded
piece by piece (`PctPiece`: literal, `+`, `%XY` with either case — every choice the peer has), optional query
string, protocol string, header fields (`HttpField`: the name as spelled, the blanks after the colon, the value).
`HttpPeer.head cfg q` is what the peer means: the CGI environment in the order the embedded server builds it
(canonical names — the inverse of the peer's spelling is `canonName` —, `HTTP_` prefix, `CONTENT_TYPE` /
`CONTENT_LENGTH` unprefixed, `REQUEST_METHOD`, `REMOTE_*`, `QUERY_STRING`, `SCRIPT_NAME`, decoded `PATH_INFO`)
and the five values the request layer asks the front-end for. -/

/-- `util::urldecode` inverts every percent-encoding (upper/lower case digits, `+` or `%20` for a blank, any set
of escaped bytes as long as `%` and `+` themselves are escaped) -/
theorem urldecode_inverts_percent_encoding (ps : List PctPiece) (h : ∀ p ∈ ps, p.ok) :
    urldecode (pctWire ps) = pctValue ps :=
  urldecode_pct ps h

/-- `request::parse_form_urlencoded` round trip: for every list of fields (non-empty names; `&`, `=` escaped in
names, `&` in values; any admissible encoding) the form holds the fields the peer meant, in order -/
theorem parse_form_urlencoded_roundtrip (fs : List FormField) (hfs : ∀ f ∈ fs, f.ok) (fuel : Nat) (hf : fs.length ≤ fuel) :
    parseForm fuel (encForm fs) [] = (true, fs.map FormField.meant) := by
  have := parseForm_roundtrip fs hfs fuel [] hf
  simpa using this

/-- `request::parse_cookies` round trip: every list of cookies with token names (not starting with `$`) and values
sent as tokens (possibly empty) or as quoted strings (any bytes; `"` and `\` with a backslash, any other byte with
or without), separated by `;` or `,` and any blanks/tabs, is delivered as the map the peer meant (first one wins
for a repeated name) -/
theorem parse_cookies_roundtrip (cs : List CookieItem) (hcs : ∀ c ∈ cs, c.ok) :
    parseCookies (encCookies cs) = cookiesMeant [] cs :=
  parseCookies_roundtrip cs hcs

/-- HTTP request head through the per-line code: request line split (method / URI / protocol), every header field
through `parse_single_header` (canonical name, blanks after the colon dropped), then `process_request` (method
token check, `?` split, script-name match, percent-decoding of the path): exactly `HttpPeer.head`. -/
theorem http_head_roundtrip (cfg : HttpCfg) (q : HttpPeer) (hq : q.ok cfg) :
    ∃ r', feedLines { env := httpEnv0 cfg } q.lines = some r' ∧ r'.is11 = (q.proto == bs Gen.http11) ∧
      ∀ ps, httpProcess cfg { r' with ps := ps } = some (q.head cfg) :=
  Cppcms.C01.http_head_roundtrip cfg q hq { env := httpEnv0 cfg } rfl

/-- **HTTP round trip** (`http_roundtrip` of DESIGN.md): a well-formed request, its header lines folded any way the
peer likes (`HttpWire`: obs-fold with SP or HTAB anywhere a `WFLine` allows, header section within the 16 KiB
the server accepts), followed by its body, cut into segments **anywhere**: the request layer gets exactly the
head the peer meant and the body stream; what the application then observes is `reqOutcome` of those, the same
function the SCGI and FastCGI round trips end in. -/
theorem http_roundtrip (cfg : HttpCfg) (lim : Limits) (hb : 0 < lim.bufSize) (q : HttpPeer) (hq : q.ok cfg)
    (ls : List FLine) (hw : HttpWire q ls) (body : Bytes) (hints : List Bool) (segs : Segs)
    (hseg : segs.flatten = encFLines ls ++ body)
    (hclose : (isApp (reqOutcome lim (q.head cfg) body).1 &&
      httpKeep (q.head cfg) (q.proto == bs Gen.http11) (hints.headD true)) = false) :
    httpRun lim cfg hints segs = [(reqOutcome lim (q.head cfg) body).1] :=
  http_roundtrip_conn cfg lim hb q hq ls hw body hints segs hseg hclose

/-- the embedded server's 16 KiB budget for a header section (`total_read_`) is **per request**: whatever the previous
requests of a kept-alive connection made it count, the header phase of the next request starts at 0
(`Gen.httpTotalReadResetPerRequest`: regenerated from the assignments to `total_read_` in `async_read_headers` /
`reset_all`; `httpConn` carries the counter from request to request).  `keepalive_sequence_http`,
`http_buffer_eq_stream` rest on it. -/
theorem http_header_budget_per_request (cfg : HttpCfg) (t0 : Nat) (st : HttpSt) : httpNextTotal cfg t0 st = 0 :=
  httpNextTotal_zero cfg t0 st

/-- **HTTP keep-alive sequence**: well-formed requests sent back to back on one connection (each with its own
folding, `Content-Length` = length of its body, answered by the application, `Connection: keep-alive` honoured),
cut into segments anywhere — e.g. the end of one request and the start of the next in one segment — are each
delivered exactly, in order; the connection ends when the peer closes. -/
theorem keepalive_sequence_http (cfg : HttpCfg) (lim : Limits) (hb : 0 < lim.bufSize) (xs : List HttpItem)
    (hok : ∀ x ∈ xs, x.ok cfg lim) (hints : List Bool) (segs : Segs) (hseg : segs.flatten = encHttpSeq xs) :
    httpRun lim cfg hints segs = xs.map (HttpItem.outcome cfg lim) ++ [.aborted .eof false false] := by
  apply httpRun_eq_flat cfg lim hb
  rw [hseg]
  apply httpFlatConn_seq cfg lim xs _ hints hok
  have : ∀ xs : List HttpItem, xs.length ≤ (encHttpSeq xs).length := by
    intro xs
    induction xs with
    | nil => simp
    | cons x t ih =>
      simp only [encHttpSeq, List.flatMap_cons, List.length_append, List.length_cons] at ih ⊢
      have : 1 ≤ (HttpItem.wire x).length := by
        simp [HttpItem.wire, encFLines]; omega
      omega
  have := this xs
  omega

/-- **all three front-ends agree**: the request `q` over the embedded HTTP server (any folding, any segmentation),
and the CGI variables the embedded server derives from it (`HttpPeer.envPairs`, no name twice) sent by a gateway
over SCGI and over FastCGI (any record framing, padding, length encoding, segmentation), with the same body, have
the same fate: same application view or same error answer. -/
theorem frontends_agree_http (cfg : HttpCfg) (lim : Limits) (hb : 0 < lim.bufSize) (q : HttpPeer) (hq : q.ok cfg)
    (ls : List FLine) (hw : HttpWire q ls) (body : Bytes) (hints : List Bool)
    (hd : Distinct (q.envPairs cfg))
    (hclose : (isApp (reqOutcome lim (q.head cfg) body).1 &&
      httpKeep (q.head cfg) (q.proto == bs Gen.http11) (hints.headD true)) = false)
    (conc : Bytes) (eps : List EncPair) (fr : FcgiFraming) (hpairs : pairsOf eps = q.envPairs cfg)
    (hwf : WFFcgi eps body fr) (hws : WFScgi (pairsOf eps))
    (segsH segsS segsF : Segs) (hH : segsH.flatten = encFLines ls ++ body)
    (hS : segsS.flatten = encScgi (pairsOf eps) body) (hF : segsF.flatten = encFcgi fr) :
    httpRun lim cfg hints segsH = scgiConn lim segsS ∧ scgiConn lim segsS = fcgiRun lim conc segsF := by
  rw [http_roundtrip cfg lim hb q hq ls hw body hints segsH hH hclose,
    scgi_roundtrip lim hb _ body hws segsS hS, fcgi_roundtrip lim hb conc eps body fr hwf segsF hF, hpairs,
    head_ofEnv_http cfg q hd]
  exact ⟨rfl, rfl⟩

/-- from the head to the application's view, GET: query string and cookie header written by the peer-side encoders,
no content — the application (any of the three front-ends: `reqOutcome` is what all round trips end in) gets exactly
those GET fields (multimap order) and cookies -/
theorem view_roundtrip_get (lim : Limits) (h : Head) (gs : List FormField) (hgs : ∀ f ∈ gs, f.ok)
    (cs : List CookieItem) (hcs : ∀ c ∈ cs, c.ok) (hq : h.queryString = encForm gs)
    (hck : h.env.getSafe sHTTP_COOKIE = encCookies cs) (hcl : h.contentLength = 0) (rest : Bytes) :
    reqOutcome lim h rest =
      (.app (kindOf h.scriptName) false (viewOf h (gs.map FormField.meant) [] (cookiesMeant [] cs) []), rest) :=
  Cppcms.C01.view_roundtrip_get lim h gs hgs cs hcs hq hck hcl rest

/-- POST with an `application/x-www-form-urlencoded` body written by the peer-side encoder: GET fields, cookies, POST
fields and the raw body as the peer meant them; exactly the body is consumed -/
theorem view_roundtrip_post (lim : Limits) (h : Head) (gs : List FormField) (hgs : ∀ f ∈ gs, f.ok)
    (cs : List CookieItem) (hcs : ∀ c ∈ cs, c.ok) (ps : List FormField) (hps : ∀ f ∈ ps, f.ok)
    (hq : h.queryString = encForm gs) (hck : h.env.getSafe sHTTP_COOKIE = encCookies cs)
    (hct : h.contentType = mtFormUrlencoded) (hne : encForm ps ≠ [])
    (hcl : h.contentLength = ((encForm ps).length : Int)) (hlim : (encForm ps).length ≤ lim.contentLimit)
    (hlim2 : (lim.contentLimit : Int) < 2 ^ 62) (hk : kindOf h.scriptName ≠ .filter) (rest : Bytes) :
    reqOutcome lim h (encForm ps ++ rest) =
      (.app (kindOf h.scriptName) false
        (viewOf h (gs.map FormField.meant) (ps.map FormField.meant) (cookiesMeant [] cs) (encForm ps)), rest) :=
  Cppcms.C01.view_roundtrip_post lim h gs hgs cs hcs ps hps hq hck hct hne hcl hlim hlim2 hk rest

/-- **end to end over HTTP** (`decode (any segmentation of encHttp r fr) = ok (norm r)`): a well-formed GET request
whose query string and `Cookie` field the peer wrote with the encoders above, header lines folded any way, cut into
segments anywhere, on a connection that is not kept alive: the application runs once, on exactly this view. -/
theorem http_get_end_to_end (cfg : HttpCfg) (lim : Limits) (hb : 0 < lim.bufSize) (q : HttpPeer) (hq : q.ok cfg)
    (ls : List FLine) (hw : HttpWire q ls) (hints : List Bool) (segs : Segs) (hseg : segs.flatten = encFLines ls)
    (gs : List FormField) (hgs : ∀ f ∈ gs, f.ok) (cs : List CookieItem) (hcs : ∀ c ∈ cs, c.ok)
    (hquery : q.query.getD [] = encForm gs) (hck : (q.head cfg).env.getSafe sHTTP_COOKIE = encCookies cs)
    (hcl : (q.head cfg).contentLength = 0)
    (hclose : httpKeep (q.head cfg) (q.proto == bs Gen.http11) (hints.headD true) = false) :
    httpRun lim cfg hints segs =
      [.app (kindOf q.script) false (viewOf (q.head cfg) (gs.map FormField.meant) [] (cookiesMeant [] cs) [])] := by
  have hv := Cppcms.C01.view_roundtrip_get lim (q.head cfg) gs hgs cs hcs hquery hck hcl []
  have := http_roundtrip cfg lim hb q hq ls hw [] hints segs (by simpa using hseg) (by rw [hv, hclose]; simp)
  rw [this, hv]
  rfl

/-- non-vacuity: `GET /s/a%2fb+c?x=1 HTTP/1.1` with `Host: h` and a folded `X-Y:` field, default configuration -/
example : ∃ (q : HttpPeer) (ls : List FLine),
    q.ok { software := [], serverName := [], port := [], remote := [] } ∧ HttpWire q ls ∧ ls.length = 3 := by
  refine ⟨{ method := [71, 69, 84], script := [47, 115],
            path := [.lit 47, .lit 97, .esc 47 false true, .lit 98, .plus, .lit 99], query := some [120, 61, 49],
            proto := [72, 84, 84, 80, 47, 49, 46, 49],
            fields := [{ name := [72, 111, 115, 116], ws := [32], value := [104] },
                       { name := [88, 45, 89], ws := [], value := [49, 44, 9, 50] }] },
          [{ head := [71, 69, 84, 32, 47, 115, 47, 97, 37, 50, 70, 98, 43, 99, 63, 120, 61, 49, 32, 72, 84, 84, 80, 47, 49, 46, 49] },
           { head := [72, 111, 115, 116, 58, 32, 104] },
           { head := [88, 45, 89, 58, 49, 44], tail := [[9, 50]] }], ?_, ?_, rfl⟩
  · refine ⟨by decide, by decide, by decide, ?_, by decide, ?_, by decide, by decide, ?_⟩
    · intro p hp
      simp only [List.mem_cons, List.not_mem_nil, or_false] at hp
      rcases hp with rfl | rfl | rfl | rfl | rfl | rfl <;>
        exact ⟨by simp [PctPiece.ok], by decide, by intro b hb; cases hb <;> decide⟩
    · intro s hs; cases hs; decide
    · intro f hf
      simp only [List.mem_cons, List.not_mem_nil, or_false] at hf
      rcases hf with rfl | rfl
      · exact ⟨by decide, by decide, by decide, Or.inr ⟨104, [], rfl, by decide, by decide, by decide⟩, by decide⟩
      · exact ⟨by decide, by decide, by decide, Or.inr ⟨49, _, rfl, by decide, by decide, by decide⟩, by decide⟩
  · refine ⟨?_, by decide, by decide⟩
    intro l hl
    simp only [List.mem_cons, List.not_mem_nil, or_false] at hl
    rcases hl with rfl | rfl | rfl
    · exact ⟨⟨by decide, by decide, by decide⟩, by intro p hp; cases hp⟩
    · exact ⟨⟨by decide, by decide, by decide⟩, by intro p hp; cases hp⟩
    · refine ⟨⟨by decide, by decide, by decide⟩, ?_⟩
      intro p hp
      simp only [List.mem_cons, List.not_mem_nil, or_false] at hp
      subst hp
      exact ⟨by decide, by decide⟩

/-- non-vacuity of `FormField.ok` / `CookieItem.ok` (through its sound executable version): `a%20b=1&c=` and
`sid=abc; t=; q="a\" \b"` -/
example : (∀ f ∈ [({ name := [.lit 97, .esc 32 false false, .lit 98], value := [.lit 49] } : FormField),
                  { name := [.lit 99], value := [] }], f.ok) ∧
    (∀ c ∈ [({ name := [115, 105, 100], value := [97, 98, 99] } : CookieItem), { name := [116], value := [] },
            { name := [113], value := [97, 34, 32, 98], esc := some [false, true, false, true] }], c.ok) := by
  constructor
  · intro f hf
    simp only [List.mem_cons, List.not_mem_nil, or_false] at hf
    rcases hf with rfl | rfl
    · refine ⟨?_, ?_, by decide⟩
      · intro p hp
        simp only [List.mem_cons, List.not_mem_nil, or_false] at hp
        rcases hp with rfl | rfl | rfl <;> exact ⟨by simp [PctPiece.ok], by decide, by decide⟩
      · intro p hp
        simp only [List.mem_cons, List.not_mem_nil, or_false] at hp
        subst hp; exact ⟨by simp [PctPiece.ok], by decide⟩
    · refine ⟨?_, (by intro p hp; cases hp), by decide⟩
      intro p hp
      simp only [List.mem_cons, List.not_mem_nil, or_false] at hp
      subst hp; exact ⟨by simp [PctPiece.ok], by decide, by decide⟩
  · intro c hc
    simp only [List.mem_cons, List.not_mem_nil, or_false] at hc
    rcases hc with rfl | rfl | rfl <;> exact CookieItem.okB_sound (by decide)

/-- non-vacuity of `WFLine`: `A: x,` CRLF HTAB `y` CRLF SP `z` (a TAB fold and a SP fold) -/
example : WFLine { head := [65, 58, 32, 120, 44], tail := [[9, 121], [32, 122]] } :=
  ⟨⟨by decide, by decide, by decide⟩, by
    intro p hp
    simp at hp
    rcases hp with rfl | rfl
    · exact ⟨by decide, by decide⟩
    · exact ⟨by decide, by decide⟩⟩

/-- non-vacuity of `PlainLine` with a quoted string and a comment: `X: "a\"b; c" (d\)e)` -/
example : PlainLine [88, 58, 32, 34, 97, 92, 34, 98, 59, 32, 99, 34, 32, 40, 100, 92, 41, 101, 41] :=
  ⟨by decide, by decide, by decide⟩

/-- non-vacuity of `PlainLine`: `GET / H` -/
example : PlainLine [71, 69, 84, 32, 47, 32, 72] := ⟨by decide, by decide, by decide⟩

/-- non-vacuity: different segmentations of the same stream exist -/
example : ([[1, 2], [3]] : Segs).flatten = ([[1], [], [2, 3]] : Segs).flatten := by decide

end Cppcms.C01.Props
