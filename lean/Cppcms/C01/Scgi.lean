import Cppcms.C01.Request
/-!
# SCGI front-end (`src/scgi_api.cpp`) at buffer level

`async_read_headers` → `on_first_read` (16 eager bytes) → `on_headers_chunk_read` (rest of the
netstring, NUL-separated pair walk) → request layer; the body is read straight from the socket.
All bounds and constants come from `Gen`.
-/
namespace Cppcms.C01
open Cppcms

/-- outcome of `on_first_read` on the eagerly read bytes -/
inductive ScgiFirst
  | bad (e : Err)
  | crash (what : String)
  /-- continue: `sep_`, the new `buffer_.size()` -/
  | more (sep : Nat) (size : Nat)
deriving Repr, DecidableEq

/-- `scgi::on_first_read` for `n = buf.length` bytes (always `Gen.scgiFirstRead`, `async_read` is all-or-error) -/
def scgiOnFirstRead (buf : Bytes) : ScgiFirst :=
  let n := buf.length
  let sep := (buf.takeWhile (· != UInt8.ofNat Gen.scgiSepChar)).length
  if Gen.scgiSepBad sep then .bad .violation
  else if sep ≥ n then .crash "buffer_[sep_] out of range"
  else
    -- buffer_[sep_]=0; atoi(&buffer_.front())
    let len := atoi (cstr (buf.take sep))
    if Gen.scgiLenBad len then .bad .violation
    else
      let newSize := Gen.scgiNewSize sep len
      if !vecResizeOk newSize then .crash "buffer_.resize: std::length_error"
      else if Gen.scgiTooShort newSize.toNat n then .bad .violation
      else .more sep newSize.toNat

/-- the `while(p < &buffer_.back())` pair walk; `p` is the buffer from the cursor to its end
(the terminator byte included).  `none` = `strlen` ran past the end of the buffer. -/
def scgiWalk : Nat → Bytes → Env → Option Env
  | 0, _, env => some env
  | fuel + 1, p, env =>
    if p.length ≤ 1 then some env
    else if !p.contains 0 then none
    else
      let key := cstr p
      let p1 := p.drop (key.length + 1)
      if p1.length ≤ 1 then some env
      else if !p1.contains 0 then none
      else
        let value := cstr p1
        scgiWalk fuel (p1.drop (value.length + 1)) (env.add key value)

/-- `scgi::on_headers_chunk_read` on the complete buffer (`size` bytes, `sep` < 16) -/
def scgiOnHeaders (buf : Bytes) (sep : Nat) : Except Outcome Env :=
  match buf.getLast? with
  | none => .error (.crash "buffer_.back() on empty buffer")
  | some last =>
    if last != UInt8.ofNat Gen.scgiTermChar then .error (.aborted .violation false false)
    else
      let buf := if Gen.scgiNulTerminated then buf.dropLast ++ [0] else buf
      if sep + 1 ≥ buf.length then .error (.crash "&buffer_[sep_+1] out of range")
      else
        match scgiWalk buf.length (buf.drop (sep + 1)) Env.empty with
        | none => .error (.crash "strlen past the end of buffer_")
        | some env => .ok env

/-- one SCGI connection: exactly one request, `keep_alive()` is `false` -/
def scgiConn (lim : Limits) (segs : Segs) : List Outcome :=
  let (b16, segs1, ok) := readExact Gen.scgiFirstRead segs
  if !ok then [.aborted .eof false false]
  else match scgiOnFirstRead b16 with
  | .bad e => [.aborted e false false]
  | .crash w => [.crash w]
  | .more sep size =>
    let (rest, segs2, ok) := readExact (size - b16.length) segs1
    if !ok then [.aborted .eof false false]
    else match scgiOnHeaders (b16 ++ rest) sep with
    | .error o => [o]
    | .ok env => [(runRequest lim sockRead (Head.ofEnv env) segs2).1]

end Cppcms.C01
