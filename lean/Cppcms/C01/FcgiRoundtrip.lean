import Cppcms.C01.FcgiProofs
import Cppcms.C01.ScgiRoundtrip
/-! FastCGI round trip: BEGIN_REQUEST, the name-value block cut into PARAMS records at arbitrary
places with arbitrary padding, empty PARAMS, the body cut into STDIN records, empty STDIN — decoded to
exactly the peer's environment and body. -/
namespace Cppcms.C01
open Cppcms

/-! ## the peer's encoder -/

/-- record header: version 1, type, request id, content length, padding length, reserved -/
def encHdr (t rid clen pad : Nat) : Bytes :=
  [1, UInt8.ofNat t, UInt8.ofNat (rid / 256), UInt8.ofNat (rid % 256),
   UInt8.ofNat (clen / 256), UInt8.ofNat (clen % 256), UInt8.ofNat pad, 0]

/-- one record: header, content, padding -/
def encRec (t rid : Nat) (content : Bytes) (pad : Nat) : Bytes :=
  encHdr t rid content.length pad ++ content ++ List.replicate pad 0

theorem ofNat_toNat_lt (n : Nat) (h : n < 256) : (UInt8.ofNat n).toNat = n := by
  simp [Nat.mod_eq_of_lt h]

theorem encHdr_len (t rid clen pad : Nat) : (encHdr t rid clen pad).length = Gen.hdrSize := by
  simp [encHdr, Gen.hdrSize]

theorem parseFcgiHdr_eight (a0 a1 a2 a3 a4 a5 a6 a7 : UInt8) :
    parseFcgiHdr [a0, a1, a2, a3, a4, a5, a6, a7] =
      { version := a0.toNat, type := a1.toNat, requestId := a2.toNat * 256 + a3.toNat,
        contentLength := a4.toNat * 256 + a5.toNat, paddingLength := a6.toNat } := rfl

theorem parse_encHdr (t rid clen pad : Nat) (ht : t < 256) (hr : rid < 65536) (hc : clen < 65536) (hp : pad < 256) :
    parseFcgiHdr (encHdr t rid clen pad) =
      { version := 1, type := t, requestId := rid, contentLength := clen, paddingLength := pad } := by
  unfold encHdr
  rw [parseFcgiHdr_eight]
  rw [ofNat_toNat_lt t ht, ofNat_toNat_lt (rid / 256) (by omega), ofNat_toNat_lt (rid % 256) (by omega),
    ofNat_toNat_lt (clen / 256) (by omega), ofNat_toNat_lt (clen % 256) (by omega), ofNat_toNat_lt pad hp]
  have e1 : rid / 256 * 256 + rid % 256 = rid := Nat.div_add_mod' rid 256
  have e2 : clen / 256 * 256 + clen % 256 = clen := Nat.div_add_mod' clen 256
  rw [e1, e2]
  rfl

/-- reading one well-sized record from the stream -/
theorem fcgiReadRecordF_encRec (t rid : Nat) (content : Bytes) (pad : Nat) (rest : Bytes) (alloc : Bool) (body : Bytes)
    (ht : t < 256) (hr : rid < 65536) (hc : content.length < 65536) (hp : pad < 256) :
    fcgiReadRecordF (encRec t rid content pad ++ rest, alloc) body =
      (.got { version := 1, type := t, requestId := rid, contentLength := content.length, paddingLength := pad }
            (body ++ content),
       (rest, alloc || decide (0 < content.length + pad))) := by
  unfold fcgiReadRecordF encRec
  have hparse := parse_encHdr t rid content.length pad ht hr hc hp
  have hl := encHdr_len t rid content.length pad
  generalize encHdr t rid content.length pad = hb at hparse hl
  have hstream : hb ++ content ++ List.replicate pad 0 ++ rest = hb ++ (content ++ (List.replicate pad 0 ++ rest)) := by
    simp [List.append_assoc]
  simp only [hstream]
  have hlen : ¬ ((hb ++ (content ++ (List.replicate pad 0 ++ rest))).length < Gen.hdrSize) := by
    rw [List.length_append]; omega
  simp only [hlen, if_false]
  have htake : (hb ++ (content ++ (List.replicate pad 0 ++ rest))).take Gen.hdrSize = hb := by
    rw [← hl, List.take_append_of_le_length (Nat.le_refl _), List.take_length]
  have hdrop : (hb ++ (content ++ (List.replicate pad 0 ++ rest))).drop Gen.hdrSize = content ++ (List.replicate pad 0 ++ rest) := by
    rw [← hl, List.drop_append_of_le_length (Nat.le_refl _), List.drop_length, List.nil_append]
  simp only [htake, hparse, hdrop]
  by_cases hz : content.length + pad = 0
  · have h1 : content = [] := List.eq_nil_of_length_eq_zero (by omega)
    have h2 : pad = 0 := by omega
    subst h1 h2
    simp
  · have hzb : (content.length + pad == 0) = false := by
      cases hq : content.length + pad with
      | zero => exact absurd hq hz
      | succ k => rfl
    simp only [hzb, Bool.false_eq_true, if_false]
    have hfit : ¬ ((hb ++ (content ++ (List.replicate pad 0 ++ rest))).length < Gen.hdrSize + (content.length + pad)) := by
      simp only [List.length_append, List.length_replicate]; omega
    simp only [hfit, if_false]
    have hpos : decide (0 < content.length + pad) = true := decide_eq_true (by omega)
    simp only [hpos, Bool.or_true]
    have htk : ((content ++ (List.replicate pad 0 ++ rest)).take (content.length + pad)).take content.length = content := by
      rw [List.take_take]
      have : min content.length (content.length + pad) = content.length := by omega
      rw [this, List.take_append_of_le_length (Nat.le_refl _), List.take_length]
    have hdr2 : (hb ++ (content ++ (List.replicate pad 0 ++ rest))).drop (Gen.hdrSize + (content.length + pad)) = rest := by
      rw [← List.drop_drop, hdrop, ← List.drop_drop]
      rw [List.drop_append_of_le_length (Nat.le_refl _), List.drop_length, List.nil_append]
      rw [List.drop_append_of_le_length (by simp), ]
      simp
    rw [htk, hdr2]

/-! ## name-value pairs -/

/-- a length as FastCGI writes it: one byte below 128, else four bytes with the top bit set; the peer
may use the long form for short lengths too -/
def encLen (n : Nat) (long : Bool) : Bytes :=
  if long || decide (128 ≤ n) then
    [UInt8.ofNat (128 + n / 16777216), UInt8.ofNat (n / 65536 % 256), UInt8.ofNat (n / 256 % 256), UInt8.ofNat (n % 256)]
  else [UInt8.ofNat n]

theorem and127 (q : Nat) (h : q < 128) : (128 + q) &&& 127 = q := by
  have : (127 : Nat) = 2 ^ 7 - 1 := by decide
  rw [this, Nat.and_two_pow_sub_one_eq_mod]
  omega

theorem fcgiReadLen_encLen (n : Nat) (long : Bool) (rest : Bytes) (hn : n < 2147483648) :
    fcgiReadLen (encLen n long ++ rest) = (n, rest) := by
  unfold encLen
  by_cases hl : (long || decide (128 ≤ n)) = true
  · simp only [hl, if_true]
    have hq : n / 16777216 < 128 := by omega
    have hb3 : (UInt8.ofNat (128 + n / 16777216)).toNat = 128 + n / 16777216 := ofNat_toNat_lt _ (by omega)
    have hb2 : (UInt8.ofNat (n / 65536 % 256)).toNat = n / 65536 % 256 := ofNat_toNat_lt _ (by omega)
    have hb1 : (UInt8.ofNat (n / 256 % 256)).toNat = n / 256 % 256 := ofNat_toNat_lt _ (by omega)
    have hb0 : (UInt8.ofNat (n % 256)).toNat = n % 256 := ofNat_toNat_lt _ (by omega)
    simp only [List.cons_append, List.nil_append, fcgiReadLen, hb3]
    have hns : ¬ (128 + n / 16777216 < Gen.readLenShortBelow) := by simp only [Gen.readLenShortBelow]; omega
    simp only [hns, if_false]
    have hlen : (UInt8.ofNat (128 + n / 16777216) :: UInt8.ofNat (n / 65536 % 256) :: UInt8.ofNat (n / 256 % 256) ::
        UInt8.ofNat (n % 256) :: rest).length ≥ Gen.readLenLongNeed := by
      simp only [List.length_cons, Gen.readLenLongNeed]; omega
    simp only [hlen, if_true, hb3, hb2, hb1, hb0, Gen.readLenLong, and127 _ hq, Nat.shiftLeft_eq]
    congr 1
    omega
  · simp only [hl, if_false]
    have hl' : long = false ∧ n < 128 := by
      simp only [Bool.or_eq_true, decide_eq_true_eq, not_or, Bool.not_eq_true] at hl
      exact ⟨hl.1, by omega⟩
    have hb : (UInt8.ofNat n).toNat = n := ofNat_toNat_lt _ (by omega)
    show fcgiReadLen (UInt8.ofNat n :: rest) = (n, rest)
    unfold fcgiReadLen
    simp only [hb]
    rw [if_pos (by simp only [Gen.readLenShortBelow]; omega)]

/-- a pair with the peer's choice of length encodings -/
structure EncPair where
  name : Bytes
  value : Bytes
  longName : Bool := false
  longValue : Bool := false

def encPair (p : EncPair) : Bytes :=
  encLen p.name.length p.longName ++ encLen p.value.length p.longValue ++ p.name ++ p.value

def encPairs (ps : List EncPair) : Bytes := ps.flatMap encPair

def pairsOf (ps : List EncPair) : List (Bytes × Bytes) := ps.map fun p => (p.name, p.value)

theorem encLen_pos (n : Nat) (l : Bool) : 0 < (encLen n l).length := by
  unfold encLen; split <;> simp

/-- `parse_pairs` reads back what the peer wrote (C strings, sane lengths) -/
theorem fcgiPairs_encPairs (ps : List EncPair)
    (hn : ∀ p ∈ ps, 0 ∉ p.name ∧ 0 ∉ p.value)
    (hlen : (encPairs ps).length < 2147483648) :
    ∀ (fuel : Nat) (acc : List (Bytes × Bytes)), ps.length < fuel →
      fcgiPairs true fuel (encPairs ps) acc = (true, acc ++ pairsOf ps) := by
  induction ps with
  | nil =>
    intro fuel acc hf
    cases fuel with
    | zero => omega
    | succ f => simp [encPairs, fcgiPairs, pairsOf]
  | cons p ps ih =>
    intro fuel acc hf
    cases fuel with
    | zero => omega
    | succ f =>
      obtain ⟨hk, hv⟩ := hn p (by simp)
      have hps : ∀ q ∈ ps, 0 ∉ q.name ∧ 0 ∉ q.value := fun q hq => hn q (by simp [hq])
      have hshape : encPairs (p :: ps) = encLen p.name.length p.longName ++ (encLen p.value.length p.longValue ++ (p.name ++ (p.value ++ encPairs ps))) := by
        simp [encPairs, encPair, List.append_assoc]
      have hl2 : (encPairs ps).length < 2147483648 := by
        rw [hshape] at hlen; simp only [List.length_append] at hlen; omega
      have hkl : p.name.length < 2147483648 := by
        rw [hshape] at hlen; simp only [List.length_append] at hlen; omega
      have hvl : p.value.length < 2147483648 := by
        rw [hshape] at hlen; simp only [List.length_append] at hlen; omega
      rw [hshape]
      unfold fcgiPairs
      have hne : ¬ ((encLen p.name.length p.longName ++ (encLen p.value.length p.longValue ++ (p.name ++ (p.value ++ encPairs ps)))).isEmpty = true) := by
        have := encLen_pos p.name.length p.longName
        cases h : encLen p.name.length p.longName with
        | nil => rw [h] at this; simp at this
        | cons _ _ => simp
      simp only [hne, if_false]
      rw [fcgiReadLen_encLen _ _ _ hkl]
      simp only
      rw [fcgiReadLen_encLen _ _ _ hvl]
      simp only
      have hs1 : (p.name.length == Gen.pairsFailSentinel || p.value.length == Gen.pairsFailSentinel) = false := by
        simp only [Gen.pairsFailSentinel, Bool.or_eq_false_iff, beq_eq_false_iff_ne]
        constructor <;> omega
      simp only [hs1, Bool.false_eq_true, if_false]
      have htot : (p.name ++ (p.value ++ encPairs ps)).length < 4294967296 := by
        rw [hshape] at hlen; simp only [List.length_append] at hlen ⊢; omega
      have hf1 : Gen.pairFitsName (p.name ++ (p.value ++ encPairs ps)).length p.name.length = true := by
        unfold Gen.pairFitsName
        rw [Nat.mod_eq_of_lt htot]
        simp only [List.length_append, decide_eq_true_eq]; omega
      simp only [hf1, Bool.not_true, Bool.false_eq_true, if_false]
      have ht1 : (p.name ++ (p.value ++ encPairs ps)).take p.name.length = p.name := by
        rw [List.take_append_of_le_length (Nat.le_refl _), List.take_length]
      have hd1 : (p.name ++ (p.value ++ encPairs ps)).drop p.name.length = p.value ++ encPairs ps := by
        rw [List.drop_append_of_le_length (Nat.le_refl _), List.drop_length, List.nil_append]
      rw [ht1, hd1]
      have htot2 : (p.value ++ encPairs ps).length < 4294967296 := by
        simp only [List.length_append] at htot ⊢; omega
      have hf2 : Gen.pairFitsValue (p.value ++ encPairs ps).length p.value.length = true := by
        unfold Gen.pairFitsValue
        rw [Nat.mod_eq_of_lt htot2]
        simp only [List.length_append, decide_eq_true_eq]; omega
      simp only [hf2, Bool.not_true, Bool.false_eq_true, if_false]
      have ht2 : (p.value ++ encPairs ps).take p.value.length = p.value := by
        rw [List.take_append_of_le_length (Nat.le_refl _), List.take_length]
      have hd2 : (p.value ++ encPairs ps).drop p.value.length = encPairs ps := by
        rw [List.drop_append_of_le_length (Nat.le_refl _), List.drop_length, List.nil_append]
      rw [ht2, hd2, cstr_of_nonul _ hk, cstr_of_nonul _ hv]
      simp only [if_true]
      rw [ih hps hl2 f _ (by simp at hf; omega)]
      simp [pairsOf, List.append_assoc]

/-! ## records cut anywhere -/

/-- one record of a stream: its content (non-empty) and the padding the peer chose -/
structure Piece where
  content : Bytes
  pad : Nat

def encPieces (t rid : Nat) (ps : List Piece) : Bytes := ps.flatMap fun p => encRec t rid p.content p.pad
def piecesData (ps : List Piece) : Bytes := ps.flatMap (·.content)
def WFPieces (ps : List Piece) : Prop := ∀ p ∈ ps, p.content ≠ [] ∧ p.content.length < 65536 ∧ p.pad < 256

theorem flat_read (s : Bytes × Bool) (body : Bytes) : flatReader.read s body = fcgiReadRecordF s body := rfl

/-- `params_record_expected`: whatever the cut of the name-value block into PARAMS records and whatever the
padding, the accumulated `body_` is the block -/
theorem fcgiParams_pieces (rid padE : Nat) (rest : Bytes) (hr : rid < 65536) (hpe : padE < 256) :
    ∀ (ps : List Piece) (acc : Bytes) (h : FcgiHdr) (fuel : Nat) (alloc : Bool), WFPieces ps →
      h.type = Gen.fcgi_params → h.requestId = rid → h.contentLength ≠ 0 →
      (acc ++ piecesData ps).length < Gen.paramsLimit → ps.length + 1 < fuel →
      ∃ a, fcgiParams flatReader fuel h acc rid (encPieces Gen.fcgi_params rid ps ++ (encRec Gen.fcgi_params rid [] padE ++ rest), alloc)
            = (.ok (acc ++ piecesData ps), (rest, a)) := by
  intro ps
  induction ps with
  | nil =>
    intro acc h fuel alloc _ ht hid hcl hlim hf
    cases fuel with
    | zero => omega
    | succ f =>
      cases f with
      | zero => omega
      | succ f =>
        simp only [encPieces, piecesData, List.flatMap_nil, List.nil_append, List.append_nil] at hlim ⊢
        unfold fcgiParams
        have c1 : (h.type != Gen.fcgi_params || h.requestId != rid) = false := by simp [ht, hid]
        have c2 : (h.contentLength != 0) = true := by simp [hcl]
        simp only [c1, c2, Bool.false_eq_true, if_false, if_true, hlim]
        rw [flat_read, fcgiReadRecordF_encRec _ _ _ _ _ _ _ (by decide) hr (by simp) hpe]
        simp only
        unfold fcgiParams
        simp [Gen.fcgi_params]
  | cons p ps ih =>
    intro acc h fuel alloc hw ht hid hcl hlim hf
    obtain ⟨hpc, hpl, hpp⟩ := hw p (by simp)
    have hw' : WFPieces ps := fun q hq => hw q (by simp [hq])
    cases fuel with
    | zero => omega
    | succ f =>
      have hshape : encPieces Gen.fcgi_params rid (p :: ps) ++ (encRec Gen.fcgi_params rid [] padE ++ rest) =
          encRec Gen.fcgi_params rid p.content p.pad ++ (encPieces Gen.fcgi_params rid ps ++ (encRec Gen.fcgi_params rid [] padE ++ rest)) := by
        simp [encPieces, List.append_assoc]
      have hdata : piecesData (p :: ps) = p.content ++ piecesData ps := by simp [piecesData]
      rw [hshape, hdata]
      rw [hdata] at hlim
      unfold fcgiParams
      have c1 : (h.type != Gen.fcgi_params || h.requestId != rid) = false := by simp [ht, hid]
      have c2 : (h.contentLength != 0) = true := by simp [hcl]
      have c3 : acc.length < Gen.paramsLimit := by simp only [List.length_append] at hlim; omega
      simp only [c1, c2, Bool.false_eq_true, if_false, if_true, c3]
      rw [flat_read, fcgiReadRecordF_encRec _ _ _ _ _ _ _ (by decide) hr hpl hpp]
      simp only
      have hne : p.content.length ≠ 0 := by
        intro h0; exact hpc (List.eq_nil_of_length_eq_zero h0)
      obtain ⟨a, ha⟩ := ih (acc ++ p.content)
        { version := 1, type := Gen.fcgi_params, requestId := rid, contentLength := p.content.length, paddingLength := p.pad }
        f (alloc || decide (0 < p.content.length + p.pad)) hw' rfl rfl hne
        (by rw [List.append_assoc]; exact hlim) (by simp at hf; omega)
      refine ⟨a, ?_⟩
      rw [ha, List.append_assoc]

/-! ## the header phase -/

/-- BEGIN_REQUEST body: role responder, flags -/
def encBeginBody (keep : Bool) : Bytes := [0, 1, if keep then 1 else 0, 0, 0, 0, 0, 0]

theorem fcgiOnStart_begin (conc : Bytes) (alloc : Bool) (rid pad : Nat) (keep : Bool) :
    fcgiOnStart conc alloc { version := 1, type := Gen.fcgi_begin_request, requestId := rid, contentLength := 8, paddingLength := pad }
      (encBeginBody keep) = .begin rid keep := by
  unfold fcgiOnStart
  have h1 : ((1 : Nat) != Gen.fcgi_version_1) = false := by decide
  have h2 : (Gen.fcgi_begin_request == Gen.fcgi_get_values) = false := by decide
  have h3 : (Gen.fcgi_begin_request != Gen.fcgi_begin_request) = false := by decide
  have h4 : ((encBeginBody keep).length != Gen.beginBodySize) = false := by cases keep <;> decide
  have h5 : (be16 (encBeginBody keep) Gen.beginOff_role != Gen.fcgi_responder) = false := by cases keep <;> decide
  simp only [h1, h2, h3, h4, h5, Bool.false_eq_true, if_false]
  cases keep <;> rfl

theorem encPairs_len (eps : List EncPair) : eps.length ≤ (encPairs eps).length := by
  induction eps with
  | nil => simp
  | cons e es ih =>
    have := encLen_pos e.name.length e.longName
    simp only [encPairs, List.flatMap_cons, encPair, List.length_append, List.length_cons] at ih ⊢
    omega

/-- `parse_pairs` + `CONTENT_LENGTH` on the complete block, `content_length_ > 0` -/
theorem fcgiAfterParams_block (rid : Nat) (keep : Bool) (eps : List EncPair) (st : Bytes × Bool)
    (hn : ∀ p ∈ eps, 0 ∉ p.name ∧ 0 ∉ p.value) (hsize : (encPairs eps).length < Gen.paramsLimit)
    (hcl : fcgiOwnContentLength (Env.empty.addAll (pairsOf eps)) ≠ 0) :
    fcgiAfterParams flatReader rid keep (encPairs eps) st [] =
      ([], some { env := Env.empty.addAll (pairsOf eps), requestId := rid, keep := keep,
                  cl := fcgiOwnContentLength (Env.empty.addAll (pairsOf eps)) }, st) := by
  unfold fcgiAfterParams
  have hlt : (encPairs eps).length < 2147483648 := by
    have : Gen.paramsLimit = 16384 := rfl
    omega
  have := encPairs_len eps
  rw [fcgiPairs_encPairs eps hn hlt _ _ (by omega)]
  simp only [List.nil_append]
  have hz : (fcgiOwnContentLength (Env.empty.addAll (pairsOf eps)) == 0) = false := by simp [hcl]
  simp only [hz, Bool.false_eq_true, if_false]

/-- `parse_pairs` + `CONTENT_LENGTH` on the complete block, `content_length_ = 0`: the empty STDIN record
is consumed by the header phase (`stdin_eof_expected`) -/
theorem fcgiAfterParams_block0 (rid padS : Nat) (keep : Bool) (eps : List EncPair) (rest : Bytes) (alloc : Bool)
    (hr : rid < 65536) (hps : padS < 256)
    (hn : ∀ p ∈ eps, 0 ∉ p.name ∧ 0 ∉ p.value) (hsize : (encPairs eps).length < Gen.paramsLimit)
    (hcl : fcgiOwnContentLength (Env.empty.addAll (pairsOf eps)) = 0) :
    ∃ a, fcgiAfterParams flatReader rid keep (encPairs eps) (encRec Gen.fcgi_stdin rid [] padS ++ rest, alloc) [] =
      ([], some { env := Env.empty.addAll (pairsOf eps), requestId := rid, keep := keep, cl := 0 }, (rest, a)) := by
  unfold fcgiAfterParams
  have hlt : (encPairs eps).length < 2147483648 := by
    have : Gen.paramsLimit = 16384 := rfl
    omega
  have := encPairs_len eps
  rw [fcgiPairs_encPairs eps hn hlt _ _ (by omega)]
  simp only [List.nil_append, hcl, beq_self_eq_true, if_true]
  unfold fcgiStdinEof
  rw [flat_read, fcgiReadRecordF_encRec _ _ _ _ _ _ _ (by decide) hr (by simp) hps]
  simp only [List.length_nil]
  have hchk : ((Gen.fcgi_stdin != Gen.fcgi_stdin) || ((0 : Nat) != 0)) = false := by simp
  simp only [hchk, Bool.false_eq_true, if_false]
  exact ⟨_, rfl⟩

/-- PARAMS phase for any cut of the block, from the state right after BEGIN_REQUEST -/
theorem fcgiAfterBegin_params (rid padE : Nat) (keep : Bool) (eps : List EncPair) (pieces : List Piece)
    (rest : Bytes) (alloc : Bool) (fuel : Nat)
    (hr : rid < 65536) (hpe : padE < 256) (hw : WFPieces pieces) (hdata : piecesData pieces = encPairs eps)
    (hsize : (encPairs eps).length < Gen.paramsLimit) (hf : pieces.length + 1 < fuel) :
    ∃ a, fcgiAfterBegin flatReader fuel rid keep
        (encPieces Gen.fcgi_params rid pieces ++ (encRec Gen.fcgi_params rid [] padE ++ rest), alloc) [] =
      fcgiAfterParams flatReader rid keep (encPairs eps) (rest, a) [] := by
  unfold fcgiAfterBegin
  cases pieces with
  | nil =>
    simp only [encPieces, List.flatMap_nil, List.nil_append]
    rw [flat_read, fcgiReadRecordF_encRec _ _ _ _ _ _ _ (by decide) hr (by simp) hpe]
    simp only [List.nil_append]
    have hemp : encPairs eps = [] := by rw [← hdata]; simp [piecesData]
    cases fuel with
    | zero => omega
    | succ f =>
      unfold fcgiParams
      simp only [Bool.false_eq_true, if_false, List.length_nil, bne_self_eq_false, Bool.or_self]
      exact ⟨alloc || decide (0 < 0 + padE), by rw [hemp]⟩
  | cons p ps =>
    obtain ⟨hpc, hpl, hpp⟩ := hw p (by simp)
    have hw' : WFPieces ps := fun q hq => hw q (by simp [hq])
    have hshape : encPieces Gen.fcgi_params rid (p :: ps) ++ (encRec Gen.fcgi_params rid [] padE ++ rest) =
        encRec Gen.fcgi_params rid p.content p.pad ++ (encPieces Gen.fcgi_params rid ps ++ (encRec Gen.fcgi_params rid [] padE ++ rest)) := by
      simp [encPieces, List.append_assoc]
    rw [hshape, flat_read, fcgiReadRecordF_encRec _ _ _ _ _ _ _ (by decide) hr hpl hpp]
    simp only [List.nil_append]
    have hne : p.content.length ≠ 0 := by
      intro h0; exact hpc (List.eq_nil_of_length_eq_zero h0)
    have hd : p.content ++ piecesData ps = encPairs eps := by rw [← hdata]; simp [piecesData]
    obtain ⟨a, ha⟩ := fcgiParams_pieces rid padE rest hr hpe ps p.content
      { version := 1, type := Gen.fcgi_params, requestId := rid, contentLength := p.content.length, paddingLength := p.pad }
      fuel (alloc || decide (0 < p.content.length + p.pad)) hw' rfl rfl hne
      (by rw [hd]; exact hsize) (by simp at hf; omega)
    rw [ha]
    simp only
    exact ⟨a, by rw [hd]⟩

/-- header phase up to the end of PARAMS: BEGIN, PARAMS cut anywhere, empty PARAMS -/
theorem fcgiHeaders_params (conc : Bytes) (rid padB padE : Nat) (keep : Bool) (eps : List EncPair) (pieces : List Piece)
    (rest : Bytes) (alloc : Bool) (fuel : Nat)
    (hr : rid < 65536) (hpb : padB < 256) (hpe : padE < 256) (hw : WFPieces pieces) (hdata : piecesData pieces = encPairs eps)
    (hsize : (encPairs eps).length < Gen.paramsLimit) (hf : pieces.length + 1 < fuel) :
    ∃ a, fcgiHeaders flatReader conc (fuel + 1)
        (encRec Gen.fcgi_begin_request rid (encBeginBody keep) padB ++
          (encPieces Gen.fcgi_params rid pieces ++ (encRec Gen.fcgi_params rid [] padE ++ rest)), alloc) [] =
      fcgiAfterParams flatReader rid keep (encPairs eps) (rest, a) [] := by
  unfold fcgiHeaders
  rw [flat_read, fcgiReadRecordF_encRec _ _ _ _ _ _ _ (by decide) hr (by simp [encBeginBody]) hpb]
  simp only [List.nil_append]
  have h8 : (encBeginBody keep).length = 8 := by simp [encBeginBody]
  rw [h8, fcgiOnStart_begin]
  simp only
  exact fcgiAfterBegin_params rid padE keep eps pieces rest _ (fuel + 1) hr hpe hw hdata hsize (by omega)

/-! ## the STDIN phase -/

/-- invariant of the STDIN reader on a well-formed stream: `v` is what is still to be delivered
(unread rest of the current record ++ contents of the records to come) -/
structure StdinInv (rid padS : Nat) (rest : Bytes) (cl : Nat) (b : FcgiBody (Bytes × Bool)) (v : Bytes) : Prop where
  ex : ∃ ps : List Piece, WFPieces ps ∧
        b.st.1 = encPieces Gen.fcgi_stdin rid ps ++ (encRec Gen.fcgi_stdin rid [] padS ++ rest) ∧
        v = b.body.drop b.ptr ++ piecesData ps
  ptr : b.ptr ≤ b.body.length
  clr : b.ptr = b.body.length → b.body = []
  len : b.readLen + v.length = cl
  rid : b.reqId = rid
  cl : b.cl = cl

theorem piecesData_nil_iff (ps : List Piece) (hw : WFPieces ps) : piecesData ps = [] ↔ ps = [] := by
  constructor
  · intro h
    cases ps with
    | nil => rfl
    | cons p t =>
      obtain ⟨hp, _, _⟩ := hw p (by simp)
      simp only [piecesData, List.flatMap_cons, List.append_eq_nil_iff] at h
      exact absurd h.1 hp
  · intro h; subst h; rfl

/-- one `async_read_some` while unread bytes of the current record exist -/
theorem stdin_take_step (rid padS : Nat) (rest : Bytes) (cl : Nat) (hr : rid < 65536) (hps : padS < 256)
    (b : FcgiBody (Bytes × Bool)) (v : Bytes) (hi : StdinInv rid padS rest cl b v) (want : Nat) (hw : 0 < want)
    (hcur : b.ptr < b.body.length) :
    ∃ g b', fcgiTake flatReader want b = .ok (g, b') ∧ g ≠ [] ∧ g.length ≤ want ∧
      ∃ v', v = g ++ v' ∧ ((v' ≠ [] ∧ StdinInv rid padS rest cl b' v') ∨ (v' = [] ∧ b'.st.1 = rest)) := by
  obtain ⟨⟨ps, hwp, hst, hv⟩, hptr, hclr, hlen, hrid, hcl⟩ := hi
  have hcurlen : (b.body.drop b.ptr).length = b.body.length - b.ptr := List.length_drop
  have hs : 0 < min want (b.body.length - b.ptr) := by omega
  unfold fcgiTake
  -- the advance step
  have hadv : fcgiAdvance want b =
      ((b.body.drop b.ptr).take (min want (b.body.length - b.ptr)),
       if b.ptr + min want (b.body.length - b.ptr) == b.body.length
       then { b with ptr := 0, body := [], readLen := b.readLen + min want (b.body.length - b.ptr) }
       else { b with ptr := b.ptr + min want (b.body.length - b.ptr), readLen := b.readLen + min want (b.body.length - b.ptr) }) := by
    unfold fcgiAdvance
    simp only
    split <;> rfl
  generalize hsdef : min want (b.body.length - b.ptr) = s at hadv hs
  have hsle : s ≤ b.body.length - b.ptr := by omega
  have hswant : s ≤ want := by omega
  have hg : ((b.body.drop b.ptr).take s).length = s := by rw [List.length_take, hcurlen]; omega
  have hgne : (b.body.drop b.ptr).take s ≠ [] := by
    intro h0; rw [h0] at hg; simp at hg; omega
  have hvsplit : v = (b.body.drop b.ptr).take s ++ ((b.body.drop b.ptr).drop s ++ piecesData ps) := by
    rw [hv, ← List.append_assoc, List.take_append_drop]
  rw [hadv]
  simp only
  by_cases hall : b.ptr + s = b.body.length
  · -- the current record is used up
    have hallb : (b.ptr + s == b.body.length) = true := by simp [hall]
    simp only [hallb, if_true]
    have hdrop0 : (b.body.drop b.ptr).drop s = [] := by
      apply List.eq_nil_of_length_eq_zero
      rw [List.length_drop, hcurlen]; omega
    by_cases hlast : ps = []
    · -- nothing more to come: the end-of-stream record is read now
      subst hlast
      have hvl : v.length = s := by
        rw [hvsplit, hdrop0]; simp [piecesData, hg]
      have hge : b.readLen + s ≥ b.cl := by omega
      simp only [hge, if_true]
      rw [flat_read]
      have hstream : b.st = (encRec Gen.fcgi_stdin rid [] padS ++ rest, b.st.2) := by
        have : b.st.1 = encRec Gen.fcgi_stdin rid [] padS ++ rest := by simpa [encPieces] using hst
        exact Prod.ext this rfl
      rw [hstream, fcgiReadRecordF_encRec _ _ _ _ _ _ _ (by decide) hr (by simp) hps]
      simp only [List.append_nil, List.length_nil]
      have hchk : ((Gen.fcgi_stdin != Gen.fcgi_stdin) || (rid != b.reqId) || ((0 : Nat) != 0)) = false := by
        simp [hrid]
      simp only [hchk, Bool.false_eq_true, if_false]
      refine ⟨_, _, rfl, hgne, by omega, [], ?_, Or.inr ⟨rfl, rfl⟩⟩
      rw [hvsplit, hdrop0]; simp [piecesData]
    · have hdne : piecesData ps ≠ [] := fun h0 => hlast ((piecesData_nil_iff ps hwp).mp h0)
      have hdl : 0 < (piecesData ps).length := by
        cases hq : piecesData ps with
        | nil => exact absurd hq hdne
        | cons _ _ => simp
      have hvl : v.length = s + (piecesData ps).length := by
        rw [hvsplit, hdrop0]; simp [hg]
      have hnge : ¬ (b.readLen + s ≥ b.cl) := by omega
      simp only [hnge, if_false]
      refine ⟨_, _, rfl, hgne, by omega, piecesData ps, ?_, Or.inl ⟨hdne, ?_⟩⟩
      · rw [hvsplit, hdrop0]; simp
      · exact ⟨⟨ps, hwp, hst, by simp⟩, by simp, by intro _; rfl, by simp only; omega, hrid, hcl⟩
  · have hallb : (b.ptr + s == b.body.length) = false := by simp [hall]
    simp only [hallb, Bool.false_eq_true, if_false]
    have hrestl : 0 < ((b.body.drop b.ptr).drop s).length := by
      rw [List.length_drop, hcurlen]; omega
    have hvl : v.length = s + (((b.body.drop b.ptr).drop s).length + (piecesData ps).length) := by
      rw [hvsplit]; simp [hg]
    have hnge : ¬ (b.readLen + s ≥ b.cl) := by omega
    simp only [hnge, if_false]
    have hne' : (b.body.drop b.ptr).drop s ++ piecesData ps ≠ [] := by
      intro h0
      have := congrArg List.length h0
      simp only [List.length_append, List.length_nil] at this
      omega
    refine ⟨_, _, rfl, hgne, by omega, (b.body.drop b.ptr).drop s ++ piecesData ps, hvsplit, Or.inl ⟨hne', ?_⟩⟩
    refine ⟨⟨ps, hwp, hst, ?_⟩, by simp only; omega, ?_, by simp only [List.length_append] at hvl ⊢; omega, hrid, hcl⟩
    · simp only [List.drop_drop]
    · intro h0; simp only at h0; omega

/-- one `async_read_some` on a well-formed STDIN stream -/
theorem stdin_step (rid padS : Nat) (rest : Bytes) (cl : Nat) (hr : rid < 65536) (hps : padS < 256)
    (b : FcgiBody (Bytes × Bool)) (v : Bytes) (hi : StdinInv rid padS rest cl b v) (hv : v ≠ []) (want : Nat) (hw : 0 < want) :
    ∃ g b', fcgiReadSome flatReader want b = .ok (g, b') ∧ g ≠ [] ∧ g.length ≤ want ∧
      ∃ v', v = g ++ v' ∧ ((v' ≠ [] ∧ StdinInv rid padS rest cl b' v') ∨ (v' = [] ∧ b'.st.1 = rest)) := by
  have hvl : 0 < v.length := by
    cases hq : v with
    | nil => exact absurd hq hv
    | cons _ _ => simp
  unfold fcgiReadSome
  have hne : ¬ (b.readLen = b.cl) := by have := hi.len; have := hi.cl; omega
  have hneb : (b.readLen == b.cl) = false := by simp [hne]
  simp only [hneb, Bool.false_eq_true, if_false]
  by_cases hcur : b.ptr < b.body.length
  · simp only [hcur, if_true]
    exact stdin_take_step rid padS rest cl hr hps b v hi want hw hcur
  · simp only [hcur, if_false]
    obtain ⟨⟨ps, hwp, hst, hvv⟩, hptr, hclr, hlen, hrid, hcl⟩ := hi
    have hbody : b.body = [] := hclr (by omega)
    have hptr0 : b.ptr = 0 := by rw [hbody] at hptr; simpa using hptr
    have hvd : v = piecesData ps := by rw [hvv, hbody]; simp
    cases ps with
    | nil => rw [hvd] at hv; exact absurd rfl hv
    | cons p ps' =>
      obtain ⟨hpc, hpl, hpp⟩ := hwp p (by simp)
      have hwp' : WFPieces ps' := fun q hq => hwp q (by simp [hq])
      have hshape : b.st = (encRec Gen.fcgi_stdin rid p.content p.pad ++
          (encPieces Gen.fcgi_stdin rid ps' ++ (encRec Gen.fcgi_stdin rid [] padS ++ rest)), b.st.2) := by
        have h1 : b.st.1 = encRec Gen.fcgi_stdin rid p.content p.pad ++
            (encPieces Gen.fcgi_stdin rid ps' ++ (encRec Gen.fcgi_stdin rid [] padS ++ rest)) := by
          rw [hst]; simp [encPieces, List.append_assoc]
        exact Prod.ext h1 rfl
      rw [flat_read, hshape, fcgiReadRecordF_encRec _ _ _ _ _ _ _ (by decide) hr hpl hpp, hbody]
      simp only [List.nil_append]
      have hne0 : p.content.length ≠ 0 := by
        intro h0; exact hpc (List.eq_nil_of_length_eq_zero h0)
      have hchk : ((Gen.fcgi_stdin != Gen.fcgi_stdin) || (rid != b.reqId) || (p.content.length == 0)) = false := by
        simp [hrid, hne0]
      simp only [hchk, Bool.false_eq_true, if_false]
      have hlt : (0 : Nat) < p.content.length := by omega
      have hcond : ({ b with st := (encPieces Gen.fcgi_stdin rid ps' ++ (encRec Gen.fcgi_stdin rid [] padS ++ rest),
            b.st.2 || decide (0 < p.content.length + p.pad)), body := p.content } : FcgiBody (Bytes × Bool)).ptr <
          ({ b with st := (encPieces Gen.fcgi_stdin rid ps' ++ (encRec Gen.fcgi_stdin rid [] padS ++ rest),
            b.st.2 || decide (0 < p.content.length + p.pad)), body := p.content } : FcgiBody (Bytes × Bool)).body.length := by
        simp only [hptr0]; exact hlt
      rw [if_pos hcond]
      apply stdin_take_step rid padS rest cl hr hps _ v _ want hw hcond
      refine ⟨⟨ps', hwp', rfl, ?_⟩, by simp only [hptr0]; omega, by intro h0; simp only [hptr0] at h0; omega, hlen, hrid, hcl⟩
      simp only [hptr0, List.drop_zero]
      rw [hvd]; simp [piecesData]

/-- the content loop over a well-formed STDIN stream delivers exactly the announced bytes -/
theorem stdin_loop (rid padS : Nat) (rest : Bytes) (cl : Nat) (hr : rid < 65536) (hps : padS < 256)
    (chunk : Option Nat) (hchunk : ∀ c, chunk = some c → 0 < c) :
    ∀ (fuel : Nat) (v acc : Bytes) (b : FcgiBody (Bytes × Bool)), StdinInv rid padS rest cl b v → v ≠ [] → v.length < fuel →
      ∃ b', contentLoop (fcgiReadSome flatReader) chunk fuel v.length acc b = (.ok (acc ++ v), b') ∧ b'.st.1 = rest := by
  intro fuel
  induction fuel with
  | zero => intro v acc b _ _ hf; omega
  | succ fuel ih =>
    intro v acc b hi hv hf
    have hvl : 0 < v.length := by
      cases hq : v with
      | nil => exact absurd hq hv
      | cons _ _ => simp
    unfold contentLoop
    have hnz : (v.length == 0) = false := by
      cases hq : v.length with
      | zero => omega
      | succ k => rfl
    simp only [hnz, Bool.false_eq_true, if_false]
    have hwant : 0 < wantOf chunk v.length ∧ wantOf chunk v.length ≤ v.length := by
      unfold wantOf
      cases hc : chunk with
      | none => simp; omega
      | some c => have := hchunk c hc; simp; omega
    obtain ⟨g, b', hrd, hg, hgl, v', hsplit, hnext⟩ := stdin_step rid padS rest cl hr hps b v hi hv _ hwant.1
    rw [hrd]
    simp only
    have hlen : v.length - g.length = v'.length := by rw [hsplit]; simp
    rw [hlen]
    rcases hnext with ⟨hv', hi'⟩ | ⟨hv', hst'⟩
    · have hgpos : 0 < g.length := by
        cases hq : g with
        | nil => exact absurd hq hg
        | cons _ _ => simp
      obtain ⟨b'', h1, h2⟩ := ih v' (acc ++ g) b' hi' hv' (by rw [hsplit] at hf; simp at hf; omega)
      refine ⟨b'', ?_, h2⟩
      rw [h1, hsplit, List.append_assoc]
    · subst hv'
      refine ⟨b', ?_, hst'⟩
      cases fuel with
      | zero => simp [contentLoop, hsplit]
      | succ f => simp [contentLoop, hsplit]

/-! ## the whole request -/

/-- how the peer frames one request -/
structure FcgiFraming where
  rid : Nat
  padBegin : Nat
  padParamsEnd : Nat
  padStdinEnd : Nat
  /-- cut of the name-value block into PARAMS records -/
  params : List Piece
  /-- cut of the body into STDIN records -/
  stdin : List Piece

/-- one FastCGI request as a peer (web server) sends it, followed by whatever comes next on the connection -/
def encFcgiK (keep : Bool) (fr : FcgiFraming) (rest : Bytes) : Bytes :=
  encRec Gen.fcgi_begin_request fr.rid (encBeginBody keep) fr.padBegin ++
  (encPieces Gen.fcgi_params fr.rid fr.params ++ (encRec Gen.fcgi_params fr.rid [] fr.padParamsEnd ++
  (encPieces Gen.fcgi_stdin fr.rid fr.stdin ++ (encRec Gen.fcgi_stdin fr.rid [] fr.padStdinEnd ++ rest))))

/-- a FastCGI request without `FCGI_KEEP_CONN` -/
def encFcgi (fr : FcgiFraming) : Bytes := encFcgiK false fr []

/-- well-formed: C strings, name-value block below the 16 KiB accumulation limit, records of legal size
cut anywhere, `CONTENT_LENGTH` equal to the length of the body sent -/
structure WFFcgi (eps : List EncPair) (body : Bytes) (fr : FcgiFraming) : Prop where
  rid : fr.rid < 65536
  pb : fr.padBegin < 256
  pe : fr.padParamsEnd < 256
  ps : fr.padStdinEnd < 256
  nonul : ∀ p ∈ eps, 0 ∉ p.name ∧ 0 ∉ p.value
  size : (encPairs eps).length < Gen.paramsLimit
  params : WFPieces fr.params
  paramsData : piecesData fr.params = encPairs eps
  stdin : WFPieces fr.stdin
  stdinData : piecesData fr.stdin = body
  cl : (Head.ofEnv (Env.empty.addAll (pairsOf eps))).contentLength = body.length

theorem ownCl_of_head (env : Env) (n : Nat) (h : (Head.ofEnv env).contentLength = n) : fcgiOwnContentLength env = n := by
  unfold Head.ofEnv at h
  simp only at h
  unfold fcgiOwnContentLength
  unfold Env.getSafe at h
  cases hg : env.get? (bs Gen.hdrContentLength) with
  | none => rw [hg] at h; simp at h; simp only; omega
  | some v =>
    rw [hg] at h
    simp only [Option.getD_some] at h
    by_cases hv : v.isEmpty
    · simp only [hv, if_true] at h ⊢; omega
    · simp only [hv, Bool.false_eq_true, if_false] at h ⊢
      rw [h]
      split
      · omega
      · simp

theorem encPieces_len (t rid : Nat) (ps : List Piece) : ps.length ≤ (encPieces t rid ps).length := by
  induction ps with
  | nil => simp
  | cons p t ih =>
    simp only [encPieces, List.flatMap_cons, List.length_append, List.length_cons, encRec, encHdr] at ih ⊢
    omega

theorem fcgiConn_succ {σ : Type} (R : RecReader σ) (lim : Limits) (conc : Bytes) (fuel : Nat) (st : σ) :
    fcgiConn R lim conc (fuel + 1) st =
      (match fcgiHeaders R conc (fuel + 1) st [] with
       | (out, none, _) => out
       | (out, some r, st) =>
         let (o, b) := runRequest lim (fcgiReadSome R) (Head.ofEnv r.env) { st := st, cl := r.cl, reqId := r.requestId }
         if isApp o && r.keep then out ++ o :: fcgiConn R lim conc fuel b.st
         else out ++ [o]) := by
  rfl

/-- one well-formed request at the head of the stream: its outcome, and — after an answered request with
`FCGI_KEEP_CONN` — the connection continues with the rest of the stream -/
theorem fcgiConn_one (lim : Limits) (hb : 0 < lim.bufSize) (conc : Bytes) (eps : List EncPair) (body : Bytes)
    (fr : FcgiFraming) (hw : WFFcgi eps body fr) (keep : Bool) (rest : Bytes) (alloc : Bool) (fuel : Nat)
    (hf : fr.params.length + 1 < fuel) :
    ∃ a, fcgiConn flatReader lim conc (fuel + 1) (encFcgiK keep fr rest, alloc) =
      (if isApp (reqOutcome lim (Head.ofEnv (Env.empty.addAll (pairsOf eps))) body).1 && keep then
        (reqOutcome lim (Head.ofEnv (Env.empty.addAll (pairsOf eps))) body).1 :: fcgiConn flatReader lim conc fuel (rest, a)
       else [(reqOutcome lim (Head.ofEnv (Env.empty.addAll (pairsOf eps))) body).1]) := by
  obtain ⟨hr, hpb, hpe, hps, hn, hsize, hwp, hdp, hws, hds, hcl⟩ := hw
  have hown := ownCl_of_head _ _ hcl
  rw [fcgiConn_succ]
  obtain ⟨a, ha⟩ := fcgiHeaders_params conc fr.rid fr.padBegin fr.padParamsEnd keep eps fr.params
    (encPieces Gen.fcgi_stdin fr.rid fr.stdin ++ (encRec Gen.fcgi_stdin fr.rid [] fr.padStdinEnd ++ rest)) alloc fuel
    hr hpb hpe hwp hdp hsize hf
  unfold encFcgiK
  rw [ha]
  by_cases hz : body.length = 0
  · -- no body: the empty STDIN record belongs to the header phase
    have hbody : body = [] := List.eq_nil_of_length_eq_zero hz
    have hstd : fr.stdin = [] := (piecesData_nil_iff fr.stdin hws).mp (by rw [hds, hbody])
    rw [hstd]
    simp only [encPieces, List.flatMap_nil, List.nil_append]
    obtain ⟨a2, ha2⟩ := fcgiAfterParams_block0 fr.rid fr.padStdinEnd keep eps rest a hr hps hn hsize (by rw [hown, hz])
    rw [ha2]
    simp only [List.nil_append]
    -- request layer: nothing to read, the connection state is untouched
    have hplan : ∀ (b : FcgiBody (Bytes × Bool)),
        runRequest lim (fcgiReadSome flatReader) (Head.ofEnv (Env.empty.addAll (pairsOf eps))) b =
        ((reqOutcome lim (Head.ofEnv (Env.empty.addAll (pairsOf eps))) body).1, b) := by
      intro b
      unfold runRequest reqOutcome
      cases hp : requestPlan lim (Head.ofEnv (Env.empty.addAll (pairsOf eps))) with
      | done o => rfl
      | read n chunk pre fin =>
        exfalso
        obtain ⟨_, hnpos⟩ := requestPlan_read hb hp
        have := requestPlan_read_n hp
        rw [hcl, hz] at this
        simp at this
        omega
    rw [hplan]
    exact ⟨a2, by simp⟩
  · have hfr := fcgiAfterParams_block fr.rid keep eps
      (encPieces Gen.fcgi_stdin fr.rid fr.stdin ++ (encRec Gen.fcgi_stdin fr.rid [] fr.padStdinEnd ++ rest), a) hn hsize
      (by rw [hown]; exact hz)
    rw [hfr]
    simp only [List.nil_append, hown]
    -- request layer
    have hreq : ∃ b', runRequest lim (fcgiReadSome flatReader) (Head.ofEnv (Env.empty.addAll (pairsOf eps)))
          ({ st := (encPieces Gen.fcgi_stdin fr.rid fr.stdin ++ (encRec Gen.fcgi_stdin fr.rid [] fr.padStdinEnd ++ rest), a),
             cl := body.length, reqId := fr.rid } : FcgiBody (Bytes × Bool)) =
          ((reqOutcome lim (Head.ofEnv (Env.empty.addAll (pairsOf eps))) body).1, b') ∧
          (isApp (reqOutcome lim (Head.ofEnv (Env.empty.addAll (pairsOf eps))) body).1 = true → b'.st.1 = rest) := by
      unfold runRequest reqOutcome
      cases hp : requestPlan lim (Head.ofEnv (Env.empty.addAll (pairsOf eps))) with
      | done o =>
        -- decided without reading: an answered request would have had to read its body
        refine ⟨_, rfl, ?_⟩
        intro happ
        exfalso
        -- `.done (.app …)` only arises for content length 0
        have := requestPlan_done_app hp happ
        rw [hcl] at this
        omega
      | read n chunk pre fin =>
        simp only
        obtain ⟨hchunk, hnpos⟩ := requestPlan_read hb hp
        have hn' : n = body.length := by
          have := requestPlan_read_n hp
          rw [hcl] at this
          simpa using this
        subst hn'
        have hbne : body ≠ [] := by intro h0; rw [h0] at hz; simp at hz
        have hinv : StdinInv fr.rid fr.padStdinEnd rest body.length
            ({ st := (encPieces Gen.fcgi_stdin fr.rid fr.stdin ++ (encRec Gen.fcgi_stdin fr.rid [] fr.padStdinEnd ++ rest), a),
               cl := body.length, reqId := fr.rid } : FcgiBody (Bytes × Bool)) body :=
          ⟨⟨fr.stdin, hws, rfl, by simp [hds]⟩, by simp, by intro _; rfl, by simp, rfl, rfl⟩
        obtain ⟨b', hl, hst'⟩ := stdin_loop fr.rid fr.padStdinEnd rest body.length hr hps chunk hchunk (body.length + 1) body [] _ hinv hbne (by omega)
        rw [hl]
        refine ⟨b', ?_, fun _ => hst'⟩
        simp only [List.nil_append, contentFlat, Nat.le_refl, if_true, List.take_length]
    obtain ⟨b', hrq, hrest⟩ := hreq
    rw [hrq]
    simp only
    by_cases hk : (isApp (reqOutcome lim (Head.ofEnv (Env.empty.addAll (pairsOf eps))) body).1 && keep) = true
    · simp only [hk, if_true]
      have happ : isApp (reqOutcome lim (Head.ofEnv (Env.empty.addAll (pairsOf eps))) body).1 = true := by
        simp only [Bool.and_eq_true] at hk; exact hk.1
      refine ⟨b'.st.2, ?_⟩
      have : b'.st = (rest, b'.st.2) := Prod.ext (hrest happ) rfl
      rw [← this]
    · simp only [hk, Bool.false_eq_true, if_false]
      exact ⟨false, trivial⟩

/-- **FastCGI round trip** on the stream: whatever the record cuts and paddings, a well-formed request is
delivered as exactly the peer's environment and body stream. -/
theorem fcgiFlat_roundtrip (lim : Limits) (hb : 0 < lim.bufSize) (conc : Bytes) (eps : List EncPair) (body : Bytes)
    (fr : FcgiFraming) (hw : WFFcgi eps body fr) :
    fcgiFlat lim conc (encFcgi fr) = [(reqOutcome lim (Head.ofEnv (Env.empty.addAll (pairsOf eps))) body).1] := by
  unfold fcgiFlat encFcgi
  have hlen : fr.params.length + 1 < (encFcgiK false fr []).length + 1 := by
    have := encPieces_len Gen.fcgi_params fr.rid fr.params
    simp only [encFcgiK, List.length_append, encRec, encHdr, List.length_cons]
    omega
  obtain ⟨a, ha⟩ := fcgiConn_one lim hb conc eps body fr hw false [] false ((encFcgiK false fr []).length + 1) hlen
  rw [ha]
  simp

/-! ## keep-alive sequences -/

/-- one request of a kept-alive connection: what the peer means and how it frames it -/
structure FcgiReqSpec where
  eps : List EncPair
  body : Bytes
  fr : FcgiFraming

/-- requests with `FCGI_KEEP_CONN`, back to back -/
def encSeq : List FcgiReqSpec → Bytes
  | [] => []
  | q :: qs => encFcgiK true q.fr (encSeq qs)

def outcomeOf (lim : Limits) (q : FcgiReqSpec) : Outcome :=
  (reqOutcome lim (Head.ofEnv (Env.empty.addAll (pairsOf q.eps))) q.body).1

theorem encFcgiK_len (keep : Bool) (fr : FcgiFraming) (rest : Bytes) :
    fr.params.length + 24 + rest.length ≤ (encFcgiK keep fr rest).length := by
  have := encPieces_len Gen.fcgi_params fr.rid fr.params
  simp only [encFcgiK, List.length_append, encRec, encHdr, List.length_cons, List.length_nil]
  omega

/-- **keep-alive sequence** (FastCGI): well-formed requests sent back to back on one connection are each
delivered exactly, in order; the connection ends when the peer closes. -/
theorem fcgiConn_seq (lim : Limits) (hb : 0 < lim.bufSize) (conc : Bytes) :
    ∀ (qs : List FcgiReqSpec) (alloc : Bool) (fuel : Nat),
      (∀ q ∈ qs, WFFcgi q.eps q.body q.fr ∧ isApp (outcomeOf lim q) = true) → (encSeq qs).length < fuel →
      fcgiConn flatReader lim conc fuel (encSeq qs, alloc) = qs.map (outcomeOf lim) ++ [.aborted .eof false false] := by
  intro qs
  induction qs with
  | nil =>
    intro alloc fuel _ hf
    cases fuel with
    | zero => simp [encSeq] at hf
    | succ f =>
      rw [fcgiConn_succ]
      have : fcgiHeaders flatReader conc (f + 1) (([] : Bytes), alloc) [] = ([.aborted .eof false false], none, ([], alloc)) := by
        unfold fcgiHeaders
        rw [flat_read]
        simp [fcgiReadRecordF, Gen.hdrSize]
      simp only [encSeq, this, List.map_nil, List.nil_append]
  | cons q qs ih =>
    intro alloc fuel hq hf
    obtain ⟨hwq, happ⟩ := hq q (by simp)
    have hqs : ∀ x ∈ qs, WFFcgi x.eps x.body x.fr ∧ isApp (outcomeOf lim x) = true := fun x hx => hq x (by simp [hx])
    cases fuel with
    | zero => omega
    | succ f =>
      have hlen := encFcgiK_len true q.fr (encSeq qs)
      simp only [encSeq] at hf ⊢
      obtain ⟨a, ha⟩ := fcgiConn_one lim hb conc q.eps q.body q.fr hwq true (encSeq qs) alloc f (by omega)
      rw [ha]
      have happ' : isApp (reqOutcome lim (Head.ofEnv (Env.empty.addAll (pairsOf q.eps))) q.body).1 = true := happ
      simp only [happ', Bool.and_true, if_true]
      rw [ih a f hqs (by omega)]
      simp [outcomeOf]

end Cppcms.C01
