/-!
# C01/C02 — syntax of the translated callbacks of the protocol independent layer

`translate/c01.py` turns the bodies of `connection::on_headers_read`, `set_error`, `handle_http_error`,
`handle_http_error_eof`, `load_content`, `on_some_content_read` (`src/cgi_api.cpp`),
`context::on_request_ready` (`src/http_context.cpp`) and `request::on_error` (`src/http_request.cpp`)
statement by statement into `CStmt` programs (`Gen.cgi_*`).  Control flow (`if`/`else`, `return`, order of
the statements, fall-through) is taken from the source as it is; the statements themselves are mapped to
the primitives below, the conditions to Boolean functions of `CVars` (through `cexpr`).  The meaning of the
primitives is in `Cgi.lean`.
-/
namespace Cppcms.C01

/-- the C++ values the conditions of the translated callbacks look at (parameters, locals, members) -/
structure CVars where
  /-- `booster::system::error_code const &e` in a Boolean context -/
  e : Bool := false
  /-- `int status` -/
  status : Int := 0
  /-- `int code` -/
  code : Int := 0
  /-- `buffer.second` -/
  bufSecond : Nat := 0
  /-- `addr.second`, `addr.first.empty()` (forwarding rules) -/
  addrPort : Nat := 0
  addrHostEmpty : Bool := true
  /-- `context->request().content_length()` -/
  contentLength : Int := 0
  /-- `context->response().some_output_was_written()` -/
  someOutput : Bool := false
  /-- `bool error` of `context::on_request_ready` -/
  error : Bool := false
  /-- the local `app` of `on_request_ready` (an `intrusive_ptr`) in a Boolean context -/
  app : Bool := false
  /-- `d->no_on_error`, `d->filter` of `request::on_error` -/
  noOnError : Bool := false
  filter : Bool := false
deriving Repr

/-- the statements of the translated callbacks -/
inductive CPrim
  /- hand the request on: nothing may follow in the same callback -/
  | set_error | h_aborted | h_completed | load_content | handle_http_error | async_read_some
  /-- `async_write(buffer(async_chunk_), eof, handle_http_error_eof)` -/
  | async_write (eof : Bool)
  /-- `f->async_run()` of a `cgi_forwarder` -/
  | forward
  /-- `dispatch(app,…)`, `submit_to_pool_internal(pool,…,true)`: the application gets the ready request -/
  | dispatch | submit_to_pool
  /- calls with an effect on the model state -/
  | check_forwarding | on_headers_ready | on_content_progress | get_buffer | on_async_read_complete | do_eof
  /-- `context->response().status(code)` of the error page -/
  | set_status
  /-- `error_state_ = true` -/
  | set_error_state
  /-- `app.swap(d->app)` -/
  | take_app
  | request_on_error | filter_on_error
  /-- statements without an effect on what the model observes (declarations, logging, buffers) -/
  | nop (what : String)
deriving Repr, DecidableEq

inductive CStmt
  | skip
  | ret
  | call (p : CPrim)
  | seq (a b : CStmt)
  | ite (c : CVars → Bool) (t e : CStmt)

end Cppcms.C01
