import Cppcms.C01.HttpProofs
/-! HTTP header loop: fuel independence, behaviour on concatenated buffers. -/
namespace Cppcms.C01
open Cppcms

theorem httpGotHeader_ps {r r' : HttpReq} (h : httpGotHeader r = some r') : r'.ps = r.ps := by
  unfold httpGotHeader at h
  simp only at h
  repeat' split at h
  all_goals first | (simp at h; done) | (simp only [Option.some.injEq] at h; subst h; rfl)

variable (cfg : HttpCfg)

/-- the header loop with the canonical amount of fuel -/
def hdrLoopC (r : HttpReq) (s : Bytes) : LoopRes := hdrLoop cfg (mu r.ps s + 1) r s

theorem hdrLoop_fuel (k1 k2 : Nat) (r : HttpReq) (s : Bytes) (h1 : mu r.ps s < k1) (h2 : mu r.ps s < k2) :
    hdrLoop cfg k1 r s = hdrLoop cfg k2 r s := by
  induction k1 generalizing k2 r s with
  | zero => omega
  | succ k1 ih =>
    cases k2 with
    | zero => omega
    | succ k2 =>
      unfold hdrLoop
      simp only
      split
      · rfl
      · split
        · rfl
        · split
          · rename_i hg
            have hg' : (parserRun r.ps s).1 = Gen.pr_got_header := by simpa using hg
            have hp := parserRun_progress r.ps s hg'
            cases hh : httpGotHeader { r with ps := (parserRun r.ps s).2.1 } with
            | none => rfl
            | some r2 =>
              simp only
              have hps := httpGotHeader_ps hh
              simp only at hps
              apply ih
              · rw [hps]; omega
              · rw [hps]; omega
          · rfl

theorem hdrLoop_eq_C (k : Nat) (r : HttpReq) (s : Bytes) (h : mu r.ps s < k) : hdrLoop cfg k r s = hdrLoopC cfg r s :=
  hdrLoop_fuel cfg k (mu r.ps s + 1) r s h (by omega)

/-- one unfolding of the canonical header loop -/
theorem hdrLoopC_unfold (r : HttpReq) (s : Bytes) :
    hdrLoopC cfg r s =
      (let p := parserRun r.ps s
       let r1 := { r with ps := p.2.1 }
       if p.2.1.under then .fin (.done (.crash "parser: unsigned underflow of header_.size() or bracket_counter_")) p.2.2
       else if p.1 == Gen.pr_more_data then .more r1
       else if p.1 == Gen.pr_got_header then
         match httpGotHeader r1 with
         | none => .fin (.done (.aborted .violation false false)) p.2.2
         | some r2 => hdrLoopC cfg r2 p.2.2
       else if p.1 == Gen.pr_end_of_headers then
         match httpProcess cfg r1 with
         | none => .fin (.done .raw400) p.2.2
         | some h => .fin (.head h r1.is11) p.2.2
       else .fin (.done (.aborted .violation false false)) p.2.2) := by
  unfold hdrLoopC
  rw [hdrLoop]
  simp only
  split
  · rfl
  · split
    · rfl
    · split
      · rename_i hg
        have hg' : (parserRun r.ps s).1 = Gen.pr_got_header := by simpa using hg
        have hp := parserRun_progress r.ps s hg'
        cases hh : httpGotHeader { r with ps := (parserRun r.ps s).2.1 } with
        | none => rfl
        | some r2 =>
          simp only
          have hps := httpGotHeader_ps hh
          simp only at hps
          apply hdrLoop_fuel
          · rw [hps]; omega
          · rw [hps]; omega
      · rfl

/-- the header loop over `a ++ b`: when `a` alone leaves the loop waiting for more data, the loop over
`a ++ b` is the loop over `b` continued from the registers reached; when `a` alone decides, `b` stays unread.
The registers keep the parser invariant. -/
theorem hdrLoopC_append (b : Bytes) : ∀ (n : Nat) (r : HttpReq) (a : Bytes), mu r.ps a = n → PInv r.ps →
    match hdrLoopC cfg r a with
    | .more r' => hdrLoopC cfg r (a ++ b) = hdrLoopC cfg r' b ∧ PInv r'.ps
    | .fin res rest => hdrLoopC cfg r (a ++ b) = .fin res (rest ++ b) ∧ rest.length ≤ a.length := by
  intro n
  induction n using Nat.strongRecOn with
  | _ n ih =>
    intro r a hn hi
    rw [hdrLoopC_unfold cfg r a, hdrLoopC_unfold cfg r (a ++ b)]
    have happ := parserRun_append r.ps a b
    obtain ⟨hu, hinv⟩ := parserRun_pinv r.ps a hi
    have hle := parserRun_rest_le r.ps a
    simp only
    by_cases hm : (parserRun r.ps a).1 = Gen.pr_more_data
    · -- buffer exhausted
      have hmb : ((parserRun r.ps a).1 == Gen.pr_more_data) = true := by simp [hm]
      simp only [hu, hmb, Bool.false_eq_true, if_false, if_true]
      rw [hm] at happ
      simp only [if_true] at happ
      refine ⟨?_, hinv (Or.inl hm)⟩
      rw [happ, hdrLoopC_unfold cfg { r with ps := (parserRun r.ps a).2.1 } b]
    · have hmb : ((parserRun r.ps a).1 == Gen.pr_more_data) = false := by simp [hm]
      simp only [hm, if_false] at happ
      rw [happ]
      simp only [hu, hmb, Bool.false_eq_true, if_false]
      by_cases hg : (parserRun r.ps a).1 = Gen.pr_got_header
      · have hgb : ((parserRun r.ps a).1 == Gen.pr_got_header) = true := by simp [hg]
        simp only [hgb, if_true]
        cases hh : httpGotHeader { r with ps := (parserRun r.ps a).2.1 } with
        | none => exact ⟨rfl, hle⟩
        | some r2 =>
          simp only
          have hps := httpGotHeader_ps hh
          simp only at hps
          have hp := parserRun_progress r.ps a hg
          have hi2 : PInv r2.ps := by rw [hps]; exact hinv (Or.inr hg)
          have := ih (mu r2.ps (parserRun r.ps a).2.2) (by rw [hps]; omega) r2 (parserRun r.ps a).2.2 rfl hi2
          cases hl : hdrLoopC cfg r2 (parserRun r.ps a).2.2 with
          | more r' => rw [hl] at this; exact this
          | fin res rest =>
            rw [hl] at this
            exact ⟨this.1, by have := this.2; omega⟩
      · have hgb : ((parserRun r.ps a).1 == Gen.pr_got_header) = false := by simp [hg]
        simp only [hgb, Bool.false_eq_true, if_false]
        by_cases he : ((parserRun r.ps a).1 == Gen.pr_end_of_headers) = true
        · simp only [he, if_true]
          cases httpProcess cfg { r with ps := (parserRun r.ps a).2.1 } with
          | none => exact ⟨rfl, hle⟩
          | some h => exact ⟨rfl, hle⟩
        · simp only [he, if_false]
          exact ⟨rfl, hle⟩

end Cppcms.C01
