import Cppcms.C01.HttpAgree
/-!
# C01 — executable well-formedness checks for the peer-side structures

The hypotheses of the round-trip theorems (`HttpPeer.ok`, `HttpWire`, `FormField.ok`, `CookieItem.ok`) as
Boolean functions, with soundness proofs.  The check's driver evaluates them on every generated request in
peer form, together with the right-hand sides of the theorems (`HttpPeer.head`, `cookiesMeant`, the form
fields), and compares those with what the real server's application reported.
-/
namespace Cppcms.C01
open Cppcms

def PctPiece.okB : PctPiece → Bool
  | .lit b => b != 37 && b != 43
  | _ => true

theorem PctPiece.okB_sound {p : PctPiece} (h : p.okB = true) : p.ok := by
  cases p <;> simp_all [PctPiece.okB, PctPiece.ok]

def PctPiece.pathB : PctPiece → Bool
  | .lit b => b != 37 && b != 43 && b != 0 && b != 32 && b != 63
  | .plus => true
  | .esc b _ _ => b != 0

def notWsB (c : UInt8) : Bool := c != 32 && c != 9 && c != 13

theorem notWsB_sound {c : UInt8} (h : notWsB c = true) : NotWs c := by
  simp only [notWsB, Bool.and_eq_true, bne_iff_ne, ne_eq] at h
  exact ⟨h.1.1, h.1.2, h.2⟩

def HttpField.okB (f : HttpField) : Bool :=
  f.name.all isTockenChar && !f.name.isEmpty && f.ws.all (fun x => x == 32 || x == 9) &&
  (match f.value with | [] => true | c :: _ => notWsB c) && f.value.all (· != 0)

theorem HttpField.okB_sound {f : HttpField} (h : f.okB = true) : f.ok := by
  simp only [HttpField.okB, Bool.and_eq_true, List.all_eq_true, Bool.not_eq_true', Bool.or_eq_true, beq_iff_eq,
    bne_iff_ne, ne_eq] at h
  obtain ⟨⟨⟨⟨h1, h2⟩, h3⟩, h4⟩, h5⟩ := h
  refine ⟨h1, ?_, h3, ?_, h5⟩
  · intro e; rw [e] at h2; simp at h2
  · cases hv : f.value with
    | nil => exact Or.inl rfl
    | cons c t =>
      rw [hv] at h4
      exact Or.inr ⟨c, t, rfl, notWsB_sound h4⟩

def HttpPeer.okB (cfg : HttpCfg) (q : HttpPeer) : Bool :=
  q.method.all isTockenChar && !q.method.isEmpty &&
  q.script.all (fun x => x != 32 && x != 0 && x != 63) &&
  q.path.all PctPiece.pathB &&
  (q.uriPath.head? == some 47) &&
  (match q.query with | none => true | some s => s.all (fun x => x != 32 && x != 0)) &&
  q.proto.all (· != 0) &&
  (scriptHit cfg q.uriPath == (if q.script.isEmpty then none else some q.script)) &&
  q.fields.all HttpField.okB

theorem HttpPeer.okB_sound {cfg : HttpCfg} {q : HttpPeer} (h : q.okB cfg = true) : q.ok cfg := by
  simp only [HttpPeer.okB, Bool.and_eq_true, List.all_eq_true, Bool.not_eq_true', beq_iff_eq, bne_iff_ne, ne_eq] at h
  obtain ⟨⟨⟨⟨⟨⟨⟨⟨h1, h2⟩, h3⟩, h4⟩, h5⟩, h6⟩, h7⟩, h8⟩, h9⟩ := h
  refine ⟨h1, ?_, ?_, ?_, h5, ?_, h7, h8, fun f hf => HttpField.okB_sound (h9 f hf)⟩
  · intro e; rw [e] at h2; simp at h2
  · intro x hx; have := h3 x hx; exact ⟨this.1.1, this.1.2, this.2⟩
  · intro p hp
    have := h4 p hp
    cases p with
    | lit b =>
      simp only [PctPiece.pathB, Bool.and_eq_true, bne_iff_ne, ne_eq] at this
      refine ⟨⟨this.1.1.1.1, this.1.1.1.2⟩, this.1.1.2, ?_⟩
      intro b' hb'; cases hb'; exact ⟨this.1.2, this.2⟩
    | plus => exact ⟨trivial, by decide, by intro b hb; cases hb⟩
    | esc b u1 u2 =>
      simp only [PctPiece.pathB, bne_iff_ne, ne_eq] at this
      exact ⟨trivial, this, by intro b' hb'; cases hb'⟩
  · intro s hs x hx
    rw [hs] at h6
    simp only [List.all_eq_true, Bool.and_eq_true, bne_iff_ne, ne_eq] at h6
    exact h6 x hx

def plainLineB (l : Bytes) : Bool :=
  !l.isEmpty && decide (Balanced l) && l.head? != some 32 && l.head? != some 9

theorem plainLineB_sound {l : Bytes} (h : plainLineB l = true) : PlainLine l := by
  simp only [plainLineB, Bool.and_eq_true, Bool.not_eq_true', decide_eq_true_eq, bne_iff_ne, ne_eq] at h
  obtain ⟨⟨⟨h1, h2⟩, h3⟩, h4⟩ := h
  refine ⟨?_, h2, h3, h4⟩
  intro e; rw [e] at h1; simp at h1

def contPieceB (p : Bytes) : Bool :=
  (p.head? == some 32 || p.head? == some 9) && decide (Balanced p)

theorem contPieceB_sound {p : Bytes} (h : contPieceB p = true) : ContPiece p := by
  simp only [contPieceB, Bool.and_eq_true, Bool.or_eq_true, beq_iff_eq, decide_eq_true_eq] at h
  exact ⟨h.1, h.2⟩

def wireB (q : HttpPeer) (ls : List FLine) : Bool :=
  ls.all (fun l => plainLineB l.head && l.tail.all contPieceB) &&
  (ls.map FLine.value == q.lines) && decide ((encFLines ls).length ≤ Gen.httpHeaderCap)

theorem wireB_sound {q : HttpPeer} {ls : List FLine} (h : wireB q ls = true) : HttpWire q ls := by
  simp only [wireB, Bool.and_eq_true, List.all_eq_true, beq_iff_eq, decide_eq_true_eq] at h
  obtain ⟨⟨h1, h2⟩, h3⟩ := h
  exact ⟨fun l hl => ⟨plainLineB_sound (h1 l hl).1, fun p hp => contPieceB_sound ((h1 l hl).2 p hp)⟩, h2, h3⟩

def FormField.okB (f : FormField) : Bool :=
  f.name.all (fun p => p.okB && p != .lit 38 && p != .lit 61) && f.value.all (fun p => p.okB && p != .lit 38) &&
  !f.name.isEmpty

theorem FormField.okB_sound {f : FormField} (h : f.okB = true) : f.ok := by
  simp only [FormField.okB, Bool.and_eq_true, List.all_eq_true, Bool.not_eq_true', bne_iff_ne, ne_eq] at h
  obtain ⟨⟨h1, h2⟩, h3⟩ := h
  refine ⟨fun p hp => ⟨PctPiece.okB_sound (h1 p hp).1.1, (h1 p hp).1.2, (h1 p hp).2⟩,
    fun p hp => ⟨PctPiece.okB_sound (h2 p hp).1, (h2 p hp).2⟩, ?_⟩
  intro e; rw [e] at h3; simp at h3

def CookieItem.okB (c : CookieItem) : Bool :=
  c.name.all isTockenChar && !c.name.isEmpty && c.name.head? != some 36 &&
  (match c.esc with
   | none => c.value.all isTockenChar
   | some fl => fl.length == c.value.length && (c.value.zip fl).all (fun p => !(p.1 == 34 || p.1 == 92) || p.2)) &&
  (c.sep == 59 || c.sep == 44) && c.ws.all (fun x => x == 32 || x == 9)

theorem CookieItem.okB_sound {c : CookieItem} (h : c.okB = true) : c.ok := by
  simp only [CookieItem.okB, Bool.and_eq_true, List.all_eq_true, Bool.not_eq_true', bne_iff_ne, ne_eq,
    Bool.or_eq_true, beq_iff_eq] at h
  obtain ⟨⟨⟨⟨⟨h1, h2⟩, h3⟩, h4⟩, h5⟩, h6⟩ := h
  refine ⟨h1, ?_, h3, ?_, ?_, h5, h6⟩
  · intro e; rw [e] at h2; simp at h2
  · intro he
    rw [he] at h4
    simpa using h4
  · intro fl he
    rw [he] at h4
    simp only [Bool.and_eq_true, beq_iff_eq, List.all_eq_true, Bool.or_eq_true, Bool.not_eq_true', Bool.or_eq_false_iff] at h4
    refine ⟨h4.1, ?_⟩
    intro p hp hq
    rcases h4.2 p hp with h | h
    · rcases hq with hq | hq
      · rw [hq] at h; simp at h
      · rw [hq] at h; simp at h
    · exact h

end Cppcms.C01
