import Cppcms.C01.Request
/-! Socket-level lemmas: what `readSome` / `readExact` / the content loop deliver depends on the
concatenation of the segments only. -/
namespace Cppcms.C01
open Cppcms

theorem readSome_none {cap : Nat} {segs : Segs} (h : readSome cap segs = none) : segs.flatten = [] := by
  induction segs with
  | nil => rfl
  | cons s rest ih =>
    unfold readSome at h
    split at h
    · rename_i he
      have : s = [] := by simpa using he
      simp [this, ih h]
    · split at h <;> simp at h

theorem readSome_some {cap : Nat} (hc : 0 < cap) {segs : Segs} {g : Bytes} {r : Segs}
    (h : readSome cap segs = some (g, r)) :
    g ≠ [] ∧ g.length ≤ cap ∧ g ++ r.flatten = segs.flatten := by
  induction segs with
  | nil => simp [readSome] at h
  | cons s rest ih =>
    unfold readSome at h
    split at h
    · rename_i he
      have : s = [] := by simpa using he
      obtain ⟨a, b, c⟩ := ih h
      exact ⟨a, b, by simp [this, c]⟩
    · rename_i hne
      have hs : s ≠ [] := by simpa using hne
      split at h
      · rename_i hle
        simp at h
        obtain ⟨rfl, rfl⟩ := h
        exact ⟨hs, hle, by simp⟩
      · rename_i hgt
        simp at h
        obtain ⟨rfl, rfl⟩ := h
        refine ⟨?_, ?_, ?_⟩
        · intro h0
          have : (s.take cap).length = 0 := by rw [h0]; rfl
          simp at this
          rcases this with h1 | h1
          · omega
          · exact hs h1
        · simp; omega
        · simp [← List.append_assoc]

theorem readSome_flatten_nil {cap : Nat} {segs : Segs} (h : segs.flatten = []) : readSome cap segs = none := by
  induction segs with
  | nil => rfl
  | cons s rest ih =>
    simp at h
    obtain ⟨hs, hr⟩ := h
    subst hs
    simp [readSome, ih (by simpa using hr)]

/-- `readExact` in terms of the concatenated stream -/
theorem readExact_spec (n : Nat) (segs : Segs) :
    (readExact n segs).2.2 = decide (n ≤ segs.flatten.length) ∧
    (readExact n segs).1 = segs.flatten.take n ∧
    ((readExact n segs).2.2 = true → (readExact n segs).2.1.flatten = segs.flatten.drop n) := by
  induction segs generalizing n with
  | nil =>
    cases n with
    | zero => simp [readExact]
    | succ n => simp [readExact]
  | cons s rest ih =>
    cases n with
    | zero => simp [readExact]
    | succ n =>
      unfold readExact
      split
      · rename_i hle
        obtain ⟨a, b, c⟩ := ih (n + 1 - s.length)
        refine ⟨?_, ?_, ?_⟩
        · simp only [a, List.flatten_cons, List.length_append]
          simp only [decide_eq_decide]
          omega
        · simp only [b, List.flatten_cons]
          rw [List.take_append]
          rw [List.take_of_length_le hle]
        · intro hok
          simp only [List.flatten_cons]
          rw [c hok, List.drop_append]
          simp [List.drop_of_length_le hle]
      · rename_i hgt
        have hlt : n + 1 < s.length := by omega
        refine ⟨?_, ?_, ?_⟩
        · simp; omega
        · simp only [List.flatten_cons]
          rw [List.take_append_of_le_length (by omega)]
        · intro _
          simp only [List.flatten_cons]
          rw [List.drop_append_of_le_length (by omega)]

/-- reader over a plain byte string: the specification-level socket -/
def flatRead (want : Nat) (s : Bytes) : Except Err (Bytes × Bytes) :=
  if s.isEmpty then .error .eof else .ok (s.take want, s.drop want)


/-- A content reader that behaves like reading from a byte stream `view st`: end of stream is the
only error, otherwise a non-empty prefix of at most `want` bytes is delivered and removed. -/
structure StreamReader {σ : Type} (rd : Nat → σ → Except Err (Bytes × σ)) (view : σ → Bytes) : Prop where
  eof : ∀ want st, view st = [] → rd want st = .error .eof
  some : ∀ want st, 0 < want → view st ≠ [] →
    ∃ g st', rd want st = .ok (g, st') ∧ g ≠ [] ∧ g.length ≤ want ∧ g ++ view st' = view st

theorem sockRead_stream : StreamReader sockRead List.flatten where
  eof := by
    intro want st h
    simp [sockRead, readSome_flatten_nil h]
  some := by
    intro want st hw h
    cases hr : readSome want st with
    | none => exact absurd (readSome_none hr) h
    | some p =>
      obtain ⟨g, r⟩ := p
      obtain ⟨a, b, c⟩ := readSome_some hw hr
      exact ⟨g, r, by simp [sockRead, hr], a, b, c⟩

theorem flatRead_stream : StreamReader flatRead id where
  eof := by
    intro want st h
    simp at h
    simp [flatRead, h]
  some := by
    intro want st hw h
    simp at h
    refine ⟨st.take want, st.drop want, ?_, ?_, ?_, ?_⟩
    · simp [flatRead, h]
    · intro h0
      have : (st.take want).length = 0 := by rw [h0]; rfl
      simp at this
      rcases this with h1 | h1
      · omega
      · exact h h1
    · simp; omega
    · simp

/-- specification of the content phase over a byte stream -/
def contentFlat (n : Nat) (s : Bytes) : Except Err Bytes :=
  if n ≤ s.length then .ok (s.take n) else .error .eof

/-- The content loop over any stream-like reader delivers exactly the first `n` bytes of the stream
(appended to what was accumulated), or `eof` when the stream is shorter; on success those `n` bytes
are removed from the stream. -/
theorem contentLoop_stream {σ : Type} {rd : Nat → σ → Except Err (Bytes × σ)} {view : σ → Bytes}
    (hrd : StreamReader rd view) (chunk : Option Nat) (hchunk : ∀ b, chunk = some b → 0 < b) :
    ∀ (fuel n : Nat) (acc : Bytes) (st : σ), n < fuel →
      (contentLoop rd chunk fuel n acc st).1 = (contentFlat n (view st)).map (acc ++ ·) ∧
      (n ≤ (view st).length → view (contentLoop rd chunk fuel n acc st).2 = (view st).drop n) := by
  intro fuel
  induction fuel with
  | zero => intro n acc st h; omega
  | succ fuel ih =>
    intro n acc st hlt
    unfold contentLoop
    by_cases hn : n = 0
    · subst hn
      simp [contentFlat, Except.map]
    · have hnb : (n == 0) = false := by simp [hn]
      simp only [hnb, Bool.false_eq_true, if_false]
      -- the size of the buffer offered
      have key : 0 < wantOf chunk n ∧ wantOf chunk n ≤ n := by
        unfold wantOf
        cases hc : chunk with
        | none => simp; omega
        | some b => have := hchunk b hc; simp; omega
      obtain ⟨hpos, hle⟩ := key
      generalize wantOf chunk n = want at hpos hle ⊢
      by_cases hv : view st = []
      · rw [hrd.eof want st hv]
        have : ¬ (n ≤ 0) := by omega
        simp [contentFlat, hv, Except.map, this]
      · obtain ⟨g, st', hr, hg, hgl, hgv⟩ := hrd.some want st hpos hv
        rw [hr]
        simp only
        have hgpos : 0 < g.length := by
          cases g with
          | nil => exact absurd rfl hg
          | cons _ _ => simp
        obtain ⟨ih1, ih2⟩ := ih (n - g.length) (acc ++ g) st' (by omega)
        refine ⟨?_, ?_⟩
        · rw [ih1, ← hgv]
          simp only [contentFlat, List.length_append]
          by_cases hfit : n ≤ g.length + (view st').length
          · have : n - g.length ≤ (view st').length := by omega
            simp only [this, hfit, if_true, Except.map]
            rw [List.take_append, List.take_of_length_le (by omega : g.length ≤ n)]
            simp [List.append_assoc]
          · have : ¬ (n - g.length ≤ (view st').length) := by omega
            simp [this, hfit, Except.map]
        · intro hfit
          rw [← hgv] at hfit ⊢
          simp only [List.length_append] at hfit
          rw [ih2 (by omega), List.drop_append, List.drop_of_length_le (by omega : g.length ≤ n)]
          simp


theorem chunkOf_pos (lim : Limits) (hb : 0 < lim.bufSize) (pre : Bool) (a : Bytes) :
    ∀ b, chunkOf lim pre a = some b → 0 < b := by
  intro b h
  unfold chunkOf at h
  split at h
  · simp only [Option.some.injEq] at h
    subst h
    split
    · split <;> omega
    · exact hb
  · simp at h

theorem requestPlan_read {lim : Limits} (hb : 0 < lim.bufSize) {h : Head} {n : Nat} {chunk : Option Nat} {pre : Bool}
    {fin : Bytes → Outcome} (hp : requestPlan lim h = .read n chunk pre fin) :
    (∀ b, chunk = some b → 0 < b) ∧ 0 < n := by
  unfold requestPlan at hp
  simp only at hp
  repeat' split at hp
  all_goals first | (simp at hp; done) | skip
  all_goals (
    simp only [Plan.read.injEq] at hp
    obtain ⟨rfl, rfl, rfl, _⟩ := hp
    refine ⟨chunkOf_pos lim hb _ _, ?_⟩
    omega)

theorem requestPlan_read_n {lim : Limits} {h : Head} {n : Nat} {chunk : Option Nat} {pre : Bool}
    {fin : Bytes → Outcome} (hp : requestPlan lim h = .read n chunk pre fin) : n = h.contentLength.toNat := by
  unfold requestPlan at hp
  simp only at hp
  repeat' split at hp
  all_goals first | (simp at hp; done) | skip
  all_goals (
    simp only [Plan.read.injEq] at hp
    obtain ⟨rfl, _⟩ := hp
    rfl)

/-- a request is handed to the application without reading content only when it announces none -/
theorem requestPlan_done_app {lim : Limits} {h : Head} {o : Outcome} (hp : requestPlan lim h = .done o)
    (happ : isApp o = true) : h.contentLength = 0 := by
  unfold requestPlan at hp
  simp only at hp
  repeat' split at hp
  all_goals first
    | (simp at hp; done)
    | (simp only [Plan.done.injEq] at hp
       subst hp
       first
       | (simp [isApp] at happ; done)
       | (have h0 : Gen.contentStartEarly h.contentLength = some 0 := by assumption
          simp only [Gen.contentStartEarly] at h0
          split at h0
          · rename_i hc0; simpa using hc0
          · split at h0 <;> simp at h0))

/-- specification of the request phase over a byte stream: the outcome and the unread rest -/
def reqOutcome (lim : Limits) (h : Head) (s : Bytes) : Outcome × Bytes :=
  match requestPlan lim h with
  | .done o => (o, s)
  | .read n _ pre fin =>
    match contentFlat n s with
    | .error e => (.aborted e pre pre, [])
    | .ok body => (fin body, s.drop n)

theorem runRequest_stream {σ : Type} {rd : Nat → σ → Except Err (Bytes × σ)} {view : σ → Bytes}
    (hrd : StreamReader rd view) (lim : Limits) (hb : 0 < lim.bufSize) (h : Head) (st : σ) :
    (runRequest lim rd h st).1 = (reqOutcome lim h (view st)).1 ∧
    (isApp (runRequest lim rd h st).1 = true → view (runRequest lim rd h st).2 = (reqOutcome lim h (view st)).2) := by
  unfold runRequest reqOutcome
  cases hp : requestPlan lim h with
  | done o => simp
  | read n chunk pre fin =>
    obtain ⟨hc, hn⟩ := requestPlan_read hb hp
    obtain ⟨h1, h2⟩ := contentLoop_stream hrd chunk hc (n + 1) n [] st (by omega)
    simp only
    cases hl : contentLoop rd chunk (n + 1) n [] st with
    | mk res st' =>
      rw [hl] at h1 h2
      simp only at h1 h2
      unfold contentFlat at h1 ⊢
      by_cases hfit : n ≤ (view st).length
      · simp only [hfit, if_true, Except.map] at h1 ⊢
        subst h1
        simp only [List.nil_append]
        exact ⟨trivial, fun _ => h2 hfit⟩
      · simp only [hfit, if_false, Except.map] at h1 ⊢
        subst h1
        simp [isApp]

end Cppcms.C01
