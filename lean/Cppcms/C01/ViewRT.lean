import Cppcms.C01.Urlenc
import Cppcms.C01.LemmasSock
/-!
# C01 — from the head to what the application observes

`reqOutcome` (the function all three front-end round trips end in) on a head whose query string, cookie header
and urlencoded body were written by the peer-side encoders: the application's view holds the GET fields, the
cookies and the POST fields the peer meant.
-/
namespace Cppcms.C01
open Cppcms

def sHTTP_COOKIE : Bytes := [72, 84, 84, 80, 95, 67, 79, 79, 75, 73, 69]

theorem encForm_length (fs : List FormField) (h : ∀ f ∈ fs, f.ok) : fs.length ≤ (encForm fs).length := by
  induction fs with
  | nil => simp
  | cons f r ih =>
    have hf := h f (by simp)
    have hn : 1 ≤ (pctWire f.name).length := by
      have := pctWire_ne_nil hf.nonempty
      cases hw : pctWire f.name with
      | nil => exact absurd hw this
      | cons _ _ => simp
    have := ih (fun g hg => h g (by simp [hg]))
    cases r with
    | nil => simp [encForm, FormField.wire]; omega
    | cons g r' =>
      simp only [encForm, FormField.wire, List.length_append, List.length_cons] at this ⊢
      omega

/-- the view of a request without content -/
def viewOf (h : Head) (get post : Form) (cookies : Cookies) (body : Bytes) : View :=
  { env := h.env.toMap, names := h.env.toMap.map (fun kv => (kv.1, h.env.getSafe kv.1)), get := formSorted get,
    post := formSorted post, cookies := cookies, body := body }

/-- **GET**: query string and cookie header written by the peer (any admissible percent-encoding, any cookie
separators), no content: the application gets exactly those GET fields and cookies -/
theorem view_roundtrip_get (lim : Limits) (h : Head) (gs : List FormField) (hgs : ∀ f ∈ gs, f.ok)
    (cs : List CookieItem) (hcs : ∀ c ∈ cs, c.ok) (hq : h.queryString = encForm gs)
    (hck : h.env.getSafe sHTTP_COOKIE = encCookies cs) (hcl : h.contentLength = 0) (rest : Bytes) :
    reqOutcome lim h rest =
      (.app (kindOf h.scriptName) false (viewOf h (gs.map FormField.meant) [] (cookiesMeant [] cs) []), rest) := by
  have hform : parseForm (h.queryString.length + 1) h.queryString [] = (true, gs.map FormField.meant) := by
    rw [hq]
    have := parseForm_roundtrip gs hgs ((encForm gs).length + 1) [] (by have := encForm_length gs hgs; omega)
    simpa using this
  have hcook : parseCookies (h.env.getSafe [72, 84, 84, 80, 95, 67, 79, 79, 75, 73, 69]) = cookiesMeant [] cs := by
    have : h.env.getSafe [72, 84, 84, 80, 95, 67, 79, 79, 75, 73, 69] = encCookies cs := hck
    rw [this]; exact parseCookies_roundtrip cs hcs
  have hplan : requestPlan lim h =
      .done (.app (kindOf h.scriptName) false (viewOf h (gs.map FormField.meant) [] (cookiesMeant [] cs) [])) := by
    unfold requestPlan
    simp only [hform, hcook, hcl, if_true]
    simp [Gen.contentStartEarly, viewOf, formSorted]
  unfold reqOutcome
  rw [hplan]

theorem mediaType_urlencoded : mediaType mtFormUrlencoded = mtFormUrlencoded := by
  unfold mediaType
  have e1 : skipWs mtFormUrlencoded = mtFormUrlencoded := skipWs_stop 97 _ ⟨by decide, by decide, by decide⟩
  have e2 : tocken mtFormUrlencoded = ([97, 112, 112, 108, 105, 99, 97, 116, 105, 111, 110],
      47 :: [120, 45, 119, 119, 119, 45, 102, 111, 114, 109, 45, 117, 114, 108, 101, 110, 99, 111, 100, 101, 100]) :=
    tocken_app [97, 112, 112, 108, 105, 99, 97, 116, 105, 111, 110] _ (by decide) (Or.inr ⟨47, _, rfl, by decide⟩)
  have e3 : tocken [120, 45, 119, 119, 119, 45, 102, 111, 114, 109, 45, 117, 114, 108, 101, 110, 99, 111, 100, 101, 100] =
      ([120, 45, 119, 119, 119, 45, 102, 111, 114, 109, 45, 117, 114, 108, 101, 110, 99, 111, 100, 101, 100], []) := by
    have := tocken_app [120, 45, 119, 119, 119, 45, 102, 111, 114, 109, 45, 117, 114, 108, 101, 110, 99, 111, 100, 101, 100] []
      (by decide) (Or.inl rfl)
    simpa using this
  simp only [e1, e2, e3]
  decide

/-- **POST**: in addition an `application/x-www-form-urlencoded` body written by the peer, `Content-Length` its
length (within the limit), an application without content filter: the application gets the POST fields the peer
meant and the raw body; exactly the body is consumed -/
theorem view_roundtrip_post (lim : Limits) (h : Head) (gs : List FormField) (hgs : ∀ f ∈ gs, f.ok)
    (cs : List CookieItem) (hcs : ∀ c ∈ cs, c.ok) (ps : List FormField) (hps : ∀ f ∈ ps, f.ok)
    (hq : h.queryString = encForm gs) (hck : h.env.getSafe sHTTP_COOKIE = encCookies cs)
    (hct : h.contentType = mtFormUrlencoded) (hne : encForm ps ≠ [])
    (hcl : h.contentLength = ((encForm ps).length : Int)) (hlim : (encForm ps).length ≤ lim.contentLimit)
    (hlim2 : (lim.contentLimit : Int) < 2 ^ 62) (hk : kindOf h.scriptName ≠ .filter) (rest : Bytes) :
    reqOutcome lim h (encForm ps ++ rest) =
      (.app (kindOf h.scriptName) false
        (viewOf h (gs.map FormField.meant) (ps.map FormField.meant) (cookiesMeant [] cs) (encForm ps)), rest) := by
  have hform : parseForm (h.queryString.length + 1) h.queryString [] = (true, gs.map FormField.meant) := by
    rw [hq]
    have := parseForm_roundtrip gs hgs ((encForm gs).length + 1) [] (by have := encForm_length gs hgs; omega)
    simpa using this
  have hpost : parseForm ((encForm ps).length + 1) (encForm ps) [] = (true, ps.map FormField.meant) := by
    have := parseForm_roundtrip ps hps ((encForm ps).length + 1) [] (by have := encForm_length ps hps; omega)
    simpa using this
  have hcook : parseCookies (h.env.getSafe [72, 84, 84, 80, 95, 67, 79, 79, 75, 73, 69]) = cookiesMeant [] cs := by
    have : h.env.getSafe [72, 84, 84, 80, 95, 67, 79, 79, 75, 73, 69] = encCookies cs := hck
    rw [this]; exact parseCookies_roundtrip cs hcs
  have hpos : 0 < (encForm ps).length := by
    cases hh : encForm ps with
    | nil => exact absurd hh hne
    | cons _ _ => simp
  have hkf : (kindOf h.scriptName == Kind.filter) = false := by
    cases hkk : kindOf h.scriptName <;> simp_all
  have hmt : mediaType h.contentType = mtFormUrlencoded := by rw [hct]; exact mediaType_urlencoded
  have hmp : (mtFormUrlencoded == mtMultipart) = false := by decide
  have hcs0 : Gen.contentStartEarly h.contentLength = none := by
    simp only [Gen.contentStartEarly, hcl]
    have h1 : ¬ ((((encForm ps).length : Nat) : Int) = 0) := by omega
    have h2 : ¬ ((((encForm ps).length : Nat) : Int) < 0) := by omega
    simp [h1, h2, hne]
  have hvr : vecResizeOk h.contentLength = true := by
    simp only [vecResizeOk, hcl, Bool.and_eq_true, decide_eq_true_eq]
    constructor <;> omega
  have hplan : ∃ chunk, requestPlan lim h = .read (encForm ps).length chunk false (fun body =>
      match (parseForm (body.length + 1) body []).1, Gen.postParseFailure with
      | false, some code => .status code false false
      | _, _ => .app (kindOf h.scriptName) false (viewOf h (gs.map FormField.meant) (parseForm (body.length + 1) body []).2
          (cookiesMeant [] cs) body)) := by
    refine ⟨chunkOf lim false (formGet (gs.map FormField.meant) [98, 115]), ?_⟩
    unfold requestPlan
    simp only [hform, hcook, hkf, Bool.false_and, Bool.false_eq_true, if_false, hcs0, hmt, hmp, hvr, Bool.not_true,
      Bool.and_false, Bool.not_false, Bool.true_and, Bool.and_true, if_true]
    have hgt : ¬ (h.contentLength > (lim.contentLimit : Int)) := by rw [hcl]; omega
    have hle : ¬ (h.contentLength ≤ 0) := by rw [hcl]; omega
    simp only [hgt, hle, decide_false, Bool.false_eq_true, if_false, beq_self_eq_true, if_true]
    have hn : h.contentLength.toNat = (encForm ps).length := by rw [hcl]; simp
    rw [hn]
    rfl
  obtain ⟨chunk, hplan⟩ := hplan
  unfold reqOutcome
  rw [hplan]
  simp only [contentFlat, List.length_append, Nat.le_add_right, if_true, List.take_left', List.drop_left']
  simp [hpost, Gen.postParseFailure, viewOf]

end Cppcms.C01
