import Cppcms.C01.Basic
/-!
# C01/C02 — property predicates evaluated on what the real server did (judges)

Independent of the models: only `Basic` (byte strings, sorted containers) is used.

* `viewOk`: the application's observation of one request equals what the peer meant
  (`AbsReq`: method, script name, path info, query string, headers, cookies, GET/POST fields, body).
  The peer's encoders live in the generator (`gen/c01gen.py`); the theorems `*_roundtrip` are the
  model-level counterpart.
* `c02ok`: the observable part of "no request crashes the service or disturbs other requests".
-/
namespace Cppcms.C01.Spec
open Cppcms Cppcms.C01

/-- what the peer meant -/
structure AbsReq where
  method : Bytes
  script : Bytes
  path : Bytes
  query : Bytes
  /-- CGI header variables the peer sent (`HTTP_*`, `CONTENT_TYPE`), canonical names -/
  hdrs : List (Bytes × Bytes)
  get : List (Bytes × Bytes)
  post : List (Bytes × Bytes)
  cookies : List (Bytes × Bytes)
  body : Bytes
  /-- the application is the raw-content-filter one: POST fields are not parsed by the library -/
  rawFilter : Bool
deriving Repr

/-- what the application reported -/
structure ObsView where
  env : List (Bytes × Bytes)
  /-- by-name lookups `getenv(name)` for every name of `env` -/
  names : List (Bytes × Bytes)
  get : List (Bytes × Bytes)
  post : List (Bytes × Bytes)
  /-- name, value, path, domain -/
  cookies : List (Bytes × Bytes × Bytes × Bytes)
  body : Bytes
deriving Repr

def lookupD (l : List (Bytes × Bytes)) (k : Bytes) : Bytes := ((l.find? (·.1 == k)).map (·.2)).getD []

def sortMulti (l : List (Bytes × Bytes)) : List (Bytes × Bytes) := l.foldl (fun m kv => multiInsert kv.1 kv.2 m) []

def decimal (n : Nat) : Bytes := (toString n).toList.map fun c => UInt8.ofNat c.toNat

def startsWith (p s : Bytes) : Bool := s.take p.length == p

def sREQUEST_METHOD : Bytes := [82, 69, 81, 85, 69, 83, 84, 95, 77, 69, 84, 72, 79, 68]
def sSCRIPT_NAME : Bytes := [83, 67, 82, 73, 80, 84, 95, 78, 65, 77, 69]
def sPATH_INFO : Bytes := [80, 65, 84, 72, 95, 73, 78, 70, 79]
def sQUERY_STRING : Bytes := [81, 85, 69, 82, 89, 95, 83, 84, 82, 73, 78, 71]
def sCONTENT_LENGTH : Bytes := [67, 79, 78, 84, 69, 78, 84, 95, 76, 69, 78, 71, 84, 72]
def sCONTENT_TYPE : Bytes := [67, 79, 78, 84, 69, 78, 84, 95, 84, 89, 80, 69]
def sHTTP_ : Bytes := [72, 84, 84, 80, 95]
def sHTTP_CONNECTION : Bytes := [72, 84, 84, 80, 95, 67, 79, 78, 78, 69, 67, 84, 73, 79, 78]

/-- the application saw exactly the request the peer encoded -/
def viewOk (r : AbsReq) (v : ObsView) : Bool :=
  -- looking a variable up by name gives what the `getenv()` map lists (no duplicate names in a well-formed request)
  v.names == v.env &&
  lookupD v.env sREQUEST_METHOD == r.method &&
  lookupD v.env sSCRIPT_NAME == r.script &&
  lookupD v.env sPATH_INFO == r.path &&
  lookupD v.env sQUERY_STRING == r.query &&
  r.hdrs.all (fun kv => v.env.contains kv) &&
  -- no header variable the peer did not send
  v.env.all (fun kv =>
    !(startsWith sHTTP_ kv.1 || kv.1 == sCONTENT_TYPE) || kv.1 == sHTTP_CONNECTION || r.hdrs.contains kv) &&
  (r.body.isEmpty || lookupD v.env sCONTENT_LENGTH == decimal r.body.length) &&
  v.get == sortMulti r.get &&
  v.post == (if r.rawFilter then [] else sortMulti r.post) &&
  v.cookies == (r.cookies.foldl (fun m kv => mapInsert kv.1 kv.2 m) []).map (fun kv => (kv.1, kv.2, [], [])) &&
  v.body == r.body

/-- observables of one connection (harness) next to what the decoder specification says the
stream contains -/
structure C02Obs where
  /-- an exception left `service::run()` -/
  exc : Bool
  /-- the probe on a fresh connection afterwards was answered correctly, by exactly one handler call -/
  probeOk : Bool
  /-- the server closed the connection after the peer half-closed (not applicable after a peer reset) -/
  closed : Bool
  reset : Bool
  /-- handler calls before the content / on ready requests, filter error notifications -/
  pre : Nat
  ready : Nat
  onError : Nat
  /-- `on_end_of_content` notifications of the filter -/
  eoc : Nat
  /-- answers seen on the wire: number of 200 answers, number of error answers, all well framed -/
  n200 : Nat
  nErr : Nat
  framed : Bool
  /-- from the decoder specification on the same bytes: complete well-formed requests, requests for
  which the early filter call is due, whether the specification itself hit undefined behaviour -/
  specApps : Nat
  specPre : Nat
  specCrash : Bool
deriving Repr

/-- "no memory-unsafe operation, event loop keeps running, other connections still answered, offending
connection answered with an error or closed, application sees a request at most once" — observable part -/
def c02ok (o : C02Obs) : Bool :=
  !o.exc && !o.specCrash && o.probeOk && (o.reset || o.closed) &&
  o.ready ≤ o.specApps && o.pre ≤ o.specPre &&
  -- each early-called filter is told at most one of: upload failed / content complete (C02 `on_error_at_most_once`)
  o.onError + o.eoc ≤ o.pre && o.eoc ≤ o.ready &&
  (o.reset || (o.n200 == o.ready && o.framed))

/-- observables of one connection to the service that is configured with `forwarding.rules` -/
structure FwdObs where
  exc : Bool
  probeOk : Bool
  /-- the server closed the connection (after the relayed answer, after the peer's half-close, or because the backend
  cannot be reached) -/
  closed : Bool
  reset : Bool
  /-- a well-formed request for a backend that is up, from a peer that waits for the answer: it must be answered -/
  expectAnswer : Bool
  answered : Bool
deriving Repr

/-- forwarded requests: whatever `CONTENT_LENGTH` claims and whether or not the backend is up, nothing leaves the event
loop, other connections are still served, the connection is closed; a well-formed request to a live backend is answered -/
def fwdOk (o : FwdObs) : Bool :=
  !o.exc && o.probeOk && (o.reset || o.closed) && (!o.expectAnswer || o.answered)

end Cppcms.C01.Spec
