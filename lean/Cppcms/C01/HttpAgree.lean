import Cppcms.C01.HttpConnRT
import Cppcms.C01.StringMap
/-!
# C01 — the embedded HTTP server delivers what a gateway would send over SCGI / FastCGI

`HttpPeer.envPairs`: the CGI variables the embedded server derives from the peer's request, in the order it adds
them.  The head it hands to the request layer (`HttpPeer.head`) is `Head.ofEnv` of exactly these variables
(when no name occurs twice), i.e. what the SCGI and FastCGI front-ends hand over when a gateway sends these pairs.
-/
namespace Cppcms.C01
open Cppcms

def fieldPair (f : HttpField) : Bytes × Bytes :=
  let n := canonName f.name
  if n == bs Gen.hdrContentLength || n == bs Gen.hdrContentType then (n, f.value) else (bs Gen.hdrPrefix ++ n, f.value)

def HttpPeer.envPairs (cfg : HttpCfg) (q : HttpPeer) : List (Bytes × Bytes) :=
  [(bs Gen.env_SERVER_SOFTWARE, cfg.software), (bs Gen.env_SERVER_NAME, cfg.serverName),
   (bs Gen.env_SERVER_PORT, cfg.port), (bs Gen.env_GATEWAY_INTERFACE, bs Gen.envGateway),
   (bs Gen.env_SERVER_PROTOCOL, q.proto)] ++ q.fields.map fieldPair ++
  [(bs Gen.env_REQUEST_METHOD, q.method), (bs Gen.env_REMOTE_HOST, cfg.remote), (bs Gen.env_REMOTE_ADDR, cfg.remote)] ++
  (match q.query with | none => [] | some s => [(bs Gen.env_QUERY_STRING, s)]) ++
  (if q.script.isEmpty then [] else [(bs Gen.env_SCRIPT_NAME, q.script)]) ++
  [(bs Gen.env_PATH_INFO, pctValue q.path)]

theorem addAll_append (e : Env) (a b : List (Bytes × Bytes)) : (e.addAll a).addAll b = e.addAll (a ++ b) := by
  simp [Env.addAll, List.foldl_append]

theorem addAll_one (e : Env) (k v : Bytes) : e.add k v = e.addAll [(k, v)] := rfl

theorem addField_env (r : HttpReq) (f : HttpField) : (r.addField f).env = r.env.addAll [fieldPair f] := by
  unfold HttpReq.addField fieldPair
  simp only
  by_cases h1 : (canonName f.name == bs Gen.hdrContentLength) = true
  · simp [h1, Env.addAll]
  · by_cases h2 : (canonName f.name == bs Gen.hdrContentType) = true
    · simp [h1, h2, Env.addAll]
    · simp [h1, h2, Env.addAll]

theorem foldl_addField_env : ∀ (fs : List HttpField) (r : HttpReq),
    (fs.foldl HttpReq.addField r).env = r.env.addAll (fs.map fieldPair) := by
  intro fs
  induction fs with
  | nil => intro r; rfl
  | cons f t ih =>
    intro r
    simp only [List.foldl_cons, List.map_cons]
    rw [ih, addField_env, addAll_append]
    rfl

/-- the environment of the head is the peer's variables added in order -/
theorem head_env (cfg : HttpCfg) (q : HttpPeer) : (q.head cfg).env = Env.empty.addAll (q.envPairs cfg) := by
  unfold HttpPeer.head HttpPeer.regs HttpPeer.envPairs
  simp only [foldl_addField_env]
  cases q.query <;> cases q.script.isEmpty <;>
    simp only [httpEnv0, addAll_one, addAll_append, Bool.false_eq_true, if_false, if_true, List.append_assoc,
      List.cons_append, List.nil_append, List.append_nil]

/-- last value a key gets in a list of assignments -/
def lastVal (k : Bytes) (l : List (Bytes × Bytes)) (d : Bytes) : Bytes :=
  l.foldl (fun acc kv => if kv.1 == k then kv.2 else acc) d

def Distinct (l : List (Bytes × Bytes)) : Prop := ∀ a ∈ l, ∀ b ∈ l, a.1 = b.1 → a = b

theorem env_get_distinct (adds : List (Bytes × Bytes)) (hd : Distinct adds) (k v : Bytes) (h : (k, v) ∈ adds) :
    (Env.empty.addAll adds).get? k = some v := by
  rw [← get_after_adds (fun _ => 0) adds k]
  exact get_distinct _ adds k v hd h

theorem env_get_absent (adds : List (Bytes × Bytes)) (k : Bytes) (h : ∀ e ∈ adds, e.1 ≠ k) :
    (Env.empty.addAll adds).get? k = none := by
  rw [← get_after_adds (fun _ => 0) adds k]
  exact get_absent _ adds k h

/-- a key's value in a duplicate-free list: by look-up, or by "last assignment wins" — the same -/
theorem getSafe_lastVal (adds : List (Bytes × Bytes)) (hd : Distinct adds) (k : Bytes) :
    (Env.empty.addAll adds).getSafe k = lastVal k adds [] := by
  unfold Env.getSafe
  by_cases hex : ∃ v, (k, v) ∈ adds
  · obtain ⟨v, hv⟩ := hex
    rw [env_get_distinct adds hd k v hv]
    simp only [Option.getD_some]
    -- every assignment to `k` in the list assigns `v`
    have : ∀ (l : List (Bytes × Bytes)) (d : Bytes), (∀ e ∈ l, e.1 = k → e.2 = v) → (d = v ∨ (k, v) ∈ l → lastVal k l d = v) := by
      intro l
      induction l with
      | nil => intro d _ h; rcases h with h | h; exact h; simp at h
      | cons e t ih =>
        intro d hall h
        simp only [lastVal, List.foldl_cons]
        by_cases hek : (e.1 == k) = true
        · simp only [hek, if_true]
          have : e.2 = v := hall e (by simp) (by simpa using hek)
          exact ih e.2 (fun x hx => hall x (by simp [hx])) (Or.inl this)
        · simp only [hek, Bool.false_eq_true, if_false]
          refine ih d (fun x hx => hall x (by simp [hx])) ?_
          rcases h with h | h
          · exact Or.inl h
          · simp only [List.mem_cons] at h
            rcases h with h | h
            · exfalso; apply hek; rw [← h]; simp
            · exact Or.inr h
    refine (this adds [] ?_ (Or.inr hv)).symm
    intro e he hek
    have := hd e he (k, v) hv hek
    rw [this]
  · have hab : ∀ e ∈ adds, e.1 ≠ k := by
      intro e he hek
      exact hex ⟨e.2, by rw [← hek]; exact he⟩
    rw [env_get_absent adds k hab]
    simp only [Option.getD_none]
    have : ∀ (l : List (Bytes × Bytes)) (d : Bytes), (∀ e ∈ l, e.1 ≠ k) → lastVal k l d = d := by
      intro l
      induction l with
      | nil => intro d _; rfl
      | cons e t ih =>
        intro d h
        have he : (e.1 == k) = false := by simpa using h e (by simp)
        simp only [lastVal, List.foldl_cons, he, Bool.false_eq_true, if_false]
        exact ih d (fun x hx => h x (by simp [hx]))
    exact (this adds [] hab).symm

theorem lastVal_append (k : Bytes) (a b : List (Bytes × Bytes)) (d : Bytes) :
    lastVal k (a ++ b) d = lastVal k b (lastVal k a d) := by
  simp [lastVal, List.foldl_append]

theorem lastVal_cons (k k' v : Bytes) (l : List (Bytes × Bytes)) (d : Bytes) :
    lastVal k ((k', v) :: l) d = lastVal k l (if k' == k then v else d) := rfl

theorem lastVal_nil (k d : Bytes) : lastVal k [] d = d := rfl

theorem fieldPair_key (f : HttpField) :
    (fieldPair f).1 = bs Gen.hdrContentLength ∨ (fieldPair f).1 = bs Gen.hdrContentType ∨
    ∃ n, (fieldPair f).1 = bs Gen.hdrPrefix ++ n := by
  unfold fieldPair
  simp only
  by_cases h1 : (canonName f.name == bs Gen.hdrContentLength) = true
  · left; simp only [h1, Bool.true_or, if_true]; simpa using h1
  · by_cases h2 : (canonName f.name == bs Gen.hdrContentType) = true
    · right; left; simp only [h2, Bool.or_true, if_true]; simpa using h2
    · right; right; exact ⟨canonName f.name, by simp [h1, h2]⟩

/-- a key that is neither `CONTENT_LENGTH`, `CONTENT_TYPE` nor starts with `H` is not set by a header field -/
theorem lastVal_fields_other (k : Bytes) (h1 : k ≠ bs Gen.hdrContentLength) (h2 : k ≠ bs Gen.hdrContentType)
    (h3 : k.head? ≠ some 72) (fs : List HttpField) (d : Bytes) : lastVal k (fs.map fieldPair) d = d := by
  induction fs generalizing d with
  | nil => rfl
  | cons f t ih =>
    simp only [List.map_cons]
    rw [show fieldPair f = ((fieldPair f).1, (fieldPair f).2) from rfl, lastVal_cons]
    have : ((fieldPair f).1 == k) = false := by
      rcases fieldPair_key f with h | h | ⟨n, h⟩
      · rw [h]; simpa using fun e => h1 e.symm
      · rw [h]; simpa using fun e => h2 e.symm
      · rw [h]
        simp only [beq_eq_false_iff_ne, ne_eq]
        intro e
        apply h3
        rw [← e]
        rfl
    simp only [this, Bool.false_eq_true, if_false]
    exact ih d

/-- `Content-Type` / `Content-Length` registers of the embedded server = last assignment among the fields -/
theorem foldl_addField_ct : ∀ (fs : List HttpField) (r : HttpReq),
    (fs.foldl HttpReq.addField r).contentType = lastVal (bs Gen.hdrContentType) (fs.map fieldPair) r.contentType := by
  intro fs
  induction fs with
  | nil => intro r; rfl
  | cons f t ih =>
    intro r
    simp only [List.foldl_cons, List.map_cons]
    rw [ih, show fieldPair f = ((fieldPair f).1, (fieldPair f).2) from rfl, lastVal_cons]
    congr 1
    unfold HttpReq.addField fieldPair
    simp only
    by_cases h1 : (canonName f.name == bs Gen.hdrContentLength) = true
    · have : canonName f.name = bs Gen.hdrContentLength := by simpa using h1
      simp only [h1, Bool.true_or, if_true, this]
      rfl
    · by_cases h2 : (canonName f.name == bs Gen.hdrContentType) = true
      · have : canonName f.name = bs Gen.hdrContentType := by simpa using h2
        have hne : ¬ (bs Gen.hdrContentType = bs Gen.hdrContentLength) := by decide
        simp [h1, h2, this, hne]
      · have hne : (bs Gen.hdrPrefix ++ canonName f.name == bs Gen.hdrContentType) = false := by
          simp only [beq_eq_false_iff_ne, ne_eq]
          intro e
          have := congrArg List.head? e
          simp [bs, Gen.hdrPrefix, Gen.hdrContentType] at this
        simp [h1, h2, hne]

def clOf (v : Bytes) : Int := if v.isEmpty then 0 else atoll v

theorem foldl_addField_cl : ∀ (fs : List HttpField) (r : HttpReq) (v0 : Bytes), r.contentLength = clOf v0 →
    (fs.foldl HttpReq.addField r).contentLength = clOf (lastVal (bs Gen.hdrContentLength) (fs.map fieldPair) v0) := by
  intro fs
  induction fs with
  | nil => intro r v0 h; exact h
  | cons f t ih =>
    intro r v0 h
    simp only [List.foldl_cons, List.map_cons]
    rw [show fieldPair f = ((fieldPair f).1, (fieldPair f).2) from rfl, lastVal_cons]
    apply ih
    unfold HttpReq.addField fieldPair
    simp only
    by_cases h1 : (canonName f.name == bs Gen.hdrContentLength) = true
    · have : canonName f.name = bs Gen.hdrContentLength := by simpa using h1
      simp [h1, this, clOf]
    · by_cases h2 : (canonName f.name == bs Gen.hdrContentType) = true
      · have : canonName f.name = bs Gen.hdrContentType := by simpa using h2
        have hne : (bs Gen.hdrContentType == bs Gen.hdrContentLength) = false := by decide
        simp [h1, h2, this, hne, h]
      · have hne : (bs Gen.hdrPrefix ++ canonName f.name == bs Gen.hdrContentLength) = false := by
          simp only [beq_eq_false_iff_ne, ne_eq]
          intro e
          have := congrArg List.head? e
          simp [bs, Gen.hdrPrefix, Gen.hdrContentLength] at this
        simp [h1, h2, hne, h]

/-- the look-ups of `Head.ofEnv` on the peer's variables -/
theorem lastVal_envPairs (cfg : HttpCfg) (q : HttpPeer) (k : Bytes) (h1 : k ≠ bs Gen.hdrContentLength)
    (h2 : k ≠ bs Gen.hdrContentType) (h3 : k.head? ≠ some 72) :
    lastVal k (q.envPairs cfg) [] =
      lastVal k ([(bs Gen.env_SERVER_SOFTWARE, cfg.software), (bs Gen.env_SERVER_NAME, cfg.serverName),
        (bs Gen.env_SERVER_PORT, cfg.port), (bs Gen.env_GATEWAY_INTERFACE, bs Gen.envGateway),
        (bs Gen.env_SERVER_PROTOCOL, q.proto),
        (bs Gen.env_REQUEST_METHOD, q.method), (bs Gen.env_REMOTE_HOST, cfg.remote), (bs Gen.env_REMOTE_ADDR, cfg.remote)] ++
        (match q.query with | none => [] | some s => [(bs Gen.env_QUERY_STRING, s)]) ++
        (if q.script.isEmpty then [] else [(bs Gen.env_SCRIPT_NAME, q.script)]) ++
        [(bs Gen.env_PATH_INFO, pctValue q.path)]) [] := by
  unfold HttpPeer.envPairs
  simp only [lastVal_append, lastVal_fields_other k h1 h2 h3]
  rfl

theorem lastVal_envPairs_hdr (cfg : HttpCfg) (q : HttpPeer) (k : Bytes)
    (hk : k = bs Gen.hdrContentLength ∨ k = bs Gen.hdrContentType) :
    lastVal k (q.envPairs cfg) [] = lastVal k (q.fields.map fieldPair) [] := by
  unfold HttpPeer.envPairs
  simp only [lastVal_append]
  rcases hk with rfl | rfl <;> cases q.query <;> cases q.script.isEmpty <;>
    simp (config := { decide := true }) [lastVal_cons, lastVal_nil]

/-- **the head the embedded server hands over is `Head.ofEnv` of the variables it derived** (no name twice) -/
theorem head_ofEnv_http (cfg : HttpCfg) (q : HttpPeer) (hd : Distinct (q.envPairs cfg)) :
    Head.ofEnv (Env.empty.addAll (q.envPairs cfg)) = q.head cfg := by
  have hs : lastVal (bs Gen.env_SCRIPT_NAME) (q.envPairs cfg) [] = q.script := by
    rw [lastVal_envPairs cfg q _ (by decide) (by decide) (by decide)]
    cases q.query <;> cases hse : q.script.isEmpty <;>
      simp (config := { decide := true }) [lastVal_append, lastVal_cons, lastVal_nil]
    all_goals (have : q.script = [] := by simpa using hse); rw [this]
  have hp : lastVal (bs Gen.env_PATH_INFO) (q.envPairs cfg) [] = pctValue q.path := by
    rw [lastVal_envPairs cfg q _ (by decide) (by decide) (by decide)]
    cases q.query <;> cases q.script.isEmpty <;>
      simp (config := { decide := true }) [lastVal_append, lastVal_cons, lastVal_nil]
  have hq' : lastVal (bs Gen.env_QUERY_STRING) (q.envPairs cfg) [] = q.query.getD [] := by
    rw [lastVal_envPairs cfg q _ (by decide) (by decide) (by decide)]
    cases q.query <;> cases q.script.isEmpty <;>
      simp (config := { decide := true }) [lastVal_append, lastVal_cons, lastVal_nil]
  have hct : lastVal (bs Gen.hdrContentType) (q.envPairs cfg) [] = (q.regs cfg).contentType := by
    rw [lastVal_envPairs_hdr cfg q _ (Or.inr rfl)]
    unfold HttpPeer.regs
    rw [foldl_addField_ct]
  have hcl : clOf (lastVal (bs Gen.hdrContentLength) (q.envPairs cfg) []) = (q.regs cfg).contentLength := by
    rw [lastVal_envPairs_hdr cfg q _ (Or.inl rfl)]
    unfold HttpPeer.regs
    rw [foldl_addField_cl q.fields _ [] rfl]
  unfold Head.ofEnv
  simp only [getSafe_lastVal _ hd, hs, hp, hq', hct]
  have := hcl
  unfold clOf at this
  simp only [this]
  rw [← head_env]
  rfl

end Cppcms.C01
