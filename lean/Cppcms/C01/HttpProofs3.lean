import Cppcms.C01.HttpProofs2
/-! HTTP: header phase over the read-ahead buffer = header phase over the stream (within the 16 KiB
cap); the whole keep-alive connection. -/
namespace Cppcms.C01
open Cppcms

variable (cfg : HttpCfg)

/-- header phase over a plain byte stream: result and unread rest; end of stream = `eof` -/
def hdrFlat (r : HttpReq) (s : Bytes) : HttpHdrRes × Bytes :=
  match hdrLoopC cfg r s with
  | .fin res rest => (res, rest)
  | .more _ => (.done (.aborted .eof false false), [])

/-- bytes of the stream the header phase consumes -/
def hdrSpan (r : HttpReq) (s : Bytes) : Nat := s.length - (hdrFlat cfg r s).2.length

def HttpSt.view (st : HttpSt) : Bytes := st.rest ++ st.segs.flatten

theorem hdrFlat_rest_le (r : HttpReq) (s : Bytes) (hi : PInv r.ps) : (hdrFlat cfg r s).2.length ≤ s.length := by
  have := hdrLoopC_append cfg [] (mu r.ps s) r s rfl hi
  unfold hdrFlat
  cases h : hdrLoopC cfg r s with
  | more r' => simp
  | fin res rest => rw [h] at this; simpa using this.2

theorem find_nonempty_none {segs : Segs} (h : segs.find? (!·.isEmpty) = none) : segs.flatten = [] := by
  induction segs with
  | nil => rfl
  | cons s t ih =>
    simp only [List.find?_cons] at h
    split at h
    · simp at h
    · rename_i hs
      have : s = [] := by simpa using hs
      simp [this, ih h]

theorem find_nonempty_some {segs : Segs} {s : Bytes} (h : segs.find? (!·.isEmpty) = some s) :
    s ≠ [] ∧ segs.flatten ≠ [] := by
  induction segs with
  | nil => simp at h
  | cons a t ih =>
    simp only [List.find?_cons] at h
    split at h
    · rename_i ha
      simp only [Option.some.injEq] at h
      subst h
      have : a ≠ [] := by simpa using ha
      exact ⟨this, by simp [this]⟩
    · obtain ⟨h1, h2⟩ := ih h
      exact ⟨h1, by simp [h2]⟩

/-- `httpFill` keeps the stream and reports how many bytes it put in front of the parser -/
theorem httpFill_spec (st : HttpSt) :
    match httpFill st with
    | none => st.view = []
    | some (n, st') => st'.view = st.view ∧ n = st'.rest.length ∧ st'.rest ≠ [] ∧
        st'.segs.flatten.length + (if st.rest.isEmpty then 1 else 0) ≤ st.segs.flatten.length := by
  unfold httpFill
  by_cases hr : st.rest.isEmpty
  · simp only [hr, if_true]
    have hrest : st.rest = [] := by simpa using hr
    cases hf : st.segs.find? (!·.isEmpty) with
    | none => simp [HttpSt.view, hrest, find_nonempty_none hf]
    | some sg =>
      obtain ⟨hsg, hne⟩ := find_nonempty_some hf
      simp only
      have hcap : 0 < max st.cap (min sg.length Gen.httpReadCap) := by
        have : 0 < sg.length := by cases sg with | nil => exact absurd rfl hsg | cons _ _ => simp
        have : 0 < Gen.httpReadCap := by decide
        omega
      cases hrs : readSome (max st.cap (min sg.length Gen.httpReadCap)) st.segs with
      | none => exact absurd (readSome_none hrs) hne
      | some p =>
        obtain ⟨got, segs'⟩ := p
        obtain ⟨hg, _, hcat⟩ := readSome_some hcap hrs
        simp only
        refine ⟨by simp [HttpSt.view, hrest, hcat], trivial, hg, ?_⟩
        have : got.length + segs'.flatten.length = st.segs.flatten.length := by rw [← hcat]; simp
        have : 0 < got.length := by cases got with | nil => exact absurd rfl hg | cons _ _ => simp
        omega
  · simp only [hr, if_false]
    have : st.rest ≠ [] := by simpa using hr
    exact ⟨rfl, rfl, this, by simp⟩

/-- **Header phase**: as long as the header section ends within the 16 KiB cap (counted from the
beginning of the request), `some_headers_data_read` over the read-ahead buffer and arbitrary reads
computes what the header loop computes on the concatenated stream, and leaves exactly the unread
rest of the stream in (buffer ++ socket). -/
theorem httpHeaders_eq_flat : ∀ (fuel total : Nat) (r : HttpReq) (st : HttpSt), PInv r.ps →
    st.segs.flatten.length + 2 + (if st.rest.isEmpty then 0 else 1) ≤ fuel →
    total + hdrSpan cfg r st.view ≤ Gen.httpHeaderCap →
    (httpHeaders cfg fuel total r st).1 = (hdrFlat cfg r st.view).1 ∧
    (httpHeaders cfg fuel total r st).2.view = (hdrFlat cfg r st.view).2 := by
  intro fuel
  induction fuel with
  | zero => intro total r st _ hf _; omega
  | succ fuel ih =>
    intro total r st hi hf hcap
    unfold httpHeaders
    have hfill := httpFill_spec st
    cases hfl : httpFill st with
    | none =>
      rw [hfl] at hfill
      simp only at hfill ⊢
      rw [hfill]
      have : hdrFlat cfg r [] = (.done (.aborted .eof false false), []) := by
        unfold hdrFlat
        rw [hdrLoopC_unfold]
        simp [parserRun, hi.under]
      rw [this]
      exact ⟨rfl, rfl⟩
    | some p =>
      obtain ⟨n, st1⟩ := p
      rw [hfl] at hfill
      simp only at hfill ⊢
      obtain ⟨hview, hn, hne, hlen⟩ := hfill
      rw [hdrLoop_eq_C cfg _ r st1.rest (by unfold mu; split <;> omega)]
      have happ := hdrLoopC_append cfg st1.segs.flatten (mu r.ps st1.rest) r st1.rest rfl hi
      have hv1 : st1.view = st1.rest ++ st1.segs.flatten := rfl
      cases hl : hdrLoopC cfg r st1.rest with
      | fin res rest =>
        rw [hl] at happ
        simp only at happ ⊢
        obtain ⟨ha, _⟩ := happ
        rw [← hview, hv1]
        unfold hdrFlat
        rw [ha]
        exact ⟨rfl, rfl⟩
      | more r' =>
        rw [hl] at happ
        simp only at happ ⊢
        obtain ⟨ha, hi'⟩ := happ
        -- the flat header phase continues in the socket part of the stream
        have hflat : hdrFlat cfg r st.view = hdrFlat cfg r' st1.segs.flatten := by
          rw [← hview, hv1]; unfold hdrFlat; rw [ha]
        have hrl := hdrFlat_rest_le cfg r' st1.segs.flatten hi'
        have hspan : hdrSpan cfg r st.view = n + hdrSpan cfg r' st1.segs.flatten := by
          unfold hdrSpan
          rw [hflat, ← hview, hv1, List.length_append, ← hn]
          omega
        have hnocap : ¬ (total + n > Gen.httpHeaderCap) := by omega
        simp only [hnocap, if_false]
        have hv2 : ({ st1 with rest := [] } : HttpSt).view = st1.segs.flatten := by simp [HttpSt.view]
        have := ih (total + n) r' { st1 with rest := [] } hi'
          (by
            simp only [List.isEmpty_nil, if_true]
            by_cases hre : st.rest.isEmpty
            · rw [if_pos hre] at hlen hf; omega
            · rw [if_neg hre] at hlen hf; omega)
          (by rw [hv2]; omega)
        rw [hv2] at this
        rw [hflat]
        exact this

/-! ## content and the keep-alive connection -/

theorem httpReadSome_stream : StreamReader httpReadSome HttpSt.view where
  eof := by
    intro want st h
    have h1 : st.rest = [] := by
      unfold HttpSt.view at h
      exact (List.append_eq_nil_iff.mp h).1
    have h2 : st.segs.flatten = [] := by
      unfold HttpSt.view at h
      exact (List.append_eq_nil_iff.mp h).2
    simp [httpReadSome, h1, readSome_flatten_nil h2]
  some := by
    intro want st hw h
    unfold httpReadSome
    by_cases hr : st.rest.isEmpty
    · have h1 : st.rest = [] := by simpa using hr
      have h2 : st.segs.flatten ≠ [] := by
        intro h0; apply h; simp [HttpSt.view, h1, h0]
      simp only [hr, Bool.not_true, Bool.false_eq_true, if_false]
      cases hrs : readSome want st.segs with
      | none => exact absurd (readSome_none hrs) h2
      | some p =>
        obtain ⟨g, r⟩ := p
        obtain ⟨a, b, c⟩ := readSome_some hw hrs
        exact ⟨g, _, rfl, a, b, by simp [HttpSt.view, h1, c]⟩
    · have h1 : st.rest ≠ [] := by simpa using hr
      simp only [hr, Bool.not_false, if_true]
      refine ⟨_, _, rfl, ?_, ?_, ?_⟩
      · intro h0
        have : (st.rest.take want).length = 0 := by rw [h0]; rfl
        simp at this
        rcases this with h3 | h3
        · omega
        · exact h1 h3
      · simp; omega
      · simp [HttpSt.view, ← List.append_assoc]

/-- HTTP connection over a plain byte stream.  `none`: some request's header section does not end
within the 16 KiB cap; the code's answer then depends on where the reads fall (see `design.d/C01.md`). -/
def httpFlatConn (lim : Limits) : Nat → List Bool → Bytes → Option (List Outcome)
  | 0, _, _ => some [.crash "out of fuel"]
  | fuel + 1, hints, s =>
    if hdrSpan cfg { env := httpEnv0 cfg } s > Gen.httpHeaderCap then none
    else match hdrFlat cfg { env := httpEnv0 cfg } s with
      | (.done o, _) => some [o]
      | (.head h is11, rest) =>
        let o := reqOutcome lim h rest
        if isApp o.1 && httpKeep h is11 (hints.headD true) then (httpFlatConn lim fuel hints.tail o.2).map (o.1 :: ·)
        else some [o.1]

theorem httpStreamFuel_ok (st : HttpSt) :
    st.segs.flatten.length + 2 + (if st.rest.isEmpty then 0 else 1) ≤ httpStreamFuel st := by
  unfold httpStreamFuel
  rw [List.length_flatten]
  split
  · omega
  · rename_i h
    have : st.rest ≠ [] := by simpa using h
    have : 0 < st.rest.length := by cases hr : st.rest with | nil => exact absurd hr this | cons _ _ => simp
    omega

/-- the 16 KiB header budget starts afresh for every request of a kept-alive connection -/
theorem httpNextTotal_zero (t0 : Nat) (st : HttpSt) : httpNextTotal cfg t0 st = 0 := by
  simp [httpNextTotal, Gen.httpTotalReadResetPerRequest]

theorem httpConn_eq_flat (lim : Limits) (hb : 0 < lim.bufSize) :
    ∀ (fuel : Nat) (hints : List Bool) (st : HttpSt) (outs : List Outcome),
      httpFlatConn cfg lim fuel hints st.view = some outs → httpConn lim cfg fuel hints 0 st = outs := by
  intro fuel
  induction fuel with
  | zero =>
    intro hints st outs h
    simp only [httpFlatConn, Option.some.injEq] at h
    subst h
    rfl
  | succ fuel ih =>
    intro hints st outs h
    unfold httpFlatConn at h
    unfold httpConn
    split at h
    · simp at h
    · rename_i hcap
      have hcap' : 0 + hdrSpan cfg { env := httpEnv0 cfg } st.view ≤ Gen.httpHeaderCap := by omega
      obtain ⟨h1, h2⟩ := httpHeaders_eq_flat cfg (httpStreamFuel st) 0 { env := httpEnv0 cfg } st pinv_init
        (httpStreamFuel_ok st) hcap'
      cases hh : httpHeaders cfg (httpStreamFuel st) 0 { env := httpEnv0 cfg } st with
      | mk res st1 =>
        rw [hh] at h1 h2
        simp only at h1 h2
        cases hf : hdrFlat cfg { env := httpEnv0 cfg } st.view with
        | mk resF restF =>
          rw [hf] at h h1 h2
          simp only at h h1 h2
          subst h1
          cases res with
          | done o =>
            simp only [Option.some.injEq] at h ⊢
            exact h
          | head hd is11 =>
            simp only at h ⊢
            obtain ⟨r1, r2⟩ := runRequest_stream httpReadSome_stream lim hb hd st1
            rw [h2] at r1 r2
            cases hr : runRequest lim httpReadSome hd st1 with
            | mk o st2 =>
              rw [hr] at r1 r2
              simp only at r1 r2 ⊢
              rw [← r1] at h
              by_cases hk : (isApp o && httpKeep hd is11 (hints.headD true)) = true
              · simp only [hk, if_true] at h ⊢
                have happ : isApp o = true := by
                  simp only [Bool.and_eq_true] at hk; exact hk.1
                rw [← r2 happ] at h
                cases hrec : httpFlatConn cfg lim fuel hints.tail st2.view with
                | none => rw [hrec] at h; simp at h
                | some outs' =>
                  rw [hrec] at h
                  simp only [Option.map_some, Option.some.injEq] at h
                  rw [httpNextTotal_zero, ih hints.tail st2 outs' hrec]
                  exact h
              · simp only [hk, Bool.false_eq_true, if_false, Option.some.injEq] at h ⊢
                exact h

/-- HTTP connection model on a segment list -/
theorem httpRun_eq_flat (lim : Limits) (hb : 0 < lim.bufSize) (hints : List Bool) (segs : Segs) (outs : List Outcome)
    (h : httpFlatConn cfg lim (segs.flatten.length + 2) hints segs.flatten = some outs) :
    httpRun lim cfg hints segs = outs := by
  unfold httpRun
  rw [← List.length_flatten]
  apply httpConn_eq_flat cfg lim hb
  simpa [HttpSt.view] using h

end Cppcms.C01
