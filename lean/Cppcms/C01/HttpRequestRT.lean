import Cppcms.C01.HttpRoundtrip
import Cppcms.C01.Urlenc
import Cppcms.C01.HttpProofs3
/-!
# C01 — HTTP round trip at request level

The peer's request (`HttpPeer`: method, script name, path as percent-encoded pieces, query string, protocol,
header fields with their spelling and blanks) against `httpGotHeader` (request line split,
`parse_single_header` with the canonical CGI names) and `httpProcess` (`process_request`: method check,
`?` split, script-name match, percent-decoding of the path): the head the request layer gets is exactly
what the peer meant (`HttpPeer.head`).
-/
namespace Cppcms.C01
open Cppcms

theorem natsOf_back (l : Bytes) : (natsOf l).reverse.reverse.map UInt8.ofNat = l := by
  simp only [List.reverse_reverse, natsOf, List.map_map]
  induction l with
  | nil => rfl
  | cons a r ih => simp only [List.map_cons, Function.comp, ih]; simp

theorem headerBytes_lineState (ps : Gen.PState) (l : Bytes) : headerBytes (lineState ps l) = l := by
  simp only [headerBytes, lineState]
  exact natsOf_back l

theorem cstr_id (b : Bytes) (h : ∀ x ∈ b, x ≠ 0) : cstr b = b := by
  unfold cstr
  induction b with
  | nil => rfl
  | cons a r ih =>
    have ha := h a (by simp)
    simp only [List.takeWhile_cons, ne_eq, ha, not_false_eq_true, decide_true, if_true]
    rw [ih (fun x hx => h x (by simp [hx]))]

/-! ## the request line -/

theorem gotHeader_reqline (r : HttpReq) (hf : r.first = false) (method uri proto : Bytes)
    (hm : ∀ x ∈ method, x ≠ 32 ∧ x ≠ 0) (hu : ∀ x ∈ uri, x ≠ 32 ∧ x ≠ 0) (hp : ∀ x ∈ proto, x ≠ 0) :
    httpGotHeader { r with ps := lineState r.ps (method ++ 32 :: (uri ++ 32 :: proto)) } =
      some { r with ps := lineState r.ps (method ++ 32 :: (uri ++ 32 :: proto)), first := true, method := method,
                    uri := uri, env := r.env.add (bs Gen.env_SERVER_PROTOCOL) proto, is11 := proto == bs Gen.http11 } := by
  unfold httpGotHeader
  simp only [headerBytes_lineState, hf, Bool.not_false, if_true]
  have s1 : splitAt1 (UInt8.ofNat Gen.reqLineSep1) (method ++ 32 :: (uri ++ 32 :: proto)) = some (method, uri ++ 32 :: proto) :=
    splitAt1_hit 32 _ _ (fun x hx => (hm x hx).1)
  have s2 : splitAt1 (UInt8.ofNat Gen.reqLineSep2) (uri ++ 32 :: proto) = some (uri, proto) :=
    splitAt1_hit 32 _ _ (fun x hx => (hu x hx).1)
  simp only [s1, s2]
  rw [cstr_id method (fun x hx => (hm x hx).2), cstr_id uri (fun x hx => (hu x hx).2), cstr_id proto hp]

/-! ## header fields -/

/-- a header field as the peer writes it: `Name:`, optional blanks, the value -/
structure HttpField where
  name : Bytes
  ws : Bytes := [32]
  value : Bytes
deriving Repr

def HttpField.line (f : HttpField) : Bytes := f.name ++ 58 :: (f.ws ++ f.value)

/-- `parse_single_header`'s CGI spelling of a field name -/
def canonName (n : Bytes) : Bytes := n.map (fun c => UInt8.ofNat (Gen.canonChar c.toNat))

structure HttpField.ok (f : HttpField) : Prop where
  name_tok : ∀ x ∈ f.name, isTockenChar x = true
  name_ne : f.name ≠ []
  ws : ∀ x ∈ f.ws, x = 32 ∨ x = 9
  /-- the value does not start with a blank (leading blanks belong to `ws`) and has no NUL -/
  value_head : f.value = [] ∨ ∃ c t, f.value = c :: t ∧ NotWs c
  value_nul : ∀ x ∈ f.value, x ≠ 0

theorem parseSingleHeader_field (f : HttpField) (hf : f.ok) :
    parseSingleHeader f.line = some (canonName f.name, f.value) := by
  obtain ⟨x, xs, hn⟩ : ∃ x xs, f.name = x :: xs := by
    cases h : f.name with
    | nil => exact absurd h hf.name_ne
    | cons x xs => exact ⟨x, xs, rfl⟩
  have hx := tockenChar_notWs (hf.name_tok x (by simp [hn]))
  have e1 : skipWs f.line = f.line := by
    simp only [HttpField.line, hn, List.cons_append]; exact skipWs_stop x _ hx
  have e2 : tocken f.line = (f.name, 58 :: (f.ws ++ f.value)) :=
    tocken_app _ _ hf.name_tok (Or.inr ⟨58, _, rfl, by decide⟩)
  have e3 : skipWs (58 :: (f.ws ++ f.value)) = 58 :: (f.ws ++ f.value) :=
    skipWs_stop 58 _ ⟨by decide, by decide, by decide⟩
  have e4 : skipWs (f.ws ++ f.value) = f.value := skipWs_blanks f.ws f.value hf.ws hf.value_head
  have hne : f.name.isEmpty = false := by rw [hn]; rfl
  simp only [parseSingleHeader, e1, e2, hne, Bool.false_eq_true, if_false, e3, e4, canonName,
    cstr_id f.value hf.value_nul]

/-- what a header field does to the request registers (`some_headers_data_read`, the `got_header` arm) -/
def HttpReq.addField (r : HttpReq) (f : HttpField) : HttpReq :=
  let name := canonName f.name
  if name == bs Gen.hdrContentLength then
    { r with env := r.env.add name f.value, contentLength := if f.value.isEmpty then 0 else atoll f.value }
  else if name == bs Gen.hdrContentType then { r with env := r.env.add name f.value, contentType := f.value }
  else { r with env := r.env.add (bs Gen.hdrPrefix ++ name) f.value }

theorem gotHeader_field (r : HttpReq) (hfirst : r.first = true) (f : HttpField) (hf : f.ok) :
    httpGotHeader { r with ps := lineState r.ps f.line } =
      some (({ r with ps := lineState r.ps f.line } : HttpReq).addField f) := by
  unfold httpGotHeader
  simp only [headerBytes_lineState, hfirst, Bool.not_true, Bool.false_eq_true, if_false, parseSingleHeader_field f hf]
  unfold HttpReq.addField
  simp only
  split
  · rfl
  · split <;> rfl

theorem addField_first (r : HttpReq) (f : HttpField) : (r.addField f).first = r.first := by
  unfold HttpReq.addField; simp only; split
  · rfl
  · split <;> rfl

theorem addField_ps (r : HttpReq) (f : HttpField) : (r.addField f).ps = r.ps := by
  unfold HttpReq.addField; simp only; split
  · rfl
  · split <;> rfl

/-! ## the whole request head -/

/-- an HTTP request head as the peer means and writes it -/
structure HttpPeer where
  method : Bytes
  /-- the configured script name the URI starts with (`[]`: none) -/
  script : Bytes
  /-- the path after the script name, percent-encoded piece by piece -/
  path : List PctPiece
  query : Option Bytes
  proto : Bytes
  fields : List HttpField
deriving Repr

def HttpPeer.uriPath (q : HttpPeer) : Bytes := q.script ++ pctWire q.path

def HttpPeer.uri (q : HttpPeer) : Bytes :=
  q.uriPath ++ (match q.query with | none => [] | some s => 63 :: s)

def HttpPeer.reqLine (q : HttpPeer) : Bytes := q.method ++ 32 :: (q.uri ++ 32 :: q.proto)

def HttpPeer.lines (q : HttpPeer) : List Bytes := q.reqLine :: q.fields.map HttpField.line

/-- `process_request`'s script-name search on the path part of the URI -/
def scriptHit (cfg : HttpCfg) (path : Bytes) : Option Bytes :=
  cfg.scriptNames.find? fun n =>
    n.length ≤ path.length && path.take n.length == n &&
      (path.length == n.length || path.getD n.length 0 == UInt8.ofNat Gen.scriptBoundary)

/-- the registers after the request line and the header fields -/
def HttpPeer.regs (cfg : HttpCfg) (q : HttpPeer) : HttpReq :=
  q.fields.foldl HttpReq.addField
    { env := (httpEnv0 cfg).add (bs Gen.env_SERVER_PROTOCOL) q.proto, first := true, method := q.method, uri := q.uri,
      is11 := q.proto == bs Gen.http11 }

/-- **what the request layer must get** -/
def HttpPeer.head (cfg : HttpCfg) (q : HttpPeer) : Head :=
  let r := q.regs cfg
  let env := ((r.env.add (bs Gen.env_REQUEST_METHOD) q.method).add (bs Gen.env_REMOTE_HOST) cfg.remote).add
    (bs Gen.env_REMOTE_ADDR) cfg.remote
  let env := match q.query with
    | none => env
    | some s => env.add (bs Gen.env_QUERY_STRING) s
  let env := if q.script.isEmpty then env else env.add (bs Gen.env_SCRIPT_NAME) q.script
  { env := env.add (bs Gen.env_PATH_INFO) (pctValue q.path), scriptName := q.script, pathInfo := pctValue q.path,
    queryString := q.query.getD [], contentType := r.contentType, contentLength := r.contentLength }

structure HttpPeer.ok (cfg : HttpCfg) (q : HttpPeer) : Prop where
  method_tok : ∀ x ∈ q.method, isTockenChar x = true
  method_ne : q.method ≠ []
  script : ∀ x ∈ q.script, x ≠ 32 ∧ x ≠ 0 ∧ x ≠ 63
  /-- what may stay unescaped in the path: not `%`, `+` (meaning), blank, NUL, `?` (structure) -/
  path : ∀ p ∈ q.path, p.ok ∧ p.value ≠ 0 ∧ (∀ b, p = .lit b → b ≠ 32 ∧ b ≠ 63)
  root : q.uriPath.head? = some 47
  query : ∀ s, q.query = some s → ∀ x ∈ s, x ≠ 32 ∧ x ≠ 0
  proto : ∀ x ∈ q.proto, x ≠ 0
  /-- the script name is the one `process_request` finds (`script_hit_default` for the usual configuration) -/
  hit : scriptHit cfg q.uriPath = if q.script.isEmpty then none else some q.script
  fields : ∀ f ∈ q.fields, f.ok

/-- feeding the field lines: the registers, the parser registers apart -/
def feedFields (r : HttpReq) : List HttpField → HttpReq
  | [] => r
  | f :: fs => feedFields (({ r with ps := lineState r.ps f.line } : HttpReq).addField f) fs

theorem feedLines_fields : ∀ (fs : List HttpField) (r : HttpReq), r.first = true → (∀ f ∈ fs, f.ok) →
    feedLines r (fs.map HttpField.line) = some (feedFields r fs) := by
  intro fs
  induction fs with
  | nil => intro r _ _; rfl
  | cons f t ih =>
    intro r hr hok
    simp only [List.map_cons, feedLines, gotHeader_field r hr f (hok f (by simp))]
    exact ih _ (by rw [addField_first]; exact hr) (fun g hg => hok g (by simp [hg]))

/-- the registers `process_request` looks at do not depend on the parser registers -/
def HttpReq.core (r : HttpReq) : HttpReq := { r with ps := {} }

theorem addField_core (r : HttpReq) (f : HttpField) : (r.addField f).core = (r.core.addField f).core := by
  unfold HttpReq.addField HttpReq.core; simp only; split
  · rfl
  · split <;> rfl

theorem core_core (r : HttpReq) : r.core.core = r.core := rfl

theorem foldl_addField_core : ∀ (t : List HttpField) (a b : HttpReq), a.core = b.core →
    (t.foldl HttpReq.addField a).core = (t.foldl HttpReq.addField b).core := by
  intro t
  induction t with
  | nil => intro a b h; exact h
  | cons f t ih =>
    intro a b h
    simp only [List.foldl_cons]
    apply ih
    rw [addField_core a, addField_core b, h]

theorem feedFields_core : ∀ (fs : List HttpField) (r : HttpReq),
    (feedFields r fs).core = (fs.foldl HttpReq.addField r.core).core := by
  intro fs
  induction fs with
  | nil => intro r; rfl
  | cons f t ih =>
    intro r
    simp only [feedFields, List.foldl_cons]
    rw [ih]
    apply foldl_addField_core
    rw [core_core, addField_core]
    rfl

theorem httpProcess_core (cfg : HttpCfg) (r : HttpReq) : httpProcess cfg r = httpProcess cfg r.core := rfl

theorem addField_keeps (r : HttpReq) (f : HttpField) :
    (r.addField f).method = r.method ∧ (r.addField f).uri = r.uri ∧ (r.addField f).is11 = r.is11 := by
  unfold HttpReq.addField; simp only; split
  · exact ⟨rfl, rfl, rfl⟩
  · split <;> exact ⟨rfl, rfl, rfl⟩

theorem foldl_addField_keeps : ∀ (t : List HttpField) (r : HttpReq),
    (t.foldl HttpReq.addField r).method = r.method ∧ (t.foldl HttpReq.addField r).uri = r.uri ∧
    (t.foldl HttpReq.addField r).is11 = r.is11 := by
  intro t
  induction t with
  | nil => intro r; exact ⟨rfl, rfl, rfl⟩
  | cons f t ih =>
    intro r
    obtain ⟨a, b, c⟩ := ih (r.addField f)
    obtain ⟨a', b', c'⟩ := addField_keeps r f
    exact ⟨a.trans a', b.trans b', c.trans c'⟩

theorem pctWire_no (c : UInt8) (hc : c = 63 ∨ c = 32 ∨ c = 0) (ps : List PctPiece)
    (h : ∀ p ∈ ps, ∀ b, p = .lit b → b ≠ c) : ∀ x ∈ pctWire ps, x ≠ c := by
  intro x hx
  simp only [pctWire, List.mem_flatMap] at hx
  obtain ⟨p, hp, hxp⟩ := hx
  cases p with
  | lit b =>
    simp only [PctPiece.wire, List.mem_singleton] at hxp
    subst hxp
    exact h _ hp _ rfl
  | plus =>
    simp only [PctPiece.wire, List.mem_singleton] at hxp
    subst hxp
    rcases hc with rfl | rfl | rfl <;> decide
  | esc b u1 u2 =>
    have hb := b.toNat_lt
    have hd : ∀ n : Fin 16, ∀ u : Bool, hexDigit n.val u ≠ 63 ∧ hexDigit n.val u ≠ 32 ∧ hexDigit n.val u ≠ 0 := by decide
    have h1 := hd ⟨b.toNat / 16, by omega⟩ u1
    have h2 := hd ⟨b.toNat % 16, by omega⟩ u2
    simp only [PctPiece.wire, List.mem_cons, List.not_mem_nil, or_false] at hxp
    rcases hxp with rfl | rfl | rfl
    · rcases hc with rfl | rfl | rfl <;> decide
    · rcases hc with rfl | rfl | rfl
      · exact h1.1
      · exact h1.2.1
      · exact h1.2.2
    · rcases hc with rfl | rfl | rfl
      · exact h2.1
      · exact h2.2.1
      · exact h2.2.2

theorem tockenChar_plain {c : UInt8} (h : isTockenChar c = true) : c ≠ 32 ∧ c ≠ 0 := by
  refine ⟨fun e => ?_, fun e => ?_⟩ <;> (subst e; revert h; decide)

/-- `process_request` on the registers the peer's request leaves: the head the peer meant -/
theorem httpProcess_regs (cfg : HttpCfg) (q : HttpPeer) (hq : q.ok cfg) :
    httpProcess cfg (q.regs cfg) = some (q.head cfg) := by
  obtain ⟨hm, hu, _⟩ := foldl_addField_keeps q.fields
    { env := (httpEnv0 cfg).add (bs Gen.env_SERVER_PROTOCOL) q.proto, first := true, method := q.method, uri := q.uri,
      is11 := q.proto == bs Gen.http11 }
  have hm' : (q.regs cfg).method = q.method := hm
  have hu' : (q.regs cfg).uri = q.uri := hu
  have htok : tocken q.method = (q.method, []) := by
    have := tocken_app q.method [] hq.method_tok (Or.inl rfl)
    rwa [List.append_nil] at this
  have hmne : q.method.isEmpty = false := by
    cases h : q.method with
    | nil => exact absurd h hq.method_ne
    | cons _ _ => rfl
  have hpne : q.uriPath ≠ [] := by
    intro h; have := hq.root; rw [h] at this; cases this
  have hhead : q.uri.head? = some 47 := by
    unfold HttpPeer.uri
    cases h : q.uriPath with
    | nil => exact absurd h hpne
    | cons a t => have := hq.root; rw [h] at this; simpa using this
  have hpathq : ∀ x ∈ q.uriPath, x ≠ 63 := by
    intro x hx
    simp only [HttpPeer.uriPath, List.mem_append] at hx
    rcases hx with hx | hx
    · exact (hq.script x hx).2.2
    · exact pctWire_no 63 (Or.inl rfl) q.path (fun p hp b hb => ((hq.path p hp).2.2 b hb).2) x hx
  have hdrop : q.uriPath.drop q.script.length = pctWire q.path := by
    simp [HttpPeer.uriPath]
  have hdec : urldecode (pctWire q.path) = pctValue q.path := urldecode_pct q.path (fun p hp => (hq.path p hp).1)
  have hnul : ∀ x ∈ pctValue q.path, x ≠ 0 := by
    intro x hx
    simp only [pctValue, List.mem_map] at hx
    obtain ⟨p, hp, rfl⟩ := hx
    exact (hq.path p hp).2.1
  have hscr : cstr q.script = q.script := cstr_id _ (fun x hx => (hq.script x hx).2.1)
  have hhit := hq.hit
  unfold scriptHit at hhit
  have hroot : (q.uri.head? != some (UInt8.ofNat Gen.uriRoot)) = false := by rw [hhead]; rfl
  unfold httpProcess
  simp only [hm', hu', htok, hmne, List.isEmpty_nil, Bool.not_true, Bool.or_false, Bool.false_eq_true, if_false, hroot]
  cases hqq : q.query with
  | none =>
    have hsplit : splitAt1 (UInt8.ofNat Gen.querySep) q.uri = none := by
      unfold HttpPeer.uri; rw [hqq]; simp only [List.append_nil]
      exact splitAt1_miss 63 _ hpathq
    have huri : q.uri = q.uriPath := by unfold HttpPeer.uri; rw [hqq]; simp
    simp only [hsplit]
    rw [huri, hhit]
    cases hse : q.script.isEmpty with
    | true =>
      have hs0 : q.script = [] := by simpa using hse
      simp only [if_true]
      have hup : q.uriPath = pctWire q.path := by simp [HttpPeer.uriPath, hs0]
      simp only [hup, hdec, cstr_id _ hnul, HttpPeer.head, hqq, hse, if_true, hs0, Option.getD_none]
      rfl
    | false =>
      simp only [Bool.false_eq_true, if_false, hdrop, hdec, cstr_id _ hnul, hscr, HttpPeer.head, hqq, hse,
        Option.getD_none]
  | some sq =>
    have hsplit : splitAt1 (UInt8.ofNat Gen.querySep) q.uri = some (q.uriPath, sq) := by
      unfold HttpPeer.uri; rw [hqq]
      exact splitAt1_hit 63 _ _ hpathq
    simp only [hsplit]
    rw [hhit]
    cases hse : q.script.isEmpty with
    | true =>
      have hs0 : q.script = [] := by simpa using hse
      simp only [if_true]
      have hup : q.uriPath = pctWire q.path := by simp [HttpPeer.uriPath, hs0]
      simp only [hup, hdec, cstr_id _ hnul, HttpPeer.head, hqq, hse, if_true, hs0, Option.getD_some]
      rfl
    | false =>
      simp only [Bool.false_eq_true, if_false, hdrop, hdec, cstr_id _ hnul, hscr, HttpPeer.head, hqq, hse,
        Option.getD_some]

/-- the registers after the request line -/
def afterReqLine (r0 : HttpReq) (q : HttpPeer) : HttpReq :=
  { r0 with ps := lineState r0.ps (q.method ++ 32 :: (q.uri ++ 32 :: q.proto)), first := true, method := q.method,
            uri := q.uri, env := r0.env.add (bs Gen.env_SERVER_PROTOCOL) q.proto, is11 := q.proto == bs Gen.http11 }

/-- **HTTP request head round trip** at the per-line code: the request line and the header fields of the peer's
request, fed line by line (`feedLines`, i.e. `got_header` by `got_header`), then `process_request`: the head the
peer meant.  `r0`: the registers after `reset_all()`. -/
theorem http_head_roundtrip (cfg : HttpCfg) (q : HttpPeer) (hq : q.ok cfg) (r0 : HttpReq)
    (hr0 : r0.core = ({ env := httpEnv0 cfg } : HttpReq)) :
    ∃ r', feedLines r0 q.lines = some r' ∧ r'.is11 = (q.proto == bs Gen.http11) ∧
      ∀ ps, httpProcess cfg { r' with ps := ps } = some (q.head cfg) := by
  have hfirst : r0.first = false := by have := congrArg HttpReq.first hr0; exact this
  have hmtok := fun x hx => tockenChar_plain (hq.method_tok x hx)
  have huri : ∀ x ∈ q.uri, x ≠ 32 ∧ x ≠ 0 := by
    intro x hx
    simp only [HttpPeer.uri, HttpPeer.uriPath, List.mem_append] at hx
    rcases hx with (hx | hx) | hx
    · exact ⟨(hq.script x hx).1, (hq.script x hx).2.1⟩
    · exact ⟨pctWire_no 32 (Or.inr (Or.inl rfl)) q.path (fun p hp b hb => ((hq.path p hp).2.2 b hb).1) x hx,
        pctWire_no 0 (Or.inr (Or.inr rfl)) q.path (fun p hp b hb => by
          have := (hq.path p hp).2.1; rw [hb] at this; exact this) x hx⟩
    · cases hqq : q.query with
      | none => rw [hqq] at hx; simp at hx
      | some sq =>
        rw [hqq] at hx
        simp only [List.mem_cons] at hx
        rcases hx with rfl | hx
        · exact ⟨by decide, by decide⟩
        · exact hq.query sq hqq x hx
  have h1 : httpGotHeader { r0 with ps := lineState r0.ps q.reqLine } = some (afterReqLine r0 q) :=
    gotHeader_reqline r0 hfirst q.method q.uri q.proto hmtok huri hq.proto
  have hc := feedFields_core q.fields (afterReqLine r0 q)
  have e2 : (afterReqLine r0 q).core =
      ({ env := (httpEnv0 cfg).add (bs Gen.env_SERVER_PROTOCOL) q.proto, first := true, method := q.method, uri := q.uri,
         is11 := q.proto == bs Gen.http11 } : HttpReq) := by
    have a := congrArg HttpReq.env hr0
    have b := congrArg HttpReq.contentType hr0
    have c := congrArg HttpReq.contentLength hr0
    simp only [HttpReq.core, afterReqLine] at a b c ⊢
    rw [a, b, c]
  refine ⟨feedFields (afterReqLine r0 q) q.fields, ?_, ?_, ?_⟩
  · simp only [HttpPeer.lines, feedLines, h1]
    exact feedLines_fields q.fields _ rfl hq.fields
  · have := congrArg HttpReq.is11 hc
    simp only [HttpReq.core] at this
    rw [this]
    exact (foldl_addField_keeps q.fields _).2.2
  · intro ps
    rw [httpProcess_core]
    have e1 : ({ feedFields (afterReqLine r0 q) q.fields with ps := ps } : HttpReq).core =
        (feedFields (afterReqLine r0 q) q.fields).core := rfl
    rw [e1, hc, e2, ← httpProcess_core]
    exact httpProcess_regs cfg q hq

end Cppcms.C01
