import Cppcms.C01.Request
/-!
# FastCGI front-end (`src/fastcgi_api.cpp`) at buffer level

Record reader over the read-ahead cache (`cache_`, `cache_start_`, `cache_end_`, compaction),
`on_start_request` (version, GET_VALUES, role, keep-conn), PARAMS accumulation, `read_len` /
`parse_pairs`, STDIN reassembly in `async_read_some`, keep-alive loop.
-/
namespace Cppcms.C01
open Cppcms

/-- connection state that survives `reset_all()` -/
structure FcgiSt where
  /-- `cache_[cache_start_ .. cache_end_)` -/
  cache : Bytes := []
  /-- `cache_start_` -/
  start : Nat := 0
  /-- `cache_.size()` -/
  cap : Nat := 0
  segs : Segs
  /-- `body_` owns storage (`capacity() != 0`): `&body_.front()` is not a null reference -/
  bodyAlloc : Bool := false
deriving Repr

/-- `cache_` size after `if(cache_.size() < n) cache_.resize(max(n,16384),0)` -/
def fcgiCap (st : FcgiSt) (n : Nat) : Nat := if st.cap < n then max n Gen.cacheMin else st.cap

/-- state after `memcpy(ptr,&cache_[cache_start_],n); cache_start_+=n` -/
def FcgiSt.consume (st : FcgiSt) (n : Nat) : FcgiSt := { st with cache := st.cache.drop n, start := st.start + n }

/-- state after compaction, resize and one `read_some` that delivered `got` -/
def FcgiSt.refill (st : FcgiSt) (n : Nat) (got : Bytes) (segs' : Segs) : FcgiSt :=
  { st with cache := st.cache ++ got, start := 0, cap := fcgiCap st n, segs := segs' }

/-- `async_read_from_socket(ptr,n,cb)` (+ `on_some_read_from_socket`) for `n > 0`:
the `n` bytes, or the error passed to `cb`.  `none` in the first component flags a read started
with an empty buffer (`&cache_[cache_end_]` at `cache_.size()`).  `fuel` bounds the number of socket reads. -/
def fcgiFill (fuel : Nat) (n : Nat) (st : FcgiSt) : Option (Except Err Bytes) × FcgiSt :=
  if st.cache.length ≥ n then (some (.ok (st.cache.take n)), st.consume n)
  else match fuel with
    | 0 => (some (.error .eof), st)
    | fuel + 1 =>
      -- window moved to the front (both branches of the compaction give cache_start_ = 0)
      let room := fcgiCap st n - st.cache.length
      if room == 0 then (none, st)
      else match readSome room st.segs with
      | none => (some (.error .eof), st.refill n [] [])
      | some (got, segs') => fcgiFill fuel n (st.refill n got segs')

structure FcgiHdr where
  version : Nat
  type : Nat
  requestId : Nat
  contentLength : Nat
  paddingLength : Nat
deriving Repr, DecidableEq, Inhabited

def be16 (b : Bytes) (off : Nat) : Nat := (b.getD off 0).toNat * 256 + (b.getD (off + 1) 0).toNat

/-- `fcgi_header` as laid out in memory + `to_host()` -/
def parseFcgiHdr (b : Bytes) : FcgiHdr :=
  { version := (b.getD Gen.hdrOff_version 0).toNat
    type := (b.getD Gen.hdrOff_type 0).toNat
    requestId := be16 b Gen.hdrOff_request_id
    contentLength := be16 b Gen.hdrOff_content_length
    paddingLength := (b.getD Gen.hdrOff_padding_length 0).toNat }

inductive RecRes
  | err (e : Err)
  | crash (what : String)
  /-- header and the new `body_` (old contents with the record content appended) -/
  | got (h : FcgiHdr) (body : Bytes)
deriving Repr

/-- `async_read_record` / `non_blocking_read_record` (they deliver the same record; the latter only
when it is completely cached): header, then `content_length + padding_length` bytes appended to
`body_`, padding trimmed. -/
def fcgiReadRecord (st : FcgiSt) (body : Bytes) : RecRes × FcgiSt :=
  match fcgiFill (Gen.hdrSize + 1) Gen.hdrSize st with
  | (none, st) => (.crash "read into full cache", st)
  | (some (.error e), st) => (.err e, st)
  | (some (.ok hb), st) =>
    let h := parseFcgiHdr hb
    -- computed in the declared type of `rec_size` (regenerated): a narrow type wraps
    let rec_size := Gen.fcgiRecSizeAsync h.contentLength h.paddingLength
    if rec_size == 0 then (.got h body, st)
    else
      match fcgiFill (rec_size + 1) rec_size { st with bodyAlloc := true } with
      | (none, st) => (.crash "read into full cache", st)
      | (some (.error e), st) => (.err e, st)
      | (some (.ok rb), st) =>
        -- `on_body_read`: `body_.resize(body_.size() - header_.padding_length)` in `size_t`
        if rec_size < h.paddingLength then (.crash "on_body_read: body_.resize(body_.size() - padding_length) wraps", st)
        else (.got h (body ++ rb.take (rec_size - h.paddingLength)), st)

/-- how the protocol state machine gets its records: from the buffer-level connection state
(`bufReader`) or, in the specification, from a plain byte stream (`flatReader`) -/
structure RecReader (σ : Type) where
  read : σ → Bytes → RecRes × σ
  /-- `body_` owns storage -/
  alloc : σ → Bool

def bufReader : RecReader FcgiSt := ⟨fcgiReadRecord, (·.bodyAlloc)⟩

/-! ## name-value pairs -/

/-- `read_len(p,e)`: (length or the failure sentinel, remaining bytes) -/
def fcgiReadLen (p : Bytes) : Nat × Bytes :=
  match p with
  | c :: rest =>
    if c.toNat < Gen.readLenShortBelow then (c.toNat, rest)
    else match p with
      | b3 :: b2 :: b1 :: b0 :: rest4 =>
        if p.length ≥ Gen.readLenLongNeed then (Gen.readLenLong b3.toNat b2.toNat b1.toNat b0.toNat, rest4)
        else (Gen.readLenFail, p)
      | _ => (Gen.readLenFail, p)
  | [] => (Gen.readLenFail, p)

/-- the loop of `parse_pairs`; `trunc = true` for the `pool_.add(p,len)` flavour (C strings) -/
def fcgiPairs (trunc : Bool) : Nat → Bytes → List (Bytes × Bytes) → Bool × List (Bytes × Bytes)
  | 0, _, acc => (true, acc)
  | fuel + 1, p, acc =>
    if p.isEmpty then (true, acc)
    else
      let (nlen, p1) := fcgiReadLen p
      let (vlen, p2) := fcgiReadLen p1
      if nlen == Gen.pairsFailSentinel || vlen == Gen.pairsFailSentinel then (false, acc)
      else if !Gen.pairFitsName p2.length nlen then (false, acc)
      else
        let name := p2.take nlen
        let p3 := p2.drop nlen
        if !Gen.pairFitsValue p3.length vlen then (false, acc)
        else
          let value := p3.take vlen
          let kv := if trunc then (cstr name, cstr value) else (name, value)
          fcgiPairs trunc fuel (p3.drop vlen) (acc ++ [kv])

/-- `add_value` + `add_pair` -/
def fcgiEncLen (n : Nat) : Bytes :=
  if n < 128 then [UInt8.ofNat n]
  else [UInt8.ofNat (128 + n / 16777216 % 128), UInt8.ofNat (n / 65536 % 256), UInt8.ofNat (n / 256 % 256), UInt8.ofNat (n % 256)]

def fcgiAddPair (name value : Bytes) : Bytes := fcgiEncLen name.length ++ fcgiEncLen value.length ++ name ++ value

/-- `async_send_respnse`: (content bytes, declared padding equals the padding actually sent) -/
def fcgiShortReply (body : Bytes) (stalePadding : Nat) : Bytes × Bool :=
  let framed := Gen.replyPaddingReset || body.length % 8 != 0 || stalePadding == 0
  (body, framed)

/-! ## header phase -/

structure FcgiReq where
  env : Env
  requestId : Nat
  keep : Bool
  /-- FastCGI's own `content_length_` (`<= 0` mapped to 0) -/
  cl : Nat
deriving Repr

inductive HdrRes
  | done (o : Outcome)
  | req (r : FcgiReq)
deriving Repr

/-- `params_record_expected` loop: `h` is the record just read, `body` the accumulated `body_` -/
def fcgiParams {σ : Type} (R : RecReader σ) : Nat → FcgiHdr → Bytes → Nat → σ → Except Outcome Bytes × σ
  | 0, _, _, _, st => (.error (.crash "out of fuel"), st)
  | fuel + 1, h, body, reqId, st =>
    if h.type != Gen.fcgi_params || h.requestId != reqId then (.error (.aborted .violation false false), st)
    else if h.contentLength != 0 then
      if body.length < Gen.paramsLimit then
        match R.read st body with
        | (.err e, st) => (.error (.aborted e false false), st)
        | (.crash w, st) => (.error (.crash w), st)
        | (.got h' body', st) => fcgiParams R fuel h' body' reqId st
      else (.error (.aborted .violation false false), st)
    else (.ok body, st)

/-- `content_length_` as computed in `params_record_expected` -/
def fcgiOwnContentLength (env : Env) : Nat :=
  match env.get? (bs Gen.hdrContentLength) with
  | none => 0
  | some v => if v.isEmpty then 0 else if atoll v ≤ 0 then 0 else (atoll v).toNat

/-- the tail of `params_record_expected` for `content_length_ == 0`: the empty STDIN record is read
as part of the header phase (`stdin_eof_expected`) -/
def fcgiStdinEof {σ : Type} (R : RecReader σ) (r : FcgiReq) (st : σ) (out : List Outcome) :
    List Outcome × Option FcgiReq × σ :=
  match R.read st [] with
  | (.err e, st) => (out ++ [.aborted e false false], none, st)
  | (.crash w, st) => (out ++ [.crash w], none, st)
  | (.got h2 _, st) =>
    if h2.type != Gen.fcgi_stdin || h2.contentLength != 0 then (out ++ [.aborted .violation false false], none, st)
    else (out, some r, st)

/-- the tail of `params_record_expected` once the PARAMS stream ended: `parse_pairs`, `CONTENT_LENGTH` -/
def fcgiAfterParams {σ : Type} (R : RecReader σ) (reqId : Nat) (keep : Bool) (pbody : Bytes) (st : σ) (out : List Outcome) :
    List Outcome × Option FcgiReq × σ :=
  let env := Env.empty.addAll (fcgiPairs true (pbody.length + 1) pbody []).2
  let r : FcgiReq := { env := env, requestId := reqId, keep := keep, cl := fcgiOwnContentLength env }
  if r.cl == 0 then fcgiStdinEof R r st out else (out, some r, st)

/-- `on_start_request` after a BEGIN_REQUEST for the responder role was accepted: PARAMS records,
`parse_pairs`, `CONTENT_LENGTH` -/
def fcgiAfterBegin {σ : Type} (R : RecReader σ) (fuel : Nat) (reqId : Nat) (keep : Bool) (st : σ) (out : List Outcome) :
    List Outcome × Option FcgiReq × σ :=
  match R.read st [] with
  | (.err e, st) => (out ++ [.aborted e false false], none, st)
  | (.crash w, st) => (out ++ [.crash w], none, st)
  | (.got h1 body1, st) =>
    match fcgiParams R fuel h1 body1 reqId st with
    | (.error o, st) => (out ++ [o], none, st)
    | (.ok pbody, st) => fcgiAfterParams R reqId keep pbody st out

/-- answer to `FCGI_GET_VALUES`: `none` = malformed pairs (protocol violation) -/
def fcgiGetValuesReply (concurrency : Bytes) (body : Bytes) : Option Bytes :=
  let (ok, pairs) := fcgiPairs false (body.length + 1) body []
  if !ok then none
  else some (pairs.foldl (fun acc kv =>
    if kv.1 == bs Gen.gvName0 || kv.1 == bs Gen.gvName1 then acc ++ fcgiAddPair kv.1 concurrency
    else if kv.1 == bs Gen.gvName2 then acc ++ fcgiAddPair kv.1 [48]
    else acc) [])

/-- what `on_start_request` does with the first record of a request -/
inductive StartRes
  /-- stop: this outcome ends the connection -/
  | stop (o : Outcome)
  /-- a management reply was written (or the record ignored: `none`); read the next record -/
  | again (reply : Option Outcome)
  /-- BEGIN_REQUEST accepted -/
  | begin (reqId : Nat) (keep : Bool)
deriving Repr

def fcgiOnStart (concurrency : Bytes) (alloc : Bool) (h : FcgiHdr) (body : Bytes) : StartRes :=
  if h.version != Gen.fcgi_version_1 then .stop (.aborted .violation false false)
  else if h.type == Gen.fcgi_get_values then
    if !Gen.pairsEmptyGuard && body.isEmpty && !alloc then .stop (.crash "parse_pairs: &body_.front() of an unallocated vector")
    else match fcgiGetValuesReply concurrency body with
    | none => .stop (.aborted .violation false false)
    | some reply =>
      if !Gen.replyEmptyBodyGuard && reply.isEmpty && !alloc then .stop (.crash "io::buffer(body_): &front() of an unallocated vector")
      else
        let (content, framed) := fcgiShortReply reply h.paddingLength
        .again (some (.mgmt Gen.fcgi_get_values_result content framed))
  else if h.type != Gen.fcgi_begin_request then .again none
  else if body.length != Gen.beginBodySize then .stop (.aborted .violation false false)
  else
    let role := be16 body Gen.beginOff_role
    let keep := (body.getD Gen.beginOff_flags 0).toNat % 2 == Gen.fcgi_keep_conn
    if role != Gen.fcgi_responder then
      let b := List.replicate Gen.unknownRoleAssign.1 (UInt8.ofNat Gen.unknownRoleAssign.2)
      if b.length < Gen.endBodySize then
        -- the end-request body is written through &body_.front(): outside the vector
        .stop (.crash "END_REQUEST body written through front() of a too short vector")
      else
        let b := b.set Gen.endOff_protocol_status (UInt8.ofNat Gen.fcgi_unknown_role)
        let (content, framed) := fcgiShortReply b h.paddingLength
        .again (some (.mgmt Gen.fcgi_end_request content framed))
    else .begin h.requestId keep

/-- `async_read_headers` → `on_start_request` → … until the completion handler is called.
Management replies written on the way are collected in order. -/
def fcgiHeaders {σ : Type} (R : RecReader σ) (concurrency : Bytes) : Nat → σ → List Outcome → List Outcome × Option FcgiReq × σ
  | 0, st, out => (out ++ [.crash "out of fuel"], none, st)
  | fuel + 1, st, out =>
    -- reset_all(): body_.clear()
    match R.read st [] with
    | (.err e, st) => (out ++ [.aborted e false false], none, st)
    | (.crash w, st) => (out ++ [.crash w], none, st)
    | (.got h body, st) =>
      match fcgiOnStart concurrency (R.alloc st) h body with
      | .stop o => (out ++ [o], none, st)
      | .again none => fcgiHeaders R concurrency fuel st out
      | .again (some o) => fcgiHeaders R concurrency fuel st (out ++ [o])
      | .begin reqId keep => fcgiAfterBegin R (fuel + 1) reqId keep st out

/-! ## STDIN -/

structure FcgiBody (σ : Type) where
  st : σ
  /-- `body_`, `body_ptr_`, `read_length_`, `content_length_`, `request_id_` -/
  body : Bytes := []
  ptr : Nat := 0
  readLen : Nat := 0
  cl : Nat
  reqId : Nat

/-- `memcpy(p,&body_[body_ptr_],s); body_ptr_+=s; read_length_+=s;` and the clearing of a consumed `body_`:
the chunk handed out and the new cursor state (the connection state is not touched) -/
def fcgiAdvance {σ : Type} (want : Nat) (b : FcgiBody σ) : Bytes × FcgiBody σ :=
  let s := min want (b.body.length - b.ptr)
  let chunk := (b.body.drop b.ptr).take s
  if b.ptr + s == b.body.length then (chunk, { b with ptr := 0, body := [], readLen := b.readLen + s })
  else (chunk, { b with ptr := b.ptr + s, readLen := b.readLen + s })

/-- the `body_ptr_ < body_.size()` branch of `fastcgi::async_read_some` -/
def fcgiTake {σ : Type} (R : RecReader σ) (want : Nat) (b : FcgiBody σ) : Except Err (Bytes × FcgiBody σ) :=
  let p := fcgiAdvance want b
  if p.2.readLen ≥ p.2.cl then
    match R.read p.2.st p.2.body with
    | (.err e, _) => .error e
    | (.crash _, _) => .error .violation
    | (.got h body', st') =>
      if h.type != Gen.fcgi_stdin || h.requestId != p.2.reqId || h.contentLength != 0 then .error .violation
      else .ok (p.1, { p.2 with st := st', body := body' })
  else .ok p

/-- `fastcgi::async_read_some(p,s,h)` -/
def fcgiReadSome {σ : Type} (R : RecReader σ) (want : Nat) (b : FcgiBody σ) : Except Err (Bytes × FcgiBody σ) :=
  if b.readLen == b.cl then .error .violation
  else if b.ptr < b.body.length then fcgiTake R want b
  else
    match R.read b.st b.body with
    | (.err e, _) => .error e
    | (.crash _, _) => .error .violation
    | (.got h body', st') =>
      if h.type != Gen.fcgi_stdin || h.requestId != b.reqId || h.contentLength == 0 then .error .violation
      else
        let b := { b with st := st', body := body' }
        if b.ptr < b.body.length then fcgiTake R want b else .error .violation

/-! ## the connection -/

/-- one FastCGI connection: requests are served until an error, a request without
`FCGI_KEEP_CONN`, or the end of the stream -/
def fcgiConn {σ : Type} (R : RecReader σ) (lim : Limits) (concurrency : Bytes) : Nat → σ → List Outcome
  | 0, _ => [.crash "out of fuel"]
  | fuel + 1, st =>
    match fcgiHeaders R concurrency (fuel + 1) st [] with
    | (out, none, _) => out
    | (out, some r, st) =>
      let (o, b) := runRequest lim (fcgiReadSome R) (Head.ofEnv r.env) { st := st, cl := r.cl, reqId := r.requestId }
      if isApp o && r.keep then out ++ o :: fcgiConn R lim concurrency fuel b.st
      else out ++ [o]

def streamLen (segs : Segs) : Nat := (segs.map List.length).sum

def fcgiRun (lim : Limits) (concurrency : Bytes) (segs : Segs) : List Outcome :=
  fcgiConn bufReader lim concurrency (streamLen segs + 2) { segs := segs }

end Cppcms.C01
