import Cppcms.C01.Basic
import Cppcms.C01.Gen
/-!
# `cppcms::impl::string_map` (private/string_map.h): the open-addressing table

`Env` (Basic.lean) is the abstract view the front-end models use: the iteration chain and the
order in which entries were put into the current table.  Here is the concrete table — slots,
linear probing with the start/step expressions regenerated from the source, growth by re-insertion —
with the hash function as a parameter, and the theorem that `get` on the table is `Env.get?`:
the value of the entry with that key that went into the current table first (`add` does not
look for an existing key; for distinct keys that is simply "the value added"), `none` for absent keys.
The string pool is only storage (keys and values are modelled as byte strings).
-/
namespace Cppcms.C01
open Cppcms

abbrev Slot := Option (Bytes × Bytes)

/-- walk `pos, step pos, …` (at most `fuel` positions) to the first one where `stop` holds -/
def probe (step : Nat → Nat) (stop : Nat → Bool) : Nat → Nat → Option Nat
  | 0, _ => none
  | f + 1, pos => if stop pos then some pos else probe step stop f (step pos)

/-- `data_[pos]` (`none`: `key == 0`) -/
def slotAt (t : List Slot) (pos : Nat) : Slot := t.getD pos none

def slotEmpty (t : List Slot) (pos : Nat) : Bool := (slotAt t pos).isNone
def slotStops (t : List Slot) (k : Bytes) (pos : Nat) : Bool :=
  match slotAt t pos with
  | none => true
  | some e => e.1 == k

/-- `string_map::insert(d,e,first)` (the slot part): first free slot from `hash % size` -/
def tInsert (h : Bytes → Nat) (t : List Slot) (e : Bytes × Bytes) : List Slot :=
  match probe (Gen.smInsertStep · t.length) (slotEmpty t) t.length (Gen.smInsertStart (h e.1) t.length) with
  | some p => t.set p (some e)
  | none => t

/-- `string_map::get(key)` -/
def tGet (h : Bytes → Nat) (t : List Slot) (k : Bytes) : Option Bytes :=
  match probe (Gen.smGetStep · t.length) (slotStops t k) t.length (Gen.smGetStart (h k) t.length) with
  | some p => (slotAt t p).map (·.2)
  | none => none

/-- the table built by putting `tbl` into `size` empty slots, in order -/
def tBuild (h : Bytes → Nat) (size : Nat) (tbl : List (Bytes × Bytes)) : List Slot :=
  tbl.foldl (tInsert h) (List.replicate size none)

/-- concrete `string_map`: the slots next to the abstract bookkeeping -/
structure SMap where
  slots : List Slot := List.replicate Gen.smInitSize none
  env : Env := {}

/-- `string_map::add(key,value)` -/
def SMap.add (h : Bytes → Nat) (m : SMap) (k v : Bytes) : SMap :=
  let m : SMap :=
    if Gen.smGrow m.env.chain.length m.slots.length then
      { slots := m.env.chain.foldl (tInsert h) (List.replicate (Gen.smNewSize m.slots.length) none),
        env := { chain := m.env.chain.reverse, tbl := m.env.chain, size := m.env.size * 2 } }
    else m
  { slots := tInsert h m.slots (k, v),
    env := { m.env with chain := (k, v) :: m.env.chain, tbl := m.env.tbl ++ [(k, v)] } }

def SMap.get (h : Bytes → Nat) (m : SMap) (k : Bytes) : Option Bytes := tGet h m.slots k

def SMap.ofAdds (h : Bytes → Nat) (adds : List (Bytes × Bytes)) : SMap :=
  adds.foldl (fun m kv => m.add h kv.1 kv.2) {}

/-! ## probing -/

theorem probe_some_stop {step : Nat → Nat} {stop : Nat → Bool} :
    ∀ (f pos p : Nat), probe step stop f pos = some p → stop p = true := by
  intro f
  induction f with
  | zero => intro pos p h; simp [probe] at h
  | succ f ih =>
    intro pos p h
    unfold probe at h
    split at h
    · rename_i hs; simp at h; subst h; exact hs
    · exact ih _ p h

/-- changing `stop` only at positions where it already held, and keeping it at the result, does not
change the result -/
theorem probe_mono {step : Nat → Nat} {stop stop' : Nat → Bool}
    (hle : ∀ q, stop q = false → stop' q = false) :
    ∀ (f pos p : Nat), probe step stop f pos = some p → stop' p = true → probe step stop' f pos = some p := by
  intro f
  induction f with
  | zero => intro pos p h; simp [probe] at h
  | succ f ih =>
    intro pos p h hp
    unfold probe at h ⊢
    by_cases hs : stop pos = true
    · simp only [hs, if_true, Option.some.injEq] at h
      subst h
      simp [hp]
    · have hs' : stop pos = false := by simpa using hs
      simp only [hs', Bool.false_eq_true, if_false] at h
      simp only [hle pos hs', Bool.false_eq_true, if_false]
      exact ih _ p h hp

/-- linear probing visits every residue: it fails only if `stop` holds nowhere -/
theorem probe_none_all {stop : Nat → Bool} (size : Nat) (hs : 0 < size) :
    ∀ (f pos : Nat), probe (Gen.smInsertStep · size) stop f pos = none → ∀ i, i < f → stop ((pos + i) % size) = false ∨ (i = 0 ∧ stop pos = false) := by
  intro f
  induction f with
  | zero => intro pos _ i hi; omega
  | succ f ih =>
    intro pos h i hi
    unfold probe at h
    split at h
    · simp at h
    · rename_i hsp
      have hsp' : stop pos = false := by simpa using hsp
      cases i with
      | zero => right; exact ⟨rfl, hsp'⟩
      | succ j =>
        left
        have := ih (Gen.smInsertStep pos size) h j (by omega)
        have hmod : (Gen.smInsertStep pos size + j) % size = (pos + (j + 1)) % size := by
          simp only [Gen.smInsertStep]
          rw [Nat.add_mod, Nat.mod_mod, ← Nat.add_mod]
          congr 1; omega
        rcases this with h1 | ⟨hj, h1⟩
        · rw [hmod] at h1; exact h1
        · subst hj
          have : (pos + (0 + 1)) % size = Gen.smInsertStep pos size := by simp [Gen.smInsertStep]
          rw [this]; exact h1

theorem probe_finds {stop : Nat → Bool} (size pos q : Nat) (hp : pos < size) (hq : q < size) (hstop : stop q = true) :
    probe (Gen.smInsertStep · size) stop size pos ≠ none := by
  intro hnone
  have hs : 0 < size := by omega
  have hall := probe_none_all size hs size pos hnone
  -- the offset that leads from pos to q
  by_cases hge : pos ≤ q
  · have := hall (q - pos) (by omega)
    have hm : (pos + (q - pos)) % size = q := by
      have : pos + (q - pos) = q := by omega
      rw [this, Nat.mod_eq_of_lt hq]
    rcases this with h1 | ⟨h0, h1⟩
    · rw [hm, hstop] at h1; simp at h1
    · have : q = pos := by omega
      subst this; rw [hstop] at h1; simp at h1
  · have := hall (q + size - pos) (by omega)
    have hm : (pos + (q + size - pos)) % size = q := by
      have : pos + (q + size - pos) = q + size := by omega
      rw [this, Nat.add_mod_right, Nat.mod_eq_of_lt hq]
    rcases this with h1 | ⟨h0, _⟩
    · rw [hm, hstop] at h1; simp at h1
    · omega

/-! ## the table -/

theorem exists_empty : ∀ (t : List Slot), t.countP (·.isSome) < t.length → ∃ q, q < t.length ∧ slotAt t q = none := by
  intro t
  induction t with
  | nil => intro h; simp at h
  | cons a r ih =>
    intro h
    cases a with
    | none => exact ⟨0, by simp, rfl⟩
    | some e =>
      simp only [List.countP_cons, Option.isSome_some, if_true, List.length_cons] at h
      obtain ⟨q, hq, hn⟩ := ih (by omega)
      exact ⟨q + 1, by simp; omega, by simpa [slotAt] using hn⟩

theorem countP_set_none (t : List Slot) (q : Nat) (e : Bytes × Bytes) (hq : q < t.length) (hn : slotAt t q = none) :
    (t.set q (some e)).countP (·.isSome) = t.countP (·.isSome) + 1 := by
  induction t generalizing q with
  | nil => simp at hq
  | cons a r ih =>
    cases q with
    | zero =>
      have : a = none := by simpa [slotAt] using hn
      subst this
      simp
    | succ j =>
      simp only [List.set_cons_succ, List.countP_cons]
      have := ih j (by simpa using hq) (by simpa [slotAt] using hn)
      omega

/-- what `insert` does when the table is not full: the entry goes into an empty slot `q`, the first one
on its probe path -/
theorem tInsert_spec (h : Bytes → Nat) (t : List Slot) (e : Bytes × Bytes) (hfull : t.countP (·.isSome) < t.length) :
    ∃ q, q < t.length ∧ slotAt t q = none ∧ tInsert h t e = t.set q (some e) ∧
      probe (Gen.smInsertStep · t.length) (slotEmpty t) t.length (Gen.smInsertStart (h e.1) t.length) = some q := by
  obtain ⟨q0, hq0, hn0⟩ := exists_empty t hfull
  have hs : 0 < t.length := by omega
  have hstart : Gen.smInsertStart (h e.1) t.length < t.length := by
    simp only [Gen.smInsertStart]; exact Nat.mod_lt _ hs
  have hne := probe_finds (stop := slotEmpty t) t.length _ q0 hstart hq0 (by simp [slotEmpty, hn0])
  cases hp : probe (Gen.smInsertStep · t.length) (slotEmpty t) t.length (Gen.smInsertStart (h e.1) t.length) with
  | none => exact absurd hp hne
  | some q =>
    have hst := probe_some_stop _ _ _ hp
    have hqn : slotAt t q = none := by
      simp only [slotEmpty, Option.isNone_iff_eq_none] at hst; exact hst
    have hql : q < t.length := by
      -- positions on the path are residues
      have : ∀ (f pos p : Nat), pos < t.length → probe (Gen.smInsertStep · t.length) (slotEmpty t) f pos = some p → p < t.length := by
        intro f
        induction f with
        | zero => intro pos p _ h0; simp [probe] at h0
        | succ f ih =>
          intro pos p hpos h0
          unfold probe at h0
          split at h0
          · simp at h0; omega
          · exact ih _ p (by simp only [Gen.smInsertStep]; exact Nat.mod_lt _ hs) h0
      exact this _ _ _ hstart hp
    exact ⟨q, hql, hqn, by simp [tInsert, hp], rfl⟩

theorem getD_set_ne (t : List Slot) (q p : Nat) (x : Slot) (hne : p ≠ q) : slotAt (t.set q x) p = slotAt t p := by
  simp [slotAt, List.getD_eq_getElem?_getD, List.getElem?_set, hne.symm]

theorem getD_set_eq (t : List Slot) (q : Nat) (x : Slot) (hq : q < t.length) : slotAt (t.set q x) q = x := by
  simp [slotAt, List.getD_eq_getElem?_getD, List.getElem?_set, hq]

/-- invariants of a table built by insertion, and the meaning of `get` on it -/
structure TInv (h : Bytes → Nat) (size : Nat) (tbl : List (Bytes × Bytes)) (t : List Slot) : Prop where
  len : t.length = size
  cnt : t.countP (·.isSome) = tbl.length
  mem : ∀ p e, slotAt t p = some e → e ∈ tbl
  get : ∀ k, tGet h t k = (tbl.find? (·.1 == k)).map (·.2)

theorem tinv_empty (h : Bytes → Nat) (size : Nat) : TInv h size [] (List.replicate size none) := by
  refine ⟨by simp, by simp [List.countP_replicate], ?_, ?_⟩
  · intro p e he
    simp [slotAt, List.getD_eq_getElem?_getD, List.getElem?_replicate] at he
    split at he <;> simp at he
  · intro k
    simp only [List.find?_nil, Option.map_none]
    unfold tGet
    cases hp : probe (Gen.smGetStep · (List.replicate size (none : Slot)).length) (slotStops (List.replicate size none) k)
        (List.replicate size (none : Slot)).length (Gen.smGetStart (h k) (List.replicate size (none : Slot)).length) with
    | none => rfl
    | some p =>
      simp only [slotAt, List.getD_eq_getElem?_getD, List.getElem?_replicate]
      split <;> simp

/-- the start and step expressions of `get` are those of `insert` (regenerated from the source) -/
theorem get_probes_like_insert : Gen.smGetStart = Gen.smInsertStart ∧ Gen.smGetStep = Gen.smInsertStep := ⟨rfl, rfl⟩

theorem tinv_insert (h : Bytes → Nat) (size : Nat) (tbl : List (Bytes × Bytes)) (t : List Slot) (e : Bytes × Bytes)
    (hi : TInv h size tbl t) (hroom : tbl.length < size) : TInv h size (tbl ++ [e]) (tInsert h t e) := by
  obtain ⟨hlen, hcnt, hmem, hget⟩ := hi
  obtain ⟨q, hq, hqn, hins, hprobe⟩ := tInsert_spec h t e (by rw [hcnt, hlen]; exact hroom)
  rw [hins]
  refine ⟨by simp [hlen], by rw [countP_set_none t q e hq hqn, hcnt]; simp, ?_, ?_⟩
  · intro p x hx
    by_cases hpq : p = q
    · subst hpq
      rw [getD_set_eq t p _ hq] at hx
      simp at hx; subst hx; simp
    · rw [getD_set_ne t q p _ hpq] at hx
      exact List.mem_append_left _ (hmem p x hx)
  · intro k
    rw [List.find?_append]
    unfold tGet
    simp only [List.length_set]
    -- stopping predicate on the new table vs the old one
    have hle : ∀ r, slotStops t k r = false → slotStops (t.set q (some e)) k r = false := by
      intro r hr
      have hrq : r ≠ q := by
        intro h0; subst h0; simp [slotStops, hqn] at hr
      simpa [slotStops, getD_set_ne t q r _ hrq] using hr
    cases hfind : tbl.find? (·.1 == k) with
    | some x =>
      -- present before: the walk stops where it stopped before
      have hold := hget k
      rw [hfind] at hold
      unfold tGet at hold
      cases hp : probe (Gen.smGetStep · t.length) (slotStops t k) t.length (Gen.smGetStart (h k) t.length) with
      | none => rw [hp] at hold; simp at hold
      | some p =>
        rw [hp] at hold
        simp only [Option.map_some, Option.or_some] at hold ⊢
        have hpq : p ≠ q := by
          intro h0; subst h0; rw [hqn] at hold; simp at hold
        have hstop' : slotStops (t.set q (some e)) k p = true := by
          have := probe_some_stop _ _ _ hp
          simpa [slotStops, getD_set_ne t q p _ hpq] using this
        rw [probe_mono hle _ _ _ hp hstop']
        simp only [getD_set_ne t q p _ hpq]
        exact hold
    | none =>
      simp only [Option.none_or, List.find?_cons, List.find?_nil]
      -- absent before: no slot holds k
      have habs : ∀ p x, slotAt t p = some x → (x.1 == k) = false := by
        intro p x hx
        have := List.find?_eq_none.mp hfind x (hmem p x hx)
        simpa using this
      by_cases hk : (e.1 == k) = true
      · simp only [hk, if_true, Option.map_some]
        -- the walk for k is the walk of the insertion
        have hkeq : e.1 = k := by simpa using hk
        have hsame : ∀ r, slotStops t k r = slotEmpty t r := by
          intro r
          simp only [slotStops, slotEmpty]
          cases hr : slotAt t r with
          | none => rfl
          | some x => simp [habs r x hr]
        have hp0 : probe (Gen.smGetStep · t.length) (slotStops t k) t.length (Gen.smGetStart (h k) t.length) = some q := by
          rw [get_probes_like_insert.1, get_probes_like_insert.2, ← hkeq]
          have : slotStops t e.1 = slotEmpty t := by funext r; rw [hkeq]; exact hsame r
          rw [this]; exact hprobe
        have hstop' : slotStops (t.set q (some e)) k q = true := by
          simp [slotStops, getD_set_eq t q _ hq, hk]
        rw [probe_mono hle _ _ _ hp0 hstop']
        simp only [getD_set_eq t q _ hq]
        rfl
      · have hk' : (e.1 == k) = false := by simpa using hk
        simp only [hk', Bool.false_eq_true, if_false, Option.map_none]
        cases hp : probe (Gen.smGetStep · t.length) (slotStops (t.set q (some e)) k) t.length (Gen.smGetStart (h k) t.length) with
        | none => rfl
        | some p =>
          simp only
          have hst := probe_some_stop _ _ _ hp
          by_cases hpq : p = q
          · subst hpq
            simp [slotStops, getD_set_eq t p _ hq, hk'] at hst
          · rw [getD_set_ne t q p _ hpq]
            simp only [slotStops, getD_set_ne t q p _ hpq] at hst
            cases hx : slotAt t p with
            | none => rfl
            | some x =>
              rw [hx] at hst
              simp [habs p x hx] at hst

theorem tinv_foldl (h : Bytes → Nat) (size : Nat) :
    ∀ (l pre : List (Bytes × Bytes)) (t : List Slot), TInv h size pre t → pre.length + l.length ≤ size →
      TInv h size (pre ++ l) (l.foldl (tInsert h) t) := by
  intro l
  induction l with
  | nil => intro pre t hi _; simpa using hi
  | cons e r ih =>
    intro pre t hi hlen
    simp only [List.foldl_cons]
    have := ih (pre ++ [e]) (tInsert h t e) (tinv_insert h size pre t e hi (by simp at hlen; omega))
      (by simp at hlen ⊢; omega)
    simpa [List.append_assoc] using this

/-! ## the whole map -/

/-- invariant of a `string_map` reached by `add`s -/
structure SInv (h : Bytes → Nat) (m : SMap) : Prop where
  tbl : TInv h m.slots.length m.env.tbl m.slots
  chain : m.env.chain.length = m.env.tbl.length
  room : m.env.tbl.length < m.slots.length
  size : m.env.size = m.slots.length
  big : 2 ≤ m.slots.length

theorem sinv_empty (h : Bytes → Nat) : SInv h {} := by
  refine ⟨?_, rfl, by decide, by decide, by decide⟩
  have := tinv_empty h Gen.smInitSize
  simpa using this

theorem sinv_add (h : Bytes → Nat) (m : SMap) (k v : Bytes) (hi : SInv h m) :
    SInv h (m.add h k v) ∧ (m.add h k v).env = m.env.add k v := by
  obtain ⟨htbl, hchain, hroom, hsize, hbig⟩ := hi
  unfold SMap.add Env.add
  by_cases hg : Gen.smGrow m.env.chain.length m.slots.length = true
  · -- the table is rebuilt with twice the size from the iteration chain
    have hg' : m.env.chain.length * 2 ≥ m.env.size := by
      simp only [Gen.smGrow, decide_eq_true_eq] at hg; omega
    simp only [hg, if_true, hg']
    have hnl : (List.replicate (Gen.smNewSize m.slots.length) (none : Slot)).length = Gen.smNewSize m.slots.length := by simp
    have hbuild := tinv_foldl h (Gen.smNewSize m.slots.length) m.env.chain [] (List.replicate (Gen.smNewSize m.slots.length) none)
      (tinv_empty h _) (by simp only [Gen.smNewSize, List.length_nil]; omega)
    simp only [List.nil_append] at hbuild
    have hlen2 : (m.env.chain.foldl (tInsert h) (List.replicate (Gen.smNewSize m.slots.length) none)).length = Gen.smNewSize m.slots.length := hbuild.len
    have hins := tinv_insert h (Gen.smNewSize m.slots.length) m.env.chain _ (k, v) hbuild (by simp only [Gen.smNewSize]; omega)
    refine ⟨⟨?_, by simp, ?_, ?_, ?_⟩, ?_⟩
    · simp only
      rw [hins.len]
      exact hins
    · simp only [List.length_append, List.length_cons, List.length_nil]
      rw [hins.len]; simp only [Gen.smNewSize]; omega
    · simp only
      rw [hins.len, hsize]; rfl
    · simp only
      rw [hins.len]; simp only [Gen.smNewSize]; omega
    · trivial
  · have hg0 : Gen.smGrow m.env.chain.length m.slots.length = false := by simpa using hg
    have hg' : ¬ (m.env.chain.length * 2 ≥ m.env.size) := by
      simp only [Gen.smGrow, decide_eq_false_iff_not] at hg0; omega
    simp only [hg0, Bool.false_eq_true, if_false, hg']
    have hins := tinv_insert h m.slots.length m.env.tbl m.slots (k, v) htbl hroom
    have hlt : m.env.chain.length * 2 < m.slots.length := by omega
    refine ⟨⟨?_, by simp [hchain], ?_, ?_, ?_⟩, ?_⟩
    · simp only
      rw [hins.len]
      exact hins
    · simp only [List.length_append, List.length_cons, List.length_nil]
      rw [hins.len]; omega
    · simp only
      rw [hins.len]; exact hsize
    · simp only
      rw [hins.len]; exact hbig
    · trivial

theorem sinv_ofAdds (h : Bytes → Nat) (adds : List (Bytes × Bytes)) :
    SInv h (SMap.ofAdds h adds) ∧ (SMap.ofAdds h adds).env = Env.empty.addAll adds := by
  unfold SMap.ofAdds Env.addAll
  have : ∀ (l : List (Bytes × Bytes)) (m : SMap) (e : Env), SInv h m → m.env = e →
      SInv h (l.foldl (fun m kv => m.add h kv.1 kv.2) m) ∧
      (l.foldl (fun m kv => m.add h kv.1 kv.2) m).env = l.foldl (fun e kv => e.add kv.1 kv.2) e := by
    intro l
    induction l with
    | nil => intro m e hi he; exact ⟨hi, he⟩
    | cons kv r ih =>
      intro m e hi he
      simp only [List.foldl_cons]
      obtain ⟨h1, h2⟩ := sinv_add h m kv.1 kv.2 hi
      exact ih _ _ h1 (by rw [h2, he])
  exact this adds {} Env.empty (sinv_empty h) rfl

/-- **`get` after any sequence of `add`s**, for every hash function: the open-addressing table answers
what the abstract environment answers — the value of the entry with that key that went into the current
table first (`add` never looks for an existing key), `none` for a key that was never added. -/
theorem get_after_adds (h : Bytes → Nat) (adds : List (Bytes × Bytes)) (k : Bytes) :
    (SMap.ofAdds h adds).get h k = (Env.empty.addAll adds).get? k := by
  obtain ⟨hi, he⟩ := sinv_ofAdds h adds
  unfold SMap.get Env.get?
  rw [hi.tbl.get k, he]

/-! ### what the abstract answer is, in terms of the `add`s alone -/

theorem env_add_mem (e : Env) (k v : Bytes) (hi : ∀ x, x ∈ e.tbl ↔ x ∈ e.chain) :
    (∀ x, x ∈ (e.add k v).tbl ↔ x ∈ (e.add k v).chain) ∧
    (∀ x, x ∈ (e.add k v).tbl ↔ (x ∈ e.tbl ∨ x = (k, v))) := by
  unfold Env.add
  by_cases hg : e.chain.length * 2 ≥ e.size
  · simp only [hg, if_true]
    constructor
    · intro x; simp only [List.mem_append, List.mem_cons, List.mem_reverse, List.mem_singleton, List.not_mem_nil, or_false]
      constructor
      · rintro (h | h); exact Or.inr h; exact Or.inl h
      · rintro (h | h); exact Or.inr h; exact Or.inl h
    · intro x; simp only [List.mem_append, List.mem_singleton, hi]
  · simp only [hg, if_false]
    constructor
    · intro x; simp only [List.mem_append, List.mem_cons, List.mem_singleton, List.not_mem_nil, or_false, hi]
      constructor
      · rintro (h | h); exact Or.inr h; exact Or.inl h
      · rintro (h | h); exact Or.inr h; exact Or.inl h
    · intro x; simp only [List.mem_append, List.mem_singleton]

theorem env_addAll_mem : ∀ (l : List (Bytes × Bytes)) (e : Env), (∀ x, x ∈ e.tbl ↔ x ∈ e.chain) →
    ∀ x, x ∈ (e.addAll l).tbl ↔ (x ∈ e.tbl ∨ x ∈ l) := by
  intro l
  induction l with
  | nil => intro e _ x; simp [Env.addAll]
  | cons kv r ih =>
    intro e hi x
    obtain ⟨h1, h2⟩ := env_add_mem e kv.1 kv.2 hi
    have := ih (e.add kv.1 kv.2) h1 x
    simp only [Env.addAll, List.foldl_cons] at this ⊢
    rw [this, h2 x]
    simp only [List.mem_cons]
    constructor
    · rintro ((h | h) | h)
      · exact Or.inl h
      · exact Or.inr (Or.inl h)
      · exact Or.inr (Or.inr h)
    · rintro (h | h | h)
      · exact Or.inl (Or.inl h)
      · exact Or.inl (Or.inr h)
      · exact Or.inr h

/-- a name that was never added is not found, whatever the hash function and however often the table grew -/
theorem get_absent (h : Bytes → Nat) (adds : List (Bytes × Bytes)) (k : Bytes)
    (hk : ∀ e ∈ adds, e.1 ≠ k) : (SMap.ofAdds h adds).get h k = none := by
  rw [get_after_adds]
  unfold Env.get?
  have hm := env_addAll_mem adds Env.empty (by intro x; simp [Env.empty])
  have : (Env.empty.addAll adds).tbl.find? (·.1 == k) = none := by
    rw [List.find?_eq_none]
    intro e he
    have := (hm e).1 he
    simp only [Env.empty, List.not_mem_nil, false_or] at this
    simpa using hk e this
  rw [this]; rfl

/-- with pairwise different names (what every front-end produces for the CGI variables of one request)
every variable is found by name with exactly the value it was added with, whatever the hash function
and however often the table grew -/
theorem get_distinct (h : Bytes → Nat) (adds : List (Bytes × Bytes)) (k v : Bytes)
    (hd : ∀ a ∈ adds, ∀ b ∈ adds, a.1 = b.1 → a = b) (hkv : (k, v) ∈ adds) :
    (SMap.ofAdds h adds).get h k = some v := by
  rw [get_after_adds]
  unfold Env.get?
  have hm := env_addAll_mem adds Env.empty (by intro x; simp [Env.empty])
  cases hf : (Env.empty.addAll adds).tbl.find? (·.1 == k) with
  | none =>
    rw [List.find?_eq_none] at hf
    have := hf (k, v) ((hm (k, v)).2 (Or.inr hkv))
    simp at this
  | some e =>
    have he := List.mem_of_find?_eq_some hf
    have hek := List.find?_some hf
    have hin := (hm e).1 he
    simp only [Env.empty, List.not_mem_nil, false_or] at hin
    have : e = (k, v) := hd e hin (k, v) hkv (by simpa using hek)
    subst this; rfl

end Cppcms.C01
