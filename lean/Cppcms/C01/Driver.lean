import Cppcms.C01.DriverLib
/-! `c01_model`: see `DriverLib.lean` for the line protocol. -/
def main : IO Unit := Cppcms.lineLoop () step
