import Cppcms.Common
import Cppcms.C01.Scgi
import Cppcms.C01.Fcgi
import Cppcms.C01.Http
/-! Line-protocol driver for C01/C02.
`scgi <seg>…` / `fastcgi <seg>…` / `http <port> <remote> <hints> <seg>…` run the buffer-level model on
the given segmentation and print the fate of every request on the connection. -/
open Cppcms Cppcms.C01

def hx (b : Bytes) : String := if b.isEmpty then "." else toHex b

def showPairs (l : List (Bytes × Bytes)) : String :=
  if l.isEmpty then "-" else ",".intercalate (l.map fun kv => hx kv.1 ++ ":" ++ hx kv.2)

def showCookies (l : Cookies) : String :=
  if l.isEmpty then "-" else ",".intercalate (l.map fun kc =>
    hx kc.1 ++ ":" ++ hx kc.2.value ++ ":" ++ hx kc.2.path ++ ":" ++ hx kc.2.domain)

def showKind : Kind → String
  | .sync => "sync" | .async => "async" | .filter => "filter" | .dflt => "default"

def showErr : Err → String
  | .eof => "eof" | .violation => "violation"

def showOutcome : Outcome → String
  | .app k pre v => s!"app kind={showKind k} pre={boolStr pre} env={showPairs v.env} get={showPairs v.get} post={showPairs v.post} cookies={showCookies v.cookies} body={hx v.body}"
  | .status c pre oe => s!"status {c} pre={boolStr pre} onerr={boolStr oe}"
  | .raw400 => "raw400"
  | .aborted e pre oe => s!"aborted {showErr e} pre={boolStr pre} onerr={boolStr oe}"
  | .mgmt t c f => s!"mgmt {t} {hx c} framed={boolStr f}"
  | .multipart => "multipart"
  | .crash w => "crash " ++ w.replace " " "_"

def showOutcomes (l : List Outcome) : String := " ; ".intercalate (l.map showOutcome)

def parseSegs (ws : List String) : Option Segs := ws.mapM parseHex

def step (_ : Unit) (line : String) : Unit × String :=
  let r : String :=
    match words line with
    | "scgi" :: segs => match parseSegs segs with
      | some s => showOutcomes (scgiConn {} s)
      | none => "bad-op"
    | "fastcgi" :: conc :: segs => match parseHex conc, parseSegs segs with
      | some c, some s => showOutcomes (fcgiRun {} c s)
      | _, _ => "bad-op"
    | "http" :: sw :: nm :: port :: remote :: hints :: segs =>
      match parseHex sw, parseHex nm, parseHex port, parseHex remote, parseSegs segs with
      | some sw, some nm, some port, some remote, some s =>
        let hs := hints.toList.filterMap fun c => if c == '1' then some true else if c == '0' then some false else none
        showOutcomes (httpRun {} { software := sw, serverName := nm, port := port, remote := remote } hs s)
      | _, _, _, _, _ => "bad-op"
    | _ => "bad-op"
  ((), r)

def main : IO Unit := lineLoop () step
