import Cppcms.C01.Http
import Cppcms.C01.LemmasSock
/-! HTTP: the header phase over the read-ahead buffer equals the header phase over the concatenated
stream as long as the header section fits into the 16 KiB cap; the body is drained from the
read-ahead buffer exactly once. -/
namespace Cppcms.C01
open Cppcms

/-! ## facts about the generated parser transition -/

theorem stepSwitch_ret_code {s s' : Gen.PState} {c code : Nat} (h : Gen.stepSwitch s c = .ret code s') :
    code = Gen.pr_got_header ∨ code = Gen.pr_end_of_headers ∨ code = Gen.pr_error_observerd := by
  unfold Gen.stepSwitch at h
  repeat' split at h
  all_goals (
    first
    | (simp only [Gen.stepArm_idle, Gen.stepArm_input_observed, Gen.stepArm_last_lf_exptected, Gen.stepArm_lf_exptected,
        Gen.stepArm_space_or_other_exptected, Gen.stepArm_quote_expected, Gen.stepArm_pass_quote_exptected,
        Gen.stepArm_closing_bracket_expected, Gen.stepArm_pass_closing_bracket_expected] at h
       repeat' split at h
       all_goals (first | (simp at h; done) | (simp only [Gen.PStep.ret.injEq] at h; obtain ⟨rfl, _⟩ := h; decide)))
    | (simp only [Gen.PStep.ret.injEq] at h; obtain ⟨rfl, _⟩ := h; decide))

theorem stepSwitch_got_header {s s' : Gen.PState} {c : Nat} (h : Gen.stepSwitch s c = .ret Gen.pr_got_header s') :
    s.state = Gen.ps_space_or_other_exptected ∧ s'.state = Gen.ps_idle := by
  unfold Gen.stepSwitch at h
  repeat' split at h
  all_goals (
    first
    | (simp only [Gen.stepArm_idle, Gen.stepArm_input_observed, Gen.stepArm_last_lf_exptected, Gen.stepArm_lf_exptected,
        Gen.stepArm_space_or_other_exptected, Gen.stepArm_quote_expected, Gen.stepArm_pass_quote_exptected,
        Gen.stepArm_closing_bracket_expected, Gen.stepArm_pass_closing_bracket_expected] at h
       repeat' split at h
       all_goals (first | (simp [Gen.pr_got_header] at h; done) | (simp only [Gen.PStep.ret.injEq] at h; obtain ⟨_, rfl⟩ := h; simp_all [Gen.ps_idle])))
    | (simp [Gen.pr_got_header, Gen.pr_error_observerd] at h; done))


/-- invariant of the parser registers between two iterations of `step()`'s loop: no unsigned
wrap-around happened, `header_` is long enough for the `resize(size()-2)` of the states that do it,
and `bracket_counter_` is 1 exactly inside a comment -/
structure PInv (ps : Gen.PState) : Prop where
  under : ps.under = false
  unget : ps.unget = false
  st : ps.state ≤ 8
  len4 : ps.state = Gen.ps_space_or_other_exptected → 2 ≤ ps.rhdr.length
  len3 : ps.state = Gen.ps_lf_exptected → 1 ≤ ps.rhdr.length
  bc1 : (ps.state = Gen.ps_closing_bracket_expected ∨ ps.state = Gen.ps_pass_closing_bracket_expected) → ps.bc = 1
  bc0 : ¬ (ps.state = Gen.ps_closing_bracket_expected ∨ ps.state = Gen.ps_pass_closing_bracket_expected) → ps.bc = 0

theorem pinv_init : PInv {} := by
  constructor <;> simp [Gen.ps_space_or_other_exptected, Gen.ps_lf_exptected, Gen.ps_closing_bracket_expected, Gen.ps_pass_closing_bracket_expected]

macro "step_cases" h:ident : tactic => `(tactic| (
  unfold Gen.stepSwitch at $h:ident
  repeat' split at $h:ident
  all_goals try (simp only [Gen.stepArm_idle, Gen.stepArm_input_observed, Gen.stepArm_last_lf_exptected, Gen.stepArm_lf_exptected,
        Gen.stepArm_space_or_other_exptected, Gen.stepArm_quote_expected, Gen.stepArm_pass_quote_exptected,
        Gen.stepArm_closing_bracket_expected, Gen.stepArm_pass_closing_bracket_expected] at $h:ident)
  all_goals try (repeat' split at $h:ident)))

theorem pinv_cont {ps s : Gen.PState} {c : Nat} (hi : PInv ps) (h : Gen.stepSwitch ps c = .cont s) :
    PInv { s with rhdr := c :: s.rhdr } := by
  obtain ⟨h1, h2, h3, h4, h5, h6, h7⟩ := hi
  step_cases h
  all_goals first
    | (simp at h; done)
    | (simp only [Gen.PStep.cont.injEq] at h
       subst h
       constructor <;>
         simp_all [Gen.ps_idle, Gen.ps_input_observed, Gen.ps_last_lf_exptected, Gen.ps_lf_exptected, Gen.ps_space_or_other_exptected,
           Gen.ps_quote_expected, Gen.ps_pass_quote_exptected, Gen.ps_closing_bracket_expected, Gen.ps_pass_closing_bracket_expected] <;>
         omega)

theorem pinv_ret {ps s : Gen.PState} {c code : Nat} (hi : PInv ps) (h : Gen.stepSwitch ps c = .ret code s) :
    s.under = false ∧ (code = Gen.pr_got_header → PInv { s with unget := false }) := by
  obtain ⟨h1, h2, h3, h4, h5, h6, h7⟩ := hi
  step_cases h
  all_goals first
    | (simp at h; done)
    | (simp only [Gen.PStep.ret.injEq] at h
       obtain ⟨hc, hs⟩ := h
       subst hs
       subst hc
       refine ⟨?_, ?_⟩
       · simp_all [Gen.ps_idle, Gen.ps_input_observed, Gen.ps_last_lf_exptected, Gen.ps_lf_exptected, Gen.ps_space_or_other_exptected,
           Gen.ps_quote_expected, Gen.ps_pass_quote_exptected, Gen.ps_closing_bracket_expected, Gen.ps_pass_closing_bracket_expected] <;> omega
       · intro hg
         first
         | (exact absurd hg (by decide))
         | (constructor <;>
             simp_all [Gen.ps_idle, Gen.ps_input_observed, Gen.ps_last_lf_exptected, Gen.ps_lf_exptected, Gen.ps_space_or_other_exptected,
               Gen.ps_quote_expected, Gen.ps_pass_quote_exptected, Gen.ps_closing_bracket_expected, Gen.ps_pass_closing_bracket_expected] <;>
             omega))

/-! ## `parser::step()` over a buffer -/

theorem parserRun_cons_cont {ps s1 : Gen.PState} {c : UInt8} (t : Bytes) (h : Gen.stepSwitch ps c.toNat = .cont s1) :
    parserRun ps (c :: t) = parserRun { s1 with rhdr := c.toNat :: s1.rhdr } t := by
  rw [parserRun, h]

theorem parserRun_cons_ret {ps s1 : Gen.PState} {c : UInt8} {code : Nat} (t : Bytes) (h : Gen.stepSwitch ps c.toNat = .ret code s1) :
    parserRun ps (c :: t) = (code, { s1 with unget := false }, if s1.unget then c :: t else t) := by
  rw [parserRun, h]

theorem parserRun_rest_le (ps : Gen.PState) (s : Bytes) : (parserRun ps s).2.2.length ≤ s.length := by
  induction s generalizing ps with
  | nil => simp [parserRun]
  | cons c t ih =>
    unfold parserRun
    cases h : Gen.stepSwitch ps c.toNat with
    | cont s1 => simp only; have := ih { s1 with rhdr := c.toNat :: s1.rhdr }; simp only [List.length_cons]; omega
    | ret code s1 => simp only; split <;> simp

theorem parserRun_more (ps : Gen.PState) (s : Bytes) (h : (parserRun ps s).1 = Gen.pr_more_data) :
    (parserRun ps s).2.2 = [] := by
  induction s generalizing ps with
  | nil => simp [parserRun]
  | cons c t ih =>
    unfold parserRun at h ⊢
    cases hs : Gen.stepSwitch ps c.toNat with
    | cont s1 => rw [hs] at h; simp only at h ⊢; exact ih _ h
    | ret code s1 =>
      rw [hs] at h
      simp only at h
      rcases stepSwitch_ret_code hs with rfl | rfl | rfl <;> exact absurd h (by decide)

/-- running the parser over `a ++ b`: if `a` is exhausted (`more_data`) the run continues in `b` with
the registers reached, otherwise `b` is simply left unread -/
theorem parserRun_append (ps : Gen.PState) (a b : Bytes) :
    parserRun ps (a ++ b) =
      if (parserRun ps a).1 = Gen.pr_more_data then parserRun (parserRun ps a).2.1 b
      else ((parserRun ps a).1, (parserRun ps a).2.1, (parserRun ps a).2.2 ++ b) := by
  induction a generalizing ps with
  | nil => simp [parserRun]
  | cons c t ih =>
    simp only [List.cons_append]
    cases hs : Gen.stepSwitch ps c.toNat with
    | cont s1 =>
      rw [parserRun_cons_cont _ hs, parserRun_cons_cont _ hs]
      exact ih _
    | ret code s1 =>
      rw [parserRun_cons_ret _ hs, parserRun_cons_ret _ hs]
      have hne : code ≠ Gen.pr_more_data := by
        rcases stepSwitch_ret_code hs with rfl | rfl | rfl <;> decide
      simp only [hne, if_false]
      split <;> simp

theorem parserRun_pinv (ps : Gen.PState) (s : Bytes) (hi : PInv ps) :
    (parserRun ps s).2.1.under = false ∧
    (((parserRun ps s).1 = Gen.pr_more_data ∨ (parserRun ps s).1 = Gen.pr_got_header) → PInv (parserRun ps s).2.1) := by
  induction s generalizing ps with
  | nil => simp only [parserRun]; exact ⟨hi.under, fun _ => hi⟩
  | cons c t ih =>
    unfold parserRun
    cases hs : Gen.stepSwitch ps c.toNat with
    | cont s1 => simp only; exact ih _ (pinv_cont hi hs)
    | ret code s1 =>
      simp only
      obtain ⟨hu, hg⟩ := pinv_ret hi hs
      refine ⟨hu, ?_⟩
      intro hc
      rcases hc with hc | hc
      · rcases stepSwitch_ret_code hs with rfl | rfl | rfl <;> exact absurd hc (by decide)
      · exact hg hc

/-- termination measure of the header loop: a header line ends at least two bytes after it began,
except when the CRLF was already seen in the previous buffer -/
def mu (ps : Gen.PState) (s : Bytes) : Nat :=
  2 * s.length + (if ps.state = Gen.ps_space_or_other_exptected then 1 else 0)

theorem parserRun_progress (ps : Gen.PState) (s : Bytes) (h : (parserRun ps s).1 = Gen.pr_got_header) :
    mu (parserRun ps s).2.1 (parserRun ps s).2.2 < mu ps s := by
  cases s with
  | nil => simp [parserRun] at h; exact absurd h (by decide)
  | cons c t =>
    unfold parserRun at h ⊢
    cases hs : Gen.stepSwitch ps c.toNat with
    | cont s1 =>
      rw [hs] at h
      simp only at h ⊢
      have := parserRun_rest_le { s1 with rhdr := c.toNat :: s1.rhdr } t
      unfold mu
      simp only [List.length_cons]
      split <;> split <;> omega
    | ret code s1 =>
      rw [hs] at h
      simp only at h ⊢
      subst h
      obtain ⟨h4, h0⟩ := stepSwitch_got_header hs
      unfold mu
      simp only [h4, h0, if_true, List.length_cons]
      have : ¬ (Gen.ps_idle = Gen.ps_space_or_other_exptected) := by decide
      simp only [this, if_false]
      split <;> simp <;> omega

end Cppcms.C01
