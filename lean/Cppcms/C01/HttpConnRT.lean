import Cppcms.C01.HttpRequestRT
/-!
# C01 — HTTP round trip at connection level, keep-alive sequences

`HttpPeer` requests written as header lines (folded any way the peer likes: `FLine`) and followed by their
bodies, over the stream-level connection `httpFlatConn` — and hence, by `http_buffer_eq_stream`, over any
segmentation of the socket.
-/
namespace Cppcms.C01
open Cppcms

/-- the header section of `q` on the wire: lines (each possibly folded) whose unfolded values are the request
line and the fields of `q`, within the 16 KiB the server accepts -/
structure HttpWire (q : HttpPeer) (ls : List FLine) : Prop where
  wf : ∀ l ∈ ls, WFLine l
  vals : ls.map FLine.value = q.lines
  cap : (encFLines ls).length ≤ Gen.httpHeaderCap

theorem hdrFlat_peer (cfg : HttpCfg) (q : HttpPeer) (hq : q.ok cfg) (ls : List FLine) (hw : HttpWire q ls)
    (rest : Bytes) :
    hdrFlat cfg { env := httpEnv0 cfg } (encFLines ls ++ rest) =
      (.head (q.head cfg) (q.proto == bs Gen.http11), rest) := by
  obtain ⟨r', hfeed, h11, hproc⟩ := http_head_roundtrip cfg q hq { env := httpEnv0 cfg } rfl
  unfold hdrFlat
  rw [hdrLoopC_flines cfg ls { env := httpEnv0 cfg } r' rest hw.wf rfl rfl rfl rfl (by rw [hw.vals]; exact hfeed)]
  rw [hproc, h11]

theorem hdrSpan_peer (cfg : HttpCfg) (q : HttpPeer) (hq : q.ok cfg) (ls : List FLine) (hw : HttpWire q ls)
    (rest : Bytes) : hdrSpan cfg { env := httpEnv0 cfg } (encFLines ls ++ rest) = (encFLines ls).length := by
  unfold hdrSpan
  rw [hdrFlat_peer cfg q hq ls hw rest]
  simp

/-- one request of a connection at stream level -/
theorem httpFlatConn_step (cfg : HttpCfg) (lim : Limits) (q : HttpPeer) (hq : q.ok cfg) (ls : List FLine)
    (hw : HttpWire q ls) (rest : Bytes) (fuel : Nat) (hints : List Bool) :
    httpFlatConn cfg lim (fuel + 1) hints (encFLines ls ++ rest) =
      (let o := reqOutcome lim (q.head cfg) rest
       if isApp o.1 && httpKeep (q.head cfg) (q.proto == bs Gen.http11) (hints.headD true) then
         (httpFlatConn cfg lim fuel hints.tail o.2).map (o.1 :: ·)
       else some [o.1]) := by
  conv => lhs; unfold httpFlatConn
  rw [hdrSpan_peer cfg q hq ls hw rest, hdrFlat_peer cfg q hq ls hw rest]
  have : ¬ (encFLines ls).length > Gen.httpHeaderCap := by have := hw.cap; omega
  simp only [this, if_false]

/-- **HTTP round trip**: a well-formed request (`HttpPeer.ok`: method token, configured script name, path
percent-encoded any admissible way, optional query string, any protocol string, header fields with any spelling
of their names and any blanks after the colon), its header lines folded any way (`HttpWire`), followed by its
body, cut into segments anywhere: the request layer gets exactly the head the peer meant (`HttpPeer.head`:
canonical CGI names, decoded path, script name, query string) and the body stream.  `hclose`: the connection is
not kept alive after this request (see `keepalive_sequence_http` for the other case). -/
theorem http_roundtrip_conn (cfg : HttpCfg) (lim : Limits) (hb : 0 < lim.bufSize) (q : HttpPeer) (hq : q.ok cfg)
    (ls : List FLine) (hw : HttpWire q ls) (body : Bytes) (hints : List Bool) (segs : Segs)
    (hseg : segs.flatten = encFLines ls ++ body)
    (hclose : (isApp (reqOutcome lim (q.head cfg) body).1 &&
      httpKeep (q.head cfg) (q.proto == bs Gen.http11) (hints.headD true)) = false) :
    httpRun lim cfg hints segs = [(reqOutcome lim (q.head cfg) body).1] := by
  apply httpRun_eq_flat cfg lim hb
  rw [hseg, httpFlatConn_step cfg lim q hq ls hw body]
  simp only [hclose, Bool.false_eq_true, if_false]

/-! ## keep-alive sequences -/

/-- a request whose `Content-Length` is the length of its body and that reaches the application leaves exactly
what follows the body unread -/
theorem reqOutcome_exact (lim : Limits) (h : Head) (body tail : Bytes) (hcl : h.contentLength = body.length)
    (happ : isApp (reqOutcome lim h body).1 = true) :
    reqOutcome lim h (body ++ tail) = ((reqOutcome lim h body).1, tail) := by
  unfold reqOutcome at happ ⊢
  cases hp : requestPlan lim h with
  | done o =>
    rw [hp] at happ
    simp only at happ ⊢
    have := requestPlan_done_app hp happ
    have hb : body = [] := by
      rw [this] at hcl
      cases body with
      | nil => rfl
      | cons a t => simp at hcl; omega
    subst hb
    simp
  | read n chunk pre fin =>
    rw [hp] at happ
    simp only at happ ⊢
    have hn : n = body.length := by
      have := requestPlan_read_n hp
      rw [hcl] at this
      simpa using this
    subst hn
    simp [contentFlat]

/-- one request of a kept-alive connection: the peer's request, its wire form, its body -/
structure HttpItem where
  q : HttpPeer
  ls : List FLine
  body : Bytes

def HttpItem.wire (x : HttpItem) : Bytes := encFLines x.ls ++ x.body

/-- well-formed, answered by the application, and the connection stays open whatever the response framing -/
structure HttpItem.ok (cfg : HttpCfg) (lim : Limits) (x : HttpItem) : Prop where
  q : x.q.ok cfg
  wire : HttpWire x.q x.ls
  cl : (x.q.head cfg).contentLength = x.body.length
  app : isApp (reqOutcome lim (x.q.head cfg) x.body).1 = true
  keep : ∀ known, httpKeep (x.q.head cfg) (x.q.proto == bs Gen.http11) known = true

def HttpItem.outcome (cfg : HttpCfg) (lim : Limits) (x : HttpItem) : Outcome := (reqOutcome lim (x.q.head cfg) x.body).1

def encHttpSeq (xs : List HttpItem) : Bytes := xs.flatMap HttpItem.wire

theorem hdrFlat_empty (cfg : HttpCfg) (r : HttpReq) (hu : r.ps.under = false) : hdrFlat cfg r [] = (.done (.aborted .eof false false), []) := by
  unfold hdrFlat
  rw [hdrLoopC_unfold]
  simp [parserRun, Gen.pr_more_data, hu]

theorem httpFlatConn_seq (cfg : HttpCfg) (lim : Limits) : ∀ (xs : List HttpItem) (fuel : Nat) (hints : List Bool),
    (∀ x ∈ xs, x.ok cfg lim) → xs.length < fuel →
    httpFlatConn cfg lim fuel hints (encHttpSeq xs) =
      some (xs.map (HttpItem.outcome cfg lim) ++ [.aborted .eof false false]) := by
  intro xs
  induction xs with
  | nil =>
    intro fuel hints _ hf
    obtain ⟨f, rfl⟩ : ∃ f, fuel = f + 1 := ⟨fuel - 1, by simp at hf; omega⟩
    unfold httpFlatConn
    simp [encHttpSeq, hdrSpan, hdrFlat_empty cfg { env := httpEnv0 cfg } rfl]
  | cons x t ih =>
    intro fuel hints hok hf
    obtain ⟨f, rfl⟩ : ∃ f, fuel = f + 1 := ⟨fuel - 1, by simp at hf; omega⟩
    have hx := hok x (by simp)
    have hshape : encHttpSeq (x :: t) = encFLines x.ls ++ (x.body ++ encHttpSeq t) := by
      simp [encHttpSeq, HttpItem.wire, List.append_assoc]
    rw [hshape, httpFlatConn_step cfg lim x.q hx.q x.ls hx.wire]
    rw [reqOutcome_exact lim _ x.body (encHttpSeq t) hx.cl hx.app]
    simp only [hx.app, hx.keep, Bool.and_self, if_true]
    rw [ih f hints.tail (fun y hy => hok y (by simp [hy])) (by simp at hf ⊢; omega)]
    simp [HttpItem.outcome]

end Cppcms.C01
