import Cppcms.C01.Fcgi
import Cppcms.C01.LemmasSock
/-! FastCGI: the record reader over the read-ahead cache delivers the records of the concatenated
stream; everything above it is generic in the record reader, so the buffer-level connection equals
the connection over a plain byte stream. -/
namespace Cppcms.C01
open Cppcms

def FcgiSt.stream (st : FcgiSt) : Bytes := st.cache ++ st.segs.flatten

theorem refill_stream (st : FcgiSt) (n : Nat) (got : Bytes) (segs' : Segs) :
    (st.refill n got segs').stream = st.cache ++ got ++ segs'.flatten := by
  simp [FcgiSt.refill, FcgiSt.stream]

/-- `async_read_from_socket` against the stream: `n` bytes are delivered iff the stream has them;
a read is never started with an empty buffer. -/
theorem fcgiFill_spec (fuel n : Nat) (st : FcgiSt) (hn : 0 < n) (hf : n ≤ fuel + st.cache.length) :
    (if n ≤ st.stream.length then
        (fcgiFill fuel n st).1 = some (.ok (st.stream.take n)) ∧ (fcgiFill fuel n st).2.stream = st.stream.drop n
     else (fcgiFill fuel n st).1 = some (.error .eof) ∧ (fcgiFill fuel n st).2.stream = st.stream) ∧
    (fcgiFill fuel n st).2.bodyAlloc = st.bodyAlloc := by
  induction fuel generalizing st with
  | zero =>
    unfold fcgiFill
    have hc : st.cache.length ≥ n := by omega
    have hle : n ≤ st.stream.length := by simp [FcgiSt.stream]; omega
    simp only [hc, hle, if_true]
    refine ⟨⟨?_, ?_⟩, ?_⟩
    · simp [FcgiSt.stream, List.take_append_of_le_length hc]
    · simp [FcgiSt.stream, FcgiSt.consume, List.drop_append_of_le_length hc]
    · simp [FcgiSt.consume]
  | succ fuel ih =>
    unfold fcgiFill
    by_cases hc : st.cache.length ≥ n
    · have hle : n ≤ st.stream.length := by simp [FcgiSt.stream]; omega
      simp only [hc, hle, if_true]
      refine ⟨⟨?_, ?_⟩, ?_⟩
      · simp [FcgiSt.stream, List.take_append_of_le_length hc]
      · simp [FcgiSt.stream, FcgiSt.consume, List.drop_append_of_le_length hc]
      · simp [FcgiSt.consume]
    · simp only [hc, if_false]
      have hroom : fcgiCap st n - st.cache.length ≠ 0 := by
        unfold fcgiCap
        split <;> omega
      have hroomb : (fcgiCap st n - st.cache.length == 0) = false := by
        simp [hroom]
      simp only [hroomb, Bool.false_eq_true, if_false]
      cases hr : readSome (fcgiCap st n - st.cache.length) st.segs with
      | none =>
        have hnil := readSome_none hr
        have hs : st.stream = st.cache := by simp [FcgiSt.stream, hnil]
        have : ¬ (n ≤ st.stream.length) := by rw [hs]; omega
        simp only [this, if_false]
        refine ⟨⟨trivial, ?_⟩, ?_⟩
        · rw [refill_stream, hs]; simp
        · simp [FcgiSt.refill]
      | some p =>
        obtain ⟨got, segs'⟩ := p
        obtain ⟨hg, _, hcat⟩ := readSome_some (by omega) hr
        have hgl : 0 < got.length := by
          cases got with
          | nil => exact absurd rfl hg
          | cons _ _ => simp
        simp only
        have hst : (st.refill n got segs').stream = st.stream := by
          rw [refill_stream]; simp [FcgiSt.stream, List.append_assoc, hcat]
        have := ih (st.refill n got segs') (by simp [FcgiSt.refill]; omega)
        rw [hst] at this
        have ha : (st.refill n got segs').bodyAlloc = st.bodyAlloc := by simp [FcgiSt.refill]
        rw [ha] at this
        exact this

/-- the record reader over a plain byte stream (specification) -/
def fcgiReadRecordF (s : Bytes × Bool) (body : Bytes) : RecRes × (Bytes × Bool) :=
  if s.1.length < Gen.hdrSize then (.err .eof, s)
  else
    let h := parseFcgiHdr (s.1.take Gen.hdrSize)
    let rec_size := h.contentLength + h.paddingLength
    if rec_size == 0 then (.got h body, (s.1.drop Gen.hdrSize, s.2))
    else if s.1.length < Gen.hdrSize + rec_size then (.err .eof, (s.1.drop Gen.hdrSize, true))
    else (.got h (body ++ ((s.1.drop Gen.hdrSize).take rec_size).take h.contentLength), (s.1.drop (Gen.hdrSize + rec_size), true))

def flatReader : RecReader (Bytes × Bool) := ⟨fcgiReadRecordF, (·.2)⟩

/-- buffer-level connection state ~ (stream, body_ allocated) -/
def FRel (st : FcgiSt) (s : Bytes × Bool) : Prop := st.stream = s.1 ∧ st.bodyAlloc = s.2

theorem hdrSize_pos : 0 < Gen.hdrSize := by decide

theorem be16_lt (b : Bytes) (off : Nat) : be16 b off < 65536 := by
  unfold be16
  have h1 := (b.getD off 0).toNat_lt
  have h2 := (b.getD (off + 1) 0).toNat_lt
  omega

/-- the record size is computed without wrap-around in the declared type of `rec_size` (both paths) -/
theorem recSize_parse (hb : Bytes) :
    Gen.fcgiRecSizeAsync (parseFcgiHdr hb).contentLength (parseFcgiHdr hb).paddingLength =
      (parseFcgiHdr hb).contentLength + (parseFcgiHdr hb).paddingLength ∧
    Gen.fcgiRecSizeCached (parseFcgiHdr hb).contentLength (parseFcgiHdr hb).paddingLength =
      (parseFcgiHdr hb).contentLength + (parseFcgiHdr hb).paddingLength := by
  have h1 : (parseFcgiHdr hb).contentLength < 65536 := be16_lt _ _
  have h2 : (parseFcgiHdr hb).paddingLength < 256 := (hb.getD Gen.hdrOff_padding_length 0).toNat_lt
  unfold Gen.fcgiRecSizeAsync Gen.fcgiRecSizeCached
  constructor <;> (apply Nat.mod_eq_of_lt; omega)

theorem fcgiReadRecord_sim (st : FcgiSt) (s : Bytes × Bool) (body : Bytes) (hrel : FRel st s) :
    (fcgiReadRecord st body).1 = (fcgiReadRecordF s body).1 ∧
    FRel (fcgiReadRecord st body).2 (fcgiReadRecordF s body).2 := by
  obtain ⟨hs, ha⟩ := hrel
  unfold fcgiReadRecord fcgiReadRecordF
  obtain ⟨h1, h1a⟩ := fcgiFill_spec (Gen.hdrSize + 1) Gen.hdrSize st hdrSize_pos (by omega)
  cases hfill : fcgiFill (Gen.hdrSize + 1) Gen.hdrSize st with
  | mk r1 st1 =>
    rw [hfill] at h1 h1a
    simp only at h1 h1a
    rw [hs] at h1
    by_cases hlen : Gen.hdrSize ≤ s.1.length
    · have hnlt : ¬ (s.1.length < Gen.hdrSize) := by omega
      simp only [hlen, if_true] at h1
      obtain ⟨hr1, hst1⟩ := h1
      subst hr1
      simp only [hnlt, if_false]
      rw [(recSize_parse (s.1.take Gen.hdrSize)).1]
      generalize hh : parseFcgiHdr (s.1.take Gen.hdrSize) = h
      have hpl : ¬ (h.contentLength + h.paddingLength < h.paddingLength) := by omega
      have hsub : h.contentLength + h.paddingLength - h.paddingLength = h.contentLength := by omega
      simp only [hpl, if_false, hsub]
      by_cases hz : h.contentLength + h.paddingLength = 0
      · have : (h.contentLength + h.paddingLength == 0) = true := by rw [hz]; rfl
        simp only [this, if_true]
        exact ⟨trivial, hst1, by rw [h1a, ha]⟩
      · have hzb : (h.contentLength + h.paddingLength == 0) = false := by
          cases hq : h.contentLength + h.paddingLength with
          | zero => exact absurd hq hz
          | succ k => rfl
        simp only [hzb, Bool.false_eq_true, if_false]
        obtain ⟨h2, h2a⟩ := fcgiFill_spec (h.contentLength + h.paddingLength + 1) (h.contentLength + h.paddingLength)
          { st1 with bodyAlloc := true } (by omega) (by omega)
        have hstr : ({ st1 with bodyAlloc := true } : FcgiSt).stream = s.1.drop Gen.hdrSize := by
          simpa [FcgiSt.stream] using hst1
        cases hfill2 : fcgiFill (h.contentLength + h.paddingLength + 1) (h.contentLength + h.paddingLength) { st1 with bodyAlloc := true } with
        | mk r2 st2 =>
          rw [hfill2] at h2 h2a
          simp only at h2 h2a
          rw [hstr] at h2
          rw [List.length_drop] at h2
          by_cases hlen2 : Gen.hdrSize + (h.contentLength + h.paddingLength) ≤ s.1.length
          · have hc : h.contentLength + h.paddingLength ≤ s.1.length - Gen.hdrSize := by omega
            have hnlt2 : ¬ (s.1.length < Gen.hdrSize + (h.contentLength + h.paddingLength)) := by omega
            simp only [hc, if_true] at h2
            obtain ⟨hr2, hst2⟩ := h2
            subst hr2
            simp only [hnlt2, if_false]
            refine ⟨trivial, ?_, h2a⟩
            rw [hst2, List.drop_drop]
          · have hc : ¬ (h.contentLength + h.paddingLength ≤ s.1.length - Gen.hdrSize) := by omega
            have hlt2 : s.1.length < Gen.hdrSize + (h.contentLength + h.paddingLength) := by omega
            simp only [hc, if_false] at h2
            obtain ⟨hr2, hst2⟩ := h2
            subst hr2
            simp only [hlt2, if_true]
            exact ⟨trivial, hst2, h2a⟩
    · have hlt : s.1.length < Gen.hdrSize := by omega
      simp only [hlen, if_false] at h1
      obtain ⟨hr1, hst1⟩ := h1
      subst hr1
      simp only [hlt, if_true]
      exact ⟨trivial, hst1, by rw [h1a, ha]⟩

end Cppcms.C01

namespace Cppcms.C01
open Cppcms

/-- two record readers that deliver the same records from related states -/
structure RecSim {σ₁ σ₂ : Type} (R₁ : RecReader σ₁) (R₂ : RecReader σ₂) (Rel : σ₁ → σ₂ → Prop) : Prop where
  read : ∀ s1 s2 body, Rel s1 s2 →
    (R₁.read s1 body).1 = (R₂.read s2 body).1 ∧ Rel (R₁.read s1 body).2 (R₂.read s2 body).2
  alloc : ∀ s1 s2, Rel s1 s2 → R₁.alloc s1 = R₂.alloc s2

theorem buf_flat_sim : RecSim bufReader flatReader FRel where
  read := by
    intro s1 s2 body h
    exact fcgiReadRecord_sim s1 s2 body h
  alloc := by
    intro s1 s2 h
    exact h.2

section sim
variable {σ₁ σ₂ : Type} {R₁ : RecReader σ₁} {R₂ : RecReader σ₂} {Rel : σ₁ → σ₂ → Prop}

theorem fcgiParams_sim (hs : RecSim R₁ R₂ Rel) :
    ∀ (fuel : Nat) (h : FcgiHdr) (body : Bytes) (reqId : Nat) (s1 : σ₁) (s2 : σ₂), Rel s1 s2 →
      (fcgiParams R₁ fuel h body reqId s1).1 = (fcgiParams R₂ fuel h body reqId s2).1 ∧
      Rel (fcgiParams R₁ fuel h body reqId s1).2 (fcgiParams R₂ fuel h body reqId s2).2 := by
  intro fuel
  induction fuel with
  | zero => intro h body reqId s1 s2 hr; exact ⟨rfl, hr⟩
  | succ fuel ih =>
    intro h body reqId s1 s2 hr
    unfold fcgiParams
    split
    · exact ⟨rfl, hr⟩
    · split
      · split
        · obtain ⟨he, hr'⟩ := hs.read s1 s2 body hr
          cases h1 : R₁.read s1 body with
          | mk res1 s1' =>
            cases h2 : R₂.read s2 body with
            | mk res2 s2' =>
              rw [h1, h2] at he hr'
              simp only at he hr'
              subst he
              cases res1 with
              | err e => exact ⟨rfl, hr'⟩
              | crash w => exact ⟨rfl, hr'⟩
              | got h' body' => exact ih h' body' reqId s1' s2' hr'
        · exact ⟨rfl, hr⟩
      · exact ⟨rfl, hr⟩

theorem read_cases (hs : RecSim R₁ R₂ Rel) (s1 : σ₁) (s2 : σ₂) (body : Bytes) (hr : Rel s1 s2) :
    ∃ res s1' s2', R₁.read s1 body = (res, s1') ∧ R₂.read s2 body = (res, s2') ∧ Rel s1' s2' := by
  obtain ⟨he, hr'⟩ := hs.read s1 s2 body hr
  cases h1 : R₁.read s1 body with
  | mk res1 s1' =>
    cases h2 : R₂.read s2 body with
    | mk res2 s2' =>
      rw [h1, h2] at he hr'
      simp only at he hr'
      subst he
      exact ⟨res1, s1', s2', rfl, rfl, hr'⟩

/-- agreement of two header-phase results -/
def HRel (Rel : σ₁ → σ₂ → Prop) (a : List Outcome × Option FcgiReq × σ₁) (b : List Outcome × Option FcgiReq × σ₂) : Prop :=
  a.1 = b.1 ∧ a.2.1 = b.2.1 ∧ Rel a.2.2 b.2.2

theorem fcgiStdinEof_sim (hs : RecSim R₁ R₂ Rel) (r : FcgiReq) (s1 : σ₁) (s2 : σ₂) (out : List Outcome)
    (hr : Rel s1 s2) : HRel Rel (fcgiStdinEof R₁ r s1 out) (fcgiStdinEof R₂ r s2 out) := by
  obtain ⟨res, s1', s2', e1, e2, hr'⟩ := read_cases hs s1 s2 [] hr
  unfold fcgiStdinEof
  rw [e1, e2]
  cases res with
  | err e => exact ⟨rfl, rfl, hr'⟩
  | crash w => exact ⟨rfl, rfl, hr'⟩
  | got h2 b =>
    simp only
    split
    · exact ⟨rfl, rfl, hr'⟩
    · exact ⟨rfl, rfl, hr'⟩

theorem fcgiAfterBegin_sim (hs : RecSim R₁ R₂ Rel) (fuel reqId : Nat) (keep : Bool) (s1 : σ₁) (s2 : σ₂)
    (out : List Outcome) (hr : Rel s1 s2) :
    HRel Rel (fcgiAfterBegin R₁ fuel reqId keep s1 out) (fcgiAfterBegin R₂ fuel reqId keep s2 out) := by
  obtain ⟨res, s1', s2', e1, e2, hr'⟩ := read_cases hs s1 s2 [] hr
  unfold fcgiAfterBegin
  rw [e1, e2]
  cases res with
  | err e => exact ⟨rfl, rfl, hr'⟩
  | crash w => exact ⟨rfl, rfl, hr'⟩
  | got h1 b1 =>
    simp only
    obtain ⟨hp1, hp2⟩ := fcgiParams_sim hs fuel h1 b1 reqId s1' s2' hr'
    cases q1 : fcgiParams R₁ fuel h1 b1 reqId s1' with
    | mk pr1 t1 =>
      cases q2 : fcgiParams R₂ fuel h1 b1 reqId s2' with
      | mk pr2 t2 =>
        rw [q1, q2] at hp1 hp2
        simp only at hp1 hp2
        subst hp1
        cases pr1 with
        | error o => exact ⟨rfl, rfl, hp2⟩
        | ok pbody =>
          simp only
          unfold fcgiAfterParams
          simp only
          split
          · exact fcgiStdinEof_sim hs _ t1 t2 out hp2
          · exact ⟨rfl, rfl, hp2⟩

theorem fcgiHeaders_sim (hs : RecSim R₁ R₂ Rel) (conc : Bytes) :
    ∀ (fuel : Nat) (s1 : σ₁) (s2 : σ₂) (out : List Outcome), Rel s1 s2 →
      HRel Rel (fcgiHeaders R₁ conc fuel s1 out) (fcgiHeaders R₂ conc fuel s2 out) := by
  intro fuel
  induction fuel with
  | zero => intro s1 s2 out hr; exact ⟨rfl, rfl, hr⟩
  | succ fuel ih =>
    intro s1 s2 out hr
    obtain ⟨res, s1', s2', e1, e2, hr'⟩ := read_cases hs s1 s2 [] hr
    unfold fcgiHeaders
    rw [e1, e2]
    cases res with
    | err e => exact ⟨rfl, rfl, hr'⟩
    | crash w => exact ⟨rfl, rfl, hr'⟩
    | got h body =>
      simp only
      rw [hs.alloc s1' s2' hr']
      cases fcgiOnStart conc (R₂.alloc s2') h body with
      | stop o => exact ⟨rfl, rfl, hr'⟩
      | again reply =>
        cases reply with
        | none => exact ih s1' s2' out hr'
        | some o => exact ih s1' s2' (out ++ [o]) hr'
      | begin reqId keep => exact fcgiAfterBegin_sim hs (fuel + 1) reqId keep s1' s2' out hr'

end sim

/-! ## generic simulation of content readers -/

/-- two reader results agree: same error, or same bytes and related states -/
def ERel {τ₁ τ₂ : Type} (Q : τ₁ → τ₂ → Prop) (r1 : Except Err (Bytes × τ₁)) (r2 : Except Err (Bytes × τ₂)) : Prop :=
  match r1, r2 with
  | .error e1, .error e2 => e1 = e2
  | .ok (g1, t1), .ok (g2, t2) => g1 = g2 ∧ Q t1 t2
  | _, _ => False

theorem contentLoop_sim {τ₁ τ₂ : Type} {Q : τ₁ → τ₂ → Prop}
    {rd1 : Nat → τ₁ → Except Err (Bytes × τ₁)} {rd2 : Nat → τ₂ → Except Err (Bytes × τ₂)}
    (hrd : ∀ w t1 t2, Q t1 t2 → ERel Q (rd1 w t1) (rd2 w t2)) (chunk : Option Nat) :
    ∀ (fuel n : Nat) (acc : Bytes) (t1 : τ₁) (t2 : τ₂), Q t1 t2 →
      (contentLoop rd1 chunk fuel n acc t1).1 = (contentLoop rd2 chunk fuel n acc t2).1 ∧
      Q (contentLoop rd1 chunk fuel n acc t1).2 (contentLoop rd2 chunk fuel n acc t2).2 := by
  intro fuel
  induction fuel with
  | zero => intro n acc t1 t2 hq; exact ⟨rfl, hq⟩
  | succ fuel ih =>
    intro n acc t1 t2 hq
    unfold contentLoop
    split
    · exact ⟨rfl, hq⟩
    · have := hrd (wantOf chunk n) t1 t2 hq
      unfold ERel at this
      cases h1 : rd1 (wantOf chunk n) t1 with
      | error e1 =>
        cases h2 : rd2 (wantOf chunk n) t2 with
        | error e2 => rw [h1, h2] at this; simp only at this; subst this; exact ⟨rfl, hq⟩
        | ok p2 => rw [h1, h2] at this; exact absurd this (by simp)
      | ok p1 =>
        cases h2 : rd2 (wantOf chunk n) t2 with
        | error e2 => rw [h1, h2] at this; exact absurd this (by simp)
        | ok p2 =>
          obtain ⟨g1, u1⟩ := p1
          obtain ⟨g2, u2⟩ := p2
          rw [h1, h2] at this
          simp only at this
          obtain ⟨hg, hq'⟩ := this
          subst hg
          exact ih _ _ u1 u2 hq'

theorem runRequest_sim {τ₁ τ₂ : Type} {Q : τ₁ → τ₂ → Prop}
    {rd1 : Nat → τ₁ → Except Err (Bytes × τ₁)} {rd2 : Nat → τ₂ → Except Err (Bytes × τ₂)}
    (hrd : ∀ w t1 t2, Q t1 t2 → ERel Q (rd1 w t1) (rd2 w t2)) (lim : Limits) (h : Head) (t1 : τ₁) (t2 : τ₂)
    (hq : Q t1 t2) :
    (runRequest lim rd1 h t1).1 = (runRequest lim rd2 h t2).1 ∧ Q (runRequest lim rd1 h t1).2 (runRequest lim rd2 h t2).2 := by
  unfold runRequest
  cases requestPlan lim h with
  | done o => exact ⟨rfl, hq⟩
  | read n chunk pre fin =>
    simp only
    obtain ⟨h1, h2⟩ := contentLoop_sim hrd chunk (n + 1) n [] t1 t2 hq
    cases q1 : contentLoop rd1 chunk (n + 1) n [] t1 with
    | mk r1 u1 =>
      cases q2 : contentLoop rd2 chunk (n + 1) n [] t2 with
      | mk r2 u2 =>
        rw [q1, q2] at h1 h2
        simp only at h1 h2
        subst h1
        cases r1 with
        | error e => exact ⟨rfl, h2⟩
        | ok body => exact ⟨rfl, h2⟩

section sim2
variable {σ₁ σ₂ : Type} {R₁ : RecReader σ₁} {R₂ : RecReader σ₂} {Rel : σ₁ → σ₂ → Prop}

def BRel (Rel : σ₁ → σ₂ → Prop) (b1 : FcgiBody σ₁) (b2 : FcgiBody σ₂) : Prop :=
  Rel b1.st b2.st ∧ b1.body = b2.body ∧ b1.ptr = b2.ptr ∧ b1.readLen = b2.readLen ∧ b1.cl = b2.cl ∧ b1.reqId = b2.reqId

theorem fcgiAdvance_rel (want : Nat) (b1 : FcgiBody σ₁) (b2 : FcgiBody σ₂) (hb : BRel Rel b1 b2) :
    (fcgiAdvance want b1).1 = (fcgiAdvance want b2).1 ∧ BRel Rel (fcgiAdvance want b1).2 (fcgiAdvance want b2).2 := by
  obtain ⟨hst, hbody, hptr, hrl, hcl, hid⟩ := hb
  unfold fcgiAdvance
  simp only [hbody, hptr, hrl]
  split
  · exact ⟨rfl, hst, rfl, rfl, rfl, hcl, hid⟩
  · exact ⟨rfl, hst, rfl, rfl, rfl, hcl, hid⟩

theorem fcgiTake_sim (hs : RecSim R₁ R₂ Rel) (want : Nat) (b1 : FcgiBody σ₁) (b2 : FcgiBody σ₂) (hb : BRel Rel b1 b2) :
    ERel (BRel Rel) (fcgiTake R₁ want b1) (fcgiTake R₂ want b2) := by
  obtain ⟨hc, hrel⟩ := fcgiAdvance_rel want b1 b2 hb
  obtain ⟨hst, hbody, hptr, hrl, hcl, hid⟩ := hrel
  unfold fcgiTake
  simp only
  rw [hrl, hcl, hbody, hid]
  split
  · obtain ⟨res, s1', s2', e1, e2, hr'⟩ := read_cases hs _ _ (fcgiAdvance want b2).2.body hst
    rw [e1, e2]
    cases res with
    | err e => simp [ERel]
    | crash w => simp [ERel]
    | got h body' =>
      simp only
      split
      · simp [ERel]
      · exact ⟨hc, hr', rfl, hptr, rfl, rfl, rfl⟩
  · cases h1 : fcgiAdvance want b1 with
    | mk c1 p1 =>
      cases h2 : fcgiAdvance want b2 with
      | mk c2 p2 =>
        rw [h1, h2] at hc hst hbody hptr hrl hcl hid
        exact ⟨hc, hst, hbody, hptr, hrl, hcl, hid⟩

theorem fcgiReadSome_sim (hs : RecSim R₁ R₂ Rel) (want : Nat) (b1 : FcgiBody σ₁) (b2 : FcgiBody σ₂) (hb : BRel Rel b1 b2) :
    ERel (BRel Rel) (fcgiReadSome R₁ want b1) (fcgiReadSome R₂ want b2) := by
  have hb' := hb
  obtain ⟨hst, hbody, hptr, hrl, hcl, hid⟩ := hb
  unfold fcgiReadSome
  rw [hrl, hcl, hptr, hbody]
  split
  · simp [ERel]
  · split
    · exact fcgiTake_sim hs want b1 b2 hb'
    · obtain ⟨res, s1', s2', e1, e2, hr'⟩ := read_cases hs b1.st b2.st b2.body hst
      rw [← hbody] at e1
      rw [hbody] at e1
      simp only [e1, e2]
      cases res with
      | err e => simp [ERel]
      | crash w => simp [ERel]
      | got h body' =>
        simp only
        rw [hid]
        split
        · simp [ERel]
        · split
          · apply fcgiTake_sim hs
            exact ⟨hr', rfl, rfl, rfl, rfl, rfl⟩
          · simp [ERel]

theorem fcgiConn_sim (hs : RecSim R₁ R₂ Rel) (lim : Limits) (conc : Bytes) :
    ∀ (fuel : Nat) (s1 : σ₁) (s2 : σ₂), Rel s1 s2 → fcgiConn R₁ lim conc fuel s1 = fcgiConn R₂ lim conc fuel s2 := by
  intro fuel
  induction fuel with
  | zero => intro s1 s2 _; rfl
  | succ fuel ih =>
    intro s1 s2 hr
    unfold fcgiConn
    obtain ⟨h1, h2, h3⟩ := fcgiHeaders_sim hs conc (fuel + 1) s1 s2 [] hr
    cases q1 : fcgiHeaders R₁ conc (fuel + 1) s1 [] with
    | mk out1 rest1 =>
      obtain ⟨req1, t1⟩ := rest1
      cases q2 : fcgiHeaders R₂ conc (fuel + 1) s2 [] with
      | mk out2 rest2 =>
        obtain ⟨req2, t2⟩ := rest2
        rw [q1, q2] at h1 h2 h3
        simp only at h1 h2 h3
        subst h1 h2
        cases req1 with
        | none => rfl
        | some r =>
          simp only
          have hb : BRel Rel ({ st := t1, cl := r.cl, reqId := r.requestId } : FcgiBody σ₁)
              ({ st := t2, cl := r.cl, reqId := r.requestId } : FcgiBody σ₂) := ⟨h3, rfl, rfl, rfl, rfl, rfl⟩
          obtain ⟨ho, hb'⟩ := runRequest_sim (Q := BRel Rel) (fun w a b hab => fcgiReadSome_sim hs w a b hab) lim
            (Head.ofEnv r.env) _ _ hb
          cases w1 : runRequest lim (fcgiReadSome R₁) (Head.ofEnv r.env) { st := t1, cl := r.cl, reqId := r.requestId } with
          | mk o1 b1 =>
            cases w2 : runRequest lim (fcgiReadSome R₂) (Head.ofEnv r.env) { st := t2, cl := r.cl, reqId := r.requestId } with
            | mk o2 b2 =>
              rw [w1, w2] at ho hb'
              simp only at ho hb'
              subst ho
              simp only
              split
              · rw [ih b1.st b2.st hb'.1]
              · rfl

end sim2

/-- FastCGI connection over a plain byte stream (no segmentation, no cache) -/
def fcgiFlat (lim : Limits) (concurrency : Bytes) (s : Bytes) : List Outcome :=
  fcgiConn flatReader lim concurrency (s.length + 2) (s, false)

theorem streamLen_eq (segs : Segs) : streamLen segs = segs.flatten.length := by
  simp [streamLen, List.length_flatten]

theorem fcgiRun_eq_flat (lim : Limits) (conc : Bytes) (segs : Segs) :
    fcgiRun lim conc segs = fcgiFlat lim conc segs.flatten := by
  unfold fcgiRun fcgiFlat
  rw [streamLen_eq]
  apply fcgiConn_sim buf_flat_sim
  exact ⟨by simp [FcgiSt.stream], rfl⟩

end Cppcms.C01
