import Cppcms.C01.HttpProofs3
/-! HTTP: the generated `parser::step()` hands every plain header line, unchanged and one by one, to
the per-header code of `some_headers_data_read`, then reports the end of the headers. -/
namespace Cppcms.C01
open Cppcms

/-- a header line without CR, quotes or comments, not starting with a blank (no folding) -/
structure PlainLine (l : Bytes) : Prop where
  ne : l ≠ []
  chars : ∀ c ∈ l, c ≠ 13 ∧ c ≠ 34 ∧ c ≠ 40
  first : l.head? ≠ some 32 ∧ l.head? ≠ some 9

def natsOf (l : Bytes) : List Nat := l.map UInt8.toNat

theorem step_plain_observed (ps : Gen.PState) (c : UInt8) (hs : ps.state = Gen.ps_input_observed)
    (hc : c ≠ 13 ∧ c ≠ 34 ∧ c ≠ 40) : Gen.stepSwitch ps c.toNat = .cont { ps with state := Gen.ps_input_observed } := by
  have h1 : c.toNat ≠ 13 := fun h => hc.1 (UInt8.toNat_inj.mp (by simpa using h))
  have h2 : c.toNat ≠ 34 := fun h => hc.2.1 (UInt8.toNat_inj.mp (by simpa using h))
  have h3 : c.toNat ≠ 40 := fun h => hc.2.2 (UInt8.toNat_inj.mp (by simpa using h))
  unfold Gen.stepSwitch
  simp [hs, Gen.ps_idle, Gen.ps_input_observed, Gen.stepArm_input_observed, h1, h2, h3]

theorem step_plain_idle (ps : Gen.PState) (c : UInt8) (hs : ps.state = Gen.ps_idle)
    (hc : c ≠ 13 ∧ c ≠ 34 ∧ c ≠ 40) : Gen.stepSwitch ps c.toNat = .cont { ps with state := Gen.ps_input_observed, rhdr := [] } := by
  have h1 : c.toNat ≠ 13 := fun h => hc.1 (UInt8.toNat_inj.mp (by simpa using h))
  have h2 : c.toNat ≠ 34 := fun h => hc.2.1 (UInt8.toNat_inj.mp (by simpa using h))
  have h3 : c.toNat ≠ 40 := fun h => hc.2.2 (UInt8.toNat_inj.mp (by simpa using h))
  unfold Gen.stepSwitch
  simp [hs, Gen.ps_idle, Gen.stepArm_idle, h1, h2, h3, Gen.ps_input_observed]

/-- the parser in state `input_observed` runs through plain bytes, appending them -/
theorem parserRun_plain (l : Bytes) (hl : ∀ c ∈ l, c ≠ 13 ∧ c ≠ 34 ∧ c ≠ 40) :
    ∀ (ps : Gen.PState) (rest : Bytes), ps.state = Gen.ps_input_observed →
      parserRun ps (l ++ rest) = parserRun { ps with rhdr := (natsOf l).reverse ++ ps.rhdr } rest := by
  induction l with
  | nil => intro ps rest _; simp [natsOf]
  | cons c t ih =>
    intro ps rest hs
    have hc := hl c (by simp)
    simp only [List.cons_append]
    rw [parserRun_cons_cont _ (step_plain_observed ps c hs hc)]
    rw [ih (fun x hx => hl x (by simp [hx])) _ rest (by simp [Gen.ps_input_observed])]
    simp [natsOf, hs]

theorem step_cr_observed (ps : Gen.PState) (hs : ps.state = Gen.ps_input_observed) :
    Gen.stepSwitch ps 13 = .cont { ps with state := Gen.ps_lf_exptected } := by
  unfold Gen.stepSwitch
  simp [hs, Gen.ps_idle, Gen.ps_input_observed, Gen.stepArm_input_observed, Gen.ps_lf_exptected]

theorem step_lf (ps : Gen.PState) (hs : ps.state = Gen.ps_lf_exptected) :
    Gen.stepSwitch ps 10 = .cont { ps with state := Gen.ps_space_or_other_exptected } := by
  unfold Gen.stepSwitch
  simp [hs, Gen.ps_idle, Gen.ps_input_observed, Gen.ps_last_lf_exptected, Gen.ps_lf_exptected, Gen.stepArm_lf_exptected,
    Gen.ps_space_or_other_exptected]

theorem step_after_crlf (ps : Gen.PState) (c : UInt8) (hs : ps.state = Gen.ps_space_or_other_exptected)
    (hc : c ≠ 32 ∧ c ≠ 9) (hlen : 2 ≤ ps.rhdr.length) (hu : ps.under = false) :
    Gen.stepSwitch ps c.toNat = .ret Gen.pr_got_header { ps with state := Gen.ps_idle, rhdr := ps.rhdr.drop 2, unget := true } := by
  have h1 : c.toNat ≠ 32 := fun h => hc.1 (UInt8.toNat_inj.mp (by simpa using h))
  have h2 : c.toNat ≠ 9 := fun h => hc.2 (UInt8.toNat_inj.mp (by simpa using h))
  have h3 : ¬ (ps.rhdr.length < 2) := by omega
  unfold Gen.stepSwitch
  simp [hs, Gen.ps_idle, Gen.ps_input_observed, Gen.ps_last_lf_exptected, Gen.ps_lf_exptected, Gen.ps_space_or_other_exptected,
    Gen.stepArm_space_or_other_exptected, h1, h2, h3, hu, Gen.pr_got_header]

/-- obs-fold: after CRLF a blank **or a horizontal tab** continues the header: the CRLF is dropped from
`header_`, the blank/tab itself is kept -/
theorem step_fold (ps : Gen.PState) (c : UInt8) (hs : ps.state = Gen.ps_space_or_other_exptected)
    (hc : c = 32 ∨ c = 9) (hlen : 2 ≤ ps.rhdr.length) (hu : ps.under = false) :
    Gen.stepSwitch ps c.toNat = .cont { ps with state := Gen.ps_input_observed, rhdr := ps.rhdr.drop 2 } := by
  have h3 : ¬ (ps.rhdr.length < 2) := by omega
  unfold Gen.stepSwitch
  rcases hc with rfl | rfl <;>
  simp [hs, Gen.ps_idle, Gen.ps_input_observed, Gen.ps_last_lf_exptected, Gen.ps_lf_exptected, Gen.ps_space_or_other_exptected,
    Gen.stepArm_space_or_other_exptected, h3, hu]

/-- a continuation piece of a folded header: starts with SP or HTAB, no CR, quote or comment character -/
structure ContPiece (p : Bytes) : Prop where
  first : p.head? = some 32 ∨ p.head? = some 9
  chars : ∀ c ∈ p, c ≠ 13 ∧ c ≠ 34 ∧ c ≠ 40

/-- wire form of the continuation lines: `CRLF piece` each -/
def encCont (tail : List Bytes) : Bytes := tail.flatMap fun p => 13 :: 10 :: p

/-- inside a header (state `input_observed`): continuation lines are appended without their CRLF, then
the line ends at a CRLF that is not followed by SP/HTAB -/
theorem parserRun_cont (c : UInt8) (hc : c ≠ 32 ∧ c ≠ 9) (rest : Bytes) :
    ∀ (tail : List Bytes) (ps : Gen.PState), (∀ p ∈ tail, ContPiece p) → ps.state = Gen.ps_input_observed →
      ps.under = false → ps.unget = false →
      parserRun ps (encCont tail ++ 13 :: 10 :: c :: rest) =
        (Gen.pr_got_header, { ps with state := Gen.ps_idle, rhdr := (natsOf tail.flatten).reverse ++ ps.rhdr }, c :: rest) := by
  intro tail
  induction tail with
  | nil =>
    intro ps _ hs hu hg
    simp only [encCont, List.flatMap_nil, List.nil_append]
    rw [parserRun_cons_cont (c := 13) _ (step_cr_observed ps hs)]
    rw [parserRun_cons_cont (c := 10) _ (step_lf _ (by simp [Gen.ps_lf_exptected]))]
    rw [parserRun_cons_ret _ (step_after_crlf _ c (by simp [Gen.ps_space_or_other_exptected]) hc (by simp) (by simpa using hu))]
    simp [natsOf, hg, hu]
  | cons p t ih =>
    intro ps hw hs hu hg
    obtain ⟨hf, hch⟩ := hw p (by simp)
    have hwt : ∀ q ∈ t, ContPiece q := fun q hq => hw q (by simp [hq])
    cases p with
    | nil => simp at hf
    | cons b p' =>
      have hb : b = 32 ∨ b = 9 := by simpa using hf
      have hp' : ∀ x ∈ p', x ≠ 13 ∧ x ≠ 34 ∧ x ≠ 40 := fun x hx => hch x (by simp [hx])
      have hshape : encCont ((b :: p') :: t) ++ 13 :: 10 :: c :: rest = 13 :: 10 :: b :: (p' ++ (encCont t ++ 13 :: 10 :: c :: rest)) := by
        simp [encCont, List.append_assoc]
      rw [hshape]
      rw [parserRun_cons_cont (c := 13) _ (step_cr_observed ps hs)]
      rw [parserRun_cons_cont (c := 10) _ (step_lf _ (by simp [Gen.ps_lf_exptected]))]
      rw [parserRun_cons_cont _ (step_fold _ b (by simp [Gen.ps_space_or_other_exptected]) hb (by simp) (by simpa using hu))]
      rw [parserRun_plain p' hp' _ _ (by simp [Gen.ps_input_observed])]
      rw [ih _ hwt (by simp [Gen.ps_input_observed]) (by simpa using hu) (by simpa using hg)]
      simp [natsOf, List.append_assoc]

/-- one complete plain header line, seen from the idle state: `got_header` with exactly that line in
`header_`, the look-ahead byte pushed back -/
theorem parserRun_line (l : Bytes) (hl : PlainLine l) (c : UInt8) (hc : c ≠ 32 ∧ c ≠ 9) (rest : Bytes)
    (ps : Gen.PState) (hs : ps.state = Gen.ps_idle) (hu : ps.under = false) (hg : ps.unget = false) :
    parserRun ps (l ++ 13 :: 10 :: c :: rest) =
      (Gen.pr_got_header, { ps with state := Gen.ps_idle, rhdr := (natsOf l).reverse }, c :: rest) := by
  obtain ⟨hne, hch, _⟩ := hl
  cases l with
  | nil => exact absurd rfl hne
  | cons c0 t =>
    have hc0 := hch c0 (by simp)
    have ht : ∀ x ∈ t, x ≠ 13 ∧ x ≠ 34 ∧ x ≠ 40 := fun x hx => hch x (by simp [hx])
    simp only [List.cons_append]
    rw [parserRun_cons_cont _ (step_plain_idle ps c0 hs hc0)]
    rw [parserRun_plain t ht _ _ (by simp [Gen.ps_input_observed])]
    rw [parserRun_cons_cont (c := 13) _ (step_cr_observed _ (by simp [Gen.ps_input_observed]))]
    rw [parserRun_cons_cont (c := 10) _ (step_lf _ (by simp [Gen.ps_lf_exptected]))]
    rw [parserRun_cons_ret _ (step_after_crlf _ c (by simp [Gen.ps_space_or_other_exptected]) hc (by simp) (by simpa using hu))]
    simp [natsOf, hg, hu]

theorem step_cr_idle (ps : Gen.PState) (hs : ps.state = Gen.ps_idle) :
    Gen.stepSwitch ps 13 = .cont { ps with state := Gen.ps_last_lf_exptected, rhdr := [] } := by
  unfold Gen.stepSwitch
  simp [hs, Gen.ps_idle, Gen.stepArm_idle, Gen.ps_last_lf_exptected]

theorem step_last_lf (ps : Gen.PState) (hs : ps.state = Gen.ps_last_lf_exptected) :
    Gen.stepSwitch ps 10 = .ret Gen.pr_end_of_headers { ps with rhdr := [] } := by
  unfold Gen.stepSwitch
  simp [hs, Gen.ps_idle, Gen.ps_input_observed, Gen.ps_last_lf_exptected, Gen.stepArm_last_lf_exptected, Gen.pr_end_of_headers]

/-- the empty line that ends the header section -/
theorem parserRun_end (rest : Bytes) (ps : Gen.PState) (hs : ps.state = Gen.ps_idle) (hg : ps.unget = false) :
    parserRun ps (13 :: 10 :: rest) = (Gen.pr_end_of_headers, { ps with state := Gen.ps_last_lf_exptected, rhdr := [] }, rest) := by
  rw [parserRun_cons_cont (c := 13) _ (step_cr_idle ps hs)]
  rw [parserRun_cons_ret (c := 10) _ (step_last_lf _ (by simp [Gen.ps_last_lf_exptected]))]
  simp [hg]

/-- header section as the peer writes it: every line followed by CRLF, then the empty line -/
def encLines (ls : List Bytes) : Bytes := ls.flatMap (fun l => l ++ [13, 10]) ++ [13, 10]

/-- what `header_` holds when `got_header` is reported for line `l` -/
def lineState (ps : Gen.PState) (l : Bytes) : Gen.PState := { ps with state := Gen.ps_idle, rhdr := (natsOf l).reverse }

/-- the per-header code of `some_headers_data_read` applied to the lines in order -/
def feedLines : HttpReq → List Bytes → Option HttpReq
  | r, [] => some r
  | r, l :: ls =>
    match httpGotHeader { r with ps := lineState r.ps l } with
    | none => none
    | some r' => feedLines r' ls

theorem encLines_head (ls : List Bytes) (body : Bytes) (hw : ∀ l ∈ ls, PlainLine l) :
    ∃ c rest, encLines ls ++ body = c :: rest ∧ c ≠ 32 ∧ c ≠ 9 := by
  cases ls with
  | nil => exact ⟨13, 10 :: body, by simp [encLines], by decide, by decide⟩
  | cons l t =>
    obtain ⟨hne, _, hf⟩ := hw l (by simp)
    cases l with
    | nil => exact absurd rfl hne
    | cons c u =>
      refine ⟨c, u ++ [13, 10] ++ (encLines t ++ body), by simp [encLines, List.append_assoc], ?_, ?_⟩
      · intro h0; apply hf.1; simp [h0]
      · intro h0; apply hf.2; simp [h0]

variable (cfg : HttpCfg)

/-- **header lines round trip** (generated parser): plain header lines reach the per-header code unchanged,
one by one and in order; after the empty line `process_request` runs and the body is left unread. -/
theorem hdrLoopC_lines : ∀ (ls : List Bytes) (r r' : HttpReq) (body : Bytes), (∀ l ∈ ls, PlainLine l) →
    r.ps.state = Gen.ps_idle → r.ps.under = false → r.ps.unget = false → feedLines r ls = some r' →
    hdrLoopC cfg r (encLines ls ++ body) =
      (match httpProcess cfg { r' with ps := { r'.ps with state := Gen.ps_last_lf_exptected, rhdr := [] } } with
       | none => .fin (.done .raw400) body
       | some h => .fin (.head h r'.is11) body) := by
  intro ls
  induction ls with
  | nil =>
    intro r r' body _ hs hu hg hfeed
    simp only [feedLines, Option.some.injEq] at hfeed
    subst hfeed
    rw [hdrLoopC_unfold]
    have : encLines [] ++ body = 13 :: 10 :: body := by simp [encLines]
    rw [this, parserRun_end body r.ps hs hg]
    simp [hu, Gen.pr_end_of_headers, Gen.pr_more_data, Gen.pr_got_header]
    rfl
  | cons l t ih =>
    intro r r' body hw hs hu hg hfeed
    have hwl := hw l (by simp)
    have hwt : ∀ x ∈ t, PlainLine x := fun x hx => hw x (by simp [hx])
    obtain ⟨c, rest, hcr, hc1, hc2⟩ := encLines_head t body hwt
    have hshape : encLines (l :: t) ++ body = l ++ 13 :: 10 :: c :: rest := by
      rw [← hcr]; simp [encLines, List.append_assoc]
    rw [hdrLoopC_unfold, hshape, parserRun_line l hwl c ⟨hc1, hc2⟩ rest r.ps hs hu hg]
    simp only [hu, Bool.false_eq_true, if_false]
    have h1 : (Gen.pr_got_header == Gen.pr_more_data) = false := by decide
    have h2 : (Gen.pr_got_header == Gen.pr_got_header) = true := by decide
    simp only [h1, h2, Bool.false_eq_true, if_false, if_true]
    unfold feedLines at hfeed
    unfold lineState at hfeed
    have hq : ({ r.ps with state := Gen.ps_idle, rhdr := (natsOf l).reverse } : Gen.PState) =
        { state := Gen.ps_idle, bc := r.ps.bc, rhdr := (natsOf l).reverse, unget := r.ps.unget } := by
      cases hr : r.ps with
      | mk st bc rh ug ud =>
        rw [hr] at hu
        simp only at hu
        subst hu
        rfl
    rw [hq] at hfeed
    cases hh : httpGotHeader { r with ps := { state := Gen.ps_idle, bc := r.ps.bc, rhdr := (natsOf l).reverse, unget := r.ps.unget } } with
    | none => rw [hh] at hfeed; simp at hfeed
    | some r2 =>
      rw [hh] at hfeed
      simp only at hfeed ⊢
      have hps := httpGotHeader_ps hh
      simp only at hps
      have := ih r2 r' body hwt (by rw [hps]) (by rw [hps]) (by rw [hps]; exact hg) hfeed
      rw [hcr] at this
      exact this

/-! ## folded headers (obs-fold = CRLF 1*(SP / HTAB)) -/

/-- a header line as the peer writes it: a first line and continuation lines -/
structure FLine where
  head : Bytes
  tail : List Bytes := []

/-- on the wire: the continuation lines follow after CRLF -/
def FLine.wire (l : FLine) : Bytes := l.head ++ encCont l.tail
/-- what the peer means, with the normalisation the code really applies: the CRLFs of the folds are
dropped, the blanks/tabs that start the continuation lines are kept -/
def FLine.value (l : FLine) : Bytes := l.head ++ l.tail.flatten

structure WFLine (l : FLine) : Prop where
  head : PlainLine l.head
  tail : ∀ p ∈ l.tail, ContPiece p

/-- **folded header round trip** at the parser: a header folded with SP or HTAB continuation lines is
reported (`got_header`) with the unfolded value in `header_`, the look-ahead byte pushed back -/
theorem parserRun_fline (l : FLine) (hl : WFLine l) (c : UInt8) (hc : c ≠ 32 ∧ c ≠ 9) (rest : Bytes)
    (ps : Gen.PState) (hs : ps.state = Gen.ps_idle) (hu : ps.under = false) (hg : ps.unget = false) :
    parserRun ps (l.wire ++ 13 :: 10 :: c :: rest) =
      (Gen.pr_got_header, { ps with state := Gen.ps_idle, rhdr := (natsOf l.value).reverse }, c :: rest) := by
  obtain ⟨⟨hne, hch, _⟩, htl⟩ := hl
  unfold FLine.wire FLine.value
  cases hh : l.head with
  | nil => exact absurd hh hne
  | cons c0 t =>
    rw [hh] at hch
    have hc0 := hch c0 (by simp)
    have ht : ∀ x ∈ t, x ≠ 13 ∧ x ≠ 34 ∧ x ≠ 40 := fun x hx => hch x (by simp [hx])
    simp only [List.cons_append, List.append_assoc]
    rw [parserRun_cons_cont _ (step_plain_idle ps c0 hs hc0)]
    rw [parserRun_plain t ht _ _ (by simp [Gen.ps_input_observed])]
    rw [parserRun_cont c hc rest l.tail _ htl (by simp [Gen.ps_input_observed]) (by simpa using hu) (by simpa using hg)]
    simp [natsOf, List.append_assoc]

def encFLines (ls : List FLine) : Bytes := ls.flatMap (fun l => l.wire ++ [13, 10]) ++ [13, 10]

theorem encFLines_head (ls : List FLine) (body : Bytes) (hw : ∀ l ∈ ls, WFLine l) :
    ∃ c rest, encFLines ls ++ body = c :: rest ∧ c ≠ 32 ∧ c ≠ 9 := by
  cases ls with
  | nil => exact ⟨13, 10 :: body, by simp [encFLines], by decide, by decide⟩
  | cons l t =>
    obtain ⟨⟨hne, _, hf⟩, _⟩ := hw l (by simp)
    cases hh : l.head with
    | nil => exact absurd hh hne
    | cons c u =>
      rw [hh] at hf
      refine ⟨c, u ++ encCont l.tail ++ [13, 10] ++ (encFLines t ++ body), by simp [encFLines, FLine.wire, hh, List.append_assoc], ?_, ?_⟩
      · intro h0; apply hf.1; simp [h0]
      · intro h0; apply hf.2; simp [h0]

/-- header section with folded headers: every header reaches the per-header code with its unfolded value,
one by one and in order; then `process_request`; the body is left unread -/
theorem hdrLoopC_flines (cfg : HttpCfg) : ∀ (ls : List FLine) (r r' : HttpReq) (body : Bytes), (∀ l ∈ ls, WFLine l) →
    r.ps.state = Gen.ps_idle → r.ps.under = false → r.ps.unget = false → feedLines r (ls.map FLine.value) = some r' →
    hdrLoopC cfg r (encFLines ls ++ body) =
      (match httpProcess cfg { r' with ps := { r'.ps with state := Gen.ps_last_lf_exptected, rhdr := [] } } with
       | none => .fin (.done .raw400) body
       | some h => .fin (.head h r'.is11) body) := by
  intro ls
  induction ls with
  | nil =>
    intro r r' body _ hs hu hg hfeed
    simp only [List.map_nil, feedLines, Option.some.injEq] at hfeed
    subst hfeed
    rw [hdrLoopC_unfold]
    have : encFLines [] ++ body = 13 :: 10 :: body := by simp [encFLines]
    rw [this, parserRun_end body r.ps hs hg]
    simp [hu, Gen.pr_end_of_headers, Gen.pr_more_data, Gen.pr_got_header]
    rfl
  | cons l t ih =>
    intro r r' body hw hs hu hg hfeed
    have hwl := hw l (by simp)
    have hwt : ∀ x ∈ t, WFLine x := fun x hx => hw x (by simp [hx])
    obtain ⟨c, rest, hcr, hc1, hc2⟩ := encFLines_head t body hwt
    have hshape : encFLines (l :: t) ++ body = l.wire ++ 13 :: 10 :: c :: rest := by
      rw [← hcr]; simp [encFLines, List.append_assoc]
    rw [hdrLoopC_unfold, hshape, parserRun_fline l hwl c ⟨hc1, hc2⟩ rest r.ps hs hu hg]
    simp only [hu, Bool.false_eq_true, if_false]
    have h1 : (Gen.pr_got_header == Gen.pr_more_data) = false := by decide
    have h2 : (Gen.pr_got_header == Gen.pr_got_header) = true := by decide
    simp only [h1, h2, Bool.false_eq_true, if_false, if_true]
    simp only [List.map_cons] at hfeed
    unfold feedLines at hfeed
    unfold lineState at hfeed
    have hq : ({ r.ps with state := Gen.ps_idle, rhdr := (natsOf l.value).reverse } : Gen.PState) =
        { state := Gen.ps_idle, bc := r.ps.bc, rhdr := (natsOf l.value).reverse, unget := r.ps.unget } := by
      cases hr : r.ps with
      | mk st bc rh ug ud =>
        rw [hr] at hu
        simp only at hu
        subst hu
        rfl
    rw [hq] at hfeed
    cases hh : httpGotHeader { r with ps := { state := Gen.ps_idle, bc := r.ps.bc, rhdr := (natsOf l.value).reverse, unget := r.ps.unget } } with
    | none => rw [hh] at hfeed; simp at hfeed
    | some r2 =>
      rw [hh] at hfeed
      simp only at hfeed ⊢
      have hps := httpGotHeader_ps hh
      simp only at hps
      have := ih r2 r' body hwt (by rw [hps]) (by rw [hps]) (by rw [hps]; exact hg) hfeed
      rw [hcr] at this
      exact this

end Cppcms.C01
