import Cppcms.C01.HttpProofs3
set_option linter.unusedSimpArgs false
/-! HTTP: the generated `parser::step()` hands every plain header line, unchanged and one by one, to
the per-header code of `some_headers_data_read`, then reports the end of the headers. -/
namespace Cppcms.C01
open Cppcms

/-! ## what may stand inside a header line

The generated parser knows quoted strings (`"…"`, `\c` inside) and comments (`(…)`, `\c` inside; not nested) and
passes their bytes through to `header_` like any other byte.  `LMode` is the peer's view of where it is in a
line; `lmStep` says which bytes it may write there (`none`: a CR outside quotes/comments — the line ends there —,
or a backslash followed by a byte ≥ 127, which the parser rejects). -/

inductive LMode
  | plain | quote | quoteEsc | comment | commentEsc
deriving Repr, DecidableEq

def lmStep : LMode → UInt8 → Option LMode
  | .plain, c => if c == 13 then none else if c == 34 then some .quote else if c == 40 then some .comment else some .plain
  | .quote, c => if c == 34 then some .plain else if c == 92 then some .quoteEsc else some .quote
  | .quoteEsc, c => if c.toNat ≥ 127 then none else some .quote
  | .comment, c => if c == 41 then some .plain else if c == 92 then some .commentEsc else some .comment
  | .commentEsc, c => if c.toNat ≥ 127 then none else some .comment

def lmRun : LMode → Bytes → Option LMode
  | m, [] => some m
  | m, c :: t => match lmStep m c with
    | none => none
    | some m' => lmRun m' t

/-- a stretch of a header line with balanced quoted strings and comments and no bare CR -/
def Balanced (l : Bytes) : Prop := lmRun .plain l = some .plain

instance (l : Bytes) : Decidable (Balanced l) := by unfold Balanced; infer_instance

theorem balanced_of_chars (l : Bytes) (h : ∀ c ∈ l, c ≠ 13 ∧ c ≠ 34 ∧ c ≠ 40) : Balanced l := by
  unfold Balanced
  induction l with
  | nil => rfl
  | cons c t ih =>
    have hc := h c (by simp)
    simp only [lmRun, lmStep, beq_iff_eq, hc.1, hc.2.1, hc.2.2, if_false]
    exact ih (fun x hx => h x (by simp [hx]))

/-- a header line: balanced, not empty, not starting with a blank (that would be a continuation) -/
structure PlainLine (l : Bytes) : Prop where
  ne : l ≠ []
  body : Balanced l
  first : l.head? ≠ some 32 ∧ l.head? ≠ some 9

def natsOf (l : Bytes) : List Nat := l.map UInt8.toNat

def stateOf : LMode → Nat
  | .plain => Gen.ps_input_observed
  | .quote => Gen.ps_quote_expected
  | .quoteEsc => Gen.ps_pass_quote_exptected
  | .comment => Gen.ps_closing_bracket_expected
  | .commentEsc => Gen.ps_pass_closing_bracket_expected

/-- `bracket_counter_` -/
def bcOf : LMode → Nat
  | .comment => 1
  | .commentEsc => 1
  | _ => 0

theorem toNat_ne {c : UInt8} {n : Nat} (hn : n < 256) (h : c ≠ UInt8.ofNat n) : c.toNat ≠ n := by
  intro e
  apply h
  apply UInt8.toNat_inj.mp
  rw [e]
  simp [Nat.mod_eq_of_lt hn]

/-- the generated transition follows the peer's modes: byte by byte, inside a line -/
theorem step_sim (m m' : LMode) (ps : Gen.PState) (c : UInt8) (hs : ps.state = stateOf m) (hb : ps.bc = bcOf m)
    (hu : ps.under = false) (h : lmStep m c = some m') :
    Gen.stepSwitch ps c.toNat = .cont { ps with state := stateOf m', bc := bcOf m' } := by
  cases m with
  | plain =>
    simp only [lmStep] at h
    by_cases h13 : c = 13
    · simp [h13] at h
    by_cases h34 : c = 34
    · subst h34
      simp only [beq_iff_eq, h13, if_false] at h
      have : m' = .quote := by simpa using h.symm
      subst this
      unfold Gen.stepSwitch
      simp [hs, stateOf, bcOf, Gen.ps_idle, Gen.ps_input_observed, Gen.stepArm_input_observed, Gen.ps_quote_expected] at hb ⊢
      first | done | (cases ps; simp_all [stateOf, bcOf, Gen.ps_idle, Gen.ps_input_observed, Gen.ps_quote_expected, Gen.ps_pass_quote_exptected, Gen.ps_closing_bracket_expected, Gen.ps_pass_closing_bracket_expected])
    by_cases h40 : c = 40
    · subst h40
      have : m' = .comment := by simpa using h.symm
      subst this
      unfold Gen.stepSwitch
      simp [hs, stateOf, bcOf, Gen.ps_idle, Gen.ps_input_observed, Gen.stepArm_input_observed,
        Gen.ps_closing_bracket_expected] at hb ⊢
      first | done | (cases ps; simp_all [stateOf, bcOf, Gen.ps_idle, Gen.ps_input_observed, Gen.ps_quote_expected, Gen.ps_pass_quote_exptected, Gen.ps_closing_bracket_expected, Gen.ps_pass_closing_bracket_expected])
    · have : m' = .plain := by simpa [h13, h34, h40] using h.symm
      subst this
      have n13 := toNat_ne (n := 13) (by decide) h13
      have n34 := toNat_ne (n := 34) (by decide) h34
      have n40 := toNat_ne (n := 40) (by decide) h40
      unfold Gen.stepSwitch
      simp [hs, stateOf, bcOf, Gen.ps_idle, Gen.ps_input_observed, Gen.stepArm_input_observed, n13, n34, n40] at hb ⊢
      first | done | (cases ps; simp_all [stateOf, bcOf, Gen.ps_idle, Gen.ps_input_observed, Gen.ps_quote_expected, Gen.ps_pass_quote_exptected, Gen.ps_closing_bracket_expected, Gen.ps_pass_closing_bracket_expected])
  | quote =>
    simp only [lmStep] at h
    by_cases h34 : c = 34
    · subst h34
      have : m' = .plain := by simpa using h.symm
      subst this
      unfold Gen.stepSwitch
      simp [hs, stateOf, bcOf, Gen.ps_idle, Gen.ps_input_observed, Gen.ps_last_lf_exptected, Gen.ps_lf_exptected,
        Gen.ps_space_or_other_exptected, Gen.ps_quote_expected, Gen.stepArm_quote_expected] at hb ⊢
      first | done | (cases ps; simp_all [stateOf, bcOf, Gen.ps_idle, Gen.ps_input_observed, Gen.ps_quote_expected, Gen.ps_pass_quote_exptected, Gen.ps_closing_bracket_expected, Gen.ps_pass_closing_bracket_expected])
    by_cases h92 : c = 92
    · subst h92
      have : m' = .quoteEsc := by simpa using h.symm
      subst this
      unfold Gen.stepSwitch
      simp [hs, stateOf, bcOf, Gen.ps_idle, Gen.ps_input_observed, Gen.ps_last_lf_exptected, Gen.ps_lf_exptected,
        Gen.ps_space_or_other_exptected, Gen.ps_quote_expected, Gen.stepArm_quote_expected, Gen.ps_pass_quote_exptected] at hb ⊢
      first | done | (cases ps; simp_all [stateOf, bcOf, Gen.ps_idle, Gen.ps_input_observed, Gen.ps_quote_expected, Gen.ps_pass_quote_exptected, Gen.ps_closing_bracket_expected, Gen.ps_pass_closing_bracket_expected])
    · have : m' = .quote := by simpa [h34, h92] using h.symm
      subst this
      have n34 := toNat_ne (n := 34) (by decide) h34
      have n92 := toNat_ne (n := 92) (by decide) h92
      unfold Gen.stepSwitch
      simp [hs, stateOf, bcOf, Gen.ps_idle, Gen.ps_input_observed, Gen.ps_last_lf_exptected, Gen.ps_lf_exptected,
        Gen.ps_space_or_other_exptected, Gen.ps_quote_expected, Gen.stepArm_quote_expected, n34, n92] at hb ⊢
      first | done | (cases ps; simp_all [stateOf, bcOf, Gen.ps_idle, Gen.ps_input_observed, Gen.ps_quote_expected, Gen.ps_pass_quote_exptected, Gen.ps_closing_bracket_expected, Gen.ps_pass_closing_bracket_expected])
  | quoteEsc =>
    simp only [lmStep] at h
    by_cases hge : c.toNat ≥ 127
    · simp [hge] at h
    · have : m' = .quote := by simpa [hge] using h.symm
      subst this
      unfold Gen.stepSwitch
      simp [hs, stateOf, bcOf, Gen.ps_idle, Gen.ps_input_observed, Gen.ps_last_lf_exptected, Gen.ps_lf_exptected,
        Gen.ps_space_or_other_exptected, Gen.ps_quote_expected, Gen.ps_pass_quote_exptected,
        Gen.stepArm_pass_quote_exptected, hge] at hb ⊢
      first | done | (cases ps; simp_all [stateOf, bcOf, Gen.ps_idle, Gen.ps_input_observed, Gen.ps_quote_expected, Gen.ps_pass_quote_exptected, Gen.ps_closing_bracket_expected, Gen.ps_pass_closing_bracket_expected])
  | comment =>
    simp only [lmStep] at h
    by_cases h41 : c = 41
    · subst h41
      have : m' = .plain := by simpa using h.symm
      subst this
      unfold Gen.stepSwitch
      simp [hs, stateOf, bcOf, Gen.ps_idle, Gen.ps_input_observed, Gen.ps_last_lf_exptected, Gen.ps_lf_exptected,
        Gen.ps_space_or_other_exptected, Gen.ps_quote_expected, Gen.ps_pass_quote_exptected,
        Gen.ps_closing_bracket_expected, Gen.stepArm_closing_bracket_expected, hb, hu] at hb ⊢
      first | done | (cases ps; simp_all [stateOf, bcOf, Gen.ps_idle, Gen.ps_input_observed, Gen.ps_quote_expected, Gen.ps_pass_quote_exptected, Gen.ps_closing_bracket_expected, Gen.ps_pass_closing_bracket_expected])
    by_cases h92 : c = 92
    · subst h92
      have : m' = .commentEsc := by simpa using h.symm
      subst this
      unfold Gen.stepSwitch
      simp [hs, stateOf, bcOf, Gen.ps_idle, Gen.ps_input_observed, Gen.ps_last_lf_exptected, Gen.ps_lf_exptected,
        Gen.ps_space_or_other_exptected, Gen.ps_quote_expected, Gen.ps_pass_quote_exptected,
        Gen.ps_closing_bracket_expected, Gen.stepArm_closing_bracket_expected, Gen.ps_pass_closing_bracket_expected] at hb ⊢
      first | done | (cases ps; simp_all [stateOf, bcOf, Gen.ps_idle, Gen.ps_input_observed, Gen.ps_quote_expected, Gen.ps_pass_quote_exptected, Gen.ps_closing_bracket_expected, Gen.ps_pass_closing_bracket_expected])
    · have : m' = .comment := by simpa [h41, h92] using h.symm
      subst this
      have n41 := toNat_ne (n := 41) (by decide) h41
      have n92 := toNat_ne (n := 92) (by decide) h92
      unfold Gen.stepSwitch
      simp [hs, stateOf, bcOf, Gen.ps_idle, Gen.ps_input_observed, Gen.ps_last_lf_exptected, Gen.ps_lf_exptected,
        Gen.ps_space_or_other_exptected, Gen.ps_quote_expected, Gen.ps_pass_quote_exptected,
        Gen.ps_closing_bracket_expected, Gen.stepArm_closing_bracket_expected, n41, n92] at hb ⊢
      first | done | (cases ps; simp_all [stateOf, bcOf, Gen.ps_idle, Gen.ps_input_observed, Gen.ps_quote_expected, Gen.ps_pass_quote_exptected, Gen.ps_closing_bracket_expected, Gen.ps_pass_closing_bracket_expected])
  | commentEsc =>
    simp only [lmStep] at h
    by_cases hge : c.toNat ≥ 127
    · simp [hge] at h
    · have : m' = .comment := by simpa [hge] using h.symm
      subst this
      unfold Gen.stepSwitch
      simp [hs, stateOf, bcOf, Gen.ps_idle, Gen.ps_input_observed, Gen.ps_last_lf_exptected, Gen.ps_lf_exptected,
        Gen.ps_space_or_other_exptected, Gen.ps_quote_expected, Gen.ps_pass_quote_exptected,
        Gen.ps_closing_bracket_expected, Gen.ps_pass_closing_bracket_expected,
        Gen.stepArm_pass_closing_bracket_expected, hge] at hb ⊢
      first | done | (cases ps; simp_all [stateOf, bcOf, Gen.ps_idle, Gen.ps_input_observed, Gen.ps_quote_expected, Gen.ps_pass_quote_exptected, Gen.ps_closing_bracket_expected, Gen.ps_pass_closing_bracket_expected])

/-- the first byte of a line, seen from the idle state: `header_` is cleared, then as inside a line -/
theorem step_first (m' : LMode) (ps : Gen.PState) (c : UInt8) (hs : ps.state = Gen.ps_idle) (hb : ps.bc = 0)
    (h : lmStep .plain c = some m') :
    Gen.stepSwitch ps c.toNat = .cont { ps with state := stateOf m', bc := bcOf m', rhdr := [] } := by
  simp only [lmStep] at h
  by_cases h13 : c = 13
  · simp [h13] at h
  by_cases h34 : c = 34
  · subst h34
    have : m' = .quote := by simpa using h.symm
    subst this
    unfold Gen.stepSwitch
    simp [hs, stateOf, bcOf, Gen.ps_idle, Gen.stepArm_idle, Gen.ps_quote_expected] at hb ⊢
    first | done | (cases ps; simp_all [stateOf, bcOf, Gen.ps_idle, Gen.ps_input_observed, Gen.ps_quote_expected, Gen.ps_pass_quote_exptected, Gen.ps_closing_bracket_expected, Gen.ps_pass_closing_bracket_expected])
  by_cases h40 : c = 40
  · subst h40
    have : m' = .comment := by simpa using h.symm
    subst this
    unfold Gen.stepSwitch
    simp [hs, stateOf, bcOf, Gen.ps_idle, Gen.stepArm_idle, Gen.ps_closing_bracket_expected] at hb ⊢
    first | done | (cases ps; simp_all [stateOf, bcOf, Gen.ps_idle, Gen.ps_input_observed, Gen.ps_quote_expected, Gen.ps_pass_quote_exptected, Gen.ps_closing_bracket_expected, Gen.ps_pass_closing_bracket_expected])
  · have : m' = .plain := by simpa [h13, h34, h40] using h.symm
    subst this
    have n13 := toNat_ne (n := 13) (by decide) h13
    have n34 := toNat_ne (n := 34) (by decide) h34
    have n40 := toNat_ne (n := 40) (by decide) h40
    unfold Gen.stepSwitch
    simp [hs, stateOf, bcOf, Gen.ps_idle, Gen.stepArm_idle, Gen.ps_input_observed, n13, n34, n40] at hb ⊢
    first | done | (cases ps; simp_all [stateOf, bcOf, Gen.ps_idle, Gen.ps_input_observed, Gen.ps_quote_expected, Gen.ps_pass_quote_exptected, Gen.ps_closing_bracket_expected, Gen.ps_pass_closing_bracket_expected])

/-- the parser runs through a stretch of a line, appending its bytes -/
theorem parserRun_body (l : Bytes) : ∀ (m m' : LMode) (ps : Gen.PState) (rest : Bytes), lmRun m l = some m' →
    ps.state = stateOf m → ps.bc = bcOf m → ps.under = false →
    parserRun ps (l ++ rest) =
      parserRun { ps with state := stateOf m', bc := bcOf m', rhdr := (natsOf l).reverse ++ ps.rhdr } rest := by
  induction l with
  | nil =>
    intro m m' ps rest h hs hb _
    simp only [lmRun, Option.some.injEq] at h
    subst h
    simp only [List.nil_append, natsOf, List.map_nil, List.reverse_nil]
    congr 1
    cases ps; simp_all
  | cons c t ih =>
    intro m m' ps rest h hs hb hu
    simp only [lmRun] at h
    cases hstep : lmStep m c with
    | none => rw [hstep] at h; cases h
    | some m1 =>
      rw [hstep] at h
      simp only at h
      simp only [List.cons_append]
      rw [parserRun_cons_cont _ (step_sim m m1 ps c hs hb hu hstep)]
      rw [ih m1 m' _ rest h rfl rfl (by simpa using hu)]
      simp [natsOf]

/-- the parser in state `input_observed` runs through a balanced stretch, appending it -/
theorem parserRun_plain (l : Bytes) (hl : Balanced l) (ps : Gen.PState) (rest : Bytes)
    (hs : ps.state = Gen.ps_input_observed) (hb : ps.bc = 0) (hu : ps.under = false) :
    parserRun ps (l ++ rest) = parserRun { ps with rhdr := (natsOf l).reverse ++ ps.rhdr } rest := by
  rw [parserRun_body l .plain .plain ps rest hl hs hb hu]
  congr 1
  cases ps; simp_all [stateOf, bcOf]

theorem step_cr_observed (ps : Gen.PState) (hs : ps.state = Gen.ps_input_observed) :
    Gen.stepSwitch ps 13 = .cont { ps with state := Gen.ps_lf_exptected } := by
  unfold Gen.stepSwitch
  simp [hs, Gen.ps_idle, Gen.ps_input_observed, Gen.stepArm_input_observed, Gen.ps_lf_exptected]

theorem step_lf (ps : Gen.PState) (hs : ps.state = Gen.ps_lf_exptected) :
    Gen.stepSwitch ps 10 = .cont { ps with state := Gen.ps_space_or_other_exptected } := by
  unfold Gen.stepSwitch
  simp [hs, Gen.ps_idle, Gen.ps_input_observed, Gen.ps_last_lf_exptected, Gen.ps_lf_exptected, Gen.stepArm_lf_exptected,
    Gen.ps_space_or_other_exptected]

theorem step_after_crlf (ps : Gen.PState) (c : UInt8) (hs : ps.state = Gen.ps_space_or_other_exptected)
    (hc : c ≠ 32 ∧ c ≠ 9) (hlen : 2 ≤ ps.rhdr.length) (hu : ps.under = false) :
    Gen.stepSwitch ps c.toNat = .ret Gen.pr_got_header { ps with state := Gen.ps_idle, rhdr := ps.rhdr.drop 2, unget := true } := by
  have h1 : c.toNat ≠ 32 := fun h => hc.1 (UInt8.toNat_inj.mp (by simpa using h))
  have h2 : c.toNat ≠ 9 := fun h => hc.2 (UInt8.toNat_inj.mp (by simpa using h))
  have h3 : ¬ (ps.rhdr.length < 2) := by omega
  unfold Gen.stepSwitch
  simp [hs, Gen.ps_idle, Gen.ps_input_observed, Gen.ps_last_lf_exptected, Gen.ps_lf_exptected, Gen.ps_space_or_other_exptected,
    Gen.stepArm_space_or_other_exptected, h1, h2, h3, hu, Gen.pr_got_header]

/-- obs-fold: after CRLF a blank **or a horizontal tab** continues the header: the CRLF is dropped from
`header_`, the blank/tab itself is kept -/
theorem step_fold (ps : Gen.PState) (c : UInt8) (hs : ps.state = Gen.ps_space_or_other_exptected)
    (hc : c = 32 ∨ c = 9) (hlen : 2 ≤ ps.rhdr.length) (hu : ps.under = false) :
    Gen.stepSwitch ps c.toNat = .cont { ps with state := Gen.ps_input_observed, rhdr := ps.rhdr.drop 2 } := by
  have h3 : ¬ (ps.rhdr.length < 2) := by omega
  unfold Gen.stepSwitch
  rcases hc with rfl | rfl <;>
  simp [hs, Gen.ps_idle, Gen.ps_input_observed, Gen.ps_last_lf_exptected, Gen.ps_lf_exptected, Gen.ps_space_or_other_exptected,
    Gen.stepArm_space_or_other_exptected, h3, hu]

/-- a continuation piece of a folded header: starts with SP or HTAB, balanced (a fold inside a quoted string or a
comment is not a fold: the CR is content there) -/
structure ContPiece (p : Bytes) : Prop where
  first : p.head? = some 32 ∨ p.head? = some 9
  body : Balanced p

/-- wire form of the continuation lines: `CRLF piece` each -/
def encCont (tail : List Bytes) : Bytes := tail.flatMap fun p => 13 :: 10 :: p

/-- inside a header (state `input_observed`): continuation lines are appended without their CRLF, then
the line ends at a CRLF that is not followed by SP/HTAB -/
theorem parserRun_cont (c : UInt8) (hc : c ≠ 32 ∧ c ≠ 9) (rest : Bytes) :
    ∀ (tail : List Bytes) (ps : Gen.PState), (∀ p ∈ tail, ContPiece p) → ps.state = Gen.ps_input_observed →
      ps.bc = 0 → ps.under = false → ps.unget = false →
      parserRun ps (encCont tail ++ 13 :: 10 :: c :: rest) =
        (Gen.pr_got_header, { ps with state := Gen.ps_idle, rhdr := (natsOf tail.flatten).reverse ++ ps.rhdr }, c :: rest) := by
  intro tail
  induction tail with
  | nil =>
    intro ps _ hs hb0 hu hg
    simp only [encCont, List.flatMap_nil, List.nil_append]
    rw [parserRun_cons_cont (c := 13) _ (step_cr_observed ps hs)]
    rw [parserRun_cons_cont (c := 10) _ (step_lf _ (by simp [Gen.ps_lf_exptected]))]
    rw [parserRun_cons_ret _ (step_after_crlf _ c (by simp [Gen.ps_space_or_other_exptected]) hc (by simp) (by simpa using hu))]
    simp [natsOf, hg, hu]
  | cons p t ih =>
    intro ps hw hs hb0 hu hg
    obtain ⟨hf, hch⟩ := hw p (by simp)
    have hwt : ∀ q ∈ t, ContPiece q := fun q hq => hw q (by simp [hq])
    cases p with
    | nil => simp at hf
    | cons b p' =>
      have hb : b = 32 ∨ b = 9 := by simpa using hf
      have hp' : Balanced p' := by
        unfold Balanced at hch ⊢
        rcases hb with rfl | rfl <;> simpa [lmRun, lmStep] using hch
      have hshape : encCont ((b :: p') :: t) ++ 13 :: 10 :: c :: rest = 13 :: 10 :: b :: (p' ++ (encCont t ++ 13 :: 10 :: c :: rest)) := by
        simp [encCont, List.append_assoc]
      rw [hshape]
      rw [parserRun_cons_cont (c := 13) _ (step_cr_observed ps hs)]
      rw [parserRun_cons_cont (c := 10) _ (step_lf _ (by simp [Gen.ps_lf_exptected]))]
      rw [parserRun_cons_cont _ (step_fold _ b (by simp [Gen.ps_space_or_other_exptected]) hb (by simp) (by simpa using hu))]
      rw [parserRun_plain p' hp' _ _ (by simp [Gen.ps_input_observed]) (by simpa using hb0) (by simpa using hu)]
      rw [ih _ hwt (by simp [Gen.ps_input_observed]) (by simpa using hb0) (by simpa using hu) (by simpa using hg)]
      simp [natsOf, List.append_assoc]

theorem balanced_cons {c0 : UInt8} {t : Bytes} (h : Balanced (c0 :: t)) :
    ∃ m1, lmStep .plain c0 = some m1 ∧ lmRun m1 t = some .plain := by
  unfold Balanced at h
  simp only [lmRun] at h
  cases hs : lmStep .plain c0 with
  | none => rw [hs] at h; cases h
  | some m1 => rw [hs] at h; exact ⟨m1, rfl, h⟩

/-- one complete header line, seen from the idle state: `got_header` with exactly that line in `header_`, the
look-ahead byte pushed back -/
theorem parserRun_line (l : Bytes) (hl : PlainLine l) (c : UInt8) (hc : c ≠ 32 ∧ c ≠ 9) (rest : Bytes)
    (ps : Gen.PState) (hs : ps.state = Gen.ps_idle) (hb : ps.bc = 0) (hu : ps.under = false) (hg : ps.unget = false) :
    parserRun ps (l ++ 13 :: 10 :: c :: rest) =
      (Gen.pr_got_header, { ps with state := Gen.ps_idle, rhdr := (natsOf l).reverse }, c :: rest) := by
  obtain ⟨hne, hbal, _⟩ := hl
  cases l with
  | nil => exact absurd rfl hne
  | cons c0 t =>
    obtain ⟨m1, h1, h2⟩ := balanced_cons hbal
    simp only [List.cons_append]
    rw [parserRun_cons_cont _ (step_first m1 ps c0 hs hb h1)]
    rw [parserRun_body t m1 .plain _ _ h2 rfl rfl (by simpa using hu)]
    rw [parserRun_cons_cont (c := 13) _ (step_cr_observed _ (by simp [stateOf]))]
    rw [parserRun_cons_cont (c := 10) _ (step_lf _ (by simp [Gen.ps_lf_exptected]))]
    rw [parserRun_cons_ret _ (step_after_crlf _ c (by simp [Gen.ps_space_or_other_exptected]) hc (by simp) (by simpa using hu))]
    simp [natsOf, hg, hu, bcOf, hb]

theorem step_cr_idle (ps : Gen.PState) (hs : ps.state = Gen.ps_idle) :
    Gen.stepSwitch ps 13 = .cont { ps with state := Gen.ps_last_lf_exptected, rhdr := [] } := by
  unfold Gen.stepSwitch
  simp [hs, Gen.ps_idle, Gen.stepArm_idle, Gen.ps_last_lf_exptected]

theorem step_last_lf (ps : Gen.PState) (hs : ps.state = Gen.ps_last_lf_exptected) :
    Gen.stepSwitch ps 10 = .ret Gen.pr_end_of_headers { ps with rhdr := [] } := by
  unfold Gen.stepSwitch
  simp [hs, Gen.ps_idle, Gen.ps_input_observed, Gen.ps_last_lf_exptected, Gen.stepArm_last_lf_exptected, Gen.pr_end_of_headers]

/-- the empty line that ends the header section -/
theorem parserRun_end (rest : Bytes) (ps : Gen.PState) (hs : ps.state = Gen.ps_idle) (hg : ps.unget = false) :
    parserRun ps (13 :: 10 :: rest) = (Gen.pr_end_of_headers, { ps with state := Gen.ps_last_lf_exptected, rhdr := [] }, rest) := by
  rw [parserRun_cons_cont (c := 13) _ (step_cr_idle ps hs)]
  rw [parserRun_cons_ret (c := 10) _ (step_last_lf _ (by simp [Gen.ps_last_lf_exptected]))]
  simp [hg]

/-- header section as the peer writes it: every line followed by CRLF, then the empty line -/
def encLines (ls : List Bytes) : Bytes := ls.flatMap (fun l => l ++ [13, 10]) ++ [13, 10]

/-- what `header_` holds when `got_header` is reported for line `l` -/
def lineState (ps : Gen.PState) (l : Bytes) : Gen.PState := { ps with state := Gen.ps_idle, rhdr := (natsOf l).reverse }

/-- the per-header code of `some_headers_data_read` applied to the lines in order -/
def feedLines : HttpReq → List Bytes → Option HttpReq
  | r, [] => some r
  | r, l :: ls =>
    match httpGotHeader { r with ps := lineState r.ps l } with
    | none => none
    | some r' => feedLines r' ls

theorem encLines_head (ls : List Bytes) (body : Bytes) (hw : ∀ l ∈ ls, PlainLine l) :
    ∃ c rest, encLines ls ++ body = c :: rest ∧ c ≠ 32 ∧ c ≠ 9 := by
  cases ls with
  | nil => exact ⟨13, 10 :: body, by simp [encLines], by decide, by decide⟩
  | cons l t =>
    obtain ⟨hne, _, hf⟩ := hw l (by simp)
    cases l with
    | nil => exact absurd rfl hne
    | cons c u =>
      refine ⟨c, u ++ [13, 10] ++ (encLines t ++ body), by simp [encLines, List.append_assoc], ?_, ?_⟩
      · intro h0; apply hf.1; simp [h0]
      · intro h0; apply hf.2; simp [h0]

variable (cfg : HttpCfg)

/-- **header lines round trip** (generated parser): plain header lines reach the per-header code unchanged,
one by one and in order; after the empty line `process_request` runs and the body is left unread. -/
theorem hdrLoopC_lines : ∀ (ls : List Bytes) (r r' : HttpReq) (body : Bytes), (∀ l ∈ ls, PlainLine l) →
    r.ps.state = Gen.ps_idle → r.ps.bc = 0 → r.ps.under = false → r.ps.unget = false → feedLines r ls = some r' →
    hdrLoopC cfg r (encLines ls ++ body) =
      (match httpProcess cfg { r' with ps := { r'.ps with state := Gen.ps_last_lf_exptected, rhdr := [] } } with
       | none => .fin (.done .raw400) body
       | some h => .fin (.head h r'.is11) body) := by
  intro ls
  induction ls with
  | nil =>
    intro r r' body _ hs hb hu hg hfeed
    simp only [feedLines, Option.some.injEq] at hfeed
    subst hfeed
    rw [hdrLoopC_unfold]
    have : encLines [] ++ body = 13 :: 10 :: body := by simp [encLines]
    rw [this, parserRun_end body r.ps hs hg]
    simp [hu, Gen.pr_end_of_headers, Gen.pr_more_data, Gen.pr_got_header]
    rfl
  | cons l t ih =>
    intro r r' body hw hs hb hu hg hfeed
    have hwl := hw l (by simp)
    have hwt : ∀ x ∈ t, PlainLine x := fun x hx => hw x (by simp [hx])
    obtain ⟨c, rest, hcr, hc1, hc2⟩ := encLines_head t body hwt
    have hshape : encLines (l :: t) ++ body = l ++ 13 :: 10 :: c :: rest := by
      rw [← hcr]; simp [encLines, List.append_assoc]
    rw [hdrLoopC_unfold, hshape, parserRun_line l hwl c ⟨hc1, hc2⟩ rest r.ps hs hb hu hg]
    simp only [hu, Bool.false_eq_true, if_false]
    have h1 : (Gen.pr_got_header == Gen.pr_more_data) = false := by decide
    have h2 : (Gen.pr_got_header == Gen.pr_got_header) = true := by decide
    simp only [h1, h2, Bool.false_eq_true, if_false, if_true]
    unfold feedLines at hfeed
    unfold lineState at hfeed
    have hq : ({ r.ps with state := Gen.ps_idle, rhdr := (natsOf l).reverse } : Gen.PState) =
        { state := Gen.ps_idle, bc := r.ps.bc, rhdr := (natsOf l).reverse, unget := r.ps.unget } := by
      cases hr : r.ps with
      | mk st bc rh ug ud =>
        rw [hr] at hu
        simp only at hu
        subst hu
        rfl
    rw [hq] at hfeed
    cases hh : httpGotHeader { r with ps := { state := Gen.ps_idle, bc := r.ps.bc, rhdr := (natsOf l).reverse, unget := r.ps.unget } } with
    | none => rw [hh] at hfeed; simp at hfeed
    | some r2 =>
      rw [hh] at hfeed
      simp only at hfeed ⊢
      have hps := httpGotHeader_ps hh
      simp only at hps
      have := ih r2 r' body hwt (by rw [hps]) (by rw [hps]; exact hb) (by rw [hps]) (by rw [hps]; exact hg) hfeed
      rw [hcr] at this
      exact this

/-! ## folded headers (obs-fold = CRLF 1*(SP / HTAB)) -/

/-- a header line as the peer writes it: a first line and continuation lines -/
structure FLine where
  head : Bytes
  tail : List Bytes := []

/-- on the wire: the continuation lines follow after CRLF -/
def FLine.wire (l : FLine) : Bytes := l.head ++ encCont l.tail
/-- what the peer means, with the normalisation the code really applies: the CRLFs of the folds are
dropped, the blanks/tabs that start the continuation lines are kept -/
def FLine.value (l : FLine) : Bytes := l.head ++ l.tail.flatten

structure WFLine (l : FLine) : Prop where
  head : PlainLine l.head
  tail : ∀ p ∈ l.tail, ContPiece p

/-- **folded header round trip** at the parser: a header folded with SP or HTAB continuation lines is
reported (`got_header`) with the unfolded value in `header_`, the look-ahead byte pushed back -/
theorem parserRun_fline (l : FLine) (hl : WFLine l) (c : UInt8) (hc : c ≠ 32 ∧ c ≠ 9) (rest : Bytes)
    (ps : Gen.PState) (hs : ps.state = Gen.ps_idle) (hb : ps.bc = 0) (hu : ps.under = false) (hg : ps.unget = false) :
    parserRun ps (l.wire ++ 13 :: 10 :: c :: rest) =
      (Gen.pr_got_header, { ps with state := Gen.ps_idle, rhdr := (natsOf l.value).reverse }, c :: rest) := by
  obtain ⟨⟨hne, hbal, _⟩, htl⟩ := hl
  unfold FLine.wire FLine.value
  cases hh : l.head with
  | nil => exact absurd hh hne
  | cons c0 t =>
    rw [hh] at hbal
    obtain ⟨m1, h1, h2⟩ := balanced_cons hbal
    simp only [List.cons_append, List.append_assoc]
    rw [parserRun_cons_cont _ (step_first m1 ps c0 hs hb h1)]
    rw [parserRun_body t m1 .plain _ _ h2 rfl rfl (by simpa using hu)]
    rw [parserRun_cont c hc rest l.tail _ htl (by simp [stateOf]) (by simp [bcOf]) (by simpa using hu) (by simpa using hg)]
    simp [natsOf, List.append_assoc, bcOf, hb]

def encFLines (ls : List FLine) : Bytes := ls.flatMap (fun l => l.wire ++ [13, 10]) ++ [13, 10]

theorem encFLines_head (ls : List FLine) (body : Bytes) (hw : ∀ l ∈ ls, WFLine l) :
    ∃ c rest, encFLines ls ++ body = c :: rest ∧ c ≠ 32 ∧ c ≠ 9 := by
  cases ls with
  | nil => exact ⟨13, 10 :: body, by simp [encFLines], by decide, by decide⟩
  | cons l t =>
    obtain ⟨⟨hne, _, hf⟩, _⟩ := hw l (by simp)
    cases hh : l.head with
    | nil => exact absurd hh hne
    | cons c u =>
      rw [hh] at hf
      refine ⟨c, u ++ encCont l.tail ++ [13, 10] ++ (encFLines t ++ body), by simp [encFLines, FLine.wire, hh, List.append_assoc], ?_, ?_⟩
      · intro h0; apply hf.1; simp [h0]
      · intro h0; apply hf.2; simp [h0]

/-- header section with folded headers: every header reaches the per-header code with its unfolded value,
one by one and in order; then `process_request`; the body is left unread -/
theorem hdrLoopC_flines (cfg : HttpCfg) : ∀ (ls : List FLine) (r r' : HttpReq) (body : Bytes), (∀ l ∈ ls, WFLine l) →
    r.ps.state = Gen.ps_idle → r.ps.bc = 0 → r.ps.under = false → r.ps.unget = false → feedLines r (ls.map FLine.value) = some r' →
    hdrLoopC cfg r (encFLines ls ++ body) =
      (match httpProcess cfg { r' with ps := { r'.ps with state := Gen.ps_last_lf_exptected, rhdr := [] } } with
       | none => .fin (.done .raw400) body
       | some h => .fin (.head h r'.is11) body) := by
  intro ls
  induction ls with
  | nil =>
    intro r r' body _ hs hb hu hg hfeed
    simp only [List.map_nil, feedLines, Option.some.injEq] at hfeed
    subst hfeed
    rw [hdrLoopC_unfold]
    have : encFLines [] ++ body = 13 :: 10 :: body := by simp [encFLines]
    rw [this, parserRun_end body r.ps hs hg]
    simp [hu, Gen.pr_end_of_headers, Gen.pr_more_data, Gen.pr_got_header]
    rfl
  | cons l t ih =>
    intro r r' body hw hs hb hu hg hfeed
    have hwl := hw l (by simp)
    have hwt : ∀ x ∈ t, WFLine x := fun x hx => hw x (by simp [hx])
    obtain ⟨c, rest, hcr, hc1, hc2⟩ := encFLines_head t body hwt
    have hshape : encFLines (l :: t) ++ body = l.wire ++ 13 :: 10 :: c :: rest := by
      rw [← hcr]; simp [encFLines, List.append_assoc]
    rw [hdrLoopC_unfold, hshape, parserRun_fline l hwl c ⟨hc1, hc2⟩ rest r.ps hs hb hu hg]
    simp only [hu, Bool.false_eq_true, if_false]
    have h1 : (Gen.pr_got_header == Gen.pr_more_data) = false := by decide
    have h2 : (Gen.pr_got_header == Gen.pr_got_header) = true := by decide
    simp only [h1, h2, Bool.false_eq_true, if_false, if_true]
    simp only [List.map_cons] at hfeed
    unfold feedLines at hfeed
    unfold lineState at hfeed
    have hq : ({ r.ps with state := Gen.ps_idle, rhdr := (natsOf l.value).reverse } : Gen.PState) =
        { state := Gen.ps_idle, bc := r.ps.bc, rhdr := (natsOf l.value).reverse, unget := r.ps.unget } := by
      cases hr : r.ps with
      | mk st bc rh ug ud =>
        rw [hr] at hu
        simp only at hu
        subst hu
        rfl
    rw [hq] at hfeed
    cases hh : httpGotHeader { r with ps := { state := Gen.ps_idle, bc := r.ps.bc, rhdr := (natsOf l.value).reverse, unget := r.ps.unget } } with
    | none => rw [hh] at hfeed; simp at hfeed
    | some r2 =>
      rw [hh] at hfeed
      simp only at hfeed ⊢
      have hps := httpGotHeader_ps hh
      simp only at hps
      have := ih r2 r' body hwt (by rw [hps]) (by rw [hps]; exact hb) (by rw [hps]) (by rw [hps]; exact hg) hfeed
      rw [hcr] at this
      exact this

end Cppcms.C01
