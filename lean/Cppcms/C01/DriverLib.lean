import Cppcms.Common
import Cppcms.C01.Scgi
import Cppcms.C01.Fcgi
import Cppcms.C01.Http
import Cppcms.C01.Spec
import Cppcms.C01.PeerJudge
/-! Line-protocol driver library for C01/C02 (shared by `c01_model` and `c02_model`).
`scgi <seg>…` / `fastcgi <seg>…` / `http <port> <remote> <hints> <seg>…` run the buffer-level model on
the given segmentation and print the fate of every request on the connection. -/
open Cppcms Cppcms.C01

def hx (b : Bytes) : String := if b.isEmpty then "." else toHex b

def showPairs (l : List (Bytes × Bytes)) : String :=
  if l.isEmpty then "-" else ",".intercalate (l.map fun kv => hx kv.1 ++ ":" ++ hx kv.2)

def showCookies (l : Cookies) : String :=
  if l.isEmpty then "-" else ",".intercalate (l.map fun kc =>
    hx kc.1 ++ ":" ++ hx kc.2.value ++ ":" ++ hx kc.2.path ++ ":" ++ hx kc.2.domain)

def showKind : Kind → String
  | .sync => "sync" | .async => "async" | .filter => "filter" | .dflt => "default"

def showErr : Err → String
  | .eof => "eof" | .violation => "violation"

def showOutcome : Outcome → String
  | .app k pre v => s!"app kind={showKind k} pre={boolStr pre} env={showPairs v.env} names={showPairs v.names} get={showPairs v.get} post={showPairs v.post} cookies={showCookies v.cookies} body={hx v.body}"
  | .status c pre oe => s!"status {c} pre={boolStr pre} onerr={boolStr oe}"
  | .raw400 => "raw400"
  | .aborted e pre oe => s!"aborted {showErr e} pre={boolStr pre} onerr={boolStr oe}"
  | .mgmt t c f => s!"mgmt {t} {hx c} framed={boolStr f}"
  | .multipart => "multipart"
  | .crash w => "crash " ++ w.replace " " "_"

def showOutcomes (l : List Outcome) : String := " ; ".intercalate (l.map showOutcome)

def parseSegs (ws : List String) : Option Segs := ws.mapM parseHex

/-- `scgi <seg>…` | `fastcgi <concurrency> <seg>…` | `http <software> <name> <port> <remote> <hints> <seg>…` -/
def runModel : List String → Option (List Outcome)
  | "scgi" :: segs => (parseSegs segs).map (scgiConn {})
  | "fastcgi" :: conc :: segs => do
    let c ← parseHex conc
    let s ← parseSegs segs
    pure (fcgiRun {} c s)
  | "http" :: sw :: nm :: port :: remote :: hints :: segs => do
    let sw ← parseHex sw
    let nm ← parseHex nm
    let port ← parseHex port
    let remote ← parseHex remote
    let s ← parseSegs segs
    let hs := hints.toList.filterMap fun c => if c == '1' then some true else if c == '0' then some false else none
    pure (httpRun {} { software := sw, serverName := nm, port := port, remote := remote } hs s)
  | _ => none

def unhx (s : String) : Option Bytes := if s == "." then some [] else parseHex s

def parsePairs (s : String) : Option (List (Bytes × Bytes)) :=
  if s == "-" then some []
  else (s.splitOn ",").mapM fun kv =>
    match kv.splitOn ":" with
    | [k, v] => do pure ((← unhx k), (← unhx v))
    | _ => none

def parseCookies4 (s : String) : Option (List (Bytes × Bytes × Bytes × Bytes)) :=
  if s == "-" then some []
  else (s.splitOn ",").mapM fun kv =>
    match kv.splitOn ":" with
    | [k, v, p, d] => do pure ((← unhx k), (← unhx v), (← unhx p), (← unhx d))
    | _ => none

def isCrash : Outcome → Bool
  | .crash _ => true
  | _ => false

def preOf : Outcome → Nat
  | .app _ pre _ => if pre then 1 else 0
  | .status _ pre _ => if pre then 1 else 0
  | .aborted _ pre _ => if pre then 1 else 0
  | _ => 0

def b01 (s : String) : Bool := s == "1"

/-! peer-form judges: the hypotheses of the round-trip theorems (executable, sound versions), the Lean encoders
against the bytes python sent, and the right-hand sides of the theorems against what the real application saw -/

def parsePiece (s : String) : Option PctPiece :=
  match s.toList with
  | ['p'] => some .plus
  | 'l' :: h => (parseHex (String.ofList h)).bind fun b => match b with | [x] => some (.lit x) | _ => none
  | ['e', a, b, u1, u2] =>
    (parseHex (String.ofList [a, b])).bind fun x => match x with
      | [y] => some (.esc y (u1 == '1') (u2 == '1'))
      | _ => none
  | _ => none

def parsePieces (s : String) : Option (List PctPiece) :=
  if s == "-" then some [] else (s.splitOn ",").mapM parsePiece

def parseFields (s : String) : Option (List HttpField) :=
  if s == "-" then some []
  else (s.splitOn ",").mapM fun f =>
    match f.splitOn ":" with
    | [n, w, v] => do pure { name := (← unhx n), ws := (← unhx w), value := (← unhx v) }
    | _ => none

def parseFLines (s : String) : Option (List FLine) :=
  (s.splitOn ";").mapM fun l =>
    match (l.splitOn "|").mapM unhx with
    | some (h :: t) => some { head := h, tail := t }
    | _ => none

def parseFormFields (s : String) : Option (List FormField) :=
  if s == "-" then some []
  else (s.splitOn ";").mapM fun f =>
    match f.splitOn "=" with
    | [n, v] => do pure { name := (← parsePieces n), value := (← parsePieces v) }
    | _ => none

def parseCookieItems (s : String) : Option (List CookieItem) :=
  if s == "-" then some []
  else (s.splitOn ",").mapM fun c =>
    match c.splitOn ":" with
    | [n, v, sp, w, e] => do
      let sp ← unhx sp
      let esc : Option (List Bool) := if e == "t" then none else some (e.toList.map (· == '1'))
      match sp with
      | [x] => pure { name := (← unhx n), value := (← unhx v), sep := x, ws := (← unhx w), esc := esc }
      | _ => none
    | _ => none

def judgePeer : List String → String
  | [sw, nm, port, remote, m, sc, pa, qs, proto, fields, lines, body, wire, oenv, obody] =>
    match unhx sw, unhx nm, unhx port, unhx remote, unhx m, unhx sc, parsePieces pa,
          (if qs == "-" then some none else (unhx qs).map some), unhx proto, parseFields fields, parseFLines lines,
          unhx body, unhx wire, parsePairs oenv, unhx obody with
    | some sw, some nm, some port, some remote, some m, some sc, some pa, some qs, some proto, some fields, some ls,
      some body, some wire, some oenv, some obody =>
      let cfg : HttpCfg := { software := sw, serverName := nm, port := port, remote := remote }
      let q : HttpPeer := { method := m, script := sc, path := pa, query := qs, proto := proto, fields := fields }
      let okq := q.okB cfg
      let okw := wireB q ls
      let same := encFLines ls ++ body == wire
      let env := (q.head cfg).env.toMap == oenv
      let bd := obody == body
      if okq && okw && same && env && bd then "1"
      else s!"0 ok={boolStr okq} wire={boolStr okw} enc={boolStr same} env={boolStr env} body={boolStr bd}"
    | _, _, _, _, _, _, _, _, _, _, _, _, _, _, _ => "bad-op"
  | _ => "bad-op"

def judgeForm : List String → String
  | [fs, wire, obs] =>
    match parseFormFields fs, unhx wire, parsePairs obs with
    | some fs, some wire, some obs =>
      let ok := fs.all FormField.okB
      let same := encForm fs == wire
      let parsed := parseForm (wire.length + 1) wire []
      let val := formSorted (fs.map FormField.meant) == obs
      if ok && same && val && parsed.1 then "1" else s!"0 ok={boolStr ok} enc={boolStr same} val={boolStr val}"
    | _, _, _ => "bad-op"
  | _ => "bad-op"

def judgeCookies : List String → String
  | [cs, wire, obs] =>
    match parseCookieItems cs, unhx wire, parseCookies4 obs with
    | some cs, some wire, some obs =>
      let ok := cs.all CookieItem.okB
      let same := encCookies cs == wire
      let val := (cookiesMeant [] cs).map (fun kc => (kc.1, kc.2.value, kc.2.path, kc.2.domain)) == obs
      if ok && same && val then "1" else s!"0 ok={boolStr ok} enc={boolStr same} val={boolStr val}"
    | _, _, _ => "bad-op"
  | _ => "bad-op"

def judge : List String → String
  | ["view", m, sc, pa, q, hd, g, po, ck, bo, rf, env, nm, og, op, oc, ob] =>
    match unhx m, unhx sc, unhx pa, unhx q, parsePairs hd, parsePairs g, parsePairs po, parsePairs ck, unhx bo,
          parsePairs env, parsePairs nm, parsePairs og, parsePairs op, parseCookies4 oc, unhx ob with
    | some m, some sc, some pa, some q, some hd, some g, some po, some ck, some bo,
      some env, some nm, some og, some op, some oc, some ob =>
      boolStr (Spec.viewOk { method := m, script := sc, path := pa, query := q, hdrs := hd, get := g, post := po,
                             cookies := ck, body := bo, rawFilter := b01 rf }
                           { env := env, names := nm, get := og, post := op, cookies := oc, body := ob })
    | _, _, _, _, _, _, _, _, _, _, _, _, _, _, _ => "bad-op"
  | "peer" :: rest => judgePeer rest
  | "form" :: rest => judgeForm rest
  | "cookies" :: rest => judgeCookies rest
  | ["fwd", exc, probeOk, closed, reset, expectAnswer, answered] =>
    boolStr (Spec.fwdOk { exc := b01 exc, probeOk := b01 probeOk, closed := b01 closed, reset := b01 reset,
                          expectAnswer := b01 expectAnswer, answered := b01 answered })
  | "c02" :: exc :: probeOk :: closed :: reset :: pre :: ready :: onerr :: eoc :: n200 :: nErr :: framed :: cmd =>
    match runModel cmd, pre.toNat?, ready.toNat?, onerr.toNat?, eoc.toNat?, n200.toNat?, nErr.toNat? with
    | some outs, some pre, some ready, some onerr, some eoc, some n200, some nErr =>
      boolStr (Spec.c02ok { exc := b01 exc, probeOk := b01 probeOk, closed := b01 closed, reset := b01 reset,
                            pre := pre, ready := ready, onError := onerr, eoc := eoc, n200 := n200, nErr := nErr, framed := b01 framed,
                            specApps := (outs.filter isApp).length, specPre := (outs.map preOf).sum,
                            specCrash := outs.any isCrash })
    | _, _, _, _, _, _, _ => "bad-op"
  | _ => "bad-op"

def step (_ : Unit) (line : String) : Unit × String :=
  match words line with
  | "J" :: rest => ((), judge rest)
  | ws => match runModel ws with
    | some outs => ((), showOutcomes outs)
    | none => ((), "bad-op")
