import Cppcms.C01.Scgi
import Cppcms.C01.LemmasSock
/-! SCGI: the buffer-level connection model equals a function of the concatenated stream. -/
namespace Cppcms.C01
open Cppcms

/-- SCGI connection over a plain byte stream (no segmentation, no buffers) -/
def scgiFlat (lim : Limits) (s : Bytes) : List Outcome :=
  if s.length < Gen.scgiFirstRead then [.aborted .eof false false]
  else match scgiOnFirstRead (s.take Gen.scgiFirstRead) with
  | .bad e => [.aborted e false false]
  | .crash w => [.crash w]
  | .more sep size =>
    if s.length < size then [.aborted .eof false false]
    else match scgiOnHeaders (s.take size) sep with
    | .error o => [o]
    | .ok env => [(reqOutcome lim (Head.ofEnv env) (s.drop size)).1]

theorem scgiOnFirstRead_more {buf : Bytes} {sep size : Nat} (h : scgiOnFirstRead buf = .more sep size) :
    buf.length < size := by
  unfold scgiOnFirstRead at h
  simp only at h
  repeat' split at h
  all_goals first | (simp at h; done) | skip
  rename_i _ _ _ _ hts
  simp only [ScgiFirst.more.injEq] at h
  obtain ⟨_, rfl⟩ := h
  simp [Gen.scgiTooShort] at hts
  omega

theorem scgiConn_eq_flat (lim : Limits) (hb : 0 < lim.bufSize) (segs : Segs) :
    scgiConn lim segs = scgiFlat lim segs.flatten := by
  unfold scgiConn scgiFlat
  obtain ⟨ok1, b1, r1⟩ := readExact_spec Gen.scgiFirstRead segs
  cases hre : readExact Gen.scgiFirstRead segs with
  | mk b16 rest1 =>
    obtain ⟨segs1, ok⟩ := rest1
    rw [hre] at ok1 b1 r1
    simp only at ok1 b1 r1 ⊢
    generalize segs.flatten = s at ok1 b1 r1 ⊢
    by_cases hlen : Gen.scgiFirstRead ≤ s.length
    · have hok : ok = true := by rw [ok1]; exact decide_eq_true hlen
      have hnlt : ¬ (s.length < Gen.scgiFirstRead) := by omega
      simp only [hok, hnlt, Bool.not_true, Bool.false_eq_true, if_false]
      rw [b1]
      have hl16 : (s.take Gen.scgiFirstRead).length = Gen.scgiFirstRead := by
        rw [List.length_take]; omega
      cases hf : scgiOnFirstRead (s.take Gen.scgiFirstRead) with
      | bad e => rfl
      | crash w => rfl
      | more sep size =>
        have hsz := scgiOnFirstRead_more hf
        rw [hl16] at hsz
        simp only
        have hs1 := r1 hok
        obtain ⟨ok2, b2, r2⟩ := readExact_spec (size - Gen.scgiFirstRead) segs1
        rw [hl16]
        cases hre2 : readExact (size - Gen.scgiFirstRead) segs1 with
        | mk rest rest2 =>
          obtain ⟨segs2, ok'⟩ := rest2
          rw [hre2] at ok2 b2 r2
          simp only at ok2 b2 r2 ⊢
          rw [hs1] at ok2 b2 r2
          rw [List.length_drop] at ok2
          by_cases hlen2 : size ≤ s.length
          · have hok2 : ok' = true := by rw [ok2]; exact decide_eq_true (by omega)
            have hnlt2 : ¬ (s.length < size) := by omega
            simp only [hok2, hnlt2, Bool.not_true, Bool.false_eq_true, if_false]
            have hcat : s.take Gen.scgiFirstRead ++ rest = s.take size := by
              rw [b2]
              have : size = Gen.scgiFirstRead + (size - Gen.scgiFirstRead) := by omega
              conv => rhs; rw [this]
              rw [List.take_add]
            rw [hcat]
            cases scgiOnHeaders (s.take size) sep with
            | error o => rfl
            | ok env =>
              simp only
              have := (runRequest_stream sockRead_stream lim hb (Head.ofEnv env) segs2).1
              rw [this, r2 hok2, List.drop_drop]
              have : Gen.scgiFirstRead + (size - Gen.scgiFirstRead) = size := by omega
              rw [this]
          · have hok2 : ok' = false := by rw [ok2]; exact decide_eq_false (by omega)
            have hlt2 : s.length < size := by omega
            simp only [hok2, hlt2, Bool.not_false, if_true]
    · have hok : ok = false := by rw [ok1]; exact decide_eq_false hlen
      have hlt : s.length < Gen.scgiFirstRead := by omega
      simp only [hok, hlt, Bool.not_false, if_true]

end Cppcms.C01
