import Cppcms.C07.Iface
import Cppcms.C07.Refine
/-!
# C07 — lemmas about the `cache_interface` model: what is recorded reaches the page's trigger set
and every attached recorder; the back-end sees exactly the lowered operations.
-/
namespace Cppcms.C07
open Cppcms

theorem mem_insertSet {x t : Key} {l : List Key} : x ∈ insertSet t l ↔ x = t ∨ x ∈ l := by
  unfold insertSet
  by_cases h : t ∈ l
  · simp only [h, if_true]
    constructor
    · exact Or.inr
    · rintro (e | e)
      · subst e; exact h
      · exact e
  · simp [h]

/-- the set recorder `id` has collected so far (`none` = not attached) -/
def recOf (st : IState) (id : Nat) : Option (List Key) := (st.recs.find? (·.1 == id)).map (·.2)

theorem find_map_insert (t : Key) (id : Nat) (recs : List (Nat × List Key)) :
    ((recs.map fun p => (p.1, insertSet t p.2)).find? (·.1 == id)).map (·.2) =
      ((recs.find? (·.1 == id)).map (·.2)).map (insertSet t) := by
  induction recs with
  | nil => rfl
  | cons p r ih =>
    by_cases h : p.1 == id
    · simp [List.find?, h]
    · simp only [List.map_cons, List.find?, h]
      exact ih

@[simp] theorem addTrig1_cache (st : IState) (t : Key) : (addTrig1 st t).cache = st.cache := rfl
@[simp] theorem addTrig1_gzip (st : IState) (t : Key) : (addTrig1 st t).gzip = st.gzip := rfl

theorem mem_addTrig1_page {st : IState} {t x : Key} : x ∈ (addTrig1 st t).page ↔ x = t ∨ x ∈ st.page :=
  mem_insertSet

theorem recOf_addTrig1 (st : IState) (t : Key) (id : Nat) :
    recOf (addTrig1 st t) id = (recOf st id).map (insertSet t) := find_map_insert t id st.recs

theorem addTrigs_cache (st : IState) (ts : List Key) : (addTrigs st ts).cache = st.cache := by
  induction ts generalizing st with
  | nil => rfl
  | cons t ts ih => simp only [addTrigs, List.foldl_cons] at ih ⊢; rw [ih]; rfl

theorem addTrigs_gzip (st : IState) (ts : List Key) : (addTrigs st ts).gzip = st.gzip := by
  induction ts generalizing st with
  | nil => rfl
  | cons t ts ih => simp only [addTrigs, List.foldl_cons] at ih ⊢; rw [ih]; rfl

theorem mem_addTrigs_page {st : IState} {ts : List Key} {x : Key} :
    x ∈ (addTrigs st ts).page ↔ x ∈ ts ∨ x ∈ st.page := by
  induction ts generalizing st with
  | nil => simp [addTrigs]
  | cons t ts ih =>
    simp only [addTrigs, List.foldl_cons] at ih ⊢
    rw [ih, mem_addTrig1_page, List.mem_cons]
    constructor
    · rintro (h | h | h)
      · exact Or.inl (Or.inr h)
      · exact Or.inl (Or.inl h)
      · exact Or.inr h
    · rintro ((h | h) | h)
      · exact Or.inr (Or.inl h)
      · exact Or.inl h
      · exact Or.inr (Or.inr h)

/-- a recorder attached before receives everything added, and keeps what it had -/
theorem recOf_addTrigs {st : IState} {ts : List Key} {id : Nat} {l : List Key} (h : recOf st id = some l) :
    ∃ l', recOf (addTrigs st ts) id = some l' ∧ ∀ x, x ∈ l' ↔ x ∈ ts ∨ x ∈ l := by
  induction ts generalizing st l with
  | nil => exact ⟨l, h, by simp⟩
  | cons t ts ih =>
    have h1 : recOf (addTrig1 st t) id = some (insertSet t l) := by rw [recOf_addTrig1, h]; rfl
    obtain ⟨l', e, hm⟩ := ih h1
    refine ⟨l', by simpa [addTrigs] using e, ?_⟩
    intro x
    rw [hm, mem_insertSet, List.mem_cons]
    constructor
    · rintro (h | h | h)
      · exact Or.inl (Or.inr h)
      · exact Or.inl (Or.inl h)
      · exact Or.inr h
    · rintro ((h | h) | h)
      · exact Or.inr (Or.inl h)
      · exact Or.inl h
      · exact Or.inr (Or.inr h)

theorem find_filter_ne (recs : List (Nat × List Key)) {id id' : Nat} (hne : id' ≠ id) :
    (recs.filter (·.1 != id')).find? (·.1 == id) = recs.find? (·.1 == id) := by
  induction recs with
  | nil => rfl
  | cons p r ih =>
    by_cases h1 : p.1 = id'
    · have h2 : ¬ p.1 = id := fun e => hne (h1 ▸ e)
      rw [List.filter_cons_of_neg (by simp [h1]), List.find?_cons_of_neg (by simpa using h2)]
      exact ih
    · rw [List.filter_cons_of_pos (by simpa using h1)]
      by_cases h2 : p.1 = id
      · rw [List.find?_cons_of_pos (by simpa using h2), List.find?_cons_of_pos (by simpa using h2)]
      · rw [List.find?_cons_of_neg (by simpa using h2), List.find?_cons_of_neg (by simpa using h2)]
        exact ih

/-! ### the back-end sees the lowered operations -/

theorem istep_cache (st : IState) (op : IOp) : (istep st op).1.cache = run st.cache (lower st op) := by
  cases op with
  | addTrigger t => rfl
  | fetch now k nt =>
    simp only [istep, lower, run, List.foldl_cons, List.foldl_nil]
    cases h : step st.cache (Op.fetch now k) with
    | mk c o =>
      cases o with
      | hit v trigs d g =>
        by_cases e : nt
        · simp [e]
        · simp [e, addTrigs_cache]
      | _ => rfl
  | store now k v trigs timeout nt env =>
    simp only [istep, lower, run, List.foldl_cons, List.foldl_nil]
    by_cases e : nt
    · simp [e]
    · simp [e, addTrigs_cache]
  | fetchPage now k gz =>
    simp only [istep, lower, run, List.foldl_cons, List.foldl_nil]
    cases h : step st.cache (Op.fetch now (pageKey gz k)) with
    | mk c o => cases o <;> rfl
  | storePage now k body timeout env => rfl
  | attach id => rfl
  | detach id => rfl
  | reset => rfl
  | rise t => rfl
  | clear => rfl
  | stats => rfl

theorem irun_cons (st : IState) (op : IOp) (ops : List IOp) : irun st (op :: ops) = irun (istep st op).1 ops := rfl

theorem irun_append (st : IState) (a b : List IOp) : irun st (a ++ b) = irun (irun st a) b := by
  simp [irun, List.foldl_append]

theorem lowerRun_append (st : IState) (a b : List IOp) :
    lowerRun st (a ++ b) = lowerRun st a ++ lowerRun (irun st a) b := by
  induction a generalizing st with
  | nil => rfl
  | cons op a ih => simp only [List.cons_append, lowerRun, irun_cons, ih, List.append_assoc]

theorem irun_cache (st : IState) (ops : List IOp) : (irun st ops).cache = run st.cache (lowerRun st ops) := by
  induction ops generalizing st with
  | nil => rfl
  | cons op ops ih => rw [irun_cons, ih, lowerRun, run_append, istep_cache]

/-! ### recording -/

/-- everything an operation records is in the page's trigger set afterwards -/
theorem recorded_in_page (st : IState) (op : IOp) {t : Key} (h : t ∈ recorded st op) : t ∈ (istep st op).1.page := by
  cases op with
  | addTrigger t' =>
    simp only [recorded, List.mem_singleton] at h
    subst h; exact mem_addTrig1_page.mpr (Or.inl rfl)
  | fetch now k nt =>
    cases nt with
    | true => simp [recorded] at h
    | false =>
      simp only [recorded] at h
      simp only [istep]
      cases hs : step st.cache (Op.fetch now k) with
      | mk c o =>
        rw [hs] at h
        cases o with
        | hit v trigs d g =>
          simp only at h ⊢
          exact mem_addTrigs_page.mpr (Or.inl h)
        | _ => simp at h
  | store now k v trigs timeout nt env =>
    cases nt with
    | true => simp [recorded] at h
    | false =>
      simp only [recorded, List.mem_cons] at h
      simp only [istep, Bool.false_eq_true, if_false]
      show t ∈ (addTrig1 (addTrigs st (dedup trigs)) k).page
      rw [mem_addTrig1_page, mem_addTrigs_page, mem_dedup]
      rcases h with h | h
      · exact Or.inl h
      · exact Or.inr (Or.inl h)
  | fetchPage now k gz => simp [recorded] at h
  | storePage now k body timeout env =>
    simp only [recorded, List.mem_singleton] at h
    subst h
    show t ∈ (addTrig1 st t).page
    exact mem_addTrig1_page.mpr (Or.inl rfl)
  | attach id => simp [recorded] at h
  | detach id => simp [recorded] at h
  | reset => simp [recorded] at h
  | rise t' => simp [recorded] at h
  | clear => simp [recorded] at h
  | stats => simp [recorded] at h

/-- the page's trigger set only grows, except by `reset` -/
theorem page_mono (st : IState) (op : IOp) (hop : ∀ (e : op = .reset), False) {t : Key} (h : t ∈ st.page) :
    t ∈ (istep st op).1.page := by
  cases op with
  | addTrigger t' => exact mem_addTrig1_page.mpr (Or.inr h)
  | fetch now k nt =>
    simp only [istep]
    cases hs : step st.cache (Op.fetch now k) with
    | mk c o =>
      cases o with
      | hit v trigs d g =>
        by_cases e : nt
        · simpa [e] using h
        · simp only [e, Bool.false_eq_true, if_false]
          exact mem_addTrigs_page.mpr (Or.inr h)
      | _ => exact h
  | store now k v trigs timeout nt env =>
    simp only [istep]
    by_cases e : nt
    · simpa [e] using h
    · simp only [e, Bool.false_eq_true, if_false]
      show t ∈ (addTrig1 (addTrigs st (dedup trigs)) k).page
      exact mem_addTrig1_page.mpr (Or.inr (mem_addTrigs_page.mpr (Or.inr h)))
  | fetchPage now k gz =>
    simp only [istep]
    cases hs : step st.cache (Op.fetch now (pageKey gz k)) with
    | mk c o => cases o <;> exact h
  | storePage now k body timeout env => exact mem_addTrig1_page.mpr (Or.inr h)
  | attach id => exact h
  | detach id => exact h
  | reset => exact (hop rfl).elim
  | rise t' => exact h
  | clear => exact h
  | stats => exact h

/-- an attached recorder receives everything an operation records, keeps what it has, and stays
attached — unless the operation attaches/detaches that very recorder -/
theorem recorder_step (st : IState) (op : IOp) (id : Nat) {l : List Key} (hl : recOf st id = some l)
    (hop : (∀ (e : op = .attach id), False) ∧ (∀ (e : op = .detach id), False)) :
    ∃ l', recOf (istep st op).1 id = some l' ∧ (∀ x ∈ l, x ∈ l') ∧ ∀ t ∈ recorded st op, t ∈ l' := by
  cases op with
  | addTrigger t' =>
    refine ⟨insertSet t' l, by simp only [istep]; rw [recOf_addTrig1, hl]; rfl, ?_, ?_⟩
    · intro x hx; exact mem_insertSet.mpr (Or.inr hx)
    · intro t ht; simp only [recorded, List.mem_singleton] at ht; exact mem_insertSet.mpr (Or.inl ht)
  | fetch now k nt =>
    cases hs : step st.cache (Op.fetch now k) with
    | mk c o =>
      have h2 : (step st.cache (Op.fetch now k)).2 = o := by rw [hs]
      cases nt with
      | true =>
        refine ⟨l, ?_, fun x hx => hx, by simp [recorded]⟩
        simp only [istep, hs]
        cases o <;> exact hl
      | false =>
        cases o with
        | hit v trigs d g =>
          have h0 : recOf { st with cache := c } id = some l := hl
          obtain ⟨l', e, hm⟩ := recOf_addTrigs (ts := trigs) h0
          refine ⟨l', by simpa [istep, hs] using e, fun x hx => (hm x).mpr (Or.inr hx), ?_⟩
          intro t ht
          simp only [recorded, h2] at ht
          exact (hm t).mpr (Or.inl ht)
        | miss => exact ⟨l, by simp only [istep, hs]; exact hl, fun x hx => hx, by simp [recorded, h2]⟩
        | done => exact ⟨l, by simp only [istep, hs]; exact hl, fun x hx => hx, by simp [recorded, h2]⟩
        | stats a b => exact ⟨l, by simp only [istep, hs]; exact hl, fun x hx => hx, by simp [recorded, h2]⟩
  | store now k v trigs timeout nt env =>
    simp only [istep]
    cases nt with
    | true => exact ⟨l, by simpa [recOf] using hl, fun x hx => hx, by simp [recorded]⟩
    | false =>
      obtain ⟨l1, e1, hm1⟩ := recOf_addTrigs (ts := dedup trigs) hl
      have e2 : recOf (addTrig1 (addTrigs st (dedup trigs)) k) id = some (insertSet k l1) := by
        rw [recOf_addTrig1, e1]; rfl
      refine ⟨insertSet k l1, by simpa [recOf] using e2, ?_, ?_⟩
      · intro x hx; exact mem_insertSet.mpr (Or.inr ((hm1 x).mpr (Or.inr hx)))
      · intro t ht
        simp only [recorded, List.mem_cons] at ht
        rcases ht with ht | ht
        · exact mem_insertSet.mpr (Or.inl ht)
        · exact mem_insertSet.mpr (Or.inr ((hm1 t).mpr (Or.inl (mem_dedup.mpr ht))))
  | fetchPage now k gz =>
    simp only [istep]
    cases hs : step st.cache (Op.fetch now (pageKey gz k)) with
    | mk c o => cases o <;> exact ⟨l, hl, fun x hx => hx, by simp [recorded]⟩
  | storePage now k body timeout env =>
    refine ⟨insertSet k l, ?_, fun x hx => mem_insertSet.mpr (Or.inr hx), ?_⟩
    · show recOf (addTrig1 st k) id = _
      rw [recOf_addTrig1, hl]; rfl
    · intro t ht; simp only [recorded, List.mem_singleton] at ht; exact mem_insertSet.mpr (Or.inl ht)
  | attach id' =>
    have hne : id' ≠ id := fun e => hop.1 (e ▸ rfl)
    refine ⟨l, ?_, fun x hx => hx, by simp [recorded]⟩
    simp only [istep, recOf, List.find?]
    have : ((id', ([] : List Key)).1 == id) = false := by simpa using hne
    rw [this]
    simp only [recOf] at hl
    rw [find_filter_ne _ hne]
    exact hl
  | detach id' =>
    have hne : id' ≠ id := fun e => hop.2 (e ▸ rfl)
    refine ⟨l, ?_, fun x hx => hx, by simp [recorded]⟩
    simp only [istep, recOf]
    simp only [recOf] at hl
    rw [find_filter_ne _ hne]
    exact hl
  | reset => exact ⟨l, hl, fun x hx => hx, by simp [recorded]⟩
  | rise t' => exact ⟨l, hl, fun x hx => hx, by simp [recorded]⟩
  | clear => exact ⟨l, hl, fun x hx => hx, by simp [recorded]⟩
  | stats => exact ⟨l, hl, fun x hx => hx, by simp [recorded]⟩

end Cppcms.C07
