import Cppcms.Common
/-!
# C07 — interface types and the specification layer of the in-memory cache

This file is independent of the concrete model (`Model.lean`) and of the generated
conditions (`Gen.lean`).  It fixes

* the vocabulary shared by the model, the drivers and the later properties C08–C10:
  `Key`, `Val`, `Time`, `Gen`, `StoreEnv`, `Op`, `Out`;
* the *specification*: a cache is a partial map `Key → Option Entry`; `Spec.step` says what
  each operation of `impl::base_cache` does to that map and what it answers.

The specification never evicts.  The concrete cache may hold *fewer* entries (eviction under a
size limit or memory pressure, a store that could not be performed) but never different
ones: that is the relation `Sub` used by `Props.refines_spec`.
-/
namespace Cppcms.C07
open Cppcms

/-- keys and trigger names are arbitrary byte strings (`std::string`, NULs allowed) -/
abbrev Key := Bytes
abbrev Val := Bytes
/-- `time_t` (signed); the clock is an explicit input of `fetch` and `store` -/
abbrev Time := Int
/-- `uint64_t` generation stamps -/
abbrev Gen := UInt64

/-- Allocation behaviour observed during one `store` (only the process-shared back-end can
exhibit anything but the default).  These are *inputs*: the theorems hold for every value. -/
structure StoreEnv where
  /-- the copy of the value into cache memory (`to_int(a)`, before the lock) throws `bad_alloc` -/
  copyFails : Bool := false
  /-- `some bumped`: a `bad_alloc` is thrown inside the locked section after `check_limits`
  (→ `nl_clear()`); `bumped` tells whether `generation++` had already been executed -/
  lateFails : Option Bool := none
  /-- answers of `not_enough_memory()` at the successive iterations of the `check_limits`
  loop (`false` once the list is exhausted) -/
  lowMem : List Bool := []
deriving DecidableEq, Repr

/-- the operations of `impl::base_cache` -/
inductive Op where
  | fetch (now : Time) (k : Key)
  | store (now : Time) (k : Key) (v : Val) (trigs : List Key) (deadline : Time)
      (gen : Option Gen := none) (env : StoreEnv := {})
  | rise (t : Key)
  | remove (k : Key)
  | clear
  | stats
deriving DecidableEq, Repr

inductive Out where
  | miss
  | hit (v : Val) (trigs : List Key) (deadline : Time) (gen : Gen)
  | done
  | stats (keys trigs : Nat)
deriving DecidableEq, Repr

/-- what a cache remembers about a key -/
structure Entry where
  val : Val
  trigs : List Key
  deadline : Time
  gen : Gen
deriving DecidableEq, Repr

/-- `std::set` construction from a list: drop repeated elements (order is not observable) -/
def dedup : List Key → List Key
  | [] => []
  | a :: l => if a ∈ l then dedup l else a :: dedup l

/-- the trigger set attached to an entry: the given set, plus the key itself -/
def ownTrigs (k : Key) (trigs : List Key) : List Key :=
  if k ∈ dedup trigs then dedup trigs else k :: dedup trigs

abbrev Spec := Key → Option Entry

namespace Spec

def empty : Spec := fun _ => none

def remove (sp : Spec) (k : Key) : Spec := fun k' => if k' = k then none else sp k'

def insert (sp : Spec) (k : Key) (e : Entry) : Spec := fun k' => if k' = k then some e else sp k'

def rise (sp : Spec) (t : Key) : Spec := fun k' =>
  match sp k' with
  | some e => if t ∈ e.trigs then none else some e
  | none => none

/-- an entry is visible at time `now` iff its deadline has not passed (`deadline ≥ now`) -/
def fetch (sp : Spec) (now : Time) (k : Key) : Out :=
  match sp k with
  | some e => if e.deadline < now then .miss else .hit e.val e.trigs e.deadline e.gen
  | none => .miss

/-- One operation on the specification.  `stamp` is consulted for `store` only:
`some g` — the store is performed and stamped with generation `g`;
`none` — the cache gave the store up (allocation failure …): the key is then simply absent.
A cache may always forget; it may never keep what the store replaced. -/
def step (sp : Spec) (op : Op) (stamp : Option Gen) : Spec × Out :=
  match op with
  | .fetch now k => (sp, fetch sp now k)
  | .store _ k v trigs d _ _ =>
    match stamp with
    | some g => (insert sp k ⟨v, ownTrigs k trigs, d, g⟩, .done)
    | none => (remove sp k, .done)
  | .rise t => (rise sp t, .done)
  | .remove k => (remove sp k, .done)
  | .clear => (empty, .done)
  | .stats => (sp, .done)

end Spec

/-- `op` is a store under key `k` -/
def Op.isStoreOf (k : Key) : Op → Bool
  | .store _ k' _ _ _ _ _ => k' == k
  | _ => false

/-- `op` invalidates (or supersedes) an entry stored under `k` with trigger set `tr` -/
def Op.invalidates (k : Key) (tr : List Key) : Op → Bool
  | .store _ k' _ _ _ _ _ => k' == k
  | .remove k' => k' == k
  | .clear => true
  | .rise t => tr.contains t
  | _ => false

/-- a store whose allocations all succeed and which sees no memory pressure -/
def Op.quiet : Op → Prop
  | .store _ _ _ _ _ _ env => env.copyFails = false ∧ env.lateFails = none ∧ ∀ b ∈ env.lowMem, b = false
  | _ => True

/-- `a ⊑ b`: everything `a` holds, `b` holds identically (a may hold less) -/
def Sub (a b : Spec) : Prop := ∀ k e, a k = some e → b k = some e

/-- relation between a concrete answer and the specification's answer: identical, except that
a concrete `fetch` may miss where the specification hits (eviction), and `stats` (which the
never-evicting specification does not determine; see C08) -/
def OutOk : Out → Out → Prop
  | .miss, .miss => True
  | .miss, .hit _ _ _ _ => True
  | .hit v t d g, .hit v' t' d' g' => v = v' ∧ t = t' ∧ d = d' ∧ g = g'
  | .done, .done => True
  | .stats _ _, .done => True
  | _, _ => False

instance : (a b : Out) → Decidable (OutOk a b) := fun a b => by
  cases a <;> cases b <;> simp only [OutOk] <;> exact inferInstance

end Cppcms.C07
