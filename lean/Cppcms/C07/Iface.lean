import Cppcms.C07.Model
/-!
# C07 — model of `cppcms::cache_interface` / `triggers_recorder` (src/cache_interface.cpp)

The second, smaller model of C07: how triggers are *recorded* while a page or frame is being
built and attached when it is stored.

State: the back-end cache (`State`, the model of `mem_cache`), `cache_interface::triggers_`
(`page`), the attached `triggers_recorder`s (`recs`: id ↦ its `triggers_`), and
`page_compression_used_` (`gzip`).  Sets are lists (membership is all that matters).

Each operation is a short straight-line function in the source; the translator
(`translate/c07.py`) checks their statement order, `Gen.pagePrefix*`/`Gen.deadtime*` carry the
constants.  `fetch_page`/`store_page` need an `http::context` (response body capture): the body
that `store_page` stores is an input (`body`) here.
-/
namespace Cppcms.C07
open Cppcms

structure IState where
  cache : State
  page : List Key := []
  recs : List (Nat × List Key) := []
  gzip : Bool := false

inductive IOp where
  | addTrigger (t : Key)
  /-- `fetch_frame` / `fetch_data` (`fetch`) -/
  | fetch (now : Time) (k : Key) (notriggers : Bool)
  /-- `store_frame` / `store_data` (`store`); `timeout < 0` = forever -/
  | store (now : Time) (k : Key) (v : Val) (trigs : List Key) (timeout : Int) (notriggers : Bool) (env : StoreEnv := {})
  /-- `fetch_page`; `gzip` = `response().need_gzip()` -/
  | fetchPage (now : Time) (k : Key) (gzip : Bool)
  /-- `store_page`; `body` = `response().copied_data()` -/
  | storePage (now : Time) (k : Key) (body : Val) (timeout : Int) (env : StoreEnv := {})
  /-- constructor / `detach()` (or destructor) of a `triggers_recorder` -/
  | attach (id : Nat)
  | detach (id : Nat)
  | reset
  | rise (t : Key)
  | clear
  | stats
deriving Repr

inductive IOut where
  | miss
  | hit (v : Val)
  | done
  | detached (trigs : List Key)
  | stats (keys trigs : Nat)
deriving DecidableEq, Repr

def insertSet (t : Key) (l : List Key) : List Key := if t ∈ l then l else t :: l

/-- `cache_interface::add_trigger`: every attached recorder and the page's own set get `t` -/
def addTrig1 (st : IState) (t : Key) : IState :=
  { st with page := insertSet t st.page, recs := st.recs.map fun p => (p.1, insertSet t p.2) }

def addTrigs (st : IState) (ts : List Key) : IState := ts.foldl addTrig1 st

/-- `deadtime(sec)` at clock `now` (the overflow exception "Year 2038 problem?" is out of the model: `Int`) -/
def deadtime (now : Time) (sec : Int) : Time := if sec < 0 then Gen.ifaceInfty else now + sec

def pageKey (gzip : Bool) (k : Key) : Key := (if gzip then Gen.pagePrefixGzip else Gen.pagePrefixPlain) ++ k

def istep (st : IState) : IOp → IState × IOut
  | .addTrigger t => (addTrig1 st t, .done)
  | .fetch now k notriggers =>
    match step st.cache (.fetch now k) with
    | (c, .hit v trigs _ _) =>
      let st1 := { st with cache := c }
      (if notriggers then st1 else addTrigs st1 trigs, .hit v)
    | (c, _) => ({ st with cache := c }, .miss)
  | .store now k v trigs timeout notriggers env =>
    let st1 := if notriggers then st else addTrig1 (addTrigs st (dedup trigs)) k
    ({ st1 with cache := (step st1.cache (.store now k v trigs (deadtime now timeout) none env)).1 }, .done)
  | .fetchPage now k gzip =>
    let st1 := { st with gzip := gzip }
    match step st1.cache (.fetch now (pageKey gzip k)) with
    | (c, .hit v _ _ _) => ({ st1 with cache := c }, .hit v)
    | (c, _) => ({ st1 with cache := c }, .miss)
  | .storePage now k body timeout env =>
    let st1 := addTrig1 st k
    ({ st1 with cache := (step st1.cache (.store now (pageKey st1.gzip k) body st1.page (deadtime now timeout) none env)).1 }, .done)
  | .attach id => ({ st with recs := (id, []) :: st.recs.filter (·.1 != id) }, .done)
  | .detach id =>
    ({ st with recs := st.recs.filter (·.1 != id) }, .detached ((st.recs.find? (·.1 == id)).map (·.2) |>.getD []))
  | .reset => ({ st with page := [] }, .done)
  | .rise t => ({ st with cache := (step st.cache (.rise t)).1 }, .done)
  | .clear => ({ st with cache := (step st.cache .clear).1 }, .done)
  | .stats => (st, .stats st.cache.size st.cache.trigCount)

def irun (st : IState) (ops : List IOp) : IState := ops.foldl (fun st op => (istep st op).1) st

/-- the back-end operations an interface operation performs (in the state it is issued in) -/
def lower (st : IState) : IOp → List Op
  | .fetch now k _ => [.fetch now k]
  | .store now k v trigs timeout _ env => [.store now k v trigs (deadtime now timeout) none env]
  | .fetchPage now k gzip => [.fetch now (pageKey gzip k)]
  | .storePage now k body timeout env =>
    [.store now (pageKey st.gzip k) body (addTrig1 st k).page (deadtime now timeout) none env]
  | .rise t => [.rise t]
  | .clear => [.clear]
  | _ => []

/-- the back-end history of an interface history -/
def lowerRun : IState → List IOp → List Op
  | _, [] => []
  | st, op :: ops => lower st op ++ lowerRun (istep st op).1 ops

/-- triggers an operation records for the page under construction -/
def recorded (st : IState) : IOp → List Key
  | .addTrigger t => [t]
  | .fetch now k false =>
    match (step st.cache (.fetch now k)).2 with
    | .hit _ trigs _ _ => trigs
    | _ => []
  | .store _ k _ trigs _ false _ => k :: trigs
  | .storePage _ k _ _ _ => [k]
  | _ => []

end Cppcms.C07
