import Cppcms.Common
import Cppcms.C07.Gen
import Cppcms.C07.Spec
/-!
# C07/C08 — concrete model of `mem_cache<Setup>` (src/cache_storage.cpp)

The state mirrors the four indexes and the counters of `mem_cache`:

* `primary`  : `hash_map<key, container>` — an association list (iteration order of the hash map is
  never observed); `container` = data, the trigger back-references in `push_back` order, the
  deadline (`timeout->first`) and the generation stamp;
* `triggers` : `hash_map<trigger, list<pointer>>` — per trigger the keys in `push_front` order;
* `timeout`  : `multimap<time_t, pointer>` — sorted by deadline, insertion order among equals;
* `lru`      : `list<pointer>` — front = most recently stored/fetched;
* counters `size`, `trigCount`, `generation`; configuration `limit` and `sizeLimit`
  (`Setup::size_limit()`: `none` for the thread back-end (SIZE_MAX), `some (mem/20)` for the
  process-shared one).

Iterators/pointers are represented by keys: in every reachable state a key occurs at most once
in each index (part of `Inv`, proved in `Lemmas.lean`), so "erase that node" = "erase that key".
Conditions come from `Gen.lean` (regenerated from the source on every run).

Interface for C08–C10: `State`, `State.init`, `Op`, `Out` (from `Spec.lean`), `step`, `run`.
-/
namespace Cppcms.C07
open Cppcms

structure Container where
  data : Val
  trigs : List Key
  deadline : Time
  gen : Gen
deriving DecidableEq, Repr

structure State where
  primary : List (Key × Container) := []
  triggers : List (Key × List Key) := []
  timeout : List (Time × Key) := []
  lru : List Key := []
  limit : Nat := 0
  size : Nat := 0
  trigCount : Nat := 0
  generation : Gen := 0
  sizeLimit : Option Nat := none
deriving Repr

/-- `mem_cache(pages)`; `sizeLimit = none` is `thread_settings`, `some (memory/20)` `process_settings` -/
def State.init (limit : Nat) (sizeLimit : Option Nat := none) : State :=
  { limit := limit, sizeLimit := sizeLimit }

/-! ### association lists (the two hash maps) -/

def alookup {β : Type} (k : Key) : List (Key × β) → Option β
  | [] => none
  | (k', v) :: r => if k' = k then some v else alookup k r

def aerase {β : Type} (k : Key) : List (Key × β) → List (Key × β)
  | [] => []
  | (k', v) :: r => if k' = k then r else (k', v) :: aerase k r

/-- the list hanging off trigger `t` (`[]` when the trigger is not in the map) -/
def trigList (t : Key) (trs : List (Key × List Key)) : List Key := (alookup t trs).getD []

/-- `i->first->second.erase(i->second); if(i->first->second.empty()) triggers.erase(i->first);` -/
def eraseTrig (t k : Key) : List (Key × List Key) → List (Key × List Key)
  | [] => []
  | (t', l) :: r =>
    if t' = t then (if (l.erase k).isEmpty then r else (t', l.erase k) :: r)
    else (t', l) :: eraseTrig t k r

/-- `triggers.insert(pair(t, empty list)).first->second.push_front(p)` -/
def addTrig (t k : Key) : List (Key × List Key) → List (Key × List Key)
  | [] => [(t, [k])]
  | (t', l) :: r => if t' = t then (t', k :: l) :: r else (t', l) :: addTrig t k r

/-- `timeout.insert(pair(d, p))`: `std::multimap` inserts after the last element with an equal key -/
def tinsert (d : Time) (k : Key) : List (Time × Key) → List (Time × Key)
  | [] => [(d, k)]
  | (d', k') :: r => if d < d' then (d, k) :: (d', k') :: r else (d', k') :: tinsert d k r

/-! ### operations -/

/-- `delete_node(p)` where `p = primary.find(k)`; a no-op when the key is absent (the C++ is only
ever called with a valid iterator; callers test `!= primary.end()` first) -/
def deleteNode (s : State) (k : Key) : State :=
  match alookup k s.primary with
  | none => s
  | some c =>
    { s with
      lru := s.lru.erase k
      timeout := s.timeout.erase (c.deadline, k)
      triggers := c.trigs.foldl (fun trs t => eraseTrig t k trs) s.triggers
      trigCount := s.trigCount - c.trigs.length
      primary := aerase k s.primary
      size := s.size - 1 }

/-- `nl_clear()` -/
def nlClear (s : State) : State :=
  { s with primary := [], triggers := [], timeout := [], lru := [], size := 0, trigCount := 0 }

def fetch (s : State) (now : Time) (k : Key) : State × Out :=
  match alookup k s.primary with
  | none => (s, .miss)
  | some c =>
    if Gen.fetchExpired c.deadline now then (s, .miss)
    else ({ s with lru := k :: s.lru.erase k }, .hit c.data c.trigs c.deadline c.gen)

/-- `rise(t)`: copy the trigger's list (kill list), then `delete_node` each -/
def rise (s : State) (t : Key) : State := (trigList t s.triggers).foldl deleteNode s

/-- the entry `check_limits` deletes next: head of the timeout index if expired, else LRU tail -/
def victim (s : State) (now : Time) : Option Key :=
  match s.timeout with
  | (d, k) :: _ => if Gen.evictExpired true d now then some k else s.lru.getLast?
  | [] => if Gen.evictExpired false 0 now then none else s.lru.getLast?

/-- the `while` loop of `check_limits`; `mem` = successive answers of `not_enough_memory()`.
`fuel` bounds the iterations; `checkLimits` supplies `size`, which suffices because every
iteration needs `size > 0` and `delete_node` decrements it (`Lemmas.checkLimitsLoop_fuel`). -/
def checkLimitsLoop : Nat → State → Time → List Bool → State
  | 0, s, _, _ => s
  | fuel + 1, s, now, mem =>
    if Gen.limitsLoopCond s.size s.limit (mem.headD false) then
      match victim s now with
      | some k => checkLimitsLoop fuel (deleteNode s k) now mem.tail
      | none => s
    else s

def checkLimits (s : State) (now : Time) (mem : List Bool) : State :=
  checkLimitsLoop s.size s now mem

/-- `Setup::size_limit()` early return of `store` -/
def refused (s : State) : Bool :=
  match s.sizeLimit with
  | none => false
  | some l => Gen.storeRefused s.size l

/-- trigger list of a new container: own key first when it is not among `triggers_in`
(condition from the source), then `triggers_in` -/
def containerTrigs (k : Key) (trigs : List Key) : List Key :=
  let ts := dedup trigs
  if (if Gen.ownKeyAddedWhenAbsent then !(decide (k ∈ ts)) else decide (k ∈ ts)) then k :: ts else ts

/-- the insertion part of `store` (after `check_limits`) -/
def insertEntry (s : State) (k : Key) (v : Val) (trigs : List Key) (d : Time) (gen : Option Gen) : State :=
  let ts := containerTrigs k trigs
  let c : Container := ⟨v, ts, d, gen.getD s.generation⟩
  { s with
    primary := (k, c) :: s.primary
    size := s.size + 1
    generation := if gen.isNone then s.generation + 1 else s.generation
    lru := k :: s.lru
    timeout := tinsert d k s.timeout
    triggers := ts.foldl (fun trs t => addTrig t k trs) s.triggers
    trigCount := s.trigCount + ts.length }

/-- `store`, parametric in what the handler of the value copy's `bad_alloc` does
(`removesOld = false` is the code before the fix of defect D9: plain `return;`) -/
def storeG (removesOld : Bool) (s : State) (now : Time) (k : Key) (v : Val) (trigs : List Key) (d : Time)
    (gen : Option Gen) (env : StoreEnv) : State :=
  if env.copyFails then
    (if removesOld then deleteNode s k else s)
  else
    let s1 := deleteNode s k
    if refused s1 then s1
    else
      match env.lateFails with
      | some bumped =>
        nlClear { s1 with generation := if bumped && gen.isNone then s1.generation + 1 else s1.generation }
      | none => insertEntry (checkLimits s1 now env.lowMem) k v trigs d gen

/-- `store` as the source has it now (handler shape read by the translator) -/
def store (s : State) (now : Time) (k : Key) (v : Val) (trigs : List Key) (d : Time)
    (gen : Option Gen) (env : StoreEnv) : State :=
  storeG Gen.copyFailRemovesOld s now k v trigs d gen env

/-- whether `store` is performed, and with which generation stamp (input of `Spec.step`) -/
def stamp (s : State) : Op → Option Gen
  | .store _ k _ _ _ gen env =>
    if env.copyFails then none
    else if refused (deleteNode s k) then none
    else if env.lateFails.isSome then none
    else some (gen.getD s.generation)
  | _ => none

def step (s : State) : Op → State × Out
  | .fetch now k => fetch s now k
  | .store now k v trigs d gen env => (store s now k v trigs d gen env, .done)
  | .rise t => (rise s t, .done)
  | .remove k => (deleteNode s k, .done)
  | .clear => (nlClear s, .done)
  | .stats => (s, .stats s.size s.trigCount)

/-- state after a history -/
def run (s : State) (ops : List Op) : State := ops.foldl (fun s op => (step s op).1) s

/-- the specification run alongside the concrete cache (stamps taken from the concrete run) -/
def specRun : State → Spec → List Op → Spec
  | _, sp, [] => sp
  | s, sp, op :: ops => specRun (step s op).1 (Spec.step sp op (stamp s op)).1 ops

/-- abstraction: the partial map held by the concrete cache -/
def toEntry (c : Container) : Entry := ⟨c.data, c.trigs, c.deadline, c.gen⟩
def abs (s : State) : Spec := fun k => (alookup k s.primary).map toEntry

end Cppcms.C07
