import Cppcms.C07.Lemmas
/-!
# C07 — abstraction function, refinement to the specification layer, exactness without limit,
and specification-level facts along histories (used by `Props.lean`).
-/
namespace Cppcms.C07
open Cppcms

/-! ### abstraction and refinement -/

theorem abs_deleteNode {s : State} (h : Inv s) (k : Key) : abs (deleteNode s k) = Spec.remove (abs s) k := by
  funext k'
  simp only [abs, Spec.remove, alookup_deleteNode h]
  by_cases e : k' = k <;> simp [e]

theorem abs_foldl_deleteNode {s : State} (h : Inv s) (ks : List Key) :
    abs (ks.foldl deleteNode s) = fun k' => if k' ∈ ks then none else abs s k' := by
  induction ks generalizing s with
  | nil => simp
  | cons k ks ih =>
    simp only [List.foldl_cons]
    rw [ih (inv_deleteNode h k), abs_deleteNode h]
    funext k'
    simp only [Spec.remove, List.mem_cons]
    by_cases e1 : k' ∈ ks
    · simp [e1]
    · by_cases e2 : k' = k <;> simp [e1, e2]

theorem abs_rise {s : State} (h : Inv s) (t : Key) : abs (rise s t) = Spec.rise (abs s) t := by
  unfold rise
  rw [abs_foldl_deleteNode h]
  funext k'
  simp only [Spec.rise, abs]
  cases hc : alookup k' s.primary with
  | none =>
    have : k' ∉ trigList t s.triggers := by
      intro hm
      obtain ⟨c, hc', _⟩ := (h.trMem t k').mp hm
      rw [hc] at hc'; cases hc'
    simp [this]
  | some c =>
    by_cases ht : t ∈ c.trigs
    · have : k' ∈ trigList t s.triggers := (h.trMem t k').mpr ⟨c, hc, ht⟩
      simp [this, toEntry, ht]
    · have : k' ∉ trigList t s.triggers := by
        intro hm
        obtain ⟨c', hc', ht'⟩ := (h.trMem t k').mp hm
        rw [hc] at hc'; cases hc'; exact ht ht'
      simp [this, toEntry, ht]

theorem abs_nlClear (s : State) : abs (nlClear s) = Spec.empty := by
  funext k'; simp [abs, nlClear, alookup, Spec.empty]

theorem abs_fetch (s : State) (now : Time) (k : Key) : abs (fetch s now k).1 = abs s := by
  unfold fetch
  cases alookup k s.primary with
  | none => rfl
  | some c =>
    simp only
    split <;> rfl

theorem abs_insertEntry (s : State) (k : Key) (v : Val) (trigs : List Key) (d : Time) (gen : Option Gen) :
    abs (insertEntry s k v trigs d gen) = Spec.insert (abs s) k ⟨v, ownTrigs k trigs, d, gen.getD s.generation⟩ := by
  funext k'
  simp only [abs, insertEntry, Spec.insert, alookup_cons, containerTrigs_eq]
  by_cases e : k = k'
  · subst e; simp [toEntry]
  · have : ¬ k' = k := fun x => e x.symm
    simp [e, this]

theorem sub_refl (a : Spec) : Sub a a := fun _ _ h => h

theorem sub_trans {a b c : Spec} (h1 : Sub a b) (h2 : Sub b c) : Sub a c := fun k e h => h2 k e (h1 k e h)

theorem sub_remove {a b : Spec} (h : Sub a b) (k : Key) : Sub (Spec.remove a k) (Spec.remove b k) := by
  intro k' e
  simp only [Spec.remove]
  by_cases e' : k' = k
  · simp [e']
  · simp only [e', if_false]; exact h k' e

theorem sub_remove_left (a : Spec) (k : Key) : Sub (Spec.remove a k) a := by
  intro k' e
  simp only [Spec.remove]
  by_cases e' : k' = k <;> simp [e']

theorem sub_insert {a b : Spec} (h : Sub a b) (k : Key) (e : Entry) : Sub (Spec.insert a k e) (Spec.insert b k e) := by
  intro k' e0
  simp only [Spec.insert]
  by_cases e' : k' = k
  · simp [e']
  · simp only [e', if_false]; exact h k' e0

theorem sub_rise {a b : Spec} (h : Sub a b) (t : Key) : Sub (Spec.rise a t) (Spec.rise b t) := by
  intro k' e0
  simp only [Spec.rise]
  cases ha : a k' with
  | none => simp
  | some e =>
    rw [h k' e ha]
    exact id

theorem sub_empty (b : Spec) : Sub Spec.empty b := by
  intro k e h; simp [Spec.empty] at h

theorem sub_checkLimits {s : State} (h : Inv s) (now : Time) (mem : List Bool) :
    Sub (abs (checkLimits s now mem)) (abs s) := by
  intro k e he
  simp only [abs] at he ⊢
  cases hc : alookup k (checkLimits s now mem).primary with
  | none => rw [hc] at he; cases he
  | some c =>
    rw [hc] at he
    rw [alookup_checkLimitsLoop_some h _ _ _ hc]
    exact he

/-- One step of the concrete cache refines one step of the specification (given the stamp), for
every allocation outcome: the state stays a sub-map, and the answer is the specification's except
that a fetch may miss. -/
theorem refines_step {s : State} {sp : Spec} (h : Inv s) (hs : Sub (abs s) sp) (op : Op) :
    Sub (abs (step s op).1) (Spec.step sp op (stamp s op)).1 ∧
    OutOk (step s op).2 (Spec.step sp op (stamp s op)).2 := by
  cases op with
  | fetch now k =>
    refine ⟨by simpa [step, Spec.step, abs_fetch] using hs, ?_⟩
    simp only [step, Spec.step, fetch, Spec.fetch]
    cases hc : alookup k s.primary with
    | none => simp only; split <;> (try split) <;> simp [OutOk]
    | some c =>
      have hsp : sp k = some (toEntry c) := hs k _ (by simp [abs, hc])
      simp only [hsp, toEntry, Gen.fetchExpired]
      by_cases e : c.deadline < now <;> simp [e, OutOk]
  | store now k v trigs d gen env =>
    refine ⟨?_, by simp only [step, Spec.step]; split <;> simp [OutOk]⟩
    simp only [step, Spec.step, stamp, store, storeG]
    by_cases e1 : env.copyFails
    · have : Gen.copyFailRemovesOld = true := rfl
      simp only [e1, if_true, this]
      rw [abs_deleteNode h]
      exact sub_remove hs k
    · simp only [e1]
      by_cases e2 : refused (deleteNode s k)
      · simp only [e2, if_true, Bool.false_eq_true, if_false]
        rw [abs_deleteNode h]
        exact sub_remove hs k
      · simp only [e2, Bool.false_eq_true, if_false]
        cases e3 : env.lateFails with
        | some b =>
          simp only [Option.isSome_some, if_true]
          rw [abs_nlClear]
          exact sub_empty _
        | none =>
          simp only [Option.isSome_none, Bool.false_eq_true, if_false]
          rw [abs_insertEntry]
          have hg : (checkLimits (deleteNode s k) now env.lowMem).generation = s.generation := by
            unfold checkLimits
            rw [generation_checkLimitsLoop, generation_deleteNode]
          rw [hg]
          apply sub_trans (sub_insert (sub_checkLimits (inv_deleteNode h k) now env.lowMem) k _)
          rw [abs_deleteNode h]
          intro k' e0
          simp only [Spec.insert, Spec.remove]
          by_cases e' : k' = k
          · simp [e']
          · simp only [e', if_false]; exact hs k' e0
  | rise t =>
    refine ⟨?_, by simp [step, Spec.step, OutOk]⟩
    simp only [step, Spec.step]
    rw [abs_rise h]
    exact sub_rise hs t
  | remove k =>
    refine ⟨?_, by simp [step, Spec.step, OutOk]⟩
    simp only [step, Spec.step]
    rw [abs_deleteNode h]
    exact sub_remove hs k
  | clear =>
    refine ⟨?_, by simp [step, Spec.step, OutOk]⟩
    simp only [step, Spec.step]
    rw [abs_nlClear]
    exact sub_empty _
  | stats =>
    exact ⟨by simpa [step, Spec.step] using hs, by simp [step, Spec.step, OutOk]⟩

theorem checkLimitsLoop_noop (fuel : Nat) (s : State) (now : Time) (mem : List Bool)
    (hl : s.limit = 0) (hm : ∀ b ∈ mem, b = false) : checkLimitsLoop fuel s now mem = s := by
  cases fuel with
  | zero => rfl
  | succ n =>
    unfold checkLimitsLoop
    have : mem.headD false = false := by
      cases mem with
      | nil => rfl
      | cons b r => exact hm b (by simp)
    rw [this]
    simp [Gen.limitsLoopCond, hl]

theorem refused_of_none {s : State} (h : s.sizeLimit = none) : refused s = false := by
  simp [refused, h]

/-- Without a limit, without a size cap and without allocation trouble the concrete cache *is* the
specification: same map, same answers (except `stats`, which the specification does not answer). -/
theorem exact_step {s : State} (h : Inv s) (hl : s.limit = 0) (hsl : s.sizeLimit = none) (op : Op) (hq : op.quiet) :
    abs (step s op).1 = (Spec.step (abs s) op (stamp s op)).1 ∧
    (op ≠ .stats → (step s op).2 = (Spec.step (abs s) op (stamp s op)).2) ∧
    (∀ now k v trigs d gen env, op = .store now k v trigs d gen env → stamp s op = some (gen.getD s.generation)) := by
  cases op with
  | fetch now k =>
    refine ⟨by simp [step, Spec.step, abs_fetch], ?_, by intros; contradiction⟩
    intro _
    simp only [step, Spec.step, fetch, Spec.fetch, abs]
    cases hc : alookup k s.primary with
    | none => rfl
    | some c =>
      simp only [Option.map_some, toEntry, Gen.fetchExpired]
      by_cases e : c.deadline < now <;> simp [e]
  | store now k v trigs d gen env =>
    obtain ⟨q1, q2, q3⟩ := hq
    have hr : refused (deleteNode s k) = false := refused_of_none ((config_deleteNode s k).2.trans hsl)
    have hst : stamp s (.store now k v trigs d gen env) = some (gen.getD s.generation) := by
      simp [stamp, q1, q2, hr]
    refine ⟨?_, ?_, ?_⟩
    · rw [hst]
      simp only [step, Spec.step, store, storeG, q1, q2, hr, Bool.false_eq_true, if_false]
      have : checkLimits (deleteNode s k) now env.lowMem = deleteNode s k :=
        checkLimitsLoop_noop _ _ _ _ ((config_deleteNode s k).1.trans hl) q3
      rw [this, abs_insertEntry, abs_deleteNode h, generation_deleteNode]
      funext k'
      simp only [Spec.insert, Spec.remove]
      by_cases e : k' = k <;> simp [e]
    · intro _
      rw [hst]; rfl
    · intro now' k' v' trigs' d' gen' env' e
      cases e; exact hst
  | rise t =>
    exact ⟨by simp only [step, Spec.step]; exact abs_rise h t, fun _ => rfl, by intros; contradiction⟩
  | remove k =>
    exact ⟨by simp only [step, Spec.step]; exact abs_deleteNode h k, fun _ => rfl, by intros; contradiction⟩
  | clear =>
    exact ⟨by simp only [step, Spec.step]; exact abs_nlClear s, fun _ => rfl, by intros; contradiction⟩
  | stats =>
    exact ⟨rfl, fun hne => absurd rfl hne, by intros; contradiction⟩

/-! ### histories -/

theorem specRun_append (s : State) (sp : Spec) (a b : List Op) :
    specRun s sp (a ++ b) = specRun (run s a) (specRun s sp a) b := by
  induction a generalizing s sp with
  | nil => rfl
  | cons op a ih => simp only [List.cons_append, specRun, run_cons, ih]

theorem refines_run {s : State} {sp : Spec} (h : Inv s) (hs : Sub (abs s) sp) (ops : List Op) :
    Sub (abs (run s ops)) (specRun s sp ops) := by
  induction ops generalizing s sp with
  | nil => exact hs
  | cons op ops ih => exact ih (inv_step h op) (refines_step h hs op).1

theorem exact_run {s : State} (h : Inv s) (hl : s.limit = 0) (hsl : s.sizeLimit = none) (ops : List Op)
    (hq : ∀ op ∈ ops, op.quiet) : abs (run s ops) = specRun s (abs s) ops := by
  induction ops generalizing s with
  | nil => rfl
  | cons op ops ih =>
    have hq1 := hq op (by simp)
    have e := (exact_step h hl hsl op hq1).1
    rw [run_cons, specRun, ← e]
    exact ih (inv_step h op) ((config_step s op).1.trans hl) ((config_step s op).2.trans hsl)
      (fun o ho => hq o (by simp [ho]))

/-! specification-level facts about a key along a history -/

theorem spec_step_other {sp : Spec} {op : Op} {k : Key} (st : Option Gen)
    (h : op.invalidates k [] = false) : (Spec.step sp op st).1 k = sp k ∨ (Spec.step sp op st).1 k = none := by
  cases op with
  | fetch now k' => exact Or.inl rfl
  | store now k' v trigs d gen env =>
    have hk : ¬ k = k' := by
      intro e; subst e; simp [Op.invalidates] at h
    simp only [Spec.step]
    cases st <;> simp [Spec.insert, Spec.remove, hk]
  | rise t =>
    simp only [Spec.step, Spec.rise]
    cases sp k with
    | none => exact Or.inl rfl
    | some e => by_cases ht : t ∈ e.trigs <;> simp [ht]
  | remove k' =>
    simp [Op.invalidates] at h
    have hk : ¬ k = k' := fun e => h e.symm
    simp [Spec.step, Spec.remove, hk]
  | clear => simp [Op.invalidates] at h
  | stats => exact Or.inl rfl

/-- a key that is absent stays absent until it is stored again -/
theorem spec_none_stable (k : Key) (post : List Op) (hp : ∀ op ∈ post, op.isStoreOf k = false)
    (s : State) (sp : Spec) (h : sp k = none) : specRun s sp post k = none := by
  induction post generalizing s sp with
  | nil => exact h
  | cons op post ih =>
    apply ih (fun o ho => hp o (by simp [ho]))
    have h1 := hp op (by simp)
    cases op with
    | fetch now k' => exact h
    | store now k' v trigs d gen env =>
      have hk : ¬ k = k' := by intro e; subst e; simp [Op.isStoreOf] at h1
      simp only [Spec.step]
      split <;> simp [Spec.insert, Spec.remove, hk, h]
    | rise t => simp [Spec.step, Spec.rise, h]
    | remove k' => simp only [Spec.step, Spec.remove]; split <;> simp [h]
    | clear => rfl
    | stats => exact h

/-- after a store the key holds that store's entry or nothing, until it is stored again -/
theorem spec_entry_or_none (k : Key) (e : Entry) (post : List Op) (hp : ∀ op ∈ post, op.isStoreOf k = false)
    (s : State) (sp : Spec) (h : sp k = none ∨ sp k = some e) :
    specRun s sp post k = none ∨ specRun s sp post k = some e := by
  induction post generalizing s sp with
  | nil => exact h
  | cons op post ih =>
    apply ih (fun o ho => hp o (by simp [ho]))
    have h1 := hp op (by simp)
    cases op with
    | fetch now k' => exact h
    | store now k' v trigs d gen env =>
      have hk : ¬ k = k' := by intro e; subst e; simp [Op.isStoreOf] at h1
      simp only [Spec.step]
      split <;> simpa [Spec.insert, Spec.remove, hk] using h
    | rise t =>
      simp only [Spec.step, Spec.rise]
      rcases h with h | h
      · simp [h]
      · rw [h]; by_cases ht : t ∈ e.trigs <;> simp [ht]
    | remove k' =>
      simp only [Spec.step, Spec.remove]
      split
      · exact Or.inl rfl
      · exact h
    | clear => exact Or.inl rfl
    | stats => exact h

/-- an entry survives every operation that does not invalidate it -/
theorem spec_entry_kept (k : Key) (e : Entry) (post : List Op) (hp : ∀ op ∈ post, op.invalidates k e.trigs = false)
    (s : State) (sp : Spec) (h : sp k = some e) : specRun s sp post k = some e := by
  induction post generalizing s sp with
  | nil => exact h
  | cons op post ih =>
    apply ih (fun o ho => hp o (by simp [ho]))
    have h1 := hp op (by simp)
    cases op with
    | fetch now k' => exact h
    | store now k' v trigs d gen env =>
      have hk : ¬ k = k' := by intro e; subst e; simp [Op.invalidates] at h1
      simp only [Spec.step]
      split <;> simpa [Spec.insert, Spec.remove, hk] using h
    | rise t =>
      have : t ∉ e.trigs := by simpa [Op.invalidates] using h1
      simp [Spec.step, Spec.rise, h, this]
    | remove k' =>
      have hk : ¬ k = k' := by intro e; subst e; simp [Op.invalidates] at h1
      simp [Spec.step, Spec.remove, hk, h]
    | clear => simp [Op.invalidates] at h1
    | stats => exact h

/-- every entry of the specification comes from the latest store under its key, and nothing after
that store invalidated it -/
theorem spec_entry_origin (k : Key) (e : Entry) (ops : List Op) (s : State) (sp : Spec)
    (h : specRun s sp ops k = some e) :
    (sp k = some e ∧ ∀ op ∈ ops, op.invalidates k e.trigs = false) ∨
    (∃ pre post now v trigs gen env,
      ops = pre ++ Op.store now k v trigs e.deadline gen env :: post ∧
      e.val = v ∧ e.trigs = ownTrigs k trigs ∧ stamp (run s pre) (Op.store now k v trigs e.deadline gen env) = some e.gen ∧
      ∀ op ∈ post, op.invalidates k e.trigs = false) := by
  induction ops generalizing s sp with
  | nil => exact Or.inl ⟨h, by simp⟩
  | cons op ops ih =>
    rcases ih (step s op).1 (Spec.step sp op (stamp s op)).1 h with ⟨h1, h2⟩ | ⟨pre, post, now, v, trigs, gen, env, e1, e2, e3, e4, e5⟩
    · -- the entry was there right after `op`
      by_cases hs : op.isStoreOf k = true
      · -- `op` is the store that created it
        cases op with
        | store now k' v trigs d gen env =>
          have hk : k' = k := by simpa [Op.isStoreOf] using hs
          subst hk
          simp only [Spec.step] at h1
          cases hst : stamp s (Op.store now k' v trigs d gen env) with
          | none => rw [hst] at h1; simp [Spec.remove] at h1
          | some g =>
            rw [hst] at h1
            simp only [Spec.insert, if_true, Option.some.injEq] at h1
            subst h1
            exact Or.inr ⟨[], ops, now, v, trigs, gen, env, rfl, rfl, rfl, hst, h2⟩
        | _ => simp [Op.isStoreOf] at hs
      · -- `op` left it alone
        left
        have key : sp k = some e ∧ op.invalidates k e.trigs = false := by
          cases op with
          | fetch now k' => exact ⟨h1, rfl⟩
          | store now k' v trigs d gen env =>
            have hk : ¬ k' = k := by simpa [Op.isStoreOf] using hs
            have hk' : ¬ k = k' := fun x => hk x.symm
            refine ⟨?_, by simp [Op.invalidates, hk]⟩
            simp only [Spec.step] at h1
            split at h1 <;> simpa [Spec.insert, Spec.remove, hk'] using h1
          | rise t =>
            simp only [Spec.step, Spec.rise] at h1
            cases hk : sp k with
            | none => rw [hk] at h1; cases h1
            | some e' =>
              rw [hk] at h1
              by_cases ht : t ∈ e'.trigs
              · simp [ht] at h1
              · simp only [ht, if_false, Option.some.injEq] at h1
                subst h1
                exact ⟨rfl, by simp [Op.invalidates, ht]⟩
          | remove k' =>
            simp only [Spec.step, Spec.remove] at h1
            by_cases hk : k = k'
            · simp [hk] at h1
            · simp only [hk, if_false] at h1
              exact ⟨h1, by simp only [Op.invalidates, beq_eq_false_iff_ne]; exact fun x => hk x.symm⟩
          | clear => simp [Spec.step, Spec.empty] at h1
          | stats => exact ⟨h1, rfl⟩
        refine ⟨key.1, ?_⟩
        intro o ho
        rcases List.mem_cons.mp ho with ho | ho
        · subst ho; exact key.2
        · exact h2 o ho
    · right
      exact ⟨op :: pre, post, now, v, trigs, gen, env, by simp [e1], e2, e3, by simpa [run_cons] using e4, e5⟩

end Cppcms.C07
