import Cppcms.C07.Model
/-!
# C07 — helper lemmas: association lists, the three secondary indexes, the invariant `Inv`
and its preservation, the abstraction function.
-/
namespace Cppcms.C07
open Cppcms

/-! ### association lists -/
section AList
variable {β : Type}

theorem alookup_none_iff {k : Key} {l : List (Key × β)} :
    alookup k l = none ↔ k ∉ l.map Prod.fst := by
  induction l with
  | nil => simp [alookup]
  | cons p r ih =>
    obtain ⟨k', v⟩ := p
    by_cases h : k' = k
    · simp [alookup, h]
    · simp only [alookup, h, if_false, ih, List.map_cons, List.mem_cons, not_or]
      constructor
      · intro hr; exact ⟨fun e => h e.symm, hr⟩
      · intro hr; exact hr.2

theorem alookup_isSome_iff {k : Key} {l : List (Key × β)} :
    (alookup k l).isSome ↔ k ∈ l.map Prod.fst := by
  cases h : alookup k l with
  | none => simp [alookup_none_iff.mp h]
  | some c =>
    simp only [Option.isSome_some, true_iff]
    apply Classical.byContradiction
    intro hn
    rw [alookup_none_iff.mpr hn] at h
    cases h

theorem alookup_mem {k : Key} {c : β} {l : List (Key × β)} (h : alookup k l = some c) : (k, c) ∈ l := by
  induction l with
  | nil => simp [alookup] at h
  | cons p r ih =>
    obtain ⟨k', v⟩ := p
    by_cases e : k' = k
    · simp [alookup, e] at h; simp [e, h]
    · simp [alookup, e] at h; simp [ih h]

theorem mem_alookup {k : Key} {c : β} {l : List (Key × β)} (hn : (l.map Prod.fst).Nodup)
    (h : (k, c) ∈ l) : alookup k l = some c := by
  induction l with
  | nil => simp at h
  | cons p r ih =>
    obtain ⟨k', v⟩ := p
    simp only [List.map_cons, List.nodup_cons] at hn
    rcases List.mem_cons.mp h with e | e
    · cases e; simp [alookup]
    · have hk : k ∈ r.map Prod.fst := List.mem_map.mpr ⟨(k, c), e, rfl⟩
      have : k' ≠ k := fun e' => hn.1 (e' ▸ hk)
      simp [alookup, this, ih hn.2 e]

theorem aerase_keys_sublist (k : Key) (l : List (Key × β)) :
    ((aerase k l).map Prod.fst).Sublist (l.map Prod.fst) := by
  induction l with
  | nil => simp [aerase]
  | cons p r ih =>
    obtain ⟨k', v⟩ := p
    by_cases e : k' = k
    · simp [aerase, e]
    · simp [aerase, e, ih]

theorem alookup_aerase {l : List (Key × β)} (hn : (l.map Prod.fst).Nodup) (k k' : Key) :
    alookup k' (aerase k l) = if k' = k then none else alookup k' l := by
  induction l with
  | nil => simp [aerase, alookup]
  | cons p r ih =>
    obtain ⟨k₀, v⟩ := p
    simp only [List.map_cons, List.nodup_cons] at hn
    by_cases e : k₀ = k
    · subst e
      simp only [aerase, if_true]
      by_cases e' : k' = k₀
      · subst e'; simp [alookup_none_iff, hn.1]
      · have : k₀ ≠ k' := fun x => e' x.symm
        simp [alookup, e', this]
    · simp only [aerase, e, if_false, alookup]
      by_cases e' : k₀ = k'
      · subst e'; simp [e]
      · simp [e', ih hn.2]

theorem aerase_length {k : Key} {c : β} {l : List (Key × β)} (h : alookup k l = some c) :
    (aerase k l).length + 1 = l.length := by
  induction l with
  | nil => simp [alookup] at h
  | cons p r ih =>
    obtain ⟨k', v⟩ := p
    by_cases e : k' = k
    · simp [aerase, e]
    · simp [alookup, e] at h
      simp [aerase, e, ih h]

theorem aerase_sum (f : β → Nat) {k : Key} {c : β} {l : List (Key × β)} (h : alookup k l = some c) :
    ((aerase k l).map (fun p => f p.2)).sum + f c = (l.map (fun p => f p.2)).sum := by
  induction l with
  | nil => simp [alookup] at h
  | cons p r ih =>
    obtain ⟨k', v⟩ := p
    by_cases e : k' = k
    · simp [alookup, e] at h
      simp [aerase, e, h, Nat.add_comm]
    · simp [alookup, e] at h
      simp [aerase, e]
      have := ih h
      omega

theorem aerase_of_none {k : Key} {l : List (Key × β)} (h : alookup k l = none) : aerase k l = l := by
  induction l with
  | nil => rfl
  | cons p r ih =>
    obtain ⟨k', v⟩ := p
    by_cases e : k' = k
    · simp [alookup, e] at h
    · simp [alookup, e] at h
      simp [aerase, e, ih h]

end AList

/-! ### the triggers index -/

/-- well-formedness of the triggers map: trigger names distinct, no empty list, no key twice in a list -/
def TInv (trs : List (Key × List Key)) : Prop :=
  (trs.map Prod.fst).Nodup ∧ ∀ t l, (t, l) ∈ trs → l ≠ [] ∧ l.Nodup

theorem trigList_cons (t t' : Key) (l : List Key) (r : List (Key × List Key)) :
    trigList t ((t', l) :: r) = if t' = t then l else trigList t r := by
  by_cases e : t' = t <;> simp [trigList, alookup, e]

theorem trigList_of_not_mem {t : Key} {trs : List (Key × List Key)} (h : t ∉ trs.map Prod.fst) :
    trigList t trs = [] := by
  simp [trigList, alookup_none_iff.mpr h]

theorem trigList_nodup {trs : List (Key × List Key)} (h : TInv trs) (t : Key) : (trigList t trs).Nodup := by
  unfold trigList
  cases e : alookup t trs with
  | none => simp
  | some l => exact (h.2 t l (alookup_mem e)).2

theorem eraseTrig_names_sublist (t k : Key) (trs : List (Key × List Key)) :
    ((eraseTrig t k trs).map Prod.fst).Sublist (trs.map Prod.fst) := by
  induction trs with
  | nil => simp [eraseTrig]
  | cons p r ih =>
    obtain ⟨t', l⟩ := p
    by_cases e : t' = t
    · by_cases e2 : (l.erase k).isEmpty <;> simp [eraseTrig, e, e2]
    · simp [eraseTrig, e, ih]

theorem eraseTrig_mem {t k : Key} {trs : List (Key × List Key)} {t' : Key} {l' : List Key}
    (h : (t', l') ∈ eraseTrig t k trs) : (t', l') ∈ trs ∨ (∃ l, (t', l) ∈ trs ∧ l' = l.erase k ∧ l' ≠ []) := by
  induction trs with
  | nil => simp [eraseTrig] at h
  | cons p r ih =>
    obtain ⟨t₀, l₀⟩ := p
    by_cases e : t₀ = t
    · by_cases e2 : (l₀.erase k).isEmpty
      · simp [eraseTrig, e, e2] at h
        exact Or.inl (List.mem_cons_of_mem _ h)
      · simp only [eraseTrig, e, if_true, e2] at h
        rcases List.mem_cons.mp h with h | h
        · cases h
          refine Or.inr ⟨l₀, by simp [e], rfl, ?_⟩
          intro hh; simp [hh] at e2
        · exact Or.inl (List.mem_cons_of_mem _ h)
    · simp only [eraseTrig, e, if_false] at h
      rcases List.mem_cons.mp h with h | h
      · cases h; exact Or.inl (by simp)
      · rcases ih h with h | ⟨l, h1, h2, h3⟩
        · exact Or.inl (List.mem_cons_of_mem _ h)
        · exact Or.inr ⟨l, List.mem_cons_of_mem _ h1, h2, h3⟩

theorem tinv_eraseTrig {trs : List (Key × List Key)} (h : TInv trs) (t k : Key) : TInv (eraseTrig t k trs) := by
  refine ⟨h.1.sublist (eraseTrig_names_sublist t k trs), ?_⟩
  intro t' l' hm
  rcases eraseTrig_mem hm with hm | ⟨l, hm, e, hne⟩
  · exact h.2 t' l' hm
  · exact ⟨hne, e ▸ (h.2 t' l hm).2.erase k⟩

theorem trigList_eraseTrig {trs : List (Key × List Key)} (hn : (trs.map Prod.fst).Nodup) (t k t' : Key) :
    trigList t' (eraseTrig t k trs) = if t' = t then (trigList t trs).erase k else trigList t' trs := by
  induction trs with
  | nil => simp [eraseTrig, trigList, alookup]
  | cons p r ih =>
    obtain ⟨t₀, l₀⟩ := p
    simp only [List.map_cons, List.nodup_cons] at hn
    by_cases e : t₀ = t
    · subst e
      by_cases e2 : (l₀.erase k).isEmpty
      · simp only [eraseTrig, if_true, e2]
        by_cases e' : t' = t₀
        · subst e'
          rw [trigList_of_not_mem hn.1]
          simp [trigList_cons, List.isEmpty_iff.mp e2]
        · have : t₀ ≠ t' := fun x => e' x.symm
          simp [e', trigList_cons, this]
      · simp only [eraseTrig, if_true, e2]
        by_cases e' : t' = t₀
        · subst e'; simp [trigList_cons]
        · have : t₀ ≠ t' := fun x => e' x.symm
          simp [e', trigList_cons, this]
    · simp only [eraseTrig, e, if_false, trigList_cons]
      by_cases e' : t₀ = t'
      · subst e'; simp [e]
      · simp only [e', if_false, ih hn.2]

theorem addTrig_names (t k : Key) (trs : List (Key × List Key)) :
    (addTrig t k trs).map Prod.fst = if t ∈ trs.map Prod.fst then trs.map Prod.fst else trs.map Prod.fst ++ [t] := by
  induction trs with
  | nil => simp [addTrig]
  | cons p r ih =>
    obtain ⟨t₀, l₀⟩ := p
    by_cases e : t₀ = t
    · simp [addTrig, e]
    · have : ¬ t = t₀ := fun x => e x.symm
      simp only [addTrig, e, if_false, List.map_cons, ih, List.mem_cons, this, false_or]
      by_cases e2 : t ∈ r.map Prod.fst <;> simp [e2]

theorem trigList_addTrig (t k t' : Key) (trs : List (Key × List Key)) :
    trigList t' (addTrig t k trs) = if t' = t then k :: trigList t trs else trigList t' trs := by
  induction trs with
  | nil =>
    by_cases e : t = t'
    · subst e; simp [addTrig, trigList, alookup]
    · have : ¬ t' = t := fun x => e x.symm
      simp [addTrig, trigList, alookup, e, this]
  | cons p r ih =>
    obtain ⟨t₀, l₀⟩ := p
    by_cases e : t₀ = t
    · subst e
      by_cases e' : t' = t₀
      · subst e'; simp [addTrig, trigList_cons]
      · have : t₀ ≠ t' := fun x => e' x.symm
        simp [addTrig, trigList_cons, e', this]
    · simp only [addTrig, e, if_false, trigList_cons, ih]
      by_cases e' : t₀ = t'
      · subst e'
        have : ¬ t₀ = t := e
        simp [this]
      · simp [e']

theorem addTrig_mem {t k : Key} {trs : List (Key × List Key)} {t' : Key} {l' : List Key}
    (h : (t', l') ∈ addTrig t k trs) :
    (t', l') ∈ trs ∨ (t' = t ∧ l' = k :: trigList t trs) := by
  induction trs with
  | nil => simp [addTrig] at h; simp [h, trigList, alookup]
  | cons p r ih =>
    obtain ⟨t₀, l₀⟩ := p
    by_cases e : t₀ = t
    · subst e
      simp only [addTrig, if_true] at h
      rcases List.mem_cons.mp h with h | h
      · cases h; exact Or.inr ⟨rfl, by simp [trigList_cons]⟩
      · exact Or.inl (List.mem_cons_of_mem _ h)
    · simp only [addTrig, e, if_false] at h
      rcases List.mem_cons.mp h with h | h
      · cases h; exact Or.inl (by simp)
      · rcases ih h with h | ⟨h1, h2⟩
        · exact Or.inl (List.mem_cons_of_mem _ h)
        · exact Or.inr ⟨h1, by simp [h2, trigList_cons, e]⟩

theorem tinv_addTrig {trs : List (Key × List Key)} (h : TInv trs) {t k : Key} (hk : k ∉ trigList t trs) :
    TInv (addTrig t k trs) := by
  refine ⟨?_, ?_⟩
  · rw [addTrig_names]
    by_cases e : t ∈ trs.map Prod.fst
    · simp [e, h.1]
    · simp only [e, if_false]
      rw [List.nodup_append]
      refine ⟨h.1, by simp, ?_⟩
      intro a ha b hb
      simp at hb
      subst hb
      intro e'; subst e'; exact e ha
  · intro t' l' hm
    rcases addTrig_mem hm with hm | ⟨_, e2⟩
    · exact h.2 t' l' hm
    · subst e2
      exact ⟨by simp, List.nodup_cons.mpr ⟨hk, trigList_nodup h t⟩⟩

/-! folds over a container's trigger list -/

theorem tinv_foldl_eraseTrig {trs : List (Key × List Key)} (h : TInv trs) (k : Key) (ts : List Key) :
    TInv (ts.foldl (fun trs t => eraseTrig t k trs) trs) := by
  induction ts generalizing trs with
  | nil => exact h
  | cons t ts ih => exact ih (tinv_eraseTrig h t k)

theorem trigList_foldl_eraseTrig {trs : List (Key × List Key)} (h : TInv trs) (k : Key) (ts : List Key) (t' : Key) :
    trigList t' (ts.foldl (fun trs t => eraseTrig t k trs) trs) =
      if t' ∈ ts then (trigList t' trs).erase k else trigList t' trs := by
  induction ts generalizing trs with
  | nil => simp
  | cons t ts ih =>
    simp only [List.foldl_cons]
    rw [ih (tinv_eraseTrig h t k), trigList_eraseTrig h.1]
    have hnd := trigList_nodup h t'
    by_cases e : t' = t
    · subst e
      have : ((trigList t' trs).erase k).erase k = (trigList t' trs).erase k := by
        apply List.erase_of_not_mem
        intro hm
        exact ((hnd.mem_erase_iff).mp hm).1 rfl
      by_cases e2 : t' ∈ ts <;> simp [e2, this]
    · simp [e]

theorem trigList_foldl_addTrig (trs : List (Key × List Key)) (k : Key) (ts : List Key) (hts : ts.Nodup) (t' : Key) :
    trigList t' (ts.foldl (fun trs t => addTrig t k trs) trs) =
      if t' ∈ ts then k :: trigList t' trs else trigList t' trs := by
  induction ts generalizing trs with
  | nil => simp
  | cons t ts ih =>
    simp only [List.foldl_cons, List.nodup_cons] at hts ⊢
    rw [ih _ hts.2, trigList_addTrig]
    by_cases e : t' = t
    · subst e; simp [hts.1]
    · simp [e]

theorem tinv_foldl_addTrig {trs : List (Key × List Key)} (h : TInv trs) (k : Key) (ts : List Key) (hts : ts.Nodup)
    (hk : ∀ t ∈ ts, k ∉ trigList t trs) :
    TInv (ts.foldl (fun trs t => addTrig t k trs) trs) := by
  induction ts generalizing trs with
  | nil => exact h
  | cons t ts ih =>
    simp only [List.foldl_cons, List.nodup_cons] at hts ⊢
    apply ih (tinv_addTrig h (hk t (by simp))) hts.2
    intro t' ht'
    rw [trigList_addTrig]
    have : t' ≠ t := fun e => hts.1 (e ▸ ht')
    simp [this, hk t' (by simp [ht'])]

/-! ### the timeout index -/

theorem tinsert_perm (d : Time) (k : Key) (l : List (Time × Key)) : (tinsert d k l).Perm ((d, k) :: l) := by
  induction l with
  | nil => simp [tinsert]
  | cons p r ih =>
    obtain ⟨d', k'⟩ := p
    by_cases e : d < d'
    · simp [tinsert, e]
    · simp only [tinsert, e, if_false]
      exact (List.Perm.cons _ ih).trans (List.Perm.swap _ _ _)

theorem mem_tinsert {d : Time} {k : Key} {l : List (Time × Key)} {x : Time × Key} :
    x ∈ tinsert d k l ↔ x = (d, k) ∨ x ∈ l := by
  rw [(tinsert_perm d k l).mem_iff]; simp

theorem tinsert_sorted {d : Time} {k : Key} {l : List (Time × Key)} (h : l.Pairwise (fun a b => a.1 ≤ b.1)) :
    (tinsert d k l).Pairwise (fun a b => a.1 ≤ b.1) := by
  induction l with
  | nil => simp [tinsert]
  | cons p r ih =>
    obtain ⟨d', k'⟩ := p
    rw [List.pairwise_cons] at h
    by_cases e : d < d'
    · simp only [tinsert, e, if_true]
      refine List.pairwise_cons.mpr ⟨?_, List.pairwise_cons.mpr h⟩
      intro x hx
      rcases List.mem_cons.mp hx with hx | hx
      · subst hx; exact Int.le_of_lt e
      · exact Int.le_trans (Int.le_of_lt e) (h.1 x hx)
    · simp only [tinsert, e, if_false]
      refine List.pairwise_cons.mpr ⟨?_, ih h.2⟩
      intro x hx
      rcases mem_tinsert.mp hx with hx | hx
      · subst hx; exact Int.not_lt.mp e
      · exact h.1 x hx

/-! ### `dedup`, `ownTrigs` -/

theorem mem_dedup {a : Key} {l : List Key} : a ∈ dedup l ↔ a ∈ l := by
  induction l with
  | nil => simp [dedup]
  | cons b r ih =>
    by_cases e : b ∈ r
    · simp only [dedup, e, if_true, ih, List.mem_cons]
      constructor
      · exact Or.inr
      · rintro (h | h)
        · subst h; exact e
        · exact h
    · simp [dedup, e, ih]

theorem nodup_dedup (l : List Key) : (dedup l).Nodup := by
  induction l with
  | nil => simp [dedup]
  | cons b r ih =>
    by_cases e : b ∈ r
    · simp [dedup, e, ih]
    · simp [dedup, e, ih, mem_dedup]

theorem mem_ownTrigs {t k : Key} {trigs : List Key} : t ∈ ownTrigs k trigs ↔ t = k ∨ t ∈ trigs := by
  unfold ownTrigs
  by_cases e : k ∈ dedup trigs
  · simp only [e, if_true, mem_dedup]
    constructor
    · exact Or.inr
    · rintro (h | h)
      · subst h; exact mem_dedup.mp e
      · exact h
  · simp [e, mem_dedup]

theorem nodup_ownTrigs (k : Key) (trigs : List Key) : (ownTrigs k trigs).Nodup := by
  unfold ownTrigs
  by_cases e : k ∈ dedup trigs
  · simp [e, nodup_dedup]
  · simp [e, nodup_dedup]

/-- with the generated own-key condition (`triggers_in.find(key)==triggers_in.end()`), the container's
trigger list is the specification's trigger set -/
theorem containerTrigs_eq (k : Key) (trigs : List Key) : containerTrigs k trigs = ownTrigs k trigs := by
  unfold containerTrigs ownTrigs
  by_cases e : k ∈ dedup trigs <;> simp [Gen.ownKeyAddedWhenAbsent, e]

/-! ### the invariant -/

/-- Mirror consistency of the four indexes and the counters of `mem_cache`. -/
structure Inv (s : State) : Prop where
  /-- primary: one container per key -/
  keys : (s.primary.map Prod.fst).Nodup
  /-- lru: exactly one node per entry -/
  lruNodup : s.lru.Nodup
  lruMem : ∀ k, k ∈ s.lru ↔ k ∈ s.primary.map Prod.fst
  /-- timeout: exactly one node per entry, carrying its deadline, sorted by deadline -/
  toNodup : (s.timeout.map Prod.snd).Nodup
  toMem : ∀ d k, (d, k) ∈ s.timeout ↔ ∃ c, alookup k s.primary = some c ∧ c.deadline = d
  toSorted : s.timeout.Pairwise (fun a b => a.1 ≤ b.1)
  /-- triggers: names distinct, no empty lists, no key twice; lists exactly the (entry, trigger) links -/
  trs : TInv s.triggers
  trMem : ∀ t k, k ∈ trigList t s.triggers ↔ ∃ c, alookup k s.primary = some c ∧ t ∈ c.trigs
  /-- containers: trigger back-references distinct, own key always among them -/
  cTrigs : ∀ k c, alookup k s.primary = some c → c.trigs.Nodup ∧ k ∈ c.trigs
  /-- counters -/
  sizeEq : s.size = s.primary.length
  countEq : s.trigCount = (s.primary.map (fun p => p.2.trigs.length)).sum

theorem inv_init (limit : Nat) (sl : Option Nat) : Inv (State.init limit sl) := by
  refine ⟨?_, ?_, ?_, ?_, ?_, ?_, ?_, ?_, ?_, ?_, ?_⟩ <;> simp [State.init, TInv, trigList, alookup]

theorem inv_nlClear (s : State) : Inv (nlClear s) := by
  refine ⟨?_, ?_, ?_, ?_, ?_, ?_, ?_, ?_, ?_, ?_, ?_⟩ <;> simp [nlClear, TInv, trigList, alookup]

theorem nodup_of_map_snd {l : List (Time × Key)} (h : (l.map Prod.snd).Nodup) : l.Nodup := by
  induction l with
  | nil => simp
  | cons p r ih =>
    simp only [List.map_cons, List.nodup_cons] at h ⊢
    exact ⟨fun hm => h.1 (List.mem_map.mpr ⟨p, hm, rfl⟩), ih h.2⟩

theorem inv_deleteNode {s : State} (h : Inv s) (k : Key) : Inv (deleteNode s k) := by
  unfold deleteNode
  cases hc : alookup k s.primary with
  | none => exact h
  | some c =>
    have hl := alookup_aerase h.keys k
    have hto := nodup_of_map_snd h.toNodup
    refine ⟨?_, ?_, ?_, ?_, ?_, ?_, ?_, ?_, ?_, ?_, ?_⟩
    · exact h.keys.sublist (aerase_keys_sublist k _)
    · exact h.lruNodup.erase k
    · intro k'
      show k' ∈ s.lru.erase k ↔ k' ∈ (aerase k s.primary).map Prod.fst
      rw [← alookup_isSome_iff, hl, h.lruNodup.mem_erase_iff, h.lruMem, ← alookup_isSome_iff]
      by_cases e : k' = k <;> simp [e]
    · exact h.toNodup.sublist ((List.erase_sublist).map _)
    · intro d k'
      show (d, k') ∈ s.timeout.erase (c.deadline, k) ↔ ∃ c', alookup k' (aerase k s.primary) = some c' ∧ c'.deadline = d
      rw [hto.mem_erase_iff, h.toMem, hl]
      by_cases e : k' = k
      · subst e
        simp only [if_true, hc]
        constructor
        · rintro ⟨hne, c', hc', hd⟩
          cases hc'
          exact absurd (by rw [hd]) hne
        · rintro ⟨c', hc', _⟩; cases hc'
      · simp [e]
    · exact h.toSorted.sublist List.erase_sublist
    · exact tinv_foldl_eraseTrig h.trs k c.trigs
    · intro t k'
      show k' ∈ trigList t (c.trigs.foldl (fun trs t => eraseTrig t k trs) s.triggers) ↔
        ∃ c', alookup k' (aerase k s.primary) = some c' ∧ t ∈ c'.trigs
      rw [trigList_foldl_eraseTrig h.trs, hl]
      by_cases ht : t ∈ c.trigs
      · simp only [ht, if_true, (trigList_nodup h.trs t).mem_erase_iff, h.trMem]
        by_cases e : k' = k <;> simp [e]
      · simp only [ht, if_false, h.trMem]
        by_cases e : k' = k
        · subst e; simp [hc, ht]
        · simp [e]
    · intro k' c'
      show alookup k' (aerase k s.primary) = some c' → _
      rw [hl]
      by_cases e : k' = k
      · simp [e]
      · simp only [e, if_false]; exact h.cTrigs k' c'
    · show s.size - 1 = (aerase k s.primary).length
      have := aerase_length hc
      have := h.sizeEq
      omega
    · show s.trigCount - c.trigs.length = ((aerase k s.primary).map (fun p => p.2.trigs.length)).sum
      have := aerase_sum (fun c : Container => c.trigs.length) hc
      have := h.countEq
      omega

theorem inv_foldl_deleteNode {s : State} (h : Inv s) (ks : List Key) : Inv (ks.foldl deleteNode s) := by
  induction ks generalizing s with
  | nil => exact h
  | cons k ks ih => exact ih (inv_deleteNode h k)

theorem inv_rise {s : State} (h : Inv s) (t : Key) : Inv (rise s t) := inv_foldl_deleteNode h _

theorem inv_checkLimitsLoop {s : State} (h : Inv s) (fuel : Nat) (now : Time) (mem : List Bool) :
    Inv (checkLimitsLoop fuel s now mem) := by
  induction fuel generalizing s mem with
  | zero => exact h
  | succ n ih =>
    unfold checkLimitsLoop
    split
    · split
      · exact ih (inv_deleteNode h _) _
      · exact h
    · exact h

theorem inv_checkLimits {s : State} (h : Inv s) (now : Time) (mem : List Bool) : Inv (checkLimits s now mem) :=
  inv_checkLimitsLoop h _ _ _

theorem inv_fetch {s : State} (h : Inv s) (now : Time) (k : Key) : Inv (fetch s now k).1 := by
  unfold fetch
  cases hc : alookup k s.primary with
  | none => exact h
  | some c =>
    simp only
    split
    · exact h
    · have hk : k ∈ s.primary.map Prod.fst := alookup_isSome_iff.mp (by simp [hc])
      refine ⟨h.keys, ?_, ?_, h.toNodup, h.toMem, h.toSorted, h.trs, h.trMem, h.cTrigs, h.sizeEq, h.countEq⟩
      · show (k :: s.lru.erase k).Nodup
        refine List.nodup_cons.mpr ⟨?_, h.lruNodup.erase k⟩
        intro hm
        exact ((h.lruNodup.mem_erase_iff).mp hm).1 rfl
      · intro k'
        show k' ∈ k :: s.lru.erase k ↔ _
        rw [List.mem_cons, h.lruNodup.mem_erase_iff, h.lruMem]
        by_cases e : k' = k
        · subst e; simp [hk]
        · simp [e]

theorem alookup_cons {β : Type} (k k' : Key) (v : β) (l : List (Key × β)) :
    alookup k' ((k, v) :: l) = if k = k' then some v else alookup k' l := rfl

theorem inv_insertEntry {s : State} (h : Inv s) {k : Key} (hk : alookup k s.primary = none)
    (v : Val) (trigs : List Key) (d : Time) (gen : Option Gen) : Inv (insertEntry s k v trigs d gen) := by
  have hts : (containerTrigs k trigs).Nodup := by rw [containerTrigs_eq]; exact nodup_ownTrigs k trigs
  have hkts : k ∈ containerTrigs k trigs := by rw [containerTrigs_eq]; exact mem_ownTrigs.mpr (Or.inl rfl)
  have hkp : k ∉ s.primary.map Prod.fst := alookup_none_iff.mp hk
  have hktr : ∀ t, k ∉ trigList t s.triggers := by
    intro t hm
    obtain ⟨c, hc, _⟩ := (h.trMem t k).mp hm
    rw [hk] at hc; cases hc
  unfold insertEntry
  refine ⟨?_, ?_, ?_, ?_, ?_, ?_, ?_, ?_, ?_, ?_, ?_⟩
  · exact List.nodup_cons.mpr ⟨hkp, h.keys⟩
  · exact List.nodup_cons.mpr ⟨fun hm => hkp ((h.lruMem k).mp hm), h.lruNodup⟩
  · intro k'
    show k' ∈ k :: s.lru ↔ k' ∈ k :: s.primary.map Prod.fst
    simp [h.lruMem]
  · show ((tinsert d k s.timeout).map Prod.snd).Nodup
    rw [((tinsert_perm d k s.timeout).map Prod.snd).nodup_iff]
    refine List.nodup_cons.mpr ⟨?_, h.toNodup⟩
    intro hm
    obtain ⟨⟨d', k'⟩, hm', e⟩ := List.mem_map.mp hm
    simp at e; subst e
    obtain ⟨c, hc, _⟩ := (h.toMem d' k').mp hm'
    rw [hk] at hc; cases hc
  · intro d' k'
    show (d', k') ∈ tinsert d k s.timeout ↔ ∃ c, alookup k' ((k, _) :: s.primary) = some c ∧ c.deadline = d'
    rw [mem_tinsert, alookup_cons, h.toMem]
    by_cases e : k = k'
    · subst e
      simp only [if_true, hk]
      constructor
      · rintro (e | ⟨c, hc, _⟩)
        · cases e; exact ⟨_, rfl, rfl⟩
        · cases hc
      · rintro ⟨c, hc, hd⟩
        cases hc; exact Or.inl (by simp [← hd])
    · have : ¬ k' = k := fun x => e x.symm
      simp [e, this]
  · exact tinsert_sorted h.toSorted
  · exact tinv_foldl_addTrig h.trs k _ hts (fun t _ => hktr t)
  · intro t k'
    show k' ∈ trigList t ((containerTrigs k trigs).foldl (fun trs t => addTrig t k trs) s.triggers) ↔
      ∃ c, alookup k' ((k, _) :: s.primary) = some c ∧ t ∈ c.trigs
    rw [trigList_foldl_addTrig _ _ _ hts, alookup_cons]
    by_cases e : k = k'
    · subst e
      by_cases ht : t ∈ containerTrigs k trigs
      · simp [ht]
      · simp [ht, hktr t]
    · have e' : ¬ k' = k := fun x => e x.symm
      by_cases ht : t ∈ containerTrigs k trigs
      · simp [ht, e, e', h.trMem]
      · simp [ht, e, h.trMem]
  · intro k' c'
    show alookup k' ((k, _) :: s.primary) = some c' → _
    rw [alookup_cons]
    by_cases e : k = k'
    · subst e
      simp only [if_true]
      intro hc; cases hc
      exact ⟨hts, hkts⟩
    · simp only [e, if_false]; exact h.cTrigs k' c'
  · show s.size + 1 = (s.primary.length + 1)
    rw [h.sizeEq]
  · show s.trigCount + (containerTrigs k trigs).length = _
    simp [h.countEq, Nat.add_comm]

theorem alookup_deleteNode {s : State} (h : Inv s) (k k' : Key) :
    alookup k' (deleteNode s k).primary = if k' = k then none else alookup k' s.primary := by
  unfold deleteNode
  cases hc : alookup k s.primary with
  | none =>
    by_cases e : k' = k
    · subst e; simp [hc]
    · simp [e]
  | some c => exact alookup_aerase h.keys k k'

theorem alookup_deleteNode_some {s : State} (h : Inv s) {k k' : Key} {c : Container}
    (hc : alookup k' (deleteNode s k).primary = some c) : alookup k' s.primary = some c := by
  rw [alookup_deleteNode h] at hc
  by_cases e : k' = k
  · simp [e] at hc
  · simpa [e] using hc

theorem alookup_checkLimitsLoop_some {s : State} (h : Inv s) (fuel : Nat) (now : Time) (mem : List Bool)
    {k' : Key} {c : Container} (hc : alookup k' (checkLimitsLoop fuel s now mem).primary = some c) :
    alookup k' s.primary = some c := by
  induction fuel generalizing s mem with
  | zero => exact hc
  | succ n ih =>
    unfold checkLimitsLoop at hc
    split at hc
    · split at hc
      · exact alookup_deleteNode_some h (ih (inv_deleteNode h _) _ hc)
      · exact hc
    · exact hc

theorem alookup_checkLimits_none {s : State} (h : Inv s) (now : Time) (mem : List Bool) {k : Key}
    (hk : alookup k s.primary = none) : alookup k (checkLimits s now mem).primary = none := by
  cases e : alookup k (checkLimits s now mem).primary with
  | none => rfl
  | some c =>
    have := alookup_checkLimitsLoop_some h _ _ _ e
    rw [hk] at this; cases this

theorem inv_store {s : State} (h : Inv s) (now : Time) (k : Key) (v : Val) (trigs : List Key) (d : Time)
    (gen : Option Gen) (env : StoreEnv) : Inv (store s now k v trigs d gen env) := by
  unfold store storeG
  split
  · split
    · exact inv_deleteNode h k
    · exact h
  · simp only
    split
    · exact inv_deleteNode h k
    · split
      · exact inv_nlClear _
      · have h1 := inv_deleteNode h k
        have h2 := inv_checkLimits h1 now env.lowMem
        apply inv_insertEntry h2
        apply alookup_checkLimits_none h1
        rw [alookup_deleteNode h]; simp

theorem inv_step {s : State} (h : Inv s) (op : Op) : Inv (step s op).1 := by
  cases op with
  | fetch now k => exact inv_fetch h now k
  | store now k v trigs d gen env => exact inv_store h now k v trigs d gen env
  | rise t => exact inv_rise h t
  | remove k => exact inv_deleteNode h k
  | clear => exact inv_nlClear s
  | stats => exact h

/-! ### configuration is constant; exactness without limit and pressure -/

theorem config_deleteNode (s : State) (k : Key) :
    (deleteNode s k).limit = s.limit ∧ (deleteNode s k).sizeLimit = s.sizeLimit := by
  unfold deleteNode; cases alookup k s.primary <;> exact ⟨rfl, rfl⟩

theorem config_foldl_deleteNode (s : State) (ks : List Key) :
    (ks.foldl deleteNode s).limit = s.limit ∧ (ks.foldl deleteNode s).sizeLimit = s.sizeLimit := by
  induction ks generalizing s with
  | nil => exact ⟨rfl, rfl⟩
  | cons k ks ih =>
    simp only [List.foldl_cons]
    rw [(ih _).1, (ih _).2]; exact config_deleteNode s k

theorem config_checkLimitsLoop (fuel : Nat) (s : State) (now : Time) (mem : List Bool) :
    (checkLimitsLoop fuel s now mem).limit = s.limit ∧ (checkLimitsLoop fuel s now mem).sizeLimit = s.sizeLimit := by
  induction fuel generalizing s mem with
  | zero => exact ⟨rfl, rfl⟩
  | succ n ih =>
    unfold checkLimitsLoop
    split
    · split
      · rw [(ih _ _).1, (ih _ _).2]; exact config_deleteNode s _
      · exact ⟨rfl, rfl⟩
    · exact ⟨rfl, rfl⟩

theorem config_step (s : State) (op : Op) :
    (step s op).1.limit = s.limit ∧ (step s op).1.sizeLimit = s.sizeLimit := by
  cases op with
  | fetch now k =>
    simp only [step, fetch]
    cases alookup k s.primary with
    | none => exact ⟨rfl, rfl⟩
    | some c => simp only; split <;> exact ⟨rfl, rfl⟩
  | store now k v trigs d gen env =>
    simp only [step, store, storeG]
    split
    · split
      · exact config_deleteNode s k
      · exact ⟨rfl, rfl⟩
    · split
      · exact config_deleteNode s k
      · split
        · exact config_deleteNode s k
        · have := config_checkLimitsLoop (deleteNode s k).size (deleteNode s k) now env.lowMem
          have h2 := config_deleteNode s k
          simp only [insertEntry, checkLimits]
          exact ⟨this.1.trans h2.1, this.2.trans h2.2⟩
  | rise t => exact config_foldl_deleteNode s _
  | remove k => exact config_deleteNode s k
  | clear => exact ⟨rfl, rfl⟩
  | stats => exact ⟨rfl, rfl⟩

theorem config_run (s : State) (ops : List Op) :
    (run s ops).limit = s.limit ∧ (run s ops).sizeLimit = s.sizeLimit := by
  induction ops generalizing s with
  | nil => exact ⟨rfl, rfl⟩
  | cons op ops ih =>
    simp only [run, List.foldl_cons]
    have := ih (step s op).1
    simp only [run] at this
    rw [this.1, this.2]; exact config_step s op

/-! ### histories -/

theorem run_cons (s : State) (op : Op) (ops : List Op) : run s (op :: ops) = run (step s op).1 ops := rfl

theorem run_append (s : State) (a b : List Op) : run s (a ++ b) = run (run s a) b := by
  simp [run, List.foldl_append]

theorem inv_run {s : State} (h : Inv s) (ops : List Op) : Inv (run s ops) := by
  induction ops generalizing s with
  | nil => exact h
  | cons op ops ih => exact ih (inv_step h op)

/-! ### the generation counter is touched by `store` only -/

theorem generation_deleteNode (s : State) (k : Key) : (deleteNode s k).generation = s.generation := by
  unfold deleteNode; cases alookup k s.primary <;> rfl

theorem generation_checkLimitsLoop (fuel : Nat) (s : State) (now : Time) (mem : List Bool) :
    (checkLimitsLoop fuel s now mem).generation = s.generation := by
  induction fuel generalizing s mem with
  | zero => rfl
  | succ n ih =>
    unfold checkLimitsLoop
    split
    · split
      · rw [ih, generation_deleteNode]
      · rfl
    · rfl

end Cppcms.C07
