import Cppcms.C07.Proto
/-! `c07_model`: line-protocol driver for the cache model and the C07 judge (see `Proto.lean`). -/
def main : IO Unit := Cppcms.lineLoop ({} : Cppcms.C07.Proto.DState) Cppcms.C07.Proto.stepLine
