import Cppcms.Common
import Cppcms.C07.Model
import Cppcms.C07.Spec
import Cppcms.C07.Iface
/-!
Line protocol of the cache model driver (used by `c07_model` and `c08_model`).

* plain lines (`new`, `store`, `fetch`, `rise`, `remove`, `clear`, `stats`) run the concrete
  model `step`, keeping the cache state across lines; the answer has the harness's format
  `<result> | <size> <trigCount>`.
* `J <impl answer …> ; <case line …>` lines run the *specification* (`Spec.step`) over the history
  and judge the implementation's answer with the property predicate (`OutOk`-style: a hit must be
  the specification's entry, a miss is allowed only where eviction is possible).  Answer `1` or
  `0 <reason>`.  `JL …` lines judge only C08's limit clause (entry count ≤ limit).

Annotations on `store` lines (oracle answers recorded from the real allocator by the harness):
`copyfail` → `StoreEnv.copyFails`; `cleared`, `bumped` → `lateFails`; `nem=<0/1…>` → `lowMem`: what
`not_enough_memory()` has to answer at the successive evaluations of `check_limits`' guard, computed by
the harness from the buddy allocator's own state (largest free chunk < 10 % of the segment).
-/
namespace Cppcms.C07.Proto
open Cppcms Cppcms.C07

def parseTrigs (w : String) : Option (List Key) :=
  if w == "-" then some []
  else (w.splitOn ",").mapM fun p => if p == "e" then some [] else if p == "-" then none else parseHex p

def parseVal (w : String) : Option Val :=
  match w.toList with
  | 'r' :: a :: b :: 'x' :: n =>
    match hexDigit a, hexDigit b, (String.ofList n).toNat? with
    | some x, some y, some cnt => some (List.replicate cnt (UInt8.ofNat (x * 16 + y)))
    | _, _, _ => none
  | _ => parseHex w

def parseGen (w : String) : Option (Option Gen) :=
  if w == "-" then some none else w.toNat?.map fun n => some (UInt64.ofNat n)

def trigStr (t : Key) : String := if t.isEmpty then "e" else toHex t

def trigsStr (ts : List Key) : String :=
  if ts.isEmpty then "-" else ",".intercalate (ts.map trigStr)

def outStr : Out → String
  | .miss => "miss"
  | .hit v ts d g => s!"hit {toHex v} {trigsStr ts} {d} {g.toNat}"
  | .done => "ok"
  | .stats _ _ => "ok"

structure JState where
  sp : Spec := Spec.empty
  counter : Gen := 0
  limit : Nat := 0
  process : Bool := false
  pressure : Bool := false      -- an allocation failure / low memory was observed in this history

structure DState where
  cache : Option State := none
  j : JState := {}
  ist : Option IState := none     -- `i…` lines: model of cache_interface over a thread_shared cache

def parseOp (w : List String) : Option (Op × List String) :=
  match w with
  | "store" :: now :: k :: v :: ts :: d :: g :: ann =>
    match now.toInt?, parseHex k, parseVal v, parseTrigs ts, d.toInt?, parseGen g with
    | some now, some k, some v, some ts, some d, some g =>
      let nem : List Bool := match ann.find? (·.startsWith "nem=") with
        | some a => ((a.drop 4).toString.toList).map (· == '1')
        | none => []
      let env : StoreEnv :=
        { copyFails := ann.contains "copyfail"
          lateFails := if ann.contains "cleared" then some (ann.contains "bumped") else none
          lowMem := nem }
      some (.store now k v ts d g env, ann)
    | _, _, _, _, _, _ => none
  | ["fetch", now, k] =>
    match now.toInt?, parseHex k with
    | some now, some k => some (.fetch now k, [])
    | _, _ => none
  | ["rise", t] => (if t == "e" then some [] else parseHex t).map fun t => (.rise t, [])
  | ["remove", k] => (parseHex k).map fun k => (.remove k, [])
  | ["clear"] => some (.clear, [])
  | ["stats"] => some (.stats, [])
  | _ => none

def modelLine (st : DState) (w : List String) : DState × String :=
  match w with
  | "new" :: backend :: limit :: rest =>
    match limit.toNat?, backend, rest with
    | some l, "thread", [] => ({ st with cache := some (State.init l none) }, "ok | 0 0")
    | some l, "process", [mem] =>
      match mem.toNat? with
      | some m => ({ st with cache := some (State.init l (some (Gen.processSizeLimit m))) }, "ok | 0 0")
      | none => (st, "bad-op")
    | _, _, _ => (st, "bad-op")
  | _ =>
    match st.cache, parseOp w with
    | some s, some (op, ann) =>
      let (s', o) := step s op
      let extra := if ann.contains "copyfail" then " copyfail" else ""
      ({ st with cache := some s' }, s!"{outStr o}{extra} | {s'.size} {s'.trigCount}")
    | _, _ => (st, "bad-op")

/-! ### judge -/

def sameSet (a b : List Key) : Bool := a.all (b.contains ·) && b.all (a.contains ·)

def nodupB : List Key → Bool
  | [] => true
  | a :: l => !l.contains a && nodupB l

def splitAt (sep : String) (w : List String) : List String × List String :=
  (w.takeWhile (· ≠ sep), (w.dropWhile (· ≠ sep)).drop 1)

def judgeLine (limitClause : Bool) (st : DState) (w : List String) : DState × String :=
  let (implw, casew) := splitAt ";" w
  let (res, tailw) := splitAt "|" implw
  let j := st.j
  let j := if tailw.contains "lowmem" then { j with pressure := true } else j
  -- entry count within the limit (C08's clause; judged only in `JL` mode)
  let keysOk : Bool := match tailw with
    | k :: _ => (match k.toNat? with | some n => j.limit == 0 || n ≤ j.limit | none => false)
    | [] => false
  match casew with
  | "new" :: backend :: limit :: _ =>
    match limit.toNat? with
    | some l => ({ st with j := { limit := l, process := backend == "process" } }, if res == ["ok"] && tailw.take 2 == ["0", "0"] then "1" else "0 new")
    | none => (st, "0 bad-new")
  | _ =>
    match parseOp casew with
    | none => (st, "0 bad-case")
    | some (op, _) =>
      if limitClause && !keysOk then ({ st with j := j }, "0 size-exceeds-limit") else
      match op with
      | .store _ _ _ _ _ g _ =>
        let copyfail := res.contains "copyfail"
        let j := if copyfail then { j with pressure := true } else j
        let stampv : Option Gen := if copyfail then none else some (g.getD j.counter)
        let j := { j with sp := (Spec.step j.sp op stampv).1,
                          counter := if g.isNone && !copyfail then j.counter + 1 else j.counter }
        ({ st with j := j }, if res.head? == some "ok" then "1" else "0 store-answer")
      | .fetch now k =>
        let expect := Spec.fetch j.sp now k
        let verdict : String :=
          match res, expect with
          | ["miss"], .miss => "1"
          | ["miss"], .hit _ _ _ _ =>
            -- a live entry may be missing only if something can have evicted it
            if j.limit > 0 || j.pressure then "1" else "0 live-entry-not-found"
          | ["hit", v, ts, d, g], .hit v' ts' d' g' =>
            (match parseHex v, parseTrigs ts, d.toInt?, g.toNat? with
             | some v, some ts, some d, some g =>
               if v != v' then "0 stale-or-wrong-value"
               else if !(sameSet ts ts' && nodupB ts) then "0 wrong-trigger-set"
               else if d != d' then "0 wrong-deadline"
               else if !j.pressure && UInt64.ofNat g != g' then "0 wrong-generation"
               else "1"
             | _, _, _, _ => "0 unparsable-hit")
          | "hit" :: _, .miss => "0 hit-but-specification-misses"
          | _, _ => "0 fetch-answer"
        ({ st with j := j }, verdict)
      | _ =>
        let j := { j with sp := (Spec.step j.sp op none).1 }
        ({ st with j := j }, if res == ["ok"] then "1" else "0 answer")

/-! ### `i…` lines: the cache_interface model (`Iface.lean`) -/

def parseIOp (w : List String) : Option IOp :=
  match w with
  | ["iadd", t] => (if t == "e" then some [] else parseHex t).map .addTrigger
  | ["ifetch", now, k, nt] =>
    match now.toInt?, parseHex k with
    | some now, some k => some (.fetch now k (nt == "1"))
    | _, _ => none
  | ["istore", now, k, v, ts, timeout, nt] =>
    match now.toInt?, parseHex k, parseHex v, parseTrigs ts, timeout.toInt? with
    | some now, some k, some v, some ts, some tmo => some (.store now k v ts tmo (nt == "1"))
    | _, _, _, _, _ => none
  | ["iattach", id] => id.toNat?.map .attach
  | ["idetach", id] => id.toNat?.map .detach
  | ["ireset"] => some .reset
  | ["irise", t] => (if t == "e" then some [] else parseHex t).map .rise
  | ["iclear"] => some .clear
  | ["istats"] => some .stats
  | _ => none

def ioutStr : IOut → String
  | .miss => "miss"
  | .hit v => s!"hit {toHex v}"
  | .done => "ok"
  | .detached ts => s!"detached {trigsStr ts}"
  | .stats k t => s!"stats {k} {t}"

def itail (st : IState) : String := s!" | {st.cache.size} {st.cache.trigCount}"

/-- a settings value: `-` = key absent (`some none`), a number (`some (some n)`), anything else unparsable -/
def optNat (w : String) : Option (Option Nat) := if w == "-" then some none else w.toNat?.map some

def ifaceLine (ist : Option IState) (w : List String) : Option IState × String :=
  match w, ist with
  | ["inew", "thread", limit], _ =>
    -- the cache is built by cache_pool from the settings: configured cache.limit ("-" = absent) -> effective limit
    match optNat limit with
    | some l =>
      let st : IState := { cache := State.init (Gen.poolThreadLimit l) none }
      (some st, "ok" ++ itail st)
    | none => (ist, "bad-op")
  | ["inew", "process", limit, mem], _ =>
    match optNat limit, optNat mem with
    | some l, some m =>
      let st : IState := { cache := State.init (Gen.poolProcessLimit l m) (some (Gen.processSizeLimit (Gen.poolProcessBytes m))) }
      (some st, "ok" ++ itail st)
    | _, _ => (ist, "bad-op")
  | ["ipage", now, key, timeout, body, ops], some st =>
    match now.toInt?, parseHex key, timeout.toInt?, parseHex body with
    | some now, some key, some tmo, some body =>
      -- every request has its own http::context, hence its own cache_interface: empty trigger set, no recorders
      let pg : IState := { cache := st.cache }
      -- items in front of the marker `F` run before fetch_page (a prologue), the others between fetch_page and store_page
      let items : List String := if ops == "-" then [] else ops.splitOn ";"
      let hasF := items.contains "F"
      let preW : List (List String) := if hasF then (items.takeWhile (· != "F")).map (·.splitOn ":") else []
      let opw : List (List String) :=
        ((if hasF then (items.dropWhile (· != "F")).filter (· != "F") else items)).map (·.splitOn ":")
      let runOps := fun (start : IState × List String) (ws : List (List String)) =>
        ws.foldl (fun (acc : IState × List String) w =>
          match parseIOp w with
          | some op => let (s', o) := istep acc.1 op; (s', acc.2 ++ [ioutStr o])
          | none => (acc.1, acc.2 ++ ["bad-op"])) start
      let (pg0, outs0) := runOps (pg, []) preW
      let (pg1, o) := istep pg0 (.fetchPage now key false)
      match o with
      | .hit v => (some { st with cache := pg1.cache }, s!"cached {toHex v}" ++ itail pg1)
      | _ =>
        let (pg2, outs) := runOps (pg1, outs0) opw
        let (pg3, _) := istep pg2 (.storePage now key body tmo)
        (some { st with cache := pg3.cache },
          "built " ++ (if outs.isEmpty then "-" else ";".intercalate outs) ++ itail pg3)
    | _, _, _, _ => (ist, "bad-op")
  | _, some st =>
    match parseIOp w with
    | some op => let (st', o) := istep st op; (some st', ioutStr o ++ itail st')
    | none => (ist, "bad-op")
  | _, none => (ist, "bad-op")

/-- `@<i> <line>`: which worker process executes a line is irrelevant for a process-shared cache; `fork n` changes nothing -/
def stripWorker (w : List String) : List String :=
  match w with
  | a :: rest => if a.startsWith "@" then rest else if a == "fork" then ["stats"] else w
  | [] => []

def stepLine (st : DState) (line : String) : DState × String :=
  match stripWorker (words line) with
  | "J" :: rest => judgeLine false st rest
  | "JL" :: rest =>
    -- limit clause only (C08 under memory pressure): every other verdict of the C07 judge is ignored
    let (st', v) := judgeLine true st rest
    (st', if v == "0 size-exceeds-limit" || v == "0 bad-case" || v == "0 bad-new" then v else "1")
  | w =>
    if (w.head?.getD "").startsWith "i" then
      let (ist, o) := ifaceLine st.ist w
      ({ st with ist := ist }, o)
    else modelLine st w

end Cppcms.C07.Proto
