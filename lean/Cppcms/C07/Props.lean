import Cppcms.C07.Refine
import Cppcms.C07.IfaceLemmas
/-!
# C07 — property theorems

"The cache never returns invalidated, expired or superseded data."

All statements are about the concrete model of `mem_cache` (`Model.lean`, conditions regenerated
from `src/cache_storage.cpp`), for **every** finite history of operations, every limit, both
back-ends (`sizeLimit`), every clock value on every operation (also decreasing ones) and every
allocation outcome of the process-shared variant (`StoreEnv`: failing value copy, `bad_alloc`
inside the locked section, any sequence of `not_enough_memory()` answers).

Vocabulary: `run s ops` is the state after a history; `specRun s sp ops` the never-evicting
specification map run alongside (`Spec.lean`); `stamp s op` says whether a store is performed and
with which generation; `op.isStoreOf k`, `op.invalidates k tr` classify operations.
-/
namespace Cppcms.C07.Props
open Cppcms Cppcms.C07

/-- state reached from the empty cache -/
abbrev reach (limit : Nat) (sl : Option Nat) (ops : List Op) : State := run (State.init limit sl) ops
/-- specification map after the same history -/
abbrev specOf (limit : Nat) (sl : Option Nat) (ops : List Op) : Spec := specRun (State.init limit sl) Spec.empty ops

theorem abs_init (limit : Nat) (sl : Option Nat) : abs (State.init limit sl) = Spec.empty := by
  funext k; simp [abs, State.init, alookup, Spec.empty]

/-! ## mirror consistency of the four indexes -/

theorem inv_init (limit : Nat) (sl : Option Nat) : Inv (State.init limit sl) := C07.inv_init limit sl

theorem inv_step {s : State} (h : Inv s) (op : Op) : Inv (step s op).1 := C07.inv_step h op

theorem inv_reachable (limit : Nat) (sl : Option Nat) (ops : List Op) : Inv (reach limit sl ops) :=
  inv_run (C07.inv_init limit sl) ops

/-! ## refinement -/

/-- one operation: the concrete cache stays a sub-map of the specification and answers like it,
except that a fetch may miss where the specification hits (eviction) -/
theorem refines_spec {s : State} {sp : Spec} (h : Inv s) (hs : Sub (abs s) sp) (op : Op) :
    Sub (abs (step s op).1) (Spec.step sp op (stamp s op)).1 ∧
    OutOk (step s op).2 (Spec.step sp op (stamp s op)).2 :=
  refines_step h hs op

theorem refines_run (limit : Nat) (sl : Option Nat) (ops : List Op) :
    Sub (abs (reach limit sl ops)) (specOf limit sl ops) :=
  C07.refines_run (C07.inv_init limit sl) (by intro k e h; simp [abs, State.init, alookup] at h) ops

/-- a fetch either misses, or returns the specification's entry for that key, not expired -/
theorem fetch_answer (limit : Nat) (sl : Option Nat) (ops : List Op) (now : Time) (k : Key) :
    (step (reach limit sl ops) (.fetch now k)).2 = .miss ∨
    ∃ e, specOf limit sl ops k = some e ∧ ¬ e.deadline < now ∧
      (step (reach limit sl ops) (.fetch now k)).2 = .hit e.val e.trigs e.deadline e.gen := by
  have hs := refines_run limit sl ops
  simp only [step, fetch]
  cases hc : alookup k (reach limit sl ops).primary with
  | none => exact Or.inl rfl
  | some c =>
    simp only [Gen.fetchExpired]
    by_cases e : c.deadline < now
    · simp [e]
    · right
      exact ⟨toEntry c, hs k _ (by simp [abs, hc]), e, by simp [e, toEntry]⟩

theorem fetch_hit_sound (limit : Nat) (sl : Option Nat) (ops : List Op) (now : Time) (k : Key)
    (v : Val) (tr : List Key) (d : Time) (g : Gen)
    (hit : (step (reach limit sl ops) (.fetch now k)).2 = .hit v tr d g) :
    specOf limit sl ops k = some ⟨v, tr, d, g⟩ ∧ ¬ d < now := by
  rcases fetch_answer limit sl ops now k with h | ⟨e, h1, h2, h3⟩
  · rw [h] at hit; cases hit
  · rw [h3] at hit; cases hit; exact ⟨h1, h2⟩

theorem fetch_miss_of_spec_none (limit : Nat) (sl : Option Nat) (ops : List Op) (now : Time) (k : Key)
    (h : specOf limit sl ops k = none) : (step (reach limit sl ops) (.fetch now k)).2 = .miss := by
  rcases fetch_answer limit sl ops now k with h' | ⟨e, h1, _, _⟩
  · exact h'
  · rw [h] at h1; cases h1

/-! ## the clauses of the property -/

/-- A hit returns exactly the value, trigger set (the given set plus the key itself) and deadline
of the most recent store under that key; that store was performed (stamp `g`), its deadline has not
passed, and since it there was no other store of the key, no `remove` of it, no `clear`, and no
`rise` of any of its triggers. -/
theorem fetch_returns_latest_store (limit : Nat) (sl : Option Nat) (ops : List Op) (now : Time) (k : Key)
    (v : Val) (tr : List Key) (d : Time) (g : Gen)
    (hit : (step (reach limit sl ops) (.fetch now k)).2 = .hit v tr d g) :
    ∃ pre post now₀ trigs gen env,
      ops = pre ++ Op.store now₀ k v trigs d gen env :: post ∧
      tr = ownTrigs k trigs ∧
      stamp (reach limit sl pre) (Op.store now₀ k v trigs d gen env) = some g ∧
      (∀ op ∈ post, op.invalidates k tr = false) ∧
      ¬ d < now := by
  obtain ⟨hsp, hnow⟩ := fetch_hit_sound limit sl ops now k v tr d g hit
  rcases spec_entry_origin k ⟨v, tr, d, g⟩ ops _ _ hsp with ⟨h0, _⟩ | ⟨pre, post, now₀, v', trigs, gen, env, e1, e2, e3, e4, e5⟩
  · simp [Spec.empty] at h0
  · simp only at e2 e3 e4 e5
    subst e2
    exact ⟨pre, post, now₀, trigs, gen, env, e1, e3, e4, e5, hnow⟩

/-- state of the specification at key `k` right after `pre ++ [op]` -/
theorem specOf_snoc (limit : Nat) (sl : Option Nat) (pre post : List Op) (op : Op) :
    specOf limit sl (pre ++ op :: post) =
      specRun (step (reach limit sl pre) op).1
        (Spec.step (specOf limit sl pre) op (stamp (reach limit sl pre) op)).1 post := by
  simp only [specOf, specRun_append, specRun, reach]

theorem miss_after_remove (limit : Nat) (sl : Option Nat) (pre post : List Op) (now : Time) (k : Key)
    (hpost : ∀ op ∈ post, op.isStoreOf k = false) :
    (step (reach limit sl (pre ++ Op.remove k :: post)) (.fetch now k)).2 = .miss := by
  apply fetch_miss_of_spec_none
  rw [specOf_snoc]
  exact spec_none_stable k post hpost _ _ (by simp [Spec.step, Spec.remove])

theorem miss_after_clear (limit : Nat) (sl : Option Nat) (pre post : List Op) (now : Time) (k : Key)
    (hpost : ∀ op ∈ post, op.isStoreOf k = false) :
    (step (reach limit sl (pre ++ Op.clear :: post)) (.fetch now k)).2 = .miss := by
  apply fetch_miss_of_spec_none
  rw [specOf_snoc]
  exact spec_none_stable k post hpost _ _ (by simp [Spec.step, Spec.empty])

/-- the specification at `k` after a store of `k` and operations that do not store `k` again -/
theorem spec_after_store (limit : Nat) (sl : Option Nat) (pre mid : List Op) (now₀ : Time) (k : Key) (v : Val)
    (trigs : List Key) (d : Time) (gen : Option Gen) (env : StoreEnv)
    (hmid : ∀ op ∈ mid, op.isStoreOf k = false) :
    specOf limit sl (pre ++ Op.store now₀ k v trigs d gen env :: mid) k = none ∨
    ∃ g, specOf limit sl (pre ++ Op.store now₀ k v trigs d gen env :: mid) k = some ⟨v, ownTrigs k trigs, d, g⟩ := by
  rw [specOf_snoc]
  cases hst : stamp (reach limit sl pre) (Op.store now₀ k v trigs d gen env) with
  | none =>
    left
    exact spec_none_stable k mid hmid _ _ (by simp [Spec.step, Spec.remove])
  | some g =>
    rcases spec_entry_or_none k ⟨v, ownTrigs k trigs, d, g⟩ mid hmid
      (step (reach limit sl pre) (Op.store now₀ k v trigs d gen env)).1
      (Spec.step (specOf limit sl pre) (Op.store now₀ k v trigs d gen env) (some g)).1
      (Or.inr (by simp [Spec.step, Spec.insert])) with h | h
    · exact Or.inl h
    · exact Or.inr ⟨g, h⟩

/-- a fetch at a clock value past the deadline of the latest store misses -/
theorem miss_after_expiry (limit : Nat) (sl : Option Nat) (pre post : List Op) (now₀ now : Time) (k : Key) (v : Val)
    (trigs : List Key) (d : Time) (gen : Option Gen) (env : StoreEnv)
    (hpost : ∀ op ∈ post, op.isStoreOf k = false) (hexp : d < now) :
    (step (reach limit sl (pre ++ Op.store now₀ k v trigs d gen env :: post)) (.fetch now k)).2 = .miss := by
  rcases fetch_answer limit sl (pre ++ Op.store now₀ k v trigs d gen env :: post) now k with h | ⟨e, h1, h2, _⟩
  · exact h
  · rcases spec_after_store limit sl pre post now₀ k v trigs d gen env hpost with h0 | ⟨g, h0⟩
    · rw [h0] at h1; cases h1
    · rw [h0] at h1; cases h1; exact absurd hexp h2

/-- raising any trigger attached to the entry — one of the given ones or the key itself —
invalidates it -/
theorem miss_after_rise_of_any_trigger (limit : Nat) (sl : Option Nat) (pre mid post : List Op) (now₀ now : Time)
    (k t : Key) (v : Val) (trigs : List Key) (d : Time) (gen : Option Gen) (env : StoreEnv)
    (ht : t = k ∨ t ∈ trigs)
    (hmid : ∀ op ∈ mid, op.isStoreOf k = false) (hpost : ∀ op ∈ post, op.isStoreOf k = false) :
    (step (reach limit sl (pre ++ Op.store now₀ k v trigs d gen env :: (mid ++ Op.rise t :: post))) (.fetch now k)).2
      = .miss := by
  apply fetch_miss_of_spec_none
  have e : pre ++ Op.store now₀ k v trigs d gen env :: (mid ++ Op.rise t :: post)
      = (pre ++ Op.store now₀ k v trigs d gen env :: mid) ++ Op.rise t :: post := by simp
  rw [e, specOf_snoc]
  apply spec_none_stable k post hpost
  simp only [Spec.step, Spec.rise]
  rcases spec_after_store limit sl pre mid now₀ k v trigs d gen env hmid with h0 | ⟨g, h0⟩
  · rw [h0]
  · rw [h0]; simp [mem_ownTrigs.mpr ht]

/-- a store that the cache could not perform (value copy fails, `bad_alloc` inside, refused by
the size cap) leaves the key absent: the superseded value is never served (defect D9, fixed) -/
theorem miss_after_dropped_store (limit : Nat) (sl : Option Nat) (pre post : List Op) (now₀ now : Time) (k : Key)
    (v : Val) (trigs : List Key) (d : Time) (gen : Option Gen) (env : StoreEnv)
    (hdrop : stamp (reach limit sl pre) (Op.store now₀ k v trigs d gen env) = none)
    (hpost : ∀ op ∈ post, op.isStoreOf k = false) :
    (step (reach limit sl (pre ++ Op.store now₀ k v trigs d gen env :: post)) (.fetch now k)).2 = .miss := by
  apply fetch_miss_of_spec_none
  rw [specOf_snoc, hdrop]
  exact spec_none_stable k post hpost _ _ (by simp [Spec.step, Spec.remove])

/-- When no size limit is in play (limit 0, thread back-end) and no allocation fails, a live entry
is always found: after a store of `k` and operations none of which invalidates it, a fetch before
or at the deadline returns that store's value, trigger set, deadline and generation. -/
theorem live_entry_always_found (pre post : List Op) (now₀ now : Time) (k : Key) (v : Val)
    (trigs : List Key) (d : Time) (gen : Option Gen) (env : StoreEnv)
    (hquiet : ∀ op ∈ pre ++ Op.store now₀ k v trigs d gen env :: post, op.quiet)
    (hpost : ∀ op ∈ post, op.invalidates k (ownTrigs k trigs) = false)
    (hlive : ¬ d < now) :
    (step (reach 0 none (pre ++ Op.store now₀ k v trigs d gen env :: post)) (.fetch now k)).2
      = .hit v (ownTrigs k trigs) d (gen.getD (reach 0 none pre).generation) := by
  let ops := pre ++ Op.store now₀ k v trigs d gen env :: post
  have hinv0 := C07.inv_init 0 none
  have habs : abs (reach 0 none ops) = specOf 0 none ops := by
    have := exact_run hinv0 rfl rfl ops hquiet
    rw [abs_init] at this
    exact this
  have hpre := inv_run hinv0 pre
  have hcfg := config_run (State.init 0 none) pre
  have hst := (exact_step hpre hcfg.1 hcfg.2 (Op.store now₀ k v trigs d gen env) (hquiet _ (by simp))).2.2
    now₀ k v trigs d gen env rfl
  have hspec : specOf 0 none ops k = some ⟨v, ownTrigs k trigs, d, gen.getD (reach 0 none pre).generation⟩ := by
    show specOf 0 none (pre ++ Op.store now₀ k v trigs d gen env :: post) k = _
    rw [specOf_snoc, hst]
    exact spec_entry_kept k _ post hpost _ _ (by simp [Spec.step, Spec.insert])
  have hq : (Op.fetch now k).quiet := trivial
  have hfin := inv_run hinv0 ops
  have hcfg2 := config_run (State.init 0 none) ops
  have := (exact_step hfin hcfg2.1 hcfg2.2 (Op.fetch now k) hq).2.1 (by intro e; cases e)
  rw [this, habs]
  simp [Spec.step, Spec.fetch, hspec, hlive]

/-- the source's handler for a failing value copy removes the previous entry (read by the
translator from `store`); `refines_spec` depends on it -/
theorem copy_failure_handled : Gen.copyFailRemovesOld = true := rfl

/-- Defect D9 as found: with the old handler (`return;`, `removesOld = false`) the store of a value
that cannot be allocated leaves the superseded value in the cache, so the refinement fails —
witness: store `k`=old, then store `k`=(too large), fetch `k` returns old. -/
theorem d9_unfixed_counterexample :
    let s₀ := (step (State.init 0 (some 26214)) (.store 1000 [107] [111, 108, 100] [] 1100)).1
    let big : Op := .store 1000 [107] [65, 65, 65] [] 1100 none { copyFails := true }
    (fetch (storeG false s₀ 1000 [107] [65, 65, 65] [] 1100 none { copyFails := true }) 1000 [107]).2
        = .hit [111, 108, 100] [[107]] 1100 0 ∧
    (Spec.step (abs s₀) big (stamp s₀ big)).1 [107] = none ∧
    (fetch (step s₀ big).1 1000 [107]).2 = .miss := by
  decide

/-! ## non-vacuity: concrete histories meeting the hypotheses -/

private def k₁ : Key := [107, 49]
private def k₂ : Key := [107, 50]
private def t₁ : Key := [116]

/-- a history in which `k₂` depends on trigger `t₁` and on the key `k₁` -/
private def h₁ : List Op :=
  [.store 1000 k₁ [1] [] 1010, .store 1000 k₂ [2] [t₁, k₁] 1005, .fetch 1001 k₁]

example : (step (reach 0 none h₁) (.fetch 1005 k₂)).2 = .hit [2] [k₂, t₁, k₁] 1005 1 := by decide
example : (step (reach 0 none h₁) (.fetch 1006 k₂)).2 = .miss := by decide
example : (step (reach 0 none (h₁ ++ [.rise k₁])) (.fetch 1001 k₂)).2 = .miss := by decide
example : (step (reach 0 none (h₁ ++ [.rise k₂])) (.fetch 1001 k₂)).2 = .miss := by decide
example : (step (reach 0 none (h₁ ++ [.store 1001 k₁ [3] [] 1010, .rise k₁])) (.fetch 1001 k₂)).2 = .miss := by decide
-- memory pressure evicts the first entry: the fetch misses although the specification hits (`⊑` is strict)
example :
    let h := [Op.store 1000 k₁ [1] [] 1010, .store 1000 k₂ [2] [] 1010 none { lowMem := [true] }]
    (step (reach 0 (some 100) h) (.fetch 1001 k₁)).2 = .miss ∧ (specOf 0 (some 100) h k₁).isSome = true := by decide
-- hypotheses of `live_entry_always_found` are satisfiable
example : (∀ op ∈ h₁, op.quiet) ∧ (∀ op ∈ [Op.fetch 1001 k₁], op.invalidates k₂ (ownTrigs k₂ [t₁, k₁]) = false) := by
  refine ⟨?_, by decide⟩
  intro op h
  simp only [h₁, List.mem_cons, List.not_mem_nil, or_false] at h
  rcases h with h | h | h <;> subst h <;> simp [Op.quiet]
-- a dropped store (`stamp = none`): value copy fails
example : stamp (reach 0 (some 100) [.store 1000 k₁ [1] [] 1010]) (.store 1000 k₁ [2] [] 1010 none { copyFails := true }) = none := by
  decide
example : Inv (reach 2 none h₁) := inv_reachable 2 none h₁

/-! ## the configured limit is the limit in play (`cache_pool`, settings → factory arguments)

`Gen.poolThreadLimit` / `Gen.poolProcessLimit` are transcribed by the translator from `src/cache_pool.cpp`
(which key is read, its default when absent, any substitution applied afterwards). -/

/-- what the application configures as `cache.limit` is exactly the limit the cache is built with,
for both back-ends — in particular `0` stays `0` = "no limit on the number of entries" -/
theorem configured_limit_is_effective_limit (n : Nat) (mem : Option Nat) :
    Gen.poolThreadLimit (some n) = n ∧ Gen.poolProcessLimit (some n) mem = n := ⟨rfl, rfl⟩

/-- hence with `cache.limit = 0` (thread back-end) no size limit is in play and `live_entry_always_found` applies -/
theorem configured_zero_is_unlimited : (State.init (Gen.poolThreadLimit (some 0)) none).limit = 0 := rfl

/-! ## trigger recording through `cache_interface` (model `Iface.lean`)

`recorded st op` are the triggers an operation records for the page under construction:
`add_trigger t` → `t`; a `fetch_frame`/`fetch_data` that hits (and is not `notriggers`) → all
triggers of the fetched entry (its own key included); `store_frame`/`store_data` (not
`notriggers`) → the given triggers and the key; `store_page k` → `k`. -/

/-- interface over an empty cache -/
abbrev iinit (limit : Nat) (sl : Option Nat) : IState := { cache := State.init limit sl }

theorem page_run_mono (st : IState) (ops : List IOp) (hops : ∀ o ∈ ops, ∀ (_ : o = IOp.reset), False) {t : Key}
    (h : t ∈ st.page) : t ∈ (irun st ops).page := by
  induction ops generalizing st with
  | nil => exact h
  | cons o ops ih =>
    rw [irun_cons]
    exact ih _ (fun o' ho' => hops o' (by simp [ho'])) (page_mono st o (hops o (by simp)) h)

/-- **Triggers recorded while a page is being built are attached when it is stored.**
Whatever any operation recorded since the last `reset()` — also the triggers inherited from a
cached frame that was fetched — is in the trigger set that `store_page` hands to the back-end
(`cache_module_->store(r_key, body, triggers_, …)`), together with the page's own key. -/
theorem page_triggers_attached (st : IState) (pre post : List IOp) (op : IOp) (t : Key)
    (hrec : t ∈ recorded (irun st pre) op) (hpost : ∀ o ∈ post, ∀ (_ : o = IOp.reset), False)
    (now : Time) (k : Key) (body : Val) (timeout : Int) (env : StoreEnv) :
    let st' := irun st (pre ++ op :: post)
    ∃ trigs, lower st' (.storePage now k body timeout env)
        = [Op.store now (pageKey st'.gzip k) body trigs (deadtime now timeout) none env] ∧
      t ∈ trigs ∧ k ∈ trigs := by
  intro st'
  refine ⟨(addTrig1 st' k).page, rfl, ?_, mem_addTrig1_page.mpr (Or.inl rfl)⟩
  apply mem_addTrig1_page.mpr; right
  have : st' = irun (istep (irun st pre) op).1 post := by
    simp only [st', irun_append, irun_cons]
  rw [this]
  exact page_run_mono _ post hpost (recorded_in_page _ op hrec)

theorem recorder_run (st : IState) (id : Nat) (ops : List IOp) {l : List Key} (hl : recOf st id = some l)
    (hops : ∀ o ∈ ops, (∀ (_ : o = IOp.attach id), False) ∧ (∀ (_ : o = IOp.detach id), False)) :
    ∃ l', recOf (irun st ops) id = some l' ∧ (∀ x ∈ l, x ∈ l') ∧
      ∀ a o b, ops = a ++ o :: b → ∀ t ∈ recorded (irun st a) o, t ∈ l' := by
  induction ops generalizing st l with
  | nil => exact ⟨l, hl, fun x hx => hx, by intro a o b e; simp at e⟩
  | cons o ops ih =>
    obtain ⟨l1, e1, m1, r1⟩ := recorder_step st o id hl (hops o (by simp))
    obtain ⟨l2, e2, m2, r2⟩ := ih (istep st o).1 e1 (fun o' ho' => hops o' (by simp [ho']))
    refine ⟨l2, by rw [irun_cons]; exact e2, fun x hx => m2 x (m1 x hx), ?_⟩
    intro a o' b e t ht
    cases a with
    | nil =>
      simp only [List.nil_append, List.cons.injEq] at e
      obtain ⟨e1', _⟩ := e
      subst e1'
      exact m2 t (r1 t ht)
    | cons o'' a =>
      simp only [List.cons_append, List.cons.injEq] at e
      obtain ⟨e1', e2'⟩ := e
      subst e1'
      exact r2 a o' b e2' t (by simpa [irun_cons] using ht)

/-- **A `triggers_recorder` collects every trigger recorded in its scope**, however other
recorders are attached or detached meanwhile (nesting): between its construction and its
`detach()`, whatever any operation records is in the set `detach()` returns. -/
theorem recorder_collects (st : IState) (id : Nat) (a b : List IOp) (op : IOp) (t : Key)
    (hrec : t ∈ recorded (irun st (IOp.attach id :: a)) op)
    (hscope : ∀ o ∈ a ++ op :: b, (∀ (_ : o = IOp.attach id), False) ∧ (∀ (_ : o = IOp.detach id), False)) :
    ∃ l, (istep (irun st (IOp.attach id :: (a ++ op :: b))) (.detach id)).2 = .detached l ∧ t ∈ l := by
  have h0 : recOf (istep st (.attach id)).1 id = some [] := by
    simp [istep, recOf]
  obtain ⟨l, e, _, r⟩ := recorder_run (istep st (.attach id)).1 id (a ++ op :: b) h0 hscope
  refine ⟨l, ?_, r a op b rfl t (by simpa [irun_cons] using hrec)⟩
  have hd : ∀ st' : IState, (istep st' (.detach id)).2 = .detached ((recOf st' id).getD []) := fun _ => rfl
  rw [irun_cons, hd, e]; rfl

theorem fetchPage_miss_of_backend (st : IState) (now : Time) (k : Key) (gz : Bool)
    (h : (step st.cache (.fetch now (pageKey gz k))).2 = .miss) : (istep st (.fetchPage now k gz)).2 = .miss := by
  simp only [istep]
  cases hs : step st.cache (Op.fetch now (pageKey gz k)) with
  | mk c o =>
    rw [hs] at h
    simp only at h
    subst h
    rfl

/-- **Raising a recorded trigger invalidates every page that depended on it.**
A page stored by `store_page` whose trigger set `triggers_` contained `t` at that moment (by
`page_triggers_attached`: anything recorded while it was built) — or `t` is the page's key — is
gone after `rise t`: `fetch_page` misses, as long as the page is not stored again. -/
theorem rise_invalidates_dependants (limit : Nat) (sl : Option Nat) (pre p1 p2 : List IOp)
    (now now' : Time) (k t : Key) (body : Val) (timeout : Int) (env : StoreEnv)
    (ht : t = k ∨ t ∈ (irun (iinit limit sl) pre).page) :
    let stp := irun (iinit limit sl) pre
    let st1 := (istep stp (.storePage now k body timeout env)).1
    let rk := pageKey stp.gzip k
    (∀ op ∈ lowerRun st1 p1, op.isStoreOf rk = false) →
    (∀ op ∈ lowerRun (istep (irun st1 p1) (.rise t)).1 p2, op.isStoreOf rk = false) →
    (istep (irun (iinit limit sl) (pre ++ IOp.storePage now k body timeout env :: (p1 ++ IOp.rise t :: p2)))
      (.fetchPage now' k stp.gzip)).2 = .miss := by
  intro stp st1 rk h1 h2
  apply fetchPage_miss_of_backend
  rw [irun_cache]
  have hl : lowerRun (iinit limit sl) (pre ++ IOp.storePage now k body timeout env :: (p1 ++ IOp.rise t :: p2))
      = lowerRun (iinit limit sl) pre ++
          Op.store now rk body (addTrig1 stp k).page (deadtime now timeout) none env ::
            (lowerRun st1 p1 ++ Op.rise t :: lowerRun (istep (irun st1 p1) (.rise t)).1 p2) := by
    rw [lowerRun_append]
    simp only [lowerRun, lower, List.cons_append, List.nil_append]
    rw [lowerRun_append]
    simp only [lowerRun, lower, List.cons_append, List.nil_append]
    rfl
  rw [hl]
  have htr : t = rk ∨ t ∈ (addTrig1 stp k).page := Or.inr (mem_addTrig1_page.mpr ht)
  exact miss_after_rise_of_any_trigger limit sl _ _ _ now now' rk t body _ _ none env htr h1 h2

-- non-vacuity: a page that fetched a cached frame inherits the frame's trigger
private def frame : Key := [102]
private def pg : Key := [112]
private def ih₁ : List IOp :=
  [.store 1000 frame [1] [t₁] 60 true,   -- a frame depending on trigger t₁, stored earlier (not recorded: notriggers)
   .reset,
   .fetchPage 1001 pg false,             -- page not cached yet
   .fetch 1001 frame false]              -- building the page: the cached frame is used
example : (irun (iinit 0 none) ih₁).page = [t₁, frame] := by decide
example : t₁ ∈ recorded (irun (iinit 0 none) (ih₁.take 3)) (.fetch 1001 frame false) := by decide
example :
    let h := ih₁ ++ [.storePage 1001 pg [2] 60]
    (istep (irun (iinit 0 none) h) (.fetchPage 1002 pg false)).2 = .hit [2] ∧
    (istep (irun (iinit 0 none) (h ++ [.rise t₁])) (.fetchPage 1002 pg false)).2 = .miss := by decide
-- nested recorders: the inner one sees only its scope, the outer one everything
example :
    let h := [IOp.attach 1, .addTrigger [1], .attach 2, .addTrigger [2], .detach 2, .addTrigger [3]]
    (istep (irun (iinit 0 none) h) (.detach 1)).2 = .detached [[3], [2], [1]] ∧
    (istep (irun (iinit 0 none) (h.take 4)) (.detach 2)).2 = .detached [[2]] := by decide

end Cppcms.C07.Props
