import Cppcms.C03.RespLemmas
/-! Stage 1 over whole scripts: whatever the application does (within the usage contract `wellFormed`),
the response ends finalized with the invariants of `Done`. -/
namespace Cppcms.C03
open Cppcms

variable {D : Deflater}

/-- the three phases of a response -/
def Phase (r : Resp D) : Prop := Fresh r ∨ Open r r.written ∨ ∃ Z, Done r r.written Z

theorem Phase.finalized_false {r : Resp D} (p : Phase r) (h : r.finalized = false) : Fresh r ∨ Open r r.written := by
  rcases p with f | o | ⟨Z, d⟩
  · exact Or.inl f
  · exact Or.inr o
  · rw [d.fin] at h; cases h

theorem Phase.finalized_true {r : Resp D} (p : Phase r) (h : r.finalized = true) : ∃ Z, Done r r.written Z := by
  rcases p with f | o | d
  · rw [f.notFin] at h; cases h
  · rw [o.notFin] at h; cases h
  · exact d

/-- fields no phase predicate looks at may change freely -/
theorem Phase.congr {r r' : Resp D} (p : Phase r) (h1 : r'.ostreamRequested = r.ostreamRequested)
    (h2 : r'.finalized = r.finalized) (h3 : r'.gz = r.gz) (h4 : r'.copy = r.copy) (h5 : r'.dev = r.dev) (h6 : r'.trace = r.trace)
    (h7 : r'.mode = r.mode) (h8 : r'.sentHeaders = r.sentHeaders) (h9 : r'.written = r.written) : Phase r' := by
  rcases p with f | o | ⟨Z, d⟩
  · exact Or.inl ⟨by rw [h1]; exact f.req, by rw [h2]; exact f.notFin, by rw [h6]; exact f.trace, by rw [h9]; exact f.written,
      by rw [h3]; exact f.gz, by rw [h4]; exact f.copy, by rw [h8]; exact f.sent⟩
  · exact Or.inr (Or.inl (by rw [h9]; exact o.congr h1 h2 h3 h4 h5 h6 h7 h8))
  · exact Or.inr (Or.inr ⟨Z, by rw [h9]; exact d.congr h1 h2 h3 h5 h6 h7 h8⟩)

theorem Resp.requestStream_idem (r : Resp D) : r.requestStream.requestStream = r.requestStream := by
  by_cases h : r.ostreamRequested = true
  · rw [Resp.requestStream_of_requested r h, Resp.requestStream_of_requested r h]
  · apply Resp.requestStream_of_requested
    unfold Resp.requestStream
    simp [h]

theorem Resp.requestStream_requested (r : Resp D) : r.requestStream.ostreamRequested = true := by
  by_cases h : r.ostreamRequested = true
  · rw [Resp.requestStream_of_requested r h]; exact h
  · unfold Resp.requestStream; simp [h]

theorem Resp.requestStream_keeps (r : Resp D) :
    r.requestStream.finalized = r.finalized ∧ r.requestStream.written = r.written ∧ r.requestStream.mode = r.mode ∧
    r.requestStream.cfg = r.cfg ∧ r.requestStream.acceptGzip = r.acceptGzip ∧ r.requestStream.copyToCache = r.copyToCache ∧
    r.requestStream.pageCompressionUsed = r.pageCompressionUsed := by
  by_cases h : r.ostreamRequested = true
  · rw [Resp.requestStream_of_requested r h]; exact ⟨rfl, rfl, rfl, rfl, rfl, rfl, rfl⟩
  · unfold Resp.requestStream; simp [h]

/-- `out()` -/
theorem Phase.request {r : Resp D} (p : Phase r) : Phase r.requestStream ∧ (r.finalized = false → Open r.requestStream r.requestStream.written) := by
  rcases p with f | o | ⟨Z, d⟩
  · have h := f.request
    have ho : Open r.requestStream r.requestStream.written := by rw [h.2.1]; exact h.1
    exact ⟨Or.inr (Or.inl ho), fun _ => ho⟩
  · rw [Resp.requestStream_of_requested r o.req]; exact ⟨Or.inr (Or.inl o), fun _ => o⟩
  · rw [Resp.requestStream_of_requested r d.req]; exact ⟨Or.inr (Or.inr ⟨Z, d⟩), fun h => by rw [d.fin] at h; cases h⟩

theorem Resp.write_request (r : Resp D) (s : Bytes) : r.write s = r.requestStream.write s := by
  unfold Resp.write; rw [Resp.requestStream_idem]

theorem Resp.putc_request (r : Resp D) (c : UInt8) : r.putc c = r.requestStream.putc c := by
  unfold Resp.putc; rw [Resp.requestStream_idem]

theorem Resp.sync_request (r : Resp D) : r.sync = r.requestStream.sync := by
  unfold Resp.sync; rw [Resp.requestStream_idem]

theorem Resp.finalize_request (r : Resp D) (h : r.finalized = false) : r.finalize = r.requestStream.finalize := by
  unfold Resp.finalize
  rw [Resp.requestStream_idem, (Resp.requestStream_keeps r).1]
  simp [h]

/-- `out().write(s)` before the response is finalized -/
theorem Phase.write {r : Resp D} (p : Phase r) (h : r.finalized = false) (s : Bytes) :
    Open (r.write s) (r.write s).written ∧ (r.write s).written = r.written ++ s ∧ (r.write s).finalized = false ∧ (r.write s).mode = r.mode := by
  have ho := p.request.2 h
  have hk := Resp.requestStream_keeps r
  rw [Resp.write_request]
  have ⟨o1, w1, g1⟩ := ho.write s
  refine ⟨o1, by rw [w1, hk.2.1], o1.notFin, ?_⟩
  have := g1.frame.mode
  rw [hk.2.2.1] at this
  exact this

/-- `out().put(c)` before the response is finalized -/
theorem Phase.putc {r : Resp D} (p : Phase r) (h : r.finalized = false) (c : UInt8) :
    Open (r.putc c) (r.putc c).written ∧ (r.putc c).written = r.written ++ [c] ∧ (r.putc c).finalized = false ∧ (r.putc c).mode = r.mode := by
  have ho := p.request.2 h
  have hk := Resp.requestStream_keeps r
  rw [Resp.putc_request]
  have ⟨o1, w1, g1⟩ := ho.putc c
  refine ⟨o1, by rw [w1, hk.2.1], o1.notFin, ?_⟩
  have := g1.frame.mode
  rw [hk.2.2.1] at this
  exact this

theorem Open.putAll : ∀ (bs : Bytes) (r : Resp D), Open r r.written →
    Open (putAll r bs) (putAll r bs).written ∧ (putAll r bs).written = r.written ++ bs ∧ (putAll r bs).mode = r.mode := by
  intro bs
  induction bs with
  | nil => intro r o; simp only [Cppcms.C03.putAll, List.append_nil]; exact ⟨o, trivial, trivial⟩
  | cons c cs ih =>
    intro r o
    have ⟨o1, w1, f1, m1⟩ := Phase.putc (Or.inr (Or.inl o) : Phase r) o.notFin c
    have ⟨o2, w2, m2⟩ := ih (r.putc c) o1
    simp only [Cppcms.C03.putAll]
    exact ⟨o2, by rw [w2, w1]; simp, by rw [m2, m1]⟩

/-- `out().flush()` before the response is finalized -/
theorem Phase.sync {r : Resp D} (p : Phase r) (h : r.finalized = false) :
    Open r.sync r.sync.written ∧ r.sync.written = r.written ∧ r.sync.mode = r.mode := by
  have ho := p.request.2 h
  have hk := Resp.requestStream_keeps r
  rw [Resp.sync_request]
  have ⟨o1, g1⟩ := ho.sync
  refine ⟨by rw [g1.frame.written]; exact o1, by rw [g1.frame.written, hk.2.1], by rw [g1.frame.mode, hk.2.2.1]⟩

/-- `async_flush_output` in any phase -/
theorem Phase.asyncFlush {r : Resp D} (p : Phase r) :
    Phase r.asyncFlush ∧ r.asyncFlush.written = r.written ∧ r.asyncFlush.mode = r.mode ∧ r.asyncFlush.finalized = r.finalized := by
  unfold Resp.asyncFlush
  rcases p with f | o | ⟨Z, d⟩
  · simp only [f.req, Bool.false_eq_true, if_false]; exact ⟨Or.inl f, trivial, trivial, trivial⟩
  · simp only [o.req, if_true]
    have ⟨o1, g1⟩ := o.asyncWriteResponse
    exact ⟨Or.inr (Or.inl (by rw [g1.frame.written]; exact o1)), g1.frame.written, g1.frame.mode, g1.frame.finalized⟩
  · simp only [d.req, if_true]
    have ⟨d1, _⟩ := d.asyncWriteResponse
    exact ⟨Or.inr (Or.inr ⟨Z, d1⟩), rfl, rfl, rfl⟩

/-- `response::setbuf` in any phase -/
theorem Phase.setbuf {r : Resp D} (p : Phase r) (n : Int) :
    Phase (r.setbuf n) ∧ (r.setbuf n).written = r.written ∧ (r.setbuf n).mode = r.mode ∧ (r.setbuf n).finalized = r.finalized := by
  rcases p with f | o | ⟨Z, d⟩
  · unfold Resp.setbuf
    simp only
    rw [if_neg (show ¬ (({ r with requiredBufferSize := if n < 0 then -1 else n } : Resp D).ostreamRequested = true) by
      show ¬ (r.ostreamRequested = true); rw [f.req]; exact Bool.false_ne_true)]
    exact ⟨Or.inl ⟨f.req, f.notFin, f.trace, f.written, f.gz, f.copy, f.sent⟩, rfl, rfl, rfl⟩
  · have ⟨o1, g1⟩ := o.setbuf n
    exact ⟨Or.inr (Or.inl (by rw [g1.frame.written]; exact o1)), g1.frame.written, g1.frame.mode, g1.frame.finalized⟩
  · have ⟨d1, _⟩ := d.setbuf n
    have hw : (r.setbuf n).written = r.written := by
      unfold Resp.setbuf; simp only; split <;> rfl
    have hm : (r.setbuf n).mode = r.mode := by
      unfold Resp.setbuf; simp only; split <;> rfl
    exact ⟨Or.inr (Or.inr ⟨Z, by rw [hw]; exact d1⟩), hw, hm, by rw [d1.fin, d.fin]⟩

/-- `response::full_asynchronous_buffering` in any phase -/
theorem Phase.setFullBuffering {r : Resp D} (p : Phase r) (v : Bool) :
    Phase (r.setFullBuffering v) ∧ (r.setFullBuffering v).written = r.written ∧ (r.setFullBuffering v).mode = r.mode ∧
    (r.setFullBuffering v).finalized = r.finalized := by
  have hw : (r.setFullBuffering v).written = r.written := by unfold Resp.setFullBuffering; split <;> rfl
  have hm : (r.setFullBuffering v).mode = r.mode := by unfold Resp.setFullBuffering; split <;> rfl
  have hfz : (r.setFullBuffering v).finalized = r.finalized := by unfold Resp.setFullBuffering; split <;> rfl
  refine ⟨?_, hw, hm, hfz⟩
  rcases p with f | o | ⟨Z, d⟩
  · unfold Resp.setFullBuffering
    rw [if_neg (by rw [f.req]; simp)]
    exact Or.inl ⟨f.req, f.notFin, f.trace, f.written, f.gz, f.copy, f.sent⟩
  · have ⟨o1, _⟩ := o.setFullBuffering v
    exact Or.inr (Or.inl (by rw [hw]; exact o1))
  · have ⟨d1, _⟩ := d.setFullBuffering v
    exact Or.inr (Or.inr ⟨Z, by rw [hw]; exact d1⟩)

/-- `response::finalize()` in any phase -/
theorem Phase.finalize {r : Resp D} (p : Phase r) :
    (∃ Z, Done r.finalize r.finalize.written Z ∧ (r.finalized = false → CopyDone r.finalize Z)) ∧ r.finalize.written = r.written ∧
    r.finalize.mode = r.mode ∧ r.finalize.finalized = true := by
  by_cases hfin : r.finalized = true
  · obtain ⟨Z, d⟩ := p.finalized_true hfin
    have : r.finalize = r := by unfold Resp.finalize; simp [hfin]
    rw [this]
    exact ⟨⟨Z, d, fun h => by rw [hfin] at h; cases h⟩, rfl, rfl, hfin⟩
  · simp only [Bool.not_eq_true] at hfin
    have ho := p.request.2 hfin
    have hk := Resp.requestStream_keeps r
    rw [Resp.finalize_request r hfin]
    obtain ⟨Z, d, cd, fr, _, _, _⟩ := ho.finalize
    have hw : r.requestStream.finalize.written = r.written := by
      have := fr.written; rw [hk.2.1] at this; exact this
    have hm : r.requestStream.finalize.mode = r.mode := by
      have := fr.mode; rw [hk.2.2.1] at this; exact this
    rw [hk.2.1] at d
    exact ⟨⟨Z, by rw [hw]; exact d, fun _ => cd⟩, hw, hm, d.fin⟩

/-! ### scripts -/

/-- may the application still do this once the response is finalized?  It may not write any more, and a
synchronous `out().flush()` is pointless then (the filter buffers are closed); `async_flush_output`, `setbuf`,
header setters, a second `finalize`/`store_page` are fine -/
def Op.afterFinalOk (mode : Mode) : Op → Bool
  | .write _ _ | .putc _ _ | .lit _ | .fetchPage _ => false
  | .flush => mode.isAsync
  | _ => true

def Op.finalizes : Op → Bool
  | .finalize | .storePage _ => true
  | _ => false

/-- the usage contract of `http::response` the theorems assume -/
def wellFormedFrom (mode : Mode) : Bool → List Op → Bool
  | _, [] => true
  | fin, op :: rest => (!fin || op.afterFinalOk mode) && wellFormedFrom mode (fin || op.finalizes) rest

def wellFormed (mode : Mode) (script : List Op) : Bool := wellFormedFrom mode false script

/-- `cache().fetch_page(key)` -/
theorem Run.fetchPage_spec (x : Run D) (key : String) (p : Phase x.resp) (hnf : x.resp.finalized = false) :
    Phase (x.fetchPage key).resp ∧ (x.fetchPage key).resp.mode = x.resp.mode ∧ (x.fetchPage key).resp.finalized = false := by
  unfold Run.fetchPage
  simp only
  cases hc : x.cache.fetch (pageKey x.resp.needGzip key) with
  | none =>
    simp only
    exact ⟨p.congr rfl rfl rfl rfl rfl rfl rfl rfl rfl, trivial, hnf⟩
  | some page =>
    simp only
    have p1 : Phase (if x.resp.needGzip = true then
        { ({ x.resp with pageCompressionUsed := x.resp.needGzip } : Resp D) with
            headers := ({ x.resp with pageCompressionUsed := x.resp.needGzip } : Resp D).headers.set sContentEncoding sGzip }
        else ({ x.resp with pageCompressionUsed := x.resp.needGzip } : Resp D)) := by
      split <;> exact p.congr rfl rfl rfl rfl rfl rfl rfl rfl rfl
    have hf1 : (if x.resp.needGzip = true then
        { ({ x.resp with pageCompressionUsed := x.resp.needGzip } : Resp D) with
            headers := ({ x.resp with pageCompressionUsed := x.resp.needGzip } : Resp D).headers.set sContentEncoding sGzip }
        else ({ x.resp with pageCompressionUsed := x.resp.needGzip } : Resp D)).finalized = false := by
      split <;> exact hnf
    have hm1 : (if x.resp.needGzip = true then
        { ({ x.resp with pageCompressionUsed := x.resp.needGzip } : Resp D) with
            headers := ({ x.resp with pageCompressionUsed := x.resp.needGzip } : Resp D).headers.set sContentEncoding sGzip }
        else ({ x.resp with pageCompressionUsed := x.resp.needGzip } : Resp D)).mode = x.resp.mode := by
      split <;> rfl
    have ⟨o, _, f, m⟩ := p1.write hf1 page
    exact ⟨Or.inr (Or.inl o), by rw [m, hm1], f⟩

/-- `cache().store_page(key)` -/
theorem Run.storePage_spec (x : Run D) (key : String) (p : Phase x.resp) :
    Phase (x.storePage key).resp ∧ (x.storePage key).resp.mode = x.resp.mode ∧ (x.storePage key).resp.finalized = true ∧
    (x.storePage key).resp.written = x.resp.written := by
  have ⟨⟨Z, d, _⟩, hw, hm, hf⟩ := p.finalize
  unfold Run.storePage
  simp only
  split
  · split
    · exact ⟨Or.inr (Or.inr ⟨Z, d⟩), hm, hf, hw⟩
    · exact ⟨Or.inr (Or.inr ⟨Z, by rw [hw] at d ⊢; exact (d.congr rfl rfl rfl rfl rfl rfl rfl)⟩), hm, hf, hw⟩
  · exact ⟨Or.inr (Or.inr ⟨Z, d⟩), hm, hf, hw⟩

/-- one application action -/
theorem Run.step_spec (x : Run D) (op : Op) (p : Phase x.resp) (hns : x.stopped = false)
    (hok : x.resp.finalized = true → op.afterFinalOk x.resp.mode = true) :
    Phase (x.step op).resp ∧ (x.step op).resp.mode = x.resp.mode ∧
    ((x.step op).stopped = false → (x.step op).resp.finalized = (x.resp.finalized || op.finalizes)) ∧
    (x.resp.finalized = true → (x.step op).resp.written = x.resp.written) := by
  unfold Run.step
  simp only [hns, Bool.false_eq_true, if_false]
  have hnf : ∀ {o : Op}, o.afterFinalOk x.resp.mode = false → (x.resp.finalized = true → o.afterFinalOk x.resp.mode = true) → x.resp.finalized = false := by
    intro o h1 h2
    cases hfz : x.resp.finalized with
    | false => rfl
    | true => rw [h2 hfz] at h1; cases h1
  cases op with
  | write n seed =>
    have hf := hnf (o := .write n seed) rfl hok
    have ⟨o, _, f, m⟩ := p.write hf (genBytes seed n)
    exact ⟨Or.inr (Or.inl o), m, fun _ => by rw [f, hf]; rfl, fun h => by rw [hf] at h; cases h⟩
  | lit bs =>
    have hf := hnf (o := .lit bs) rfl hok
    have ⟨o, _, f, m⟩ := p.write hf bs
    exact ⟨Or.inr (Or.inl o), m, fun _ => by rw [f, hf]; rfl, fun h => by rw [hf] at h; cases h⟩
  | putc n seed =>
    have hf := hnf (o := .putc n seed) rfl hok
    have ho := p.request.2 hf
    have hk := Resp.requestStream_keeps x.resp
    have ⟨o, _, m⟩ := Open.putAll (genBytes seed n) x.resp.requestStream ho
    exact ⟨Or.inr (Or.inl o), by rw [m, hk.2.2.1], fun _ => by rw [o.notFin, hf]; rfl, fun h => by rw [hf] at h; cases h⟩
  | out =>
    have hk := Resp.requestStream_keeps x.resp
    exact ⟨p.request.1, hk.2.2.1, fun _ => by simp [Op.finalizes, hk.1], fun _ => hk.2.1⟩
  | finalize =>
    have ⟨⟨Z, d, _⟩, hw, hm, hf⟩ := p.finalize
    exact ⟨Or.inr (Or.inr ⟨Z, d⟩), hm, fun _ => by simp [Op.finalizes, hf], fun _ => hw⟩
  | flush =>
    by_cases ha : x.resp.mode.isAsync = true
    · simp only [ha, if_true]
      have ⟨p1, w, m, f⟩ := p.asyncFlush
      exact ⟨p1, m, fun _ => by simp [Op.finalizes, f], fun _ => w⟩
    · simp only [ha, Bool.false_eq_true, if_false]
      have hf := hnf (o := .flush) (by simp [Op.afterFinalOk]; simpa using ha) hok
      have ⟨o, w, m⟩ := p.sync hf
      exact ⟨Or.inr (Or.inl o), m, fun _ => by rw [o.notFin, hf]; rfl, fun _ => w⟩
  | setbuf n =>
    have ⟨p1, w, m, f⟩ := p.setbuf n
    exact ⟨p1, m, fun _ => by simp [Op.finalizes, f], fun _ => w⟩
  | fullBuf v =>
    have ⟨p1, w, m, f⟩ := p.setFullBuffering v
    exact ⟨p1, m, fun _ => by simp [Op.finalizes, f], fun _ => w⟩
  | setHeader n v => exact ⟨p.congr rfl rfl rfl rfl rfl rfl rfl rfl rfl, rfl, fun _ => by simp [Op.finalizes], fun _ => rfl⟩
  | addHeader n v => exact ⟨p.congr rfl rfl rfl rfl rfl rfl rfl rfl rfl, rfl, fun _ => by simp [Op.finalizes], fun _ => rfl⟩
  | cookie n v => exact ⟨p.congr rfl rfl rfl rfl rfl rfl rfl rfl rfl, rfl, fun _ => by simp [Op.finalizes], fun _ => rfl⟩
  | contentLength n => exact ⟨p.congr rfl rfl rfl rfl rfl rfl rfl rfl rfl, rfl, fun _ => by simp [Op.finalizes], fun _ => rfl⟩
  | status n => exact ⟨p.congr rfl rfl rfl rfl rfl rfl rfl rfl rfl, rfl, fun _ => by simp [Op.finalizes], fun _ => rfl⟩
  | fetchPage key =>
    have hf := hnf (o := .fetchPage key) rfl hok
    have ⟨p1, m, f⟩ := x.fetchPage_spec key p hf
    exact ⟨p1, m, fun _ => by rw [f, hf]; rfl, fun h => by rw [hf] at h; cases h⟩
  | storePage key =>
    have ⟨p1, m, f, w⟩ := x.storePage_spec key p
    exact ⟨p1, m, fun _ => by simp [Op.finalizes, f], fun _ => w⟩

theorem foldl_stopped : ∀ (ops : List Op) (x : Run D), x.stopped = true → ops.foldl Run.step x = x := by
  intro ops
  induction ops with
  | nil => intro x _; rfl
  | cons op ops ih =>
    intro x h
    have : x.step op = x := by unfold Run.step; simp [h]
    rw [List.foldl_cons, this]
    exact ih x h

theorem fold_spec : ∀ (ops : List Op) (x : Run D), Phase x.resp →
    (x.stopped = false → wellFormedFrom x.resp.mode x.resp.finalized ops = true) →
    Phase (ops.foldl Run.step x).resp ∧ (ops.foldl Run.step x).resp.mode = x.resp.mode := by
  intro ops
  induction ops with
  | nil => intro x p _; exact ⟨p, rfl⟩
  | cons op ops ih =>
    intro x p hwf
    by_cases hs : x.stopped = true
    · rw [foldl_stopped _ x hs]; exact ⟨p, rfl⟩
    · simp only [Bool.not_eq_true] at hs
      have hw := hwf hs
      simp only [wellFormedFrom, Bool.and_eq_true, Bool.or_eq_true, Bool.not_eq_true'] at hw
      have hok : x.resp.finalized = true → op.afterFinalOk x.resp.mode = true := by
        intro hf
        rcases hw.1 with h | h
        · rw [hf] at h; cases h
        · exact h
      have ⟨p1, m1, f1, _⟩ := x.step_spec op p hs hok
      have := ih (x.step op) p1 (fun hns => by rw [m1, f1 hns]; exact hw.2)
      rw [List.foldl_cons]
      exact ⟨this.1, by rw [this.2, m1]⟩

theorem Resp.new_fresh (cfg : Config) (mode : Mode) (acceptGzip : Bool) : Fresh (Resp.new D cfg mode acceptGzip) :=
  ⟨rfl, rfl, rfl, rfl, rfl, rfl, rfl⟩

/-- what the context does at the end keeps the finalized response finalized -/
theorem Phase.complete {r : Resp D} (p : Phase r) : (∃ Z, Done r.complete r.complete.written Z) ∧ r.complete.mode = r.mode ∧
    r.complete.written = r.written := by
  unfold Resp.complete
  have ⟨⟨Z, d, _⟩, hw, hm, _⟩ := p.finalize
  simp only
  split
  · exact ⟨⟨Z, (d.asyncWriteResponse).1⟩, hm, hw⟩
  · exact ⟨⟨Z, d⟩, hm, hw⟩

/-- **stage 1.**  For every script within the usage contract, every io mode, configuration, cache content and
request: when the context has completed the response, the response is `Done` — see that structure for what
this says about the trace. -/
theorem response_trace_spec (cfg : Config) (cache : PageCache) (mode : Mode) (acceptGzip : Bool) (script : List Op)
    (hwf : wellFormed mode script = true) :
    ∃ Z, Done (runScript D cfg cache mode acceptGzip script).resp (runScript D cfg cache mode acceptGzip script).resp.written Z ∧
      (runScript D cfg cache mode acceptGzip script).resp.mode = mode := by
  unfold runScript
  simp only
  have p0 : Phase (Resp.new D cfg mode acceptGzip) := Or.inl (Resp.new_fresh cfg mode acceptGzip)
  have ⟨p1, m1⟩ := fold_spec script ({ resp := Resp.new D cfg mode acceptGzip, cache := cache } : Run D) p0 (fun _ => hwf)
  obtain ⟨⟨Z, d⟩, hm, _⟩ := p1.complete
  exact ⟨Z, d, by rw [hm, m1]; rfl⟩

end Cppcms.C03
