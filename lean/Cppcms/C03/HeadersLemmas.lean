import Cppcms.C03.Framing
/-! `cppcms::impl::response_headers`: the case-insensitive map and the added-header list. -/
namespace Cppcms.C03
open Cppcms

/-! ### the order `icompare_type` -/

/-- lexicographic order on byte strings, shorter first -/
def lexLt : Bytes → Bytes → Bool
  | [], [] => false
  | [], _ :: _ => true
  | _ :: _, [] => false
  | a :: as, c :: cs => if a < c then true else if a > c then false else lexLt as cs

/-- case folding of a header name -/
def foldName (s : Bytes) : Bytes := s.map lowerByte

theorem iless_eq : ∀ (l r : Bytes), iless l r = lexLt (foldName l) (foldName r) := by
  intro l
  induction l with
  | nil => intro r; cases r <;> rfl
  | cons a as ih =>
    intro r
    cases r with
    | nil => rfl
    | cons c cs => simp only [iless, foldName, List.map_cons, lexLt]; rw [ih cs]; rfl

theorem u8_lt_irrefl (a : UInt8) : ¬ a < a := by
  rw [UInt8.lt_iff_toNat_lt]; omega

theorem u8_trichotomy (a c : UInt8) : a < c ∨ a = c ∨ c < a := by
  rcases Nat.lt_trichotomy a.toNat c.toNat with h | h | h
  · exact Or.inl (UInt8.lt_iff_toNat_lt.2 h)
  · exact Or.inr (Or.inl (UInt8.toNat_inj.1 h))
  · exact Or.inr (Or.inr (UInt8.lt_iff_toNat_lt.2 h))

theorem lexLt_irrefl : ∀ a : Bytes, lexLt a a = false := by
  intro a
  induction a with
  | nil => rfl
  | cons x xs ih => simp [lexLt, u8_lt_irrefl, ih]

theorem lexLt_trichotomy : ∀ a c : Bytes, lexLt a c = true ∨ a = c ∨ lexLt c a = true := by
  intro a
  induction a with
  | nil => intro c; cases c <;> simp [lexLt]
  | cons x xs ih =>
    intro c
    cases c with
    | nil => simp [lexLt]
    | cons y ys =>
      rcases u8_trichotomy x y with h | h | h
      · left; simp [lexLt, h]
      · subst h
        rcases ih ys with h2 | h2 | h2
        · left; simp [lexLt, u8_lt_irrefl, h2]
        · right; left; rw [h2]
        · right; right; simp [lexLt, u8_lt_irrefl, h2]
      · right; right; simp [lexLt, h]

theorem lexLt_asymm : ∀ a c : Bytes, lexLt a c = true → lexLt c a = false := by
  intro a
  induction a with
  | nil => intro c h; cases c <;> simp_all [lexLt]
  | cons x xs ih =>
    intro c h
    cases c with
    | nil => simp [lexLt] at h
    | cons y ys =>
      simp only [lexLt] at h ⊢
      by_cases h1 : x < y
      · have : ¬ y < x := by rw [UInt8.lt_iff_toNat_lt] at *; omega
        simp [this, h1]
      · simp only [h1, if_false] at h
        by_cases h2 : x > y
        · simp [h2] at h
        · simp only [h2, if_false] at h
          have hxy : ¬ y < x := h2
          have hyx : ¬ y > x := h1
          simp [hxy, hyx, ih ys h]

theorem lexLt_trans : ∀ a c e : Bytes, lexLt a c = true → lexLt c e = true → lexLt a e = true := by
  intro a
  induction a with
  | nil =>
    intro c e h1 h2
    cases c with
    | nil => simp [lexLt] at h1
    | cons y ys => cases e with
      | nil => simp [lexLt] at h2
      | cons z zs => rfl
  | cons x xs ih =>
    intro c e h1 h2
    cases c with
    | nil => simp [lexLt] at h1
    | cons y ys =>
      cases e with
      | nil => simp [lexLt] at h2
      | cons z zs =>
        simp only [lexLt] at h1 h2 ⊢
        rcases u8_trichotomy x y with hxy | hxy | hxy
        · rcases u8_trichotomy y z with hyz | hyz | hyz
          · have : x < z := by rw [UInt8.lt_iff_toNat_lt] at *; omega
            simp [this]
          · subst hyz; simp [hxy]
          · have hn : ¬ y < z := by rw [UInt8.lt_iff_toNat_lt] at *; omega
            simp [hn, hyz] at h2
        · subst hxy
          simp only [u8_lt_irrefl, if_false] at h1
          rcases u8_trichotomy x z with hxz | hxz | hxz
          · simp [hxz]
          · subst hxz
            simp only [u8_lt_irrefl, if_false] at h2 ⊢
            exact ih ys zs h1 h2
          · have hn : ¬ x < z := by rw [UInt8.lt_iff_toNat_lt] at *; omega
            simp [hn, hxz] at h2
        · have hn : ¬ x < y := by rw [UInt8.lt_iff_toNat_lt] at *; omega
          simp [hn, hxy] at h1

/-- `ieq` is equality of the case-folded names -/
theorem ieq_iff (l r : Bytes) : ieq l r = true ↔ foldName l = foldName r := by
  unfold ieq
  rw [iless_eq, iless_eq]
  constructor
  · intro h
    simp only [Bool.and_eq_true, Bool.not_eq_true'] at h
    rcases lexLt_trichotomy (foldName l) (foldName r) with h1 | h1 | h1
    · rw [h.1] at h1; cases h1
    · exact h1
    · rw [h.2] at h1; cases h1
  · intro h
    rw [h, lexLt_irrefl]; rfl

theorem ieq_refl (a : Bytes) : ieq a a = true := (ieq_iff a a).2 rfl
theorem ieq_symm {a c : Bytes} (h : ieq a c = true) : ieq c a = true := (ieq_iff c a).2 ((ieq_iff a c).1 h).symm
theorem ieq_trans {a c e : Bytes} (h1 : ieq a c = true) (h2 : ieq c e = true) : ieq a e = true :=
  (ieq_iff a e).2 (((ieq_iff a c).1 h1).trans ((ieq_iff c e).1 h2))

theorem ieq_false_of_iless {a c : Bytes} (h : iless a c = true) : ieq a c = false := by
  unfold ieq; simp [h]

/-! ### the map -/

/-- keys strictly increasing in the case-insensitive order: in particular no two entries with the same name up to case -/
def Sorted : List (Bytes × Bytes) → Prop
  | [] => True
  | (k, _) :: rest => (∀ e ∈ rest, iless k e.1 = true) ∧ Sorted rest

theorem mapFind_set_same : ∀ (m : List (Bytes × Bytes)) (n v : Bytes), ∃ k, mapFind n (mapSet n v m) = some (k, v) ∧ ieq k n = true := by
  intro m
  induction m with
  | nil => intro n v; exact ⟨n, by simp [mapSet, mapFind, ieq_refl], ieq_refl n⟩
  | cons e rest ih =>
    intro n v
    obtain ⟨k, x⟩ := e
    simp only [mapSet]
    by_cases h1 : ieq k n = true
    · simp only [h1, if_true, mapFind]; exact ⟨k, rfl, h1⟩
    · simp only [h1, Bool.false_eq_true, if_false]
      by_cases h2 : iless n k = true
      · simp only [h2, if_true, mapFind, ieq_refl, if_true]; exact ⟨n, rfl, ieq_refl n⟩
      · simp only [h2, Bool.false_eq_true, if_false, mapFind, h1]
        exact ih n v

theorem mapFind_set_other : ∀ (m : List (Bytes × Bytes)) (n v n' : Bytes), ieq n n' = false →
    mapFind n' (mapSet n v m) = mapFind n' m := by
  intro m
  induction m with
  | nil => intro n v n' h; simp [mapSet, mapFind, h]
  | cons e rest ih =>
    intro n v n' h
    obtain ⟨k, x⟩ := e
    simp only [mapSet]
    by_cases h1 : ieq k n = true
    · have hk : ieq k n' = false := by
        cases hh : ieq k n' with
        | false => rfl
        | true => have := ieq_trans (ieq_symm h1) hh; rw [h] at this; cases this
      simp only [h1, if_true, mapFind, hk, Bool.false_eq_true, if_false]
    · simp only [h1, Bool.false_eq_true, if_false]
      by_cases h2 : iless n k = true
      · simp only [h2, if_true, mapFind, h, Bool.false_eq_true, if_false]
      · simp only [h2, Bool.false_eq_true, if_false, mapFind]
        rw [ih n v n' h]

theorem mapFind_erase_other : ∀ (m : List (Bytes × Bytes)) (n n' : Bytes), ieq n n' = false →
    mapFind n' (mapErase n m) = mapFind n' m := by
  intro m
  induction m with
  | nil => intro n n' _; rfl
  | cons e rest ih =>
    intro n n' h
    obtain ⟨k, x⟩ := e
    simp only [mapErase]
    by_cases h1 : ieq k n = true
    · have hk : ieq k n' = false := by
        cases hh : ieq k n' with
        | false => rfl
        | true => have := ieq_trans (ieq_symm h1) hh; rw [h] at this; cases this
      simp only [h1, if_true, mapFind, hk, Bool.false_eq_true, if_false]
    · simp only [h1, Bool.false_eq_true, if_false, mapFind]
      rw [ih n n' h]

theorem mapFind_none_of_all_less : ∀ (m : List (Bytes × Bytes)) (k n : Bytes), ieq k n = true → (∀ e ∈ m, iless k e.1 = true) →
    mapFind n m = none := by
  intro m
  induction m with
  | nil => intro _ _ _ _; rfl
  | cons e rest ih =>
    intro k n hk hall
    obtain ⟨k2, x⟩ := e
    have h1 : iless k k2 = true := hall (k2, x) (by simp)
    have h2 : ieq k2 n = false := by
      cases hh : ieq k2 n with
      | false => rfl
      | true =>
        have := ieq_trans hh (ieq_symm hk)
        have h3 := ieq_false_of_iless h1
        rw [ieq_symm this] at h3; cases h3
    simp only [mapFind, h2, Bool.false_eq_true, if_false]
    exact ih k n hk (fun e he => hall e (by simp [he]))

theorem mapFind_erase_same : ∀ (m : List (Bytes × Bytes)) (n : Bytes), Sorted m → mapFind n (mapErase n m) = none := by
  intro m
  induction m with
  | nil => intro _ _; rfl
  | cons e rest ih =>
    intro n hs
    obtain ⟨k, x⟩ := e
    simp only [mapErase]
    by_cases h1 : ieq k n = true
    · simp only [h1, if_true]
      exact mapFind_none_of_all_less rest k n h1 hs.1
    · simp only [h1, Bool.false_eq_true, if_false, mapFind]
      exact ih n hs.2

theorem iless_congr_left {a c e : Bytes} (h : ieq a c = true) : iless a e = iless c e := by
  rw [iless_eq, iless_eq, (ieq_iff a c).1 h]

theorem iless_congr_right {a c e : Bytes} (h : ieq a c = true) : iless e a = iless e c := by
  rw [iless_eq, iless_eq, (ieq_iff a c).1 h]

theorem iless_trans {a c e : Bytes} (h1 : iless a c = true) (h2 : iless c e = true) : iless a e = true := by
  rw [iless_eq] at *; exact lexLt_trans _ _ _ h1 h2

theorem iless_total {a c : Bytes} (h1 : ieq a c = false) (h2 : iless a c = false) : iless c a = true := by
  rcases lexLt_trichotomy (foldName a) (foldName c) with h | h | h
  · rw [← iless_eq] at h; rw [h2] at h; cases h
  · have := (ieq_iff a c).2 h; rw [h1] at this; cases this
  · rw [iless_eq]; exact h

theorem mapSet_keys : ∀ (m : List (Bytes × Bytes)) (n v : Bytes) (e : Bytes × Bytes), e ∈ mapSet n v m →
    e ∈ m ∨ e = (n, v) ∨ ∃ x, (e.1, x) ∈ m ∧ ieq e.1 n = true := by
  intro m
  induction m with
  | nil => intro n v e h; simp [mapSet] at h; exact Or.inr (Or.inl h)
  | cons e0 rest ih =>
    intro n v e h
    obtain ⟨k, x⟩ := e0
    simp only [mapSet] at h
    by_cases h1 : ieq k n = true
    · simp only [h1, if_true, List.mem_cons] at h
      rcases h with h | h
      · exact Or.inr (Or.inr ⟨x, by rw [h]; simp, by rw [h]; exact h1⟩)
      · exact Or.inl (by simp [h])
    · simp only [h1, Bool.false_eq_true, if_false] at h
      by_cases h2 : iless n k = true
      · simp only [h2, if_true, List.mem_cons] at h
        rcases h with h | h | h
        · exact Or.inr (Or.inl h)
        · exact Or.inl (by simp [h])
        · exact Or.inl (by simp [h])
      · simp only [h2, Bool.false_eq_true, if_false, List.mem_cons] at h
        rcases h with h | h
        · exact Or.inl (by simp [h])
        · rcases ih n v e h with h3 | h3 | ⟨y, h3, h4⟩
          · exact Or.inl (by simp [h3])
          · exact Or.inr (Or.inl h3)
          · exact Or.inr (Or.inr ⟨y, by simp [h3], h4⟩)

theorem mapSet_sorted : ∀ (m : List (Bytes × Bytes)) (n v : Bytes), Sorted m → Sorted (mapSet n v m) := by
  intro m
  induction m with
  | nil => intro n v _; simp [mapSet, Sorted]
  | cons e0 rest ih =>
    intro n v hs
    obtain ⟨k, x⟩ := e0
    simp only [mapSet]
    by_cases h1 : ieq k n = true
    · simp only [h1, if_true]; exact hs
    · simp only [h1, Bool.false_eq_true, if_false]
      by_cases h2 : iless n k = true
      · simp only [h2, if_true]
        refine ⟨?_, hs⟩
        intro e he
        simp only [List.mem_cons] at he
        rcases he with he | he
        · rw [he]; exact h2
        · exact iless_trans h2 (hs.1 e he)
      · simp only [h2, Bool.false_eq_true, if_false]
        refine ⟨?_, ih n v hs.2⟩
        intro e he
        rcases mapSet_keys rest n v e he with h3 | h3 | ⟨y, h3, h4⟩
        · exact hs.1 e h3
        · rw [h3]
          have hkn : ieq k n = false := by simpa using h1
          have hnk : ieq n k = false := by
            cases hh : ieq n k with
            | false => rfl
            | true => rw [ieq_symm hh] at hkn; cases hkn
          exact iless_total hnk (by simpa using h2)
        · exact hs.1 (e.1, y) h3

theorem mapErase_sub : ∀ (m : List (Bytes × Bytes)) (n : Bytes) (e : Bytes × Bytes), e ∈ mapErase n m → e ∈ m := by
  intro m
  induction m with
  | nil => intro n e h; simp [mapErase] at h
  | cons e0 rest ih =>
    intro n e h
    obtain ⟨k, x⟩ := e0
    simp only [mapErase] at h
    split at h
    · exact List.mem_cons_of_mem _ h
    · simp only [List.mem_cons] at h ⊢
      rcases h with h | h
      · exact Or.inl h
      · exact Or.inr (ih n e h)

theorem mapErase_sorted : ∀ (m : List (Bytes × Bytes)) (n : Bytes), Sorted m → Sorted (mapErase n m) := by
  intro m
  induction m with
  | nil => intro n _; simp [mapErase, Sorted]
  | cons e0 rest ih =>
    intro n hs
    obtain ⟨k, x⟩ := e0
    simp only [mapErase]
    split
    · exact hs.2
    · exact ⟨fun e he => hs.1 e (mapErase_sub rest n e he), ih n hs.2⟩

/-! ### `response_headers` -/

def Headers.Ok (h : Headers) : Prop := Sorted h.map

theorem Headers.ok_empty : ({} : Headers).Ok := trivial

theorem Headers.set_ok (h : Headers) (n v : Bytes) (ok : h.Ok) : (h.set n v).Ok := by
  unfold Headers.set Headers.Ok
  split
  · exact mapErase_sorted _ _ ok
  · exact mapSet_sorted _ _ _ ok

theorem Headers.add_ok (h : Headers) (n v : Bytes) (ok : h.Ok) : (h.add n v).Ok := by
  unfold Headers.add
  split
  · exact Headers.set_ok h n v ok
  · exact ok

theorem Headers.addRaw_ok (h : Headers) (l : Bytes) (ok : h.Ok) : (h.addRaw l).Ok := ok

theorem mapFind_congr : ∀ (m : List (Bytes × Bytes)) (n n' : Bytes), ieq n n' = true → mapFind n m = mapFind n' m := by
  intro m
  induction m with
  | nil => intro _ _ _; rfl
  | cons e rest ih =>
    intro n n' h
    obtain ⟨k, x⟩ := e
    have : ieq k n = ieq k n' := by
      cases h1 : ieq k n with
      | true => exact (ieq_trans h1 h).symm
      | false =>
        cases h2 : ieq k n' with
        | false => rfl
        | true => have := ieq_trans h2 (ieq_symm h); rw [h1] at this; cases this
    simp only [mapFind, this]
    rw [ih n n' h]

/-- **last set wins** (one step): after `set_header(n, v)` the header reads `v` under any spelling of the name;
an empty value erases it -/
theorem Headers.get_set_same (h : Headers) (n n' v : Bytes) (ok : h.Ok) (hn : ieq n n' = true) : (h.set n v).get n' = v := by
  by_cases hv : v.isEmpty = true
  · have hv' : v = [] := by simpa [List.isEmpty_iff] using hv
    have e : h.set n v = { h with map := mapErase n h.map } := by unfold Headers.set; rw [if_pos hv]
    rw [e]
    show (match mapFind n' (mapErase n h.map) with | some (_, v) => v | none => []) = v
    rw [← mapFind_congr _ n n' hn, mapFind_erase_same _ n ok, hv']
  · have e : h.set n v = { h with map := mapSet n v h.map } := by unfold Headers.set; rw [if_neg hv]
    rw [e]
    show (match mapFind n' (mapSet n v h.map) with | some (_, v) => v | none => []) = v
    rw [← mapFind_congr _ n n' hn]
    obtain ⟨k, hk, _⟩ := mapFind_set_same h.map n v
    rw [hk]

/-- a non-empty value needs no assumption on the map -/
theorem Headers.get_set_nonempty (h : Headers) (n n' v : Bytes) (hv : v.isEmpty = false) (hn : ieq n n' = true) :
    (h.set n v).get n' = v := by
  have e : h.set n v = { h with map := mapSet n v h.map } := by unfold Headers.set; rw [if_neg (by rw [hv]; exact Bool.false_ne_true)]
  rw [e]
  show (match mapFind n' (mapSet n v h.map) with | some (_, v) => v | none => []) = v
  rw [← mapFind_congr _ n n' hn]
  obtain ⟨k, hk, _⟩ := mapFind_set_same h.map n v
  rw [hk]

/-- setting one header does not disturb another -/
theorem Headers.get_set_other (h : Headers) (n n' v : Bytes) (hn : ieq n n' = false) : (h.set n v).get n' = h.get n' := by
  by_cases hv : v.isEmpty = true
  · have e : h.set n v = { h with map := mapErase n h.map } := by unfold Headers.set; rw [if_pos hv]
    rw [e]
    show (match mapFind n' (mapErase n h.map) with | some (_, v) => v | none => []) = h.get n'
    rw [mapFind_erase_other _ n n' hn]; rfl
  · have e : h.set n v = { h with map := mapSet n v h.map } := by unfold Headers.set; rw [if_neg hv]
    rw [e]
    show (match mapFind n' (mapSet n v h.map) with | some (_, v) => v | none => []) = h.get n'
    rw [mapFind_set_other _ n v n' hn]; rfl

/-- **case-insensitive uniqueness**: no two map entries have the same name up to case -/
theorem Sorted.unique : ∀ (m : List (Bytes × Bytes)), Sorted m → ∀ n, (m.filter fun e => ieq e.1 n).length ≤ 1 := by
  intro m
  induction m with
  | nil => intro _ _; simp
  | cons e rest ih =>
    intro hs n
    obtain ⟨k, x⟩ := e
    by_cases h1 : ieq k n = true
    · -- no later key can match
      have hnone : rest.filter (fun e => ieq e.1 n) = [] := by
        rw [List.filter_eq_nil_iff]
        intro e he
        have hl := hs.1 e he
        have h3 := ieq_false_of_iless hl
        intro hh
        have := ieq_trans h1 (ieq_symm hh)
        rw [this] at h3; cases h3
      simp [List.filter_cons, h1, hnone]
    · simp only [List.filter_cons, h1, Bool.false_eq_true, if_false]
      exact ih hs.2 n

/-- what the application does to the header set -/
inductive HOp where
  | set (n v : Bytes)      -- `set_header`, and the typed setters built on it (`status`, `content_length`, `content_encoding`, …)
  | add (n v : Bytes)      -- `add_header(name, value)`
  | addRaw (l : Bytes)     -- `add_header(std::string&&)`: `set_cookie`
  deriving Repr, DecidableEq

def Headers.apply (h : Headers) : HOp → Headers
  | .set n v => h.set n v
  | .add n v => h.add n v
  | .addRaw l => h.addRaw l

def isSpecialName (n : Bytes) : Bool := (Gen.addHeaderAsSet.map b).any (ieq n)

/-- the map assignment an operation amounts to, if any (`add_header("Status"/"Content-Length", …)` is a `set_header`) -/
def HOp.sets : HOp → Option (Bytes × Bytes)
  | .set n v => some (n, v)
  | .add n v => if isSpecialName n then some (n, v) else none
  | .addRaw _ => none

/-- the line an operation appends to `added_headers_`, if any -/
def HOp.adds : HOp → Option Bytes
  | .set _ _ => none
  | .add n v => if isSpecialName n then none else some (n ++ b Gen.headerSep ++ v)
  | .addRaw l => some l

theorem Headers.apply_ok (h : Headers) (op : HOp) (ok : h.Ok) : (h.apply op).Ok := by
  cases op with
  | set n v => exact Headers.set_ok h n v ok
  | add n v => exact Headers.add_ok h n v ok
  | addRaw l => exact ok

theorem Headers.apply_get (h : Headers) (op : HOp) (n : Bytes) (ok : h.Ok) :
    (h.apply op).get n = match op.sets with
      | some (m, v) => if ieq m n then v else h.get n
      | none => h.get n := by
  cases op with
  | set m v =>
    simp only [Headers.apply, HOp.sets]
    by_cases hm : ieq m n = true
    · simp only [hm, if_true]; exact Headers.get_set_same h m n v ok hm
    · simp only [hm, Bool.false_eq_true, if_false]; exact Headers.get_set_other h m n v (by simpa using hm)
  | add m v =>
    simp only [Headers.apply, HOp.sets, Headers.add, isSpecialName]
    by_cases hs : ((Gen.addHeaderAsSet.map b).any (ieq m)) = true
    · simp only [hs, if_true]
      by_cases hm : ieq m n = true
      · simp only [hm, if_true]; exact Headers.get_set_same h m n v ok hm
      · simp only [hm, Bool.false_eq_true, if_false]; exact Headers.get_set_other h m n v (by simpa using hm)
    · simp only [hs, Bool.false_eq_true, if_false]; rfl
  | addRaw l => rfl

theorem Headers.set_added (h : Headers) (n v : Bytes) : (h.set n v).added = h.added := by
  unfold Headers.set; split <;> rfl

theorem Headers.apply_added (h : Headers) (op : HOp) : (h.apply op).added = h.added ++ op.adds.toList := by
  cases op with
  | set n v =>
    simp only [Headers.apply, HOp.adds, Option.toList_none, List.append_nil, Headers.set_added]
  | add n v =>
    by_cases hs : ((Gen.addHeaderAsSet.map b).any (ieq n)) = true
    · simp only [Headers.apply, HOp.adds, Headers.add, isSpecialName, hs, if_true, Option.toList_none, List.append_nil,
        Headers.set_added]
    · simp only [Headers.apply, HOp.adds, Headers.add, isSpecialName, hs, Bool.false_eq_true, if_false, Option.toList_some]
  | addRaw l => rfl

/-- the value the last assignment to (any spelling of) `n` left -/
def lastValue (n : Bytes) (init : Bytes) (ops : List HOp) : Bytes :=
  ops.foldl (fun acc op => match op.sets with
    | some (m, v) => if ieq m n then v else acc
    | none => acc) init

theorem Headers.run_spec : ∀ (ops : List HOp) (h : Headers), h.Ok →
    (ops.foldl Headers.apply h).Ok ∧
    (∀ n, (ops.foldl Headers.apply h).get n = lastValue n (h.get n) ops) ∧
    (ops.foldl Headers.apply h).added = h.added ++ (ops.filterMap HOp.adds) := by
  intro ops
  induction ops with
  | nil => intro h ok; exact ⟨ok, fun _ => rfl, by simp⟩
  | cons op ops ih =>
    intro h ok
    have ok1 := Headers.apply_ok h op ok
    have ⟨i1, i2, i3⟩ := ih (h.apply op) ok1
    refine ⟨i1, fun n => ?_, ?_⟩
    · simp only [List.foldl_cons, lastValue]
      rw [i2 n, Headers.apply_get h op n ok]
      rfl
    · simp only [List.foldl_cons, List.filterMap_cons]
      rw [i3, Headers.apply_added]
      cases op.adds <;> simp

end Cppcms.C03
