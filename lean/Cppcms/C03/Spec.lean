import Cppcms.Common
/-!
# C03 specification side: independent de-framers and payload definitions

Nothing here imports the model or the generated constants: the grammars are written from
RFC 7230 (section 3, 4.1) and the FastCGI 1.0 specification (section 3.3, 5.5, 5.6).
They are used (a) in the theorems of `Props.lean` as the meaning of "correctly framed" and
(b) by the driver's `J` lines on the wire bytes captured from the real server.
-/
namespace Cppcms.C03.Spec
open Cppcms

def CR : UInt8 := 13
def LF : UInt8 := 10

/-! ## generic helpers -/

def hexVal (c : UInt8) : Option Nat :=
  if 48 ≤ c ∧ c ≤ 57 then some (c.toNat - 48)
  else if 97 ≤ c ∧ c ≤ 102 then some (c.toNat - 87)
  else if 65 ≤ c ∧ c ≤ 70 then some (c.toNat - 55)
  else none

/-- `1*HEXDIG` -/
def parseHexAcc : Bytes → Nat → Option Nat
  | [], acc => some acc
  | c :: cs, acc => match hexVal c with
    | some v => parseHexAcc cs (acc * 16 + v)
    | none => none

def parseHexNum (s : Bytes) : Option Nat := if s.isEmpty then none else parseHexAcc s 0

def parseDecAcc : Bytes → Nat → Option Nat
  | [], acc => some acc
  | c :: cs, acc => if 48 ≤ c ∧ c ≤ 57 then parseDecAcc cs (acc * 10 + (c.toNat - 48)) else none

/-- `1*DIGIT` -/
def parseDecNum (s : Bytes) : Option Nat := if s.isEmpty then none else parseDecAcc s 0

/-- split at the first CRLF: (line, rest after the CRLF) -/
def splitLineAux : Bytes → List UInt8 → Option (Bytes × Bytes)
  | [], _ => none
  | [_], _ => none
  | a :: b :: rest, acc =>
    if a = 13 ∧ b = 10 then some (acc.reverse, rest) else splitLineAux (b :: rest) (a :: acc)

def splitLine (s : Bytes) : Option (Bytes × Bytes) := splitLineAux s []

/-! ## RFC 7230 4.1 chunked transfer coding

    chunked-body = *chunk last-chunk trailer-part CRLF
    chunk        = chunk-size [ chunk-ext ] CRLF chunk-data CRLF
    last-chunk   = 1*("0") [ chunk-ext ] CRLF

The server never produces chunk extensions or trailers, so the decoder rejects them: a
response using them would not be "exactly the bytes the application wrote" for a minimal client. -/
def deChunkedAux : Nat → Bytes → List Bytes → Option (Bytes × Bytes)
  | 0, _, _ => none
  | fuel + 1, s, acc =>
    match splitLine s with
    | none => none
    | some (sizeLine, rest) =>
      match parseHexNum sizeLine with
      | none => none
      | some 0 =>
        match rest with
        | 13 :: 10 :: r => some (acc.reverse.flatten, r)
        | _ => none
      | some (n + 1) =>
        let data := rest.take (n + 1)
        let after := rest.drop (n + 1)
        if data.length = n + 1 ∧ after.take 2 = [13, 10] then
          deChunkedAux fuel (after.drop 2) (data :: acc)
        else none

/-- decoded body and whatever follows the terminating CRLF -/
def deChunked (s : Bytes) : Option (Bytes × Bytes) := deChunkedAux (s.length + 1) s []

/-! ## header block -/

/-- does `s` start with CRLFCRLF -/
def startsCRLFCRLF (s : Bytes) : Bool := s.take 4 == [13, 10, 13, 10]

/-- split at the first CRLFCRLF: (block including the terminator, rest) -/
def splitHeadAux : Bytes → List UInt8 → Option (Bytes × Bytes)
  | [], _ => none
  | c :: rest, acc =>
    if startsCRLFCRLF (c :: rest) then some (acc.reverse ++ [13, 10, 13, 10], rest.drop 3)
    else splitHeadAux rest (c :: acc)

def splitHead (s : Bytes) : Option (Bytes × Bytes) := splitHeadAux s []

/-- all lines of a block that ends in CRLF (the final empty line of a header block included) -/
def linesAux : Nat → Bytes → List Bytes → List Bytes
  | 0, _, acc => acc.reverse
  | fuel + 1, s, acc =>
    match splitLine s with
    | none => (if s.isEmpty then acc else s :: acc).reverse
    | some (l, rest) => linesAux fuel rest (l :: acc)

def lines (s : Bytes) : List Bytes := linesAux (s.length + 1) s []

def lowerByte (c : UInt8) : UInt8 := if 65 ≤ c ∧ c ≤ 90 then c + 32 else c
def lower (s : Bytes) : Bytes := s.map lowerByte

def isWs (c : UInt8) : Bool := c = 32 || c = 9

/-- `field-name ":" OWS field-value` → (lower-cased name, value without leading white space) -/
def parseField (line : Bytes) : Option (Bytes × Bytes) :=
  let name := line.takeWhile (· ≠ 58)
  let rest := line.dropWhile (· ≠ 58)
  match rest with
  | [] => none
  | _ :: v => some (lower name, v.dropWhile isWs)

def fieldValues (name : Bytes) (ls : List Bytes) : List Bytes :=
  ls.filterMap fun l => match parseField l with
    | some (n, v) => if n = name then some v else none
    | none => none

def sTransferEncoding : Bytes := [116,114,97,110,115,102,101,114,45,101,110,99,111,100,105,110,103]
def sContentLength : Bytes := [99,111,110,116,101,110,116,45,108,101,110,103,116,104]
def sContentEncoding : Bytes := [99,111,110,116,101,110,116,45,101,110,99,111,100,105,110,103]
def sChunked : Bytes := [99,104,117,110,107,101,100]
def sHttpSlash : Bytes := [72,84,84,80,47]
def sHttp11 : Bytes := [72,84,84,80,47,49,46,49]

inductive HttpFraming where
  | chunked | length (n : Nat) | untilClose
  deriving Repr, DecidableEq

/-- RFC 7230 3.3.3 on the values of the Transfer-Encoding and Content-Length fields of a response -/
def framingOf (te cl : List Bytes) : Option HttpFraming :=
  match te, cl with
  | [v], [] => if lower v = sChunked then some .chunked else none
  | [], [v] => (parseDecNum v).map .length
  | [], [] => some .untilClose
  | _, _ => none

/-- how is the body of this response delimited -/
def httpFraming (head : Bytes) : Option HttpFraming :=
  let ls := (lines head).drop 1     -- skip the status line
  framingOf (fieldValues sTransferEncoding ls) (fieldValues sContentLength ls)

/-- the body under a given framing; nothing may follow a delimited body -/
def deBody (fr : Option HttpFraming) (head rest : Bytes) : Option (Bytes × Bytes) :=
  match fr with
  | none => none
  | some .chunked => match deChunked rest with
    | some (body, []) => some (head, body)
    | _ => none
  | some (.length n) => if rest.length = n then some (head, rest) else none
  | some .untilClose => some (head, rest)

/-- an HTTP/1.x response as the client sees it when the server closes after it:
(head including the blank line, decoded body). -/
def deHttp (wire : Bytes) : Option (Bytes × Bytes) :=
  match splitHead wire with
  | none => none
  | some (head, rest) =>
    if head.take 5 ≠ sHttpSlash then none
    -- the chunked coding does not exist in HTTP/1.0: such a client would take the chunk framing for body bytes
    else if httpFraming head = some .chunked ∧ head.take 8 ≠ sHttp11 then none
    else deBody (httpFraming head) head rest

/-! ## FastCGI records (spec 3.3)

    version(1) type(1) requestId(2, big endian) contentLength(2, big endian) paddingLength(1) reserved(1)
    contentData[contentLength] paddingData[paddingLength] -/
structure Record where
  type : Nat
  requestId : Nat
  content : Bytes
  padding : Nat
  deriving Repr, DecidableEq

def deRecordsAux : Nat → Bytes → List Record → Option (List Record)
  | 0, _, _ => none
  | fuel + 1, s, acc =>
    match s with
    | [] => some acc.reverse
    | v :: t :: i1 :: i0 :: l1 :: l0 :: p :: _r :: rest =>
      let n := l1.toNat * 256 + l0.toNat
      let content := rest.take n
      let after := rest.drop n
      let padding := after.take p.toNat
      if v = 1 ∧ content.length = n ∧ padding.length = p.toNat then
        deRecordsAux fuel (after.drop p.toNat) ({ type := t.toNat, requestId := i1.toNat * 256 + i0.toNat, content, padding := p.toNat } :: acc)
      else none
    | _ => none

def deRecords (s : Bytes) : Option (List Record) := deRecordsAux (s.length + 1) s []

def FCGI_END_REQUEST : Nat := 3
def FCGI_STDOUT : Nat := 6

/-- a responder's answer to request `rid` (spec 6.2): FCGI_STDOUT stream records, closed by an empty
FCGI_STDOUT record, then one FCGI_END_REQUEST (appStatus 0, FCGI_REQUEST_COMPLETE), nothing after.
Returns the STDOUT stream. -/
def fcgiStdoutStream (rid : Nat) : List Record → Option Bytes
  | [] => none
  | [_] => none
  | [a, e] =>
    if a.type = FCGI_STDOUT ∧ a.requestId = rid ∧ a.content = [] ∧
       e.type = FCGI_END_REQUEST ∧ e.requestId = rid ∧ e.content = [0,0,0,0,0,0,0,0] then some [] else none
  | r :: rest =>
    if r.type = FCGI_STDOUT ∧ r.requestId = rid ∧ r.content ≠ [] then
      (fcgiStdoutStream rid rest).map (r.content ++ ·)
    else none

/-- CGI response inside the STDOUT stream: (header block including the blank line, body) -/
def deFcgi (rid : Nat) (wire : Bytes) : Option (Bytes × Bytes) :=
  match deRecords wire with
  | none => none
  | some recs => match fcgiStdoutStream rid recs with
    | none => none
    | some s => splitHead s

/-- SCGI / CGI: the response is the CGI document itself, the connection is closed after it -/
def deScgi (wire : Bytes) : Option (Bytes × Bytes) := splitHead wire

/-! ## the stand-in deflater of the harness (`zstub`): 'D' len(4, big endian) bytes | 'S' | 'E' -/
def deStubAux : Nat → Bytes → List Bytes → Nat → Option (Bytes × Nat)
  | 0, _, _, _ => none
  | fuel + 1, s, acc, fin =>
    match s with
    | [] => some (acc.reverse.flatten, fin)
    | 83 :: rest => if fin = 0 then deStubAux fuel rest acc fin else none
    | 69 :: rest => deStubAux fuel rest acc (fin + 1)
    | 68 :: a :: b :: c :: d :: rest =>
      let n := ((a.toNat * 256 + b.toNat) * 256 + c.toNat) * 256 + d.toNat
      let data := rest.take n
      if fin = 0 ∧ data.length = n then deStubAux fuel (rest.drop n) (data :: acc) fin else none
    | _ => none

/-- payload of a stub-deflated stream; it must be finished exactly once, at the end -/
def deStub (s : Bytes) : Option Bytes :=
  match deStubAux (s.length + 1) s [] 0 with
  | some (p, 1) => if s.getLast? = some 69 then some p else none
  | _ => none

end Cppcms.C03.Spec
