import Cppcms.Common
import Cppcms.C03.Response
import Cppcms.C03.WireModel
/-!
# C03 model, part 4: one response end to end

Stage 1 (`Response.lean`): the application's script runs on the response object and yields the trace
of what the response does to its connection.  Stage 2 (`WireModel.lean`): the trace is replayed on
the connection under the socket schedule.  `runCase` is what the check compares, byte for byte, with
the real server, and what `Props.response_wire_eq` is about.
-/
namespace Cppcms.C03
open Cppcms

structure CaseResult (D : Deflater) where
  run : Run D
  wire : Wire

/-- one request: the run of the script and the connection afterwards -/
def runCaseWith (D : Deflater) (cfg : Config) (cache : PageCache) (cs : Case) : CaseResult D :=
  let run := runScript D cfg cache cs.mode cs.gz cs.script
  { run, wire := (Wire.init cs.proto cs.sched).replay (!cs.mode.isAsync) run.resp.trace }

/-- with the stand-in deflater of the harness -/
def runCase (cfg : Config) (cache : PageCache) (cs : Case) : CaseResult stubDeflater := runCaseWith stubDeflater cfg cache cs

end Cppcms.C03
