import Cppcms.Common
import Cppcms.C03.Gen
import Cppcms.C03.ConnWrite
import Cppcms.C03.Framing
import Cppcms.C03.Buffers
import Cppcms.C03.Script
/-!
# C03 model, part 4: one response end to end

`http::response` (`out()`, `setbuf`, `finalize`, header setters, `copy_to_cache`), the two ways
a context completes a response (`complete_response`, `async_complete_response` +
`connection::async_write_response`) and `cache_interface::fetch_page/store_page`, composed from
the stream buffers (`Buffers.lean`), the protocol framing (`Framing.lean`) and the connection
write path (`ConnWrite.lean`) under a socket schedule.
-/
namespace Cppcms.C03
open Cppcms

/-! ## the connection as the device sees it -/

/-- connection-side state: framing state of the protocol in use, write-path state, socket schedule -/
structure Wire where
  proto : Proto
  http : HttpSt := { isHttp11 := false, clientKeepAlive := false }
  fcgi : FcgiSt := { reqId := 1 }
  scgi : ScgiSt := {}
  conn : Conn := {}
  sched : List SchedItem := []
  /-- `format_output` raised `protocol_violation` (more body than the announced Content-Length) -/
  violated : Bool := false
  /-- ghost: every `(bytes, eof)` the device handed to `write`/`nonblocking_write` -/
  calls : List (Bytes × Bool) := []
  deriving Inhabited

/-- `format_output` of the protocol in use -/
def Wire.format (w : Wire) (inp : Bytes) (eof : Bool) : Wire × Bytes × Bool :=
  match w.proto with
  | .scgi => let r := scgiFormat w.scgi inp; ({ w with scgi := r.1 }, r.2, false)
  | .fcgi => let r := fcgiFormat w.fcgi inp eof; ({ w with fcgi := r.1 }, r.2, false)
  | .http _ _ => let r := httpFormat w.http inp eof; ({ w with http := r.1 }, r.2.1, r.2.2)

/-- `set_response_headers` of the protocol in use (`service.generate_http_headers` is off) -/
def Wire.setHeaders (w : Wire) (h : Headers) : Wire :=
  match w.proto with
  | .scgi => { w with scgi := { headers := xcgiHeaders false h, headersWritten := false } }
  | .fcgi => { w with fcgi := { w.fcgi with responseHeaders := xcgiHeaders false h, headersWritten := false } }
  | .http _ _ => { w with http := w.http.setHeaders h }

/-- next answer of the socket for a `write_some` offering `total > 0` bytes.  On a blocking socket
`w` cannot happen (the harness turns it into a one-byte accept). -/
def nextAns (sched : List SchedItem) (total : Nat) (blocking : Bool) : Ans × List SchedItem :=
  match sched with
  | [] => (.accept total, [])
  | .accept k :: rest => (.accept (if k = 0 then 1 else k), rest)
  | .wouldBlock :: rest => (if blocking then .accept 1 else .wouldBlock, rest)
  | .full :: rest => (.accept total, rest)

/-- the schedule as the list of answers a blocking `write` will see -/
def blockingAnswers (sched : List SchedItem) (total : Nat) : List Ans :=
  sched.map fun
    | .accept k => .accept (if k = 0 then 1 else k)
    | .wouldBlock => .accept 1
    | .full => .accept total

/-- `output_device::do_write` = `connection::write` -/
def Wire.sendBlocking (w : Wire) (inp : Bytes) (eof : Bool) : Wire × Bool :=
  let w := { w with calls := w.calls ++ [(inp, eof)] }
  let (w, data, viol) := w.format inp eof
  if viol then ({ w with violated := true }, false)
  else
    let total := (w.conn.pending ++ data).length
    let r := blockingWrite w.conn data (blockingAnswers w.sched total)
    -- schedule items consumed = answers consumed
    let used := w.sched.length - r.2.2.length
    ({ w with conn := r.1, sched := w.sched.drop used }, r.2.1)

/-- `async_io_buf::do_write` = `connection::nonblocking_write` -/
def Wire.sendNonblocking (w : Wire) (inp : Bytes) (eof : Bool) : Wire × Bool :=
  let w := { w with calls := w.calls ++ [(inp, eof)] }
  let (w, data, viol) := w.format inp eof
  if viol then ({ w with violated := true }, false)
  else if nbWriteAsks w.conn data then
    let (a, rest) := nextAns w.sched (w.conn.pending ++ data).length false
    let r := nbWrite w.conn data a
    ({ w with conn := r.1, sched := rest }, r.2 != .failed)
  else ({ w with conn := (nbWrite w.conn data (.accept 0)).1 }, true)

def blockingIf : ConnIf Wire := { send := Wire.sendBlocking, setHeaders := Wire.setHeaders }
def nonblockingIf : ConnIf Wire := { send := Wire.sendNonblocking, setHeaders := Wire.setHeaders }

/-- the event loop serving an armed `async_write_handler` until it completes -/
def Wire.drain : Nat → Wire → Wire
  | 0, w => w
  | fuel + 1, w =>
    match w.conn.inflight with
    | none => w
    | some out =>
      let (a, rest) := nextAns w.sched out.length false
      let r := asyncStep w.conn a
      Wire.drain fuel { w with conn := r.1, sched := rest }

/-- `connection::async_write(empty, false, h)` followed by the event loop until `h` runs -/
def Wire.asyncWriteEmpty (w : Wire) : Wire :=
  let (w, data, viol) := w.format [] false
  if viol then { w with violated := true }
  else
    let asks := nbWriteAsks w.conn data
    let (a, rest) := if asks then nextAns w.sched (w.conn.pending ++ data).length false else (.accept 0, w.sched)
    let r := asyncWrite w.conn data a
    let w := { w with conn := r.1, sched := rest }
    -- every would-block costs one schedule item; afterwards the kernel takes what is offered
    Wire.drain (w.sched.length + (w.conn.inflight.getD []).length + 2) w

/-! ## the response object -/

/-- the stand-in deflater of the harness (`zstub` cases): 'D' len(4) bytes for each feed with input,
'S' for Z_SYNC_FLUSH, 'E' for Z_FINISH -/
def stubDeflater : Deflater where
  σ := Unit
  init := ()
  feed := fun _ input fl =>
    let n := input.length
    let d : Bytes := if n = 0 then [] else
      [68, UInt8.ofNat (n / 16777216), UInt8.ofNat (n / 65536 % 256), UInt8.ofNat (n / 256 % 256), UInt8.ofNat (n % 256)] ++ input
    ((), d ++ (match fl with | .noFlush => [] | .syncFlush => [83] | .finish => [69]))

structure Config where
  outputBuffer : Nat := Gen.defaultOutputBuffer
  asyncOutputBuffer : Nat := Gen.defaultAsyncOutputBuffer
  gzipBuffer : Int := -1
  gzipEnable : Bool := true
  deriving Repr, Inhabited

structure Resp where
  cfg : Config
  mode : Mode
  /-- request carried `Accept-Encoding: gzip` -/
  acceptGzip : Bool
  headers : Headers
  requiredBufferSize : Int := -1
  ostreamRequested : Bool := false
  copyToCache : Bool := false
  finalized : Bool := false
  /-- `cache_interface::page_compression_used_` -/
  pageCompressionUsed : Bool := false
  gz : Option (Gz stubDeflater) := none
  copy : Option Copy := none
  dev : Dev := {}
  /-- `d->buffered.full_buffering_` before the stream exists -/
  asyncFullBuffering : Bool := true
  wire : Wire

def sContentType : Bytes := b [67,111,110,116,101,110,116,45,84,121,112,101]
def sContentEncoding : Bytes := b [67,111,110,116,101,110,116,45,69,110,99,111,100,105,110,103]
def sContentLengthName : Bytes := b [67,111,110,116,101,110,116,45,76,101,110,103,116,104]
def sStatus : Bytes := b [83,116,97,116,117,115]
def sTextHtml : Bytes := b [116,101,120,116,47,104,116,109,108]
def sTextSlash : Bytes := b [116,101,120,116,47]
def sGzip : Bytes := b [103,122,105,112]

/-- `response::response`: Content-Type set (charset suppressed, X-Powered-By disabled in the harness configuration) -/
def Resp.new (cfg : Config) (cs : Case) : Resp :=
  let (v11, ka) := match cs.proto with | .http a c => (a, c) | _ => (false, false)
  { cfg, mode := cs.mode, acceptGzip := cs.gz,
    headers := ({} : Headers).set sContentType sTextHtml,
    wire := { proto := cs.proto, http := { isHttp11 := v11, clientKeepAlive := ka }, sched := cs.sched } }

def Resp.connIf (r : Resp) : ConnIf Wire := if r.mode.isAsync then nonblockingIf else blockingIf

/-- `response::need_gzip` -/
def Resp.needGzip (r : Resp) : Bool :=
  r.mode == .normal && r.cfg.gzipEnable && r.acceptGzip && (r.headers.get sContentEncoding).isEmpty &&
    (r.headers.get sContentType).take 5 == sTextSlash

/-- push actions of `copy_buf` into the device -/
def Resp.intoDev (r : Resp) (acts : List Act) : Resp :=
  let x := r.dev.apply r.connIf r.wire acts
  { r with dev := x.1, wire := x.2 }

/-- push actions of `gzip_buf` into whatever is below it -/
def Resp.belowGz (r : Resp) : List Act → Resp
  | [] => r
  | a :: rest =>
    match r.copy with
    | none => (r.intoDev [a]).belowGz rest
    | some k =>
      let x := match a with
        | .put bs => k.xsputn bs
        | .sync => k.sync
      ({ r with copy := some x.1 }.intoDev x.2).belowGz rest

/-- `response::out()` on first use -/
def Resp.requestStream (r : Resp) : Resp :=
  if r.ostreamRequested then r
  else
    let async := r.mode.isAsync
    let dflt := if async then r.cfg.asyncOutputBuffer else r.cfg.outputBuffer
    let bsize := if r.requiredBufferSize = -1 then dflt else r.requiredBufferSize.toNat
    let dev : Dev := ({ isAsync := async, fullBuffering := if async then r.asyncFullBuffering else true,
                        rawMode := r.mode.isRaw } : Dev).open bsize
    let r := { r with dev, ostreamRequested := true }
    let gzip := r.needGzip
    let r := if gzip then { r with headers := r.headers.set sContentEncoding sGzip } else r
    let r := if r.mode.isRaw then r else { r with wire := r.wire.setHeaders r.headers }
    let r := if r.copyToCache then { r with copy := some {} } else r
    if gzip then { r with gz := some (Gz.open stubDeflater r.cfg.gzipBuffer) } else r

/-- `std::ostream::write` on `out()` -/
def Resp.write (r : Resp) (s : Bytes) : Resp :=
  let r := r.requestStream
  match r.gz with
  | some g => let x := g.xsputn s; { r with gz := some x.1 }.belowGz x.2
  | none =>
    match r.copy with
    | some k => let x := k.xsputn s; { r with copy := some x.1 }.intoDev x.2
    | none => let x := r.dev.xsputn r.connIf r.wire s; { r with dev := x.1, wire := x.2 }

/-- `std::ostream::put` on `out()` -/
def Resp.putc (r : Resp) (c : UInt8) : Resp :=
  let r := r.requestStream
  match r.gz with
  | some g => let x := g.sputc c; { r with gz := some x.1 }.belowGz x.2
  | none =>
    match r.copy with
    | some k => let x := k.sputc c; { r with copy := some x.1 }.intoDev x.2
    | none => let x := r.dev.sputc r.connIf r.wire c; { r with dev := x.1, wire := x.2 }

/-- `std::ostream::flush` on `out()` (`pubsync`) -/
def Resp.sync (r : Resp) : Resp :=
  let r := r.requestStream
  match r.gz with
  | some g => let x := g.sync; { r with gz := some x.1 }.belowGz x.2
  | none =>
    match r.copy with
    | some k => let x := k.sync; { r with copy := some x.1 }.intoDev x.2
    | none => let x := r.dev.sync r.connIf r.wire; { r with dev := x.1, wire := x.2 }

/-- `response::setbuf` -/
def Resp.setbuf (r : Resp) (n : Int) : Resp :=
  let n := if n < 0 then -1 else n
  let r := { r with requiredBufferSize := n }
  if r.ostreamRequested then
    let size := if n < 0 then (if r.mode.isAsync then r.cfg.asyncOutputBuffer else r.cfg.outputBuffer) else n.toNat
    let x := r.dev.setbuf r.connIf r.wire size
    { r with dev := x.1, wire := x.2 }
  else r

/-- `response::full_asynchronous_buffering(v)`: acts on `d->buffered`, which is the device in use only in the asynchronous modes -/
def Resp.setFullBuffering (r : Resp) (v : Bool) : Resp :=
  if r.mode.isAsync && r.ostreamRequested then
    let x := r.dev.setFullBuffering r.connIf r.wire v
    { r with dev := x.1, wire := x.2, asyncFullBuffering := v }
  else { r with asyncFullBuffering := v }

/-- `response::finalize`: `out()`, then `close()` on every buffer from the top down -/
def Resp.finalize (r : Resp) : Resp :=
  if r.finalized then r
  else
    let r := r.requestStream
    let r := match r.gz with
      | some g => let x := g.close; { r with gz := some x.1 }.belowGz x.2
      | none => r
    let r := match r.copy with
      | some k => let x := k.close; { r with copy := some x.1 }.intoDev x.2
      | none => r
    let x := r.dev.close r.connIf r.wire
    { r with dev := x.1, wire := x.2, finalized := true }

/-- `connection::async_write_response`: `flush_async_chunk`, then `async_write` if data is pending
(the application continues only from the completion handler, so the model runs the event loop to completion) -/
def Resp.asyncWriteResponse (r : Resp) : Resp :=
  let x := r.dev.flush r.connIf r.wire
  let r := { r with dev := x.1, wire := x.2.1 }
  if !x.2.2 || r.wire.conn.pending.isEmpty then r
  else { r with wire := r.wire.asyncWriteEmpty }

/-- `context::async_flush_output`.  Before `out()` was ever called the device has no connection yet
(`conn_.lock()` fails, `flush_async_chunk` returns -1) and the handler is posted at once: nothing is sent. -/
def Resp.asyncFlush (r : Resp) : Resp := if r.ostreamRequested then r.asyncWriteResponse else r

/-- what `http::context` does when the application is done -/
def Resp.complete (r : Resp) : Resp :=
  let r := r.finalize
  if r.mode.isAsync then r.asyncWriteResponse else r

def decOf (n : Nat) : Bytes := decDigits n

def statusText (code : Nat) : Bytes :=
  match Gen.statusTable.find? (·.1 = code) with
  | some (_, t) => b t
  | none => b Gen.statusUnknown

/-- page cache as seen through `cache_interface` (keys are never evicted in the harness configuration) -/
abbrev PageCache := List (String × Bytes)

def PageCache.fetch (c : PageCache) (key : String) : Option Bytes := (c.find? (·.1 == key)).map (·.2)
def PageCache.store (c : PageCache) (key : String) (v : Bytes) : PageCache := (key, v) :: c.filter (·.1 != key)

structure Run where
  resp : Resp
  cache : PageCache
  /-- page read back through `cache_interface` right after `store_page` -/
  cacheCopy : Option Bytes := none
  /-- `fetch_page` hit: the application returns -/
  stopped : Bool := false

def putAll (r : Resp) : Bytes → Resp
  | [] => r
  | c :: cs => putAll (r.putc c) cs

def Run.step (x : Run) (op : Op) : Run :=
  if x.stopped then x else
  let r := x.resp
  match op with
  | .write n seed => { x with resp := r.write (genBytes seed n) }
  | .lit bs => { x with resp := r.write bs }
  | .putc n seed => { x with resp := putAll r.requestStream (genBytes seed n) }
  | .out => { x with resp := r.requestStream }
  | .flush => { x with resp := if r.mode.isAsync then r.asyncFlush else r.sync }
  | .setbuf n => { x with resp := r.setbuf n }
  | .fullBuf v => { x with resp := r.setFullBuffering v }
  | .setHeader n v => { x with resp := { r with headers := r.headers.set n v } }
  | .addHeader n v => { x with resp := { r with headers := r.headers.add n v } }
  | .cookie n v => { x with resp := { r with headers := r.headers.addRaw (b Gen.cookiePrefix ++ n ++ [61] ++ v ++ b Gen.cookieSuffix) } }
  | .contentLength n => { x with resp := { r with headers := r.headers.set sContentLengthName (decOf n) } }
  | .status n => { x with resp := { r with headers := r.headers.set sStatus (decOf n ++ [32] ++ statusText n) } }
  | .fetchPage key =>
    let gzip := r.needGzip
    let r := { r with pageCompressionUsed := gzip }
    match x.cache.fetch ((if gzip then "_Z:" else "_U:") ++ key) with
    | some page =>
      let r := if gzip then { r with headers := r.headers.set sContentEncoding sGzip } else r
      { x with resp := r.write page, stopped := true }
    | none => { x with resp := { r with copyToCache := true } }
  | .storePage key =>
    let r := r.finalize
    let rkey := (if r.pageCompressionUsed then "_Z:" else "_U:") ++ key
    let data : Bytes := if !r.copyToCache || !r.ostreamRequested then [] else
      match r.copy with
      | some k => k.getstr.1
      | none => []
    let r := match r.copy with
      | some k => { r with copy := some k.getstr.2 }
      | none => r
    let cache := x.cache.store rkey data
    { x with resp := r, cache, cacheCopy := cache.fetch rkey }

/-- one request: returns the run after the context completed the response -/
def runCase (cfg : Config) (cache : PageCache) (cs : Case) : Run :=
  let x := cs.script.foldl Run.step { resp := Resp.new cfg cs, cache }
  { x with resp := x.resp.complete }

end Cppcms.C03
