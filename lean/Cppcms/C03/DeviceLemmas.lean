import Cppcms.C03.BuffersLemmas
/-! The devices (`output_device`, `async_io_buf`), in every io mode including the raw ones, over a
connection that accepts every write. -/
namespace Cppcms.C03
open Cppcms

/-! ### the raw-mode header parser -/

/-- what `cgi_headers_parser::consume` leaves unconsumed / the parser afterwards -/
def rawPassed (p : RawParser) (s : Bytes) : Bytes := (p.consume s).2.1
def rawNext (p : RawParser) (s : Bytes) : RawParser := (p.consume s).1

theorem consume_done (p : RawParser) (h : p.done = true) (s : Bytes) : p.consume s = (p, s, none) := by
  cases s with
  | nil => simp [RawParser.consume]
  | cons c rest => simp [RawParser.consume, h]

/-- the parser is insensitive to how its input is cut into pieces -/
theorem consume_append : ∀ (a : Bytes) (p : RawParser) (b2 : Bytes),
    rawNext p (a ++ b2) = rawNext (rawNext p a) b2 ∧ rawPassed p (a ++ b2) = rawPassed p a ++ rawPassed (rawNext p a) b2 := by
  intro a
  induction a with
  | nil => intro p b2; simp [rawNext, rawPassed, RawParser.consume]
  | cons c a ih =>
    intro p b2
    by_cases hd : p.done = true
    · have h1 := consume_done p hd (c :: a ++ b2)
      have h2 := consume_done p hd (c :: a)
      have h3 := consume_done p hd b2
      simp only [List.cons_append] at h1
      simp [rawNext, rawPassed, h1, h2, h3]
    · simp only [Bool.not_eq_true] at hd
      unfold rawNext rawPassed at *
      simp only [List.cons_append, RawParser.consume, hd, Bool.false_eq_true, if_false]
      by_cases hc : c = 10 ∧ p.hrev.head? = some 13
      · simp only [hc, and_self, if_true]
        by_cases ht : p.hrev.tail.isEmpty = true
        · simp only [ht, if_true]
          have hdone : ({ p with hrev := 10 :: p.hrev, done := true } : RawParser).done = true := rfl
          have := consume_done _ hdone b2
          simp [this]
        · simp only [ht, Bool.false_eq_true, if_false]
          exact ih _ b2
      · simp only [hc, if_false]
        exact ih _ b2

/-- while the header block is incomplete nothing is passed on -/
theorem consume_not_done : ∀ (s : Bytes) (p : RawParser), (p.consume s).1.done = false → (p.consume s).2.1 = [] := by
  intro s
  induction s with
  | nil => intro p _; simp [RawParser.consume]
  | cons c s ih =>
    intro p h
    by_cases hd : p.done = true
    · rw [consume_done p hd] at h
      simp only at h
      rw [hd] at h; cases h
    · simp only [Bool.not_eq_true] at hd
      simp only [RawParser.consume, hd, Bool.false_eq_true, if_false] at h ⊢
      by_cases hc : c = 10 ∧ p.hrev.head? = some 13
      · simp only [hc, and_self, if_true] at h ⊢
        by_cases ht : p.hrev.tail.isEmpty = true
        · simp only [ht, if_true] at h; cases h
        · simp only [ht, Bool.false_eq_true, if_false] at h ⊢
          exact ih _ h
      · simp only [hc, if_false] at h ⊢
        exact ih _ h

/-- one complete header line (no CR inside, not empty) is parsed and handed to `add_header` -/
theorem consume_line : ∀ (l : Bytes) (p : RawParser) (rest : Bytes), p.done = false → (∀ c ∈ l, c ≠ 13) → (∀ c ∈ p.hrev, c ≠ 13) →
    l ++ p.hrev ≠ [] →
    p.consume (l ++ 13 :: 10 :: rest) = RawParser.consume { p with h := rawAddHeader p.h (p.hrev.reverse ++ l), hrev := [] } rest := by
  intro l
  induction l with
  | nil =>
    intro p rest hd _ hacc hne
    simp only [List.nil_append, List.append_nil] at *
    have h13 : ¬ ((13 : UInt8) = 10 ∧ p.hrev.head? = some 13) := by simp
    rw [RawParser.consume]
    simp only [hd, Bool.false_eq_true, if_false, h13]
    rw [RawParser.consume]
    have hne' : p.hrev ≠ [] := hne
    simp [hd, hne']
  | cons c l ih =>
    intro p rest hd hl hacc hne
    have hc13 : c ≠ 13 := hl c (by simp)
    have hcond : ¬ (c = 10 ∧ p.hrev.head? = some 13) := by
      intro ⟨_, h2⟩
      cases hh : p.hrev with
      | nil => rw [hh] at h2; simp at h2
      | cons x xs =>
        rw [hh] at h2
        simp only [List.head?_cons, Option.some.injEq] at h2
        exact hacc x (by rw [hh]; simp) h2
    rw [List.cons_append, RawParser.consume]
    simp only [hd, Bool.false_eq_true, if_false, hcond]
    have hacc' : ∀ x ∈ c :: p.hrev, x ≠ 13 := by
      intro x hx
      simp only [List.mem_cons] at hx
      rcases hx with hx | hx
      · rw [hx]; exact hc13
      · exact hacc x hx
    have hl' : ∀ x ∈ l, x ≠ 13 := fun x hx => hl x (by simp [hx])
    have := ih { p with hrev := c :: p.hrev } rest hd hl' hacc' (by simp)
    simp only [hd] at this
    rw [this]
    simp

/-- a whole header block given as lines, followed by the body: the parser ends `done`, has collected the
headers through `add_header` in order, and passes exactly the body on -/
theorem consume_block : ∀ (ls : List Bytes) (p : RawParser) (body : Bytes), p.done = false → p.hrev = [] →
    (∀ l ∈ ls, l ≠ [] ∧ ∀ c ∈ l, c ≠ 13) →
    (p.consume ((ls.map (· ++ [13, 10])).flatten ++ 13 :: 10 :: body)).2.1 = body ∧
    (p.consume ((ls.map (· ++ [13, 10])).flatten ++ 13 :: 10 :: body)).1.done = true ∧
    (p.consume ((ls.map (· ++ [13, 10])).flatten ++ 13 :: 10 :: body)).2.2 = some (ls.foldl rawAddHeader p.h) := by
  intro ls
  induction ls with
  | nil =>
    intro p body hd hh _
    simp only [List.map_nil, List.flatten_nil, List.nil_append]
    rw [RawParser.consume]
    have h13 : ¬ ((13 : UInt8) = 10 ∧ p.hrev.head? = some 13) := by simp
    simp only [hd, Bool.false_eq_true, if_false, h13]
    rw [RawParser.consume]
    simp [hd, hh]
  | cons l ls ih =>
    intro p body hd hh hok
    have hl := hok l (by simp)
    have e : ((l :: ls).map (· ++ [13, 10])).flatten ++ 13 :: 10 :: body = l ++ 13 :: 10 :: ((ls.map (· ++ [13, 10])).flatten ++ 13 :: 10 :: body) := by
      simp [List.append_assoc]
    rw [e, consume_line l p _ hd hl.2 (by rw [hh]; simp) (by rw [hh]; simpa using hl.1)]
    have := ih { p with h := rawAddHeader p.h (p.hrev.reverse ++ l), hrev := [] } body hd rfl (fun x hx => hok x (by simp [hx]))
    simp only [hh, List.reverse_nil, List.nil_append] at this ⊢
    simpa using this

/-! ### the devices -/

abbrev Log := List (Bytes × Bool)

/-- a connection that records what it is given and never fails -/
def logIf : ConnIf Log := { send := fun k bs eof => (k ++ [(bs, eof)], true), setHeaders := fun k _ => k }

def Log.bytes (k : Log) : Bytes := (k.map (·.1)).flatten
def Log.eofs (k : Log) : Nat := (k.filter (·.2)).length

theorem Log.bytes_append (k : Log) (bs : Bytes) (e : Bool) : Log.bytes (k ++ [(bs, e)]) = Log.bytes k ++ bs := by
  simp [Log.bytes]

theorem Log.eofs_append (k : Log) (bs : Bytes) (e : Bool) : Log.eofs (k ++ [(bs, e)]) = Log.eofs k + (if e then 1 else 0) := by
  cases e <;> simp [Log.eofs, List.filter_append]

theorem nextSize_gt (n : Nat) : n < Gen.nextSize n := by
  unfold Gen.nextSize; split <;> omega

theorem growTo_ge_start : ∀ (fuel rs m : Nat), rs ≤ growTo fuel rs m := by
  intro fuel
  induction fuel with
  | zero => intro rs m; simp [growTo]
  | succ f ih =>
    intro rs m
    rw [growTo]
    split
    · have := ih (rs * 2) m; omega
    · exact Nat.le_refl _

theorem growTo_ge_min : ∀ (fuel rs m : Nat), 0 < rs → m ≤ rs + fuel → m ≤ growTo fuel rs m := by
  intro fuel
  induction fuel with
  | zero => intro rs m _ h; simpa [growTo] using h
  | succ f ih =>
    intro rs m hp h
    rw [growTo]
    split
    · exact ih (rs * 2) m (by omega) (by omega)
    · omega

/-- what the connection receives of a byte string handed to `write`: everything, or — in the raw
modes — what is left once the application's own header block has been taken out -/
def filterOf (raw : Bool) (s : Bytes) : Bytes := if raw then rawPassed {} s else s

/-- device invariant relative to the bytes written into it (`inp`): `fed` is the part already handed to `write` -/
def Dev.Inv (d : Dev) (k : Log) (inp : Bytes) : Prop :=
  ∃ fed, d.dead = false ∧ d.pos ≤ d.vec.length ∧ fed ++ d.vec.take d.pos = inp ∧
    Log.bytes k = filterOf d.rawMode fed ∧ (d.rawMode = true → d.raw = rawNext {} fed)

def eofFlag (d : Dev) : Bool := d.final && !d.eofSend

/-- what an operation may do to the log: nothing, or one more entry carrying the current eof flag -/
def LogStep (d d' : Dev) (k k' : Log) : Prop :=
  d'.final = d.final ∧
    ((k' = k ∧ d'.eofSend = d.eofSend) ∨ (∃ bs, k' = k ++ [(bs, eofFlag d)] ∧ d'.eofSend = eofFlag d) ∨
     (k' = k ∧ eofFlag d = false ∧ d'.eofSend = false))

/-- `write(content ++ extra)` followed by emptying the buffer keeps the invariant -/
theorem Dev.write_inv (d : Dev) (k : Log) (inp : Bytes) (extra : Bytes) (out : List Bytes) (hout : out.flatten = d.content ++ extra)
    (h : d.Inv k inp) :
    ∃ d' k', d.write logIf k out = (d', k', true) ∧ d'.dead = false ∧ d'.rawMode = d.rawMode ∧
      d'.vec = d.vec ∧ d'.pos = d.pos ∧ d'.bufferSize = d.bufferSize ∧ d'.isAsync = d.isAsync ∧ d'.fullBuffering = d.fullBuffering ∧
      d'.final = d.final ∧ d'.eofSend = eofFlag d ∧
      Log.bytes k' = filterOf d.rawMode (inp ++ extra) ∧ (d.rawMode = true → d'.raw = rawNext {} (inp ++ extra)) ∧
      ((∃ bs, k' = k ++ [(bs, eofFlag d)]) ∨ (k' = k ∧ eofFlag d = false)) ∧
      (eofFlag d = true → k' = k ++ [(filterOf d.rawMode (inp ++ extra) |>.drop (Log.bytes k).length, true)]) := by
  obtain ⟨fed, hd, hp, hi, hk, hr⟩ := h
  have hfe : fed ++ (d.content ++ extra) = inp ++ extra := by unfold Dev.content; rw [← List.append_assoc, hi]
  unfold Dev.write
  simp only [hd, Bool.false_eq_true, if_false]
  by_cases hraw : d.rawMode = true
  · have hrw := hr hraw
    simp only [hraw, Bool.true_and, filterOf, if_true] at hk ⊢
    have ⟨ca1, ca2⟩ := consume_append fed {} (d.content ++ extra)
    rw [hfe] at ca1 ca2
    by_cases hdone : d.raw.done = true
    · -- header block complete: everything goes through
      simp only [hdone, Bool.not_true, Bool.false_eq_true, if_false, logIf, if_true, hout]
      have hc := consume_done d.raw hdone (d.content ++ extra)
      have hpass : rawPassed (rawNext {} fed) (d.content ++ extra) = d.content ++ extra := by rw [← hrw]; simp [rawPassed, hc]
      have hnext : rawNext (rawNext {} fed) (d.content ++ extra) = d.raw := by rw [← hrw]; simp [rawNext, hc]
      refine ⟨_, _, rfl, (by first | exact hd | rfl), (by first | exact hraw | rfl), rfl, rfl, rfl, rfl, rfl, rfl, rfl, ?_, ?_, Or.inl ⟨_, rfl⟩, ?_⟩
      · rw [Log.bytes_append, hk, ca2, hpass]
      · intro _; rw [ca1, hnext]
      · intro hf
        simp only [eofFlag] at hf
        rw [hf, ca2, hpass, ← hk]
        simp
    · simp only [Bool.not_eq_true] at hdone
      simp only [hdone, Bool.not_false, if_true, hout, logIf]
      have hnext : (d.raw.consume (d.content ++ extra)).1 = rawNext {} (inp ++ extra) := by rw [ca1, ← hrw]; rfl
      have hpass : (d.raw.consume (d.content ++ extra)).2.1 = rawPassed (rawNext {} fed) (d.content ++ extra) := by rw [← hrw]; rfl
      have hk2 : ((Option.map (fun _ => k) (d.raw.consume (d.content ++ extra)).2.2).getD k) = k := by
        cases (d.raw.consume (d.content ++ extra)).2.2 <;> rfl
      by_cases hsend : ((d.raw.consume (d.content ++ extra)).1.done || (d.final && !d.eofSend)) = true
      · simp only [hsend, if_true, hk2]
        refine ⟨_, _, rfl, (by first | exact hd | rfl), (by first | exact hraw | rfl), rfl, rfl, rfl, rfl, rfl, rfl, rfl, ?_, ?_, Or.inl ⟨_, rfl⟩, ?_⟩
        · rw [Log.bytes_append, hk, ca2, hpass]
        · intro _; exact hnext
        · intro hf
          simp only [eofFlag] at hf
          rw [hf, ca2, hpass, ← hk]
          simp
      · simp only [hsend, Bool.false_eq_true, if_false, hk2]
        simp only [Bool.or_eq_true, not_or, Bool.not_eq_true] at hsend
        have hempty := consume_not_done (d.content ++ extra) d.raw hsend.1
        refine ⟨_, _, rfl, (by first | exact hd | rfl), (by first | exact hraw | rfl), rfl, rfl, rfl, rfl, rfl, rfl, ?_, ?_, ?_, Or.inr ⟨rfl, hsend.2⟩, ?_⟩
        · simp [eofFlag, hsend.2]
        · rw [hk, ca2, ← hpass, hempty, List.append_nil]
        · intro _; exact hnext
        · intro hf; simp only [eofFlag] at hf; rw [hsend.2] at hf; cases hf
  · simp only [Bool.not_eq_true] at hraw
    simp only [hraw, Bool.false_and, Bool.false_eq_true, if_false, logIf, if_true, hout, filterOf] at hk ⊢
    refine ⟨_, _, rfl, (by first | exact hd | rfl), (by first | exact hraw | rfl), rfl, rfl, rfl, rfl, rfl, rfl, rfl, ?_, ?_, Or.inl ⟨_, rfl⟩, ?_⟩
    · rw [Log.bytes_append, hk, hfe]
    · intro h; cases h
    · intro hf
      simp only [eofFlag] at hf
      rw [hf, ← hfe, ← hk]
      simp

/-- after a successful write the buffer is reset; the invariant holds with everything fed -/
theorem Dev.inv_reset (d' : Dev) (k' : Log) (all : Bytes) (v : Bytes) (hd : d'.dead = false)
    (hk : Log.bytes k' = filterOf d'.rawMode all) (hr : d'.rawMode = true → d'.raw = rawNext {} all) :
    ({ d' with vec := v, pos := 0 } : Dev).Inv k' all :=
  ⟨all, hd, Nat.zero_le _, by simp, hk, hr⟩

theorem Dev.basicOverflow_inv (d : Dev) (k : Log) (inp : Bytes) (c : Option UInt8) (h : d.Inv k inp) :
    (d.basicOverflow logIf k c).1.Inv (d.basicOverflow logIf k c).2 (inp ++ c.toList) ∧
    LogStep d (d.basicOverflow logIf k c).1 k (d.basicOverflow logIf k c).2 := by
  have key : ∀ (extra : Bytes) (out : List Bytes), out.flatten = d.content ++ extra →
      ((if (d.write logIf k out).2.2 = true then ((d.write logIf k out).1.doSetp, (d.write logIf k out).2.1)
        else ((d.write logIf k out).1, (d.write logIf k out).2.1)) : Dev × Log).1.Inv
        ((if (d.write logIf k out).2.2 = true then ((d.write logIf k out).1.doSetp, (d.write logIf k out).2.1)
          else ((d.write logIf k out).1, (d.write logIf k out).2.1)) : Dev × Log).2 (inp ++ extra) ∧
      LogStep d ((if (d.write logIf k out).2.2 = true then ((d.write logIf k out).1.doSetp, (d.write logIf k out).2.1)
          else ((d.write logIf k out).1, (d.write logIf k out).2.1)) : Dev × Log).1 k
        ((if (d.write logIf k out).2.2 = true then ((d.write logIf k out).1.doSetp, (d.write logIf k out).2.1)
          else ((d.write logIf k out).1, (d.write logIf k out).2.1)) : Dev × Log).2 := by
    intro extra out hout
    obtain ⟨d', k', hw, w1, w2, w3, w4, w5, w6, w7, w8, w9, w10, w11, w12, _⟩ := Dev.write_inv d k inp extra out hout h
    rw [hw]
    simp only [if_true]
    refine ⟨?_, ?_, ?_⟩
    · exact Dev.inv_reset d' k' _ _ w1 (by rw [w2]; exact w10) (by rw [w2]; exact w11)
    · show d'.final = d.final; exact w8
    · rcases w12 with ⟨bs, hb⟩ | ⟨hb, hf⟩
      · exact Or.inr (Or.inl ⟨bs, hb, w9⟩)
      · exact Or.inr (Or.inr ⟨hb, hf, by show d'.eofSend = false; rw [w9, hf]⟩)
  cases c with
  | none =>
    have := key [] [d.content] (by simp)
    simpa [Dev.basicOverflow] using this
  | some c =>
    have := key [c] [d.content, [c]] (by simp)
    simpa [Dev.basicOverflow] using this

theorem Dev.pokeBlock_inv (d : Dev) (k : Log) (inp s : Bytes) (h : d.Inv k inp) (hfit : d.pos + s.length ≤ d.vec.length) :
    ({ d with vec := poke d.vec d.pos s, pos := d.pos + s.length } : Dev).Inv k (inp ++ s) := by
  obtain ⟨fed, hd, hp, hi, hk, hr⟩ := h
  refine ⟨fed, hd, ?_, ?_, hk, hr⟩
  · show d.pos + s.length ≤ (poke d.vec d.pos s).length
    rw [poke_length _ _ _ hfit]; exact hfit
  · show fed ++ (poke d.vec d.pos s).take (d.pos + s.length) = inp ++ s
    rw [poke_take _ _ _ hfit, ← List.append_assoc, hi]

theorem LogStep.refl (d : Dev) (k : Log) : LogStep d d k k := ⟨rfl, Or.inl ⟨rfl, rfl⟩⟩

theorem Dev.basicXsputn_inv (d : Dev) (k : Log) (inp s : Bytes) (h : d.Inv k inp) :
    (d.basicXsputn logIf k s).1.Inv (d.basicXsputn logIf k s).2 (inp ++ s) ∧
    LogStep d (d.basicXsputn logIf k s).1 k (d.basicXsputn logIf k s).2 := by
  unfold Dev.basicXsputn
  by_cases hfit : s.length ≤ d.vec.length - d.pos
  · simp only [hfit, if_true]
    have hp := h.choose_spec.2.1
    by_cases he : s.isEmpty = true
    · have : s = [] := by simpa [List.isEmpty_iff] using he
      subst this
      simp only [List.isEmpty_nil, if_true, List.append_nil]
      exact ⟨h, LogStep.refl d k⟩
    · simp only [he, Bool.false_eq_true, if_false]
      exact ⟨Dev.pokeBlock_inv d k inp s h (by omega), ⟨rfl, Or.inl ⟨rfl, rfl⟩⟩⟩
  · simp only [hfit, if_false]
    obtain ⟨d', k', hw, w1, w2, w3, w4, w5, w6, w7, w8, w9, w10, w11, w12, _⟩ :=
      Dev.write_inv d k inp s [d.content, s] (by simp) h
    rw [hw]
    simp only [if_true]
    refine ⟨Dev.inv_reset d' k' _ _ w1 (by rw [w2]; exact w10) (by rw [w2]; exact w11), w8, ?_⟩
    rcases w12 with ⟨bs, hb⟩ | ⟨hb, hf⟩
    · exact Or.inr (Or.inl ⟨bs, hb, w9⟩)
    · exact Or.inr (Or.inr ⟨hb, hf, by show d'.eofSend = false; rw [w9, hf]⟩)

theorem Dev.flush_inv (d : Dev) (k : Log) (inp : Bytes) (h : d.Inv k inp) :
    (d.flush logIf k).1.Inv (d.flush logIf k).2.1 inp ∧ (d.flush logIf k).1.pos = 0 ∧ (d.flush logIf k).2.2 = true ∧
    LogStep d (d.flush logIf k).1 k (d.flush logIf k).2.1 ∧ (d.flush logIf k).1.eofSend = eofFlag d ∧
    Log.bytes (d.flush logIf k).2.1 = filterOf d.rawMode inp ∧
    (eofFlag d = true → (d.flush logIf k).2.1 = k ++ [((filterOf d.rawMode inp).drop (Log.bytes k).length, true)]) ∧
    (d.flush logIf k).1.vec = d.vec ∧ (d.flush logIf k).1.bufferSize = d.bufferSize ∧
    (d.flush logIf k).1.isAsync = d.isAsync ∧ (d.flush logIf k).1.fullBuffering = d.fullBuffering ∧ (d.flush logIf k).1.rawMode = d.rawMode := by
  obtain ⟨d', k', hw, w1, w2, w3, w4, w5, w6, w7, w8, w9, w10, w11, w12, w13⟩ :=
    Dev.write_inv d k inp [] [d.content] (by simp) h
  simp only [List.append_nil] at w10 w11 w13
  unfold Dev.flush
  rw [hw]
  refine ⟨?_, rfl, rfl, ⟨w8, ?_⟩, w9, w10, w13, w3, w5, w6, w7, w2⟩
  · have := Dev.inv_reset d' k' inp d'.vec w1 (by rw [w2]; exact w10) (by rw [w2]; exact w11)
    exact this
  · rcases w12 with ⟨bs, hb⟩ | ⟨hb, hf⟩
    · exact Or.inr (Or.inl ⟨bs, hb, w9⟩)
    · exact Or.inr (Or.inr ⟨hb, hf, by show d'.eofSend = false; rw [w9, hf]⟩)

theorem LogStep.of_final {d d1 d' : Dev} {k k' : Log} (h : LogStep d1 d' k k') (hf : d1.final = d.final) (he : d1.eofSend = d.eofSend) :
    LogStep d d' k k' := by
  obtain ⟨h1, h2⟩ := h
  have hflag : eofFlag d1 = eofFlag d := by simp [eofFlag, hf, he]
  refine ⟨by rw [h1, hf], ?_⟩
  rcases h2 with ⟨a, c⟩ | ⟨bs, a, c⟩ | ⟨a, c, e⟩
  · exact Or.inl ⟨a, by rw [c, he]⟩
  · exact Or.inr (Or.inl ⟨bs, by rw [a, hflag], by rw [c, hflag]⟩)
  · exact Or.inr (Or.inr ⟨a, by rw [← hflag]; exact c, e⟩)

theorem Dev.basicSetbuf_inv (d : Dev) (k : Log) (inp : Bytes) (size : Nat) (h : d.Inv k inp) :
    (d.basicSetbuf logIf k size).1.Inv (d.basicSetbuf logIf k size).2 inp ∧ LogStep d (d.basicSetbuf logIf k size).1 k (d.basicSetbuf logIf k size).2 := by
  unfold Dev.basicSetbuf
  simp only
  by_cases hgt : d.pos > size
  · simp only [hgt, if_true]
    have hinv0 : ({ d with bufferSize := size } : Dev).Inv k inp := h
    have ⟨f1, f2, f3, f4, _⟩ := Dev.flush_inv { d with bufferSize := size } k inp hinv0
    simp only [f3, if_true]
    refine ⟨?_, f4.of_final rfl rfl⟩
    obtain ⟨fed, g1, g2, g3, g4, g5⟩ := f1
    refine ⟨fed, g1, Nat.zero_le _, ?_, g4, g5⟩
    rw [f2] at g3
    show fed ++ (resize _ _).take 0 = inp
    simpa using g3
  · simp only [hgt, if_false]
    obtain ⟨fed, hd, hp, hi, hk, hr⟩ := h
    refine ⟨⟨fed, hd, ?_, ?_, hk, hr⟩, rfl, Or.inl ⟨rfl, rfl⟩⟩
    · show d.pos ≤ (resize d.vec size).length
      rw [resize_length]; omega
    · show fed ++ (resize d.vec size).take d.pos = inp
      rw [resize_take _ _ _ hp (by omega)]; exact hi

theorem Dev.setbuf_inv (d : Dev) (k : Log) (inp : Bytes) (size : Nat) (h : d.Inv k inp) :
    (d.setbuf logIf k size).1.Inv (d.setbuf logIf k size).2 inp ∧ LogStep d (d.setbuf logIf k size).1 k (d.setbuf logIf k size).2 := by
  unfold Dev.setbuf
  by_cases hm : (d.isAsync && d.fullBuffering) = true
  · simp only [hm, if_true]
    obtain ⟨fed, hd, hp, hi, hk, hr⟩ := h
    refine ⟨⟨fed, hd, ?_, ?_, hk, hr⟩, rfl, Or.inl ⟨rfl, rfl⟩⟩
    · show d.pos ≤ (resize d.vec (if d.pos > size then d.pos else size)).length
      rw [resize_length]; split <;> omega
    · show fed ++ (resize d.vec (if d.pos > size then d.pos else size)).take d.pos = inp
      rw [resize_take _ _ _ hp (by split <;> omega)]; exact hi
  · simp only [hm, Bool.false_eq_true, if_false]
    exact Dev.basicSetbuf_inv d k inp size h

theorem Dev.overflow_inv (d : Dev) (k : Log) (inp : Bytes) (c : Option UInt8) (h : d.Inv k inp) :
    (d.overflow logIf k c).1.Inv (d.overflow logIf k c).2 (inp ++ c.toList) ∧ LogStep d (d.overflow logIf k c).1 k (d.overflow logIf k c).2 := by
  unfold Dev.overflow
  by_cases hm : (d.isAsync && d.fullBuffering) = true
  · simp only [hm, if_true]
    have h' := h
    obtain ⟨fed, hd, hp, hi, hk, hr⟩ := h
    have hg : ∃ d1 : Dev, (if d.pos = d.vec.length then { d with vec := resize d.vec (Gen.nextSize d.vec.length) } else d) = d1 ∧
        d1.Inv k inp ∧ d1.pos < d1.vec.length ∧ d1.final = d.final ∧ d1.eofSend = d.eofSend := by
      by_cases hf : d.pos = d.vec.length
      · refine ⟨_, rfl, ?_⟩
        rw [if_pos hf]
        have hn := nextSize_gt d.vec.length
        refine ⟨⟨fed, hd, ?_, ?_, hk, hr⟩, ?_, rfl, rfl⟩
        · show d.pos ≤ (resize d.vec (Gen.nextSize d.vec.length)).length
          rw [resize_length]; omega
        · show fed ++ (resize d.vec (Gen.nextSize d.vec.length)).take d.pos = inp
          rw [resize_take _ _ _ hp (by omega)]; exact hi
        · show d.pos < (resize d.vec (Gen.nextSize d.vec.length)).length
          rw [resize_length]; omega
      · refine ⟨d, by simp [hf], h', by omega, rfl, rfl⟩
    obtain ⟨d1, hd1, hinv1, hroom, hf1, he1⟩ := hg
    rw [hd1]
    cases c with
    | none =>
      simp only [Option.toList_none, List.append_nil]
      exact ⟨hinv1, hf1, Or.inl ⟨rfl, he1⟩⟩
    | some c =>
      simp only [Option.toList_some]
      have := Dev.pokeBlock_inv d1 k inp [c] hinv1 (by simp only [List.length_cons, List.length_nil]; omega)
      exact ⟨this, hf1, Or.inl ⟨rfl, he1⟩⟩
  · simp only [hm, Bool.false_eq_true, if_false]
    exact Dev.basicOverflow_inv d k inp c h

theorem Dev.xsputn_inv (d : Dev) (k : Log) (inp s : Bytes) (h : d.Inv k inp) :
    (d.xsputn logIf k s).1.Inv (d.xsputn logIf k s).2 (inp ++ s) ∧ LogStep d (d.xsputn logIf k s).1 k (d.xsputn logIf k s).2 := by
  unfold Dev.xsputn
  by_cases hm : (d.isAsync && d.fullBuffering) = true
  · simp only [hm, if_true]
    have h' := h
    obtain ⟨fed, hd, hp, hi, hk, hr⟩ := h
    have hg : ∃ d1 : Dev, (if d.vec.length - d.pos < s.length then
          { d with vec := resize d.vec (growTo (d.pos + s.length + 1) (Gen.nextSize d.vec.length) (d.pos + s.length)) } else d) = d1 ∧
        d1.Inv k inp ∧ d1.pos + s.length ≤ d1.vec.length ∧ d1.final = d.final ∧ d1.eofSend = d.eofSend := by
      by_cases hf : d.vec.length - d.pos < s.length
      · refine ⟨_, rfl, ?_⟩
        simp only [hf, if_true]
        have hn := nextSize_gt d.vec.length
        have g1 := growTo_ge_start (d.pos + s.length + 1) (Gen.nextSize d.vec.length) (d.pos + s.length)
        have g2 := growTo_ge_min (d.pos + s.length + 1) (Gen.nextSize d.vec.length) (d.pos + s.length) (by omega) (by omega)
        refine ⟨⟨fed, hd, ?_, ?_, hk, hr⟩, ?_, (by rt), (by rt)⟩
        · show d.pos ≤ (resize d.vec _).length
          rw [resize_length]; omega
        · show fed ++ (resize d.vec _).take d.pos = inp
          rw [resize_take _ _ _ hp (by omega)]; exact hi
        · show d.pos + s.length ≤ (resize d.vec _).length
          rw [resize_length]; exact g2
      · refine ⟨d, by simp [hf], h', by omega, rfl, rfl⟩
    obtain ⟨d1, hd1, hinv1, hroom, hf1, he1⟩ := hg
    rw [hd1]
    by_cases he : s.isEmpty = true
    · have : s = [] := by simpa [List.isEmpty_iff] using he
      subst this
      simp only [List.isEmpty_nil, if_true, List.append_nil]
      exact ⟨hinv1, hf1, Or.inl ⟨rfl, he1⟩⟩
    · simp only [he, Bool.false_eq_true, if_false]
      exact ⟨Dev.pokeBlock_inv d1 k inp s hinv1 hroom, hf1, Or.inl ⟨rfl, he1⟩⟩
  · simp only [hm, Bool.false_eq_true, if_false]
    exact Dev.basicXsputn_inv d k inp s h

theorem Dev.sputc_inv (d : Dev) (k : Log) (inp : Bytes) (c : UInt8) (h : d.Inv k inp) :
    (d.sputc logIf k c).1.Inv (d.sputc logIf k c).2 (inp ++ [c]) ∧ LogStep d (d.sputc logIf k c).1 k (d.sputc logIf k c).2 := by
  unfold Dev.sputc
  by_cases hr : d.pos < d.vec.length
  · simp only [hr, if_true]
    have := Dev.pokeBlock_inv d k inp [c] h (by simp only [List.length_cons, List.length_nil]; omega)
    exact ⟨this, rfl, Or.inl ⟨rfl, rfl⟩⟩
  · simp only [hr, if_false]
    have := Dev.overflow_inv d k inp (some c) h
    simpa using this

theorem Dev.sync_inv (d : Dev) (k : Log) (inp : Bytes) (h : d.Inv k inp) :
    (d.sync logIf k).1.Inv (d.sync logIf k).2 inp ∧ LogStep d (d.sync logIf k).1 k (d.sync logIf k).2 := by
  have := Dev.overflow_inv d k inp none h
  simpa [Dev.sync] using this

theorem Dev.setFullBuffering_inv (d : Dev) (k : Log) (inp : Bytes) (v : Bool) (h : d.Inv k inp) :
    (d.setFullBuffering logIf k v).1.Inv (d.setFullBuffering logIf k v).2 inp ∧
    LogStep d (d.setFullBuffering logIf k v).1 k (d.setFullBuffering logIf k v).2 := by
  unfold Dev.setFullBuffering
  by_cases he : d.fullBuffering = v
  · simp only [he, if_true]
    exact ⟨h, LogStep.refl d k⟩
  · simp only [he, if_false]
    have h1 : ({ d with fullBuffering := v } : Dev).Inv k inp := h
    cases v with
    | true => simp only [Bool.not_true, Bool.false_eq_true, if_false]; exact ⟨h1, rfl, Or.inl ⟨rfl, rfl⟩⟩
    | false =>
      simp only [Bool.not_false, if_true]
      have := Dev.setbuf_inv _ k inp d.bufferSize h1
      exact ⟨this.1, this.2.of_final rfl rfl⟩

/-! ### traces of device operations -/

/-- what the layers above (or the application, through `std::ostream` and `response`) can do to a device -/
inductive DevOp where
  | put (s : Bytes)        -- sputn
  | putc (c : UInt8)       -- sputc
  | sync                   -- pubsync (ostream::flush)
  | flush                  -- response::flush_async_chunk
  | setbuf (n : Nat)       -- response::setbuf
  | fullBuf (v : Bool)     -- response::full_asynchronous_buffering
  deriving Repr, DecidableEq, Inhabited

def DevOp.data : DevOp → Bytes
  | .put s => s
  | .putc c => [c]
  | _ => []

def Dev.step (x : Dev × Log) : DevOp → Dev × Log
  | .put s => x.1.xsputn logIf x.2 s
  | .putc c => x.1.sputc logIf x.2 c
  | .sync => x.1.sync logIf x.2
  | .flush => let r := x.1.flush logIf x.2; (r.1, r.2.1)
  | .setbuf n => x.1.setbuf logIf x.2 n
  | .fullBuf v => x.1.setFullBuffering logIf x.2 v

def Dev.run (x : Dev × Log) (ops : List DevOp) : Dev × Log := ops.foldl Dev.step x

/-- no eof has been announced yet -/
def Quiet (d : Dev) (k : Log) : Prop := d.final = false ∧ d.eofSend = false ∧ Log.eofs k = 0

theorem Quiet.step {d d' : Dev} {k k' : Log} (q : Quiet d k) (h : LogStep d d' k k') : Quiet d' k' := by
  obtain ⟨q1, q2, q3⟩ := q
  obtain ⟨h1, h2⟩ := h
  have hf : eofFlag d = false := by simp [eofFlag, q1]
  rcases h2 with ⟨hk, he⟩ | ⟨bs, hk, he⟩ | ⟨hk, _, he⟩
  · exact ⟨by rw [h1, q1], by rw [he, q2], by rw [hk, q3]⟩
  · refine ⟨by rw [h1, q1], by rw [he, hf], ?_⟩
    rw [hk, Log.eofs_append, hf, q3]; rfl
  · exact ⟨by rw [h1, q1], he, by rw [hk, q3]⟩

theorem Dev.step_inv (d : Dev) (k : Log) (inp : Bytes) (op : DevOp) (h : d.Inv k inp) (q : Quiet d k) :
    (Dev.step (d, k) op).1.Inv (Dev.step (d, k) op).2 (inp ++ op.data) ∧ Quiet (Dev.step (d, k) op).1 (Dev.step (d, k) op).2 := by
  cases op with
  | put s => have := Dev.xsputn_inv d k inp s h; exact ⟨this.1, q.step this.2⟩
  | putc c => have := Dev.sputc_inv d k inp c h; exact ⟨this.1, q.step this.2⟩
  | sync =>
    have := Dev.sync_inv d k inp h
    simp only [DevOp.data, List.append_nil]
    exact ⟨this.1, q.step this.2⟩
  | flush =>
    have ⟨f1, _, _, f4, _⟩ := Dev.flush_inv d k inp h
    simp only [DevOp.data, List.append_nil, Dev.step]
    exact ⟨f1, q.step f4⟩
  | setbuf n =>
    have := Dev.setbuf_inv d k inp n h
    simp only [DevOp.data, List.append_nil]
    exact ⟨this.1, q.step this.2⟩
  | fullBuf v =>
    have := Dev.setFullBuffering_inv d k inp v h
    simp only [DevOp.data, List.append_nil]
    exact ⟨this.1, q.step this.2⟩

theorem Dev.run_inv : ∀ (ops : List DevOp) (d : Dev) (k : Log) (inp : Bytes), d.Inv k inp → Quiet d k →
    (Dev.run (d, k) ops).1.Inv (Dev.run (d, k) ops).2 (inp ++ (ops.map DevOp.data).flatten) ∧
    Quiet (Dev.run (d, k) ops).1 (Dev.run (d, k) ops).2 := by
  intro ops
  induction ops with
  | nil => intro d k inp h q; simpa [Dev.run] using ⟨h, q⟩
  | cons op ops ih =>
    intro d k inp h q
    have ⟨h1, q1⟩ := Dev.step_inv d k inp op h q
    have := ih _ _ _ h1 q1
    simp only [Dev.run, List.foldl_cons, List.map_cons, List.flatten_cons] at *
    rw [← List.append_assoc]
    exact this

/-- a freshly opened device of either kind, in any io mode -/
def Dev.fresh (isAsync full raw : Bool) (n : Nat) : Dev :=
  ({ isAsync := isAsync, fullBuffering := full, rawMode := raw } : Dev).open n

theorem Dev.fresh_inv (isAsync full raw : Bool) (n : Nat) :
    (Dev.fresh isAsync full raw n).Inv [] [] ∧ Quiet (Dev.fresh isAsync full raw n) [] ∧ (Dev.fresh isAsync full raw n).rawMode = raw := by
  refine ⟨⟨[], rfl, Nat.zero_le _, ?_, ?_, ?_⟩, ⟨rfl, rfl, rfl⟩, rfl⟩
  · simp [Dev.fresh, Dev.open, Dev.doSetp]
  · cases raw <;> simp [Log.bytes, filterOf, Dev.fresh, Dev.open, Dev.doSetp, rawPassed, RawParser.consume]
  · intro _; simp [Dev.fresh, Dev.open, Dev.doSetp, rawNext, RawParser.consume]

theorem Dev.run_rawMode : ∀ (ops : List DevOp) (d : Dev) (k : Log) (inp : Bytes), d.Inv k inp →
    (Dev.run (d, k) ops).1.rawMode = d.rawMode := by
  intro ops
  induction ops with
  | nil => intro d k inp _; rfl
  | cons op ops ih =>
    intro d k inp h
    -- every operation keeps the mode; read it off the log equation of the invariant is not possible, so unfold
    have hstep : (Dev.step (d, k) op).1.rawMode = d.rawMode ∧ ∃ inp', (Dev.step (d, k) op).1.Inv (Dev.step (d, k) op).2 inp' := by
      cases op with
      | put s =>
        refine ⟨?_, _, (Dev.xsputn_inv d k inp s h).1⟩
        simp only [Dev.step, Dev.xsputn, Dev.basicXsputn]
        split
        · split <;> split <;> rfl
        · split
          · split <;> rfl
          · obtain ⟨d', k', hw, w1, w2, _⟩ := Dev.write_inv d k inp s [d.content, s] (by simp) h
            rw [hw]; simp only [if_true]; exact w2
      | putc c =>
        refine ⟨?_, _, (Dev.sputc_inv d k inp c h).1⟩
        simp only [Dev.step, Dev.sputc, Dev.overflow, Dev.basicOverflow]
        split
        · rfl
        · split
          · split <;> rfl
          · obtain ⟨d', k', hw, w1, w2, _⟩ := Dev.write_inv d k inp [c] [d.content, [c]] (by simp) h
            rw [hw]; simp only [if_true]; exact w2
      | sync =>
        refine ⟨?_, _, (Dev.sync_inv d k inp h).1⟩
        simp only [Dev.step, Dev.sync, Dev.overflow, Dev.basicOverflow]
        split
        · split <;> rfl
        · obtain ⟨d', k', hw, w1, w2, _⟩ := Dev.write_inv d k inp [] [d.content] (by simp) h
          rw [hw]; simp only [if_true]; exact w2
      | flush =>
        have f := Dev.flush_inv d k inp h
        exact ⟨f.2.2.2.2.2.2.2.2.2.2.2, _, f.1⟩
      | setbuf n =>
        refine ⟨?_, _, (Dev.setbuf_inv d k inp n h).1⟩
        simp only [Dev.step, Dev.setbuf, Dev.basicSetbuf]
        split
        · rfl
        · split
          · have f := Dev.flush_inv { d with bufferSize := n } k inp h
            simp only [f.2.2.1, if_true]
            exact f.2.2.2.2.2.2.2.2.2.2.2
          · rfl
      | fullBuf v =>
        refine ⟨?_, _, (Dev.setFullBuffering_inv d k inp v h).1⟩
        simp only [Dev.step, Dev.setFullBuffering, Dev.setbuf, Dev.basicSetbuf]
        split
        · rfl
        · split
          · split
            · rfl
            · split
              · have f := Dev.flush_inv { d with fullBuffering := v, bufferSize := d.bufferSize } k inp h
                simp only [f.2.2.1, if_true]
                exact f.2.2.2.2.2.2.2.2.2.2.2
              · rfl
          · rfl
    obtain ⟨hm, inp', hinv'⟩ := hstep
    simp only [Dev.run, List.foldl_cons]
    have := ih _ _ inp' hinv'
    simp only [Dev.run] at this
    rw [this, hm]

/-- `close()` in a quiet state: the buffer is flushed with the eof mark, exactly once -/
theorem Dev.close_spec (d : Dev) (k : Log) (inp : Bytes) (h : d.Inv k inp) (q : Quiet d k) :
    Log.bytes (d.close logIf k).2 = filterOf d.rawMode inp ∧ (d.close logIf k).1.content = [] ∧ Log.eofs (d.close logIf k).2 = 1 ∧
    ((d.close logIf k).2.getLast?.map (fun (x : Bytes × Bool) => x.2)) = some true ∧
    (d.close logIf k).1.Inv (d.close logIf k).2 inp ∧ (d.close logIf k).1.final = true ∧ (d.close logIf k).1.eofSend = true := by
  obtain ⟨q1, q2, q3⟩ := q
  unfold Dev.close
  rw [if_neg (by rw [q2]; exact Bool.false_ne_true)]
  show Log.bytes ({ d with final := true }.flush logIf k).2.1 = _ ∧ ({ d with final := true }.flush logIf k).1.content = [] ∧
    Log.eofs ({ d with final := true }.flush logIf k).2.1 = 1 ∧ (({ d with final := true }.flush logIf k).2.1.getLast?.map (fun (x : Bytes × Bool) => x.2)) = some true ∧
    ({ d with final := true }.flush logIf k).1.Inv ({ d with final := true }.flush logIf k).2.1 inp ∧
    ({ d with final := true }.flush logIf k).1.final = true ∧ ({ d with final := true }.flush logIf k).1.eofSend = true
  have hinv : ({ d with final := true } : Dev).Inv k inp := h
  have ⟨f1, f2, f3, f4, f5, f6, f7, _⟩ := Dev.flush_inv { d with final := true } k inp hinv
  have hflag : eofFlag { d with final := true } = true := by simp [eofFlag, q2]
  have hk := f7 hflag
  refine ⟨f6, ?_, ?_, ?_, f1, f4.1, by rw [f5, hflag]⟩
  · unfold Dev.content; rw [f2]; simp
  · rw [hk, Log.eofs_append, q3]; rfl
  · rw [hk]; simp

/-- the `flush_async_chunk` that `async_write_response` issues after `finalize()` adds no second eof and no bytes -/
theorem Dev.flush_after_close (d : Dev) (k : Log) (inp : Bytes) (h : d.Inv k inp) (hf : d.final = true) (he : d.eofSend = true) :
    Log.bytes (d.flush logIf k).2.1 = filterOf d.rawMode inp ∧ Log.eofs (d.flush logIf k).2.1 = Log.eofs k := by
  have ⟨_, _, _, f4, _, f6, _⟩ := Dev.flush_inv d k inp h
  have hflag : eofFlag d = false := by simp [eofFlag, hf, he]
  refine ⟨f6, ?_⟩
  rcases f4.2 with ⟨a, _⟩ | ⟨bs, a, _⟩ | ⟨a, _, _⟩
  · rw [a]
  · rw [a, Log.eofs_append, hflag]; rfl
  · rw [a]

end Cppcms.C03
