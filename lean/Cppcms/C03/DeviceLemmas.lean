import Cppcms.C03.BuffersLemmas
/-! The devices (`output_device`, `async_io_buf`), in every io mode including the raw ones, over a
connection that accepts every write. -/
namespace Cppcms.C03
open Cppcms

/-! ### the raw-mode header parser -/

/-- what `cgi_headers_parser::consume` leaves unconsumed / the parser afterwards -/
def rawPassed (p : RawParser) (s : Bytes) : Bytes := (p.consume s).2.1
def rawNext (p : RawParser) (s : Bytes) : RawParser := (p.consume s).1

theorem consume_done (p : RawParser) (h : p.done = true) (s : Bytes) : p.consume s = (p, s, none) := by
  cases s with
  | nil => simp [RawParser.consume]
  | cons c rest => simp [RawParser.consume, h]

/-- the parser is insensitive to how its input is cut into pieces -/
theorem consume_append : ∀ (a : Bytes) (p : RawParser) (b2 : Bytes),
    rawNext p (a ++ b2) = rawNext (rawNext p a) b2 ∧ rawPassed p (a ++ b2) = rawPassed p a ++ rawPassed (rawNext p a) b2 := by
  intro a
  induction a with
  | nil => intro p b2; simp [rawNext, rawPassed, RawParser.consume]
  | cons c a ih =>
    intro p b2
    by_cases hd : p.done = true
    · have h1 := consume_done p hd (c :: a ++ b2)
      have h2 := consume_done p hd (c :: a)
      have h3 := consume_done p hd b2
      simp only [List.cons_append] at h1
      simp [rawNext, rawPassed, h1, h2, h3]
    · simp only [Bool.not_eq_true] at hd
      unfold rawNext rawPassed at *
      simp only [List.cons_append, RawParser.consume, hd, Bool.false_eq_true, if_false]
      by_cases hc : c = 10 ∧ p.hrev.head? = some 13
      · simp only [hc, and_self, if_true]
        by_cases ht : p.hrev.tail.isEmpty = true
        · simp only [ht, if_true]
          have hdone : ({ p with hrev := 10 :: p.hrev, done := true } : RawParser).done = true := rfl
          have := consume_done _ hdone b2
          simp [this]
        · simp only [ht, Bool.false_eq_true, if_false]
          exact ih _ b2
      · simp only [hc, if_false]
        exact ih _ b2

/-- while the header block is incomplete nothing is passed on -/
theorem consume_not_done : ∀ (s : Bytes) (p : RawParser), (p.consume s).1.done = false → (p.consume s).2.1 = [] := by
  intro s
  induction s with
  | nil => intro p _; simp [RawParser.consume]
  | cons c s ih =>
    intro p h
    by_cases hd : p.done = true
    · rw [consume_done p hd] at h
      simp only at h
      rw [hd] at h; cases h
    · simp only [Bool.not_eq_true] at hd
      simp only [RawParser.consume, hd, Bool.false_eq_true, if_false] at h ⊢
      by_cases hc : c = 10 ∧ p.hrev.head? = some 13
      · simp only [hc, and_self, if_true] at h ⊢
        by_cases ht : p.hrev.tail.isEmpty = true
        · simp only [ht, if_true] at h; cases h
        · simp only [ht, Bool.false_eq_true, if_false] at h ⊢
          exact ih _ h
      · simp only [hc, if_false] at h ⊢
        exact ih _ h

/-- one complete header line (no CR inside, not empty) is parsed and handed to `add_header` -/
theorem consume_line : ∀ (l : Bytes) (p : RawParser) (rest : Bytes), p.done = false → (∀ c ∈ l, c ≠ 13) → (∀ c ∈ p.hrev, c ≠ 13) →
    l ++ p.hrev ≠ [] →
    p.consume (l ++ 13 :: 10 :: rest) = RawParser.consume { p with h := rawAddHeader p.h (p.hrev.reverse ++ l), hrev := [] } rest := by
  intro l
  induction l with
  | nil =>
    intro p rest hd _ hacc hne
    simp only [List.nil_append, List.append_nil] at *
    have h13 : ¬ ((13 : UInt8) = 10 ∧ p.hrev.head? = some 13) := by simp
    rw [RawParser.consume]
    simp only [hd, Bool.false_eq_true, if_false, h13]
    rw [RawParser.consume]
    have hne' : p.hrev ≠ [] := hne
    simp [hd, hne']
  | cons c l ih =>
    intro p rest hd hl hacc hne
    have hc13 : c ≠ 13 := hl c (by simp)
    have hcond : ¬ (c = 10 ∧ p.hrev.head? = some 13) := by
      intro ⟨_, h2⟩
      cases hh : p.hrev with
      | nil => rw [hh] at h2; simp at h2
      | cons x xs =>
        rw [hh] at h2
        simp only [List.head?_cons, Option.some.injEq] at h2
        exact hacc x (by rw [hh]; simp) h2
    rw [List.cons_append, RawParser.consume]
    simp only [hd, Bool.false_eq_true, if_false, hcond]
    have hacc' : ∀ x ∈ c :: p.hrev, x ≠ 13 := by
      intro x hx
      simp only [List.mem_cons] at hx
      rcases hx with hx | hx
      · rw [hx]; exact hc13
      · exact hacc x hx
    have hl' : ∀ x ∈ l, x ≠ 13 := fun x hx => hl x (by simp [hx])
    have := ih { p with hrev := c :: p.hrev } rest hd hl' hacc' (by simp)
    simp only [hd] at this
    rw [this]
    simp

/-- a whole header block given as lines, followed by the body: the parser ends `done`, has collected the
headers through `add_header` in order, and passes exactly the body on -/
theorem consume_block : ∀ (ls : List Bytes) (p : RawParser) (body : Bytes), p.done = false → p.hrev = [] →
    (∀ l ∈ ls, l ≠ [] ∧ ∀ c ∈ l, c ≠ 13) →
    (p.consume ((ls.map (· ++ [13, 10])).flatten ++ 13 :: 10 :: body)).2.1 = body ∧
    (p.consume ((ls.map (· ++ [13, 10])).flatten ++ 13 :: 10 :: body)).1.done = true ∧
    (p.consume ((ls.map (· ++ [13, 10])).flatten ++ 13 :: 10 :: body)).2.2 = some (ls.foldl rawAddHeader p.h) := by
  intro ls
  induction ls with
  | nil =>
    intro p body hd hh _
    simp only [List.map_nil, List.flatten_nil, List.nil_append]
    rw [RawParser.consume]
    have h13 : ¬ ((13 : UInt8) = 10 ∧ p.hrev.head? = some 13) := by simp
    simp only [hd, Bool.false_eq_true, if_false, h13]
    rw [RawParser.consume]
    simp [hd, hh]
  | cons l ls ih =>
    intro p body hd hh hok
    have hl := hok l (by simp)
    have e : ((l :: ls).map (· ++ [13, 10])).flatten ++ 13 :: 10 :: body = l ++ 13 :: 10 :: ((ls.map (· ++ [13, 10])).flatten ++ 13 :: 10 :: body) := by
      simp [List.append_assoc]
    rw [e, consume_line l p _ hd hl.2 (by rw [hh]; simp) (by rw [hh]; simpa using hl.1)]
    have := ih { p with h := rawAddHeader p.h (p.hrev.reverse ++ l), hrev := [] } body hd rfl (fun x hx => hok x (by simp [hx]))
    simp only [hh, List.reverse_nil, List.nil_append] at this ⊢
    simpa using this

/-- at the call in which the block completes the collected headers are handed over; otherwise nothing is -/
theorem consume_hdr : ∀ (s : Bytes) (p : RawParser), p.done = false →
    ((p.consume s).2.2 = some (p.consume s).1.h ∧ (p.consume s).1.done = true) ∨
    ((p.consume s).2.2 = none ∧ (p.consume s).1.done = false) := by
  intro s
  induction s with
  | nil => intro p hd; right; simp [RawParser.consume, hd]
  | cons c s ih =>
    intro p hd
    simp only [RawParser.consume, hd, Bool.false_eq_true, if_false]
    by_cases hc : c = 10 ∧ p.hrev.head? = some 13
    · simp only [hc, and_self, if_true]
      by_cases ht : p.hrev.tail.isEmpty = true
      · simp only [ht, if_true]; left; exact ⟨by rt, by rt⟩
      · simp only [ht, Bool.false_eq_true, if_false]
        exact ih _ rfl
    · simp only [hc, if_false]
      exact ih _ rfl

/-! ### traces -/

def Trace.bytes (t : Trace) : Bytes := (t.sends.map (·.1)).flatten
def Trace.eofs (t : Trace) : Nat := (t.sends.filter (·.2)).length

theorem Trace.sends_append (a c : Trace) : (a ++ c).sends = a.sends ++ c.sends := by
  simp [Trace.sends, List.filterMap_append]

theorem Trace.hdrs_append (a c : Trace) : (a ++ c).hdrs = a.hdrs ++ c.hdrs := by
  simp [Trace.hdrs, List.filterMap_append]

theorem Trace.bytes_append (a c : Trace) : (a ++ c).bytes = a.bytes ++ c.bytes := by
  simp [Trace.bytes, Trace.sends_append]

theorem Trace.eofs_append (a c : Trace) : (a ++ c).eofs = a.eofs + c.eofs := by
  simp [Trace.eofs, Trace.sends_append, List.filter_append]

@[simp] theorem Trace.sends_send (bs : Bytes) (e : Bool) : Trace.sends [WEv.send bs e] = [(bs, e)] := rfl
@[simp] theorem Trace.sends_hdr (h : Headers) : Trace.sends [WEv.hdr h] = [] := rfl
@[simp] theorem Trace.sends_flush : Trace.sends [WEv.asyncFlush] = [] := rfl
@[simp] theorem Trace.hdrs_send (bs : Bytes) (e : Bool) : Trace.hdrs [WEv.send bs e] = [] := rfl
@[simp] theorem Trace.hdrs_hdr (h : Headers) : Trace.hdrs [WEv.hdr h] = [h] := rfl
@[simp] theorem Trace.hdrs_flush : Trace.hdrs [WEv.asyncFlush] = [] := rfl
@[simp] theorem Trace.bytes_send (bs : Bytes) (e : Bool) : Trace.bytes [WEv.send bs e] = bs := by simp [Trace.bytes, Trace.sends, WEv.asSend]
@[simp] theorem Trace.bytes_hdr (h : Headers) : Trace.bytes [WEv.hdr h] = [] := rfl
@[simp] theorem Trace.bytes_nil : Trace.bytes [] = [] := rfl
@[simp] theorem Trace.sends_nil : Trace.sends [] = [] := rfl
@[simp] theorem Trace.hdrs_nil : Trace.hdrs [] = [] := rfl

/-- the event `set_response_headers` leaves in the trace when the raw header block completes -/
def hdrEv : Option Headers → Trace
  | some h => [WEv.hdr h]
  | none => []

theorem setHeaders_opt (k : Trace) (o : Option Headers) : (o.map (traceIf.setHeaders k)).getD k = k ++ hdrEv o := by
  cases o <;> simp [hdrEv, traceIf]

/-! ### the devices -/

theorem nextSize_gt (n : Nat) : n < Gen.nextSize n := by
  unfold Gen.nextSize; split <;> omega

theorem growTo_ge_start : ∀ (fuel rs m : Nat), rs ≤ growTo fuel rs m := by
  intro fuel
  induction fuel with
  | zero => intro rs m; simp [growTo]
  | succ f ih =>
    intro rs m
    rw [growTo]
    split
    · have := ih (rs * 2) m; omega
    · exact Nat.le_refl _

theorem growTo_ge_min : ∀ (fuel rs m : Nat), 0 < rs → m ≤ rs + fuel → m ≤ growTo fuel rs m := by
  intro fuel
  induction fuel with
  | zero => intro rs m _ h; simpa [growTo] using h
  | succ f ih =>
    intro rs m hp h
    rw [growTo]
    split
    · exact ih (rs * 2) m (by omega) (by omega)
    · omega

/-- what the connection receives of a byte string handed to `write`: everything, or — in the raw
modes — what is left once the application's own header block has been taken out -/
def filterOf (raw : Bool) (s : Bytes) : Bytes := if raw then rawPassed {} s else s

/-- device invariant relative to the bytes written into it (`inp`): `fed` is the part already handed to `write` -/
def Dev.Inv (d : Dev) (k : Trace) (inp : Bytes) : Prop :=
  ∃ fed, d.dead = false ∧ d.pos ≤ d.vec.length ∧ fed ++ d.vec.take d.pos = inp ∧
    k.bytes = filterOf d.rawMode fed ∧ (d.rawMode = true → d.raw = rawNext {} fed)

def eofFlag (d : Dev) : Bool := d.final && !d.eofSend

/-- what one device operation may do to the trace and to the fields the trace depends on: at most one
`set_response_headers` (raw modes, when the header block completes) and at most one `do_write`, which
carries the current eof flag -/
structure Step (d d' : Dev) (k k' : Trace) : Prop where
  final : d'.final = d.final
  mode : d'.rawMode = d.rawMode
  rawKeep : d.raw.done = true → d'.raw = d.raw
  ext : ∃ pre post, k' = k ++ pre ++ post ∧
    ((pre = [] ∧ (d.rawMode = true → d'.raw.done = d.raw.done)) ∨
     (pre = [WEv.hdr d'.raw.h] ∧ d.rawMode = true ∧ d.raw.done = false ∧ d'.raw.done = true)) ∧
    ((post = [] ∧ d'.eofSend = d.eofSend) ∨
     (∃ bs, post = [WEv.send bs (eofFlag d)] ∧ d'.eofSend = (d.eofSend || eofFlag d) ∧
        (d.rawMode = true → d'.raw.done = false → eofFlag d = true)))

/-- operations that only touch the buffer -/
theorem Step.of_fields {d d' : Dev} (k : Trace) (hf : d'.final = d.final) (hm : d'.rawMode = d.rawMode) (hr : d'.raw = d.raw)
    (he : d'.eofSend = d.eofSend) : Step d d' k k :=
  ⟨hf, hm, fun _ => hr, [], [], by simp, Or.inl ⟨rfl, fun _ => by rw [hr]⟩, Or.inl ⟨rfl, he⟩⟩

theorem Step.refl (d : Dev) (k : Trace) : Step d d k k := Step.of_fields k rfl rfl rfl rfl

/-- a step from a device that agrees with `d` on the relevant fields is a step from `d` -/
theorem Step.from {d d1 d' : Dev} {k k' : Trace} (h : Step d1 d' k k') (hf : d1.final = d.final) (hm : d1.rawMode = d.rawMode)
    (hr : d1.raw = d.raw) (he : d1.eofSend = d.eofSend) : Step d d' k k' := by
  have hflag : eofFlag d1 = eofFlag d := by simp [eofFlag, hf, he]
  obtain ⟨h1, h2, h3, pre, post, h4, h5, h6⟩ := h
  refine ⟨by rw [h1, hf], by rw [h2, hm], by rw [← hr]; exact h3, pre, post, h4, ?_, ?_⟩
  · rw [← hm, ← hr]; exact h5
  · rw [← hm, ← he, ← hflag]; exact h6

/-- a step into a device that agrees with `d'` on the relevant fields -/
theorem Step.into {d d' d2 : Dev} {k k' : Trace} (h : Step d d' k k') (hf : d2.final = d'.final) (hm : d2.rawMode = d'.rawMode)
    (hr : d2.raw = d'.raw) (he : d2.eofSend = d'.eofSend) : Step d d2 k k' := by
  obtain ⟨h1, h2, h3, pre, post, h4, h5, h6⟩ := h
  refine ⟨by rw [hf, h1], by rw [hm, h2], by rw [hr]; exact h3, pre, post, h4, ?_, ?_⟩
  · rw [hr]; exact h5
  · rw [he, hr]; exact h6

theorem Step.sends {d d' : Dev} {k k' : Trace} (h : Step d d' k k') :
    k'.sends = k.sends ∨ ∃ bs, k'.sends = k.sends ++ [(bs, eofFlag d)] := by
  obtain ⟨_, _, _, pre, post, h4, h5, h6⟩ := h
  have hp : pre.sends = [] := by
    rcases h5 with ⟨hp, _⟩ | ⟨hp, _⟩ <;> rw [hp] <;> rfl
  rcases h6 with ⟨hq, _⟩ | ⟨bs, hq, _⟩
  · left; rw [h4, Trace.sends_append, Trace.sends_append, hp, hq]; simp
  · right; exact ⟨bs, by rw [h4, Trace.sends_append, Trace.sends_append, hp, hq]; simp⟩

theorem Step.extends {d d' : Dev} {k k' : Trace} (h : Step d d' k k') : ∃ e : Trace, k' = k ++ e :=
  let ⟨_, _, _, pre, post, h4, _, _⟩ := h
  ⟨pre ++ post, by rw [h4, List.append_assoc]⟩

theorem Step.eofs {d d' : Dev} {k k' : Trace} (h : Step d d' k k') (hf : eofFlag d = false) : k'.eofs = k.eofs := by
  rcases h.sends with hs | ⟨bs, hs⟩
  · simp [Trace.eofs, hs]
  · simp [Trace.eofs, hs, hf, List.filter_append]

theorem Step.hdrs_nonraw {d d' : Dev} {k k' : Trace} (h : Step d d' k k') (hm : d.rawMode = false) : k'.hdrs = k.hdrs := by
  obtain ⟨_, _, _, pre, post, h4, h5, h6⟩ := h
  have hp : pre = [] := by
    rcases h5 with ⟨hp, _⟩ | ⟨_, hr, _⟩
    · exact hp
    · rw [hm] at hr; cases hr
  have hq : post.hdrs = [] := by
    rcases h6 with ⟨hq, _⟩ | ⟨bs, hq, _⟩ <;> rw [hq] <;> rfl
  rw [h4, hp, List.append_nil, Trace.hdrs_append, hq, List.append_nil]

/-- `write(content ++ extra)`: the device afterwards (buffer untouched) and the trace -/
theorem Dev.write_inv (d : Dev) (k : Trace) (inp : Bytes) (extra : Bytes) (out : List Bytes) (hout : out.flatten = d.content ++ extra)
    (h : d.Inv k inp) :
    ∃ d' k', d.write traceIf k out = (d', k', true) ∧ d'.dead = false ∧
      d'.vec = d.vec ∧ d'.pos = d.pos ∧ d'.bufferSize = d.bufferSize ∧ d'.isAsync = d.isAsync ∧ d'.fullBuffering = d.fullBuffering ∧
      k'.bytes = filterOf d.rawMode (inp ++ extra) ∧ (d.rawMode = true → d'.raw = rawNext {} (inp ++ extra)) ∧
      Step d d' k k' ∧
      (eofFlag d = true → k'.sends = k.sends ++ [((filterOf d.rawMode (inp ++ extra)).drop k.bytes.length, true)]) ∧
      d'.eofSend = (d.eofSend || eofFlag d) := by
  obtain ⟨fed, hd, hp, hi, hk, hr⟩ := h
  have hfe : fed ++ (d.content ++ extra) = inp ++ extra := by unfold Dev.content; rw [← List.append_assoc, hi]
  unfold Dev.write
  simp only [hd, Bool.false_eq_true, if_false]
  by_cases hraw : d.rawMode = true
  · have hrw := hr hraw
    simp only [hraw, Bool.true_and, filterOf, if_true] at hk ⊢
    have ⟨ca1, ca2⟩ := consume_append fed {} (d.content ++ extra)
    rw [hfe] at ca1 ca2
    by_cases hdone : d.raw.done = true
    · -- header block complete: everything goes through
      simp only [hdone, Bool.not_true, Bool.false_eq_true, if_false, traceIf, if_true, hout]
      have hc := consume_done d.raw hdone (d.content ++ extra)
      have hpass : rawPassed (rawNext {} fed) (d.content ++ extra) = d.content ++ extra := by rw [← hrw]; simp [rawPassed, hc]
      have hnext : rawNext (rawNext {} fed) (d.content ++ extra) = d.raw := by rw [← hrw]; simp [rawNext, hc]
      refine ⟨_, _, rfl, (by first | exact hd | rfl), rfl, rfl, rfl, rfl, rfl, ?_, ?_, ?_, ?_, rfl⟩
      · rw [Trace.bytes_append, hk, ca2, hpass, Trace.bytes_send]
      · intro _; rw [ca1, hnext]
      · refine ⟨rfl, (by simp [hraw]), fun _ => rfl, [], [WEv.send (d.content ++ extra) (d.final && !d.eofSend)], by simp,
          Or.inl ⟨rfl, fun _ => rfl⟩, Or.inr ⟨_, rfl, rfl, ?_⟩⟩
        intro _ hnd
        rw [hdone] at hnd; cases hnd
      · intro hf
        simp only [eofFlag] at hf
        rw [Trace.sends_append, hf, ca2, hpass, ← hk]
        simp
    · simp only [Bool.not_eq_true] at hdone
      simp only [hdone, Bool.not_false, if_true, hout, setHeaders_opt]
      have hnext : (d.raw.consume (d.content ++ extra)).1 = rawNext {} (inp ++ extra) := by rw [ca1, ← hrw]; rfl
      have hpass : (d.raw.consume (d.content ++ extra)).2.1 = rawPassed (rawNext {} fed) (d.content ++ extra) := by rw [← hrw]; rfl
      have hh := consume_hdr (d.content ++ extra) d.raw hdone
      by_cases hsend : ((d.raw.consume (d.content ++ extra)).1.done || (d.final && !d.eofSend)) = true
      · simp only [hsend, if_true, traceIf]
        refine ⟨_, _, rfl, (by first | exact hd | rfl), rfl, rfl, rfl, rfl, rfl, ?_, ?_, ?_, ?_, rfl⟩
        · rw [Trace.bytes_append, Trace.bytes_append, hk, ca2, hpass]
          rcases hh with ⟨h1, _⟩ | ⟨h1, _⟩ <;> simp [h1, hdrEv]
        · intro _; exact hnext
        · refine ⟨rfl, (by simp [hraw]), (fun hdn => by rw [hdone] at hdn; cases hdn), hdrEv (d.raw.consume (d.content ++ extra)).2.2,
            [WEv.send (d.raw.consume (d.content ++ extra)).2.1 (d.final && !d.eofSend)], by simp, ?_, Or.inr ⟨_, rfl, rfl, ?_⟩⟩
          · rcases hh with ⟨h1, h2⟩ | ⟨h1, h2⟩
            · right; exact ⟨by rw [h1]; rfl, hraw, hdone, h2⟩
            · left; exact ⟨by rw [h1]; rfl, fun _ => by show (d.raw.consume (d.content ++ extra)).1.done = d.raw.done; rw [h2, hdone]⟩
          · intro _ hnd
            have hnd' : (d.raw.consume (d.content ++ extra)).1.done = false := hnd
            simp only [hnd', Bool.false_or] at hsend
            exact hsend
        · intro hf
          simp only [eofFlag] at hf
          rw [Trace.sends_append, Trace.sends_append, hf, ca2, hpass, ← hk]
          rcases hh with ⟨h1, _⟩ | ⟨h1, _⟩ <;> simp [h1, hdrEv]
      · simp only [hsend, Bool.false_eq_true, if_false]
        simp only [Bool.or_eq_true, not_or, Bool.not_eq_true] at hsend
        have hempty := consume_not_done (d.content ++ extra) d.raw hsend.1
        have hnone : (d.raw.consume (d.content ++ extra)).2.2 = none := by
          rcases hh with ⟨_, h2⟩ | ⟨h1, _⟩
          · rw [hsend.1] at h2; cases h2
          · exact h1
        refine ⟨_, _, rfl, (by first | exact hd | rfl), rfl, rfl, rfl, rfl, rfl, ?_, ?_, ?_, ?_, rfl⟩
        · rw [hnone]; simp only [hdrEv, List.append_nil]
          rw [hk, ca2, ← hpass, hempty, List.append_nil]
        · intro _; exact hnext
        · refine ⟨rfl, (by simp [hraw]), (fun hdn => by rw [hdone] at hdn; cases hdn), [], [], (by rw [hnone]; simp [hdrEv]), Or.inl ⟨rfl, fun _ => ?_⟩, Or.inl ⟨rfl, ?_⟩⟩
          · show (d.raw.consume (d.content ++ extra)).1.done = d.raw.done; rw [hsend.1, hdone]
          · show (d.eofSend || (d.final && !d.eofSend)) = d.eofSend
            rw [hsend.2, Bool.or_false]
        · intro hf; simp only [eofFlag] at hf; rw [hsend.2] at hf; cases hf
  · simp only [Bool.not_eq_true] at hraw
    simp only [hraw, Bool.false_and, Bool.false_eq_true, if_false, traceIf, if_true, hout, filterOf] at hk ⊢
    refine ⟨_, _, rfl, (by first | exact hd | rfl), rfl, rfl, rfl, rfl, rfl, ?_, ?_, ?_, ?_, rfl⟩
    · rw [Trace.bytes_append, hk, Trace.bytes_send, hfe]
    · intro h; cases h
    · refine ⟨rfl, (by simp [hraw]), fun _ => rfl, [], [WEv.send (d.content ++ extra) (d.final && !d.eofSend)], by simp,
        Or.inl ⟨rfl, fun h => by rw [hraw] at h⟩, Or.inr ⟨_, rfl, rfl, fun h => by rw [hraw] at h; cases h⟩⟩
    · intro hf
      simp only [eofFlag] at hf
      rw [Trace.sends_append, hf, ← hfe, ← hk]
      simp


/-- after a successful write the buffer is reset; the invariant holds with everything fed -/
theorem Dev.inv_reset (d' : Dev) (k' : Trace) (all : Bytes) (v : Bytes) (hd : d'.dead = false)
    (hk : k'.bytes = filterOf d'.rawMode all) (hr : d'.rawMode = true → d'.raw = rawNext {} all) :
    ({ d' with vec := v, pos := 0 } : Dev).Inv k' all :=
  ⟨all, hd, Nat.zero_le _, by simp, hk, hr⟩

/-- the common tail of `overflow` / `xsputn`: `write(content ++ extra)`, then `do_setp` -/
theorem Dev.writeThenSetp_inv (d : Dev) (k : Trace) (inp extra : Bytes) (out : List Bytes) (hout : out.flatten = d.content ++ extra)
    (h : d.Inv k inp) :
    ((if (d.write traceIf k out).2.2 = true then ((d.write traceIf k out).1.doSetp, (d.write traceIf k out).2.1)
      else ((d.write traceIf k out).1, (d.write traceIf k out).2.1)) : Dev × Trace).1.Inv
      ((if (d.write traceIf k out).2.2 = true then ((d.write traceIf k out).1.doSetp, (d.write traceIf k out).2.1)
        else ((d.write traceIf k out).1, (d.write traceIf k out).2.1)) : Dev × Trace).2 (inp ++ extra) ∧
    Step d ((if (d.write traceIf k out).2.2 = true then ((d.write traceIf k out).1.doSetp, (d.write traceIf k out).2.1)
        else ((d.write traceIf k out).1, (d.write traceIf k out).2.1)) : Dev × Trace).1 k
      ((if (d.write traceIf k out).2.2 = true then ((d.write traceIf k out).1.doSetp, (d.write traceIf k out).2.1)
        else ((d.write traceIf k out).1, (d.write traceIf k out).2.1)) : Dev × Trace).2 := by
  obtain ⟨d', k', hw, w1, _, _, _, _, _, w10, w11, w12, _, _⟩ := Dev.write_inv d k inp extra out hout h
  rw [hw]
  simp only [if_true]
  have hm := w12.mode
  refine ⟨Dev.inv_reset d' k' _ _ w1 (by rw [hm]; exact w10) (by rw [hm]; exact w11), ?_⟩
  exact w12.into rfl rfl rfl rfl

theorem Dev.basicOverflow_inv (d : Dev) (k : Trace) (inp : Bytes) (c : Option UInt8) (h : d.Inv k inp) :
    (d.basicOverflow traceIf k c).1.Inv (d.basicOverflow traceIf k c).2 (inp ++ c.toList) ∧
    Step d (d.basicOverflow traceIf k c).1 k (d.basicOverflow traceIf k c).2 := by
  cases c with
  | none =>
    have := Dev.writeThenSetp_inv d k inp [] [d.content] (by simp) h
    simpa [Dev.basicOverflow] using this
  | some c =>
    have := Dev.writeThenSetp_inv d k inp [c] [d.content, [c]] (by simp) h
    simpa [Dev.basicOverflow] using this

theorem Dev.pokeBlock_inv (d : Dev) (k : Trace) (inp s : Bytes) (h : d.Inv k inp) (hfit : d.pos + s.length ≤ d.vec.length) :
    ({ d with vec := poke d.vec d.pos s, pos := d.pos + s.length } : Dev).Inv k (inp ++ s) := by
  obtain ⟨fed, hd, hp, hi, hk, hr⟩ := h
  refine ⟨fed, hd, ?_, ?_, hk, hr⟩
  · show d.pos + s.length ≤ (poke d.vec d.pos s).length
    rw [poke_length _ _ _ hfit]; exact hfit
  · show fed ++ (poke d.vec d.pos s).take (d.pos + s.length) = inp ++ s
    rw [poke_take _ _ _ hfit, ← List.append_assoc, hi]

theorem Dev.basicXsputn_inv (d : Dev) (k : Trace) (inp s : Bytes) (h : d.Inv k inp) :
    (d.basicXsputn traceIf k s).1.Inv (d.basicXsputn traceIf k s).2 (inp ++ s) ∧
    Step d (d.basicXsputn traceIf k s).1 k (d.basicXsputn traceIf k s).2 := by
  unfold Dev.basicXsputn
  by_cases hfit : s.length ≤ d.vec.length - d.pos
  · simp only [hfit, if_true]
    have hp := h.choose_spec.2.1
    by_cases he : s.isEmpty = true
    · have : s = [] := by simpa [List.isEmpty_iff] using he
      subst this
      simp only [List.isEmpty_nil, if_true, List.append_nil]
      exact ⟨h, Step.refl d k⟩
    · simp only [he, Bool.false_eq_true, if_false]
      exact ⟨Dev.pokeBlock_inv d k inp s h (by omega), Step.of_fields k rfl rfl rfl rfl⟩
  · simp only [hfit, if_false]
    exact Dev.writeThenSetp_inv d k inp s [d.content, s] (by simp) h

theorem Dev.flush_inv (d : Dev) (k : Trace) (inp : Bytes) (h : d.Inv k inp) :
    (d.flush traceIf k).1.Inv (d.flush traceIf k).2.1 inp ∧ (d.flush traceIf k).1.pos = 0 ∧ (d.flush traceIf k).2.2 = true ∧
    Step d (d.flush traceIf k).1 k (d.flush traceIf k).2.1 ∧
    (d.flush traceIf k).2.1.bytes = filterOf d.rawMode inp ∧
    (eofFlag d = true → (d.flush traceIf k).2.1.sends = k.sends ++ [((filterOf d.rawMode inp).drop k.bytes.length, true)]) ∧
    (d.flush traceIf k).1.eofSend = (d.eofSend || eofFlag d) := by
  obtain ⟨d', k', hw, w1, w3, _, _, _, _, w10, w11, w12, w13, w14⟩ :=
    Dev.write_inv d k inp [] [d.content] (by simp) h
  simp only [List.append_nil] at w10 w11 w13
  unfold Dev.flush
  rw [hw]
  have hm := w12.mode
  refine ⟨?_, rfl, rfl, w12.into rfl rfl rfl rfl, w10, w13, w14⟩
  exact Dev.inv_reset d' k' inp d'.vec w1 (by rw [hm]; exact w10) (by rw [hm]; exact w11)

theorem Dev.basicSetbuf_inv (d : Dev) (k : Trace) (inp : Bytes) (size : Nat) (h : d.Inv k inp) :
    (d.basicSetbuf traceIf k size).1.Inv (d.basicSetbuf traceIf k size).2 inp ∧ Step d (d.basicSetbuf traceIf k size).1 k (d.basicSetbuf traceIf k size).2 := by
  unfold Dev.basicSetbuf
  simp only
  by_cases hgt : d.pos > size
  · simp only [hgt, if_true]
    have hinv0 : ({ d with bufferSize := size } : Dev).Inv k inp := h
    have ⟨f1, f2, f3, f4, _⟩ := Dev.flush_inv { d with bufferSize := size } k inp hinv0
    simp only [f3, if_true]
    refine ⟨?_, (Step.from (d := d) f4 rfl rfl rfl rfl).into rfl rfl rfl rfl⟩
    obtain ⟨fed, g1, g2, g3, g4, g5⟩ := f1
    refine ⟨fed, g1, Nat.zero_le _, ?_, g4, g5⟩
    rw [f2] at g3
    show fed ++ (resize _ _).take 0 = inp
    simpa using g3
  · simp only [hgt, if_false]
    obtain ⟨fed, hd, hp, hi, hk, hr⟩ := h
    refine ⟨⟨fed, hd, ?_, ?_, hk, hr⟩, Step.of_fields k rfl rfl rfl rfl⟩
    · show d.pos ≤ (resize d.vec size).length
      rw [resize_length]; omega
    · show fed ++ (resize d.vec size).take d.pos = inp
      rw [resize_take _ _ _ hp (by omega)]; exact hi

theorem Dev.setbuf_inv (d : Dev) (k : Trace) (inp : Bytes) (size : Nat) (h : d.Inv k inp) :
    (d.setbuf traceIf k size).1.Inv (d.setbuf traceIf k size).2 inp ∧ Step d (d.setbuf traceIf k size).1 k (d.setbuf traceIf k size).2 := by
  unfold Dev.setbuf
  by_cases hm : (d.isAsync && d.fullBuffering) = true
  · simp only [hm, if_true]
    obtain ⟨fed, hd, hp, hi, hk, hr⟩ := h
    refine ⟨⟨fed, hd, ?_, ?_, hk, hr⟩, Step.of_fields k rfl rfl rfl rfl⟩
    · show d.pos ≤ (resize d.vec (if d.pos > size then d.pos else size)).length
      rw [resize_length]; split <;> omega
    · show fed ++ (resize d.vec (if d.pos > size then d.pos else size)).take d.pos = inp
      rw [resize_take _ _ _ hp (by split <;> omega)]; exact hi
  · simp only [hm, Bool.false_eq_true, if_false]
    exact Dev.basicSetbuf_inv d k inp size h

theorem Dev.overflow_inv (d : Dev) (k : Trace) (inp : Bytes) (c : Option UInt8) (h : d.Inv k inp) :
    (d.overflow traceIf k c).1.Inv (d.overflow traceIf k c).2 (inp ++ c.toList) ∧ Step d (d.overflow traceIf k c).1 k (d.overflow traceIf k c).2 := by
  unfold Dev.overflow
  by_cases hm : (d.isAsync && d.fullBuffering) = true
  · simp only [hm, if_true]
    have h' := h
    obtain ⟨fed, hd, hp, hi, hk, hr⟩ := h
    have hg : ∃ d1 : Dev, (if d.pos = d.vec.length then { d with vec := resize d.vec (Gen.nextSize d.vec.length) } else d) = d1 ∧
        d1.Inv k inp ∧ d1.pos < d1.vec.length ∧ d1.final = d.final ∧ d1.eofSend = d.eofSend ∧ d1.rawMode = d.rawMode ∧ d1.raw = d.raw := by
      by_cases hf : d.pos = d.vec.length
      · refine ⟨_, rfl, ?_⟩
        rw [if_pos hf]
        have hn := nextSize_gt d.vec.length
        refine ⟨⟨fed, hd, ?_, ?_, hk, hr⟩, ?_, rfl, rfl, rfl, rfl⟩
        · show d.pos ≤ (resize d.vec (Gen.nextSize d.vec.length)).length
          rw [resize_length]; omega
        · show fed ++ (resize d.vec (Gen.nextSize d.vec.length)).take d.pos = inp
          rw [resize_take _ _ _ hp (by omega)]; exact hi
        · show d.pos < (resize d.vec (Gen.nextSize d.vec.length)).length
          rw [resize_length]; omega
      · refine ⟨d, by simp [hf], h', by omega, rfl, rfl, rfl, rfl⟩
    obtain ⟨d1, hd1, hinv1, hroom, hf1, he1, hm1, hr1⟩ := hg
    rw [hd1]
    cases c with
    | none =>
      simp only [Option.toList_none, List.append_nil]
      exact ⟨hinv1, Step.of_fields k hf1 hm1 hr1 he1⟩
    | some c =>
      simp only [Option.toList_some]
      have := Dev.pokeBlock_inv d1 k inp [c] hinv1 (by simp only [List.length_cons, List.length_nil]; omega)
      exact ⟨this, Step.of_fields k hf1 hm1 hr1 he1⟩
  · simp only [hm, Bool.false_eq_true, if_false]
    exact Dev.basicOverflow_inv d k inp c h

theorem Dev.xsputn_inv (d : Dev) (k : Trace) (inp s : Bytes) (h : d.Inv k inp) :
    (d.xsputn traceIf k s).1.Inv (d.xsputn traceIf k s).2 (inp ++ s) ∧ Step d (d.xsputn traceIf k s).1 k (d.xsputn traceIf k s).2 := by
  unfold Dev.xsputn
  by_cases hm : (d.isAsync && d.fullBuffering) = true
  · simp only [hm, if_true]
    have h' := h
    obtain ⟨fed, hd, hp, hi, hk, hr⟩ := h
    have hg : ∃ d1 : Dev, (if d.vec.length - d.pos < s.length then
          { d with vec := resize d.vec (growTo (d.pos + s.length + 1) (Gen.nextSize d.vec.length) (d.pos + s.length)) } else d) = d1 ∧
        d1.Inv k inp ∧ d1.pos + s.length ≤ d1.vec.length ∧ d1.final = d.final ∧ d1.eofSend = d.eofSend ∧ d1.rawMode = d.rawMode ∧ d1.raw = d.raw := by
      by_cases hf : d.vec.length - d.pos < s.length
      · refine ⟨_, rfl, ?_⟩
        simp only [hf, if_true]
        have hn := nextSize_gt d.vec.length
        have g1 := growTo_ge_start (d.pos + s.length + 1) (Gen.nextSize d.vec.length) (d.pos + s.length)
        have g2 := growTo_ge_min (d.pos + s.length + 1) (Gen.nextSize d.vec.length) (d.pos + s.length) (by omega) (by omega)
        refine ⟨⟨fed, hd, ?_, ?_, hk, hr⟩, ?_, (by rt), (by rt), (by rt), (by rt)⟩
        · show d.pos ≤ (resize d.vec _).length
          rw [resize_length]; omega
        · show fed ++ (resize d.vec _).take d.pos = inp
          rw [resize_take _ _ _ hp (by omega)]; exact hi
        · show d.pos + s.length ≤ (resize d.vec _).length
          rw [resize_length]; exact g2
      · refine ⟨d, by simp [hf], h', by omega, rfl, rfl, rfl, rfl⟩
    obtain ⟨d1, hd1, hinv1, hroom, hf1, he1, hm1, hr1⟩ := hg
    rw [hd1]
    by_cases he : s.isEmpty = true
    · have : s = [] := by simpa [List.isEmpty_iff] using he
      subst this
      simp only [List.isEmpty_nil, if_true, List.append_nil]
      exact ⟨hinv1, Step.of_fields k hf1 hm1 hr1 he1⟩
    · simp only [he, Bool.false_eq_true, if_false]
      exact ⟨Dev.pokeBlock_inv d1 k inp s hinv1 hroom, Step.of_fields k hf1 hm1 hr1 he1⟩
  · simp only [hm, Bool.false_eq_true, if_false]
    exact Dev.basicXsputn_inv d k inp s h

theorem Dev.sputc_inv (d : Dev) (k : Trace) (inp : Bytes) (c : UInt8) (h : d.Inv k inp) :
    (d.sputc traceIf k c).1.Inv (d.sputc traceIf k c).2 (inp ++ [c]) ∧ Step d (d.sputc traceIf k c).1 k (d.sputc traceIf k c).2 := by
  unfold Dev.sputc
  by_cases hr : d.pos < d.vec.length
  · simp only [hr, if_true]
    have := Dev.pokeBlock_inv d k inp [c] h (by simp only [List.length_cons, List.length_nil]; omega)
    exact ⟨this, Step.of_fields k rfl rfl rfl rfl⟩
  · simp only [hr, if_false]
    have := Dev.overflow_inv d k inp (some c) h
    simpa using this

theorem Dev.sync_inv (d : Dev) (k : Trace) (inp : Bytes) (h : d.Inv k inp) :
    (d.sync traceIf k).1.Inv (d.sync traceIf k).2 inp ∧ Step d (d.sync traceIf k).1 k (d.sync traceIf k).2 := by
  have := Dev.overflow_inv d k inp none h
  simpa [Dev.sync] using this

theorem Dev.setFullBuffering_inv (d : Dev) (k : Trace) (inp : Bytes) (v : Bool) (h : d.Inv k inp) :
    (d.setFullBuffering traceIf k v).1.Inv (d.setFullBuffering traceIf k v).2 inp ∧
    Step d (d.setFullBuffering traceIf k v).1 k (d.setFullBuffering traceIf k v).2 := by
  unfold Dev.setFullBuffering
  by_cases he : d.fullBuffering = v
  · simp only [he, if_true]
    exact ⟨h, Step.refl d k⟩
  · simp only [he, if_false]
    have h1 : ({ d with fullBuffering := v } : Dev).Inv k inp := h
    cases v with
    | true => simp only [Bool.not_true, Bool.false_eq_true, if_false]; exact ⟨h1, Step.of_fields k rfl rfl rfl rfl⟩
    | false =>
      simp only [Bool.not_false, if_true]
      have := Dev.setbuf_inv _ k inp d.bufferSize h1
      exact ⟨this.1, Step.from (d := d) this.2 rfl rfl rfl rfl⟩

/-! ### traces of device operations -/

/-- what the layers above (or the application, through `std::ostream` and `response`) can do to a device -/
inductive DevOp where
  | put (s : Bytes)        -- sputn
  | putc (c : UInt8)       -- sputc
  | sync                   -- pubsync (ostream::flush)
  | flush                  -- response::flush_async_chunk
  | setbuf (n : Nat)       -- response::setbuf
  | fullBuf (v : Bool)     -- response::full_asynchronous_buffering
  deriving Repr, DecidableEq, Inhabited

def DevOp.data : DevOp → Bytes
  | .put s => s
  | .putc c => [c]
  | _ => []

def Dev.step (x : Dev × Trace) : DevOp → Dev × Trace
  | .put s => x.1.xsputn traceIf x.2 s
  | .putc c => x.1.sputc traceIf x.2 c
  | .sync => x.1.sync traceIf x.2
  | .flush => let r := x.1.flush traceIf x.2; (r.1, r.2.1)
  | .setbuf n => x.1.setbuf traceIf x.2 n
  | .fullBuf v => x.1.setFullBuffering traceIf x.2 v

def Dev.run (x : Dev × Trace) (ops : List DevOp) : Dev × Trace := ops.foldl Dev.step x

theorem Dev.step_spec (d : Dev) (k : Trace) (inp : Bytes) (op : DevOp) (h : d.Inv k inp) :
    (Dev.step (d, k) op).1.Inv (Dev.step (d, k) op).2 (inp ++ op.data) ∧ Step d (Dev.step (d, k) op).1 k (Dev.step (d, k) op).2 := by
  cases op with
  | put s => exact Dev.xsputn_inv d k inp s h
  | putc c => exact Dev.sputc_inv d k inp c h
  | sync => simpa [DevOp.data, Dev.step] using Dev.sync_inv d k inp h
  | flush =>
    have ⟨f1, _, _, f4, _⟩ := Dev.flush_inv d k inp h
    simp only [DevOp.data, List.append_nil, Dev.step]
    exact ⟨f1, f4⟩
  | setbuf n => simpa [DevOp.data, Dev.step] using Dev.setbuf_inv d k inp n h
  | fullBuf v => simpa [DevOp.data, Dev.step] using Dev.setFullBuffering_inv d k inp v h

/-- no eof has been announced yet -/
def Quiet (d : Dev) (k : Trace) : Prop := d.final = false ∧ d.eofSend = false ∧ k.eofs = 0

theorem Quiet.flag {d : Dev} {k : Trace} (q : Quiet d k) : eofFlag d = false := by simp [eofFlag, q.1]

theorem Quiet.step {d d' : Dev} {k k' : Trace} (q : Quiet d k) (h : Step d d' k k') : Quiet d' k' := by
  have hf := q.flag
  obtain ⟨q1, q2, q3⟩ := q
  refine ⟨by rw [h.final, q1], ?_, by rw [h.eofs hf, q3]⟩
  obtain ⟨_, _, _, pre, post, _, _, h6⟩ := h
  rcases h6 with ⟨_, he⟩ | ⟨bs, _, he, _⟩
  · rw [he, q2]
  · rw [he, q2, hf]; rfl

/-- the end of the response has been announced: it stays announced, nothing announces it again -/
def Sealed (d : Dev) : Prop := d.final = true ∧ d.eofSend = true

theorem Sealed.flag {d : Dev} (s : Sealed d) : eofFlag d = false := by simp [eofFlag, s.1, s.2]

theorem Sealed.step {d d' : Dev} {k k' : Trace} (s : Sealed d) (h : Step d d' k k') : Sealed d' ∧ k'.eofs = k.eofs := by
  have hf := s.flag
  refine ⟨⟨by rw [h.final, s.1], ?_⟩, h.eofs hf⟩
  obtain ⟨_, _, _, pre, post, _, _, h6⟩ := h
  rcases h6 with ⟨_, he⟩ | ⟨bs, _, he, _⟩
  · rw [he, s.2]
  · rw [he, s.2]; rfl

/-- raw modes: nothing is sent before the application's header block has been handed to the connection -/
def RawOk (d : Dev) (k : Trace) : Prop :=
  d.rawMode = true →
    (d.raw.done = false → k.sends = [] ∧ k.hdrs = []) ∧
    (d.raw.done = true → ∃ a c : Trace, k = a ++ WEv.hdr d.raw.h :: c ∧ a.sends = [] ∧ a.hdrs = [] ∧ c.hdrs = [])

theorem RawOk.step {d d' : Dev} {k k' : Trace} (r : RawOk d k) (h : Step d d' k k')
    (hf : eofFlag d = false ∨ d'.raw.done = true) : RawOk d' k' := by
  unfold RawOk
  intro hm'
  have hm : d.rawMode = true := by rw [← h.mode]; exact hm'
  obtain ⟨r1, r2⟩ := r hm
  obtain ⟨_, _, hkeep, pre, post, h4, h5, h6⟩ := h
  have hposth : post.hdrs = [] := by
    rcases h6 with ⟨hq, _⟩ | ⟨bs, hq, _⟩ <;> rw [hq] <;> rfl
  by_cases hd : d.raw.done = true
  · -- already complete: the parser does not change any more
    have hraw := hkeep hd
    have hpre : pre = [] := by
      rcases h5 with ⟨hp, _⟩ | ⟨_, _, hnd, _⟩
      · exact hp
      · rw [hd] at hnd; cases hnd
    obtain ⟨a, c, hk, ha1, ha2, hc⟩ := r2 hd
    rw [hraw]
    refine ⟨(fun hnd => by rw [hd] at hnd; cases hnd), fun _ => ⟨a, c ++ post, ?_, ha1, ha2, ?_⟩⟩
    · rw [h4, hpre, List.append_nil, hk]; simp
    · rw [Trace.hdrs_append, hc, hposth]; rfl
  · simp only [Bool.not_eq_true] at hd
    obtain ⟨hs0, hh0⟩ := r1 hd
    rcases h5 with ⟨hp, hsame⟩ | ⟨hp, _, _, hdone'⟩
    · -- still incomplete: nothing may have been sent
      have hnd' : d'.raw.done = false := by rw [hsame hm]; exact hd
      have hpost : post = [] := by
        rcases h6 with ⟨hq, _⟩ | ⟨bs, _, _, hq⟩
        · exact hq
        · have := hq hm hnd'
          rcases hf with hf | hf
          · rw [hf] at this; cases this
          · rw [hnd'] at hf; cases hf
      refine ⟨fun _ => ?_, (fun hdn => by rw [hnd'] at hdn; cases hdn)⟩
      rw [h4, hp, hpost]
      simp only [List.append_nil]
      exact ⟨hs0, hh0⟩
    · -- completed by this write: the header set goes first
      refine ⟨(fun hnd => by rw [hdone'] at hnd; cases hnd), fun _ => ⟨k, post, ?_, hs0, hh0, hposth⟩⟩
      rw [h4, hp]; simp

theorem RawOk.append_flush {d : Dev} {k : Trace} (r : RawOk d k) : RawOk d (k ++ [WEv.asyncFlush]) := by
  unfold RawOk
  intro hm
  obtain ⟨r1, r2⟩ := r hm
  refine ⟨fun hd => ?_, fun hd => ?_⟩
  · obtain ⟨a, c⟩ := r1 hd
    simp [Trace.sends_append, Trace.hdrs_append, a, c]
  · obtain ⟨a, c, hk, h1, h2, h3⟩ := r2 hd
    exact ⟨a, c ++ [WEv.asyncFlush], by rw [hk]; simp, h1, h2, by rw [Trace.hdrs_append, h3]; rfl⟩

/-- everything the composition needs to know about a device that has not been closed yet -/
structure DevGood (d : Dev) (k : Trace) (inp : Bytes) : Prop where
  inv : d.Inv k inp
  quiet : Quiet d k
  raw : RawOk d k

theorem DevGood.step {d d' : Dev} {k k' : Trace} {inp inp' : Bytes} (g : DevGood d k inp) (hi : d'.Inv k' inp') (h : Step d d' k k') :
    DevGood d' k' inp' :=
  ⟨hi, g.quiet.step h, g.raw.step h (Or.inl g.quiet.flag)⟩

theorem Dev.run_good : ∀ (ops : List DevOp) (d : Dev) (k : Trace) (inp : Bytes), DevGood d k inp →
    DevGood (Dev.run (d, k) ops).1 (Dev.run (d, k) ops).2 (inp ++ (ops.map DevOp.data).flatten) ∧
    (Dev.run (d, k) ops).1.rawMode = d.rawMode ∧
    (d.rawMode = false → (Dev.run (d, k) ops).2.hdrs = k.hdrs) ∧
    (∃ e : Trace, (Dev.run (d, k) ops).2 = k ++ e) := by
  intro ops
  induction ops with
  | nil =>
    intro d k inp g
    simp only [Dev.run, List.foldl_nil, List.map_nil, List.flatten_nil, List.append_nil]
    exact ⟨g, trivial, fun _ => trivial, [], by simp⟩
  | cons op ops ih =>
    intro d k inp g
    have ⟨h1, s1⟩ := Dev.step_spec d k inp op g.inv
    have g1 := g.step h1 s1
    have ⟨g2, m2, hh2, e2, he2⟩ := ih _ _ _ g1
    obtain ⟨e1, he1⟩ := s1.extends
    simp only [Dev.run, List.foldl_cons, List.map_cons, List.flatten_cons] at *
    rw [← List.append_assoc]
    refine ⟨g2, by rw [m2, s1.mode], fun hm => ?_, e1 ++ e2, by rw [he2, he1, List.append_assoc]⟩
    rw [hh2 (by rw [s1.mode]; exact hm), s1.hdrs_nonraw hm]

theorem Dev.fresh_inv (isAsync full raw : Bool) (n : Nat) (k : Trace) (hk : k.sends = []) :
    (Dev.fresh isAsync full raw n).Inv k [] ∧ Quiet (Dev.fresh isAsync full raw n) k ∧ (Dev.fresh isAsync full raw n).rawMode = raw := by
  have hb : k.bytes = [] := by simp [Trace.bytes, hk]
  have he : k.eofs = 0 := by simp [Trace.eofs, hk]
  refine ⟨⟨[], rfl, Nat.zero_le _, ?_, ?_, ?_⟩, ⟨rfl, rfl, he⟩, rfl⟩
  · simp [Dev.fresh, Dev.open, Dev.doSetp]
  · rw [hb]; cases raw <;> simp [filterOf, Dev.fresh, Dev.open, Dev.doSetp, rawPassed, RawParser.consume]
  · intro _; simp [Dev.fresh, Dev.open, Dev.doSetp, rawNext, RawParser.consume]

/-- `close()` of a device that has not announced eof: the buffer is flushed with the eof mark, exactly once -/
theorem Dev.close_spec (d : Dev) (k : Trace) (inp : Bytes) (g : DevGood d k inp) :
    (d.close traceIf k).2.bytes = filterOf d.rawMode inp ∧ (d.close traceIf k).1.content = [] ∧ (d.close traceIf k).2.eofs = 1 ∧
    (d.close traceIf k).2.sends = k.sends ++ [((filterOf d.rawMode inp).drop k.bytes.length, true)] ∧
    (d.close traceIf k).1.Inv (d.close traceIf k).2 inp ∧ Sealed (d.close traceIf k).1 ∧
    ((d.rawMode = true → (rawNext {} inp).done = true) → RawOk (d.close traceIf k).1 (d.close traceIf k).2) ∧ (d.close traceIf k).1.rawMode = d.rawMode ∧
    (d.rawMode = false → (d.close traceIf k).2.hdrs = k.hdrs) ∧ (∃ e : Trace, (d.close traceIf k).2 = k ++ e) := by
  obtain ⟨h, ⟨q1, q2, q3⟩, r⟩ := g
  unfold Dev.close
  rw [if_neg (by rw [q2]; exact Bool.false_ne_true)]
  have hinv : ({ d with final := true } : Dev).Inv k inp := h
  have ⟨f1, f2, _, f4, f6, f7, f8⟩ := Dev.flush_inv { d with final := true } k inp hinv
  have hflag : eofFlag { d with final := true } = true := by simp [eofFlag, q2]
  have hk := f7 hflag
  have hr0 : RawOk { d with final := true } k := by
    unfold RawOk; intro hm; exact r hm
  -- the parser is complete after this write (raw modes)
  have hdone : (d.rawMode = true → (rawNext {} inp).done = true) →
      ({ d with final := true }.flush traceIf k).1.rawMode = true → ({ d with final := true }.flush traceIf k).1.raw.done = true := by
    intro hraw hm
    obtain ⟨fed, _, _, g3, _, g5⟩ := f1
    rw [f2] at g3
    simp only [List.take_zero, List.append_nil] at g3
    rw [g5 hm, g3]
    exact hraw (by rw [← f4.mode]; exact hm)
  have hseal : Sealed ({ d with final := true }.flush traceIf k).1 := by
    refine ⟨by rw [f4.final], ?_⟩
    rw [f8, hflag]; simp
  refine ⟨f6, ?_, ?_, hk, f1, hseal, ?_, f4.mode, fun hm => f4.hdrs_nonraw hm, f4.extends⟩
  · unfold Dev.content; rw [f2]; simp
  · simp only [Trace.eofs] at q3 ⊢
    rw [hk, List.filter_append]
    simp [q3]
  · intro hraw
    by_cases hm : d.rawMode = true
    · exact hr0.step f4 (Or.inr (hdone hraw (by rw [f4.mode]; exact hm)))
    · intro hm'; rw [f4.mode] at hm'; exact absurd hm' hm

end Cppcms.C03
